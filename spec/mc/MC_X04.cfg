SPECIFICATION Spec
INVARIANTS InvGeodesic InvAxisAngle InvRna InvPow InvLookAt InvRel InvTwins
CHECK_DEADLOCK FALSE
