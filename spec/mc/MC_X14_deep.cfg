SPECIFICATION Spec
CONSTANT Deep = TRUE
INVARIANTS InvGen InvLin InvEnds InvLoop InvFlt InvLn InvLat InvPer
PROPERTIES GenStep LoopTerminates
CHECK_DEADLOCK FALSE
