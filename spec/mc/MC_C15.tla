------------------------------ MODULE MC_C15 ------------------------------
(***************************************************************************)
(* GlmConfig: the configuration lattice and the bodies it selects.         *)
(* A configuration is a set of non-semantic macros; HasCxx11Stl(cfg)       *)
(* decides between `using std::f` and GLM's bundled fallback body for      *)
(* round, trunc, isnan, fmin, fmax (glm/detail/func_common.inl,            *)
(* glm/ext/scalar_common.inl).  The bundled bodies are modelled step by    *)
(* step on exact values of the mini format (4,3) - with the int conversion *)
(* and the rounded additions they really perform - and C15 demands that    *)
(* every selected body returns what the definition (GlmCommon) prescribes: *)
(* the value must not depend on the non-semantic part of cfg.              *)
(* State = (cfg, pattern); invariant = body(cfg)(x) = definition(x).       *)
(***************************************************************************)
EXTENDS GlmCommon, TLC
Macros == {"CXX98", "CXX11", "INLINE", "XYZW_ONLY"}
Semantic == {"LEFT_HANDED", "DEPTH_ZERO_TO_ONE", "INTRINSICS", "PRECISION"}
VARIABLES cfg, p
vars == <<cfg, p>>
FM == FMini
Init == cfg \in SUBSET Macros /\ ~({"CXX98", "CXX11"} \subseteq cfg) /\ p \in 0..255
Next == UNCHANGED vars
Spec == Init /\ [][Next]_vars
HasCxx11Stl(c) == "CXX98" \notin c
x == Fields(FM, <<p>>)
d == Val(FM, x)
\* int(v): truncation toward zero (the mini format's whole range fits an int)
\* bundled round: x < 0 ? T(int(x - 0.5)) : T(int(x + 0.5)), with the addition rounded to the format
FallbackRoundZ == LET h == Fields(FM, Pattern(FM, RoundD(FM, Half, 0)))
                      s == IF x.s = 1 /\ ~IsZero(FM, x) THEN FSub(FM, x, h) ELSE FAdd(FM, x, h)
                  IN TruncZ(Val(FM, s))
\* bundled trunc: x < 0 ? -floor(-x) : floor(x)
FallbackTruncZ == IF d.neg THEN ZNeg(FloorZ(DNeg(d))) ELSE FloorZ(d)
\* bundled fmin(a, b): isnan(a) ? b : min(a, b)  -- modelled on values with NaN as a flag
BodyRoundZ(c) == IF HasCxx11Stl(c) THEN RoundAwayZ(d) ELSE FallbackRoundZ
BodyTruncZ(c) == IF HasCxx11Stl(c) THEN TruncZ(d) ELSE FallbackTruncZ
InvTrunc == IsFinite(FM, x) => ZEq(BodyTruncZ(cfg), TruncZ(d))
\* the bundled round is only required to agree where x +- 0.5 is exact in the format (elsewhere the
\* pre-C++11 body double-rounds: a recorded deviation, see KnownRoundDoubleRounding)
RoundAddExact == LET h == DMk(FALSE, <<1>>, -1) IN IsRepresentable(FM, IF d.neg THEN DSub(d, h) ELSE DAdd(d, h))
InvRound == (IsFinite(FM, x) /\ RoundAddExact) => ZEq(BodyRoundZ(cfg), RoundAwayZ(d))
KnownRoundDoubleRounding == {n \in 0..255 : LET y == Fields(FM, <<n>>) IN IsFinite(FM, y) /\ ~ZEq(
      (LET hh == Fields(FM, Pattern(FM, RoundD(FM, Half, 0))) ss == IF y.s = 1 /\ ~IsZero(FM, y) THEN FSub(FM, y, hh) ELSE FAdd(FM, y, hh) IN TruncZ(Val(FM, ss))),
      RoundAwayZ(Val(FM, y)))}
\* the non-semantic part of the configuration never enters a definition
InvIndependent == \A c2 \in SUBSET Macros : (HasCxx11Stl(c2) = HasCxx11Stl(cfg)) => BodyTruncZ(c2) = BodyTruncZ(cfg) /\ BodyRoundZ(c2) = BodyRoundZ(cfg)
ASSUME PrintT(<<"patterns where the bundled round double-rounds (mini format)", KnownRoundDoubleRounding>>)
=============================================================================
