------------------------------ MODULE MC_C17 ------------------------------
(***************************************************************************)
(* Bounded model for C17 (swizzles and constructors place exactly the      *)
(* named components).  One state machine with four kinds of states:        *)
(*                                                                         *)
(*  swz  - every index pattern (1..4 letters) over every source length     *)
(*         1..4 and every letter set starts in phase "fresh" holding the   *)
(*         tagged vector <<11,22,33,44>>; a writable pattern takes one     *)
(*         SwizzleWrite step that assigns <<5,6,7,8>> through it and ends  *)
(*         in phase "written".                                             *)
(*  ctor - every vector constructor shape (sequence of scalar / vec1 /     *)
(*         vec2 / vec3 / vec4 parts) for result lengths 1..4 consumes its  *)
(*         arguments left to right, appending the components it takes.     *)
(*  mat  - every pair of matrix shapes (81) for mat<C,R>(mat<C2,R2>).      *)
(*  qua  - the quaternion constructor forms.                               *)
(*                                                                         *)
(* Invariants = the laws of the property text: name <-> index tuple is a   *)
(* bijection, a read returns the named components in the named order,      *)
(* write-then-read returns what was written, unnamed components keep       *)
(* their value (frame), constructor arguments cover the result exactly     *)
(* once and in order, single scalar = broadcast, single longer vector =    *)
(* truncation, matrix conversion = copy of the overlap padded with the     *)
(* identity.  Emit writes the enumeration (E2) for the C++ generator.      *)
(***************************************************************************)
EXTENDS GlmSwizzle, GlmCtor, TLC, Json, IOUtils
VARIABLE st
vars == <<st>>

Tags == <<11, 22, 33, 44>>
NewVals == <<5, 6, 7, 8>>
Prefix(s, n) == [i \in 1..n |-> s[i]]

SwzStates == UNION {UNION {UNION {{[kind |-> "swz", sl |-> sl, set |-> set, idx |-> idx, v |-> Prefix(Tags, sl), ph |-> "fresh"]
                                   : idx \in Patterns(sl, rl)} : rl \in 1..4} : sl \in 1..4} : set \in SetNames}
CtorStates == UNION {{[kind |-> "ctor", n |-> n, parts |-> p, k |-> 0, out |-> << >>] : p \in VecShapes(n)} : n \in 1..4}
Shapes == (2..4) \X (2..4)
MatStates == {[kind |-> "mat", C |-> a[1], R |-> a[2], C2 |-> b[1], R2 |-> b[2]] : a \in Shapes, b \in Shapes}

QuaKinds == {"wxyz", "static_wxyz", "sv", "conv", "xyzw"}
QuaStates == {[kind |-> "qua", form |-> f] : f \in QuaKinds}

Init == st \in SwzStates \cup CtorStates \cup MatStates \cup QuaStates

SwizzleWrite == /\ st.kind = "swz" /\ st.ph = "fresh" /\ Writable(st.idx)
                /\ st' = [st EXCEPT !.v = SwzWrite(st.idx, st.v, Prefix(NewVals, Len(st.idx))), !.ph = "written"]
Consume == /\ st.kind = "ctor" /\ st.k < Len(st.parts)
           /\ st' = IF Len(st.parts) = 1
                    THEN [st EXCEPT !.k = 1, !.out = IF PartSize(st.parts[1]) = 1 THEN [i \in 1..st.n |-> SArg(1, 1)]
                                                      ELSE [i \in 1..st.n |-> SArg(1, i)]]
                    ELSE [st EXCEPT !.k = st.k + 1, !.out = st.out \o [j \in 1..PartSize(st.parts[st.k + 1]) |-> SArg(st.k + 1, j)]]
Next == SwizzleWrite \/ Consume
Spec == Init /\ [][Next]_vars

----------------------------------------------------------------------------
(* swizzles *)
IsSwz == st.kind = "swz"
RL == Len(st.idx)
InvBijection ==
    IsSwz => /\ ValidIdx(st.sl, st.idx)
             /\ IdxOf(st.set, LettersOf(st.set, st.idx)) = st.idx                        \* the name determines the tuple
             /\ \A o \in Patterns(st.sl, RL) : o # st.idx => NameOf(st.set, o) # NameOf(st.set, st.idx)    \* and vice versa
             /\ \A s2 \in SetNames \ {st.set} : \A k \in 1..RL : Index(s2, LettersOf(st.set, st.idx)[k]) = -1
             /\ \A s2 \in SetNames : IdxOf(s2, LettersOf(s2, st.idx)) = st.idx            \* x=r=s, y=g=t, z=b=p, w=a=q
InvRead ==
    IsSwz /\ st.ph = "fresh" =>
        /\ Len(Swz(st.idx, st.v)) = RL
        /\ \A k \in 1..RL : Swz(st.idx, st.v)[k] = 11 * (st.idx[k] + 1)
InvWriteRead == IsSwz /\ st.ph = "written" => Writable(st.idx) /\ Swz(st.idx, st.v) = Prefix(NewVals, RL)
InvFrame ==
    IsSwz /\ st.ph = "written" =>
        /\ Len(st.v) = st.sl
        /\ \A i \in 1..st.sl : (\A k \in 1..RL : st.idx[k] + 1 # i) => st.v[i] = Tags[i]
        /\ Cardinality({i \in 1..st.sl : st.v[i] # Tags[i]}) = RL
InvFill ==
    IsSwz /\ st.ph = "fresh" /\ Writable(st.idx) =>
        /\ SwzFill(st.idx, st.v, 9) = SwzWrite(st.idx, st.v, [k \in 1..RL |-> 9])
        /\ SwzWrite(st.idx, st.v, Swz(st.idx, st.v)) = st.v                                \* writing back what was read changes nothing

(* vector constructors *)
IsCtor == st.kind = "ctor"
Lex(a, b) == a.a < b.a \/ (a.a = b.a /\ a.c < b.c)
InvCtorPrefix ==
    IsCtor => /\ Len(st.out) <= st.n
              /\ \A i \in 1..Len(st.out) : st.out[i] = VecSources(st.n, st.parts)[i]
InvCtorDone ==
    IsCtor /\ st.k = Len(st.parts) =>
        LET src == VecSources(st.n, st.parts) IN
        /\ st.out = src /\ Len(src) = st.n
        /\ \A i \in 1..st.n : src[i].k = "arg" /\ src[i].a \in 1..Len(st.parts) /\ src[i].c \in 1..PartSize(st.parts[src[i].a])
        /\ (Len(st.parts) >= 2 =>                                       \* cover the result exactly once, left to right
               /\ \A i, j \in 1..st.n : i < j => Lex(src[i], src[j])
               /\ \A a \in 1..Len(st.parts) : \A c \in 1..PartSize(st.parts[a]) : \E i \in 1..st.n : src[i] = SArg(a, c))
        /\ (Len(st.parts) = 1 /\ PartSize(st.parts[1]) = 1 => \A i \in 1..st.n : src[i] = SArg(1, 1))      \* broadcast
        /\ (Len(st.parts) = 1 /\ PartSize(st.parts[1]) > 1 => \A i \in 1..st.n : src[i] = SArg(1, i))      \* truncation

(* matrices *)
IsMat == st.kind = "mat"
Seq1(n, base) == [i \in 1..n |-> base + i]
Ident(C, R) == EvalSources(MatDiagSources(C, R), << <<1>> >>, 0, 1)
Conv(C, R, C2, R2, m) == EvalSources(MatFromMatSources(C, R, C2, R2), <<m>>, 0, 1)
Min(a, b) == IF a < b THEN a ELSE b
InvMatOverlap ==
    IsMat => LET m == Seq1(st.C2 * st.R2, 100)
                 r == Conv(st.C, st.R, st.C2, st.R2, m)
             IN /\ Len(r) = st.C * st.R
                /\ \A c \in 0..st.C-1 : \A w \in 0..st.R-1 :
                      r[MatIdx(st.R, c, w)] = IF c < st.C2 /\ w < st.R2 THEN m[MatIdx(st.R2, c, w)] ELSE IF c = w THEN 1 ELSE 0
InvMatIdentity == IsMat => Conv(st.C, st.R, st.C2, st.R2, Ident(st.C2, st.R2)) = Ident(st.C, st.R)
InvMatRoundTrip ==
    IsMat /\ st.C >= st.C2 /\ st.R >= st.R2 =>
        LET m == Seq1(st.C2 * st.R2, 100) IN Conv(st.C2, st.R2, st.C, st.R, Conv(st.C, st.R, st.C2, st.R2, m)) = m
InvMatCompose ==
    IsMat => \A s3 \in Shapes :
        (st.C2 >= Min(st.C, s3[1]) /\ st.R2 >= Min(st.R, s3[2])) =>
            LET m == Seq1(s3[1] * s3[2], 100)
            IN Conv(st.C, st.R, st.C2, st.R2, Conv(st.C2, st.R2, s3[1], s3[2], m)) = Conv(st.C, st.R, s3[1], s3[2], m)
InvMatDiag ==
    IsMat => LET d == EvalSources(MatDiagSources(st.C, st.R), << <<7>> >>, 0, 1)
             IN /\ \A c \in 0..st.C-1 : \A w \in 0..st.R-1 : d[MatIdx(st.R, c, w)] = IF c = w THEN 7 ELSE 0
                /\ Cardinality({i \in 1..st.C*st.R : d[i] = 7}) = Min(st.C, st.R)
InvMatColumns ==            \* C*R scalars in column-major order = C columns of R components
    IsMat => LET n == st.C * st.R
                 scal == [i \in 1..n |-> <<200 + i>>]
                 cols == [c \in 1..st.C |-> [w \in 1..st.R |-> 200 + (c - 1) * st.R + w]]
             IN EvalSources(MatScalarSources(st.C, st.R), scal, 0, 1) = EvalSources(MatColSources(st.C, st.R), cols, 0, 1)

(* quaternions: listed w, x, y, z; every form takes each result component from exactly one argument component *)
IsQua == st.kind = "qua"
QuaArgs(f) == CASE f \in {"wxyz", "static_wxyz"} -> << <<"w">>, <<"x">>, <<"y">>, <<"z">> >>
                [] f = "xyzw" -> << <<"x">>, <<"y">>, <<"z">>, <<"w">> >>
                [] f = "sv"   -> << <<"w">>, <<"x", "y", "z">> >>
                [] f = "conv" -> << <<"w", "x", "y", "z">> >>
InvQua == IsQua => /\ EvalSources(QuaSources(st.form), QuaArgs(st.form), "0", "1") = <<"w", "x", "y", "z">>
                   /\ \A i \in 1..4 : QuaSources(st.form)[i].k = "arg"
                   /\ \A i, j \in 1..4 : i # j => QuaSources(st.form)[i] # QuaSources(st.form)[j]

----------------------------------------------------------------------------
(* non-vacuity: the enumeration has the sizes the property text quantifies over *)
Perm(n, k) == IF k > n THEN 0 ELSE CASE k = 1 -> n [] k = 2 -> n * (n - 1) [] k = 3 -> n * (n - 1) * (n - 2) [] k = 4 -> n * (n - 1) * (n - 2) * (n - 3)
ASSUME \A rl \in 1..4 : Cardinality(Patterns(4, rl)) = 4^rl                       \* 4 + 16 + 64 + 256
ASSUME Cardinality(SwzStates) = 3 * ((1 + 1 + 1 + 1) + (2 + 4 + 8 + 16) + (3 + 9 + 27 + 81) + (4 + 16 + 64 + 256))
ASSUME \A sl \in 1..4 : \A rl \in 1..4 : Cardinality({p \in Patterns(sl, rl) : Writable(p)}) = Perm(sl, rl)
ASSUME <<Cardinality(VecShapes(1)), Cardinality(VecShapes(2)), Cardinality(VecShapes(3)), Cardinality(VecShapes(4))>> = <<5, 9, 16, 36>>
ASSUME Cardinality(MatStates) = 81

----------------------------------------------------------------------------
(* E2: the enumeration for the generator, one text line per initial state *)
RECURSIVE Join(_)
Join(s) == IF Len(s) = 0 THEN "" ELSE IF Len(s) = 1 THEN s[1] ELSE s[1] \o "," \o Join(Tail(s))
Line ==
    CASE st.kind = "swz"  -> "swz " \o ToString(st.sl) \o " " \o ToString(Len(st.idx)) \o " " \o st.set \o " "
                             \o NameOf(st.set, st.idx) \o " " \o (IF Writable(st.idx) THEN "1" ELSE "0")
      [] st.kind = "ctor" -> "ctor " \o ToString(st.n) \o " " \o Join(st.parts)
      [] st.kind = "mat"  -> "mat " \o ToString(st.C) \o " " \o ToString(st.R) \o " " \o ToString(st.C2) \o " " \o ToString(st.R2)
      [] st.kind = "qua"  -> "qua " \o st.form
IsInitial == (st.kind = "swz" /\ st.ph = "fresh") \/ (st.kind = "ctor" /\ st.k = 0) \/ st.kind \in {"mat", "qua"}
Emit == ("OUT" \in DOMAIN IOEnv /\ IsInitial) =>
            Serialize(Line \o "\n", IOEnv.OUT, [format |-> "TXT", charset |-> "UTF-8", openOptions |-> <<"WRITE", "CREATE", "APPEND">>]).exitValue = 0
=============================================================================
