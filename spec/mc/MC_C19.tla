------------------------------ MODULE MC_C19 ------------------------------
(***************************************************************************)
(* Bounded model for the colour-space conversions.  A counter walks        *)
(* through every triple (i, j, k) of a K x K x K cube; in every state the  *)
(* definitions of GlmColor.tla are checked against the laws of the         *)
(* property text:                                                          *)
(*   InvLifting  YCoCg-R integer lifting: closed form of the forward       *)
(*               values, dynamic range, exactly lossless over Z (signed    *)
(*               triples too) and modulo 2^W on all W-bit word triples     *)
(*   InvYCoCg    YCoCg / rational YCoCg-R mutually inverse, ranges         *)
(*   InvHsv      HSV <-> RGB mutually inverse on the rational cube and on  *)
(*               an (h, s, v) grid with all sector boundaries; hue in      *)
(*               [0,360), s, v in [0,1]; sector partition total, disjoint  *)
(*               and consistent with the ordering of the channels;         *)
(*               continuity across every sector boundary incl. 360 = 0     *)
(*   InvSat      saturation matrix preserves greys, alpha and luminance,   *)
(*               is the identity at s = 1, the luminance at s = 0          *)
(*   InvSrgb     rational skeleton of the transfer curves (points x = t^gp *)
(*               where the power is rational): the bracket predicates      *)
(*               accept the exact curve value and reject a value 3         *)
(*               tolerances away; the curves fix 0 and 1, map [0,1] into   *)
(*               [0,1], are monotone on the grid, invert each other above  *)
(*               the knee; the two segments meet to within the accuracy of *)
(*               the constants for gamma = 2.4 -- and do NOT for any other *)
(*               gamma (the recorded deviation of the custom-gamma         *)
(*               overloads)                                                *)
(***************************************************************************)
EXTENDS GlmColor, TLC
CONSTANTS K, W
VARIABLE n
vars == <<n>>
\* the states form a binary tree (heap numbering) so that the breadth-first search keeps all workers busy
Init == n = 0
Next == \E c \in {2 * n + 1, 2 * n + 2} : c < K * K * K /\ n' = c
Spec == Init /\ [][Next]_vars

i == n % K
j == (n \div K) % K
k == n \div (K * K)
Z(a) == ZFromInt(a)
ZT(s) == [x \in 1..3 |-> ZToInt(s[x])]
QEq3(a, b) == \A x \in 1..3 : QEq(a[x], b[x])
In01(q) == QSign(q) >= 0 /\ QLe(q, QOne)

----------------------------------------------------------------------------
Lift(r, g, b) == ZT(YCoCgROfRgbZ(<<Z(r), Z(g), Z(b)>>))
InvLifting ==
    /\ \A off \in {0, -(K \div 2)} :
         LET r == i + off g == j + off b == k + off y == Lift(r, g, b) IN
         /\ y = << (r + 2 * g + b) \div 4, r - b, g - ((r + b) \div 2) >>            \* closed form (floor division)
         /\ ZT(RgbOfYCoCgRZ(<<Z(y[1]), Z(y[2]), Z(y[3])>>)) = <<r, g, b>>           \* exactly lossless
         /\ (off = 0 => y[1] \in 0..K-1 /\ y[2] \in -(K-1)..(K-1) /\ y[3] \in -(K-1)..(K-1))   \* one extra bit for the chroma
         /\ YCoCgRFwdTerms(<<Z(r), Z(g), Z(b)>>) \subseteq {Z(t) : t \in -(2*K)..(2*K)}
    \* the inverse is also a left inverse: forward(inverse(y)) = y for arbitrary (Y, Co, Cg)
    /\ LET y == <<Z(i), Z(j - K \div 2), Z(k - K \div 2)>> c == RgbOfYCoCgRZ(y) IN ZT(YCoCgROfRgbZ(c)) = ZT(y)
    \* modulo 2^W: every word triple, signed and unsigned reading
    /\ (i < 2^W /\ j < 2^W /\ k < 2^W) =>
         \A sg \in BOOLEAN :
           LET rd(a) == WToZ(W, sg, NFromNat(a))
               c == <<rd(i), rd(j), rd(k)>>
               y == YCoCgROfRgbW(W, sg, c)
           IN /\ \A x \in 1..3 : ZInRange(W, sg, y[x])
              /\ ZT(RgbOfYCoCgRW(W, sg, y)) = ZT(c)
              /\ ((\A t \in YCoCgRFwdTerms(c) : ZInRange(W, sg, t)) => ZT(y) = ZT(YCoCgROfRgbZ(c)))

----------------------------------------------------------------------------
Cube == << QR(i, K - 1), QR(j, K - 1), QR(k, K - 1) >>
InvYCoCg ==
    LET c == Cube y == YCoCgOfRgb(c) yr == YCoCgROfRgbQ(c) IN
    /\ QEq3(RgbOfYCoCg(y), c)
    /\ QEq3(YCoCgOfRgb(RgbOfYCoCg(c)), c)                    \* the cube point read as (Y, Co, Cg)
    /\ In01(y[1]) /\ QLe(QAbs(y[2]), QHalf) /\ QLe(QAbs(y[3]), QHalf)
    /\ QEq3(RgbOfYCoCgRQ(yr), c)
    /\ QEq3(YCoCgROfRgbQ(RgbOfYCoCgRQ(c)), c)
    /\ QEq(yr[1], y[1]) /\ QEq(yr[2], QMulInt(y[2], 2)) /\ QEq(yr[3], QMulInt(y[3], 2))

----------------------------------------------------------------------------
\* which channel is largest / smallest in each sector
SectorShape(s, c) ==
    LET mx == QMax3(c) mn == QMin3(c) IN
    CASE s = 0 -> QEq(c[1], mx) /\ QEq(c[3], mn) [] s = 1 -> QEq(c[2], mx) /\ QEq(c[3], mn)
      [] s = 2 -> QEq(c[2], mx) /\ QEq(c[1], mn) [] s = 3 -> QEq(c[3], mx) /\ QEq(c[1], mn)
      [] s = 4 -> QEq(c[3], mx) /\ QEq(c[2], mn) [] s = 5 -> QEq(c[1], mx) /\ QEq(c[2], mn)
HsvGrid == << QR((i * K + j) * 3, 2), QR(k \div 4, (K - 1) \div 4), QR((k % 4) + 1, 4) >>     \* hue in steps of 1.5 degrees
InvHsv ==
    /\ LET c == Cube IN
       ~QIsZero(QMax3(c)) =>
         LET h == HsvOfRgb(c) grey == QEq(QMax3(c), QMin3(c)) IN
         /\ In01(h[2]) /\ In01(h[3]) /\ QEq(h[3], QMax3(c))
         /\ (grey <=> QIsZero(h[2]))
         /\ QSign(h[1]) >= 0 /\ QLt(h[1], Q360)
         /\ QEq3(RgbOfHsv(h), c)
         /\ (~grey => HueSector(h[1]) \in 0..5 /\ SectorShape(HueSector(h[1]), c))
    /\ LET h == HsvGrid IN
       (QLt(h[1], Q360) /\ QLe(h[2], QOne)) =>
         LET c == RgbOfHsv(h) s == HueSector(h[1]) IN
         /\ s \in 0..5 /\ Cardinality({t \in 0..5 : QLe(QI(60 * t), h[1]) /\ QLt(h[1], QI(60 * t + 60))}) = 1
         /\ QLe(QI(60 * s), h[1]) /\ QLt(h[1], QI(60 * s + 60))
         /\ \A x \in 1..3 : In01(c[x])
         /\ QEq(QMax3(c), h[3]) /\ QEq(QMin3(c), QMul(h[3], QSub(QOne, h[2])))
         /\ SectorShape(s, c)
         /\ (~QIsZero(h[2]) => QEq3(HsvOfRgb(c), h))
         /\ (QIsZero(h[2]) => QEq3(c, <<h[3], h[3], h[3]>>))
    \* continuity across sector boundaries (fraction 1 of a sector = fraction 0 of the next, 360 = 0)
    /\ LET s == QR(j, K - 1) v == QR(k, K - 1) IN
       \A t \in 0..5 : QEq3(RgbOfSector(t, QOne, s, v), RgbOfSector((t + 1) % 6, QZero, s, v))

----------------------------------------------------------------------------
InvSat ==
    LET s == QR(i - K \div 4, K \div 4) g == QR(j, K - 1) a == QR(k, K - 1)
        m == SatMatrix(s) c == <<Cube[3], Cube[1], Cube[2], a>> IN
    /\ LET r == SatApply(s, <<g, g, g, a>>) IN QEq(r[1], g) /\ QEq(r[2], g) /\ QEq(r[3], g) /\ QEq(r[4], a)
    /\ QEq(QSum(LumaRec709), QOne)
    /\ QEq(QSum(LumaDoc), QR(103, 100))                               \* the documented luminosity weights do not sum to 1
    /\ LET r == SatApply(s, c) IN QEq(Dot3(LumaRec709, r), Dot3(LumaRec709, c)) /\ QEq(r[4], a)
    /\ LET r == SatApply(s, c) e == SatColour(s, c) IN \A x \in 1..3 : QEq(r[x], e[x])       \* closed form used by the trace specification
    /\ LET r == SatApply(QOne, c) IN \A x \in 1..4 : QEq(r[x], c[x])
    /\ LET r == SatApply(QZero, c) l == Dot3(LumaRec709, c) IN QEq(r[1], l) /\ QEq(r[2], l) /\ QEq(r[3], l)
    /\ LET sd == DMk(i < K \div 4, NFromNat(IF i < K \div 4 THEN K \div 4 - i ELSE i - K \div 4), -2)         \* s as a dyadic (K = 16)
           cd == << DMk(FALSE, NFromNat(k), -4), DMk(FALSE, NFromNat(i), -4), DMk(FALSE, NFromNat(j), -4) >>
           cq == [x \in 1..3 |-> QFromD(cd[x])]
       IN /\ K = 16 => QEq(QFromD(sd), s)
          /\ \A x \in 1..3 : QEq(QFromD(SatColourD(sd, cd)[x]), QMulInt(SatColour(QFromD(sd), cq)[x], 10000))
          /\ QEq(QFromD(LumaDocD(cd)), QMulInt(Dot3(LumaDoc, cq), 100))
    /\ \A x \in 1..3 : QEq(m[4 * (x - 1) + 4], QZero) /\ QEq(m[12 + x], QZero)
    /\ QEq(m[16], QOne)

----------------------------------------------------------------------------
(* rational skeleton of the sRGB curves: for gamma = gp/gq and x = t^gp,  x^(1/gamma) = t^gq *)
Gammas == << <<12, 5>>, <<11, 5>>, <<1, 1>>, <<2, 1>>, <<3, 1>>, <<3, 2>> >>
T(a) == QR(a, K - 1)
Dy(a, e) == DMk(FALSE, NFromNat(a), e)
QofD(d) == QFromD(d)
\* exact forward curve at x = t^gp (as a rational), with the real-number knee
FwdAt(t, gp, gq) == LET x == QPowN(t, gp) IN IF QLt(x, KneeLinQ) THEN QMul(SlopeQ, x) ELSE QSub(QMul(QR(1055, 1000), QPowN(t, gq)), QR(55, 1000))
\* exact inverse curve at y = 1.055 t^gq - 0.055: t^gp above the knee
InvAt(t, gp, gq) == LET y == QSub(QMul(QR(1055, 1000), QPowN(t, gq)), QR(55, 1000)) IN IF QLe(y, KneeSrgbQ) THEN QDiv(y, SlopeQ) ELSE QPowN(t, gp)
\* dyadic sample points: t = a / 16 is dyadic, so x = t^gp is a dyadic and the curve value 1.055 t^gq - 0.055 is
\* approximated by a dyadic r within 2^-40; the brackets must accept r and reject r +- 3 tolerances
InvSrgb ==
    (j = 0 /\ k = 0) =>                                  \* depends on i only
    /\ \A gi \in 1..Len(Gammas) :
         LET gp == Gammas[gi][1] gq == Gammas[gi][2] IN
         /\ QEq(FwdAt(QZero, gp, gq), QZero) /\ QEq(FwdAt(QOne, gp, gq), QOne)
         /\ QEq(InvAt(QOne, gp, gq), QOne)
         /\ (i < K - 1 =>
               LET a == FwdAt(T(i), gp, gq) b == FwdAt(T(i + 1), gp, gq)
                   sameSeg == QLt(QPowN(T(i), gp), KneeLinQ) = QLt(QPowN(T(i + 1), gp), KneeLinQ)
               IN /\ (sameSeg => QLt(a, b))                                          \* each segment strictly increasing
                  /\ (gp = 12 /\ gq = 5 => QLt(a, b))                                 \* and across the knee for the standard gamma
                  /\ (QLe(QR(55, 1055), QPowN(T(i), gq)) => In01(a))                  \* inside [0,1] wherever 1.055 X - 0.055 >= 0
                  /\ QLt(InvAt(T(i), gp, gq), InvAt(T(i + 1), gp, gq)) \/ ~QLe(KneeSrgbQ, QSub(QMul(QR(1055, 1000), QPowN(T(i), gq)), QR(55, 1000))))
         /\ In01(InvAt(T(i), gp, gq)) \/ QSign(QSub(QMul(QR(1055, 1000), QPowN(T(i), gq)), QR(55, 1000))) < 0
         \* above both knees the two curves are exact inverses of each other
         /\ LET x == QPowN(T(i), gp) y == FwdAt(T(i), gp, gq) IN
            (~QLt(x, KneeLinQ) /\ ~QLe(y, KneeSrgbQ)) => QEq(InvAt(T(i), gp, gq), x)
         \* the bracket predicates on dyadic points x = (a/16)^gp
         /\ LET a == i + 1 IN
            (a >= 1 /\ a <= 16) =>
              LET x  == DPowN(Dy(a, -4), gp)
                  cq == QSub(QMul(QR(1055, 1000), QofD(DPowN(Dy(a, -4), gq))), QR(55, 1000))        \* exact curve value
                  rf == RoundQ(F64, cq, 0)
                  r  == Val(F64, rf)
                  up == DAdd(r, DPow2(-18)) dn == DSub(r, DPow2(-18))                          \* 3.8e-6 away
              IN /\ PowFwdWithin(x, r, gp, gq, -10, -10)
                 /\ PowFwdWithin(x, r, gp, gq, -38, -38)
                 /\ ~PowFwdWithin(x, up, gp, gq, -10, -10) /\ ~PowFwdWithin(x, dn, gp, gq, -10, -10)
                 /\ PowFwdWithin(x, up, gp, gq, -7, -10) /\ ~PowFwdWithin(x, dn, gp, gq, -7, -10)     \* the asymmetric (default exponent) bracket
                 \* inverse: sRGB value r maps back to x
                 /\ (DSign(r) >= 0 =>
                       LET xr == Val(F64, RoundD(F64, x, 0)) IN
                       /\ PowInvWithin(r, xr, gp, gq, -20) /\ PowInvWithin(r, xr, gp, gq, -44)
                       /\ ~PowInvWithin(r, DAdd(xr, DPow2(-18)), gp, gq, -20)
                       /\ ~PowInvWithin(r, DSub(xr, DPow2(-18)), gp, gq, -20))
    \* the knee: for gamma = 12/5 the power segment at 0.0031308 is within 1.3e-7 of the linear toe (but not 1.5e-8:
    \* the constants are not exact), the inverse knee likewise
    /\ LET kx == Val(F64, RoundQ(F64, KneeLinQ, 0)) ky == Val(F64, RoundQ(F64, QMul(SlopeQ, KneeLinQ), 0)) IN
       /\ PowFwdWithin(kx, ky, 12, 5, -13, -13) /\ ~PowFwdWithin(kx, ky, 12, 5, -16, -16)
       /\ \A gi \in 2..Len(Gammas) : ~PowFwdWithin(kx, ky, Gammas[gi][1], Gammas[gi][2], -4, -4)   \* other gammas: a jump > 6e-5
    /\ LET ky == Val(F64, RoundQ(F64, KneeSrgbQ, 0)) kx == Val(F64, RoundQ(F64, QDiv(KneeSrgbQ, SlopeQ), 0)) IN
       /\ PowInvWithin(ky, kx, 12, 5, -26) /\ ~PowInvWithin(ky, kx, 12, 5, -30)
       /\ \A gi \in 2..Len(Gammas) : ~PowInvWithin(ky, kx, Gammas[gi][1], Gammas[gi][2], -14)
    \* the literal thresholds in both element types bracket the real constants within half an ulp
    /\ QNear(QFromD(KneeLin32), KneeLinQ, QFromD(DPow2(-32))) /\ QNear(QFromD(KneeLin64), KneeLinQ, QFromD(DPow2(-61)))
    /\ QNear(QFromD(KneeSrgb32), KneeSrgbQ, QFromD(DPow2(-28))) /\ QNear(QFromD(KneeSrgb64), KneeSrgbQ, QFromD(DPow2(-57)))
    \* 8th-root helper of the lowp approximation: floor(2^30 x^(1/8)) on exact 8th powers; the polynomial fixes 0 and 1 to 1e-8
    /\ LET a == i + 1 IN Root8(DPowN(Dy(a, -5), 8), 30) = NShl(NFromNat(a), 25)
    /\ QNear(LowpSrgbApprox(DOne), QOne, QR(1, 100000000)) /\ QIsZero(LowpSrgbApprox(DZero))
=============================================================================
