SPECIFICATION Spec
INVARIANTS InvWidenExact InvMidExact InvOrdered InvContiguous InvRoundTrip InvCover InvModel EmitTable
CHECK_DEADLOCK FALSE
