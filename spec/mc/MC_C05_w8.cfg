CONSTANTS W = 8
CheckFields = TRUE
SPECIFICATION Spec
INVARIANTS InvCountLadder InvReverseLadder InvSmear InvResults InvLaws InvFields
CHECK_DEADLOCK FALSE
