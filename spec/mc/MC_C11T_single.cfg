CONSTANTS FMT <- FmtSingle
Sampled = TRUE
Emit = TRUE
SPECIFICATION Spec
INVARIANTS InvRoundings InvFract InvModf InvFrexp InvNearest InvAbsSign
CHECK_DEADLOCK FALSE
