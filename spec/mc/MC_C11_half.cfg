CONSTANTS FMT <- FmtHalf
Stride = 3
SPECIFICATION Spec
INVARIANTS InvFloorCeil InvRound InvFract InvModel
CHECK_DEADLOCK FALSE
