CONSTANTS FMT <- FmtHalf
Sampled = FALSE
Emit = FALSE
SPECIFICATION Spec
INVARIANTS InvRoundings InvFract InvModf InvFrexp InvNearest InvAbsSign
CHECK_DEADLOCK FALSE
