SPECIFICATION Spec
INVARIANTS InvTotal InvBroadcast InvIndependent InvInjective
CHECK_DEADLOCK FALSE
