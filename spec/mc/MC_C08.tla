------------------------------ MODULE MC_C08 ------------------------------
(***************************************************************************)
(* Bounded model for the projection builders (C08).  The state is the      *)
(* number of a parameter tuple (left<right, bottom<top, 0<near<far, T =    *)
(* tan(fovy/2), aspect) of a small rational grid; the tuples are walked as *)
(* a binary tree so that the TLC workers share them.  The invariants are   *)
(* the laws of the property text, evaluated ON THE CLOSED FORMS of         *)
(* GlmClip.tla in exact rational arithmetic:                               *)
(*   the eight corners of the view volume go to the corners of the clip    *)
(*   cube (after the perspective divide) with the depth and handedness of  *)
(*   the variant; perspective = symmetric frustum; perspectiveFov =        *)
(*   perspective(width/height); the infinite variants send the near plane  *)
(*   to -1/0 and infinity to +1 and are the limits of the finite ones;     *)
(*   project sends the clip cube to the viewport and depth [0,1];          *)
(*   unProject and project are mutually inverse; pickMatrix blows the pick *)
(*   region up to the whole clip square; the dispatch table is the one of  *)
(*   setup.hpp.  InvDiscriminates shows that the laws are not vacuous: the *)
(*   closed form of one variant violates the law of every other variant.   *)
(***************************************************************************)
EXTENDS GlmClip, FiniteSets, TLC
VARIABLE k
vars == <<k>>

\* all pairs lo < hi of an ascending four-element sequence
IdxPairs == << <<1, 2>>, <<1, 3>>, <<1, 4>>, <<2, 3>>, <<2, 4>>, <<3, 4>> >>
Asc(S) == [p \in 1..6 |-> << S[IdxPairs[p][1]], S[IdxPairs[p][2]] >>]

XS == << QI(-2), QF(-1, 2), QI(1), QI(3) >>
YS == << QI(-3), QI(-1), QF(1, 2), QI(2) >>
DS == << QF(1, 2), QI(1), QI(2), QI(8) >>
TS == << QF(1, 4), QF(1, 2), QI(1), QI(2), QI(4) >>
LR == Asc(XS)
BT == Asc(YS)
NF == Asc(DS)
ASSUME \A S \in {XS, YS, DS} : \A i \in 1..3 : QLt(S[i], S[i + 1])
NTuples == Len(LR) * Len(BT) * Len(NF) * Len(TS) * Len(TS)

Init == k = 1
Next == \E j \in {2 * k, 2 * k + 1} : j <= NTuples /\ k' = j
Spec == Init /\ [][Next]_vars

\* ---- decode the tuple
ix == k - 1
iLR == ix % Len(LR)
iBT == (ix \div Len(LR)) % Len(BT)
iNF == (ix \div (Len(LR) * Len(BT))) % Len(NF)
iT  == (ix \div (Len(LR) * Len(BT) * Len(NF))) % Len(TS)
iA  == (ix \div (Len(LR) * Len(BT) * Len(NF) * Len(TS))) % Len(TS)
pl == LR[iLR + 1][1]
pr == LR[iLR + 1][2]
pb == BT[iBT + 1][1]
pt == BT[iBT + 1][2]
pn == NF[iNF + 1][1]
pf == NF[iNF + 1][2]
pT == TS[iT + 1]
pA == TS[iA + 1]
BoxPart == iT = 0 /\ iA = 0          \* the box laws do not depend on (T, aspect): evaluate them once per box
FovPart == iLR = 0 /\ iBT = 0        \* and vice versa

\* ---- the law
VEq(a, b) == Len(a) = Len(b) /\ \A i \in 1..Len(a) : QEq(a[i], b[i])
ZNearOf(zo) == IF zo THEN QZero ELSE QMinusOne
EyeZ(d, lh) == IF lh THEN d ELSE QNeg(d)                      \* a point at distance d in front of the viewer
Ndc(c) == << QDiv(c[1], c[4]), QDiv(c[2], c[4]), QDiv(c[3], c[4]) >>
PM1(first) == IF first THEN QMinusOne ELSE QOne
\* M sends the corner (x, y) of the window (scaled by sc on this plane) at depth d to (+-1, +-1, depth) with clip w = wExp
CornerOK(M, lh, xlo, ylo, x, y, sc, d, depthExp, wExp) ==
    LET c == MVec(M, << QMul(x, sc), QMul(y, sc), EyeZ(d, lh), QOne >>)
    IN QEq(c[4], wExp) /\ VEq(Ndc(c), << PM1(xlo), PM1(ylo), depthExp >>)
\* the eight corners of an orthographic box / of a frustum
BoxLaw(M, lh, zo, l, r, b, t, n, f) ==
    \A xlo, ylo, near \in BOOLEAN :
        CornerOK(M, lh, xlo, ylo, IF xlo THEN l ELSE r, IF ylo THEN b ELSE t, QOne, IF near THEN n ELSE f,
                 IF near THEN ZNearOf(zo) ELSE QOne, QOne)
FrustumLaw(M, lh, zo, l, r, b, t, n, f) ==
    \A xlo, ylo, near \in BOOLEAN :
        LET d == IF near THEN n ELSE f IN
        CornerOK(M, lh, xlo, ylo, IF xlo THEN l ELSE r, IF ylo THEN b ELSE t, QDiv(d, n), d,
                 IF near THEN ZNearOf(zo) ELSE QOne, d)
\* far plane at infinity: near corners as above; along the axis 1 - depth(d) = c * n / d, so depth -> 1 from below
InfiniteLaw(M, lh, zo, T, a, n, top) ==
    LET tp == QMul(n, T) rt == QMul(tp, a) IN
    /\ \A xlo, ylo \in BOOLEAN :
          CornerOK(M, lh, xlo, ylo, IF xlo THEN QNeg(rt) ELSE rt, IF ylo THEN QNeg(tp) ELSE tp, QOne, n, ZNearOf(zo), n)
    /\ \A m \in {1, 2, 16, 1024, 1048576} :
          LET d == QMulInt(n, m) c == MVec(M, << QZero, QZero, EyeZ(d, lh), QOne >>) z == QDiv(c[3], c[4])
          IN QEq(c[4], d) /\ QLt(z, top) /\ QEq(QMul(QSub(top, z), d), QMul(QSub(top, ZNearOf(zo)), n))

Variants == BOOLEAN \X BOOLEAN          \* <<lh, zo>>

InvOrtho == BoxPart => \A v \in Variants : BoxLaw(Ortho(pl, pr, pb, pt, pn, pf, v[1], v[2]), v[1], v[2], pl, pr, pb, pt, pn, pf)
InvOrtho2D == BoxPart =>
    /\ MEq(Ortho2D(pl, pr, pb, pt), Ortho(pl, pr, pb, pt, QMinusOne, QOne, FALSE, FALSE))
    /\ \A xlo, ylo \in BOOLEAN : \A z \in {QMinusOne, QZero, QOne} :
          VEq(MVec(Ortho2D(pl, pr, pb, pt), << IF xlo THEN pl ELSE pr, IF ylo THEN pb ELSE pt, z, QOne >>),
              << PM1(xlo), PM1(ylo), QNeg(z), QOne >>)
InvFrustum == BoxPart => \A v \in Variants : FrustumLaw(Frustum(pl, pr, pb, pt, pn, pf, v[1], v[2]), v[1], v[2], pl, pr, pb, pt, pn, pf)
\* perspective is the symmetric frustum with top = n * T, right = top * aspect (and therefore obeys the frustum law)
InvPerspective == FovPart => \A v \in Variants :
    LET tp == QMul(pn, pT) rt == QMul(tp, pA)
        P == Perspective(pT, pA, pn, pf, v[1], v[2])
    IN /\ MEq(P, Frustum(QNeg(rt), rt, QNeg(tp), tp, pn, pf, v[1], v[2]))
       /\ FrustumLaw(P, v[1], v[2], QNeg(rt), rt, QNeg(tp), tp, pn, pf)
\* perspectiveFov(width, height) = perspective(aspect = width / height)
InvPerspectiveFov == FovPart => \A v \in Variants : \A h \in {QI(1), QI(3), QF(5, 2)} :
    /\ MEq(PerspectiveFov(pT, QMul(pA, h), h, pn, pf, v[1], v[2]), Perspective(pT, pA, pn, pf, v[1], v[2]))
    /\ (~QEq(pA, QOne) => ~MEq(PerspectiveFov(pT, h, QMul(pA, h), pn, pf, v[1], v[2]), Perspective(pT, pA, pn, pf, v[1], v[2])))
\* infinite variants: the law above, and they are the entry-wise limits of the finite perspective for far -> infinity:
\* (finite - infinite) * (far - near) does not depend on far
InvInfinite == FovPart => \A v \in Variants :
    LET I == InfinitePerspective(pT, pA, pn, v[1], v[2])
        P == Perspective(pT, pA, pn, pf, v[1], v[2])
        c == IF v[2] THEN QOne ELSE QTwo
        d == QSub(pf, pn)
    IN /\ InfiniteLaw(I, v[1], v[2], pT, pA, pn, QOne)
       /\ \A i \in 1..16 : i \notin {11, 15} => QEq(I.e[i], P.e[i])
       /\ QEq(QMul(QSub(P.e[11], I.e[11]), d), QMul(Sgn(v[1]), QMul(c, pn)))
       /\ QEq(QMul(QSub(P.e[15], I.e[15]), d), QNeg(QMul(c, QMul(pn, pn))))
\* tweaked: right handed, [-1,1]; infinity goes to 1 - ep; ep = 0 is infinitePerspectiveRH_NO
InvTweaked == FovPart =>
    /\ MEq(TweakedInfinitePerspective(pT, pA, pn, QZero), InfinitePerspective(pT, pA, pn, FALSE, FALSE))
    /\ \A ep \in {QZero, QF(1, 1024), QF(1, 8)} :
          InfiniteLaw(TweakedInfinitePerspective(pT, pA, pn, ep), FALSE, FALSE, pT, pA, pn, QSub(QOne, ep))

\* ---- project / unProject / pickMatrix
ProjPart == ix % 9 = 0                \* the project / unProject laws are evaluated on every ninth tuple
Viewport == << pl, pb, QMul(QSub(pr, pl), QI(160)), QMul(QSub(pt, pb), QI(120)) >>
Models == << MIdentity(4),
             Mat(4, 4, << QZero, QOne, QZero, QZero,  QMinusOne, QZero, QZero, QZero,  QZero, QZero, QOne, QZero,  QI(2), QI(-1), QI(3), QOne >>),
             Mat(4, 4, << QI(2), QZero, QOne, QZero,  QZero, QF(1, 2), QZero, QZero,  QMinusOne, QZero, QI(2), QZero,  QF(1, 2), QI(1), QI(-2), QOne >> ) >>
Model == Models[(ix % 3) + 1]
\* the clip cube (identity model and projection) goes to the viewport rectangle and depth [0,1]
InvProjectCube == ProjPart => \A zo \in BOOLEAN : \A xlo, ylo, near \in BOOLEAN :
    VEq(ProjectQ(<< PM1(xlo), PM1(ylo), IF near THEN ZNearOf(zo) ELSE QOne >>, MIdentity(4), MIdentity(4), Viewport, zo),
        << IF xlo THEN Viewport[1] ELSE QAdd(Viewport[1], Viewport[3]),
           IF ylo THEN Viewport[2] ELSE QAdd(Viewport[2], Viewport[4]),
           IF near THEN QZero ELSE QOne >>)
\* a view-volume corner goes to a viewport corner with depth 0 / 1 under the matching convention; the centre of
\* the near window goes to the viewport centre
InvProjectVolume == ProjPart => \A v \in Variants : \A xlo, ylo, near \in BOOLEAN :
    LET d == IF near THEN pn ELSE pf sc == QDiv(d, pn)
        eye == << QMul(IF xlo THEN pl ELSE pr, sc), QMul(IF ylo THEN pb ELSE pt, sc), EyeZ(d, v[1]) >>
    IN VEq(ProjectQ(eye, MIdentity(4), Frustum(pl, pr, pb, pt, pn, pf, v[1], v[2]), Viewport, v[2]),
           << IF xlo THEN Viewport[1] ELSE QAdd(Viewport[1], Viewport[3]),
              IF ylo THEN Viewport[2] ELSE QAdd(Viewport[2], Viewport[4]),
              IF near THEN QZero ELSE QOne >>)
Points == { << QI(1), QI(2), QI(-3) >>, << QF(-1, 2), QF(3, 4), QI(5) >> }
Wins == { << QAdd(Viewport[1], QI(3)), QAdd(Viewport[2], QF(5, 2)), QF(1, 4) >>, << QI(100), QI(-7), QOne >> }
Projs(v) == << Frustum(pl, pr, pb, pt, pn, pf, v[1], v[2]), Ortho(pl, pr, pb, pt, pn, pf, v[1], v[2]),
               Perspective(pT, pA, pn, pf, v[1], v[2]), InfinitePerspective(pT, pA, pn, v[1], v[2]) >>
\* mutually inverse (wherever the point has a non-zero clip w, resp. a finite pre-image); the depth convention of
\* project/unProject is independent of the one the projection was built for
InvRoundTrip == ProjPart => \A v \in Variants : \A j \in {((ix \div 9) % 2) + 1, ((ix \div 9) % 2) + 3} :     \* two of the four families per tuple
    LET P == Projs(v)[j]
        PMm == MMulN(P, Model)
        adj == Adj4N(PMm)
        det == Det4N(PMm)
        zo == IF j % 2 = 0 THEN v[2] ELSE ~v[2]
    IN /\ ~QIsZero(det)
       /\ (j <= 2 => QEq(det, MDet(MMul(P, Model))))                                 \* the normalising algebra agrees with LinQ
       /\ \A i \in 1..4 : VEq(MVecN(PMm, MCol(adj, i)), [r \in 1..4 |-> IF r = i THEN det ELSE QZero])   \* (P*M) * adj = det * I
       /\ \A p \in Points : ~QIsZero(ClipOf(p, Model, P)[4]) =>
               VEq(DeHom(UnProjectHomA(adj, ProjectQ(p, Model, P, Viewport, zo), Viewport, zo)), p)
       /\ \A w \in Wins : LET o == UnProjectHomA(adj, w, Viewport, zo) IN
               ~QIsZero(o[4]) => VEq(ProjectQ(DeHom(o), Model, P, Viewport, zo), w)
\* the division-free forms used by the trace specification are the definitions: window = N / D, and the scaled NDC
\* point has the same pre-image; the normalising dyadic-aware sum / product are the rational sum / product
InvHomForms == ProjPart => \A v \in Variants : \A zo \in BOOLEAN :
    LET P == Projs(v)[(ix % 4) + 1] adj == Adj4N(MMulN(P, Model)) IN
    /\ \A p \in Points : ~QIsZero(ClipOf(p, Model, P)[4]) =>
          LET h == ProjectHom(p, Model, P, Viewport, zo)
          IN VEq(<< QDiv(h[1], h[4]), QDiv(h[2], h[4]), QDiv(h[3], h[5]) >>, ProjectQ(p, Model, P, Viewport, zo))
    /\ \A w \in Wins : LET o == UnProjectHomA(adj, w, Viewport, zo) os == UnProjectHomS(adj, w, Viewport, zo) IN
          /\ QIsZero(o[4]) = QIsZero(os[4])
          /\ (~QIsZero(o[4]) => VEq(DeHom(o), DeHom(os)))
    /\ \A x \in {pl, pT, QF(3, 7)} : \A y \in {pb, pA, QF(-5, 48)} :
          /\ QEq(QAddN(x, y), QAdd(x, y)) /\ QEq(QMulN(x, y), QMul(x, y)) /\ QEq(QSubN(x, y), QSub(x, y))
          /\ (IsDyadicQ(x) => DEq(DOfQ(QN2(x)), DMk(x.p.neg, x.p.m, -Lg2(x.q))) /\ QEq(QFromD(DOfQ(x)), x))
          /\ DLe(LowD(DOfQ(QMulN(pf, QF(12345, 4096)))), DAbs(DOfQ(QMulN(pf, QF(12345, 4096)))))
          /\ DLe(DAbs(DOfQ(QMulN(pf, QF(-1234567, 4096)))), UpD(DOfQ(QMulN(pf, QF(-1234567, 4096)))))
\* the depth conventions differ: with the other convention the round trip still closes, but the images differ
InvDepthConvention == ProjPart => \A p \in Points :
    LET P == Frustum(pl, pr, pb, pt, pn, pf, FALSE, FALSE) IN
    ~QIsZero(ClipOf(p, Model, P)[4]) =>
        LET a == ProjectQ(p, Model, P, Viewport, TRUE) b == ProjectQ(p, Model, P, Viewport, FALSE)
        IN QEq(a[1], b[1]) /\ QEq(a[2], b[2]) /\ QEq(b[3], QAdd(QMul(a[3], QHalf), QHalf))
\* pickMatrix: the NDC image of the pick rectangle (centre c, size delta, in window coordinates) becomes [-1,1]^2
InvPick == ProjPart => \A c \in { << QAdd(Viewport[1], QI(5)), QAdd(Viewport[2], QI(7)) >>, << QI(-3), QF(9, 2) >> } :
           \A dl \in { << QI(4), QI(2) >>, << QF(1, 2), QI(40) >> } :
           \A xlo, ylo \in BOOLEAN : \A z \in {QMinusOne, QF(1, 3)} :
    LET wx == QAdd(c[1], QMul(PM1(xlo), QMul(dl[1], QHalf)))
        wy == QAdd(c[2], QMul(PM1(ylo), QMul(dl[2], QHalf)))
        nd == NdcOfWin(<< wx, wy, z >>, Viewport, TRUE)
    IN VEq(MVec(PickMatrix(c, dl, Viewport), nd), << PM1(xlo), PM1(ylo), z, QOne >>)

\* ---- configuration -> variant (setup.hpp:566-588 and the #if chains of the dispatchers)
InvDispatch ==
    /\ { ClipCfgOf(a, b) : a, b \in BOOLEAN } = ClipCfgs
    /\ \A lhF, zoF \in BOOLEAN :
        LET cfg == ClipCfgOf(lhF, zoF) IN
        /\ CfgLH(cfg) = lhF /\ CfgZO(cfg) = zoF
        /\ cfg = (IF lhF THEN CC_LH_BIT ELSE CC_RH_BIT) + (IF zoF THEN CC_ZO_BIT ELSE CC_NO_BIT)
        /\ Dispatch("U", cfg) = VariantName(lhF, zoF)
        /\ Dispatch("ZO", cfg) = VariantName(lhF, TRUE) /\ Dispatch("NO", cfg) = VariantName(lhF, FALSE)
        /\ Dispatch("LH", cfg) = VariantName(TRUE, zoF) /\ Dispatch("RH", cfg) = VariantName(FALSE, zoF)
    /\ Cardinality({ VariantName(v[1], v[2]) : v \in Variants }) = 4

\* ---- non-vacuity: the closed form of a variant breaks the law of every other variant, a swapped sign breaks its own
InvDiscriminates ==
    /\ BoxPart => \A v, u \in Variants : v # u =>
          /\ ~BoxLaw(Ortho(pl, pr, pb, pt, pn, pf, v[1], v[2]), u[1], u[2], pl, pr, pb, pt, pn, pf)
          /\ ~FrustumLaw(Frustum(pl, pr, pb, pt, pn, pf, v[1], v[2]), u[1], u[2], pl, pr, pb, pt, pn, pf)
    /\ BoxPart => \A v \in Variants :
          LET M == Frustum(pl, pr, pb, pt, pn, pf, v[1], v[2])
              Bad == Mat(4, 4, [i \in 1..16 |-> IF i = 9 THEN QAdd(M.e[i], QOne) ELSE M.e[i]])
          IN ~FrustumLaw(Bad, v[1], v[2], pl, pr, pb, pt, pn, pf)
    /\ FovPart => \A v, u \in Variants : v # u =>
          ~InfiniteLaw(InfinitePerspective(pT, pA, pn, v[1], v[2]), u[1], u[2], pT, pA, pn, QOne)
    /\ NTuples = 5400
=============================================================================
