SPECIFICATION Spec
INVARIANTS InvInputs InvSphere InvPlane InvEnds InvStep InvClosed InvAntipodal InvSpin InvChord InvSymmetry
CHECK_DEADLOCK FALSE
