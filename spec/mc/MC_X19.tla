------------------------------ MODULE MC_X19 ------------------------------
(***************************************************************************)
(* Bounded model of stage X19 (colour encoding, gradient paint, saturation *)
(* overloads, integer YCoCg).  The state machine enumerates families of    *)
(* small integer / rational configurations (root -> seed -> configuration, *)
(* so that all workers share the work) and applies a symmetry of each area *)
(* as an action:                                                           *)
(*   lin  (p0, d, pos)       actions: step along d (value + 1), step       *)
(*                           perpendicular to d (value unchanged)          *)
(*   rad  (cfg, pos)         action: double the offset from the focal      *)
(*                           point (value doubles)                         *)
(*   enc  (fn, c)            action: double the colour (linearity)         *)
(*   sat  (s, c)             action: compose with saturation t             *)
(*                           (M(s) M(t) = M(s t))                          *)
(*   ycc  (r, g, b)          action: exchange red and blue (Co changes     *)
(*                           sign, Y and Cg stay)                          *)
(* Invariants: the laws of the documentation on the definitions of GlmX19  *)
(* part 1 (exact rationals) and the agreement of the dyadic acceptance     *)
(* predicates of part 2 (used by Trace_X19) with them: acceptance of the   *)
(* exact result, rejection of a wrong one.  The ASSUMEs state the laws of  *)
(* the constant matrices - and that the literals of the two sRGB <-> XYZ   *)
(* (D65) functions do not satisfy them (the recorded deviation).           *)
(***************************************************************************)
EXTENDS GlmX19, TLC
GC == INSTANCE GlmColor
CONSTANT Deep                \* FALSE: the quick instance; TRUE: larger grids (thorough tier)
VARIABLE st
vars == <<st>>

LinP0 == IF Deep THEN {<<0, 0>>, <<1, 2>>, <<-3, 1>>} ELSE {<<0, 0>>, <<-3, 1>>}
LinD == {<<1, 0>>, <<0, 2>>, <<2, 2>>, <<-4, 0>>, <<3, 4>>, <<1, -2>>, <<-2, -3>>} \cup (IF Deep THEN {<<5, 1>>, <<7, -24>>} ELSE {})
Grid5 == IF Deep THEN {<<x, y>> : x \in -3..3, y \in -3..3} ELSE {<<x, y>> : x \in -2..2, y \in -2..2}
\* radial configurations: centre, radius, focal point (inside the circle)
RadCfg == << <<<<0, 0>>, 5, <<0, 0>>>>, <<<<0, 0>>, 5, <<3, 0>>>>, <<<<0, 0>>, 5, <<0, -4>>>>, <<<<1, -2>>, 10, <<1, -2>>>>,
             <<<<1, -2>>, 10, <<7, -2>>>>, <<<<0, 0>>, 13, <<5, 0>>>>, <<<<-1, 1>>, 5, <<1, 2>>>>, <<<<0, 0>>, 4, <<-2, 2>>>> >>
Grid7 == IF Deep THEN {<<x, y>> : x \in -4..4, y \in -4..4} ELSE {<<x, y>> : x \in -3..3, y \in -3..3}
Cube4 == IF Deep THEN {<<r, g, b>> : r \in 0..4, g \in 0..4, b \in 0..4} ELSE {<<r, g, b>> : r \in 0..3, g \in 0..3, b \in 0..3}
SatC == IF Deep THEN {<<r, g, b>> : r \in 0..2, g \in 0..2, b \in 0..2} ELSE {<<0, 0, 0>>, <<1, 1, 1>>, <<2, 2, 2>>, <<1, 0, 0>>, <<0, 2, 0>>, <<0, 0, 1>>, <<2, 1, 0>>, <<1, 2, 2>>, <<0, 1, 2>>, <<2, 0, 1>>}
SatS == << <<0, 1>>, <<1, 2>>, <<1, 1>>, <<2, 1>>, <<-1, 1>>, <<1, 4>>, <<3, 2>> >>          \* s = n / d, all dyadic
SatT == {<<1, 2>>, <<2, 1>>, <<-1, 1>>, <<0, 1>>}
Ycc == {-8, -4, 0, 4, 8, 12, 252} \cup (IF Deep THEN {-128, 100, 128} ELSE {})

Init == st = [k |-> "root"]
Next ==
    \/ st.k = "root" /\ \/ \E p0 \in LinP0, d \in LinD : st' = [k |-> "seedLin", p0 |-> p0, d |-> d]
                        \/ \E i \in 1..Len(RadCfg) : st' = [k |-> "seedRad", i |-> i]
                        \/ \E fn \in YEncFns : st' = [k |-> "seedEnc", fn |-> fn]
                        \/ \E i \in 1..Len(SatS) : st' = [k |-> "seedSat", s |-> SatS[i]]
                        \/ \E r \in Ycc : st' = [k |-> "seedYcc", r |-> r]
    \/ st.k = "seedLin" /\ \E pos \in Grid5 : st' = [k |-> "lin", p0 |-> st.p0, d |-> st.d, pos |-> pos, hop |-> 0, last |-> "none"]
    \/ st.k = "seedRad" /\ \E pos \in Grid7 : st' = [k |-> "rad", i |-> st.i, pos |-> <<RadCfg[st.i][3][1] + pos[1], RadCfg[st.i][3][2] + pos[2]>>, hop |-> 0]
    \/ st.k = "seedEnc" /\ \E c \in Cube4 : st' = [k |-> "enc", fn |-> st.fn, c |-> c, hop |-> 0]
    \/ st.k = "seedSat" /\ \E c \in SatC : st' = [k |-> "sat", s |-> st.s, c |-> c, t |-> <<1, 1>>, hop |-> 0]
    \/ st.k = "seedYcc" /\ \E g \in Ycc, b \in Ycc : st' = [k |-> "ycc", c |-> <<st.r, g, b>>, hop |-> 0]
    \/ st.k = "lin" /\ st.hop = 0 /\ st' = [st EXCEPT !.pos = <<st.pos[1] + st.d[1], st.pos[2] + st.d[2]>>, !.hop = 1, !.last = "along"]
    \/ st.k = "lin" /\ st.hop = 0 /\ st' = [st EXCEPT !.pos = <<st.pos[1] - st.d[2], st.pos[2] + st.d[1]>>, !.hop = 1, !.last = "perp"]
    \/ st.k = "rad" /\ st.hop = 0 /\ LET fo == RadCfg[st.i][3] IN
                                     st' = [st EXCEPT !.pos = <<2 * st.pos[1] - fo[1], 2 * st.pos[2] - fo[2]>>, !.hop = 1]
    \/ st.k = "enc" /\ st.hop = 0 /\ st' = [st EXCEPT !.c = <<2 * st.c[1], 2 * st.c[2], 2 * st.c[3]>>, !.hop = 1]
    \/ st.k = "sat" /\ st.hop = 0 /\ \E t \in SatT : st' = [st EXCEPT !.s = <<st.s[1] * t[1], st.s[2] * t[2]>>, !.t = t, !.hop = 1]
    \/ st.k = "ycc" /\ st.hop = 0 /\ st' = [st EXCEPT !.c = <<st.c[3], st.c[2], st.c[1]>>, !.hop = 1]
Spec == Init /\ [][Next]_vars

----------------------------------------------------------------------------
IsK(k) == st.k = k
f32 == F32
Dv(v) == [i \in 1..Len(v) |-> DFromInt(v[i])]
QEqV(a, b) == Len(a) = Len(b) /\ \A i \in 1..Len(a) : QEq(a[i], b[i])
\* a rational rounded down to a multiple of 2^-p (what an observed value can be at best)
RoundDown(q, p) == LET z == QFloor(QMul(q, QFromD(DPow2(p)))) IN DMk(z.neg, z.m, -p)
RoundV(v, p) == [i \in 1..Len(v) |-> RoundDown(v[i], p)]
Eighth == DPow2(-3)

\* ---- linearGradient
LinP1(s) == <<s.p0[1] + s.d[1], s.p0[2] + s.d[2]>>
LinVal(s) == YLinear(YQv(s.p0), YQv(LinP1(s)), YQv(s.pos))
InvLin ==
    IsK("lin") => LET p0 == YQv(st.p0) p1 == YQv(LinP1(st)) pos == YQv(st.pos) d == YQv(st.d) v == LinVal(st)
                      sh == <<QI(7), QF(-5, 2)>> IN
      /\ QIsZero(YLinear(p0, p1, p0)) /\ QEq(YLinear(p0, p1, p1), QOne)                                         \* 0 at Point0, 1 at Point1
      /\ QEq(YLinear(p0, p1, VAdd(pos, d)), QAdd(v, QOne))                                                      \* affine along the line
      /\ QEq(YLinear(p0, p1, VScale(VAdd(pos, p1), QF(1, 2))), QMul(QAdd(v, QOne), QF(1, 2)))                   \* midpoints
      /\ QEq(YLinear(p0, p1, VAdd(pos, VScale(YPerp2(d), QF(3, 2)))), v)                                        \* constant on perpendiculars
      /\ QEq(YLinear(VAdd(p0, sh), VAdd(p1, sh), VAdd(pos, sh)), v)                                             \* translation
      /\ QEq(YLinear(VScale(p0, QI(3)), VScale(p1, QI(3)), VScale(pos, QI(3))), v)                              \* scaling
      /\ QEq(YLinear(p1, p0, pos), QSub(QOne, v))                                                               \* exchanging the end points
      \* the dyadic form: numerator / denominator, acceptance of the exact value, rejection of a wrong one
      /\ QEq(QDiv(QFromD(YLinNum(Dv(st.p0), Dv(LinP1(st)), Dv(st.pos))), QFromD(YLinDen(Dv(st.p0), Dv(LinP1(st))))), v)
      /\ LET r == RoundDown(v, 30) IN
           /\ YLinOk(r, Dv(st.p0), Dv(LinP1(st)), Dv(st.pos), f32)
           /\ ~YLinOk(DAdd(r, Eighth), Dv(st.p0), Dv(LinP1(st)), Dv(st.pos), f32)
           /\ ~YLinOk(DSub(r, DPow2(-10)), Dv(st.p0), Dv(LinP1(st)), Dv(st.pos), f32)
LinStep == [][(IsK("lin") /\ st'.k = "lin") =>
                 /\ (st'.last = "along" => QEq(LinVal(st'), QAdd(LinVal(st), QOne)))
                 /\ (st'.last = "perp" => QEq(LinVal(st'), LinVal(st)))]_vars

\* ---- radialGradient
RadG == {QZero, QF(1, 4), QF(1, 2), QF(3, 4), QOne, QF(3, 2), QI(2), QF(5, 2), QI(4)}
IsSquareInt(n) == n >= 0 /\ \E s \in 0..400 : s * s = n
ISqrt(n) == CHOOSE s \in 0..400 : s * s = n
Dot2(a, b) == a[1] * b[1] + a[2] * b[2]
Sub2(a, b) == <<a[1] - b[1], a[2] - b[2]>>
RadOf(s) == [c |-> RadCfg[s.i][1], R |-> RadCfg[s.i][2], fo |-> RadCfg[s.i][3], pos |-> s.pos]
RadIs(g, s) == LET x == RadOf(s) IN YIsRadial(g, YQv(x.c), QI(x.R), YQv(x.fo), YQv(x.pos))
InvRad ==
    IsK("rad") => LET x == RadOf(st) c == YQv(x.c) R == QI(x.R) fo == YQv(x.fo) pos == YQv(x.pos)
                      F == Sub2(x.fo, x.c) D == Sub2(x.pos, x.fo)
                      A == x.R * x.R - Dot2(F, F) B == Dot2(D, F) C == Dot2(D, D) disc == B * B + A * C
                      xd == YRad(Dv(x.c), DFromInt(x.R), Dv(x.fo), Dv(x.pos)) IN
      /\ YRadDom(c, R, fo) /\ YRadDomD(xd, DFromInt(x.R))
      /\ QEq(YRadA(c, R, fo), QI(A)) /\ QEq(YRadB(c, fo, pos), QI(B)) /\ QEq(YRadC(fo, pos), QI(C))
      /\ QEq(YRadDisc(c, R, fo, pos), QI(disc)) /\ QEq(YRadDiscSrc(c, R, fo, pos), QI(disc))                  \* B^2 + A C = R^2 |D|^2 - (D x F)^2
      /\ QEq(QFromD(xd.disc), QI(disc)) /\ QEq(QFromD(xd.A), QI(A)) /\ QEq(QFromD(xd.B), QI(B))               \* dyadic forms
      /\ disc >= 0 /\ (disc = 0 <=> x.pos = x.fo)
      /\ (x.pos = x.fo) => RadIs(QZero, st)                                                                   \* 0 at the focal point
      /\ RadIs(QOne, st) <=> Dot2(Sub2(x.pos, x.c), Sub2(x.pos, x.c)) = x.R * x.R                             \* 1 exactly on the circle
      \* the polynomial on the grid k / 4 in native integers: 16 P(k / 4) = A k^2 - 8 B k - 16 C; at most one root >= 0
      /\ \A k \in {0, 3, 4, 10} : QEq(QMulInt(YRadP(c, R, fo, pos, QF(k, 4)), 16), QI(A * k * k - 8 * B * k - 16 * C))
      /\ LET sg == [k \in 0..40 |-> A * k * k - 8 * B * k - 16 * C] IN \A k1, k2 \in 0..40 : (k1 < k2 /\ sg[k1] >= 0) => sg[k2] > 0
      /\ \A g \in {QF(3, 4), QI(2)} : QEq(YRadP(c, R, fo, VAdd(fo, VScale(VSub(pos, fo), QI(2))), QMulInt(g, 2)), QMulInt(YRadP(c, R, fo, pos, g), 4))  \* homogeneous
      /\ IsSquareInt(disc) =>
           LET s == ISqrt(disc) g == QF(B + s, A) other == QF(B - s, A) gd == RoundDown(g, 30) IN
           /\ RadIs(g, st) /\ QSign(other) <= 0 /\ (s > 0 => ~RadIs(other, st))
           /\ (x.fo = x.c) => QEq(QMul(QMul(g, g), QMul(R, R)), QI(C))                                        \* Focal = Center: |Position - Center| / Radius
           /\ YRadOk(gd, xd, f32)
           /\ ~YRadOk(DAdd(gd, DPow2(-2)), xd, f32)
           /\ (s > 0 => (~YRadOk(RoundDown(other, 30), xd, f32) /\ ~YRadOk(DMul2k(gd, -1), xd, f32) /\ ~YRadOk(DNeg(gd), xd, f32)))
RadDouble == [][(IsK("rad") /\ st'.k = "rad") => \A g \in RadG : RadIs(g, st) => RadIs(QMulInt(g, 2), st')]_vars

\* ---- colour encoding
Pure(c) == Cardinality({i \in 1..3 : c[i] # 0}) = 1
IsGrey(c) == c[1] = c[2] /\ c[2] = c[3]
N1(c) == QI(c[1] + c[2] + c[3])
NearV(a, b, tol) == \A i \in 1..3 : QNear(a[i], b[i], tol)
InvEnc ==
    IsK("enc") => LET fn == st.fn c == YQv(st.c) m == YEncDocMat(fn) doc == YEncDoc(fn, c) cw == YEncCompwise(fn, c) dc == Dv(st.c) IN
      /\ QEqV(doc, VAdd(VAdd(VScale(MCol(m, 1), c[1]), VScale(MCol(m, 2), c[2])), VScale(MCol(m, 3), c[3])))    \* columns = images of red, green, blue
      /\ fn = "s65" => /\ QEq(doc[2], YLuma(c))                                                                 \* Y = luminance
                       /\ (IsGrey(st.c) => QEqV(doc, VScale(YWhiteD65, c[1])))                                   \* greys map to the white point
                       /\ NearV(YEncDoc("x2s", doc), c, QMul(QF(1, 1000), N1(st.c)))                             \* XYZ -> sRGB inverts sRGB -> XYZ
                       /\ NearV(YEncDoc("b50", doc), YEncDoc("s50", c), QMul(QF(1, 1000), N1(st.c)))             \* sRGB -> D65 -> D50 = sRGB -> D50
      /\ fn = "x2s" => NearV(YEncDoc("s65", doc), c, QMul(QF(1, 1000), N1(st.c)))
      /\ fn = "s50" => (IsGrey(st.c) => NearV(doc, VScale(YWhiteD50, c[1]), QMul(QF(1, 10000), c[1])))
      /\ fn = "b50" => (IsGrey(st.c) => NearV(YEncDoc(fn, VScale(YWhiteD65, c[1])), VScale(YWhiteD50, c[1]), QMul(QF(5, 10000), c[1])))
      \* the component-wise evaluation of the source: each output channel depends on its own input channel only; it coincides with the
      \* documented map on greys when the literal columns are the documented matrix, and nowhere else
      /\ \A i \in 1..3 : QEq(cw[i], QMul(YEncDiag(fn)[i], c[i]))
      /\ (fn \in {"s50", "b50"} /\ IsGrey(st.c)) => QEqV(cw, doc)
      \* acceptance predicates: the documented value is accepted by YEncDocOk, the component-wise value by YEncPinOk, and not crosswise
      /\ YEncDocOk(fn, RoundV(doc, 40), dc, f32) /\ YEncPinOk(fn, RoundV(cw, 40), dc, f32)
      /\ Pure(st.c) => (~YEncDocOk(fn, RoundV(cw, 40), dc, f32) /\ ~YEncPinOk(fn, RoundV(doc, 40), dc, f32))
      /\ (fn \in {"s65", "x2s"} /\ st.c # <<0, 0, 0>>) => ~YEncDocOk(fn, RoundV(cw, 40), dc, f32)
      /\ st.c # <<0, 0, 0>> => ~YEncPinOk(fn, RoundV(VScale(cw, QF(100001, 100000)), 40), dc, f32)              \* a constant changed in the 5th digit
EncDouble == [][(IsK("enc") /\ st'.k = "enc") => QEqV(YEncDoc(st.fn, YQv(st'.c)), VScale(YEncDoc(st.fn, YQv(st.c)), QI(2)))]_vars

\* ---- saturation
SQ(s) == QF(s[1], s[2])
SD(s) == RoundDown(SQ(s), 8)
Alpha == QF(3, 4)
MatD(m, p) == RoundV(m.e, p)
BadW == << QF(2126, 10000), QF(7151, 10000), QF(722, 10000) >>
BadSatM(s) == MFromFn(4, 4, LAMBDA c, r : IF c = 4 \/ r = 4 THEN (IF c = r THEN QOne ELSE QZero)
                                           ELSE QAdd(QMul(QSub(QOne, s), BadW[c]), IF c = r THEN s ELSE QZero))
InvSat ==
    IsK("sat") => LET s == SQ(st.s) c == YQv(st.c) v == c \o <<Alpha>> m == YSatM(s) r4 == YSat4(s, v) r3 == YSat3(s, c)
                      lum == YLuma(c) md == MatD(m, 40) vd == RoundV(v, 2) IN
      /\ LET gm == GC!SatMatrix(s) IN \A k \in 1..16 : QEq(m.e[k], gm[k])                                       \* the matrix of GlmColor (C19)
      /\ QEq(r4[4], Alpha) /\ QEqV(SubSeq(r4, 1, 3), r3)                                                        \* alpha passes, vec3 form = vec4 form
      /\ \A r \in 1..3 : QEq(r3[r], QAdd(QMul(QSub(QOne, s), lum), QMul(s, c[r])))                              \* closed form
      /\ QEq(YLuma(r3), lum)                                                                                    \* luminance preserved
      /\ IsGrey(st.c) => QEqV(r3, c)                                                                            \* greys fixed
      /\ QEq(s, QOne) => (MEq(m, MIdentity(4)) /\ QEqV(r3, c))                                                  \* saturation(1) = identity
      /\ QIsZero(s) => (\A r \in 1..3 : QEq(r3[r], lum)) /\ QEq(lum, YEncDoc("s65", c)[2])                      \* saturation(0) = grey of luminance Y
      \* acceptance predicates
      /\ YSatStructOk(md, SD(st.s), f32) /\ (~QEq(s, QOne) => ~YSatStructOk(MatD(BadSatM(s), 40), SD(st.s), f32))
      /\ YSatMulOk(RoundV(r4, 40), md, vd, 4, f32) /\ YSatMulOk(RoundV(r3, 40), md, vd, 3, f32)
      /\ (st.c[1] # 0 /\ ~QEq(s, QOne)) => ~YSatMulOk(RoundV(r4, 40), md, [vd EXCEPT ![1] = DAdd(vd[1], Eighth)], 4, f32)
      /\ QEq(s, QOne) => YSatIdentityOk(RoundV(r3, 40), vd, f32)
      /\ QIsZero(s) => YSatGreyOutOk(RoundV(r3, 40), vd, f32)
      /\ IsGrey(st.c) => YSatGreyFixOk(RoundV(r3, 40), vd, SD(st.s), f32)
SatCompose == [][(IsK("sat") /\ st'.k = "sat") => MEq(YSatM(SQ(st'.s)), MMul(YSatM(SQ(st.s)), YSatM(SQ(st'.t))))]_vars

\* ---- integer YCoCg
ZV(c) == [i \in 1..3 |-> ZFromInt(c[i])]
YccOf(s) == LET y4 == YYcc4(ZV(s.c)) IN [i \in 1..3 |-> ZToInt(y4[i]) \div 4]
InvYcc ==
    IsK("ycc") => LET c == ZV(st.c) y4 == YYcc4(c) y == YccOf(st) IN
      /\ \A i \in 1..3 : YDiv4Ok(c[i]) /\ YDiv4Ok(y4[i])
      /\ y = << (st.c[1] + 2 * st.c[2] + st.c[3]) \div 4, (st.c[1] - st.c[3]) \div 2, (2 * st.c[2] - st.c[1] - st.c[3]) \div 4 >>
      /\ [i \in 1..3 |-> ZToInt(YYccInv(ZV(y))[i])] = st.c                                                       \* the inverse inverts
      /\ [i \in 1..3 |-> ZToInt(YYcc4(YYccInv(c))[i])] = <<4 * st.c[1], 4 * st.c[2], 4 * st.c[3]>>              \* on both sides
      /\ (\A i \in 1..3 : st.c[i] \in 0..255) => (y[1] \in 0..255 /\ y[2] \in -128..127 /\ y[3] \in -128..127)  \* ranges
      /\ y[2] = 0 <=> st.c[1] = st.c[3]
      /\ \A W \in {32, 64} : ZEq(ZSub(YCgUnsignedObs(W, ZFromInt(y[3])), ZFromInt(y[3])), ZMk(FALSE, NShl(<<1>>, W - 2)))      \* 2^(W-2) too large
YccSwap == [][(IsK("ycc") /\ st'.k = "ycc") => (YccOf(st')[1] = YccOf(st)[1] /\ YccOf(st')[2] = -YccOf(st)[2] /\ YccOf(st')[3] = YccOf(st)[3])]_vars

----------------------------------------------------------------------------
(* constant-level laws of the matrices *)
MaxDiff(a, b) == MMaxAbs(MSub(a, b))
LitS65 == YLitMat("s65")
LitX2S == YLitMat("x2s")
\* IEC 61966-2-1: white (1, 1, 1) maps to the D65 white point exactly in four decimals; the Y row is the luminance (the weights of saturation())
ASSUME QEqV(MVec(YStdSrgbToXyz, YWhiteRgb), YWhiteD65)
ASSUME QEqV(MRow(YStdSrgbToXyz, 2), YLuma709) /\ \A i \in 1..3 : QEq(YLuma709[i], GC!LumaRec709[i])
ASSUME QEq(QSum(YLuma709), QOne)
\* the two standard matrices are inverse to each other within the precision of their four decimals
ASSUME QLe(MaxDiff(MMul(YStdXyzToSrgb, YStdSrgbToXyz), MIdentity(3)), QF(5, 10000))
ASSUME QLe(MaxDiff(MMul(YStdSrgbToXyz, YStdXyzToSrgb), MIdentity(3)), QF(5, 10000))
ASSUME NearV(MVec(YStdXyzToSrgb, YWhiteD65), YWhiteRgb, QF(5, 10000))
\* the literal matrix of convertLinearSRGBToD50XYZ: white -> D50 white, Y row sums to 1, = Bradford o IEC within 1/1000
ASSUME NearV(MVec(YLitMat("s50"), YWhiteRgb), YWhiteD50, QF(1, 10000))
ASSUME QNear(QSum(MRow(YLitMat("s50"), 2)), QOne, QF(1, 1000000))
ASSUME QLe(MaxDiff(MMul(YLitMat("b50"), YStdSrgbToXyz), YLitMat("s50")), QF(1, 1000))
\* the literal matrix of convertD65XYZToD50XYZ (Bradford): D65 white -> D50 white
ASSUME NearV(MVec(YLitMat("b50"), YWhiteD65), YWhiteD50, QF(5, 10000))
\* the literals of convertLinearSRGBToD65XYZ / convertD65XYZToLinearSRGB satisfy none of these laws, however they are read (columns or rows):
\* the factor k is 1 / 0.17697, the normalisation of the CIE 1931 RGB matrix, and the entries are those of that matrix (partly misplaced)
ASSUME QNear(QMul(YLit("s65").k, QF(17697, 100000)), QOne, QF(1, 1000000))
ASSUME ~NearV(MVec(LitS65, YWhiteRgb), YWhiteD65, QF(1, 2)) /\ ~NearV(MVec(MTranspose(LitS65), YWhiteRgb), YWhiteD65, QF(1, 2))
ASSUME ~QLe(MaxDiff(LitS65, YStdSrgbToXyz), QOne) /\ ~QLe(MaxDiff(MTranspose(LitS65), YStdSrgbToXyz), QOne)
ASSUME ~QLe(MaxDiff(MMul(LitX2S, LitS65), MIdentity(3)), QF(1, 4)) /\ ~QLe(MaxDiff(MMul(MTranspose(LitX2S), MTranspose(LitS65)), MIdentity(3)), QF(1, 4))
ASSUME ~QLe(MaxDiff(LitX2S, YStdXyzToSrgb), QOne)
\* the diagonal that the component-wise evaluation applies (what the pinned deviation computes): white comes out as (7.289, 5.647, 6.784)
ASSUME NearV(YEncCompwise("s65", YWhiteRgb), << QF(7289, 1000), QF(5647, 1000), QF(6784, 1000) >>, QF(1, 1000))
ASSUME NearV(YEncCompwise("s50", << QOne, QZero, QZero >>), << QF(9642, 10000), QZero, QZero >>, QF(1, 10000))
\* float literals: the cast is the correctly rounded one (0.490f = 0x3EFAE148, 0.17697f = 0x3E3537B0 read back exactly)
ASSUME DEq(YLitF_s65.M[1], ValW(F32, <<57672, 16122>>)) /\ IsRNEQ(F32, RoundQ(F32, YLit("s65").M[2], 0), YLit("s65").M[2])
\* radial gradient on the 3-4-5 instance: centre 0, radius 5, focal (3, 0): position (3, 4) is on the circle, (3, 2) half way
R345 == YRad(Dv(<<0, 0>>), DFromInt(5), Dv(<<3, 0>>), Dv(<<3, 4>>))
ASSUME YRadOk(YUnit, R345, F32) /\ ~YRadOk(DFromInt(-1), R345, F32) /\ ~YRadOk(DPow2(-1), R345, F32)
ASSUME YRadOk(DPow2(-1), YRad(Dv(<<0, 0>>), DFromInt(5), Dv(<<3, 0>>), Dv(<<3, 2>>)), F32)
\* outside the domain of the check: focal point on / outside the circle
ASSUME ~YRadDomD(YRad(Dv(<<0, 0>>), DFromInt(5), Dv(<<5, 0>>), Dv(<<3, 2>>)), DFromInt(5)) /\ ~YRadDom(YQv(<<0, 0>>), QI(5), YQv(<<3, 4>>))
=============================================================================
