CONSTANTS Tags = {1, 2}
          MaxSteps = 3
SPECIFICATION Spec
INVARIANTS TypeOK InvOffsets InvBijection InvRefine InvRoundTrip InvNames InvLength InvImage InvStrides
CHECK_DEADLOCK FALSE
