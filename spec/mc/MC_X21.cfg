CONSTANTS MaxLen = 4 MaxDepth = 3 Rich = FALSE Sim = FALSE
SPECIFICATION Spec
VIEW ViewS
INVARIANTS InvType InvCommute InvUnformatted InvOutputPure InvTranspose InvLayout Emit
PROPERTIES ExitLawP
CHECK_DEADLOCK FALSE
