CONSTANTS CovDepth = 3 MaxCoord = 40 Rich = TRUE
SPECIFICATION Spec
INVARIANTS InvEig InvCov InvLine InvSort InvSeeds Emit
PROPERTIES EigOrbit
CHECK_DEADLOCK FALSE
