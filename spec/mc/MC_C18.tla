------------------------------ MODULE MC_C18 ------------------------------
(***************************************************************************)
(* Bounded model for the power-of-two / multiple / bitfield utilities:     *)
(* a counter walks through every W-bit word (read both unsigned and        *)
(* signed) and in every state the definitions of GlmRound.tla are checked  *)
(* against the declarative characterisations of the property text, for     *)
(* every multiple, shift count, bit index and (first,count) field, in      *)
(* native TLC arithmetic (independent of the BigInt encodings).            *)
(***************************************************************************)
EXTENDS GlmRound, TLC
CONSTANT W
VARIABLE n                      \* the current word as a native integer
vars == <<n>>
Init == n = 0
Next == n < 2^W - 1 /\ n' = n + 1
Spec == Init /\ [][Next]_vars

x  == NFromNat(n)
sx == IF n >= 2^(W-1) THEN n - 2^W ELSE n          \* signed reading
Z(i) == ZFromInt(i)
AsNat(m) == NToNat(m)
IsP2(k) == \E e \in 0..W : k = 2^e
Multiples == 1..(2^(W-1) - 1)

InvPow2 ==
    n >= 1 =>
      /\ IsPow2N(x) = IsP2(n)
      /\ LET c == AsNat(CeilPow2N(x)) IN IsP2(c) /\ c >= n /\ (\A e \in 0..W : 2^e >= n => 2^e >= c)
      /\ LET f == AsNat(FloorPow2N(x)) IN IsP2(f) /\ f <= n /\ (\A e \in 0..W : 2^e <= n => 2^e <= f)
      /\ \A r \in RoundPow2Set(x) : IsP2(AsNat(r)) /\ \A e \in 0..W : (IF AsNat(r) >= n THEN AsNat(r) - n ELSE n - AsNat(r)) <= (IF 2^e >= n THEN 2^e - n ELSE n - 2^e)
      /\ (IsP2(n) => CeilPow2N(x) = x /\ FloorPow2N(x) = x /\ RoundPow2Set(x) = {x})
      /\ AsNat(HighestBitValue(W, x)) = AsNat(FloorPow2N(x))
      /\ FloorLog2N(x) = (CHOOSE e \in 0..W : 2^e <= n /\ n < 2^(e+1))
InvMultiple ==
    \A m \in Multiples :
      LET c == ZToInt(CeilMultipleZ(Z(sx), Z(m)))
          f == ZToInt(FloorMultipleZ(Z(sx), Z(m)))
      IN /\ c % m = 0 /\ c >= sx /\ c < sx + m
         /\ f % m = 0 /\ f <= sx /\ f > sx - m
         /\ IsMultipleZ(Z(sx), Z(m)) = (sx % m = 0)
         /\ (sx % m = 0 => c = sx /\ f = sx /\ RoundMultipleSet(Z(sx), Z(m)) = {Z(sx)})
         /\ \A r \in RoundMultipleSet(Z(sx), Z(m)) : LET ri == ZToInt(r) IN ri % m = 0 /\ 2 * (IF ri >= sx THEN ri - sx ELSE sx - ri) <= m
         /\ LET md == ZToInt(ZMod(Z(sx), Z(m))) IN md >= 0 /\ md < m /\ (sx - md) % m = 0
InvNSB ==
    \A k \in 1..W+1 :
      LET p == FindNSB(W, x, k) IN
      IF BitCount(W, x) < k THEN p = -1
      ELSE p \in Bits(W, x) /\ Cardinality({j \in Bits(W, x) : j < p}) = k - 1
InvRotate ==
    \A s \in 1..W-1 :
      /\ RotateLeft(W, RotateRight(W, x, s), s) = x
      /\ RotateRight(W, x, s) = RotateLeft(W, x, W - s)
      /\ AsNat(RotateLeft(W, x, s)) = ((n * 2^s) % 2^W) + (n \div 2^(W - s))
      /\ BitCount(W, RotateLeft(W, x, s)) = BitCount(W, x)
InvFill ==
    \A p \in {q \in (0..W) \X (0..W) : FieldOK(W, q[1], q[2])} :
      /\ AsNat(Mask(W, p[2])) = 2^p[2] - 1
      /\ FillOne(W, x, p[1], p[2]) = WOr(W, x, WShl(W, Mask(W, p[2]), p[1]))
      /\ FillZero(W, x, p[1], p[2]) = WAnd(W, x, WNot(W, WShl(W, Mask(W, p[2]), p[1])))
      /\ FillZero(W, FillOne(W, x, p[1], p[2]), p[1], p[2]) = FillZero(W, x, p[1], p[2])
InvInterleave ==
    LET y == NFromNat((n * 37 + 11) % 2^W)
        z == NFromNat((n * 53 + 7) % 2^W)
        i2 == Interleave(W, <<x, y>>, 2 * W)
        i3 == Interleave(W, <<x, y, z>>, 3 * W)
    IN /\ Deinterleave(W, i2, 2 * W, 2, 1) = x /\ Deinterleave(W, i2, 2 * W, 2, 2) = y
       /\ Deinterleave(W, i3, 3 * W, 3, 1) = x /\ Deinterleave(W, i3, 3 * W, 3, 2) = y /\ Deinterleave(W, i3, 3 * W, 3, 3) = z
       /\ i2 = WOr(2 * W, Interleave(W, <<x, << >> >>, 2 * W), Interleave(W, << << >>, y>>, 2 * W))     \* linearity
       /\ \A i \in 0..W-1 : NBit(i2, 2 * i) = NBit(x, i) /\ NBit(i2, 2 * i + 1) = NBit(y, i)
       /\ \A i \in 0..W-1 : NBit(i3, 3 * i) = NBit(x, i) /\ NBit(i3, 3 * i + 1) = NBit(y, i) /\ NBit(i3, 3 * i + 2) = NBit(z, i)
       /\ Interleave(W, <<x, y, z>>, 2 * W) = NLowBits(i3, 2 * W)              \* truncation to a narrower result
InvArith ==
    /\ \E r \in 0..n : IsFloorSqrt(NFromNat(r), x) /\ r * r <= n /\ (r + 1) * (r + 1) > n
    /\ \A r \in 0..n : IsFloorSqrt(NFromNat(r), x) => (r * r <= n /\ (r + 1) * (r + 1) > n)
    /\ (n <= 10 => ZToInt(ZFact(n)) = (CASE n = 0 -> 1 [] n = 1 -> 1 [] n = 2 -> 2 [] n = 3 -> 6 [] n = 4 -> 24 [] n = 5 -> 120
                                        [] n = 6 -> 720 [] n = 7 -> 5040 [] n = 8 -> 40320 [] n = 9 -> 362880 [] n = 10 -> 3628800))
    /\ (n <= 12 => \A y \in 0..6 : ZToInt(ZPow(Z(n - 6), y)) = (IF y = 0 THEN 1 ELSE (n - 6)^y))
    /\ Nlz(W, x) = W - (IF n = 0 THEN 0 ELSE (CHOOSE e \in 1..W : 2^(e-1) <= n /\ n < 2^e))
=============================================================================
