CONSTANTS Depth2 = 4 Depth3 = 2 Depth4 = 1 MaxEntry = 4 X2 = 5 X3 = 2 X4 = 1 NegLimit = 3
SPECIFICATION Spec
INVARIANTS Laws Emit
CHECK_DEADLOCK FALSE
