CONSTANTS Depth2 = 4 Depth3 = 2 Depth4 = 1 MaxEntry = 4 X2 = 4 X3 = 1 X4 = 0
SPECIFICATION Spec
INVARIANTS Laws Emit
CHECK_DEADLOCK FALSE
