------------------------------ MODULE MC_C06 ------------------------------
(* Bounded model of the packing formats.  One initial state per (scale, code) of the normalised
   kinds and per code of the two small-float widths; invariants are the laws of the property on
   the specification itself: the decoded value of a code is accepted back as exactly that code
   (canonical codes), acceptance is monotone (a larger real never needs a smaller code), the
   extreme reals clamp to the end codes, and every format's fields tile its word without
   overlap, first component lowest. *)
EXTENDS GlmPacking, TLC
VARIABLES kind, scale, w, code
vars == <<kind, scale, w, code>>
NormCases == {<<"unorm", 255, 8>>, <<"unorm", 15, 4>>, <<"unorm", 31, 5>>, <<"unorm", 63, 6>>, <<"unorm", 7, 3>>, <<"unorm", 3, 2>>, <<"unorm", 1, 1>>,
              <<"unorm", 1023, 10>>, <<"snorm", 127, 8>>, <<"snorm", 511, 10>>, <<"snorm", 1, 2>>}
Init == \/ \E c \in NormCases : kind = c[1] /\ scale = c[2] /\ w = c[3] /\ code \in 0..(2^c[3] - 1)
        \/ kind = "sf" /\ scale = 1 /\ w \in {10, 11} /\ code \in 0..2047 /\ code < 2^w
Next == UNCHANGED vars
Spec == Init /\ [][Next]_vars
fld == Fld(0, w, kind, scale)
cN == NFromNat(code)
Near == {c2 \in (code - 3)..(code + 3) : c2 >= 0 /\ c2 < 2^w} \cup {0, 2^w - 1, 2^(w-1) - 1, 2^(w-1)} \cup (IF w > 1 THEN {2^(w-1) + 1} ELSE {})
InvNormRoundTrip ==
    kind # "sf" =>
      LET v == DecodeNorm(fld, cN) IN
      /\ (CanonicalNorm(fld, cN) => AcceptNorm(fld, cN, v, -22))
      /\ (CanonicalNorm(fld, cN) => \A c2 \in Near : (AcceptNorm(fld, NFromNat(c2), v, -22) /\ CanonicalNorm(fld, NFromNat(c2))) => c2 = code)
      /\ QLe(QFromInt(IF kind = "unorm" THEN 0 ELSE -1), v) /\ QLe(v, QOne)
InvNormMonotone ==     \* midpoints between neighbouring codes are accepted by both and by no other
    (kind # "sf" /\ code + 1 < (IF kind = "unorm" THEN 2^w ELSE 2^(w-1))) =>
      LET mid == QDiv(QAdd(DecodeNorm(fld, cN), DecodeNorm(fld, NFromNat(code + 1))), QFromInt(2))
      IN {c2 \in Near : AcceptNorm(fld, NFromNat(c2), mid, -22) /\ CanonicalNorm(fld, NFromNat(c2))} = {code, code + 1}
InvNormClamp ==
    kind # "sf" =>
      /\ (AcceptNorm(fld, cN, QFromInt(5), -22) => QEq(DecodeNorm(fld, cN), QOne))
      /\ (AcceptNorm(fld, cN, QFromInt(-5), -22) => QEq(DecodeNorm(fld, cN), QFromInt(IF kind = "unorm" THEN 0 ELSE -1)))
InvSf ==
    (kind = "sf" /\ ~SfIsInf(fld, code) /\ ~SfIsNaN(fld, code)) =>
      LET v == SfDecode(fld, code) IN
      /\ AcceptSf(fld, code, v)
      /\ (code > 1 => DLt(SfDecode(fld, code - 1), v))                        \* strictly increasing in the code
      /\ (code > 0 => {c2 \in (Near \cap 1..SfMaxCode(fld)) : AcceptSf(fld, c2, v)} \subseteq {code - 2, code - 1, code, code + 1, code + 2})    \* one step of the larger binade at a binade boundary
      /\ AcceptSf(fld, SfMaxCode(fld), DMulInt(SfDecode(fld, SfMaxCode(fld)), 2)) /\ AcceptSf(fld, 0, DFromInt(-1))
InvLayout ==
    (kind = "unorm" /\ scale = 255 /\ code = 0) =>
      \A name \in DOMAIN Formats :
        LET F == Formats[name] IN
        /\ F[1].off = 0
        /\ \A i \in 1..(Len(F) - 1) : F[i + 1].off = F[i].off + F[i].w
=============================================================================
