CONSTANTS W = 16
CheckFields = FALSE
SPECIFICATION Spec
INVARIANTS InvCountLadder InvReverseLadder InvSmear InvResults InvLaws
CHECK_DEADLOCK FALSE
