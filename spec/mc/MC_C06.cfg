SPECIFICATION Spec
INVARIANTS InvNormRoundTrip InvNormMonotone InvNormClamp InvSf InvLayout
CHECK_DEADLOCK FALSE
