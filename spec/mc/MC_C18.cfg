CONSTANTS W = 6
SPECIFICATION Spec
INVARIANTS InvPow2 InvMultiple InvNSB InvRotate InvFill InvInterleave InvArith
CHECK_DEADLOCK FALSE
