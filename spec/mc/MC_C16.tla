------------------------------ MODULE MC_C16 ------------------------------
(***************************************************************************)
(* Bounded model of the storage contract (C16): a memory model of ONE      *)
(* object of every shape {vec1..4, mat 2..4 x 2..4, qua} in every layout   *)
(* the contract allows (packed: stride = R; aligned: any padded stride     *)
(* R..4, quaternion in both member orders), next to an abstract object     *)
(* `obj` (a function from components to values).                           *)
(*                                                                         *)
(* Actions: StoreViaIndex(c, r, tag)   o[c][r] = tag                       *)
(*          StoreViaValuePtr(s, tag)   value_ptr(o)[s] = tag               *)
(*          StoreViaName(j, tag)       o.x / o.y / o.z / o.w = tag         *)
(*          LoadViaValuePtr            copy value_ptr(o)[0..NSlots) to raw *)
(*          MakeFromPtr                o = make_*(raw)                     *)
(* Invariants = the laws of the property text: offsets strictly            *)
(* increasing, inside the object, non overlapping and gap-free for packed  *)
(* types, for every element size {1,2,4,8}; a matrix is C consecutive      *)
(* columns laid out like its column vector; value_ptr index c*R + r <->    *)
(* m[c][r] is a bijection; the memory refines the abstract object under    *)
(* every interleaving of the three kinds of stores (so each store changes  *)
(* exactly the named component); value_ptr / make_* round trips; the       *)
(* quaternion member order; length(); and the byte image functions used by *)
(* the trace specification agree with the slot model.                      *)
(***************************************************************************)
EXTENDS GlmLayout, TLC
CONSTANTS Tags, MaxSteps
VARIABLES sh,        \* [k, C, R, aligned, stride, wxyz]
          mem,       \* the object: sequence of NSlots values (0 = never written)
          obj,       \* abstract object: <<c, r>> -> value
          raw,       \* the last array read through value_ptr (<< >> = none)
          robj,      \* the abstract object at that moment
          steps
vars == <<sh, mem, obj, raw, robj, steps>>

ModelStrides(R, aligned) == IF aligned THEN R..4 ELSE {R}
Layouts == {x \in [k : Kinds, C : 1..4, R : 1..4, aligned : BOOLEAN, stride : 1..4, wxyz : BOOLEAN] :
              /\ ShapeOK(x.k, x.C, x.R)
              /\ x.stride \in ModelStrides(x.R, x.aligned)
              /\ (x.wxyz => x.k = "qua")}
L1 == Lay(sh.C, sh.R, 1, sh.stride)                      \* slot-level view (element size irrelevant)
LayE(es) == Lay(sh.C, sh.R, es, sh.stride)
Values == Tags \cup {0}

Init == /\ sh \in Layouts
        /\ mem = [s \in 1..(sh.C * sh.stride) |-> 0]
        /\ obj = [cr \in (0..sh.C - 1) \X (0..sh.R - 1) |-> 0]
        /\ raw = << >> /\ robj = << >> /\ steps = 0

AStoreViaIndex == \E cr \in Comps(L1), v \in Tags :
    /\ mem' = StoreViaIndex(mem, L1, cr[1], cr[2], v)
    /\ obj' = [obj EXCEPT ![cr] = v]
    /\ UNCHANGED <<raw, robj>>
AStoreViaValuePtr == \E s \in 0..NSlots(L1) - 1, v \in Tags :
    /\ mem' = StoreViaValuePtr(mem, s, v)
    /\ obj' = IF IsPad(L1, s) THEN obj ELSE [obj EXCEPT ![CompOfSlot(L1, s)] = v]
    /\ UNCHANGED <<raw, robj>>
AStoreViaName == /\ sh.k # "mat"
                 /\ \E j \in 0..sh.R - 1, v \in Tags :
                      /\ mem' = StoreViaValuePtr(mem, NamedSlot(sh.k, j, sh.wxyz), v)
                      \* abstractly: the component whose NAME is NameXYZW[j+1]; for a quaternion its index is its memory position
                      /\ obj' = [obj EXCEPT ![<<0, NamedSlot(sh.k, j, sh.wxyz)>>] = v]
                 /\ UNCHANGED <<raw, robj>>
ALoadViaValuePtr == /\ raw' = [s \in 1..NSlots(L1) |-> LoadViaValuePtr(mem, s - 1)]
                    /\ robj' = obj
                    /\ UNCHANGED <<mem, obj>>
AMakeFromPtr == /\ raw # << >>
                /\ mem' = MakeFromPtr(L1, raw)
                /\ obj' = [cr \in Comps(L1) |-> raw[Slot(L1, cr[1], cr[2]) + 1]]
                /\ UNCHANGED <<raw, robj>>
Next == /\ steps < MaxSteps
        /\ steps' = steps + 1
        /\ sh' = sh
        /\ (AStoreViaIndex \/ AStoreViaValuePtr \/ AStoreViaName \/ ALoadViaValuePtr \/ AMakeFromPtr)
Spec == Init /\ [][Next]_vars

----------------------------------------------------------------------------
TypeOK == /\ sh \in Layouts /\ Len(mem) = NSlots(L1) /\ \A s \in 1..Len(mem) : mem[s] \in Values
          /\ DOMAIN obj = Comps(L1) /\ steps \in 0..MaxSteps

Bytes(lay, c, r) == {Off(lay, c, r) + j : j \in 0..lay.es - 1}
\* offsets: strictly increasing in index order, inside, disjoint; packed = exactly C*R contiguous elements
InvOffsets ==
    \A es \in ElemSizes :
      LET lay == LayE(es) IN
      /\ \A a, b \in Comps(lay) : Idx(lay, a[1], a[2]) < Idx(lay, b[1], b[2]) => Off(lay, a[1], a[2]) + es <= Off(lay, b[1], b[2])
      /\ \A a \in Comps(lay) : Off(lay, a[1], a[2]) + es <= SizeOf(lay) /\ Off(lay, a[1], a[2]) % es = 0
      /\ Off(lay, 0, 0) = 0                                                           \* value_ptr(o) = &o
      /\ (~sh.aligned =>
            /\ SizeOf(lay) = Count(sh.C, sh.R) * es
            /\ \A a \in Comps(lay) : Off(lay, a[1], a[2]) = Idx(lay, a[1], a[2]) * es   \* &v[i] = &v.x + i ; value_ptr(m)[c*R + r]
            /\ UNION {Bytes(lay, a[1], a[2]) : a \in Comps(lay)} = 0..SizeOf(lay) - 1)  \* gap-free
      /\ SizeOf(lay) >= Count(sh.C, sh.R) * es
      \* a matrix is C consecutive columns, each laid out like the column vector of the same layout
      /\ LET col == Lay(1, sh.R, es, sh.stride) IN
         /\ SizeOf(lay) = sh.C * SizeOf(col) /\ ColSize(lay) = SizeOf(col)
         /\ \A a \in Comps(lay) : Off(lay, a[1], a[2]) = a[1] * SizeOf(col) + Off(col, 0, a[2])
      \* the documented aligned float vectors: vec2 = 8 bytes, vec3 / vec4 = 16 bytes
      /\ (sh.aligned /\ sh.k = "vec" /\ es = 4 /\ sh.R >= 2 /\ sh.stride \in Strides("vec", "f32", sh.R, TRUE)
             => SizeOf(lay) = (IF sh.R = 2 THEN 8 ELSE 16))

\* value_ptr index <-> (column, row)
InvBijection ==
    /\ \A a, b \in Comps(L1) : Slot(L1, a[1], a[2]) = Slot(L1, b[1], b[2]) => a = b
    /\ \A a \in Comps(L1) : /\ Slot(L1, a[1], a[2]) \in 0..NSlots(L1) - 1
                            /\ ~IsPad(L1, Slot(L1, a[1], a[2]))
                            /\ CompOfSlot(L1, Slot(L1, a[1], a[2])) = a
    /\ \A s \in 0..NSlots(L1) - 1 : ~IsPad(L1, s) => Slot(L1, CompOfSlot(L1, s)[1], CompOfSlot(L1, s)[2]) = s
    /\ (~sh.aligned => /\ {Slot(L1, a[1], a[2]) : a \in Comps(L1)} = 0..Count(sh.C, sh.R) - 1
                       /\ \A a \in Comps(L1) : Slot(L1, a[1], a[2]) = a[1] * sh.R + a[2])
    /\ Cardinality(Comps(L1)) = Count(sh.C, sh.R)

\* the memory implements the abstract object under every interleaving of stores
InvRefine ==
    /\ \A a \in Comps(L1) : /\ LoadViaIndex(mem, L1, a[1], a[2]) = obj[a]
                            /\ LoadViaValuePtr(mem, Slot(L1, a[1], a[2])) = obj[a]
    /\ Logical(mem, L1) = [i \in 1..Count(sh.C, sh.R) |-> obj[<<(i - 1) \div sh.R, (i - 1) % sh.R>>]]
    /\ (steps = 0 => \A s \in 1..Len(mem) : mem[s] = 0)

\* value_ptr -> raw array -> make_* gives the object back, now and for the remembered array
InvRoundTrip ==
    /\ Logical(MakeFromPtr(L1, RawOf(mem)), L1) = Logical(mem, L1)
    /\ MakeFromPtr(L1, RawOf(mem)) = mem
    /\ (raw # << >> =>
          /\ Len(raw) = NSlots(L1)
          /\ \A a \in Comps(L1) : LoadViaIndex(MakeFromPtr(L1, raw), L1, a[1], a[2]) = robj[a]
          /\ (~sh.aligned => raw = [i \in 1..Count(sh.C, sh.R) |-> robj[<<(i - 1) \div sh.R, (i - 1) % sh.R>>]]))

\* quaternion member order: x,y,z,w unless wxyz; named slots are a permutation; vectors: x,y,z,w = 0,1,2,3
InvNames ==
    /\ (sh.k = "qua" =>
          /\ {NamedSlot("qua", j, sh.wxyz) : j \in 0..3} = 0..3
          /\ [s \in 1..4 |-> NameXYZW[(CHOOSE j \in 0..3 : NamedSlot("qua", j, sh.wxyz) = s - 1) + 1]] = QuatOrder(sh.wxyz)
          /\ (sh.wxyz => NamedSlot("qua", 3, TRUE) = 0 /\ NamedSlot("qua", 0, TRUE) = 1)
          /\ (~sh.wxyz => NamedSlot("qua", 3, FALSE) = 3 /\ NamedSlot("qua", 0, FALSE) = 0))
    /\ (sh.k = "vec" => \A j \in 0..sh.R - 1 : NamedSlot("vec", j, sh.wxyz) = j)

InvLength ==
    /\ (sh.k # "mat" => Length(sh.k, sh.C, sh.R) = Count(sh.C, sh.R))
    /\ (sh.k = "mat" => Length(sh.k, sh.C, sh.R) = sh.C /\ Length("vec", 1, sh.R) = sh.R
                        /\ Length(sh.k, sh.C, sh.R) * Length("vec", 1, sh.R) = Count(sh.C, sh.R))
    /\ (sh.k = "qua" => Length(sh.k, sh.C, sh.R) = 4)

\* the byte-level functions of the trace specification agree with the slot model (checked in the shallow states)
WordOfTag(v, es) == IF es = 1 THEN <<v>> ELSE [i \in 1..NLimbs(es) |-> IF v = 0 THEN 0 ELSE v * 256 + i]
\* its bytes, written out independently of ByteOf: low byte of limb i is i, high byte is the tag (little-endian)
ExpByte(v, es, j) == IF es = 1 THEN v ELSE IF v = 0 THEN 0 ELSE IF j % 2 = 0 THEN (j \div 2) + 1 ELSE v
InvImage ==
    steps <= 1 =>
    \A es \in ElemSizes :
      LET lay == LayE(es)
          tags == [i \in 1..Count(sh.C, sh.R) |-> WordOfTag(obj[<<(i - 1) \div sh.R, (i - 1) % sh.R>>], es)]
          wmem == MemOf(lay, tags, ZeroWord(es))
          img == ImageOf(lay, wmem)
      IN /\ Len(img) = SizeOf(lay)
         /\ wmem = [s \in 1..NSlots(lay) |-> WordOfTag(mem[s], es)] \/ \E s \in 1..NSlots(lay) : IsPad(lay, s - 1) /\ mem[s] # 0
         /\ \A a \in Comps(lay), j \in 0..es - 1 :
               /\ img[Off(lay, a[1], a[2]) + j + 1] = ByteOf(WordOfTag(obj[a], es), j)
               /\ img[Off(lay, a[1], a[2]) + j + 1] = ExpByte(obj[a], es, j)
         /\ \A b \in 1..SizeOf(lay) : IsPad(lay, (b - 1) \div es) => img[b] = 0
         /\ \A w \in {WordOfTag(v, es) : v \in Values} : WordOK(w, es) /\ Len(WordBytes(w, es)) = es

\* the permitted strides of GlmLayout cover exactly the modelled packed layouts and contain the documented aligned ones
InvStrides ==
    \A t \in ElemTypes :
      /\ (~sh.aligned => Strides(sh.k, t, sh.R, FALSE) = {sh.R})
      /\ Strides(sh.k, t, sh.R, sh.aligned) # {}
      /\ \A s \in Strides(sh.k, t, sh.R, sh.aligned) : s >= sh.R
      /\ (t = "f32" /\ sh.aligned /\ sh.k \in {"vec", "mat"} /\ sh.R >= 2 => Strides(sh.k, t, sh.R, TRUE) = {IF sh.R = 2 THEN 2 ELSE 4})
      /\ AlignOK(sh.k, t, sh.R, FALSE, ElemSize(t), sh.R * ElemSize(t), ElemSize(t))
      /\ (t = "f32" /\ sh.k \in {"vec", "mat"} /\ sh.R \in {3, 4} =>
              AlignOK(sh.k, t, sh.R, TRUE, 4, 16, 16) /\ ~AlignOK(sh.k, t, sh.R, TRUE, 4, 16, 4) /\ ~AlignOK(sh.k, t, sh.R, TRUE, 4, 16, 8))
      /\ (t = "f32" /\ sh.k \in {"vec", "mat"} /\ sh.R = 2 => AlignOK(sh.k, t, 2, TRUE, 4, 8, 8) /\ ~AlignOK(sh.k, t, 2, TRUE, 4, 8, 4))
=============================================================================
