------------------------------ MODULE MC_C12 ------------------------------
(***************************************************************************)
(* Bounded model for the geometric functions (C12).  The state machine     *)
(* enumerates three families of configurations and applies the operations  *)
(* of the area as actions:                                                 *)
(*   pair (a, b)      integer vectors of a small box, L = 2 and L = 3;     *)
(*                    action: swap the arguments                           *)
(*   tri  (p, a, b)   three integer vectors; action: rotate the arguments  *)
(*   ray  (I, N, eta) rational unit vectors from Pythagorean tuples and a  *)
(*                    rational index ratio; action: reflect I about N      *)
(* The invariants are the Euclidean identities named by the property,      *)
(* stated on the definitions of GlmGeom.tla part 1 (exact rationals), plus *)
(* the agreement of the division-free dyadic forms of part 2 (used by the  *)
(* trace specification) with those definitions, and the acceptance /       *)
(* rejection behaviour of the tolerance predicates on exact values.        *)
(***************************************************************************)
EXTENDS GlmGeom, TLC
CONSTANTS B2, B3a, B3b
VARIABLE st
vars == <<st>>

IV2(b) == {<<x, y>> : x \in -b..b, y \in -b..b}
IV3(b) == {<<x, y, z>> : x \in -b..b, y \in -b..b, z \in -b..b}
T3 == {<<1, 0, 0>>, <<0, 1, 0>>, <<0, 0, -1>>, <<1, 1, 0>>, <<1, -1, 2>>, <<-2, 1, 1>>, <<2, 2, -2>>, <<0, 0, 0>>, <<-1, -1, 0>>, <<1, 2, 3>>}
\* rational unit vectors: numerators and the common denominator
U2 == << <<1, 0, 1>>, <<0, 1, 1>>, <<0, -1, 1>>, <<3, 4, 5>>, <<4, 3, 5>>, <<-3, 4, 5>>, <<3, -4, 5>>, <<-4, -3, 5>>,
         <<5, 12, 13>>, <<-12, 5, 13>>, <<12, -5, 13>> >>
U3 == << <<1, 0, 0, 1>>, <<0, 1, 0, 1>>, <<0, 0, -1, 1>>, <<1, 2, 2, 3>>, <<-2, 1, -2, 3>>, <<-1, -2, -2, 3>>,
         <<2, 3, 6, 7>>, <<-6, 2, 3, 7>>, <<1, 4, 8, 9>>, <<3, 4, 0, 5>>, <<0, -4, 3, 5>> >>
UTab(L) == IF L = 2 THEN U2 ELSE U3
Etas == << <<1, 2>>, <<3, 4>>, <<1, 1>>, <<5, 4>>, <<4, 3>>, <<5, 3>>, <<2, 1>>, <<13, 12>>, <<13, 5>> >>

\* Two levels of fan-out (root -> seed -> configuration) so that the configurations are generated and judged by all workers.
Init == st = [k |-> "root"]
Next == \/ st.k = "root" /\ \/ \E a \in IV2(B2) \cup IV3(B3a) : st' = [k |-> "seedPair", a |-> a]
                            \/ \E p \in IV2(1) \cup T3 : st' = [k |-> "seedTri", p |-> p]
                            \/ \E L \in 2..3 : \E i \in 1..Len(UTab(L)) : st' = [k |-> "seedRay", L |-> L, i |-> i]
        \/ st.k = "seedPair" /\ \E b \in (IF Len(st.a) = 2 THEN IV2(B2) ELSE IV3(B3b)) : st' = [k |-> "pair", a |-> st.a, b |-> b]
        \/ st.k = "seedTri" /\ \E a \in (IF Len(st.p) = 2 THEN IV2(1) ELSE T3), b \in (IF Len(st.p) = 2 THEN IV2(1) ELSE T3) :
                                  st' = [k |-> "tri", p |-> st.p, a |-> a, b |-> b]
        \/ st.k = "seedRay" /\ \E j \in 1..Len(UTab(st.L)), e \in 1..Len(Etas) : st' = [k |-> "ray", L |-> st.L, i |-> st.i, j |-> j, e |-> e, flag |-> 0]
        \/ st.k = "pair" /\ Len(st.a) = 2 /\ st' = [st EXCEPT !.a = st.b, !.b = st.a]    \* swap the arguments (L = 2: closed family)
        \/ st.k = "tri" /\ st' = [st EXCEPT !.p = st.a, !.a = st.b, !.b = st.p]            \* rotate the arguments
        \/ st.k = "ray" /\ st' = [st EXCEPT !.flag = 1 - st.flag]                          \* reflect I about N (and back)
Spec == Init /\ [][Next]_vars

----------------------------------------------------------------------------
QVi(v) == [i \in 1..Len(v) |-> QI(v[i])]
DVi(v) == [i \in 1..Len(v) |-> DFromInt(v[i])]
UVec(L, i) == LET u == UTab(L)[i] IN [c \in 1..L |-> QF(u[c], u[L + 1])]
Eta(e) == QF(Etas[e][1], Etas[e][2])
RayN(s) == UVec(s.L, s.j)
RayI(s) == IF s.flag = 0 THEN UVec(s.L, s.i) ELSE GReflect(UVec(s.L, s.i), UVec(s.L, s.j))
IsPair == st.k = "pair"
IsTri == st.k = "tri"
IsRay == st.k = "ray"
LenA == Len(st.a)
Par(a, b) == \A i \in 1..Len(a) : \A j \in 1..Len(a) : QEq(QMul(a[i], b[j]), QMul(a[j], b[i]))
Col3(x, y, z) == Mat(3, 3, <<x[1], x[2], x[3], y[1], y[2], y[3], z[1], z[2], z[3]>>)
E3(i) == [c \in 1..3 |-> IF c = i THEN QOne ELSE QZero]

\* ---- dot, length, distance
InvDot ==
    IsPair => LET a == QVi(st.a) b == QVi(st.b) IN
      /\ QEq(GDot(a, b), GDot(b, a))
      /\ QEq(GDot(a, b), QI(LET s[i \in 0..LenA] == IF i = 0 THEN 0 ELSE s[i - 1] + st.a[i] * st.b[i] IN s[LenA]))     \* sum of component products
      /\ QSign(GLength2(a)) >= 0 /\ (QIsZero(GLength2(a)) <=> VIsZero(a))
      /\ QLe(QMul(GDot(a, b), GDot(a, b)), QMul(GLength2(a), GLength2(b)))                                                 \* Cauchy-Schwarz
      /\ QEq(GDot(VAdd(a, b), b), QAdd(GDot(a, b), GDot(b, b)))                                                            \* bilinear
      /\ QEq(GDistance2(a, b), QSub(QAdd(GLength2(a), GLength2(b)), QMulInt(GDot(a, b), 2)))                              \* distance = length(a - b)
      /\ QEq(GDistance2(a, b), GDistance2(b, a))
      /\ \A n \in 0..8 : GIsLength(QI(n), a) <=> (n * n = ZToInt(GLength2(a).p))                                           \* length = sqrt(dot(v,v))
\* ---- gtx/norm: l1, lMax, lx norms
InvNorms ==
    IsPair => LET a == QVi(st.a) b == QVi(st.b) da == DVi(st.a) IN
      /\ QSign(GL1(a)) >= 0 /\ (QIsZero(GL1(a)) <=> VIsZero(a))
      /\ QLe(GL1(VAdd(a, b)), QAdd(GL1(a), GL1(b)))                                                     \* triangle inequality
      /\ QLe(QMul(GLMax(a), GLMax(a)), GLength2(a)) /\ QLe(GLength2(a), QMul(GL1(a), GL1(a)))           \* lMax <= l2 <= l1
      /\ \E i \in 1..LenA : QEq(GLMax(a), QAbs(a[i]))
      /\ QEq(GLxPow(a, 1), GL1(a)) /\ QEq(GLxPow(a, 2), GLength2(a))                                    \* lx norm for x = 1, 2
      /\ QEq(QFromD(DvNorm1(da)), GL1(a)) /\ QEq(QFromD(DMaxAbs(da)), GLMax(a))                         \* the dyadic forms
      /\ \A d \in 1..4 : QEq(QFromD(JLxPow(da, d)), GLxPow(a, d))
      /\ \A n \in 0..4 : JLxOk(DFromInt(n), da, 3, F32) <=> QEq(GPowN(QI(n), 3), GLxPow(a, 3))
\* ---- cross product (L = 3), exterior product (L = 2)
InvCross ==
    IsPair => LET a == QVi(st.a) b == QVi(st.b) IN
      IF LenA = 3 THEN
        LET c == GCross(a, b) IN
        /\ QIsZero(GDot(c, a)) /\ QIsZero(GDot(c, b))                                                   \* orthogonal to both arguments
        /\ GVEq(GCross(b, a), VNeg(c))                                                                  \* anti-commutative
        /\ \A i \in 1..3 : QEq(c[i], MDet(Col3(E3(i), a, b)))                                           \* the determinant formula
        /\ QEq(GDot(c, c), QSub(QMul(GLength2(a), GLength2(b)), QMul(GDot(a, b), GDot(a, b))))          \* Lagrange
        /\ (VIsZero(c) <=> Par(a, b))
      ELSE
        LET c == GCross2(a, b) IN
        /\ QEq(GCross2(b, a), QNeg(c))
        /\ QEq(c, MDet(Mat(2, 2, <<a[1], a[2], b[1], b[2]>>)))
        /\ QEq(QMul(c, c), QSub(QMul(GLength2(a), GLength2(b)), QMul(GDot(a, b), GDot(a, b))))
        /\ (QIsZero(c) <=> Par(a, b))
\* ---- proj, perp, orthonormalize(x, y)
InvProj ==
    (IsPair /\ ~VIsZero(QVi(st.b))) => LET x == QVi(st.a) n == QVi(st.b) p == GProj(x, n) q == GPerp(x, n) IN
      /\ GVEq(VAdd(p, q), x)
      /\ QIsZero(GDot(q, n))
      /\ Par(p, n)
      /\ GVEq(GProj(p, n), p)
      /\ QEq(GLength2(x), QAdd(GLength2(p), GLength2(q)))
      /\ \A i \in 1..LenA : QEq(QMul(p[i], GDot(n, n)), QMul(n[i], GDot(x, n)))                         \* the division-free form used by JProjOk
      /\ QEq(GDot(GOrtho2Dir(x, n), n), QMul(GDot(x, n), QSub(QOne, GLength2(n))))                      \* orthogonal to y exactly when y is a unit vector
\* ---- reflect on integer vectors (N a unit vector only when it is an axis)
InvReflectInt ==
    IsPair => LET I == QVi(st.a) N == QVi(st.b) r == GReflect(I, N) IN
      /\ QEq(GDot(r, N), QMul(GDot(I, N), QSub(QOne, QMulInt(GLength2(N), 2))))
      /\ Par(VSub(I, r), N)
      /\ QEq(GLength2(N), QOne) => (QEq(GLength2(r), GLength2(I)) /\ GVEq(GReflect(r, N), I) /\ QEq(GDot(r, N), QNeg(GDot(I, N))))
\* ---- faceforward: total and disjoint branches
InvFaceforward ==
    IsTri => LET N == QVi(st.p) I == QVi(st.a) Nref == QVi(st.b) r == GFaceforward(N, I, Nref) d == GDot(Nref, I) IN
      /\ GVEq(r, N) \/ GVEq(r, VNeg(N))
      /\ (QSign(d) < 0) => GVEq(r, N)
      /\ (QSign(d) >= 0) => GVEq(r, VNeg(N))                                                            \* including dot = 0
      /\ QSign(GDot(GFaceforward(N, I, N), I)) <= 0                                                     \* the result faces against I
\* ---- mixed product, triangle normal, Gram-Schmidt (L = 3)
InvTriple ==
    (IsTri /\ Len(st.p) = 3) => LET p == QVi(st.p) a == QVi(st.a) b == QVi(st.b) w == GTriDir(p, a, b) IN
      /\ QEq(GMixed(p, a, b), MDet(Col3(p, a, b)))
      /\ QEq(GMixed(p, a, b), GMixed(a, b, p)) /\ QEq(GMixed(p, a, b), QNeg(GMixed(a, p, b)))
      /\ QIsZero(GDot(w, VSub(p, a))) /\ QIsZero(GDot(w, VSub(p, b))) /\ QIsZero(GDot(w, VSub(a, b)))   \* normal to every edge
      /\ (VIsZero(w) <=> Par(VSub(p, a), VSub(p, b)))
      /\ LET w1 == GGS1(p, a) w2 == GGS2(p, a, b) IN
           /\ QIsZero(GDot(w1, p)) /\ QIsZero(GDot(w2, p)) /\ QIsZero(GDot(w2, w1))
           /\ ~VIsZero(p) => /\ GVEq(DvToQ(JGS1(DVi(st.p), DVi(st.a))), VScale(w1, GLength2(p)))       \* the scaled dyadic forms
                             /\ ~VIsZero(w1) => GVEq(DvToQ(JGS2(DVi(st.p), DVi(st.a), DVi(st.b))), VScale(w2, QMul(GLength2(p), GLength2(VScale(w1, GLength2(p))))))
\* ---- closestPointOnLine: on the segment, foot of the perpendicular inside, nearest among the points of the segment
InvClosest ==
    (IsTri /\ st.a # st.b) => LET p == QVi(st.p) a == QVi(st.a) b == QVi(st.b) c == GClosest(p, a, b) t == GClosestT(p, a, b) IN
      /\ QSign(t) <= 0 => GVEq(c, a)
      /\ QLe(QOne, t) => GVEq(c, b)
      /\ (QSign(t) > 0 /\ QLt(t, QOne)) => (QIsZero(GDot(VSub(c, p), VSub(b, a))) /\ Par(VSub(c, a), VSub(b, a)))
      /\ \A j \in 0..8 : QLe(GDistance2(p, c), GDistance2(p, VAdd(a, VScale(VSub(b, a), QF(j, 8)))))
      /\ QEq(t, QDiv(QFromD(JClosestNum(DVi(st.p), DVi(st.a), DVi(st.b))), QFromD(JClosestDen(DVi(st.a), DVi(st.b)))))
\* ---- reflect / refract on rational unit vectors
RefrK == GRefractK(RayI(st), RayN(st), Eta(st.e))
\* sqrt(k) when it is rational (flag = 0): k (q c1 c2)^2 = K is an integer; s = isqrt(K) / (q c1 c2)
RayKInt == LET L == st.L u == UTab(L)[st.i] n == UTab(L)[st.j] p == Etas[st.e][1] q == Etas[st.e][2]
               m == LET s[c \in 0..L] == IF c = 0 THEN 0 ELSE s[c - 1] + u[c] * n[c] IN s[L]
               cc == u[L + 1] * n[L + 1]
           IN [K |-> q * q * cc * cc - p * p * (cc * cc - m * m), den |-> q * cc]
InvRay ==
    IsRay => LET I == RayI(st) N == RayN(st) eta == Eta(st.e) d == GDot(N, I) k == RefrK tn == GRefractTan(I, N, eta) IN
      /\ QEq(GLength2(I), QOne) /\ QEq(GLength2(N), QOne)                                               \* reflection preserves the length
      /\ GVEq(GReflect(GReflect(I, N), N), I)                                                           \* and is an involution
      /\ QEq(GDot(GReflect(I, N), N), QNeg(d))
      /\ GIsTIR(I, N, eta) <=> QLt(QOne, QMul(QMul(eta, eta), QSub(QOne, QMul(d, d))))                  \* k < 0  <=>  eta sin_i > 1
      /\ (GIsTIR(I, N, eta) \/ QSign(k) >= 0) /\ ~(GIsTIR(I, N, eta) /\ QSign(k) >= 0)                  \* total and disjoint
      /\ QIsZero(GDot(tn, N))                                                                           \* Snell: sin_t^2 = eta^2 sin_i^2
      /\ QEq(GLength2(tn), QMul(QMul(eta, eta), QSub(QOne, QMul(d, d))))
      /\ QEq(QAdd(GLength2(tn), k), QOne)                                                               \* sin_t^2 + cos_t^2 = 1 with cos_t^2 = k
      /\ (st.flag = 0 /\ RayKInt.K >= 0 /\ \E s \in 0..RayKInt.den : s * s = RayKInt.K) =>
           LET s == CHOOSE s \in 0..RayKInt.den : s * s = RayKInt.K
               sg == QF(s, RayKInt.den)
               r == GRefractWith(I, N, eta, sg)
           IN /\ QEq(QMul(sg, sg), k)
              /\ QEq(GLength2(r), QOne)                                                                 \* a unit vector again
              /\ QEq(GDot(r, N), QNeg(sg))                                                              \* cos_t = sqrt(k), on the far side of N
              /\ GVEq(VSub(r, VScale(N, GDot(r, N))), tn)
              /\ (QEq(eta, QOne) /\ QSign(d) <= 0) => GVEq(r, I)                                        \* equal indices: straight through
\* the action property: one reflection step and back
ReflectStep == [][IsRay => GVEq(RayI(st'), GReflect(RayI(st), RayN(st)))]_vars

\* ---- the dyadic forms of part 2 agree with the definitions, and the tolerance predicates accept the exact value and
\* ---- reject a value that is off by one (integer operands: every tolerance is far below 1)
InvJudge ==
    IsPair => LET a == QVi(st.a) b == QVi(st.b) da == DVi(st.a) db == DVi(st.b) f == F32 one == DFromInt(1) h == DMk(FALSE, <<5>>, -2) IN
      /\ QEq(QFromD(DvDot(da, db)), GDot(a, b))
      /\ JDotOk(DvDot(da, db), da, db, f) /\ ~JDotOk(DAdd(DvDot(da, db), one), da, db, f)
      /\ JLength2Ok(DvDot(da, da), da, f) /\ (~DvIsZero(da) => ~JLength2Ok(DAdd(DvDot(da, da), one), da, f))
      /\ \A n \in 0..8 : JLengthOk(DFromInt(n), da, f) <=> GIsLength(QI(n), a)
      /\ \A n \in 0..8 : JDistanceOk(DFromInt(n), da, db, f) <=> GIsLength(QI(n), VSub(a, b))
      /\ GVEq(DvToQ(JReflect(da, db)), GReflect(a, b))
      /\ JReflectOk(JReflect(da, db), da, db, f) /\ ~JReflectOk(DvAdd(JReflect(da, db), [i \in 1..LenA |-> one]), da, db, f)
      /\ QEq(QFromD(JRefractK(da, db, h)), GRefractK(a, b, QF(5, 4)))
      /\ GVEq(DvToQ(JOrtho2Dir(da, db)), GOrtho2Dir(a, b))
      /\ LenA = 3 => /\ GVEq(DvToQ(DvCross(da, db)), GCross(a, b))
                     /\ JCrossFormulaOk(DvCross(da, db), da, db, f) /\ JCrossOrthOk(DvCross(da, db), da, db, f)
                     /\ JAntiOk(DvCross(da, db), DvCross(db, da))
                     /\ ~JCrossFormulaOk(DvAdd(DvCross(da, db), <<one, DZero, DZero>>), da, db, f)
      /\ LenA = 2 => /\ QEq(QFromD(JCross2(da, db)), GCross2(a, b))
                     /\ JCross2Ok(JCross2(da, db), da, db, f) /\ ~JCross2Ok(DAdd(JCross2(da, db), one), da, db, f)
      /\ ~DvIsZero(db) =>
           /\ LET nn == DvDot(db, db) IN      \* proj / perp are dyadic when |b|^2 is a power of two
                (\E e \in 0..6 : DEq(nn, DPow2(e))) =>
                   LET pr == [i \in 1..LenA |-> DMul(DMul(db[i], DvDot(da, db)), DPow2(-DTopExp(nn)))] IN
                   /\ GVEq(DvToQ(pr), GProj(a, b))
                   /\ JProjOk(pr, da, db, f) /\ JPerpOk(DvSub(da, pr), da, db, f)
                   /\ ~JProjOk(DvAdd(pr, [i \in 1..LenA |-> one]), da, db, f)
                   /\ ~JPerpOk(DvAdd(DvSub(da, pr), [i \in 1..LenA |-> one]), da, db, f)
\* faceforward / refract region classification on integer operands: the rounding band is empty, the dyadic k is the rational k
InvRegion ==
    IsTri => LET da == DVi(st.p) db == DVi(st.a) h == DMk(FALSE, <<IF Len(st.p) = 2 THEN 5 ELSE 3>>, -2)
                 k == GRefractK(QVi(st.p), QVi(st.a), QFromD(h)) reg == JRefractRegion(da, db, h, F32) IN
      /\ reg = (IF QSign(k) < 0 THEN "tir" ELSE IF QSign(k) > 0 THEN "refr" ELSE "band")
      /\ JDotSignCertain(da, db, F32) <=> ~QIsZero(GDot(QVi(st.p), QVi(st.a)))

----------------------------------------------------------------------------
(* constant-level checks (evaluated once) *)
\* the cosine enclosure against reference values: |S_17(r) - cos r| < 1e-15 for r = 0, 1/2, 1, 3/2, 201/64
ZP16 == LET p[i \in 0..16] == IF i = 0 THEN ZFromInt(1) ELSE ZMulInt(p[i - 1], 10) IN p[16]
CosBetween(rn, rd2, loHi, loLo, hiHi, hiLo, neg) ==      \* cos(rn/2^rd2) in [lo, hi] * 1e-16, lo = loHi*10^8 + loLo (two native ints)
    LET s == QDiv(QFromD(JCosNum(DMk(FALSE, NFromNat(rn), -rd2), F64)), QFromD(JCosDen(F64)))
        mk(h, l) == QMk(LET z == ZAdd(ZMulInt(ZFromInt(h), 100000000), ZFromInt(l)) IN IF neg THEN ZNeg(z) ELSE z, ZP16.m)
        lo == mk(loHi, loLo) hi == mk(hiHi, hiLo)
    IN QLe(QMin(lo, hi), s) /\ QLe(s, QMax(lo, hi))
ASSUME DEq(JCosNum(DZero, F64), JCosDen(F64)) /\ DEq(JCosNum(DZero, F32), JCosDen(F32))                                                       \* cos 0 = 1
ASSUME CosBetween(1, 1, 87758256, 18903720, 87758256, 18903735, FALSE)                    \* cos 0.5  = 0.8775825618903728
ASSUME CosBetween(1, 0, 54030230, 58681390, 54030230, 58681405, FALSE)                    \* cos 1    = 0.5403023058681398
ASSUME CosBetween(3, 1, 7073720, 16677020, 7073720, 16677035, FALSE)                      \* cos 1.5  = 0.0707372016677029
ASSUME CosBetween(201, 6, 99999953, 18233010, 99999953, 18233023, TRUE)                   \* cos 3.140625 = -0.9999995318233016
\* JAngleOk accepts the right angle for orthogonal unit vectors (pi/2 = 0x3FC90FDB as float) and rejects a wrong one
PiHalfF == ValW(F32, <<4059, 16329>>)
ASSUME JAngleOk(PiHalfF, <<DUnit, DZero>>, <<DZero, DUnit>>, F32)
ASSUME ~JAngleOk(PiHalfF, <<DUnit, DZero>>, <<DUnit, DZero>>, F32)
ASSUME JAngleOk(DZero, <<DUnit, DZero>>, <<DUnit, DZero>>, F32)
ASSUME ~JAngleOk(DMk(FALSE, <<1>>, -8), <<DUnit, DZero>>, <<DUnit, DZero>>, F32)
\* the refraction acceptance predicate on an exact rational-root instance: I = (3/5,-4/5) is not dyadic, so use the
\* dyadic instance I = (1/2)(1, -1, -1, -1)-like: I = (0,-1), N = (0,1), eta = 3/2: d = -1, k = 1, r = eta I - (eta d + 1) N = (0,-1)
ASSUME JRefractFormulaOk(<<DZero, DFromInt(-1)>>, <<DZero, DFromInt(-1)>>, <<DZero, DUnit>>, DMk(FALSE, <<3>>, -1), F32)
ASSUME ~JRefractFormulaOk(<<DZero, DFromInt(-2)>>, <<DZero, DFromInt(-1)>>, <<DZero, DUnit>>, DMk(FALSE, <<3>>, -1), F32)
ASSUME ~JRefractFormulaOk(<<DZero, DUnit>>, <<DZero, DFromInt(-1)>>, <<DZero, DUnit>>, DMk(FALSE, <<3>>, -1), F32)     \* wrong sign of the root
\* k = 0 exactly (I orthogonal to N, eta = 1): the refracted ray is I itself; the zero vector is not accepted by the formula
ASSUME JRefractFormulaOk(<<DUnit, DZero>>, <<DUnit, DZero>>, <<DZero, DUnit>>, DUnit, F32)
ASSUME ~JRefractFormulaOk(<<DZero, DZero>>, <<DUnit, DZero>>, <<DZero, DUnit>>, DUnit, F32)
\* normalize: (3,4)/5 rounded to float is accepted for (3,4), its negation and a non-unit multiple are rejected
N35 == <<ValW(F32, <<39322, 16153>>), ValW(F32, <<52429, 16204>>)>>          \* 0.6f, 0.8f
ASSUME JNormalizeOk(N35, <<DFromInt(3), DFromInt(4)>>, F32)
ASSUME ~JNormalizeOk(DvNeg(N35), <<DFromInt(3), DFromInt(4)>>, F32)
ASSUME ~JNormalizeOk(<<DFromInt(3), DFromInt(4)>>, <<DFromInt(3), DFromInt(4)>>, F32)
ASSUME ~JNormalizeOk(<<N35[2], N35[1]>>, <<DFromInt(3), DFromInt(4)>>, F32)

\* non-vacuity of the enumerated families
ASSUME \E a \in IV3(B3a), b \in IV3(B3b) : ~VIsZero(QVi(a)) /\ ~VIsZero(QVi(b)) /\ QIsZero(GDot(QVi(a), QVi(b)))                       \* orthogonal
ASSUME \E a \in IV3(B3a), b \in IV3(B3b) : ~VIsZero(QVi(a)) /\ a # b /\ Par(QVi(a), QVi(b)) /\ QSign(GDot(QVi(a), QVi(b))) > 0        \* parallel
ASSUME \E a \in IV3(B3a), b \in IV3(B3b) : Par(QVi(a), QVi(b)) /\ QSign(GDot(QVi(a), QVi(b))) < 0                                      \* antiparallel
RayCfg(L, i, j, e) == [k |-> "ray", L |-> L, i |-> i, j |-> j, e |-> e, flag |-> 0]
KOf(L, i, j, e) == GRefractK(UVec(L, i), UVec(L, j), Eta(e))
ASSUME \A L \in 2..3 : /\ \E i \in 1..Len(UTab(L)), j \in 1..Len(UTab(L)), e \in 1..Len(Etas) : QSign(KOf(L, i, j, e)) < 0          \* total internal reflection
                       /\ \E i \in 1..Len(UTab(L)), j \in 1..Len(UTab(L)), e \in 1..Len(Etas) : QIsZero(KOf(L, i, j, e))            \* the critical angle itself
                       /\ \E i \in 1..Len(UTab(L)), j \in 1..Len(UTab(L)), e \in 1..Len(Etas) : QSign(KOf(L, i, j, e)) > 0 /\ QLt(KOf(L, i, j, e), QOne)
=============================================================================
