CONSTANTS Depth2 = 6 Depth3 = 3 Depth4 = 2 MaxEntry = 4 X2 = 7 X3 = 2 X4 = 1 NegLimit = 3
SPECIFICATION Spec
INVARIANTS Laws Emit
CHECK_DEADLOCK FALSE
