CONSTANTS Depth2 = 6 Depth3 = 3 Depth4 = 2 MaxEntry = 4 X2 = 5 X3 = 2 X4 = 1
SPECIFICATION Spec
INVARIANTS Laws Emit
CHECK_DEADLOCK FALSE
