------------------------------ MODULE MC_X14 ------------------------------
(***************************************************************************)
(* Bounded model of stage X14.                                             *)
(*                                                                         *)
(* Families (root -> seed -> configuration):                               *)
(*  gen   the generator as a machine that hands out ONE draw per step: a   *)
(*        call of compute_rand<L, uintW> (2-bit bytes, W in {2,4,8}) pops  *)
(*        its draws one by one (actions Begin / Draw / Return); on Return  *)
(*        the draws are RnTake of the state at Begin, the state is RnDrop  *)
(*        of it (the two operators the trace specification uses), every    *)
(*        draw landed in exactly one byte of one component.                *)
(*  lin   integer linearRand on 8-bit words, unsigned and signed: all      *)
(*        (Min, Max) over a lattice.                                       *)
(*  ends  two-byte words of the 2-bit model: every interval is hit at both *)
(*        ends with the documented byte reduction; NOT with the coded one. *)
(*  loop  the rejection loop of diskRand as a machine (action Try): stops  *)
(*        exactly at the first accepted candidate.                         *)
(*  flt   floating linearRand, the implementation's rounding sequence on   *)
(*        the mini format (5,6) with an 8-bit word: tolerance constant,    *)
(*        interval.                                                        *)
(*  ln    the logarithm enclosure: additivity on a lattice.                *)
(*  lat / per   the transcription of perlin(vec2): lattice zeros, periods. *)
(***************************************************************************)
EXTENDS GlmX14, TLC
VARIABLE st
vars == <<st>>

CONSTANT Deep           \* FALSE: quick instance

\* ---- gen: 2-bit bytes
BW == 2
GenAlpha == {0, 3, 5, 30}                                           \* draws; bytes (mod 4) 0 3 1 2, coded (mod 3) 0 0 2 0
GenFb == 6                                                          \* the tail constant of the model
GenCalls == {<<2, 1>>, <<2, 2>>, <<4, 1>>, <<4, 2>>, <<8, 1>>, <<2, 3>>}     \* <<W, L>>
GenNeed(c) == c[2] * (c[1] \div BW)
\* ---- lin
V8 == IF Deep THEN {0, 1, 2, 3, 5, 7, 8, 15, 16, 31, 32, 63, 64, 100, 126, 127, 128, 129, 130, 200, 253, 254, 255, 192, 191, 65, 33, 17, 9, 4}
      ELSE {0, 1, 2, 3, 5, 7, 8, 15, 16, 31, 32, 63, 64, 100, 126, 127, 128, 129, 130, 200, 253, 254, 255}
U8 == {0, 1, 2, 3, 7, 8, 100, 127, 128, 129, 200, 254, 255}
\* ---- loop
LoopAlpha == {0, 3, 2}
LoopLen == IF Deep THEN 7 ELSE 6
LoopR == {1, 3}
LoopPer == 4                                                        \* draws per candidate: 2 components x 2 bytes
\* ---- flt: mini format (5,6), 8-bit word
FM == [eb |-> 5, mb |-> 6]
FltW == 8
FltMant == IF Deep THEN {0, 1, 21, 31, 32, 33, 62, 63} ELSE {0, 1, 31, 32, 63}
FltExp == IF Deep THEN 12..18 ELSE 13..17                           \* bias 15: 2^-2 .. 2^2
FltVals == {[s |-> s, e |-> e, m |-> NFromNat(m)] : s \in {0, 1}, e \in FltExp, m \in FltMant} \cup {FZero(FM, 0)}
FltU == {0, 1, 2, 3, 64, 127, 128, 129, 130, 131, 191, 192, 193, 250, 251, 252, 253, 254, 255}
\* ---- ln
LnVals == {DMk(FALSE, NFromNat(m), e) : m \in {1, 3, 5, 7, 1023, 1025, 49151}, e \in {-40, -17, -16, -3, 0}}
\* ---- noise
LatR == IF Deep THEN 9 ELSE 6
PerPts == {<<a, b>> : a \in {-9, -2, 1, 6, 1157}, b \in {-1155, -5, 0, 3, 7}}          \* quarters: x = a / 4

Init == st = [k |-> "root"]
Next ==
    \/ st.k = "root" /\
         \/ \E a \in GenAlpha, b \in GenAlpha, o \in RnOrders : st' = [k |-> "genSeed", s |-> <<a, b>>, o |-> o]
         \/ \E sg \in BOOLEAN, mn \in V8 : st' = [k |-> "linSeed", sg |-> sg, mn |-> mn]
         \/ \E mn \in 0..15 : st' = [k |-> "endsSeed", mn |-> mn]
         \/ \E a \in LoopAlpha, b \in LoopAlpha, R \in LoopR, o \in {RnGcc, RnClang} : st' = [k |-> "loopSeed", s |-> <<a, b>>, R |-> R, o |-> o]
         \/ \E mn \in FltVals : st' = [k |-> "fltSeed", mn |-> mn]
         \/ \E a \in LnVals : st' = [k |-> "lnSeed", a |-> a]
         \/ \E i \in -LatR..LatR : st' = [k |-> "latSeed", i |-> i]
         \/ \E p \in PerPts : st' = [k |-> "per", p |-> p]
    \* gen: extend the seed to 4 draws, then calls pop draws one at a time
    \/ st.k = "genSeed" /\ \E c \in GenAlpha, d \in GenAlpha :
         st' = [k |-> "gen", o |-> st.o, rest |-> st.s \o <<c, d>>, depth |-> 0]
    \/ st.k = "gen" /\ st.depth < 2 /\ \E c \in GenCalls :                                                     \* Begin
         st' = [k |-> "call", o |-> st.o, rest |-> st.rest, depth |-> st.depth, c |-> c, start |-> st.rest, got |-> << >>]
    \/ st.k = "call" /\ Len(st.got) < GenNeed(st.c) /\                                                        \* Draw: one rand()
         st' = [st EXCEPT !.got = Append(st.got, IF Len(st.rest) > 0 THEN Head(st.rest) ELSE GenFb),
                          !.rest = IF Len(st.rest) > 0 THEN Tail(st.rest) ELSE << >>]
    \/ st.k = "call" /\ Len(st.got) = GenNeed(st.c) /\                                                        \* Return
         st' = [k |-> "ret", o |-> st.o, rest |-> st.rest, depth |-> st.depth + 1, c |-> st.c, start |-> st.start, got |-> st.got,
                res |-> RnRandB(BW, st.c[1], st.c[2], st.got, st.o, 4)]
    \/ st.k = "ret" /\ st' = [k |-> "gen", o |-> st.o, rest |-> st.rest, depth |-> st.depth]
    \* lin
    \/ st.k = "linSeed" /\ \E mx \in V8 : st' = [k |-> "lin", sg |-> st.sg, mn |-> st.mn, mx |-> mx]
    \* ends
    \/ st.k = "endsSeed" /\ \E mx \in st.mn..15 : st' = [k |-> "ends", mn |-> st.mn, mx |-> mx]
    \* loop
    \/ st.k = "loopSeed" /\ \E t \in [1..(LoopLen - 2) -> LoopAlpha] :
         st' = [k |-> "loop", R |-> st.R, o |-> st.o, start |-> st.s \o t, rest |-> st.s \o t, n |-> 0]
    \/ st.k = "loop" /\                                                                                        \* Try one candidate
         LET ds == RnTakeF(st.rest, LoopPer, GenFb)
             us == RnRandB(BW, 4, 2, ds, st.o, 4)
             c == [i \in 1..2 |-> ZToInt(RnLinZ(us[i], ZFromInt(-st.R), ZFromInt(st.R)))]
         IN IF c[1] * c[1] + c[2] * c[2] <= st.R * st.R
            THEN st' = [k |-> "loopDone", R |-> st.R, o |-> st.o, start |-> st.start, rest |-> RnDrop(st.rest, LoopPer), n |-> st.n + 1, res |-> c]
            ELSE st' = [st EXCEPT !.rest = RnDrop(st.rest, LoopPer), !.n = st.n + 1]
    \* flt
    \/ st.k = "fltSeed" /\ \E mx \in FltVals : DLe(Val(FM, st.mn), Val(FM, mx)) /\ st' = [k |-> "flt", mn |-> st.mn, mx |-> mx]
    \* ln
    \/ st.k = "lnSeed" /\ \E b \in LnVals : st' = [k |-> "ln", a |-> st.a, b |-> b]
    \* noise
    \/ st.k = "latSeed" /\ \E j \in -LatR..LatR : st' = [k |-> "lat", i |-> st.i, j |-> j]
Spec == Init /\ [][Next]_vars

----------------------------------------------------------------------------
IsK(k) == st.k = k
Pow4(n) == 4 ^ n
NatOf(x) == NToNat(x)
\* ---- gen
DigitsOf(res, W) == {<<i, k>> : i \in 1..Len(res), k \in 0..((W \div BW) - 1)}
DigitAt(res, ik) == (NatOf(res[ik[1]]) \div Pow4(ik[2])) % 4
InvGen ==
    IsK("ret") => LET W == st.c[1] L == st.c[2] need == GenNeed(st.c) r == st.res ds == st.got IN
      /\ Len(ds) = need
      /\ \A i \in 1..need : ds[i] = RnTakeF(st.start, need, GenFb)[i]                                         \* the draws are the head of the state at Begin
      /\ st.rest = RnDrop(st.start, need)                                                                     \* the new state is the rest
      /\ Len(r) = L /\ \A i \in 1..L : NatOf(r[i]) < 2 ^ W
      /\ \A v \in 0..3 : Cardinality({ik \in DigitsOf(r, W) : DigitAt(r, ik) = v}) = Cardinality({j \in 1..need : RnByte(ds[j], 4) = v})   \* every draw in exactly one byte
      /\ (L = 1 /\ st.o.ops) => NatOf(r[1]) = LET s[j \in 0..need] == IF j = 0 THEN 0 ELSE s[j - 1] + RnByte(ds[j], 4) * Pow4(j - 1) IN s[need]         \* g++: first draw = lowest byte
      /\ (L = 1 /\ ~st.o.ops) => NatOf(r[1]) = LET s[j \in 0..need] == IF j = 0 THEN 0 ELSE 4 * s[j - 1] + RnByte(ds[j], 4) IN s[need]                  \* clang: first draw = highest byte
      /\ (W = BW) => \A i \in 1..L : NatOf(r[i]) = RnByte(ds[IF st.o.args THEN L + 1 - i ELSE i], 4)
      \* the coded reduction (mod 3) never produces the byte 3
      /\ LET rc == RnRandB(BW, W, L, ds, st.o, 3) IN \A ik \in DigitsOf(rc, W) : DigitAt(rc, ik) # 3
\* a call consumes exactly its need, one draw per step
GenStep == [][(st.k = "call" /\ st'.k = "call") => (Len(st'.got) = Len(st.got) + 1 /\ Len(st'.rest) <= Len(st.rest))]_vars

\* ---- lin (8-bit words)
InvLin ==
    IsK("lin") => LET mn == NFromNat(st.mn) mx == NFromNat(st.mx) mnZ == WToZ(8, st.sg, mn) mxZ == WToZ(8, st.sg, mx)
                      full == RnFullRange(8, mn, mx) IN
      ZLe(mnZ, mxZ) => \A uu \in U8 : LET u == NFromNat(uu) w == RnLinWord(8, u, mn, mx) IN
        /\ w.trap <=> full
        /\ full <=> ZEq(RnSpan(mnZ, mxZ), ZFromInt(256))
        /\ ~full => LET z == RnLinZ(u, mnZ, mxZ) IN
             /\ NCmp(w.v, WFromZ(8, z)) = 0                                                      \* wrap-around arithmetic = arithmetic over the integers
             /\ ZLe(mnZ, z) /\ ZLe(z, mxZ)                                                     \* in [Min, Max]
             /\ ZLt(ZFromInt(uu), RnSpan(mnZ, mxZ)) => ZEq(z, ZAdd(mnZ, ZFromInt(uu)))
             /\ ZEq(RnLinZ(NFromNat(ZToInt(ZSub(mxZ, mnZ))), mnZ, mxZ), mxZ)                   \* u = span - 1 lands on Max
        /\ ZEq(RnLinZ(<< >>, mnZ, mxZ), mnZ)                                                   \* u = 0 lands on Min (also for the whole type)

\* ---- ends: 4-bit words of two 2-bit bytes
EndsDraws == {<<a, b>> : a \in 0..7, b \in 0..7}
EndsVal(ds, bm, mn, mx) == ZToInt(RnLinZ(RnRandB(BW, 4, 1, ds, RnGcc, bm)[1], ZFromInt(mn), ZFromInt(mx)))
HitsBoth(bm, mn, mx) == (\E ds \in EndsDraws : EndsVal(ds, bm, mn, mx) = mn) /\ (\E ds \in EndsDraws : EndsVal(ds, bm, mn, mx) = mx)
InvEnds ==
    (IsK("ends") /\ st.mx - st.mn + 1 < 16) =>
      /\ HitsBoth(4, st.mn, st.mx)
      /\ \A ds \in EndsDraws : LET v == EndsVal(ds, 4, st.mn, st.mx) IN st.mn <= v /\ v <= st.mx
      /\ \A ds \in EndsDraws : LET v == EndsVal(ds, 3, st.mn, st.mx) IN st.mn <= v /\ v <= st.mx            \* the coded reduction stays inside ...
      /\ (st.mx - st.mn + 1 > 11) => ~HitsBoth(3, st.mn, st.mx)                                               \* ... but its largest word is 22 (base 4) = 10: long intervals never see Max

\* ---- loop
LoopCand(start, j, R, o) ==
    LET us == RnRandB(BW, 4, 2, RnTakeF(RnDrop(start, (j - 1) * LoopPer), LoopPer, GenFb), o, 4)
    IN [i \in 1..2 |-> ZToInt(RnLinZ(us[i], ZFromInt(-R), ZFromInt(R)))]
LoopIn(c, R) == c[1] * c[1] + c[2] * c[2] <= R * R
\* the declarative form used by the trace specification: K candidates, all but the last rejected, the last accepted and returned
LoopDecl(start, K, res, R, o) == (\A j \in 1..(K - 1) : ~LoopIn(LoopCand(start, j, R, o), R)) /\ LoopIn(LoopCand(start, K, R, o), R) /\ res = LoopCand(start, K, R, o)
InvLoop ==
    /\ IsK("loopDone") =>
         /\ LoopDecl(st.start, st.n, st.res, st.R, st.o)
         /\ \A K \in 1..(st.n - 1) : ~LoopIn(LoopCand(st.start, K, st.R, st.o), st.R)                         \* no earlier stop
         /\ st.rest = RnDrop(st.start, st.n * LoopPer)                                                       \* consumption: n candidates
         /\ LoopIn(st.res, st.R) /\ \A i \in 1..2 : -st.R <= st.res[i] /\ st.res[i] <= st.R
    /\ IsK("loop") => st.n <= (Len(st.start) + LoopPer - 1) \div LoopPer                                    \* the tail candidate ends every run
LoopTerminates == [][(st.k = "loop" /\ st.rest = << >>) => st'.k = "loopDone"]_vars

\* ---- flt: the implementation's operation sequence in the mini format
FltPipe(u, mn, mx) ==
    LET tu == RoundD(FM, DFromInt(u), 0)                                         \* float(u)
        t == FDiv(FM, tu, RoundD(FM, DFromInt(2 ^ FltW), 0))                     \* / float(2^W - 1) = 2^W
        d == FSub(FM, mx, mn)
        p == FMul(FM, t, d)
    IN FAdd(FM, p, mn)
InvFlt ==
    IsK("flt") => LET mn == Val(FM, st.mn) mx == Val(FM, st.mx) IN
      \A u \in FltU : LET r == FltPipe(u, st.mn, st.mx) un == NFromNat(u) IN
        /\ IsFinite(FM, r)
        /\ RnLinFltOk(Val(FM, r), un, FltW, mn, mx, FM)                          \* tolerance k = 4, interval unless t >= 1 - eps
        /\ DLe(mn, Val(FM, r))                                                    \* never below Min
        /\ (u = 0) => DEq(Val(FM, r), mn)                                        \* the lower end is hit exactly
\* the tolerance is not vacuous: a quarter of it is violated somewhere, and at t = 1 the interval does fail somewhere
FltQuarterFails(mnF, mxF, u) ==
    LET mn == Val(FM, mnF) mx == Val(FM, mxF) un == NFromNat(u) r == Val(FM, FltPipe(u, mnF, mxF))
    IN ~DNear(r, RnLinD(un, FltW, mn, mx), DMul2k(RnLinTol(un, FltW, mn, mx, FM), -2))

\* ---- ln
LnD(w) == DNeg(DMul2k(RnNeg2Ln(w), -1))                                          \* ln w
InvLn ==
    IsK("ln") => LET a == st.a b == st.b IN
      /\ DNear(LnD(DMul(a, b)), DAdd(LnD(a), LnD(b)), DPow2(-72))                 \* ln(ab) = ln a + ln b
      /\ DLt(a, b) => DLt(LnD(a), LnD(b))                                        \* monotone on the lattice
      /\ DIsZero(LnD(DUnit))

\* ---- noise: the transcription of perlin(vec2)
FI(n) == RoundD(F32, DFromInt(n), 0)
FQ(n) == RoundD(F32, DMk(n < 0, NFromNat(IF n < 0 THEN -n ELSE n), -2), 0)       \* n / 4
InvLat ==
    IsK("lat") => /\ IsZero(F32, PnPerlin2(FI(st.i), FI(st.j)))                                             \* zero on the lattice
                  /\ IsZero(F32, PnPerlin2(FI(st.i * 4099), FI(st.j * 65536 - 1)))                          \* far out
                  /\ IsZero(F32, PnPerlin2R(FI(st.i), FI(st.j), <<FI(3), FI(5)>>))
InvPer ==
    IsK("per") => LET x == FQ(st.p[1]) y == FQ(st.p[2]) v == PnPerlin2(x, y) rep == <<FI(3), FI(5)>> IN
      /\ IsFinite(F32, v) /\ DLe(DAbs(Val(F32, v)), PnPerlinBound(2))
      /\ PnPerlin2(FQ(st.p[1] + 4 * 289), FQ(st.p[2] - 8 * 289)) = v                                        \* period 289
      /\ PnPerlin2R(x, y, <<FI(289), FI(289)>>) = v                                                         \* perlin(p, 289) = perlin(p)
      /\ PnPerlin2R(FQ(st.p[1] + 4 * 3), FQ(st.p[2] - 4 * 10), rep) = PnPerlin2R(x, y, rep)                 \* periodic variant
      /\ (st.p[1] % 4 # 0 /\ st.p[2] % 4 # 0) => ~IsZero(F32, v)                                            \* not identically zero

----------------------------------------------------------------------------
(* constant-level checks *)
\* reference values to 1e-16
ZP16 == LET p[i \in 0..16] == IF i = 0 THEN ZFromInt(1) ELSE ZMulInt(p[i - 1], 10) IN p[16]
Dec16(ip, hi, lo) == QMk(ZAdd(ZMul(ZFromInt(ip), ZP16), ZAdd(ZMulInt(ZFromInt(hi), 100000000), ZFromInt(lo))), ZP16.m)    \* ip.hhhhhhhhllllllll
Between(d, ip, hi, lo1, lo2) == QLe(Dec16(ip, hi, lo1), QFromD(d)) /\ QLe(QFromD(d), Dec16(ip, hi, lo2))
ASSUME Between(RnNeg2Ln(DPow2(-1)), 1, 38629436, 11198905, 11198907)              \* 2 ln 2 = 1.3862943611198906
ASSUME Between(RnNeg2Ln(DMk(FALSE, <<3>>, -2)), 0, 57536414, 49035618, 49035619)  \* -2 ln 0.75
ASSUME Between(RnNeg2Ln(DMk(FALSE, <<3>>, -20)), 25, 52866264, 50615929, 50615930)
ASSUME Between(RnNeg2Ln(DMk(FALSE, NFromNat(1023), -10)), 0, 195407, 92956532, 92956533)
ASSUME DIsZero(RnNeg2Ln(DUnit))
\* the tail constant is accepted by every loop (real widths, both byte reductions, both orders)
TailWords(Wu, L, bm) == RnRand(Wu, L, [i \in 1..RnNeed(Wu, L) |-> RnFallback], RnGcc, bm)
ASSUME \A bm \in {255, 256} : \A L \in {2, 3} :
         /\ RnIn3(RnCandOf(TailWords(32, L, bm), 32, DUnit), DUnit, F32) = "T"
         /\ RnIn3(RnCandOf(TailWords(64, L, bm), 64, DPow2(20)), DPow2(20), F64) = "T"
ASSUME \A bm \in {255, 256} : RnAcc3(RnGaussPair(TailWords(32, 1, bm)[1], TailWords(32, 1, bm)[1], 32).w, F32) = "T"
\* gaussRand acceptance on an exact instance: x1 = x2 = 1/2, w = 1/2: z = (1/2) sqrt(4 ln 2) = 0.8325546111576977...
GHalf == [e1 |-> DPow2(-1), e2 |-> DPow2(-1), w |-> DPow2(-1)]
GZ == Val(F32, RoundQ(F32, Dec16(0, 83255461, 11576977), 0))
ASSUME RnGaussOk(GZ, DZero, DUnit, GHalf, F32)
ASSUME RnGaussOk(DAdd(DMulInt(GZ, 9), DFromInt(5)), DFromInt(5), DFromInt(81), GHalf, F32)                   \* Mean 5, Deviation 3 as coded: 9 z + 5
ASSUME ~RnGaussOk(DAdd(DMulInt(GZ, 9), DFromInt(5)), DFromInt(5), DFromInt(9), GHalf, F32)                   \* ... which is not Deviation * z + Mean
ASSUME RnGaussOk(DAdd(DMulInt(GZ, 3), DFromInt(5)), DFromInt(5), DFromInt(9), GHalf, F32)
ASSUME ~RnGaussOk(DNeg(GZ), DZero, DUnit, GHalf, F32)                                                        \* wrong sign
ASSUME ~RnGaussOk(DMul(GZ, DMk(FALSE, <<1025>>, -10)), DZero, DUnit, GHalf, F32)                             \* 0.1 % off
\* circular / spherical acceptance on exact instances: u = 2^30: angle = TwoPi / 4
ASSUME RnCircularOk(<<DZero, DFromInt(2)>>, NShl(<<1>>, 30), 32, DFromInt(2), "f32", F32)
ASSUME ~RnCircularOk(<<DFromInt(2), DZero>>, NShl(<<1>>, 30), 32, DFromInt(2), "f32", F32)
ASSUME ~RnCircularOk(<<DZero, DFromInt(-2)>>, NShl(<<1>>, 30), 32, DFromInt(2), "f32", F32)
ASSUME RnSphericalOk(<<DZero, DFromInt(1), DZero>>, NShl(<<1>>, 30), NShl(<<1>>, 31), 32, DUnit, "f32", F32)  \* theta = pi/2, v = 0
ASSUME RnSphericalOk(<<DZero, DZero, DFromInt(-1)>>, NShl(<<1>>, 30), << >>, 32, DUnit, "f32", F32)           \* v = -1: the south pole
ASSUME ~RnSphericalOk(<<DZero, DZero, DFromInt(1)>>, NShl(<<1>>, 30), << >>, 32, DUnit, "f32", F32)
ASSUME ~RnSphericalOk(<<DFromInt(1), DZero, DZero>>, NShl(<<1>>, 30), NShl(<<1>>, 31), 32, DUnit, "f32", F32)
\* real widths: the word of four draws under g++'s order is d1 + 2^8 d2 + 2^16 d3 + 2^24 d4; the largest coded word is 0xFEFEFEFE
ASSUME NCmp(RnRand(32, 1, <<1, 2, 3, 4>>, RnGcc, 256)[1], NFromLimbs16(<<513, 1027>>)) = 0
ASSUME NCmp(RnRand(32, 1, <<1, 2, 3, 4>>, RnClang, 256)[1], NFromLimbs16(<<772, 258>>)) = 0
ASSUME RnRand(16, 2, <<1, 2, 3, 4>>, RnGcc, 256) = <<NFromNat(1026), NFromNat(769)>>                          \* observed: u16vec2 (0x402, 0x301)
ASSUME NCmp(RnRand(32, 1, <<254, 509, RnRandMax - 128, 254>>, RnGcc, 255)[1], NFromLimbs16(<<65278, 65278>>)) = 0
ASSUME \A d \in {0, 254, 255, 256, 65279, 65280, RnRandMax} : RnByte(d, 255) < 255
\* the tolerance of floating linearRand is not vacuous, and the interval does fail at t = 1 in the mini format
ASSUME \E mn \in FltVals, mx \in FltVals, u \in FltU : DLe(Val(FM, mn), Val(FM, mx)) /\ FltQuarterFails(mn, mx, u)
ASSUME \E mn \in FltVals, mx \in FltVals : DLe(Val(FM, mn), Val(FM, mx)) /\ DLt(Val(FM, mx), Val(FM, FltPipe(255, mn, mx)))
=============================================================================
