SPECIFICATION Spec
INVARIANTS InvTrunc InvRound InvIndependent
CHECK_DEADLOCK FALSE
