SPECIFICATION Spec
INVARIANTS InvBijection InvRead InvWriteRead InvFrame InvFill InvCtorPrefix InvCtorDone InvMatOverlap InvMatIdentity InvMatRoundTrip InvMatCompose InvMatDiag InvMatColumns InvQua Emit
CHECK_DEADLOCK FALSE
