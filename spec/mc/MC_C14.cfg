CONSTANTS FMT <- FmtMini
MaxDepth = 3
MaxN = 3
SPECIFICATION Spec
INVARIANTS InvPosition InvDistance InvEqualUlps InvNextIsLeast
CHECK_DEADLOCK FALSE
