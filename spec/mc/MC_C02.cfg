SPECIFICATION Spec
INVARIANTS InvShapes InvTranspose InvAssoc InvBasis InvVecMat InvOuter InvConvert InvAccess
CHECK_DEADLOCK FALSE
