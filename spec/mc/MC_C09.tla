------------------------------ MODULE MC_C09 ------------------------------
(***************************************************************************)
(* Bounded model for the transform builders (C09).  The state is a counter *)
(* k walked as a binary tree (so that the TLC workers share the work);     *)
(* each invariant decodes its own grid point from k.  All laws are stated  *)
(* on the definitions of GlmTransform.tla and evaluated in exact rational  *)
(* arithmetic:                                                             *)
(*   InvTranslate  T(a)T(b) = T(a+b), T(a) moves points by a, the hand-    *)
(*                 expanded fast path = M * T(a) for every base matrix M   *)
(*                 (also with a non-affine last row)                       *)
(*   InvScale      S(a)S(b) = S(ab), fast path = M * S(a)                  *)
(*   InvRotate     R(c,s,axis) is orthonormal with det 1, fixes its axis,  *)
(*                 R(c,s)R(c,-s) = I, angles add, trace = 1 + 2c, fast     *)
(*                 path = M * R, half-angle quaternion = R, rotateX/Y/Z =  *)
(*                 the planar rotation                                     *)
(*   InvShear      fast path = M * H, H(p,0,0,0) = I, the gtx/transform2   *)
(*                 3D shears are instances of H, 2D shears compose and are *)
(*                 horizontal / vertical as named, reflect / proj /        *)
(*                 scaleBias laws                                          *)
(*   InvLookAt     the lookAt construction (cross products, no             *)
(*                 normalisation) satisfies the postconditions of the      *)
(*                 property for both handednesses; the other handedness    *)
(*                 and a sign-swapped row violate them (non-vacuity)       *)
(*   InvDecompose  recompose = P T R K S; the sign-canonical factorisation *)
(*                 rebuilds the same matrix; the perspective solve         *)
(*                 recovers p; column norms = |scale| without skew         *)
(***************************************************************************)
EXTENDS GlmTransform, FiniteSets, TLC
VARIABLE k
vars == <<k>>

\* ---------------------------------------------------------------- grids
CS == << <<1, 0, 1>>, <<0, 1, 1>>, <<-1, 0, 1>>, <<3, 4, 5>>, <<-4, 3, 5>>, <<5, -12, 13>>, <<7, 24, 25>>, <<-7, -24, 25>> >>
AXS == << <<1, 0, 0, 1>>, <<0, 1, 0, 1>>, <<0, 0, 1, 1>>, <<1, 2, 2, 3>>, <<2, -3, 6, 7>>, <<-4, 4, 7, 9>>, <<2, 4, 4, 6>> >>
IM(e) == Mat(4, 4, [i \in 1..16 |-> QI(e[i])])
BMS == << IM(<<1, 0, 0, 0, 0, 1, 0, 0, 0, 0, 1, 0, 0, 0, 0, 1>>),
          IM(<<2, 1, 0, 0, -1, 3, 1, 0, 0, 2, -2, 0, 5, -3, 4, 1>>),
          IM(<<1, 0, 2, 1, 0, 1, -1, 2, 3, 0, 1, 3, -2, 1, 0, 4>>),
          IM(<<3, -1, 2, 5, 1, 4, -2, -3, 2, 2, 1, 7, -6, 1, 3, 2>>) >>
BOX == << -1, 0, 2 >>
V3(i) == << QI(BOX[(i % 3) + 1]), QI(BOX[((i \div 3) % 3) + 1]), QI(BOX[((i \div 9) % 3) + 1]) >>       \* i in 0..26
UPS == << <<0, 1, 0>>, <<0, 0, 1>>, <<1, 0, 0>>, <<1, 1, 0>>, <<0, -1, 2>>, <<-1, 2, 3>> >>
QTS == << <<1, 0, 0, 0, 1>>, <<1, 1, 1, 1, 2>>, <<1, 2, 2, 4, 5>>, <<2, -4, 5, 6, 9>>, <<0, 3, 0, 4, 5>> >>    \* w x y z / d
SCS == << <<2, 3, 4>>, <<1, 1, 1>>, <<1, 2, 5>> >>
SKS == << <<0, 0, 0>>, <<1, 0, 0>>, <<1, -2, 3>> >>

NTrans == 729
NRot == 8 * 8 * 7
NShearN == 81
NLook == 27 * 27 * 6
NDec == 8 * 5 * 3 * 3
NMax == NLook

Init == k = 1
Next == \E j \in {2 * k, 2 * k + 1} : j <= NMax /\ k' = j
Spec == Init /\ [][Next]_vars

ix == k - 1
BM == BMS[(ix % 4) + 1]
Id4 == MIdentity(4)
Id3 == MIdentity(3)
Hom(v) == << v[1], v[2], v[3], QOne >>
VEq(a, b) == Len(a) = Len(b) /\ \A i \in 1..Len(a) : QEq(a[i], b[i])
VMulC(a, b) == [i \in 1..Len(a) |-> QMul(a[i], b[i])]

\* ---------------------------------------------------------------- translate / scale
va == V3(ix % 27)
vb == V3((ix \div 27) % 27)
InvTranslate ==
    k <= NTrans =>
    /\ MEq(MMul(Translate4(va), Translate4(vb)), Translate4(VAdd(va, vb)))
    /\ VEq(MVec(Translate4(va), Hom(vb)), Hom(VAdd(va, vb)))
    /\ MEq(TranslateFast(BM, va), MMul(BM, Translate4(va)))
    /\ MEq(TranslateFast(Id4, va), Translate4(va))
    /\ (~VIsZero(va) /\ ~VIsZero(vb)) => ~MEq(Translate4(va), Scale4(va))
InvScale ==
    k <= NTrans =>
    /\ MEq(MMul(Scale4(va), Scale4(vb)), Scale4(VMulC(va, vb)))
    /\ VEq(MVec(Scale4(va), Hom(vb)), Hom(VMulC(va, vb)))
    /\ MEq(ScaleFast(BM, va), MMul(BM, Scale4(va)))
    /\ MEq(ScaleFast(Id4, va), Scale4(va))
    \* 2D forms
    /\ MEq(MMul(Translate3(va), Translate3(vb)), Translate3(VAdd(va, vb)))
    /\ MEq(MMul(Scale3(va), Scale3(vb)), Scale3(VMulC(va, vb)))
    /\ MEq(ScaleBias(va[1], vb[1]), MMul(Translate4(<<vb[1], vb[1], vb[1]>>), Scale4(<<va[1], va[1], va[1]>>)))

\* ---------------------------------------------------------------- rotate
cs1 == CS[(ix % 8) + 1]
cs2 == CS[((ix \div 8) % 8) + 1]
axr == AXS[((ix \div 64) % 7) + 1]
co1 == QF(cs1[1], cs1[3])
si1 == QF(cs1[2], cs1[3])
co2 == QF(cs2[1], cs2[3])
si2 == QF(cs2[2], cs2[3])
axv == << QI(axr[1]), QI(axr[2]), QI(axr[3]) >>
axu == UnitAxis(axv, axr[4], 1)
InvRotate ==
    k <= NRot =>
    LET R1 == RotAxis3(co1, si1, axu) R2 == RotAxis3(co2, si2, axu) IN
    /\ IsCosSin(cs1[1], cs1[2], cs1[3]) /\ IsNormOf(axv, axr[4], 1) /\ QEq(VNorm2(axu), QOne)
    /\ MEq(MMul(MTranspose(R1), R1), Id3)
    /\ QEq(MDet(R1), QOne)
    /\ VEq(MVec(R1, axu), axu)
    /\ MEq(MMul(R1, RotAxis3(co1, QNeg(si1), axu)), Id3)
    /\ MEq(RotAxis3(co1, QNeg(si1), axu), RotAxis3(co1, si1, VNeg(axu)))
    /\ MEq(MMul(R1, R2), RotAxis3(QSub(QMul(co1, co2), QMul(si1, si2)), QAdd(QMul(si1, co2), QMul(co1, si2)), axu))
    /\ QEq(QAdd(QAdd(MAt(R1, 1, 1), MAt(R1, 2, 2)), MAt(R1, 3, 3)), QAdd(QOne, QMul(QI(2), co1)))
    /\ MEq(RotateFast(BM, R1), MMul(BM, Rot4(co1, si1, axu)))
    /\ MEq(RotateFast(Id4, R1), Rot4(co1, si1, axu))
    \* (co1, si1) read as the HALF angle: the quaternion (ch, sh * axis) is the rotation by the full angle
    /\ MEq(QuatToMat3(AxisQuat(co1, si1, axu)), RotAxis3(QSub(QSq(co1), QSq(si1)), QMul(QI(2), QMul(si1, co1)), axu))
    \* rotateX / Y / Z and the 2D rotation: the planar rotation in the two other coordinates, counter-clockwise
    /\ LET v == V3(ix % 27) r2 == Rotate2(<<v[1], v[2]>>, co1, si1) IN
         /\ VEq(RotateAxisK(v, co1, si1, 3), << r2[1], r2[2], v[3] >>)
         /\ VEq(RotateAxisK(v, co1, si1, 1), LET q2 == Rotate2(<<v[2], v[3]>>, co1, si1) IN << v[1], q2[1], q2[2] >>)
         /\ VEq(RotateAxisK(v, co1, si1, 2), LET q2 == Rotate2(<<v[3], v[1]>>, co1, si1) IN << q2[2], v[2], q2[1] >>)
         /\ VEq(MVec(Rot3(co1, si1), << v[1], v[2], QOne >>), << r2[1], r2[2], QOne >>)
         /\ VEq(RotateAxisK(Hom(v), co1, si1, 3), << r2[1], r2[2], v[3], QOne >>)
    \* a rotation with one wrong sign is not a rotation about the axis any more (non-vacuity) unless the entry vanishes
    /\ LET Bad == Mat(3, 3, [i \in 1..9 |-> IF i = 2 THEN QNeg(R1.e[i]) ELSE R1.e[i]])
       IN ~QIsZero(R1.e[2]) => ~(MEq(MMul(MTranspose(Bad), Bad), Id3) /\ QEq(MDet(Bad), QOne) /\ VEq(MVec(Bad, axu), axu))

\* ---------------------------------------------------------------- shear, reflect, proj
sp == V3(ix % 27)
sl == V3((ix \div 3) % 27)
sm == V3((ix \div 9) % 27)
slx == << sl[1], sl[2] >>
sly == << sl[3], sm[1] >>
slz == << sm[2], sm[3] >>
Z2 == << QZero, QZero >>
Z3 == << QZero, QZero, QZero >>
InvShear ==
    k <= NShearN =>
    LET H == Shear4(sp, slx, sly, slz) IN
    /\ MEq(ShearFast(BM, H), MMul(BM, H))
    /\ MEq(Shear4(sp, Z2, Z2, Z2), Id4)
    /\ QEq(MDet(H), MDet(Upper3(H)))
    \* the origin as reference point: a linear map
    /\ VEq(MVec(Shear4(<<QZero, QZero, QZero>>, slx, sly, slz), Hom(sp)),
           << QAdd(sp[1], QAdd(QMul(slx[1], sp[2]), QMul(slx[2], sp[3]))), QAdd(sp[2], QAdd(QMul(sly[1], sp[1]), QMul(sly[2], sp[3]))),
              QAdd(sp[3], QAdd(QMul(slz[1], sp[1]), QMul(slz[2], sp[2]))), QOne >>)
    /\ MEq(ShearX3D(sl[1], sl[2]), Shear4(Z3, Z2, << sl[1], QZero >>, << sl[2], QZero >>))
    /\ MEq(ShearY3D(sl[1], sl[2]), Shear4(Z3, << sl[1], QZero >>, Z2, << QZero, sl[2] >>))
    /\ MEq(ShearZ3D(sl[1], sl[2]), Shear4(Z3, << QZero, sl[1] >>, << QZero, sl[2] >>, Z2))
    /\ MEq(MMul(HShear3(sl[1]), HShear3(sl[2])), HShear3(QAdd(sl[1], sl[2])))
    /\ MEq(MTranspose(HShear3(sl[1])), VShear3(sl[1]))
    /\ VEq(MVec(HShear3(sl[1]), << sp[1], sp[2], QOne >>), << QAdd(sp[1], QMul(sl[1], sp[2])), sp[2], QOne >>)      \* horizontal
    /\ VEq(MVec(VShear3(sl[1]), << sp[1], sp[2], QOne >>), << sp[1], QAdd(sp[2], QMul(sl[1], sp[1])), QOne >>)      \* vertical
    /\ MEq(ShearX2D(sl[1]), ShearX2d(sl[1])) /\ MEq(ShearY2D(sl[1]), ShearY2d(sl[1]))
    /\ (~QIsZero(sl[1])) => ~MEq(HShear3(sl[1]), VShear3(sl[1]))
    \* reflection / projection with a rational unit normal
    /\ LET n == UnitAxis(<<QI(AXS[(ix % 7) + 1][1]), QI(AXS[(ix % 7) + 1][2]), QI(AXS[(ix % 7) + 1][3])>>, AXS[(ix % 7) + 1][4], 1) IN
         /\ MEq(MMul(Reflect3D(n), Reflect3D(n)), Id4)
         /\ VEq(MVec(Reflect3D(n), Hom(n)), Hom(VNeg(n)))
         /\ MEq(MMul(Proj3D(n), Proj3D(n)), Proj3D(n))
         /\ VEq(MVec(Proj3D(n), Hom(n)), Hom(<<QZero, QZero, QZero>>))
         /\ MEq(MAdd(Reflect3D(n), Id4), MScale(Proj3D(n), QI(2)))
         /\ MEq(MAdd(Reflect2D(n), Id3), MScale(Proj2D(n), QI(2)))

\* ---------------------------------------------------------------- lookAt
eyeI == V3(ix % 27)
cenI == V3((ix \div 27) % 27)
upR == UPS[((ix \div 729) % 6) + 1]
upI == << QI(upR[1]), QI(upR[2]), QI(upR[3]) >>
FlipRow(M, row) == IF M.c = 4 THEN MFromFn(4, 4, LAMBDA c, r : IF r = row /\ c <= 3 THEN QNeg(MAt(M, c, r)) ELSE MAt(M, c, r)) ELSE M
InvLookAt ==
    (k <= NLook /\ LookAtDomain(eyeI, cenI, upI)) =>
    \A lh \in BOOLEAN :
        LET M == LookAtUn(eyeI, cenI, upI, lh) IN
        /\ LookAtLawUn(M, eyeI, cenI, upI, lh)
        /\ ~LookAtLawUn(LookAtUn(eyeI, cenI, upI, ~lh), eyeI, cenI, upI, lh)
        /\ \A row \in 1..3 : ~LookAtLawUn(FlipRow(M, row), eyeI, cenI, upI, lh)
        \* the two handednesses differ by mirroring x and z
        /\ MEq(LookAtUn(eyeI, cenI, upI, ~lh), MMul(Scale4(<<QNeg(QOne), QOne, QNeg(QOne)>>), M))
\* how many grid points are in the domain (non-vacuity; evaluated once)
InvLookAtCount ==
    k = 1 => Cardinality({ j \in 0..(NLook - 1) :
                 LookAtDomain(V3(j % 27), V3((j \div 27) % 27),
                              LET u == UPS[((j \div 729) % 6) + 1] IN << QI(u[1]), QI(u[2]), QI(u[3]) >>) }) >= 2000

\* ---------------------------------------------------------------- decompose / recompose
sgn(i, b) == IF (i \div b) % 2 = 0 THEN 1 ELSE -1
dq == QTS[((ix \div 8) % 5) + 1]
dsc == SCS[((ix \div 40) % 3) + 1]
dsk == SKS[((ix \div 120) % 3) + 1]
dS == << QF(sgn(ix, 1) * dsc[1], 2), QI(sgn(ix, 2) * dsc[2]), QF(sgn(ix, 4) * dsc[3], 3) >>
dQ == << QF(dq[1], dq[5]), QF(dq[2], dq[5]), QF(dq[3], dq[5]), QF(dq[4], dq[5]) >>
dK == << QF(dsk[1], 2), QF(dsk[2], 4), QF(dsk[3], 8) >>
dT == V3((ix * 7) % 27)
dP == << QF(1, 8), QF(-1, 4), QF(1, 16), QOne >>
LastRow(M) == << MAt(M, 1, 4), MAt(M, 2, 4), MAt(M, 3, 4), MAt(M, 4, 4) >>
InvDecompose ==
    k <= NDec =>
    LET Af == AffineTRKS(dS, dQ, dT, dK)
        M == RecomposeQ(dS, dQ, dT, dK, dP)
    IN /\ QEq(QuatNorm2(dQ), QOne)
       \* the affine part is what recompose multiplies, the perspective factor only rewrites the last row
       /\ MEq(WithLastRow(M, <<QZero, QZero, QZero, QOne>>), Af)
       /\ VEq(LastRow(M), VMat(dP, Af))
       /\ QEq(MAt(M, 4, 4), VDot(dP, Hom(dT)))
       \* the perspective solve of decompose (p = (A^-1)^T * last row) has exactly this solution: A is invertible (determinant below)
       \* translation = last column of the affine part
       /\ VEq(MCol(Af, 4), Hom(dT))
       \* sign-canonical factorisation: the same matrix
       /\ MEq(Af, AffineTRKS(CanonScale(dS), QuatMul(dQ, FlipQuat(dS)), dT, CanonSkew(dS, dK)))
       /\ \A i, j \in 1..3 : QSign(CanonScale(dS)[i]) = QSign(CanonScale(dS)[j])
       /\ QSign(CanonScale(dS)[1]) = QSign(MDet(Upper3(Af)))
       /\ QEq(QuatNorm2(QuatMul(dQ, FlipQuat(dS))), QOne)
       \* without skew the column norms are the |scale| factors; with the first skew only the first two still are
       /\ VIsZero(dK) => \A i \in 1..3 : QEq(VNorm2(<<MAt(Af, i, 1), MAt(Af, i, 2), MAt(Af, i, 3)>>), QSq(dS[i]))
       /\ QEq(VNorm2(<<MAt(Af, 1, 1), MAt(Af, 1, 2), MAt(Af, 1, 3)>>), QSq(dS[1]))
       \* swapping two scale components gives another matrix (non-vacuity)
       /\ ~QEq(QAbs(dS[1]), QAbs(dS[2])) => ~MEq(Af, AffineTRKS(<<dS[2], dS[1], dS[3]>>, dQ, dT, dK))
       /\ QEq(MDet(Upper3(Af)), QMul(dS[1], QMul(dS[2], dS[3])))
=============================================================================
