------------------------------ MODULE MC_X10 ------------------------------
(***************************************************************************)
(* Bounded model of stage X10 (gtx/pca.hpp).  A state machine over four    *)
(* families (root -> seed -> configuration), whose actions are the         *)
(* symmetries of the area:                                                 *)
(*   eig   (n, Q, d)  the symmetric integer matrix A = Q^T diag(d) Q with  *)
(*         Q = signed permutation * Q0, Q0 from GlmX10!XQ0 (Q Q^T = den^2  *)
(*         I): spectrum den^2 d, unit eigenvectors rows(Q) / den.          *)
(*         actions: rotate d cyclically (another matrix, same spectrum),   *)
(*         negate d (A -> -A)                                              *)
(*   cov   (D, pts, c, S)  integer points, a centre and the sum matrix     *)
(*         predicted by the walk.  actions: translate points and centre    *)
(*         (S unchanged), scale by k (S -> k^2 S), append a point          *)
(*         (S -> S + (p - c)(p - c)^T)                                     *)
(*   line  (D, b, dir, ts, t0)  points b + t dir on a line, centre on the  *)
(*         line.  actions: another point, another centre                   *)
(*   sort  (n, in, cur, step)  (value, tag) pairs run through the compare- *)
(*         exchange network, one comparator per step                       *)
(* Invariants: the laws of the area on the definitions of GlmX10 part 1    *)
(* and the agreement of the dyadic acceptance predicates of part 2 (used   *)
(* by Trace_X10) with them: the correctly rounded exact answer is accepted *)
(* ("satisfiable"), a wrong one is rejected ("tight").                     *)
(* With OUT set every configuration is written as a case for the harness.  *)
(***************************************************************************)
EXTENDS GlmX10, TLC, Json, IOUtils
CONSTANTS CovDepth, MaxCoord, Rich
VARIABLE st
vars == <<st>>

Law(name, cond) == cond \/ (PrintT(<<"LAW VIOLATED", name, st>>) /\ FALSE)

\* ---------------------------------------------------------------- eig family
\* Rich = FALSE (quick): two row permutations and two sign patterns per size; Rich = TRUE (thorough): three and three
EigPermIdx(n) == IF n = 2 THEN {1, 2} ELSE IF n = 3 THEN (IF Rich THEN {1, 4, 6} ELSE {1, 4}) ELSE (IF Rich THEN {1, 10, 24} ELSE {1, 10})      \* indices into LAPermTable[n]
EigSigns(n) == IF n = 2 THEN (IF Rich THEN {<<1, 1>>, <<-1, 1>>, <<1, -1>>} ELSE {<<1, 1>>, <<-1, 1>>})
               ELSE IF n = 3 THEN (IF Rich THEN {<<1, 1, 1>>, <<-1, 1, 1>>, <<1, -1, -1>>} ELSE {<<1, 1, 1>>, <<1, -1, -1>>})
               ELSE (IF Rich THEN {<<1, 1, 1, 1>>, <<1, -1, 1, -1>>, <<-1, -1, -1, 1>>} ELSE {<<1, 1, 1, 1>>, <<1, -1, 1, -1>>})
\* diagonals: distinct, repeated, all equal, zero eigenvalues, negative, zero matrix, nearly degenerate (relative gaps 1e-3, 1.5e-5), graded
DTab == << << >>,
   << <<1, 2>>, <<2, 2>>, <<0, 1>>, <<-1, 1>>, <<0, 0>>, <<-2, -1>>, <<3, -3>>, <<1000, 1001>>, <<65536, 65537>>, <<1, 1000>>, <<-1, 65537>> >>,
   << <<1, 2, 3>>, <<1, 1, 2>>, <<2, 2, 2>>, <<0, 0, 1>>, <<0, 1, 2>>, <<-1, 0, 1>>, <<-2, -2, 1>>, <<0, 0, 0>>, <<1000, 1001, 1002>>, <<1000, 1001, 1>>,
      <<65536, 65537, 65535>>, <<1, 100, 10000>>, <<5, 5, -5>> >>,
   << <<1, 2, 3, 4>>, <<1, 1, 2, 2>>, <<3, 3, 3, 1>>, <<2, 2, 2, 2>>, <<0, 0, 0, 1>>, <<0, 1, 2, 3>>, <<-2, -1, 1, 2>>, <<0, 0, 0, 0>>, <<1000, 1001, 1002, 1003>>,
      <<1000, 1000, 1001, 1>>, <<65536, 65537, 65535, 65536>>, <<1, 10, 100, 1000>>, <<-3, -3, 4, 4>> >> >>
EigQ(s) == XISignPerm(XQ0[s.n][s.qi].q, s.n, LAPermTable[s.n][s.pk], s.sg)
EigDen(s) == XQ0[s.n][s.qi].den
EigD(s) == LET d0 == DTab[s.n][s.di] IN LAForceSeq([i \in 1..s.n |-> (IF s.neg = 1 THEN -1 ELSE 1) * d0[((i - 1 + s.rot) % s.n) + 1]])
EigA(s) == XIQtDQ(EigQ(s), EigD(s), s.n)
EigSp(s) == LET den == EigDen(s) IN LALet1(EigD(s), LAMBDA d : LAForceSeq([i \in 1..s.n |-> den * den * d[i]]))

\* ---------------------------------------------------------------- cov / line families
CovBase == << << >>,
   << <<<<0, 0>>, <<2, 0>>, <<0, 2>>, <<2, 2>>>>, <<<<1, 2>>, <<3, -1>>, <<-2, 0>>>>, <<<<5, 5>>>>, <<<<1, 1>>, <<1, 1>>, <<4, -2>>>> >>,
   << <<<<0, 0, 0>>, <<1, 2, 3>>, <<-1, 0, 2>>, <<3, 3, -3>>>>, <<<<2, 0, 0>>, <<0, 2, 0>>, <<0, 0, 2>>>>, <<<<1, -1, 4>>, <<1, -1, 4>>>> >>,
   << <<<<0, 0, 0, 0>>, <<1, 2, 3, 4>>, <<-1, 0, 2, -2>>, <<3, 3, -3, 0>>, <<2, -2, 1, 1>>>>, <<<<1, 0, 0, 0>>, <<0, 1, 0, 0>>, <<0, 0, 1, 0>>, <<0, 0, 0, 1>>>> >> >>
CovCentres(D) == IF D = 2 THEN {<<0, 0>>, <<1, 1>>, <<-2, 3>>} ELSE IF D = 3 THEN {<<0, 0, 0>>, <<1, 1, 1>>} ELSE {<<0, 0, 0, 0>>, <<1, -1, 2, 0>>}
CovShifts(D) == IF D = 2 THEN {<<1, 0>>, <<-3, 2>>} ELSE IF D = 3 THEN {<<0, 1, -1>>, <<5, 0, 2>>} ELSE {<<1, 1, 1, 1>>, <<0, -4, 0, 3>>}
CovNew(D) == IF D = 2 THEN {<<0, 0>>, <<7, -3>>} ELSE IF D = 3 THEN {<<1, 1, 1>>, <<-6, 2, 0>>} ELSE {<<0, 0, 0, 0>>, <<2, -5, 1, 3>>}
VAddI(a, b) == [i \in 1..Len(a) |-> a[i] + b[i]]
VScaleI(a, k) == [i \in 1..Len(a) |-> k * a[i]]
Within(pts, c) == \A i \in 1..Len(c) : (c[i] <= MaxCoord /\ -c[i] <= MaxCoord) /\ \A j \in 1..Len(pts) : pts[j][i] <= MaxCoord /\ -pts[j][i] <= MaxCoord
LineDirs(D) == IF D = 2 THEN {<<1, 2>>, <<0, -3>>} ELSE IF D = 3 THEN {<<1, -1, 2>>, <<2, 0, 0>>} ELSE {<<1, 2, -2, 1>>, <<0, 0, 1, -1>>}
LineBase(D) == IF D = 2 THEN <<3, -1>> ELSE IF D = 3 THEN <<0, 2, 1>> ELSE <<1, 0, -1, 2>>
LinePts(s) == LAForceSeq([j \in 1..Len(s.ts) |-> VAddI(s.b, VScaleI(s.dir, s.ts[j]))])
LineC(s) == VAddI(s.b, VScaleI(s.dir, s.t0))

\* ---------------------------------------------------------------- sort family
SortKeys(n) == IF n = 4 THEN 1..4 ELSE 1..3
SortGeI(a, b) == a >= b
SortIn(ks) == LAForceSeq([i \in 1..Len(ks) |-> <<ks[i], i>>])

\* ---------------------------------------------------------------- the machine
Init == st = [k |-> "root"]
Next ==
    \/ st.k = "root" /\ \/ \E n \in 2..4 : \E qi \in 1..Len(XQ0[n]) : st' = [k |-> "eigSeed", n |-> n, qi |-> qi]
                        \/ \E D \in 2..4 : \E bi \in 1..Len(CovBase[D]) : st' = [k |-> "covSeed", D |-> D, bi |-> bi]
                        \/ \E D \in 2..4 : \E dir \in LineDirs(D) : st' = [k |-> "lineSeed", D |-> D, dir |-> dir]
                        \/ \E n \in 2..4 : st' = [k |-> "sortSeed", n |-> n]
    \/ st.k = "eigSeed" /\ \E pk \in EigPermIdx(st.n) : \E sg \in EigSigns(st.n) : \E di \in 1..Len(DTab[st.n]) :
                             st' = [k |-> "eig", n |-> st.n, qi |-> st.qi, pk |-> pk, sg |-> sg, di |-> di, rot |-> 0, neg |-> 0]
    \/ st.k = "eig" /\ \/ st' = [st EXCEPT !.rot = (st.rot + 1) % st.n]                      \* rotate the diagonal
                       \/ st' = [st EXCEPT !.neg = 1 - st.neg]                               \* A -> -A
    \/ st.k = "covSeed" /\ \E c \in CovCentres(st.D) :
                             st' = [k |-> "cov", D |-> st.D, pts |-> CovBase[st.D][st.bi], c |-> c, S |-> XICovSum(CovBase[st.D][st.bi], c, st.D), dep |-> 0]
    \/ st.k = "cov" /\ st.dep < CovDepth /\
         \/ \E t \in CovShifts(st.D) : LET p2 == [j \in 1..Len(st.pts) |-> VAddI(st.pts[j], t)] c2 == VAddI(st.c, t)
                                       IN Within(p2, c2) /\ st' = [st EXCEPT !.pts = p2, !.c = c2, !.dep = st.dep + 1]                       \* translation: S unchanged
         \/ \E kk \in {-1, 2} : LET p2 == [j \in 1..Len(st.pts) |-> VScaleI(st.pts[j], kk)] c2 == VScaleI(st.c, kk)
                                IN Within(p2, c2) /\ st' = [st EXCEPT !.pts = p2, !.c = c2, !.S = LIScale(st.S, kk * kk), !.dep = st.dep + 1]  \* scaling: k^2
         \/ \E p \in CovNew(st.D) : Len(st.pts) < 6 /\
                                    st' = [st EXCEPT !.pts = Append(st.pts, p), !.S = XIAddM(st.S, XIOuter([i \in 1..st.D |-> p[i] - st.c[i]], st.D)), !.dep = st.dep + 1]
    \/ st.k = "lineSeed" /\ st' = [k |-> "line", D |-> st.D, b |-> LineBase(st.D), dir |-> st.dir, ts |-> <<0, 1>>, t0 |-> 0]
    \/ st.k = "line" /\ \/ Len(st.ts) < 5 /\ \E t \in {-2, 3, 1} : st' = [st EXCEPT !.ts = Append(st.ts, t)]
                        \/ \E t0 \in {-1, 0, 2} : t0 # st.t0 /\ st' = [st EXCEPT !.t0 = t0]
    \/ st.k = "sortSeed" /\ \E ks \in [1..st.n -> SortKeys(st.n)] : st' = [k |-> "sort", n |-> st.n, in |-> SortIn(ks), cur |-> SortIn(ks), step |-> 0]
    \/ st.k = "sort" /\ st.step < Len(XNet[st.n]) /\ st' = [st EXCEPT !.cur = XCmpSwap(st.cur, XNet[st.n][st.step + 1], SortGeI), !.step = st.step + 1]
Spec == Init /\ [][Next]_vars

----------------------------------------------------------------------------
\* ---- eig
RoundedD(f, num, den) == Val(f, RoundQ(f, QF(num, den), 0))                       \* the float / double nearest to num / den, as a dyadic
DI(t) == LAForceSeq([i \in 1..Len(t) |-> DFromInt(t[i])])
\* V (column-major, column i = eigenvector i) from the rows of Q, rounded to format f
RoundedV(f, Q, n, den) == LAForceSeq([k \in 1..(n * n) |-> LET i == ((k - 1) \div n) + 1 r == ((k - 1) % n) + 1 IN RoundedD(f, LIAt(Q, n, r, i), den)])
SwapFirstDistinct(t) == LET S == {ij \in (1..Len(t)) \X (1..Len(t)) : ij[1] < ij[2] /\ t[ij[1]] # t[ij[2]]}
                        IN IF S = {} THEN t ELSE LET ij == CHOOSE x \in S : TRUE IN [t EXCEPT ![ij[1]] = t[ij[2]], ![ij[2]] = t[ij[1]]]
InvEig ==
    st.k = "eig" =>
    \A n \in {st.n} : \A Q \in {EigQ(st)} : \A den \in {EigDen(st)} : \A d \in {EigD(st)} : \A A \in {EigA(st)} : \A sp \in {EigSp(st)} :
    /\ Law("Q Q^T = den^2 I", XIScaledOrtho(Q, n, den * den))
    /\ Law("A symmetric, exact in float", XIIsSym(A, n) /\ LIAllSmall(A, 16777215))
    /\ Law("rows of Q are eigenvectors of den^2 d_i", \A i \in 1..n : XIIsEigenpair(A, n, sp[i], XIRowOf(Q, n, i)))
    /\ Law("eigenvectors of different eigenvalues are orthogonal, all have length den",
           \A i, j \in 1..n : LISum([r \in 1..n |-> XIRowOf(Q, n, i)[r] * XIRowOf(Q, n, j)[r]]) = (IF i = j THEN den * den ELSE 0))
    /\ Law("sum of the eigenvalues = trace", LISum(sp) = LISum([i \in 1..n |-> LIAt(A, n, i, i)]))
    /\ Law("spectrum = roots of the characteristic polynomial (product = determinant at x = 0)",
           \A Aq \in {LIToQ(A, n)} : \A mus \in {LIVToQ(sp)} :
             /\ XIsSpectrum(Aq, mus)
             /\ ~XIsSpectrum(Aq, [mus EXCEPT ![1] = QAdd(mus[1], QOne)])
             /\ QEq(MDet(Aq), LAProd(mus)))
    /\ Law("the dyadic verifier of a spectrum claim agrees", \A Ad \in {DI(A)} : \A md \in {DI(sp)} :
             XdIsSpectrum(Ad, n, md, XDOne) /\ ~XdIsSpectrum(Ad, n, [md EXCEPT ![n] = DAdd(md[n], XDOne)], XDOne))
    \* the acceptance predicate of the trace specification on the correctly rounded exact answer, and on wrong answers
    /\ (st.rot = 0 /\ st.neg = 0 =>
          \A f \in (IF st.qi = Len(XQ0[n]) /\ st.pk = 1 THEN {F32, F64} ELSE {F32}) :
          \A Ad \in {DI(A)} : \A lam \in {DI(sp)} : \A V \in {RoundedV(f, Q, n, den)} :
            /\ Law("rounded exact eigenpairs are accepted", XEigJudge(f, n, Ad, lam, V, lam) = "ok" /\ XEigJudge(f, n, Ad, lam, V, << >>) = "ok")
            \* (values closer than the tolerance 3 * 16 n eps |A| cannot be told apart: the nearly degenerate diagonals are exempt)
            /\ Law("exchanged eigenvalues are rejected",
                   \A l2 \in {SwapFirstDistinct(lam)} : (l2 # lam /\ LIAllSmall(d, 10000)) => XEigJudge(f, n, Ad, l2, V, lam) \notin {"ok", "kd-threshold"})
            /\ Law("a shortened eigenvector is rejected", XEigJudge(f, n, Ad, lam, LAForceSeq([k \in 1..(n * n) |-> IF k <= n THEN DMul2k(DMulInt(V[k], 63), -6) ELSE V[k]]), lam) \notin {"ok", "kd-threshold", "kd-underflow"})
            /\ Law("a repeated eigenpair is rejected", ((\E i \in 2..n : sp[i] # sp[1]) /\ LIAllSmall(d, 10000)) =>
                   XEigJudge(f, n, Ad, [i \in 1..n |-> lam[1]], LAForceSeq([k \in 1..(n * n) |-> V[((k - 1) % n) + 1]]), lam) # "ok")
            /\ Law("a value off by 2^-8 |A| is rejected", \A N \in {XdNormInf(Ad, n)} : ~DIsZero(N) =>
                   XEigJudge(f, n, Ad, [lam EXCEPT ![n] = DAdd(lam[n], DMul2k(N, -8))], V, << >>) \notin {"ok", "kd-threshold"}))
\* the action laws: rotation keeps the spectrum, negation negates it
EigOrbit == [][(st.k = "eig" /\ st'.k = "eig") =>
                 LET a == EigSp(st) b == EigSp(st') IN
                 IF st'.neg = st.neg THEN \E r \in 0..(st.n - 1) : \A i \in 1..st.n : b[i] = a[((i - 1 + r) % st.n) + 1]
                 ELSE \A i \in 1..st.n : b[i] = -a[i] /\ EigA(st') = LIScale(EigA(st), -1)]_vars

\* ---- cov
CovLaws(D, pts, c, S) ==
    \A n \in {Len(pts)} : \A Z \in {XIZeroV(D)} :
    /\ Law("covariance sum = the matrix predicted by the walk (translation invariant, k^2 under scaling, additive)", XICovSum(pts, c, D) = S)
    /\ Law("symmetric", XIIsSym(S, D))
    /\ Law("w^T S w = sum (w . (p - c))^2 >= 0", \A w \in {[i \in 1..D |-> IF i = 1 THEN 1 ELSE 0], [i \in 1..D |-> 2 * i - 3], [i \in 1..D |-> 1]} :
             XIQuad(S, w, D) = XISumSq(pts, c, w, D) /\ XIQuad(S, w, D) >= 0)
    /\ Law("relative coordinates = absolute coordinates minus the centre", XICovSum([j \in 1..n |-> [i \in 1..D |-> pts[j][i] - c[i]]], Z, D) = S)
    /\ Law("about the centre of gravity: sum p p^T - n c c^T", XISumPts(pts, D) = VScaleI(c, n) => XIAddM(S, LIScale(XIOuter(c, D), n)) = XICovSum(pts, Z, D))
    /\ Law("n * covariance = sum", n > 0 => MEq(MScale(XICov(pts, c, D), QI(n)), LIToQ(S, D)))
CovAccept(D, pts, c, S) ==
    \A n \in {Len(pts)} : n > 0 =>
    \A f \in {F32} : \A pd \in {LAForceSeq([j \in 1..n |-> DI(pts[j])])} : \A cd \in {DI(c)} :
    \A r \in {LAForceSeq([k \in 1..(D * D) |-> RoundedD(f, S[k], n)])} :
      /\ Law("the rounded exact covariance is accepted", XCovOk(f, D, pd, cd, r))
      /\ Law("division by n - 1 is rejected", (n > 1 /\ ~XIIsZeroM(S)) => ~XCovOk(f, D, pd, cd, LAForceSeq([k \in 1..(D * D) |-> RoundedD(f, S[k], n - 1)])))
      /\ Law("the undivided sum is rejected", (n > 1 /\ ~XIIsZeroM(S)) => ~XCovOk(f, D, pd, cd, DI(S)))
      /\ Law("one ulp-level error in an exact entry is rejected", (\E k \in 1..(D * D) : S[k] # 0 /\ S[k] % n = 0) =>
               LET k == CHOOSE k \in 1..(D * D) : S[k] # 0 /\ S[k] % n = 0 IN ~XCovOk(f, D, pd, cd, [r EXCEPT ![k] = DAdd(r[k], DMul2k(DAbs(r[k]), -20))]))
InvCov == st.k = "cov" => CovLaws(st.D, st.pts, st.c, st.S) /\ (st.dep <= 1 => CovAccept(st.D, st.pts, st.c, st.S))
InvLine ==
    st.k = "line" =>
    \A D \in {st.D} : \A pts \in {LinePts(st)} : \A c \in {LineC(st)} : \A S \in {XICovSum(LinePts(st), LineC(st), st.D)} :
    /\ CovLaws(D, pts, c, S)
    /\ Law("points on a line through the centre: rank 1", XIMinorsZero(S, D) /\ ~XIIsZeroM(S))
    /\ Law("S = sum (t - t0)^2 dir dir^T", S = LIScale(XIOuter(st.dir, D), LISum([j \in 1..Len(st.ts) |-> (st.ts[j] - st.t0) * (st.ts[j] - st.t0)])))
    /\ Law("dir is the only eigenvector with a non-zero eigenvalue", XIIsEigenpair(S, D, LISum([j \in 1..Len(st.ts) |-> (st.ts[j] - st.t0) * (st.ts[j] - st.t0)]) * LISum([i \in 1..D |-> st.dir[i] * st.dir[i]]), st.dir))

\* ---- sort
Keys(s) == [i \in 1..Len(s) |-> s[i][1]]
InvSort ==
    st.k = "sort" =>
    \A n \in {st.n} : \A net \in {XNet[st.n]} :
    /\ Law("every step keeps a permutation of the input pairs", XIsPermOf(st.cur, st.in))
    /\ Law("the action agrees with the functional form", XRunNetTo(st.in, net, st.step, SortGeI) = st.cur)
    /\ (st.step = Len(net) =>
          /\ Law("sorted from the largest to the smallest", XIsSortOf(st.cur, st.in, SortGeI))
          /\ Law("idempotent", XRunNet(st.cur, net, SortGeI) = st.cur)
          /\ Law("every accepted output has the same values", \A k \in 1..Len(LAPermTable[n]) :
                   LET o == [i \in 1..n |-> st.in[LAPermTable[n][k][i]]] IN XIsDesc(o, SortGeI) => Keys(o) = Keys(st.cur))
          /\ Law("an output with two different neighbours exchanged is rejected", \A i \in 1..(n - 1) : st.cur[i][1] # st.cur[i + 1][1] =>
                   ~XIsSortOf([st.cur EXCEPT ![i] = st.cur[i + 1], ![i + 1] = st.cur[i]], st.in, SortGeI))
          /\ Law("exchanged tags are rejected", st.cur[1][1] # st.cur[2][1] => ~XIsSortOf([st.cur EXCEPT ![1] = <<st.cur[1][1], st.cur[2][2]>>, ![2] = <<st.cur[2][1], st.cur[1][2]>>], st.in, SortGeI)))

\* ---- E2: the cases for the harness
Flat(pts) == IF Len(pts) = 0 THEN << >> ELSE LAForceSeq([k \in 1..(Len(pts) * Len(pts[1])) |-> pts[((k - 1) \div Len(pts[1])) + 1][((k - 1) % Len(pts[1])) + 1]])
Out(rec) == Serialize(ToJson(rec) \o "\n", IOEnv.OUT, [format |-> "TXT", charset |-> "UTF-8", openOptions |-> <<"WRITE", "CREATE", "APPEND">>]).exitValue = 0
\* eig and sort configurations are written once per seed (one file per seed: IOEnv.OUT.<seed>), cov / line configurations once per state
EigConfigs(n, qi) == {[k |-> "eig", n |-> n, qi |-> qi, pk |-> pk, sg |-> sg, di |-> di, rot |-> rot, neg |-> neg] :
                         pk \in EigPermIdx(n), sg \in EigSigns(n), di \in 1..Len(DTab[n]), rot \in 0..(n - 1), neg \in {0, 1}}
EigCases(n, qi) == LALet1(SetToSeq(EigConfigs(n, qi)), LAMBDA cs : LAForceSeq([i \in 1..Len(cs) |-> [k |-> "E", n |-> n, e |-> EigA(cs[i]), sp |-> EigSp(cs[i])]]))
SortCases(n) == LALet1(SetToSeq([1..n -> SortKeys(n)]), LAMBDA ks : LAForceSeq([i \in 1..Len(ks) |-> [k |-> "S", n |-> n, v |-> ks[i]]]))
Emit == IF "OUT" \notin DOMAIN IOEnv THEN TRUE
        ELSE CASE st.k = "eigSeed" -> ndJsonSerialize(IOEnv.OUT \o ".E" \o ToString(st.n) \o "_" \o ToString(st.qi), EigCases(st.n, st.qi))
               [] st.k = "sortSeed" -> ndJsonSerialize(IOEnv.OUT \o ".S" \o ToString(st.n), SortCases(st.n))
               [] st.k = "cov" -> Out([k |-> "C", d |-> st.D, n |-> Len(st.pts), p |-> Flat(st.pts), c |-> st.c])
               [] st.k = "line" -> Out([k |-> "C", d |-> st.D, n |-> Len(st.ts), p |-> Flat(LinePts(st)), c |-> LineC(st)])
               [] OTHER -> TRUE
\* every configuration written at a seed is a state of the machine (and vice versa)
InvSeeds == /\ (st.k = "eig" => st \in EigConfigs(st.n, st.qi))
            /\ (st.k = "sort" /\ st.step = 0 => Keys(st.in) \in [1..st.n -> SortKeys(st.n)])

\* ---- constant-level checks of the tables and helpers
ASSUME \A n \in 2..4 : \A i \in 1..Len(XQ0[n]) : XIScaledOrtho(XQ0[n][i].q, n, XQ0[n][i].den * XQ0[n][i].den)
ASSUME \A n \in 2..4 : \A k \in EigPermIdx(n) : k <= Len(LAPermTable[n])
ASSUME \A n \in 2..4 : \A s \in [1..n -> 1..3] : XIsSortOf(XRunNet(SortIn(s), XNet[n], SortGeI), SortIn(s), SortGeI)
ASSUME XIsSpectrum(Mat(2, 2, <<QI(2), QI(1), QI(1), QI(2)>>), <<QI(1), QI(3)>>) /\ ~XIsSpectrum(Mat(2, 2, <<QI(2), QI(1), QI(1), QI(2)>>), <<QI(2), QI(2)>>)
ASSUME \A f \in {F32, F64} : \A w \in {Pattern(f, RoundQ(f, QF(1, 3), 0)), Pattern(f, RoundQ(f, QF(-7, 1024), 0)), Pattern(f, RoundQ(f, QI(0), 0)), Pattern(f, RoundQ(f, QI(12345), 0))} :
          DEq(XDOfW(w), ValW(f, w))
ASSUME XdDet(DI(<<2, 0, 1, 1, 3, 0, 0, 1, 4>>), 3) = DFromInt(25) /\ XdDet(DI(<<1, 3, 2, 4>>), 2) = DFromInt(-2)
ASSUME XdNormInf(DI(<<1, -3, 2, 4>>), 2) = DFromInt(7) /\ XdTrace(DI(<<1, -3, 2, 4>>), 2) = DFromInt(5)
\* exposure: small integers are within reach of the hard-coded epsilon, their lifted images are not
ASSUME XEigExposed(F32, DI(<<2, 1, 1, 2>>)) /\ ~XEigExposed(F32, [i \in 1..4 |-> DMul2k(DFromInt(<<2, 1, 1, 2>>[i]), 40)]) /\ ~XEigExposed(F32, DI(<<0, 0, 0, 0>>))
ASSUME XEigExposed(F64, [i \in 1..4 |-> DMul2k(DFromInt(<<2, 1, 1, 2>>[i]), 40)]) /\ ~XEigExposed(F64, [i \in 1..4 |-> DMul2k(DFromInt(<<2, 1, 1, 2>>[i]), 90)])
=============================================================================
