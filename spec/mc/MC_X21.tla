------------------------------ MODULE MC_X21 ------------------------------
(***************************************************************************)
(* Bounded model of the formatting state machine of gtx/io (stage X21).    *)
(*                                                                         *)
(* State   S = the machine of GlmX21 part C (facet heap, current facet,    *)
(*         saver stack, ios state), hist = the actions taken so far,       *)
(*         h = a hash of hist (selects the probing outputs).  The VIEW is  *)
(*         S alone: breadth-first search visits every reachable machine    *)
(*         state once, hist is a shortest way to reach it.                 *)
(* Next    any action of the alphabet: GLM manipulators (formatted,        *)
(*         unformatted, precision, width, delimeter, order, the direct     *)
(*         write of space / newline), std manipulators on the part of the  *)
(*         ios state that GLM saves (showpos, floatfield, adjustfield,     *)
(*         setw, setprecision, setfill), format_saver / state_saver entry  *)
(*         (nesting <= MaxDepth), exit of the innermost saver, output of a *)
(*         value of every shape - while Len(hist) < MaxLen.                *)
(* Laws    ExitLaw (action property): a format_saver scope restores the    *)
(*         effective format and the ios state of its entry whatever        *)
(*         happened inside, nested savers included; a state_saver scope    *)
(*         restores the ios state, and the format only in so far as the    *)
(*         locale it saved had no facet yet (see the notes).               *)
(*         InvCommute: manipulators commute unless they write a common     *)
(*         field; the later of two writes to the same fields wins;         *)
(*         manipulators are idempotent.                                    *)
(*         InvUnformatted: unformatted output ignores precision, width and *)
(*         the delimiters.   InvOutputPure: output never changes the       *)
(*         format, the flags, the precision or the fill, nor the saver     *)
(*         stack; the ios width survives a formatted vector and is 0 after *)
(*         everything else.   InvTranspose: row_major output of M =        *)
(*         column_major output of transpose(M), formatted and unformatted. *)
(*         InvLayout: shape of the formatted text.   InvType.              *)
(*         ASSUMEs: the numeral operators of part A against their meaning  *)
(*         (parsed back, the numeral is within half a unit of its last     *)
(*         digit of the exact value, ties on even digits) and against      *)
(*         printf witnesses.                                               *)
(* Emit    with IOEnv.OUT set, one ndjson line per behaviour for the       *)
(*         harness: breadth-first mode - for every distinct machine state  *)
(*         hist followed by three probing outputs chosen by h; simulation  *)
(*         mode (Sim = TRUE, tlc -simulate) - random behaviours of length  *)
(*         MaxLen - 4 and MaxLen (outputs anywhere).                       *)
(***************************************************************************)
EXTENDS GlmX21, TLC, Json, IOUtils
CONSTANTS MaxLen, MaxDepth, Rich, Sim
VARIABLES S, hist, h
vars == <<S, hist, h>>
ViewS == S

\* ---------------------------------------------------------------- the alphabet
A0(op) == [op |-> op]
AN(op, n) == [op |-> op, n |-> n]
ManipBase == << A0("formatted"), A0("unformatted"), AN("precision", 2), AN("width", 6),
                [op |-> "delimeter", l |-> 60, r |-> 62, s |-> 59], [op |-> "order", o |-> XRowMajor], [op |-> "order", o |-> XColumnMajor] >>
ManipRich == << AN("precision", 0), AN("precision", 10), AN("width", 0), AN("width", 14), [op |-> "delimeter", l |-> 40, r |-> 41, s |-> 32],
                [op |-> "poke", space |-> 95, newline |-> 124] >>
OsBase == << A0("showpos"), AN("setw", 12), AN("setprecision", 2), [op |-> "setfill", c |-> 42], A0("scientific"), A0("left") >>
OsRich == << A0("noshowpos"), A0("fixed"), A0("defaultfloat"), A0("right"), A0("internal"), AN("setw", 3), AN("setprecision", 0), AN("setprecision", 9),
             [op |-> "setfill", c |-> 48] >>
ManipSeq == IF Rich THEN ManipBase \o ManipRich \o OsBase \o OsRich ELSE ManipBase \o OsBase
SaverSeq == << A0("enterF"), A0("enterS"), A0("exit") >>
Range(s) == {s[i] : i \in 1..Len(s)}
ManipSet == Range(ManipSeq)

\* values: <<n, k>> = n / 2^k; <<0, 0, 1>> = -0; <<s, 0, 2>> = s * infinity.  Ties and near-ties at the precisions of the alphabet:
\* 0.125 / 0.375 at 2 digits, 2.5 / 3.5 at 0 digits, 0.1f (13421773 / 2^27) at 10 digits, 2^20, 2^-14 (general style switches to e-04 .. e-05)
VF == << <<1, 0>>, <<-5, 1>>, <<1, 3>>, <<3, 3>>, <<5, 1>>, <<7, 1>>, <<0, 0>>, <<0, 0, 1>>, <<13421773, 27>>, <<1, -20>>, <<-1234567, 10>>,
         <<1, 14>>, <<-1, 0, 2>>, <<999999, 3>>, <<-3, 0>>, <<1, 17>>, <<12345678, 0>> >>
VI == << <<0, 0>>, <<1, 0>>, <<-1, 0>>, <<42, 0>>, <<-2147483647, 0>>, <<1000000, 0>>, <<7, 0>>, <<-300, 0>> >>
VU == << <<0, 0>>, <<1, 0>>, <<42, 0>>, <<2147483647, 0>>, <<1000000, 0>>, <<7, 0>>, <<300, 0>> >>
ValTab(t) == IF t \in {"f32", "f64"} THEN VF ELSE IF t = "i32" THEN VI ELSE VU
OutAct(kind, C, R, t, off) ==
    LET n == IF kind = "qua" THEN 4 ELSE IF kind = "pair" THEN 2 * C * R ELSE C * R tab == ValTab(t) IN
    [op |-> "out", kind |-> kind, C |-> C, R |-> R, t |-> t, v |-> [i \in 1..n |-> tab[((off + 5 * i) % Len(tab)) + 1]]]
Types4 == <<"f32", "f64", "i32", "u32">>
OutVecs == [j \in 1..16 |-> OutAct("vec", ((j - 1) % 4) + 1, 1, Types4[((j - 1) \div 4) + 1], j)]
OutQuas == << OutAct("qua", 4, 1, "f32", 1), OutAct("qua", 4, 1, "f64", 6), OutAct("qua", 4, 1, "i32", 2) >>
OutMats == [j \in 1..9 |-> OutAct("mat", ((j - 1) \div 3) + 2, ((j - 1) % 3) + 2, IF j % 2 = 1 THEN "f32" ELSE "f64", 2 * j)]
           \o << OutAct("mat", 2, 2, "i32", 3), OutAct("mat", 3, 4, "u32", 1), OutAct("mat", 4, 4, "f32", 9) >>
OutPairs == << OutAct("pair", 4, 4, "f32", 4), OutAct("pair", 4, 4, "f64", 8) >>
OutSeq == OutVecs \o OutQuas \o OutMats \o OutPairs
OutSet == Range(OutSeq)
ActSeq == ManipSeq \o SaverSeq \o OutSeq

NumOfV(t, v) == IF t \in {"f32", "f64"}
                THEN (IF Len(v) = 3 /\ v[3] = 1 THEN XNumFin(TRUE, << >>, <<1>>) ELSE IF Len(v) = 3 THEN XNumInf(v[1] < 0) ELSE XNumOfPair(v[1], v[2]))
                ELSE XNumInt(ZFromInt(v[1]), t = "i32")
NumsOf(act) == [i \in 1..Len(act.v) |-> NumOfV(act.t, act.v[i])]
TextOf(T, act) == IoText(T, act, NumsOf(act))

\* ---------------------------------------------------------------- the machine
Init == S = XInit /\ hist = << >> /\ h = 0
Allowed(a) == /\ XCanStep(S, a)
              /\ (a.op \in {"enterF", "enterS"} => Len(S.stack) < MaxDepth)
Next == /\ Len(hist) < MaxLen
        /\ \E i \in 1..Len(ActSeq) : LET a == ActSeq[i] IN
             /\ Allowed(a)
             /\ S' = IoStep(S, a)
             /\ hist' = Append(hist, a)
             /\ h' = (h * 31 + i) % 10007
Spec == Init /\ [][Next]_vars

\* ---------------------------------------------------------------- laws
Law(name, cond) == cond \/ (PrintT(<<"LAW VIOLATED", name>>) /\ FALSE)

InvType ==
    /\ Len(S.stack) <= MaxDepth /\ S.cur \in 0..Len(S.heap)
    /\ \A i \in 1..Len(S.stack) : LET e == S.stack[i] IN
         /\ e.kind \in {"format", "state"} /\ e.loc \in 0..e.hlen /\ e.hlen <= Len(S.heap)
         /\ (i < Len(S.stack) => e.hlen <= S.stack[i + 1].hlen)
    /\ S.os.flags \subseteq XAllFlags /\ S.os.width \in Nat /\ S.os.precision \in Nat
    /\ DOMAIN XEffFmt(S) = DOMAIN XDefaultFmt

\* the saver that ends restores what its constructor saw
ExitLaw ==
    (Len(S'.stack) < Len(S.stack)) =>
      LET top == S.stack[Len(S.stack)] IN
      /\ Law("exit: ios state of the entry", S'.os = top.os)
      /\ Law("exit: pops the innermost saver only", S'.stack = SubSeq(S.stack, 1, Len(S.stack) - 1))
      /\ (top.kind = "format" => Law("format_saver: format of the entry", XEffFmt(S') = top.snap))
      \* basic_state_saver restores the locale; the facet inside a locale is a shared mutable object, so the format it shows
      \* afterwards is whatever the manipulators made of it - unless the saved locale had no facet (then the defaults are back)
      /\ (top.kind = "state" => Law("state_saver: format", XEffFmt(S') = IF top.loc = 0 THEN XDefaultFmt ELSE XEffFmt(S)))
      /\ (top.kind = "state" /\ top.loc = 0 => Law("state_saver without facet: format of the entry", XEffFmt(S') = top.snap))
\* no other action touches the stack entries below the top; entering pushes one entry
StackLaw ==
    /\ (Len(S'.stack) = Len(S.stack) => S'.stack = S.stack)
    /\ (Len(S'.stack) > Len(S.stack) => SubSeq(S'.stack, 1, Len(S.stack)) = S.stack /\ Len(S'.stack) = Len(S.stack) + 1
                                         /\ XEffFmt(S') = XEffFmt(S) /\ S'.os = S.os)
ExitLawP == [][ExitLaw /\ StackLaw]_vars

\* (a manipulator reads and writes the current facet and the ios state only: with the rich alphabet - 784 pairs - the law is evaluated
\* in the states with at most one live saver)
InvCommute ==
    (Rich => Len(S.stack) <= 1) =>
    \A a \in ManipSet : \A b \in ManipSet :
      LET sa == IoStep(S, a) sb == IoStep(S, b) ab == IoStep(sa, b) ba == IoStep(sb, a) IN
      /\ (XWrites(a) \cap XWrites(b) = {} => Law("disjoint manipulators commute", ab = ba))
      /\ (XWrites(a) = XWrites(b) => Law("the later write wins", ab = sb /\ ba = sa))
      /\ (a = b => Law("idempotent", ab = sa))
      /\ Law("a manipulator writes its own fields only",
             /\ sa.stack = S.stack
             /\ \A f \in DOMAIN XDefaultFmt : f \notin XWrites(a) => XEffFmt(sa)[f] = XEffFmt(S)[f]
             /\ ({"os.width", "os.precision", "os.fill"} \cap XWrites(a) = {} => sa.os.width = S.os.width /\ sa.os.precision = S.os.precision /\ sa.os.fill = S.os.fill))

\* small outputs for the laws that compare texts
LawVec == OutAct("vec", 3, 1, "f32", 0)
LawQua == OutAct("qua", 4, 1, "f64", 3)
LawInt == OutAct("vec", 2, 1, "i32", 1)
LawMatA == OutAct("mat", 2, 3, "f32", 2)
LawMatB == OutAct("mat", 4, 2, "i32", 5)
LawMatC == OutAct("mat", 3, 3, "f64", 7)
LawPair == OutAct("pair", 4, 4, "f32", 4)

\* (the text of an output depends on the effective format and the ios state only: the laws about texts are evaluated in the
\* states without a live saver - every combination reachable inside a scope is reachable outside it with fewer steps)
TextState == Len(S.stack) = 0
InvUnformatted ==
    TextState =>
    LET U == IoStep(S, A0("unformatted")) IN
    \A o \in {LawVec, LawInt, LawMatA} : \A m \in {AN("precision", 7), AN("width", 2), [op |-> "delimeter", l |-> 123, r |-> 125, s |-> 47]} :
      Law("unformatted output ignores precision, width and delimiters", TextOf(IoStep(U, m), o) = TextOf(U, o))

InvOutputPure ==
    \A o \in OutSet :
      LET T == IoStep(S, o) keeps == XEffFmt(S).formatted /\ o.kind \in XVecKinds IN
      Law("output keeps the state",
          /\ XEffFmt(T) = XEffFmt(S) /\ XHas(T) /\ T.stack = S.stack
          /\ T.os.flags = S.os.flags /\ T.os.precision = S.os.precision /\ T.os.fill = S.os.fill
          /\ T.os.width = (IF keeps THEN S.os.width ELSE 0)
          /\ (XHas(S) /\ (keeps \/ S.os.width = 0) => T = S))

Transposed(o) == [o EXCEPT !.C = o.R, !.R = o.C]
InvTranspose ==
    TextState =>
    \A o \in {LawMatA, LawMatB, LawMatC} :
      LET Rm == XSetFmt(S, "order", XRowMajor) Cm == XSetFmt(S, "order", XColumnMajor) nums == NumsOf(o) IN
      /\ Law("row_major M = column_major transpose(M)", IoText(Rm, o, nums) = IoText(Cm, Transposed(o), XTranspose(nums, o.C, o.R)))
      /\ Law("column_major M = row_major transpose(M)", IoText(Cm, o, nums) = IoText(Rm, Transposed(o), XTranspose(nums, o.C, o.R)))
      /\ Law("transpose twice", XTranspose(XTranspose(nums, o.C, o.R), o.R, o.C) = nums)

Count(t, c) == Cardinality({i \in 1..Len(t) : t[i] = c})
InvLayout ==
    TextState =>
    LET F == [XSetFmt(S, "formatted", TRUE) EXCEPT !.os.width = 0] fmt == XEffFmt(F)
        one == IF fmt.width > 1 THEN fmt.width ELSE 1 IN
    /\ \A o \in {LawVec, LawQua, LawInt} :
         LET t == TextOf(F, o) L == Len(o.v) IN
         Law("formatted vector: delimiters, L fields of at least width characters, L - 1 separators",
             t[1] = fmt.delim_left /\ t[Len(t)] = fmt.delim_right /\ Len(t) >= 2 + L * one + (L - 1))
    /\ \A o \in {LawMatA, LawMatC} :
         LET t == TextOf(F, o) lines == IF fmt.order = XColumnMajor THEN o.R ELSE o.C IN
         Law("formatted matrix: newline, delimiter, one line per row (column_major) / column (row_major)",
             /\ t[1] = fmt.newline /\ t[2] = fmt.delim_left /\ t[3] = fmt.delim_left /\ t[Len(t)] = fmt.delim_right /\ t[Len(t) - 1] = fmt.delim_right
             /\ (fmt.newline \in {10, 124} => Count(t, fmt.newline) = lines))
    /\ LET m == SubSeq(LawPair.v, 1, 16) t == TextOf(F, [LawPair EXCEPT !.v = m \o m]) a == TextOf(F, [LawPair EXCEPT !.kind = "mat", !.v = m]) IN
       Law("pair of M and M: both halves line by line (per line 3 characters between the halves; one leading newline, one outer pair of delimiters)",
           Len(t) = 2 * Len(a) + 3 /\ (fmt.newline \in {10, 124} => Count(t, fmt.newline) = 4))
    \* the width of the stream pads the first insertion only, and only a formatted vector hands it back
    /\ LET W == [F EXCEPT !.os.width = 30] IN
       /\ Law("ios width pads the opening delimiter", Len(TextOf(W, LawVec)) = Len(TextOf(F, LawVec)) + 29)
       /\ Law("ios width pads the leading newline", Len(TextOf(W, LawMatA)) = Len(TextOf(F, LawMatA)) + 29)

\* ---------------------------------------------------------------- the numerals against their meaning (constant level)
RECURSIVE DigitsVal(_, _, _)
DigitsVal(t, i, acc) == IF i > Len(t) THEN acc
                        ELSE IF t[i] = 46 THEN DigitsVal(t, i + 1, acc)
                        ELSE DigitsVal(t, i + 1, NAdd(NMulSmall(acc, 10), NFromNat(t[i] - 48)))
AllDigitsOrDot(t) == \A i \in 1..Len(t) : t[i] \in 48..57 \/ t[i] = 46
NAbsDiff(a, b) == IF NCmp(a, b) >= 0 THEN NSub(a, b) ELSE NSub(b, a)
\* T / 10^s is a correctly rounded (half-even) numeral of num / den
RoundedOk(T, s, num, den) ==
    LET A == IF s >= 0 THEN NMul(T, den) ELSE NMul(NMul(T, XPow10(-s)), den)
        B == IF s >= 0 THEN NMul(num, XPow10(s)) ELSE num
        U == IF s >= 0 THEN den ELSE NMul(XPow10(-s), den)
        c == NCmp(NMulSmall(NAbsDiff(A, B), 2), U)
    IN c < 0 \/ (c = 0 /\ NIsEven(T))
FixedOk(num, den, p) ==
    LET t == XFixedDigits(num, den, p) dot == Len(t) - p IN
    /\ AllDigitsOrDot(t) /\ (p = 0 => ~XHasDot(t)) /\ (p > 0 => t[dot] = 46 /\ Count(t, 46) = 1)
    /\ (t[1] = 48 => Len(t) = 1 \/ t[2] = 46)                                          \* no superfluous leading zero
    /\ RoundedOk(DigitsVal(t, 1, << >>), p, num, den)
SciOk(num, den, p) ==
    LET sp == XSciParts(num, den, p) t == XSciDigits(num, den, p) m == XSciMant(sp.n, p) IN
    /\ RoundedOk(sp.n, p - sp.x, num, den)
    /\ (NIsZero(num) => NIsZero(sp.n) /\ sp.x = 0) /\ (~NIsZero(num) => NCmp(sp.n, XPow10(p)) >= 0 /\ NCmp(sp.n, XPow10(p + 1)) < 0)
    /\ DigitsVal(m, 1, << >>) = sp.n /\ Len(m) = (IF p = 0 THEN 1 ELSE p + 2)
    /\ t = m \o XExpText(sp.x) /\ Len(XExpText(sp.x)) >= 4
TestNums == { XNumOfPair(v[1], v[2]) : v \in {w \in Range(VF) : Len(w) = 2} }
            \cup { XNumOfPair(n, k) : n \in {1, 3, 5, 7, 9, 15, 99, 999, 1001, 65535, 9999999}, k \in {-40, -7, 0, 1, 2, 3, 4, 5, 10, 24, 60} }
ASSUME \A nm \in TestNums : \A p \in {0, 1, 2, 3, 6, 10, 17} : FixedOk(nm.num, nm.den, p) /\ SciOk(nm.num, nm.den, p)
\* the fast evaluations agree with the definitions
ASSUME \A nm \in TestNums : /\ XDec(nm.num) = XDecSlow(nm.num) /\ XDec(NMul(nm.num, nm.num)) = XDecSlow(NMul(nm.num, nm.num))
                            /\ \A s \in {-3, 0, 1, 2, 5, 9, 20} : XScaled(nm.num, nm.den, s) = XScaledDef(nm.num, nm.den, s)
ASSUME XDec(XPow10(37)) = XDecSlow(XPow10(37)) /\ XDec(<<9999>>) = XStr("9999") /\ XDec(<<10000>>) = XStr("10000") /\ XDec(NFromNat(100020003)) = XStr("100020003")
\* general style = one of the two other styles with the zeros of the fraction removed, chosen by the exponent after rounding
ASSUME \A nm \in TestNums : \A p \in {0, 1, 2, 6, 9} :
         LET P == IF p = 0 THEN 1 ELSE p sp == XSciParts(nm.num, nm.den, P - 1) g == XGenDigits(nm.num, nm.den, p) IN
         /\ (sp.x >= -4 /\ sp.x < P <=> ~(\E i \in 1..Len(g) : g[i] = 101))
         /\ (NIsZero(nm.num) => g = <<48>>)
         /\ g[Len(g)] # 46 /\ (XHasDot(g) /\ ~(\E i \in 1..Len(g) : g[i] = 101) => g[Len(g)] # 48)
\* printf witnesses (glibc, round-half-even on the exact binary value)
F1(n, k, p) == LET nm == XNumOfPair(n, k) IN XFixedDigits(nm.num, nm.den, p)
E1(n, k, p) == LET nm == XNumOfPair(n, k) IN XSciDigits(nm.num, nm.den, p)
G1(n, k, p) == LET nm == XNumOfPair(n, k) IN XGenDigits(nm.num, nm.den, p)
ASSUME /\ F1(1, 1, 0) = XStr("0") /\ F1(3, 1, 0) = XStr("2") /\ F1(5, 1, 0) = XStr("2") /\ F1(7, 1, 0) = XStr("4")
       /\ F1(1, 2, 1) = XStr("0.2") /\ F1(1, 3, 2) = XStr("0.12") /\ F1(3, 3, 2) = XStr("0.38") /\ F1(1, 3, 3) = XStr("0.125")
       /\ F1(13421773, 27, 3) = XStr("0.100") /\ F1(13421773, 27, 10) = XStr("0.1000000015") /\ F1(1, -20, 2) = XStr("1048576.00")
       /\ F1(1234567, 10, 6) = XStr("1205.631836") /\ F1(0, 0, 3) = XStr("0.000") /\ F1(1, 14, 3) = XStr("0.000") /\ F1(1, 14, 6) = XStr("0.000061")
       /\ F1(999999, 3, 0) = XStr("125000") /\ F1(1, -64, 0) = XStr("18446744073709551616")
ASSUME /\ E1(0, 0, 6) = XStr("0.000000e+00") /\ E1(2469, 1, 3) = XStr("1.234e+03") /\ E1(1, 14, 2) = XStr("6.10e-05") /\ E1(1, -20, 0) = XStr("1e+06")
       /\ E1(999999, 0, 2) = XStr("1.00e+06") /\ E1(13421773, 27, 6) = XStr("1.000000e-01") /\ E1(1, -400, 3) = XStr("2.582e+120")
ASSUME /\ G1(100000, 0, 6) = XStr("100000") /\ G1(1000000, 0, 6) = XStr("1e+06") /\ G1(13421773, 27, 6) = XStr("0.1") /\ G1(1, 14, 6) = XStr("6.10352e-05")
       /\ G1(1, 13, 6) = XStr("0.00012207") /\ G1(5, 1, 0) = XStr("2") /\ G1(7, 1, 0) = XStr("4") /\ G1(1234567, 10, 2) = XStr("1.2e+03")
       /\ G1(0, 0, 6) = XStr("0") /\ G1(1, 3, 6) = XStr("0.125") /\ G1(12345678, 0, 6) = XStr("1.23457e+07") /\ G1(999999, 3, 9) = XStr("124999.875")
       /\ G1(9999995, 0, 6) = XStr("1e+07") /\ G1(99999949, 2, 9) = XStr("24999987.2")
\* one insertion: sign, showpos, padding
Fl0 == {"dec", "skipws"}
ASSUME /\ XElem(XNumOfPair(-5, 1), Fl0 \cup {"fixed"}, 3, 9, 32) = XStr("   -2.500")
       /\ XElem(XNumOfPair(5, 1), Fl0 \cup {"fixed", "showpos"}, 1, 6, 42) = XStr("**+2.5")
       /\ XElem(XNumOfPair(5, 1), Fl0 \cup {"fixed", "showpos", "left"}, 1, 6, 42) = XStr("+2.5**")
       /\ XElem(XNumOfPair(-5, 1), Fl0 \cup {"internal"}, 6, 6, 48) = XStr("-002.5")
       /\ XElem(XNumFin(TRUE, << >>, <<1>>), Fl0, 6, 0, 32) = XStr("-0")
       /\ XElem(XNumInf(TRUE), Fl0 \cup {"fixed"}, 3, 6, 32) = XStr("  -inf")
       /\ XElem(XNumInt(ZFromInt(0), TRUE), Fl0 \cup {"showpos"}, 6, 4, 32) = XStr("  +0")
       /\ XElem(XNumInt(ZFromInt(7), FALSE), Fl0 \cup {"showpos"}, 6, 0, 32) = XStr("7")
       /\ XChar(91, 4, 95, Fl0 \cup {"internal"}) = XStr("___[") /\ XChar(91, 3, 95, Fl0 \cup {"left"}) = XStr("[__")
\* the default state renders the examples of the test suite of GLM
ASSUME /\ TextOf(XInit, [op |-> "out", kind |-> "vec", C |-> 3, R |-> 1, t |-> "f32", v |-> << <<1, 0>>, <<-5, 1>>, <<1, 3>> >>]) = XStr("[    1.000,   -2.500,    0.125]")
       /\ TextOf(IoStep(XInit, A0("unformatted")), [op |-> "out", kind |-> "mat", C |-> 2, R |-> 2, t |-> "i32", v |-> << <<1, 0>>, <<2, 0>>, <<3, 0>>, <<4, 0>> >>]) = XStr("1 2 3 4")
       /\ ToStringText("vec", 3, 1, "f32", NumsOf([t |-> "f32", v |-> << <<1, 0>>, <<2, 0>>, <<3, 0>> >>])) = XStr("vec3(1.000000, 2.000000, 3.000000)")
       /\ ToStringText("mat", 2, 2, "f64", NumsOf([t |-> "f64", v |-> << <<1, 0>>, <<2, 0>>, <<3, 0>>, <<4, 0>> >>])) = XStr("dmat2x2((1.000000, 2.000000), (3.000000, 4.000000))")
       /\ ToStringText("qua", 4, 1, "f32", NumsOf([t |-> "f32", v |-> << <<1, 0>>, <<2, 0>>, <<3, 0>>, <<4, 0>> >>])) = XStr("quat(1.000000, {2.000000, 3.000000, 4.000000})")
       /\ ToStringText("dualquat", 4, 2, "f32", NumsOf([t |-> "f32", v |-> [i \in 1..8 |-> <<i, 0>>]]))
            = XStr("dualquat((1.000000, {2.000000, 3.000000, 4.000000}), (5.000000, {6.000000, 7.000000, 8.000000}))")
       /\ ToStringText("vec", 2, 1, "i8", <<XNumInt(ZFromInt(-128), TRUE), XNumInt(ZFromInt(127), TRUE)>>) = XStr("i8vec2(-128, 127)")
       /\ ToStringText("vec", 3, 1, "b", <<XNumBool(FALSE), XNumBool(TRUE), XNumBool(FALSE)>>) = XStr("bvec3(false, true, false)")
\* non-vacuity of the alphabet
ASSUME Len(OutSeq) = 33 /\ Cardinality(OutSet) = 33 /\ Cardinality(ManipSet) = Len(ManipSeq)
ASSUME \A a \in ManipSet : XWrites(a) # {}

\* ---------------------------------------------------------------- E2: behaviours for the harness
Probes == << OutSeq[(h % Len(OutSeq)) + 1], OutSeq[((h \div Len(OutSeq)) % Len(OutSeq)) + 1], OutSeq[((h * 7 + 3) % Len(OutSeq)) + 1] >>
Write(steps) == Serialize(ToJson(steps) \o "\n", IOEnv.OUT, [format |-> "TXT", charset |-> "UTF-8", openOptions |-> <<"WRITE", "CREATE", "APPEND">>]).exitValue = 0
Emit == IF "OUT" \notin DOMAIN IOEnv THEN TRUE
        \* (in simulation mode TLC evaluates the invariant on every successor of the state it leaves: h thins the siblings out)
        ELSE IF Sim THEN (Len(hist) \in {MaxLen - 4, MaxLen} /\ h % 12 = 0 => Write(hist))
        ELSE Write(hist \o Probes)
=============================================================================
