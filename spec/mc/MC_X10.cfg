CONSTANTS CovDepth = 2 MaxCoord = 40 Rich = FALSE
SPECIFICATION Spec
INVARIANTS InvEig InvCov InvLine InvSort InvSeeds Emit
PROPERTIES EigOrbit
CHECK_DEADLOCK FALSE
