SPECIFICATION Spec
CONSTANT Deep = TRUE
INVARIANTS InvLin InvRad InvEnc InvSat InvYcc
PROPERTIES LinStep RadDouble EncDouble SatCompose YccSwap
CHECK_DEADLOCK FALSE
