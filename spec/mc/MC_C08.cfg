SPECIFICATION Spec
INVARIANTS InvOrtho InvOrtho2D InvFrustum InvPerspective InvPerspectiveFov InvInfinite InvTweaked InvProjectCube InvProjectVolume InvRoundTrip InvHomForms InvDepthConvention InvPick InvDispatch InvDiscriminates
CHECK_DEADLOCK FALSE
