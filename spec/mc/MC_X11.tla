------------------------------- MODULE MC_X11 ------------------------------
(* Bounded model of stage X11: the definitions of GlmX11.tla are checked against the laws of the area, exhaustively on a
   small instance.  The state is (family, parameters); the root fans out to one state per parameter tuple (so that every
   TLC worker gets work), each state is checked by the invariants of its family:

   ease    22 polynomial easing functions x a = j/16: value 0 at 0 and 1 at 1, continuity of the piecewise definitions at
           their boundaries (both admissible pieces agree), monotone members increase from a to a + 1/16, Out(a) = 1 - In(1 - a),
           InOut(a) = In(2a)/2 resp. 1 - In(2 - 2a)/2, | value | <= S (the scale really bounds the value), range [0, 1]
   spline  3 splines x control values in {-1, 0, 2}^4 x s in {0, 1/4, 1/2, 1, 2}: interpolation at s = 0 / 1, partition of
           unity (translation invariance), reversal symmetry, linear precision, cubic = Horner, | value | <= S
   select  4 keys from a 6-value float lattice (-1, -0, +0, 1, +inf, NaN): XBestJ non-empty and minimal/maximal, the
           comparison trees of associatedMin/Max (2, 3, 4 pairs) always pick an index of XBestJ when no key is NaN
   int     x in 1..400: 2^log2(x) <= x < 2^(log2(x)+1), levels(2x) = levels(x) + 1, levels = log2 + 1
   encl    x = m 2^-j: the Taylor enclosures are ordered and mutually consistent (sin^2 + cos^2 brackets 1, tan brackets
           sin/cos, atan(tan x) and asin(sin x) bracket x), pi = 2 * (pi/2), cosh^2 - sinh^2 = 1 at k ln 2 *)
EXTENDS GlmX11, TLC
VARIABLES fam, p
vars == <<fam, p>>

Mono == {"linearInterpolation", "quadraticEaseIn", "quadraticEaseOut", "quadraticEaseInOut", "cubicEaseIn", "cubicEaseOut", "cubicEaseInOut",
         "quarticEaseIn", "quarticEaseOut", "quarticEaseInOut", "quinticEaseIn", "quinticEaseOut", "quinticEaseInOut"}
EaseFns == Mono \cup {"backEaseIn", "backEaseOut", "backEaseInOut", "backEaseIn2", "backEaseOut2", "backEaseInOut2", "bounceEaseIn", "bounceEaseOut", "bounceEaseInOut"}
Vals == {-1, 0, 2}
SIdx == 0..4
SOf(i) == CASE i = 0 -> DZero [] i = 1 -> DPow2(-2) [] i = 2 -> DPow2(-1) [] i = 3 -> XOne [] i = 4 -> XTwo
Keys == 0..5
KeyF(i) == CASE i = 0 -> [s |-> 1, e |-> 7, m |-> << >>]      \* FMini: -1
             [] i = 1 -> FZero(FMini, 1) [] i = 2 -> FZero(FMini, 0) [] i = 3 -> FOne(FMini) [] i = 4 -> FInf(FMini, 0)
             [] i = 5 -> [s |-> 0, e |-> 15, m |-> <<1>>]     \* NaN

Init == fam = "root" /\ p = << >>
Next ==
    /\ fam = "root"
    /\ \/ fam' = "ease" /\ \E fn \in EaseFns, j \in 0..16 : p' = <<fn, j>>
       \/ fam' = "spline" /\ \E fn \in {"catmullRom", "hermite", "cubic"}, a \in Vals, b \in Vals, c \in Vals, d \in Vals, i \in SIdx : p' = <<fn, a, b, c, d, i>>
       \/ fam' = "select" /\ \E a \in Keys, b \in Keys, c \in Keys, d \in Keys : p' = <<a, b, c, d>>
       \/ fam' = "int" /\ \E x \in 1..400 : p' = <<x>>
       \/ fam' = "bounce" /\ \E i \in 1..3 : p' = <<i>>
       \/ fam' = "encl" /\ \E j \in 3..14, m \in {1, 3, 5, 7} : p' = <<j, m>>
Spec == Init /\ [][Next]_vars

----------------------------------------------------------------------------
A16(j) == DMk(FALSE, NFromNat(j), -4)
OvN == DFromInt(3)        \* overshoot 3/2 for the two-argument back functions
OvD == 2
Cands(fn, a) == XEase(fn, a, OvN, OvD, DZero)
ValQ(fn, a) == XEaseQ(CHOOSE e \in Cands(fn, a) : TRUE)
InOf(fn) == CASE fn = "quadraticEaseOut" -> "quadraticEaseIn" [] fn = "cubicEaseOut" -> "cubicEaseIn" [] fn = "quarticEaseOut" -> "quarticEaseIn"
              [] fn = "quinticEaseOut" -> "quinticEaseIn" [] fn = "backEaseOut" -> "backEaseIn" [] fn = "backEaseOut2" -> "backEaseIn2" [] fn = "bounceEaseOut" -> "bounceEaseIn"
              [] fn = "quadraticEaseInOut" -> "quadraticEaseIn" [] fn = "cubicEaseInOut" -> "cubicEaseIn" [] fn = "quarticEaseInOut" -> "quarticEaseIn"
              [] fn = "quinticEaseInOut" -> "quinticEaseIn" [] fn = "bounceEaseInOut" -> "bounceEaseIn" [] OTHER -> ""
IsOut(fn) == fn \in {"quadraticEaseOut", "cubicEaseOut", "quarticEaseOut", "quinticEaseOut", "backEaseOut", "backEaseOut2", "bounceEaseOut"}
IsInOut(fn) == fn \in {"quadraticEaseInOut", "cubicEaseInOut", "quarticEaseInOut", "quinticEaseInOut", "bounceEaseInOut"}
XQH == QFromInts(1, 2)
InvEase ==
    fam = "ease" =>
      LET fn == p[1] j == p[2] a == A16(j) C == Cands(fn, a) IN
      /\ C # {}
      /\ \A e1 \in C, e2 \in C : QEq(XEaseQ(e1), XEaseQ(e2))                                  \* admissible pieces agree (continuity at 4/11, 8/11, 9/10 of the bounce)
      /\ \A e \in C : e.den > 0 /\ DLe(DAbs(e.v), e.S)                                         \* S bounds the value
      /\ (j = 0 => QIsZero(ValQ(fn, a))) /\ (j = 16 => QEq(ValQ(fn, a), QOne))                 \* f(0) = 0, f(1) = 1
      /\ (fn \in Mono /\ j < 16 => QLe(ValQ(fn, a), ValQ(fn, A16(j + 1))))                     \* monotone
      /\ (fn \in Mono \/ fn \in {"bounceEaseIn", "bounceEaseOut", "bounceEaseInOut"} => QLe(QZero, ValQ(fn, a)) /\ QLe(ValQ(fn, a), QOne))
      /\ (IsOut(fn) => QEq(ValQ(fn, a), QSub(QOne, ValQ(InOf(fn), A16(16 - j)))))             \* Out(a) = 1 - In(1 - a)
      /\ (IsInOut(fn) => IF j < 8 THEN QEq(QMulInt(ValQ(fn, a), 2), ValQ(InOf(fn), A16(2 * j)))
                         ELSE QEq(QMulInt(ValQ(fn, a), 2), QSub(QFromInt(2), ValQ(InOf(fn), A16(32 - 2 * j)))))
      /\ (j = 8 /\ fn \in {"quadraticEaseInOut", "cubicEaseInOut", "quarticEaseInOut", "quinticEaseInOut", "backEaseInOut", "backEaseInOut2", "bounceEaseInOut"}
              => QEq(ValQ(fn, a), XQH))                                                         \* InOut(1/2) = 1/2

SV(fn, v, s) == XSpline(fn, v, s)
SQ(fn, v, s) == XEaseQ(SV(fn, v, s))
DI(n) == DFromInt(n)
InvSpline ==
    fam = "spline" =>
      LET fn == p[1] v == <<DI(p[2]), DI(p[3]), DI(p[4]), DI(p[5])>> s == SOf(p[6]) e == SV(fn, v, s)
          sh == [i \in 1..4 |-> DAdd(v[i], DI(7))] rev == <<v[4], v[3], v[2], v[1]>> IN
      /\ DLe(DAbs(e.v), e.S)
      /\ (fn = "catmullRom" =>
            /\ QEq(SQ(fn, v, DZero), QFromD(v[2])) /\ QEq(SQ(fn, v, XOne), QFromD(v[3]))                      \* passes through v2 and v3
            /\ QEq(SQ(fn, sh, s), QAdd(SQ(fn, v, s), QFromInt(7)))                                             \* weights sum to 1
            /\ QEq(SQ(fn, rev, DSub(XOne, s)), SQ(fn, v, s))                                                   \* reversal
            /\ QEq(SQ(fn, <<DI(p[2]), DI(p[2] + 3), DI(p[2] + 6), DI(p[2] + 9)>>, s), QAdd(QFromInt(p[2] + 3), QMulInt(QFromD(s), 3))))   \* linear precision
      /\ (fn = "hermite" =>       \* arguments (v1, t1, v2, t2)
            /\ QEq(SQ(fn, v, DZero), QFromD(v[1])) /\ QEq(SQ(fn, v, XOne), QFromD(v[3]))
            /\ QEq(SQ(fn, <<DAdd(v[1], DI(7)), v[2], DAdd(v[3], DI(7)), v[4]>>, s), QAdd(SQ(fn, v, s), QFromInt(7)))
            /\ QEq(SQ(fn, <<v[3], DNeg(v[4]), v[1], DNeg(v[2])>>, DSub(XOne, s)), SQ(fn, v, s))
            /\ LET dd == DSub(v[3], v[1]) IN QEq(SQ(fn, <<v[1], dd, v[3], dd>>, s), QFromD(DAdd(v[1], DMul(dd, s)))))       \* tangents = chord: the chord
      /\ (fn = "cubic" =>
            /\ QEq(SQ(fn, v, s), QFromD(DAdd(DMul(DAdd(DMul(DAdd(DMul(v[1], s), v[2]), s), v[3]), s), v[4])))
            /\ QEq(SQ(fn, v, DZero), QFromD(v[4])) /\ QEq(SQ(fn, v, XOne), QFromD(DSum(v))))

InvSelect ==
    fam = "select" =>
      LET ks == [i \in 1..4 |-> KeyF(p[i])] IN
      \A n \in 2..4 : LET k == SubSeq(ks, 1, n) o == [i \in 1..n |-> OrdC(FMini, k[i])] IN
        (\A i \in 1..n : ~IsNaN(FMini, k[i])) =>
          \A isMin \in BOOLEAN :
            LET J == XBestJ(o, isMin) IN
            /\ J # {}
            /\ \A j \in J, i \in 1..n : IsFinite(FMini, k[j]) /\ IsFinite(FMini, k[i]) =>
                    (IF isMin THEN DLe(Val(FMini, k[j]), Val(FMini, k[i])) ELSE DLe(Val(FMini, k[i]), Val(FMini, k[j])))      \* extreme by value
            /\ (isMin /\ (\E i \in 1..n : IsFinite(FMini, k[i])) => \A j \in J : IsFinite(FMini, k[j]))                          \* +inf is never the minimum of finite keys
            /\ (~isMin /\ (\E i \in 1..n : IsInf(FMini, k[i])) => \A j \in J : IsInf(FMini, k[j]))
            /\ XTree(o, isMin) \in J                                                      \* GLM's comparison tree refines the specification
            /\ {k[j] : j \in J} \subseteq (IF isMin THEN MinSet(FMini, {k[i] : i \in 1..n}) ELSE MaxSet(FMini, {k[i] : i \in 1..n}))

\* the four parabolas of bounceEaseOut meet at 4/11, 8/11, 9/10 with the value 1 (and the last one ends in 1)
PieceQ(q, b) == QDiv(QAdd(QAdd(QMulInt(QMul(b, b), q.c2), QMulInt(b, q.c1)), QFromInt(q.c0)), QFromInt(q.den))
InvBounce ==
    fam = "bounce" =>
      LET i == p[1] q1 == XBouncePieces[i] q2 == XBouncePieces[i + 1] b == QFromInts(q1.hin, q1.hid) IN
      /\ q1.hin = q2.lon /\ q1.hid = q2.lod
      /\ QEq(PieceQ(q1, b), QOne) /\ QEq(PieceQ(q2, b), QOne)
      /\ QEq(PieceQ(XBouncePieces[4], QOne), QOne) /\ QIsZero(PieceQ(XBouncePieces[1], QZero))

InvInt ==
    fam = "int" =>
      LET x == p[1] z == ZFromInt(x) k == XLog2Z(z) IN
      /\ 2^k <= x /\ x < 2^(k + 1)
      /\ XLevelsZ(z) = k + 1 /\ XLevelsZ(ZFromInt(2 * x)) = XLevelsZ(z) + 1
      /\ (x = 2^k => XLevelsZ(ZFromInt(x - 1)) = (IF x = 1 THEN 0 ELSE k))

InvEncl ==
    fam = "encl" =>
      LET x == SMk(DFromInt(p[2]), DPow2(p[1])) k == (p[1] % 8) + 1 IN        \* x = m / 2^j <= 7/8 * 2^-2... restricted below
      SLe(x, SI(1, 8)) =>
        /\ SLt(XTanLo(x), XTanHi(x)) /\ SLt(XSinLo(x), XSinHi(x)) /\ SLt(XCosLo(x), XCosHi(x)) /\ SLt(XAtanLo(x), XAtanHi(x)) /\ SLt(XAsinLo(x), XAsinHi(x))
        /\ SLt(XSinLo(x), x) /\ SLt(x, XTanLo(x)) /\ SLt(x, XAsinLo(x))                                                   \* sin x < x < tan x, x < asin x
        /\ SLe(SAdd(SPow(XSinLo(x), 2), SPow(XCosLo(x), 2)), SOne) /\ SLe(SOne, SAdd(SPow(XSinHi(x), 2), SPow(XCosHi(x), 2)))     \* sin^2 + cos^2 = 1
        /\ SLe(SMul(XTanLo(x), XCosLo(x)), XSinHi(x)) /\ SLe(XSinLo(x), SMul(XTanHi(x), XCosHi(x)))                      \* tan = sin / cos
        /\ SLe(XAtanLo(XTanLo(x)), x) /\ SLe(x, XAtanHi(XTanHi(x)))                                                       \* atan(tan x) = x
        /\ SLe(XAsinLo(XSinLo(x)), x) /\ SLe(x, XAsinHi(XSinHi(x)))                           \* asin(sin x) = x
        /\ SLe(XExpNLo(x), XExpNHi(x)) /\ SLe(SMul(XExpNLo(x), XExpNLo(x)), XExpNHi(SMulI(x, 2)))                         \* exp(-x)^2 = exp(-2x)
        /\ SLe(SMulI(XHalfPiLo, 2), XPiHi) /\ SLe(XPiLo, SMulI(XHalfPiHi, 2)) /\ SLt(XPiLo, XPiHi)
        /\ SLt(SI(314159, 100000), XPiLo) /\ SLt(XPiHi, SI(314160, 100000)) /\ SLt(SI(69314, 100000), XLn2Lo) /\ SLt(XLn2Hi, SI(69315, 100000))
        /\ SLt(SI(250662, 100000), XRoot2PiLo) /\ SLt(XRoot2PiHi, SI(250663, 100000))
        /\ SEq(SSub(SPow(XCoshLn2(k), 2), SPow(XSinhLn2(k), 2)), SOne)                                                    \* cosh^2 - sinh^2 = 1
        /\ SEq(SAdd(XCoshLn2(k), XSinhLn2(k)), SI(2^k, 1))                                                                \* e^(k ln 2) = 2^k
=============================================================================
