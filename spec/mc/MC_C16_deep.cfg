CONSTANTS Tags = {1, 2}
          MaxSteps = 4
SPECIFICATION Spec
INVARIANTS TypeOK InvOffsets InvBijection InvRefine InvRoundTrip InvNames InvLength InvImage InvStrides
CHECK_DEADLOCK FALSE
