CONSTANTS B2 = 3 B3a = 2 B3b = 1
SPECIFICATION Spec
INVARIANTS InvDot InvNorms InvCross InvProj InvReflectInt InvFaceforward InvTriple InvClosest InvRay InvJudge InvRegion
PROPERTY ReflectStep
CHECK_DEADLOCK FALSE
