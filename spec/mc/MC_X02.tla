------------------------------ MODULE MC_X02 ------------------------------
(***************************************************************************)
(* Bounded model of stage X02 (matrix helper libraries).  The state        *)
(* machine enumerates families of small integer configurations (root ->    *)
(* seed -> configuration, so that all workers share the work) and applies  *)
(* the symmetries of the area as actions:                                  *)
(*   adj   (n, a, b)       square integer matrices   action: transpose a   *)
(*   acc   (C, R, i, j)    row i / column j access   action: next row      *)
(*   major (n, s)          n vectors                 action: rotate them   *)
(*   cross (x, v)          integer 3-vectors         action: swap          *)
(*   flip  (C1, R1, C2, s) A (C1 x R1), B (C2 x C1)  action: flip A upside *)
(*                                                   down                  *)
(*   diag  (C, R, v, w)    diagonal matrices         action: swap v and w  *)
(*   qry   (n, p, sg, cell) signed permutation matrix, one entry moved by  *)
(*                         one                       action: transpose     *)
(*   gs    (C, R, s)       integer matrices: rational Gram-Schmidt         *)
(*   qrx   (shape, q, u)   A = Q0 R0 with a dyadic orthonormal Q0 and an   *)
(*                         integer triangular R0     action: negate a      *)
(*                                                   column of Q0 and the  *)
(*                                                   row of R0             *)
(* Invariants: the laws the documentation promises, on the definitions of  *)
(* GlmX02 (parts 0 and 1), their agreement with the rational definitions   *)
(* of LinQ / GlmMatrix / GlmX12, and acceptance of the exact result /      *)
(* rejection of a wrong one by the predicates of part 2 that Trace_X02     *)
(* uses.                                                                   *)
(***************************************************************************)
EXTENDS GlmX02, TLC
CONSTANT Deep            \* FALSE: the quick instance; TRUE: larger pools (thorough tier)
VARIABLE st
vars == <<st>>

S2 == IF Deep THEN {-2, -1, 0, 1, 2} ELSE {-1, 0, 1, 2}
Pool2A == {<<w, x, y, z>> : w \in S2, x \in S2, y \in S2, z \in S2}
Pool2B == << <<1, 2, 3, 4>>, <<0, 1, -1, 0>>, <<2, 0, 0, 2>>, <<1, 1, 1, 1>> >>
Pool3 == << <<1, 0, 0, 0, 1, 0, 0, 0, 1>>, <<0, 1, 0, 0, 0, 1, 1, 0, 0>>, <<1, 2, 3, 4, 5, 6, 7, 8, 9>>, <<2, -1, 0, -1, 2, -1, 0, -1, 2>>,
           <<1, 1, 0, 0, 1, 1, 1, 0, 1>>, <<3, 0, -2, 1, 4, 1, 0, -5, 2>>, <<0, 0, 0, 1, 2, 3, -1, 0, 4>>, <<-1, 2, 2, 2, -1, 2, 2, 2, -1>> >>
Pool4 == << <<1, 0, 0, 0, 0, 1, 0, 0, 0, 0, 1, 0, 0, 0, 0, 1>>, <<0, 0, 0, 1, 1, 0, 0, 0, 0, -1, 0, 0, 0, 0, 1, 0>>,
           <<1, 2, 3, 4, 5, 6, 7, 8, 9, 10, 11, 12, 13, 14, 15, 16>>, <<2, -1, 0, 0, -1, 2, -1, 0, 0, -1, 2, -1, 0, 0, -1, 2>>,
           <<1, 3, -2, 0, 4, 1, 0, 2, -1, 0, 3, 1, 2, -2, 1, 1>> >>
Shapes == {<<c, r>> : c \in 2..4, r \in 2..4}
V3 == {<<1, 0, 0>>, <<0, 1, 0>>, <<0, 0, 1>>, <<1, 2, 3>>, <<-2, 1, 0>>, <<3, -1, -2>>, <<0, 0, 0>>, <<1, 1, 1>>, <<2, -3, 5>>, <<-1, -1, 4>>}
\* permutations of 1..n as sequences
Perms(n) == {p \in [1..n -> 1..n] : \A i, j \in 1..n : i # j => p[i] # p[j]}
SignSets(n) == IF n = 2 THEN {{}, {1}, {2}, {1, 2}} ELSE IF n = 3 THEN {{}, {1}, {2, 3}, {1, 2, 3}, {3}} ELSE {{}, {1, 3}, {1, 2, 3, 4}}
Cells(n) == {<<0, 0>>} \cup ((1..n) \X (1..n))
\* integer matrix number s of a shape: entries from a small multiplicative congruential sequence in -3 .. 3 (s = 0: distinct entries 10 c + r)
Ent(s, k) == ((s * 7 + k * k * 5 + k * 3 + s * k) % 7) - 3
IntMat(C, R, s) == IF s = 0 THEN [k \in 1..(C * R) |-> 10 * (((k - 1) \div R) + 1) + ((k - 1) % R) + 1] ELSE [k \in 1..(C * R) |-> Ent(s, k)]
NGs == IF Deep THEN 24 ELSE 7
\* dyadic orthonormal frames (numerators, common power-of-two denominator exponent): signed coordinate frames and Hadamard / 2
Had == <<1, 1, 1, 1, 1, -1, 1, -1, 1, 1, -1, -1, 1, -1, -1, 1>>
\* upper triangular integer factors K x C (column-major C columns of K rows), positive diagonal
Tri(K, C, s) == [k \in 1..(K * C) |-> LET c == ((k - 1) \div K) + 1 r == ((k - 1) % K) + 1 IN
                  IF r > c THEN 0 ELSE IF r = c THEN 1 + ((s + r) % 3) ELSE ((s * 3 + c * 2 + r) % 5) - 2]

Init == st = [k |-> "root"]
Next ==
    \/ st.k = "root" /\ \/ \E a \in Pool2A : st' = [k |-> "seedAdj2", a |-> a]
                        \/ \E i \in 1..Len(Pool3) : st' = [k |-> "seedAdj", n |-> 3, a |-> Pool3[i]]
                        \/ \E i \in 1..Len(Pool4) : st' = [k |-> "seedAdj", n |-> 4, a |-> Pool4[i]]
                        \/ \E sh \in Shapes : st' = [k |-> "seedAcc", C |-> sh[1], R |-> sh[2]]
                        \/ \E n \in 2..4 : st' = [k |-> "seedMajor", n |-> n]
                        \/ \E x \in V3 : st' = [k |-> "seedCross", x |-> x]
                        \/ \E sh \in Shapes : st' = [k |-> "seedFlip", C |-> sh[1], R |-> sh[2]]
                        \/ \E sh \in Shapes : st' = [k |-> "seedDiag", C |-> sh[1], R |-> sh[2]]
                        \/ \E n \in 2..4 : \E p \in Perms(n) : st' = [k |-> "seedQry", n |-> n, p |-> p]
                        \/ \E sh \in Shapes : st' = [k |-> "seedGs", C |-> sh[1], R |-> sh[2]]
                        \/ \E sh \in Shapes : st' = [k |-> "seedQrx", C |-> sh[1], R |-> sh[2]]
    \/ st.k = "seedAdj2" /\ \E i \in 1..Len(Pool2B) : st' = [k |-> "adj", n |-> 2, a |-> st.a, b |-> Pool2B[i]]
    \/ st.k = "seedAdj" /\ \E i \in 1..(IF st.n = 3 THEN Len(Pool3) ELSE Len(Pool4)) : st' = [k |-> "adj", n |-> st.n, a |-> st.a, b |-> IF st.n = 3 THEN Pool3[i] ELSE Pool4[i]]
    \/ st.k = "seedAcc" /\ \E j \in 1..st.C : st' = [k |-> "acc", C |-> st.C, R |-> st.R, i |-> 1, j |-> j]
    \/ st.k = "seedMajor" /\ \E s \in 0..3 : st' = [k |-> "major", n |-> st.n, vs |-> [q \in 1..st.n |-> [i \in 1..st.n |-> IntMat(st.n, st.n, s)[(q - 1) * st.n + i]]]]
    \/ st.k = "seedCross" /\ \E v \in V3 : st' = [k |-> "cross", x |-> st.x, v |-> v]
    \/ st.k = "seedFlip" /\ \E c2 \in 2..4, s \in 0..2 : st' = [k |-> "flip", C |-> st.C, R |-> st.R, c2 |-> c2, a |-> IntMat(st.C, st.R, s), b |-> IntMat(c2, st.C, s + 1)]
    \/ st.k = "seedDiag" /\ \E s \in 1..4 : LET K == MxK(st.C, st.R) IN
                              st' = [k |-> "diag", C |-> st.C, R |-> st.R, v |-> [i \in 1..K |-> Ent(s, i) + 4], w |-> [i \in 1..K |-> Ent(s + 2, i + 1)]]
    \/ st.k = "seedQry" /\ \E sg \in SignSets(st.n), cell \in Cells(st.n) : st' = [k |-> "qry", n |-> st.n, p |-> st.p, sg |-> sg, cell |-> cell]
    \/ st.k = "seedGs" /\ \E s \in 1..NGs : st' = [k |-> "gs", C |-> st.C, R |-> st.R, a |-> IntMat(st.C, st.R, s)]
    \/ st.k = "seedQrx" /\ \E q \in 0..2, u \in 0..2 : (q < 2 \/ st.R = 4) /\ st' = [k |-> "qrx", C |-> st.C, R |-> st.R, q |-> q, u |-> u, neg |-> {}]
    \* the symmetries
    \/ st.k = "adj" /\ st' = [st EXCEPT !.a = MTranspose(Mat(st.n, st.n, st.a)).e]
    \/ st.k = "acc" /\ st.i < st.R /\ st' = [st EXCEPT !.i = st.i + 1]
    \/ st.k = "major" /\ st' = [st EXCEPT !.vs = [q \in 1..st.n |-> st.vs[(q % st.n) + 1]]]
    \/ st.k = "cross" /\ st' = [st EXCEPT !.x = st.v, !.v = st.x]
    \/ st.k = "flip" /\ st' = [st EXCEPT !.a = MxFlipud(Mat(st.C, st.R, st.a)).e]
    \/ st.k = "diag" /\ st' = [st EXCEPT !.v = st.w, !.w = st.v]
    \/ st.k = "qry" /\ st.cell = <<0, 0>> /\ st' = [st EXCEPT !.p = [i \in 1..st.n |-> CHOOSE j \in 1..st.n : st.p[j] = i], !.sg = {st.p[j] : j \in st.sg}]
    \/ st.k = "qrx" /\ \E c \in 1..MxK(st.C, st.R) : c \notin st.neg /\ Cardinality(st.neg) < (IF Deep THEN 2 ELSE 1) /\ st' = [st EXCEPT !.neg = st.neg \cup {c}]
Spec == Init /\ [][Next]_vars

----------------------------------------------------------------------------
IsK(k) == st.k = k
f32 == F32
DVi(v) == [i \in 1..Len(v) |-> DFromInt(v[i])]
QVi(v) == [i \in 1..Len(v) |-> QI(v[i])]
QD(d) == QFromD(d)
FW(d) == Pattern(F32, RoundD(F32, d, 0))                                                   \* the float word of a representable dyadic
IW(t, d) == WToLimbs(WFromZ(TypeW(t), DFloor(d)), TypeW(t))                                \* the integer word (modulo 2^W)
FWs(ds) == [i \in 1..Len(ds) |-> FW(ds[i])]
IWs(t, ds) == [i \in 1..Len(ds) |-> IW(t, ds[i])]
Bumped(ds, i) == [k \in 1..Len(ds) |-> IF k = i THEN DAdd(ds[k], DUnit) ELSE ds[k]]
DmZeroM(C, R) == MFromFn(C, R, LAMBDA c, r : DZero)

\* ---- adjugate, determinant
InvAdj ==
    \* (invariants are evaluated without caching of LET values: everything used more than once is bound through a singleton set)
    IsK("adj") => \E n \in {st.n} : \E A \in {DmInts(n, n, st.a)} : \E B \in {DmInts(n, n, st.b)} : \E adjA \in {DmAdj(A)} : \E detA \in {DmDet(A)} : \E AB \in {DmMul(A, B)} :
      /\ DmEq(DmMul(A, adjA), DmScale(DmIdentity(n), detA)) /\ DmEq(DmMul(adjA, A), DmScale(DmIdentity(n), detA))   \* M adj(M) = adj(M) M = det(M) I
      /\ DmEq(DmAdj(AB), DmMul(DmAdj(B), adjA))                                                                      \* adj(A B) = adj(B) adj(A)
      /\ DEq(DmDet(AB), DMul(detA, DmDet(B)))
      /\ DmEq(DmAdj(MTranspose(A)), MTranspose(adjA)) /\ DEq(DmDet(MTranspose(A)), detA)
      /\ MEq(DmToQ(adjA), MAdj(DmToQ(A))) /\ QEq(QD(detA), MDet(DmToQ(A)))                                           \* the LinQ definitions
      /\ DLe(DAbs(detA), DmPerm(A)) /\ \A k \in 1..(n * n) : DLe(DAbs(adjA.e[k]), DmAdjAbs(A).e[k])
      /\ DLe(DmPerm(A), MxDetBound(A))
      \* acceptance of the exact result, rejection of a wrong one, by the predicates of the trace specification
      /\ MxDetExactF(f32, A) /\ MxDetSafe("i32", A) /\ MxDetSafe("i16", A)
      /\ MxAdjOk("f32", A, FWs(adjA.e)) /\ MxAdjOk("i32", A, IWs("i32", adjA.e)) /\ MxAdjOk("u8", A, IWs("u8", adjA.e))
      /\ \A k \in {1, n * n} : ~MxAdjOk("f32", A, FWs(Bumped(adjA.e, k))) /\ ~MxAdjOk("u16", A, IWs("u16", Bumped(adjA.e, k)))
      /\ ~MxAdjOk("f32", A, FWs(MTranspose(adjA).e)) <=> ~DmEq(MTranspose(adjA), adjA)
      /\ MxDetOk("f32", A, FW(detA)) /\ MxDetOk("i64", A, IW("i64", detA)) /\ ~MxDetOk("f32", A, FW(DAdd(detA, DUnit))) /\ ~MxDetOk("u32", A, IW("u32", DSub(detA, DUnit)))
\* transposing a transposes the adjugate
AdjTranspose == [][IsK("adj") => DmEq(DmAdj(DmInts(st.n, st.n, st'.a)), MTranspose(DmAdj(DmInts(st.n, st.n, st.a))))]_vars

\* ---- row / column access (elements are plain integers: the index operators do not look at them)
InvAcc ==
    IsK("acc") => LET C == st.C R == st.R m == Mat(C, R, IntMat(C, R, 0)) i == st.i j == st.j
                      x == [c \in 1..C |-> 100 + c] y == [r \in 1..R |-> 200 + r] mr == RowSet(m, i, x) mc == ColSet(m, j, y) IN
      /\ MRow(mr, i) = x /\ \A r \in 1..R : r # i => MRow(mr, r) = MRow(m, r)                                         \* set then get; the other rows untouched
      /\ MCol(mc, j) = y /\ \A c \in 1..C : c # j => MCol(mc, c) = MCol(m, c)
      /\ RowSet(m, i, MRow(m, i)) = m /\ ColSet(m, j, MCol(m, j)) = m
      /\ RowSet(mr, i, MRow(m, i)) = m
      /\ MRow(MTranspose(m), j) = MCol(m, j) /\ MCol(MTranspose(m), i) = MRow(m, i)
      /\ MRow(m, i)[j] = MAt(m, j, i) /\ MCol(m, j)[i] = MAt(m, j, i)
      /\ \A c \in 1..C : \A r \in 1..R : MAt(ColSet(mr, j, y), c, r) = (IF c = j THEN y[r] ELSE IF r = i THEN x[c] ELSE MAt(m, c, r))
      /\ MRow(MxFlipud(m), i) = MRow(m, R + 1 - i) /\ MCol(MxFliplr(m), j) = MCol(m, C + 1 - j)
      /\ MxSameSeq("i32", IWs("i32", DVi(MRow(m, i))), MRow(Mat(C, R, IWs("i32", DVi(m.e))), i))                       \* on words as on numbers

\* ---- rowMajor / colMajor
InvMajor ==
    IsK("major") => LET n == st.n vs == st.vs cm == ColMajorV(vs) rm == RowMajorV(vs) IN
      /\ rm = MTranspose(cm) /\ cm = MTranspose(rm)
      /\ \A q \in 1..n : MCol(cm, q) = vs[q] /\ MRow(rm, q) = vs[q]
      /\ MxRowMajorM(cm) = rm /\ MxColMajorM(cm) = cm /\ MxRowMajorM(MxRowMajorM(cm)) = cm

\* ---- cross-product matrices
InvCross ==
    IsK("cross") => \E x \in {DVi(st.x)} : \E v \in {DVi(st.v)} : \E Mx \in {DmCross(3, x)} : \E Mv \in {DmCross(3, v)} : \E M4 \in {DmCross(4, x)} : \E c \in {DvCross(x, v)} :
      /\ \A i \in 1..3 : DEq(DmVec(Mx, v)[i], c[i])                                                                 \* M_x v = x cross v
      /\ DmEq(MTranspose(Mx), DmNeg(Mx))                                                                             \* skew-symmetric
      /\ DvIsZero(DmVec(Mx, x)) /\ DIsZero(DmDet(Mx))                                                                \* M_x x = 0
      /\ DmEq(DmSub(DmMul(Mx, Mv), DmMul(Mv, Mx)), DmCross(3, c))                                                    \* [M_x, M_v] = M_(x cross v)
      /\ DmEq(M4, MxConvert(4, 4, Mx, DZero, DZero))                                                                 \* matrixCross4: the 3 x 3 block, zero elsewhere
      /\ \A w \in {0, 5} : LET r == DmVec(M4, <<v[1], v[2], v[3], DFromInt(w)>>) IN \A i \in 1..4 : DEq(r[i], MxCrossMV(4, x, <<v[1], v[2], v[3], DFromInt(w)>>)[i])
      /\ MEq(DmToQ(Mx), MatrixCross(3, QVi(st.x))) /\ MEq(DmToQ(M4), MatrixCross(4, QVi(st.x)))                       \* the C02 definition
      /\ \A i \in 1..3 : QEq(QD(c[i]), VCross(QVi(st.x), QVi(st.v))[i])
      /\ \A i \in 1..3 : DLe(DAbs(c[i]), MxCrossMVAbs(3, x, v)[i])
      /\ MxAllExact("f32", FWs(Mx.e), DmCross(3, x).e) /\ MxAllExact("u32", IWs("u32", Mx.e), DmCross(3, x).e)
      /\ (~DvIsZero(x)) => ~MxAllExact("i32", IWs("i32", MTranspose(Mx).e), DmCross(3, x).e)                           \* the opposite sign convention is rejected
CrossSwap == [][IsK("cross") => \A i \in 1..3 : DEq(DvCross(DVi(st'.x), DVi(st'.v))[i], DNeg(DvCross(DVi(st.x), DVi(st.v))[i]))]_vars

\* ---- flipud / fliplr
InvFlip ==
    IsK("flip") => \E A \in {DmInts(st.C, st.R, st.a)} : \E B \in {DmInts(st.c2, st.C, st.b)} : \E AB \in {DmMul(A, B)} :
      /\ MxFlipud(MxFlipud(A)) = A /\ MxFliplr(MxFliplr(A)) = A
      /\ DmEq(MxFlipud(AB), DmMul(MxFlipud(A), B)) /\ DmEq(MxFliplr(AB), DmMul(A, MxFliplr(B)))                       \* flipud(A B) = flipud(A) B
      /\ MxFlipud(A) = MTranspose(MxFliplr(MTranspose(A)))                                                           \* the route GLM takes
      /\ DmEq(MxFlipud(A), DmMul(MxFliplr(DmIdentity(st.R)), A)) /\ DmEq(MxFliplr(A), DmMul(A, MxFliplr(DmIdentity(st.C))))
      /\ MxFlipud(MxFliplr(A)) = MxFliplr(MxFlipud(A))
      /\ MxRQin(MTranspose(MxFliplr(A))) = A /\ MTranspose(MxFliplr(MxRQin(A))) = A                                   \* the transformation of rq_decompose is invertible
      /\ st.C = st.R => DEq(DmDet(MxFlipud(A)), IF st.C \in {2, 3} THEN DNeg(DmDet(A)) ELSE DmDet(A))                  \* sign of the reversal permutation

\* ---- diagonal matrices
InvDiag ==
    IsK("diag") => \E C \in {st.C} : \E R \in {st.R} : \E K \in {MxK(C, R)} : \E v \in {DVi(st.v)} : \E w \in {DVi(st.w)} : \E D \in {MxDiag(C, R, v, DZero)} : \E x \in {DVi([c \in 1..C |-> c + 1])} :
      /\ \A c \in 1..C : \A r \in 1..R : DEq(MAt(D, c, r), IF c = r THEN v[c] ELSE DZero)
      /\ \A r \in 1..R : DEq(DmVec(D, x)[r], IF r <= K THEN DMul(v[r], x[r]) ELSE DZero)                            \* diag(v) x = v * x (component-wise)
      /\ MTranspose(D) = MxDiag(R, C, v, DZero)                                                                      \* transpose(diagCxR(v)) = diagRxC(v)
      /\ D = MxConvert(C, R, MxDiag(K, K, v, DZero), DZero, DZero)
      /\ C = R => /\ DEq(DmDet(D), LET RECURSIVE Pr(_) Pr(i) == IF i = 0 THEN DUnit ELSE DMul(v[i], Pr(i - 1)) IN Pr(K))
                  /\ DmEq(DmMul(D, MxDiag(C, R, w, DZero)), MxDiag(C, R, [i \in 1..K |-> DMul(v[i], w[i])], DZero))
                  /\ DmEq(DmMul(D, MxDiag(C, R, w, DZero)), DmMul(MxDiag(C, R, w, DZero), D))
                  /\ DmEq(DmAdj(D), MxDiag(C, R, [i \in 1..K |-> LET RECURSIVE Pr(_) Pr(j) == IF j = 0 THEN DUnit ELSE DMul(IF j = i THEN DUnit ELSE v[j], Pr(j - 1)) IN Pr(K)], DZero))
      /\ MxIsIdentity3(MxDiag(C, R, [i \in 1..K |-> DUnit], DZero), DZero, f32) = "T"
      /\ MxIsIdentity3(D, DZero, f32) = (IF \A i \in 1..K : st.v[i] = 1 THEN "T" ELSE "F")
      /\ MxSameSeq("f32", FWs(D.e), MxDiag(C, R, FWs(v), MxZeroW("f32")).e)                                           \* on words as on numbers

\* ---- the query predicates on signed permutation matrices with one entry moved by one
PermMat(n, p, sg, cell) == MFromFn(n, n, LAMBDA c, r : DFromInt((IF p[c] = r THEN (IF c \in sg THEN -1 ELSE 1) ELSE 0) + (IF cell = <<c, r>> THEN 1 ELSE 0)))
\* the rational definitions (GlmX12 part 1, thresholds compared in squares)
QNullM(m, e) == \A c \in 1..m.c : XIsNull(DvToQ(MCol(m, c)), e)
QNormM(m, e) == (\A c \in 1..m.c : XIsNormalized(DvToQ(MCol(m, c)), e)) /\ (\A r \in 1..m.r : XIsNormalized(DvToQ(MRow(m, r)), e))
QOrthSet(vs, e) == (\A i \in 1..Len(vs) : XIsNormalized(DvToQ(vs[i]), e)) /\ (\A i, j \in 1..Len(vs) : i < j => QSign(e) >= 0 /\ QLe(QAbs(VDot(DvToQ(vs[i]), DvToQ(vs[j]))), e))
QOrthM(m, e) == QOrthSet(MxCols(m), e) /\ QOrthSet(MxRows(m), e)
QIdM(m, e) == \A c \in 1..m.c : \A r \in 1..m.r : QLe(QAbs(QSub(QD(MAt(m, c, r)), IF c = r THEN QOne ELSE QZero)), e)
EpsSet == {DZero, DMk(FALSE, <<1>>, -3), DMk(FALSE, <<1>>, -1), DFromInt(1), DFromInt(2), DFromInt(-1)}
InvQry ==
    IsK("qry") => \E n \in {st.n} : \E m \in {PermMat(n, st.p, st.sg, st.cell)} : \E pure \in {st.cell = <<0, 0>>} :
      /\ \A e \in EpsSet : \E qe \in {QD(e)} :
           /\ XAgree(QNullM(m, qe), MxIsNull3(m, e, f32)) /\ XAgree(QNormM(m, qe), MxIsNormalized3(m, e, f32))
           /\ XAgree(QOrthM(m, qe), MxIsOrthogonal3(m, e, f32)) /\ XAgree(QIdM(m, qe), MxIsIdentity3(m, e, f32))
           /\ MxIsIdentity3(m, e, f32) # "U" /\ MxIsNull3(m, e, f32) # "U"                                              \* integer entries: no rounding anywhere
           /\ DSign(e) < 0 => (MxIsNull3(m, e, f32) = "F" /\ MxIsNormalized3(m, e, f32) = "F" /\ MxIsOrthogonal3(m, e, f32) = "F" /\ MxIsIdentity3(m, e, f32) = "F")
      /\ pure => /\ MxIsOrthogonal3(m, DZero, f32) = "T" /\ MxIsNormalized3(m, DZero, f32) = "T" /\ MxIsNull3(m, DZero, f32) = "F"     \* exact, ties included
                 /\ MxIsNull3(m, DUnit, f32) = "T"
                 /\ MxIsIdentity3(m, DZero, f32) = (IF (\A i \in 1..n : st.p[i] = i) /\ st.sg = {} THEN "T" ELSE "F")
                 /\ DmEq(DmMul(MTranspose(m), m), DmIdentity(n)) /\ DEq(DAbs(DmDet(m)), DUnit)
                 /\ MxGlmSecond3(m, DZero, f32) = "T"                                                                  \* square: GLM's second stage is the row test
      /\ ~pure => /\ MxIsOrthogonal3(m, DZero, f32) = "F" /\ MxIsNormalized3(m, DZero, f32) = "F"
                  /\ MxIsOrthogonal3(m, DUnit, f32) = "T"                                                              \* lengths 0, sqrt 2, 2 within 1 +- 2; dots 0, +-1: the tie |dot| = e
                  \* e = 1/2: every length is within 1 +- 1; a moved zero entry leaves a dot product +-1 > e, a moved unit entry none
                  /\ MxIsOrthogonal3(m, DMk(FALSE, <<1>>, -1), f32) = (IF st.p[st.cell[1]] = st.cell[2] THEN "T" ELSE "F")
\* the orthogonality predicates do not change under transposition
QryTranspose == [][IsK("qry") => \A e \in {DZero, DUnit} :
                     MxIsOrthogonal3(PermMat(st.n, st'.p, st'.sg, st'.cell), e, f32) = MxIsOrthogonal3(PermMat(st.n, st.p, st.sg, st.cell), e, f32)]_vars
\* the non-square reading: columns of a coordinate sub-frame are orthonormal wherever the frame sits; GLM's second stage is not
ASSUME LET a == DmInts(2, 3, <<1, 0, 0, 0, 1, 0>>) b == DmInts(2, 3, <<0, 0, 1, 0, 1, 0>>) IN
       /\ MxIsOrthogonal3(a, DZero, f32) = "T" /\ MxIsOrthogonal3(b, DZero, f32) = "T"
       /\ MxGlmSecond3(a, DZero, f32) = "T" /\ MxGlmSecond3(b, DZero, f32) = "F"
ASSUME MxIsOrthogonal3(DmInts(3, 2, <<1, 0, 0, 1, 0, 0>>), DZero, f32) = "F"                                            \* three columns in the plane

\* ---- rational Gram-Schmidt of small integer matrices and the Gram-determinant form of the domain
InvGs ==
    IsK("gs") => \E C \in {st.C} : \E R \in {st.R} : \E K \in {MxK(C, R)} : \E A \in {DmInts(C, R, st.a)} : \E AQ \in {DmToQ(A)} : \E g \in {MxGramMinors(A, K)} :
                 \E indep \in {\A i \in 1..K : DSign(g[i]) > 0} :
      /\ \A i \in 1..K : DSign(g[i]) >= 0                                                                             \* Gram determinants are non-negative
      /\ indep => \E W \in {MxGS(AQ, K)} : \E P \in {MxRhoP(A, K)} :
           /\ Len(W) = K
           /\ \A i, j \in 1..K : i < j => QIsZero(VDot(W[i], W[j]))                                                    \* orthogonal
           /\ \A i \in 1..K : QEq(QMul(VNorm2(W[i]), IF i = 1 THEN QOne ELSE QD(g[i - 1])), QD(g[i]))                  \* |w_i|^2 = g_i / g_{i-1}
           /\ \A i \in 1..K : QEq(VDot(W[i], MCol(AQ, i)), VNorm2(W[i]))                                               \* a_i - w_i lies in the span of the previous columns
           /\ \A i \in 1..K : LET a2 == VNorm2(MCol(AQ, i)) w2 == VNorm2(W[i]) IN                                      \* P_i = the least power of two >= |a_i| / |w_i|, 0 beyond 4
                P[i] = (IF QLe(a2, w2) THEN 1 ELSE IF QLe(a2, QMulInt(w2, 4)) THEN 2 ELSE IF QLe(a2, QMulInt(w2, 16)) THEN 4 ELSE 0)
           /\ MxQRDomain(A, K) <=> \A i \in 1..K : P[i] > 0
      /\ ~indep => ~MxQRDomain(A, K)
      \* the error budget grows with the conditioning
      /\ \E E1 \in {MxQRE([i \in 1..K |-> 1], R, 1, << >>)} : \E E4 \in {MxQRE([i \in 1..K |-> 4], R, 1, << >>)} :
           /\ E1[1] = 0 /\ \A i \in 2..K : E1[i] > E1[i - 1] /\ E4[i] >= 4 * E1[i]
           /\ MxQRResK(E4, K, R) > MxQRResK(E1, K, R)

\* ---- exact QR / RQ factorisations against the postconditions of the trace specification
\* Q0: R rows, K columns.  q = 0: coordinate frame e_{R}, e_{R-1}, ... (signs alternating); q = 1: e_1, e_2, ...; q = 2 (R = 4): Hadamard / 2
Q0(K, R, q, neg) == MFromFn(K, R, LAMBDA c, r :
    LET base == IF q = 0 THEN (IF r = R + 1 - c THEN DFromInt(IF c % 2 = 0 THEN -1 ELSE 1) ELSE DZero)
                ELSE IF q = 1 THEN (IF r = c THEN DUnit ELSE DZero)
                ELSE DMk(Had[(c - 1) * 4 + r] < 0, <<1>>, -1)
    IN IF c \in neg THEN DNeg(base) ELSE base)
R0(K, C, u, neg) == MFromFn(C, K, LAMBDA c, r : LET x == DFromInt(Tri(K, C, u)[(c - 1) * K + r]) IN IF r \in neg THEN DNeg(x) ELSE x)
InvQrx ==
    IsK("qrx") => \E C \in {st.C} : \E R \in {st.R} : \E K \in {MxK(C, R)} : \E q \in {Q0(K, R, st.q, st.neg)} : \E r \in {R0(K, C, st.u, st.neg)} : \E A \in {DmMul(q, r)} :
                  \E A0 \in {DmMul(Q0(K, R, st.q, {}), R0(K, C, st.u, {}))} :
      /\ DmEq(A, A0)                                                                                                  \* the signs cancel
      /\ MxIsQR(DmToQ(A), DmToQ(q), DmToQ(r))                                                                         \* the documented statement, over Q
      /\ \E P \in {MxRhoP(A, K)} :
           /\ MxQRDomain(A, K) <=> MxQRDomainP(P)
           /\ MxQRDomainP(P)                                                                                          \* |a_i| <= sqrt(13) r_ii by construction
           /\ MxQRPost(A, q, r, f32) /\ MxQRPostP(A, q, r, P, F64)
           /\ \E W \in {MxGS(DmToQ(A), K)} : \A i \in 1..K : \A k \in 1..R : QEq(W[i][k], QMul(QD(MAt(q, i, k)), QD(MAt(r, i, i))))     \* Gram-Schmidt finds w_i = r_ii q_i
           /\ \E nq \in {DmNeg(q)} : ~MxQRPostP(A, nq, r, P, f32)                                                     \* - Q R
           /\ \E sq \in {DmScale(q, DMk(FALSE, <<1025>>, -10))} : ~MxQRPostP(A, sq, r, P, f32)                        \* not unit
           /\ \E br \in {Mat(C, K, Bumped(r.e, C * K))} : ~MxQRPostP(A, q, br, P, f32)                                \* a wrong coefficient
           /\ (K > 1) => \E br \in {Mat(C, K, [k \in 1..(C * K) |-> IF k = 2 THEN DPow2(-30) ELSE r.e[k]])} : ~MxQRPostP(A, q, br, P, f32)   \* below the diagonal: exact zeros are demanded
           /\ (K > 1) => \E bq \in {MFromFn(K, R, LAMBDA c, k : IF c = 2 THEN MAt(q, 1, k) ELSE MAt(q, c, k))} : ~MxQRPostP(A, bq, r, P, f32)   \* two equal columns
           \* rq_decompose through the transformation: the factors of in = transpose(fliplr(A)) read off the QR factors of A
           /\ \E in \in {MTranspose(MxFliplr(A))} : \E rq_q \in {MTranspose(MxFliplr(q))} : \E rq_r \in {MxFliplr(MTranspose(MxFliplr(r)))} :
                /\ MxRQin(in) = A /\ MxRQq(rq_q) = q /\ MxRQr(rq_r) = r
                /\ MxIsRQ(DmToQ(in), DmToQ(rq_r), DmToQ(rq_q))                                                       \* the documented statement of rq_decompose
                /\ MxRQZerosOk(rq_r) /\ MxRQDomain(in)
                /\ MxRQPost(in, rq_r, rq_q, f32)
                /\ \E nq \in {MxRQq(DmNeg(rq_q))} : ~MxQRPostP(A, nq, r, P, f32)
                /\ \E fr \in {MxFlipud(rq_r)} : DmEq(fr, rq_r) \/ ~MxQRPostP(A, q, MxRQr(fr), P, f32)
\* negating a column of Q0 together with the row of R0 leaves the product alone
QrxSign == [][IsK("qrx") => DmEq(DmMul(Q0(MxK(st.C, st.R), st.R, st.q, st'.neg), R0(MxK(st.C, st.R), st.C, st.u, st'.neg)),
                                 DmMul(Q0(MxK(st.C, st.R), st.R, st.q, st.neg), R0(MxK(st.C, st.R), st.C, st.u, st.neg)))]_vars

----------------------------------------------------------------------------
(* constant-level checks: integer safety, mix, abs, non-vacuity *)
ASSUME MxIntSafe("i8", DPow2(40)) /\ MxIntSafe("u32", DPow2(40)) /\ ~MxIntSafe("i32", DPow2(31)) /\ MxIntSafe("i32", DFromInt(2147483647)) /\ ~MxIntSafe("u16", DPow2(31)) /\ MxIntSafe("i64", DPow2(62))
ASSUME MxExactW("u8", <<250>>, DFromInt(-6)) /\ MxExactW("i8", <<250>>, DFromInt(-6)) /\ ~MxExactW("u8", <<250>>, DFromInt(6)) /\ MxExactW("u32", <<65535, 65535>>, DFromInt(-1))
ASSUME MxExactW("f32", <<0, 32768>>, DZero) /\ MxExactW("f32", <<0, 16256>>, DUnit) /\ ~MxExactW("f32", <<0, 32640>>, DUnit)
ASSUME MxSameW("f32", <<0, 32704>>, <<1, 32640>>) /\ ~MxSameW("f32", <<0, 32768>>, <<0, 0>>) /\ MxSameW("i32", <<7, 9>>, <<7, 9>>)
ASSUME DEq(MxMixD(DFromInt(3), DFromInt(11), DMk(FALSE, <<1>>, -2)), DFromInt(5)) /\ DEq(MxMixD(DFromInt(3), DFromInt(11), DZero), DFromInt(3)) /\ DEq(MxMixD(DFromInt(3), DFromInt(11), DUnit), DFromInt(11))
ASSUME MxMixOk("f32", <<DFromInt(3)>>, <<DFromInt(11)>>, <<DMk(FALSE, <<1>>, -2)>>, <<FW(DFromInt(5))>>) /\ ~MxMixOk("f32", <<DFromInt(3)>>, <<DFromInt(11)>>, <<DMk(FALSE, <<1>>, -2)>>, <<FW(DFromInt(9))>>)
ASSUME MxMixOk("u32", <<DFromInt(3)>>, <<DFromInt(11)>>, <<DFromInt(2)>>, <<IW("u32", DFromInt(19))>>)               \* 3 (1 - 2) + 11 * 2, modulo 2^32
ASSUME MxLenKnown(DVi(<<3, 4>>)).ok /\ DEq(MxLenKnown(DVi(<<3, 4>>)).len, DFromInt(5)) /\ ~MxLenKnown(DVi(<<1, 1>>)).ok /\ DEq(MxLenKnown(DVi(<<0, -7, 0>>)).len, DFromInt(7)) /\ MxLenKnown(DVi(<<2, 4, 5, 6>>)).ok
ASSUME MxIsNullV3(DVi(<<3, 4>>), DFromInt(5), F32) = "T" /\ MxIsNullV3(DVi(<<3, 4>>), DMk(FALSE, <<4999>>, -10), F32) = "F" /\ MxIsNullV3(DVi(<<1, 1>>), DMk(FALSE, NFromNat(11863283), -23), F32) = "U"
ASSUME MxIsNormalizedV3(<<DMk(FALSE, <<5>>, -2), DZero>>, DMk(FALSE, <<1>>, -3), F32) = "T" /\ MxIsNormalizedV3(<<DMk(FALSE, <<5>>, -2), DZero>>, DMk(FALSE, <<8191>>, -16), F32) = "F"
ASSUME \E a \in Pool2A : DIsZero(DmDet(DmInts(2, 2, a))) /\ ~DmEq(DmInts(2, 2, a), DmZeroM(2, 2))                     \* singular matrices are in the pool
ASSUME \E s \in 1..NGs : ~MxQRDomain(DmInts(3, 3, IntMat(3, 3, s)), 3)
ASSUME \E s \in 1..NGs : MxQRDomain(DmInts(3, 3, IntMat(3, 3, s)), 3) /\ \E i \in 1..3 : MxRhoP(DmInts(3, 3, IntMat(3, 3, s)), 3)[i] > 1
=============================================================================
