------------------------------ MODULE Gen_C05 ------------------------------
(* E2: the documented (offset, bits) domain of bitfieldExtract / bitfieldInsert for every
   width, written out for the harness.  The domain is the enabling condition FieldOK of the
   specification, not a list kept on the C++ side. *)
EXTENDS GlmInteger, TLC, Json, IOUtils, SequencesExt
Pairs(W) == {[w |-> W, off |-> p[1], n |-> p[2]] : p \in {q \in (0..W) \X (0..W) : FieldOK(W, q[1], q[2])}}
All == UNION {Pairs(W) : W \in {8, 16, 32, 64}}
ASSUME ndJsonSerialize(IOEnv.OUT, SetToSeq(All))
ASSUME PrintT(<<"GENERATED", Cardinality(All)>>)
VARIABLE dummy
Spec == dummy = 0 /\ [][UNCHANGED dummy]_dummy
=============================================================================
