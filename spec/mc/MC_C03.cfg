CONSTANTS FMT <- FmtMini
SPECIFICATION Spec
INVARIANTS InvRound InvFloorCeil InvMasks
CHECK_DEADLOCK FALSE
