SPECIFICATION Spec
CONSTANTS
    RedVals <- RedValsDeep
    HW <- HWDeep
    FmodI <- FmodIDeep
    NormW <- NormWDeep
    MiniPat <- MiniPatDeep
INVARIANTS InvRed InvHash InvFmod InvMix InvNorm InvTdef InvSum
PROPERTIES RedPerm FmodNeg MixLaws
CHECK_DEADLOCK FALSE
