CONSTANTS K = 16 W = 4
SPECIFICATION Spec
INVARIANTS InvLifting InvYCoCg InvHsv InvSat InvSrgb
CHECK_DEADLOCK FALSE
