------------------------------ MODULE MC_C05 ------------------------------
(***************************************************************************)
(* Bounded model of the integer-function area for one width W:             *)
(*  - every W-bit word is an initial state; the three ladders of GLM's     *)
(*    algorithms (bit count, bit reverse, smear) advance one rung per      *)
(*    step and their inductive invariants are checked in every state;      *)
(*  - at k = 0 the declarative laws of the definitions are checked;        *)
(*  - the documented domain of (offset, bits) is emitted for the harness   *)
(*    (the enabling condition of BitfieldExtract/Insert is the spec's).    *)
(***************************************************************************)
EXTENDS GlmInteger, TLC, Json, IOUtils
CONSTANTS W, CheckFields
VARIABLES x, k, cnt, rev, sm
vars == <<x, k, cnt, rev, sm>>

Init == /\ x \in {NFromNat(n) : n \in 0..(2^W - 1)}
        /\ k = 0 /\ cnt = x /\ rev = x /\ sm = x
Rung == /\ k < 6
        /\ cnt' = CountStep(W, cnt, k)
        /\ rev' = ReverseStep(W, rev, k)
        /\ sm'  = SmearStep(W, sm, k)
        /\ k' = k + 1
        /\ UNCHANGED x
Next == Rung
Spec == Init /\ [][Next]_vars

InvCountLadder   == CountLadderInv(W, x, cnt, k)
InvReverseLadder == ReverseLadderInv(W, x, rev, k)
InvSmear         == SmearInv(W, x, sm, k)
InvResults ==
    k = 6 => /\ cnt = NFromNat(BitCount(W, x))
             /\ rev = BitfieldReverse(W, x)
             /\ FindMSBViaSmear(W, sm) = FindMSB(W, FALSE, x)       \* the smear computes the unsigned rule
InvLaws ==
    k = 0 => /\ BitCount(W, x) + BitCount(W, WNot(W, x)) = W
             /\ BitfieldReverse(W, BitfieldReverse(W, x)) = x
             /\ FindLSBViaCount(W, x) = FindLSB(W, x)
             /\ FindLSB(W, x) = (IF NIsZero(x) THEN -1 ELSE W - 1 - FindMSB(W, FALSE, BitfieldReverse(W, x)))
             /\ FindMSB(W, TRUE, x) = (IF WIsNeg(W, TRUE, x) THEN FindMSB(W, FALSE, WNot(W, x)) ELSE FindMSB(W, FALSE, x))
             /\ (FindMSB(W, TRUE, x) = -1) = (NIsZero(x) \/ x = AllOnes(W))
FieldPairs == {p \in (0..W) \X (0..W) : FieldOK(W, p[1], p[2])}
InvFields ==
    (k = 0 /\ CheckFields) =>
      \A p \in FieldPairs :
        LET off == p[1] n == p[2]
            eu == BitfieldExtract(W, FALSE, x, off, n)
            es == BitfieldExtract(W, TRUE, x, off, n)
        IN /\ eu = WAnd(W, WShr(W, x, off), WMask(W, n))
           /\ (n = 0 => NIsZero(eu) /\ NIsZero(es))
           /\ NLowBits(es, n) = eu
           /\ (n > 0 => \A i \in n..W-1 : NBit(es, i) = NBit(x, off + n - 1))
           /\ BitfieldInsert(W, x, eu, off, n) = x                   \* re-inserting what was extracted
           /\ BitfieldExtract(W, FALSE, BitfieldInsert(W, << >>, x, off, n), off, n) = NLowBits(x, n)
           /\ (n = 0 => BitfieldInsert(W, x, AllOnes(W), off, n) = x)
           /\ (off = 0 /\ n = W => eu = x /\ es = x)
=============================================================================
