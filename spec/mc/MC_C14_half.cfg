CONSTANTS FMT <- FmtHalf
MaxDepth = 1
MaxN = 2
SPECIFICATION Spec
INVARIANTS InvPosition InvDistance InvEqualUlps
CHECK_DEADLOCK FALSE
