SPECIFICATION Spec
INVARIANTS InvRed InvHash InvFmod InvMix InvNorm InvTdef InvSum
PROPERTIES RedPerm FmodNeg MixLaws
CHECK_DEADLOCK FALSE
