CONSTANTS FMT <- FmtHalf
SPECIFICATION Spec
INVARIANTS InvRound InvFloorCeil InvMasks
CHECK_DEADLOCK FALSE
