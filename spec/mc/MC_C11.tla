------------------------------ MODULE MC_C11 ------------------------------
(* Every pattern of the mini format (4,3) -- and a stride of binary16 patterns -- as initial
   states; the definitions of GlmCommon.tla are checked against the declarative characterisations
   in the property text, in exact dyadic arithmetic. *)
EXTENDS GlmCommon, TLC
CONSTANTS FMT, Stride
VARIABLE p
Init == p \in {n \in 0..(2^FBits(FMT) - 1) : n % Stride = 0}
Next == UNCHANGED p
Spec == Init /\ [][Next]_p
FmtMini == FMini
FmtHalf == F16
x == Fields(FMT, <<p>>)
d == Val(FMT, x)
One == DFromInt(1)
Dist(a, z) == DAbs(DSub(a, DFromZ(z)))
InvFloorCeil ==
    IsFinite(FMT, x) =>
      /\ DLe(DFromZ(FloorZ(d)), d) /\ DLt(d, DAdd(DFromZ(FloorZ(d)), One))
      /\ DLe(d, DFromZ(CeilZ(d))) /\ DLt(DSub(DFromZ(CeilZ(d)), One), d)
      /\ DLe(DAbs(DFromZ(TruncZ(d))), DAbs(d)) /\ DLt(DSub(DAbs(d), One), DAbs(DFromZ(TruncZ(d))))
      /\ (DIsInt(d) => ZEq(FloorZ(d), CeilZ(d)) /\ DEq(DFromZ(FloorZ(d)), d))
InvRound ==
    IsFinite(FMT, x) =>
      /\ DLe(DMulInt(Dist(d, RoundAwayZ(d)), 2), One)                          \* a nearest integer
      /\ DLe(DMulInt(Dist(d, RoundEvenZ(d)), 2), One)
      /\ (IsTie(d) => NIsEven(RoundEvenZ(d).m) /\ DLt(DAbs(d), DAbs(DFromZ(RoundAwayZ(d)))))    \* even on ties / away on ties
      /\ (~IsTie(d) => ZEq(RoundAwayZ(d), RoundEvenZ(d)) /\ NearestZSet(d) = {RoundAwayZ(d)})
      /\ RoundAwayZ(d) \in NearestZSet(d) /\ RoundEvenZ(d) \in NearestZSet(d)
InvFract ==
    IsFinite(FMT, x) =>
      /\ DLe(DZero, FractV(d)) /\ DLt(FractV(d), One)
      /\ LET r == RoundD(FMT, FractV(d), 0) IN DLe(DZero, Val(FMT, r)) /\ DLe(Val(FMT, r), One)      \* rounded: within [0,1]
      /\ DLe(DZero, MirrorRepeatV(d)) /\ DLe(MirrorRepeatV(d), One)
InvModel ==   \* the IEEE layer: rounding an exactly representable value is the identity; IsRNED agrees with RoundD
    IsFinite(FMT, x) => /\ (IsZero(FMT, x) \/ RoundD(FMT, d, 0) = x)
                        /\ IsRNED(FMT, x, d)
                        /\ IsRNED(FMT, RoundD(FMT, DMul2k(DMulInt(d, 3), -2), x.s), DMul2k(DMulInt(d, 3), -2))
=============================================================================
