------------------------------- MODULE MC_C04 -------------------------------
(***************************************************************************)
(* Bounded model for C04: the laws of the property, over Q, on             *)
(*   - every integer 4-tuple with w^2+x^2+y^2+z^2 = n^2, n <= N (all       *)
(*     rational unit quaternions of height <= N: every "largest component" *)
(*     case, exact ties such as (1,1,1,1)/2, w = 0, pure axes, all sign    *)
(*     variants) plus near-axis quaternions (1-t^2, 2t, 0, 0)/(1+t^2),     *)
(*     t = 2^-k, k up to 30, in several positions;                         *)
(*   - an orientation that walks through the 24 Hurwitz unit quaternions   *)
(*     (the machine: orient' = orient * generator), multiplied with every  *)
(*     probe: Mat(o q) = Mat(o) Mat(q);                                    *)
(*   - every triple of the rational angle set (including +-90 degrees,     *)
(*     the gimbal-lock values, and their 2^-12 neighbours) through all 6   *)
(*     two-angle and 12 three-angle Euler products.                        *)
(***************************************************************************)
EXTENDS GlmQuat, TLC
CONSTANT N
VARIABLES ph, orient, probe, tri
vars == <<ph, orient, probe, tri>>

\* ---------------------------------------------------------------- the enumerated quaternions <<w, x, y, z, n>>
Rg == (0 - N)..N
Enumerated == {t \in Rg \X Rg \X Rg \X Rg \X (1..N) : t[1] * t[1] + t[2] * t[2] + t[3] * t[3] + t[4] * t[4] = t[5] * t[5]}
\* near-axis ones are given as rationals directly (their integers exceed 32 bits): position p holds (1-t^2)/(1+t^2), position s holds 2t/(1+t^2)
NearKs == {1, 12, 30}
NearSpecs == {<<k, p, s, sg>> : k \in NearKs, p \in 1..4, s \in 1..4, sg \in {1, -1}}
NearQ(sp) == LET k == sp[1] t2 == QFromD(DPow2(-2 * k)) den == QAdd(QOne, t2)
                 big == QDiv(QSub(QOne, t2), den) sm == QDiv(QFromD(DPow2(1 - k)), den)
             IN [i \in 1..4 |-> IF i = sp[2] THEN QMulInt(big, sp[4]) ELSE IF i = sp[3] THEN sm ELSE QZero]
TupleQ(t) == << QF(t[1], t[5]), QF(t[2], t[5]), QF(t[3], t[5]), QF(t[4], t[5]) >>
Probes == Enumerated \cup {sp \in NearSpecs : sp[2] # sp[3]}
ProbeQ(p) == IF Len(p) = 5 THEN TupleQ(p) ELSE NearQ(p)

\* ---------------------------------------------------------------- the orientation machine: Hurwitz units, numerators over 2
HId == <<2, 0, 0, 0>>
Gens == { <<0, 2, 0, 0>>, <<0, 0, 2, 0>>, <<1, 1, 1, 1>> }
HMul(p, q) == << (p[1] * q[1] - p[2] * q[2] - p[3] * q[3] - p[4] * q[4]) \div 2, (p[1] * q[2] + p[2] * q[1] + p[3] * q[4] - p[4] * q[3]) \div 2,
                 (p[1] * q[3] + p[3] * q[1] + p[4] * q[2] - p[2] * q[4]) \div 2, (p[1] * q[4] + p[4] * q[1] + p[2] * q[3] - p[3] * q[2]) \div 2 >>
HQ(o) == << QF(o[1], 2), QF(o[2], 2), QF(o[3], 2), QF(o[4], 2) >>

\* ---------------------------------------------------------------- rational angles <<cos, sin>>
Tiny == LET t2 == QFromD(DPow2(-24)) den == QAdd(QOne, t2) IN << QDiv(QSub(QOne, t2), den), QDiv(QFromD(DPow2(-11)), den) >>   \* t = 2^-12
Angles == << <<QF(3, 5), QF(4, 5)>>, <<QF(5, 13), QF(-12, 13)>>, <<QF(-4, 5), QF(3, 5)>>, <<QZero, QOne>>, <<QOne, QZero>>, <<QZero, QI(-1)>>,
             <<QI(-1), QZero>>, Tiny, << Tiny[2], Tiny[1] >>, << Tiny[2], QNeg(Tiny[1]) >> >>      \* the last two: +-90 degrees -+ 2^-11
NA == Len(Angles)
AnglesOK == \A i \in 1..NA : CsOnCircle(Angles[i])

VBoxI == { <<1, 0, 0>>, <<0, 1, 0>>, <<0, 0, 1>>, <<1, 2, 3>>, <<-3, 1, 2>>, <<100, -7, 3>> }
VQ(v) == << QI(v[1]), QI(v[2]), QI(v[3]) >>
UnitVs == { <<1, 0, 0, 1>>, <<0, 1, 0, 1>>, <<0, 0, 1, 1>>, <<1, 2, 2, 3>>, <<2, 3, 6, 7>>, <<-1, 4, -8, 9>>, <<0, -3, 4, 5>>, <<2, -2, 1, 3>>, <<4, 0, 3, 5>>, <<3, 4, 0, 5>> }
UQ(u) == << QF(u[1], u[4]), QF(u[2], u[4]), QF(u[3], u[4]) >>

Init == ph = "quat" /\ orient = HId /\ probe \in Probes /\ tri = <<1, 1, 1>>
Turn == ph = "quat" /\ \E g \in Gens : orient' = HMul(orient, g) /\ UNCHANGED <<ph, probe, tri>>
ToEuler == ph = "quat" /\ orient = HId /\ probe = <<1, 0, 0, 0, 1>> /\ ph' = "euler" /\ tri' \in (1..NA) \X (1..NA) \X (1..NA) /\ UNCHANGED <<orient, probe>>
Next == Turn \/ ToEuler
Spec == Init /\ [][Next]_vars

\* ---------------------------------------------------------------- invariants (the laws of the property, exact)
Q0 == ProbeQ(probe)
M0 == QuatToMat3(Q0)
InQuat == ph = "quat"
\* GLM's operator*(qua, vec3): v + 2 (w (u x v) + u x (u x v)), the two-cross-product form
GlmQV(q, v) == LET u == QVec(q) uv == VCross(u, v) uuv == VCross(u, uv) IN VAdd(v, VScale(VAdd(VScale(uv, q[1]), uuv), QI(2)))

InvUnit == InQuat => AllEq(QuatMul(Q0, QuatConj(Q0)), QId) /\ AllEq(QuatMul(QuatConj(Q0), Q0), QId)
InvInverse == InQuat => AllEq(QuatInv(Q0), QuatConj(Q0)) /\ AllEq(QuatMul(Q0, QuatInv(Q0)), QId)
           /\ AllEq(QuatInv(VScale(Q0, QI(3))), VScale(QuatConj(Q0), QF(1, 3)))
InvRotation == InQuat => IsRotation(M0) /\ MEq(QuatToMat3H(VScale(Q0, QF(-7, 2))), M0) /\ MEq(QuatToMat3(VNeg(Q0)), M0)
InvMatHom == InQuat => LET o == HQ(orient) IN MEq(QuatToMat3(QuatMul(o, Q0)), MMul(QuatToMat3(o), M0))
                                          /\ MEq(QuatToMat3(QuatMul(Q0, o)), MMul(M0, QuatToMat3(o)))
InvRotate == InQuat => \A v \in VBoxI : AllEq(QuatRotate(Q0, VQ(v)), MVec(M0, VQ(v))) /\ AllEq(GlmQV(Q0, VQ(v)), MVec(M0, VQ(v)))
                                        /\ AllEq(QuatRotate(QuatConj(Q0), VQ(v)), VMat(VQ(v), M0))
InvCast == InQuat => (QuatCastRel(M0, Q0) \/ QuatCastRel(M0, VNeg(Q0))) /\ ~(QuatCastRel(M0, Q0) /\ QuatCastRel(M0, VNeg(Q0)))
InvBetween == InQuat => \A u \in UnitVs : QIsZero(VDot(QVec(Q0), UQ(u))) =>
                           LET r == IF QSign(Q0[1]) < 0 THEN VNeg(Q0) ELSE Q0 IN RotBetweenRel(UQ(u), MVec(M0, UQ(u)), r)
InvDual == InQuat => \A t \in VBoxI : LET d == DQMake(Q0, VQ(t)) m == DQMat3x4(d[1], d[2]) IN
               /\ AllEq(DQTrans(d[1], d[2]), VQ(t))
               /\ \A v \in {<<1, 2, 3>>, <<0, 0, 0>>} : AllEq(DQApply(d[1], d[2], VQ(v)), VAdd(MVec(M0, VQ(v)), VQ(t)))
               /\ \A k \in 1..3 : QEq(MAt(m, k, 4), VQ(t)[k]) /\ \A c \in 1..3 : QEq(MAt(m, k, c), MAt(M0, c, k))
\* axis-angle (only on the first few probes: it does not depend on the probe)
InvAngleAxis == (InQuat /\ orient = HId /\ probe = <<1, 0, 0, 0, 1>>) =>
                   \A i \in 1..NA : \A u \in UnitVs : LET h == Angles[i] f == Dbl(h) q == AngleAxisQ(h, UQ(u)) IN
                       /\ MEq(QuatToMat3(q), RotAxis3(f[1], f[2], UQ(u))) /\ QEq(QuatNorm2(q), QOne)
                       /\ \A w \in VBoxI : AllEq(MVec(RotAxis3(f[1], f[2], UQ(u)), VQ(w)), QuatRotate(q, VQ(w)))

TriP == << Angles[tri[1]], Angles[tri[2]], Angles[tri[3]] >>
InEuler == ph = "euler"
InvEuler3 == InEuler => \A nm \in EulerNames3 : IsRotation(EulerMat(nm, TriP))
InvEuler2 == InEuler => \A nm \in EulerNames2 : IsRotation(EulerMat(nm, << TriP[1], TriP[2] >>))
                                              /\ MEq(EulerMat(nm, << TriP[1], TriP[2] >>), MMul(AxisRot(EulerAxes(nm)[1], TriP[1]), AxisRot(EulerAxes(nm)[2], TriP[2])))
InvEuler1 == InEuler => /\ MEq(RotX(TriP[1][1], TriP[1][2]), RotAxis3(TriP[1][1], TriP[1][2], <<QOne, QZero, QZero>>))
                        /\ MEq(RotY(TriP[2][1], TriP[2][2]), RotAxis3(TriP[2][1], TriP[2][2], <<QZero, QOne, QZero>>))
                        /\ MEq(RotZ(TriP[3][1], TriP[3][2]), RotAxis3(TriP[3][1], TriP[3][2], <<QZero, QZero, QOne>>))
                        /\ MEq(YawPitchRollMat(TriP), MMul(RotY(TriP[1][1], TriP[1][2]), MMul(RotX(TriP[2][1], TriP[2][2]), RotZ(TriP[3][1], TriP[3][2]))))
\* qua(vec3 euler) (half angles = the triple) is the quaternion of Rz(roll) Ry(yaw) Rx(pitch), and pitch/yaw/roll read the angles back
InvEulerQuat == InEuler => LET q == EulerQuat(TriP[1], TriP[2], TriP[3]) p == Dbl(TriP[1]) y == Dbl(TriP[2]) r == Dbl(TriP[3]) IN
                   /\ QEq(QuatNorm2(q), QOne)
                   /\ MEq(QuatToMat3(q), EulerMat("ZYX", << r, y, p >>))
                   /\ QEq(YawSin(q), y[2])
                   /\ QEq(PitchX(q), QMul(p[1], y[1])) /\ QEq(PitchY(q), QMul(p[2], y[1]))
                   /\ QEq(RollX(q), QMul(r[1], y[1])) /\ QEq(RollY(q), QMul(r[2], y[1]))
                   /\ QEq(CosYaw2(q), Sq(y[1]))

\* ---------------------------------------------------------------- non-vacuity
ASSUME AnglesOK
ASSUME Cardinality(Enumerated) >= 400 /\ <<1, 1, 1, 1, 2>> \in Enumerated /\ <<0, 3, -4, 0, 5>> \in Enumerated /\ <<-2, 1, -2, 4, 5>> \in Enumerated
ASSUME \A b \in 1..4 : \E t \in Enumerated : BiggestIndex(QuatToMat3(TupleQ(t))) = b /\ t[5] = 5
ASSUME \E t \in Enumerated : \E u \in UnitVs : t[2] # 0 /\ t[1] # 0 /\ QIsZero(VDot(QVec(TupleQ(t)), UQ(u)))
=============================================================================
