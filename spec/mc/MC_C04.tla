------------------------------- MODULE MC_C04 -------------------------------
(***************************************************************************)
(* Bounded model for C04: the laws of the property, over Q, on             *)
(*   - every integer 4-tuple with w^2+x^2+y^2+z^2 = n^2, n <= N (all       *)
(*     rational unit quaternions of height <= N: every "largest component" *)
(*     case, exact ties such as (1,1,1,1)/2, w = 0, pure axes, all sign    *)
(*     variants) plus near-axis quaternions (1-t^2, 2t, 0, 0)/(1+t^2),     *)
(*     t = 2^-k, k up to 30, in several positions;                         *)
(*   - an orientation that walks through the 24 Hurwitz unit quaternions   *)
(*     (the machine: orient' = orient * generator), multiplied with every  *)
(*     probe: Mat(o q) = Mat(o) Mat(q);                                    *)
(*   - every triple of the rational angle set (including +-90 degrees,     *)
(*     the gimbal-lock values, and their 2^-12 neighbours) through all 6   *)
(*     two-angle and 12 three-angle Euler products.                        *)
(***************************************************************************)
EXTENDS GlmQuat, TLC
CONSTANT N
VARIABLES ph, grp, orient, probe, tri
vars == <<ph, grp, orient, probe, tri>>

\* ---------------------------------------------------------------- the enumerated quaternions <<w, x, y, z, n>>
Rg == (0 - N)..N
Enumerated == {t \in Rg \X Rg \X Rg \X Rg \X (1..N) : t[1] * t[1] + t[2] * t[2] + t[3] * t[3] + t[4] * t[4] = t[5] * t[5]}
\* near-axis ones are given as rationals directly (their integers exceed 32 bits): position p holds (1-t^2)/(1+t^2), position s holds 2t/(1+t^2)
NearKs == {1, 12, 30}
NearSpecs == {<<k, p, s, sg>> : k \in NearKs, p \in 1..4, s \in 1..4, sg \in {1, -1}}
\* all four components over the one denominator 4^k + 1 (sums of unreduced rationals stay on the equal-denominator path)
NearQ(sp) == LET k == sp[1] den == NAdd(NShl(<<1>>, 2 * k), <<1>>) big == NSub(NShl(<<1>>, 2 * k), <<1>>) sm == NShl(<<1>>, k + 1)
             IN [i \in 1..4 |-> IF i = sp[2] THEN QMk(ZMk(sp[4] < 0, big), den) ELSE IF i = sp[3] THEN QMk(ZMk(FALSE, sm), den) ELSE QMk(ZMk(FALSE, << >>), den)]
TupleQ(t) == << QF(t[1], t[5]), QF(t[2], t[5]), QF(t[3], t[5]), QF(t[4], t[5]) >>
Probes == Enumerated \cup {sp \in NearSpecs : sp[2] # sp[3]}
ProbeQ(p) == IF Len(p) = 5 THEN TupleQ(p) ELSE NearQ(p)

\* ---------------------------------------------------------------- the orientation machine: Hurwitz units, numerators over 2
HId == <<2, 0, 0, 0>>
Gens == { <<0, 2, 0, 0>>, <<0, 0, 2, 0>>, <<1, 1, 1, 1>> }
HMul(p, q) == << (p[1] * q[1] - p[2] * q[2] - p[3] * q[3] - p[4] * q[4]) \div 2, (p[1] * q[2] + p[2] * q[1] + p[3] * q[4] - p[4] * q[3]) \div 2,
                 (p[1] * q[3] + p[3] * q[1] + p[4] * q[2] - p[2] * q[4]) \div 2, (p[1] * q[4] + p[4] * q[1] + p[2] * q[3] - p[3] * q[2]) \div 2 >>
HQ(o) == << QF(o[1], 2), QF(o[2], 2), QF(o[3], 2), QF(o[4], 2) >>

\* ---------------------------------------------------------------- rational angles <<cos, sin>>
\* rational angles as integer triples <<cn, sn, d>>: cos = cn/d, sin = sn/d  (the 8th: t = 2^-12; the last two: +-90 degrees -+ 2^-11)
AngleT == << <<3, 4, 5>>, <<5, -12, 13>>, <<-4, 3, 5>>, <<0, 1, 1>>, <<1, 0, 1>>, <<0, -1, 1>>, <<-1, 0, 1>>,
             <<16777215, 8192, 16777217>>, <<8192, 16777215, 16777217>>, <<8192, -16777215, 16777217>> >>
NA == Len(AngleT)
Angles == [i \in 1..NA |-> << QF(AngleT[i][1], AngleT[i][3]), QF(AngleT[i][2], AngleT[i][3]) >>]
AngleD == [i \in 1..NA |-> << DI(AngleT[i][1]), DI(AngleT[i][2]), DI(AngleT[i][3]) >>]
AnglesOK == \A i \in 1..NA : CsOnCircle(Angles[i]) /\ DTripleOK(AngleD[i])

VBoxI == { <<1, 2, 3>>, <<100, -7, 3>> }
DualTs == { <<0, 0, 0>>, <<-3, 1, 2>> }
VQ(v) == << QI(v[1]), QI(v[2]), QI(v[3]) >>
UnitVs == { <<1, 0, 0, 1>>, <<0, 1, 0, 1>>, <<0, 0, 1, 1>>, <<1, 2, 2, 3>>, <<2, 3, 6, 7>>, <<-1, 4, -8, 9>>, <<0, -3, 4, 5>>, <<2, -2, 1, 3>>, <<4, 0, 3, 5>>, <<3, 4, 0, 5>> }
UQ(u) == << QF(u[1], u[4]), QF(u[2], u[4]), QF(u[3], u[4]) >>

\* The machine.  "pick" states only fan the work out over the TLC workers (16 groups); from a picked probe the orientation walks
\* through the Hurwitz group (orient' = orient * generator: 24 orientations per probe); from a picked angle triple nothing moves.
NG == 16
GrpOf(p) == IF Len(p) = 5 THEN (p[1] + 2 * p[2] + 3 * p[3] + 5 * p[4] + 7 * p[5] + 64 * N) % NG ELSE (p[1] + 3 * p[2] + 5 * p[3] + p[4] + 1) % NG
P1 == <<1, 0, 0, 0, 1>>
Init == ph = "pick" /\ grp \in 0..(NG - 1) /\ orient = HId /\ probe = P1 /\ tri = <<1, 1, 1>>
PickQ == ph = "pick" /\ ph' = "quat" /\ probe' \in {p \in Probes : GrpOf(p) = grp} /\ UNCHANGED <<grp, orient, tri>>
PickE == ph = "pick" /\ ph' = "euler" /\ tri' \in {t \in (1..NA) \X (1..NA) \X (1..NA) : (t[1] + 3 * t[2] + 7 * t[3]) % NG = grp} /\ UNCHANGED <<grp, orient, probe>>
Turn == ph = "quat" /\ (IF Len(probe) = 4 THEN TRUE ELSE (IF probe[5] <= 2 THEN TRUE ELSE (probe[1] = 0 /\ probe[5] = 3) \/ (probe[2] = probe[3] /\ probe[5] = 5))) /\ \E g \in Gens : orient' = HMul(orient, g) /\ UNCHANGED <<ph, grp, probe, tri>>
Next == PickQ \/ PickE \/ Turn
Spec == Init /\ [][Next]_vars

\* ---------------------------------------------------------------- invariants (the laws of the property, exact)
InQuat == ph = "quat"
AtProbe == ph = "quat" /\ orient = HId                     \* laws about the probe alone are evaluated once per probe
\* GLM's operator*(qua, vec3): v + 2 (w (u x v) + u x (u x v)), the two-cross-product form
GlmQV(q, v) == LET u == QVec(q) uv == VCross(u, v) uuv == VCross(u, uv) IN VAdd(v, VScale(VAdd(VScale(uv, q[1]), uuv), QI(2)))

\* matrix of a product = product of the matrices (both orders), for every orientation x probe
InvMatHom == InQuat => LET q == ProbeQ(probe) m == QuatToMat3(q) o == HQ(orient) mo == QuatToMat3(o) IN
                 /\ MEq(QuatToMat3(QuatMul(o, q)), MMul(mo, m)) /\ MEq(QuatToMat3(QuatMul(q, o)), MMul(m, mo))
                 /\ QEq(QuatNorm2(QuatMul(o, q)), QOne)
InvProbe == AtProbe => LET q == ProbeQ(probe) m == QuatToMat3(q) cj == QuatConj(q) IN
    /\ AllEq(QuatMul(q, cj), QId) /\ AllEq(QuatMul(cj, q), QId)                                   \* q q* = |q|^2 = 1
    /\ AllEq(QuatInv(q), cj) /\ AllEq(QuatMul(q, QuatInv(q)), QId)                               \* conjugate = inverse, q q^-1 = 1
    /\ AllEq(QuatInv(VScale(q, QI(3))), VScale(cj, QF(1, 3)))
    /\ IsRotation(m) /\ MEq(QuatToMat3H(VScale(q, QF(-7, 2))), m) /\ MEq(QuatToMat3(VNeg(q)), m)   \* orthonormal, det 1, q and -q same rotation
    /\ \A v \in VBoxI : LET mv == MVec(m, VQ(v)) IN AllEq(QuatRotateC(q, VQ(v)), mv) /\ AllEq(GlmQV(q, VQ(v)), mv)
                                                /\ AllEq(QuatRotateC(cj, VQ(v)), VMat(VQ(v), m))    \* q v q* = M v;  v * q = M^T v
    /\ (QuatCastRel(m, q) \/ QuatCastRel(m, VNeg(q))) /\ ~(QuatCastRel(m, q) /\ QuatCastRel(m, VNeg(q)))   \* quat_cast model returns q or -q
    /\ \A u \in UnitVs : QIsZero(VDot(QVec(q), UQ(u))) =>
           LET r == IF QSign(q[1]) < 0 THEN VNeg(q) ELSE q IN RotBetweenRel(UQ(u), MVec(m, UQ(u)), r)
InvDual == AtProbe => LET q == ProbeQ(probe) m == QuatToMat3(q) IN \A t \in DualTs : LET d == DQMake(q, VQ(t)) m34 == DQMat3x4(d[1], d[2]) IN
               /\ AllEq(DQTrans(d[1], d[2]), VQ(t))
               /\ AllEq(DQApply(d[1], d[2], VQ(<<1, 2, 3>>)), VAdd(MVec(m, VQ(<<1, 2, 3>>)), VQ(t)))
               /\ \A k \in 1..3 : QEq(MAt(m34, k, 4), VQ(t)[k]) /\ \A c \in 1..3 : QEq(MAt(m34, k, c), MAt(m, c, k))
\* axis-angle (does not depend on the probe: evaluated on the first one)
InvAngleAxis == (AtProbe /\ probe = P1) =>
                   \A i \in 1..NA : \A u \in UnitVs : LET h == Angles[i] f == Dbl(h) q == AngleAxisQ(h, UQ(u)) ra == RotAxis3(f[1], f[2], UQ(u)) IN
                       /\ MEq(QuatToMat3(q), ra) /\ QEq(QuatNorm2(q), QOne)
                       /\ AllEq(MVec(ra, VQ(<<1, 2, 3>>)), QuatRotateC(q, VQ(<<1, 2, 3>>)))

TriP == << Angles[tri[1]], Angles[tri[2]], Angles[tri[3]] >>
InEuler == ph = "euler"
InvEuler3 == InEuler => LET p == TriP IN \A nm \in EulerNames3 : IsRotation(EulerMat(nm, p))
InvEuler2 == InEuler => LET p == TriP IN \A nm \in EulerNames2 : LET e == EulerMat(nm, << p[1], p[2] >>) IN
                            IsRotation(e) /\ MEq(e, MMul(AxisRot(EulerAxes(nm)[1], p[1]), AxisRot(EulerAxes(nm)[2], p[2])))
InvEuler1 == InEuler => LET p == TriP IN
                        /\ MEq(RotX(p[1][1], p[1][2]), RotAxis3(p[1][1], p[1][2], <<QOne, QZero, QZero>>))
                        /\ MEq(RotY(p[2][1], p[2][2]), RotAxis3(p[2][1], p[2][2], <<QZero, QOne, QZero>>))
                        /\ MEq(RotZ(p[3][1], p[3][2]), RotAxis3(p[3][1], p[3][2], <<QZero, QZero, QOne>>))
                        /\ MEq(YawPitchRollMat(p), MMul(RotY(p[1][1], p[1][2]), MMul(RotX(p[2][1], p[2][2]), RotZ(p[3][1], p[3][2]))))
\* qua(vec3 euler) (half angles = the triple) is the quaternion of Rz(roll) Ry(yaw) Rx(pitch), and pitch/yaw/roll read the angles back
InvEulerQuat == InEuler => LET t == TriP q == EulerQuat(t[1], t[2], t[3]) p == Dbl(t[1]) y == Dbl(t[2]) r == Dbl(t[3]) IN
                   /\ QEq(QuatNorm2(q), QOne)
                   /\ MEq(QuatToMat3(q), EulerMat("ZYX", << r, y, p >>))
                   /\ QEq(YawSin(q), y[2])
                   /\ QEq(PitchX(q), QMul(p[1], y[1])) /\ QEq(PitchY(q), QMul(p[2], y[1]))
                   /\ QEq(RollX(q), QMul(r[1], y[1])) /\ QEq(RollY(q), QMul(r[2], y[1]))
                   /\ QEq(CosYaw2(q), Sq(y[1]))

\* ---------------------------------------------------------------- the dyadic evaluators used by Trace_C04 agree with the definitions
SameQ(ds, qs) == AllEq(QOfDs(ds), qs)
InvTwinsQuat == (InQuat /\ Len(probe) = 5 /\ orient \in {HId, <<1, 1, 1, 1>>, <<0, 2, 0, 0>>, <<-1, 1, -1, 1>>}) =>
    LET pd == << DI(probe[1]), DI(probe[2]), DI(probe[3]), DI(probe[4]) >> pq == << QI(probe[1]), QI(probe[2]), QI(probe[3]), QI(probe[4]) >>
        od == << DMul2k(DI(orient[1]), -1), DMul2k(DI(orient[2]), -1), DMul2k(DI(orient[3]), -1), DMul2k(DI(orient[4]), -1) >> oq == HQ(orient)
        vd == << DI(100), DI(-7), DI(3) >> vq == VQ(<<100, -7, 3>>)
    IN /\ SameQ(DqMul(pd, od), QuatMul(pq, oq)) /\ SameQ(DqMul(od, pd), QuatMul(oq, pq)) /\ SameQ(DqConj(pd), QuatConj(pq))
       /\ SameQ(DqToMat3(pd), QuatToMat3(pq).e) /\ SameQ(DqToMat3(od), QuatToMat3(oq).e)
       /\ SameQ(Dm3Mul(DqToMat3(pd), DqToMat3(od)), MMul(QuatToMat3(pq), QuatToMat3(oq)).e)
       /\ SameQ(Dm3T(DqToMat3(pd)), MTranspose(QuatToMat3(pq)).e)
       /\ SameQ(Dm3Vec(DqToMat3(pd), vd), MVec(QuatToMat3(pq), vq))
       /\ SameQ(DqSandwich(pd, vd), QuatRotateC(pq, vq))
       /\ SameQ(DqRotate(od, vd), QuatRotateC(oq, vq))                                   \* unit quaternion: rotation through the matrix
       /\ SameQ(DvCross(DQVec(pd), vd), VCross(QVec(pq), vq)) /\ QEq(QFromD(DvDot(DQVec(pd), vd)), VDot(QVec(pq), vq))
       /\ QEq(QFromD(DqNorm2(pd)), QuatNorm2(pq)) /\ QEq(QFromD(DvSum1(pd)), Sum1(pq))
       /\ QEq(QFromD(DPitchX(pd)), PitchX(pq)) /\ QEq(QFromD(DPitchY(pd)), PitchY(pq)) /\ QEq(QFromD(DRollX(pd)), RollX(pq))
       /\ QEq(QFromD(DRollY(pd)), RollY(pq)) /\ QEq(QFromD(DYawSin(pd)), YawSin(pq)) /\ QEq(QFromD(DCosYaw2(pd)), CosYaw2(pq))
       /\ SameQ(DDqDual(od, vd), DQMake(oq, vq)[2]) /\ SameQ(DDqTrans(od, DDqDual(od, vd)), DQTrans(oq, DQMake(oq, vq)[2]))
InvTwinsEuler == InEuler =>
    LET td == << AngleD[tri[1]], AngleD[tri[2]], AngleD[tri[3]] >> p == TriP den == QFromD(DenProd(td)) IN
       /\ \A nm \in EulerNames3 : SameQ(DEulerMats(nm, td), MScale(EulerMat(nm, p), den).e)
       /\ \A nm \in EulerNames2 : LET t2 == << td[1], td[2] >> IN SameQ(DEulerMats(nm, t2), MScale(EulerMat(nm, << p[1], p[2] >>), QFromD(DenProd(t2))).e)
       /\ \A ax \in {"X", "Y", "Z"} : /\ SameQ(DAxisRots(ax, td[1]), MScale(AxisRot(ax, p[1]), QFromD(td[1][3])).e)
                                       /\ SameQ(DDAxisRots(ax, td[2], DI(-3)), MScale(DAxisRot(ax, p[2], QI(-3)), QFromD(td[2][3])).e)
       /\ SameQ(DEulerQuats(td[1], td[2], td[3]), VScale(EulerQuat(p[1], p[2], p[3]), den))
       /\ \A u \in {<<1, 2, 2, 3>>, <<0, 0, 1, 1>>, <<-1, 4, -8, 9>>} : LET ad == << DI(u[1]), DI(u[2]), DI(u[3]) >> L == DI(u[4]) IN
              /\ SameQ(DRotAxiss(td[1], ad, L), MScale(RotAxis3(p[1][1], p[1][2], UQ(u)), QFromD(DMul(td[1][3], DSq(L)))).e)
              /\ SameQ(DAngleAxiss(td[2], ad, L), VScale(AngleAxisQ(p[2], UQ(u)), QFromD(DMul(td[2][3], L))))

\* ---------------------------------------------------------------- non-vacuity
ASSUME AnglesOK
\* the fast decoder of GlmQuat agrees with the IEEE module (normal, subnormal, zero, negative, extreme exponents, both formats)
DecodeSamples == { <<0, 0>>, <<1, 0>>, <<65535, 127>>, <<0, 128>>, <<0, 16256>>, <<1, 16256>>, <<52429, 48716>>, <<65535, 32639>>, <<21845, 21845>>, <<0, 32768>>, <<4660, 51234>>,
                   <<0, 0, 0, 0>>, <<1, 0, 0, 0>>, <<65535, 65535, 65535, 15>>, <<0, 0, 0, 16>>, <<0, 0, 0, 16368>>, <<1, 0, 0, 16368>>, <<39322, 39321, 39321, 49081>>,
                   <<65535, 65535, 65535, 32751>>, <<21845, 21845, 21845, 21845>>, <<0, 0, 0, 32768>>, <<4369, 4369, 4369, 16321>>, <<32768, 32767, 32769, 49150>> }
ASSUME \A w \in DecodeSamples : DEq(DOfW(w), ValW(FmtOfW(w), w)) /\ FinWF(w) = FinW(w)
ASSUME ~FinWF(<<0, 32640>>) /\ ~FinWF(<<0, 65472>>) /\ ~FinWF(<<0, 0, 0, 32752>>) /\ ~FinWF(<<1, 0, 0, 65520>>)
ASSUME \A k \in {1, 5, 16, 37} : WithinQ(QF(k, 7), QF(k + 1, 7), QF(1, 7)) /\ ~WithinQ(QF(k, 7), QF(k + 1, 7), QF(1, 8)) /\ WithinQ(QF(-k, 8), QF(k, 8), QF(k, 4)) /\ ~WithinQ(QF(-k, 8), QF(k, 8), QF(2 * k - 1, 8))
ASSUME Cardinality(Enumerated) >= 400 /\ <<1, 1, 1, 1, 2>> \in Enumerated /\ <<0, 3, -4, 0, 5>> \in Enumerated /\ <<-2, 1, -2, 4, 5>> \in Enumerated
ASSUME \A b \in 1..4 : \E t \in Enumerated : BiggestIndex(QuatToMat3(TupleQ(t))) = b /\ t[5] = 5
ASSUME \E t \in Enumerated : \E u \in UnitVs : t[2] # 0 /\ t[1] # 0 /\ QIsZero(VDot(QVec(TupleQ(t)), UQ(u)))
=============================================================================
