SPECIFICATION Spec
INVARIANTS InvEase InvSpline InvSelect InvBounce InvInt InvEncl
CHECK_DEADLOCK FALSE
