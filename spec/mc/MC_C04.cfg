CONSTANTS N = 5
SPECIFICATION Spec
INVARIANTS InvUnit InvInverse InvRotation InvMatHom InvRotate InvCast InvBetween InvDual InvAngleAxis InvEuler3 InvEuler2 InvEuler1 InvEulerQuat
CHECK_DEADLOCK FALSE
