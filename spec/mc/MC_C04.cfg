CONSTANTS N = 5
SPECIFICATION Spec
INVARIANTS InvMatHom InvProbe InvDual InvAngleAxis InvEuler3 InvEuler2 InvEuler1 InvEulerQuat InvTwinsQuat InvTwinsEuler
CHECK_DEADLOCK FALSE
