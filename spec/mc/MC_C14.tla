------------------------------ MODULE MC_C14 ------------------------------
(* Walk state machine over a small floating-point format (mini (4,3): 256 patterns; binary16 in
   the thorough tier).  State: start pattern x0, current pattern cur, net number of steps.
   Actions Next, Prev, NextN(n), PrevN(n).  Invariants: position bookkeeping, Next really is the
   least value above (checked against exact values, not against the encoding), distance and ULP
   equality laws. *)
EXTENDS GlmUlp, TLC
CONSTANTS FMT, MaxDepth, MaxN
VARIABLES x0, cur, net, depth
vars == <<x0, cur, net, depth>>
FmtMini == FMini
FmtHalf == F16

AllPat == 0..(2^FBits(FMT) - 1)
P(n) == Fields(FMT, <<n>>)
Finite == {n \in AllPat : IsFinite(FMT, P(n))}

Init == x0 \in Finite /\ cur = x0 /\ net = 0 /\ depth = 0
CanStep(k) == InRangePos(FMT, StepPos(FMT, P(cur), k)) /\ IsFinite(FMT, AtPos(FMT, StepPos(FMT, P(cur), k)))
Step(k) == /\ depth < MaxDepth /\ CanStep(k)
           /\ cur' = NToNat(NFromLimbs16(Pattern(FMT, AtPos(FMT, StepPos(FMT, P(cur), k)))))
           /\ net' = net + k /\ depth' = depth + 1 /\ UNCHANGED x0
Next == \E k \in (1..MaxN) \cup {-j : j \in 1..MaxN} : Step(k)
Spec == Init /\ [][Next]_vars

InvPosition == ZEq(OrdC(FMT, P(cur)), ZAdd(OrdC(FMT, P(x0)), ZFromInt(net)))
InvDistance == ZEq(Distance(FMT, P(x0), P(cur)), ZFromInt(IF net < 0 THEN -net ELSE net))
InvEqualUlps == \A n \in 0..(MaxN * MaxDepth) : EqualUlps(FMT, P(x0), P(cur), n) = ((IF net < 0 THEN -net ELSE net) <= n)
\* definition-level: the successor is the least value strictly above, the predecessor the greatest strictly below
InvNextIsLeast ==
    depth = 0 =>
      LET x == P(x0) v == Val(FMT, x) nx == NextOf(FMT, x) pv == PrevOf(FMT, x) IN
      /\ (IsFinite(FMT, nx) => DLt(v, Val(FMT, nx)) /\ \A y \in Finite : DLt(v, Val(FMT, P(y))) => DLe(Val(FMT, nx), Val(FMT, P(y))))
      /\ (IsInf(FMT, nx) => \A y \in Finite : DLe(Val(FMT, P(y)), v))
      /\ (IsFinite(FMT, pv) => DLt(Val(FMT, pv), v) /\ \A y \in Finite : DLt(Val(FMT, P(y)), v) => DLe(Val(FMT, P(y)), Val(FMT, pv)))
      /\ SamePoint(FMT, PrevOf(FMT, nx), x) /\ SamePoint(FMT, NextOf(FMT, pv), x)
=============================================================================
