CONSTANTS MaxLen = 12 MaxDepth = 3 Rich = TRUE Sim = TRUE
SPECIFICATION Spec
INVARIANTS InvType Emit
PROPERTIES ExitLawP
CHECK_DEADLOCK FALSE
