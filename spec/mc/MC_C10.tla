------------------------------ MODULE MC_C10 ------------------------------
(***************************************************************************)
(* Bounded model for the inverse / determinant laws (C10).                 *)
(* A genuine state machine: the state is an n x n integer matrix           *)
(* (n = 2, 3, 4; entries column-major in the tuple e), the depth d of the  *)
(* walk and the determinant s predicted by the walk.                       *)
(*   Init    permutation matrices (all n! of them) and their variants with *)
(*           one row negated (for n >= NegLimit: the negated variants of   *)
(*           the identity only)                                            *)
(*   Next    elementary row operations: add k * row j to row i (|k| <= 2), *)
(*           swap two rows, negate a row -- while d < Depth[n] and the     *)
(*           entries stay within MaxEntry                                  *)
(* so every reachable matrix is unimodular, and the walk predicts the sign *)
(* of the determinant (row additions keep it, swaps and negations flip it).*)
(* Invariants = the laws of the property text on the definitions of        *)
(* GlmLinAlg.tla (exact arithmetic):                                       *)
(*   InvDet      det = the sign predicted by the walk (so det = +-1 along  *)
(*               every walk); Leibniz sum = Laplace expansion;             *)
(*               det(M^T) = det(M); det(M B) = det(B M) = det M det B for  *)
(*               a few fixed B (regular, singular, permutation)            *)
(*   InvAdj      M adj(M) = adj(M) M = det(M) I ; permanent scale >= |det| *)
(*   InvInverse  inverse(M) has integer entries; inv M = M inv = I;        *)
(*               inverseTranspose = transpose(inverse) = inverse(transpose)*)
(*               cond(M) >= 1                                              *)
(*   InvDiv      (B M) / M = B, M / (M v) = v, (v M) / M = v               *)
(*   InvAffine   for n <= 3: the affine embedding [M t; 0 1] is affine,    *)
(*               its block-formula affineInverse equals its inverse and is *)
(*               affine again; affineInverse(affineInverse(A)) = A         *)
(*   InvQuery    isIdentity holds exactly in the identity state,           *)
(*               isOrthogonal / isNormalized exactly in the signed         *)
(*               permutation states, isNull never; a unimodular matrix is  *)
(*               its own QR-free "R = Q^T M" witness: flips are involutions*)
(* With OUT set the run also writes every visited matrix (one ndjson line  *)
(* per state) -- the harness evaluates every GLM function on each of them. *)
(***************************************************************************)
EXTENDS GlmLinAlg, TLC, Json, IOUtils
CONSTANTS Depth2, Depth3, Depth4, MaxEntry, X2, X3, X4, NegLimit
VARIABLES n, e, d, s
vars == <<n, e, d, s>>

Depth(k) == IF k = 2 THEN Depth2 ELSE IF k = 3 THEN Depth3 ELSE Depth4
Col(i, k) == ((i - 1) \div k) + 1
Row(i, k) == ((i - 1) % k) + 1
Idx(c, r, k) == (c - 1) * k + r
PermMat(k, p, neg) == [i \in 1..(k * k) |-> IF p[Col(i, k)] = Row(i, k) THEN (IF Row(i, k) = neg THEN -1 ELSE 1) ELSE 0]
IdPerm(k) == [i \in 1..k |-> i]

Init == \E k \in {2, 3, 4} : \E p \in LAPerms(k) : \E neg \in 0..k :
          /\ (k >= NegLimit /\ neg # 0) => p = IdPerm(k)
          /\ n = k /\ e = PermMat(k, p, neg) /\ d = 0
          /\ s = LAPermSign(p, k) * (IF neg = 0 THEN 1 ELSE -1)

Within(t) == \A i \in 1..Len(t) : t[i] <= MaxEntry /\ -t[i] <= MaxEntry
RowAdd(i, j, k) == LET t == [x \in 1..(n * n) |-> IF Row(x, n) = i THEN e[x] + k * e[Idx(Col(x, n), j, n)] ELSE e[x]]
                   IN Within(t) /\ e' = t /\ s' = s
RowSwap(i, j) == /\ e' = [x \in 1..(n * n) |-> IF Row(x, n) = i THEN e[Idx(Col(x, n), j, n)]
                                             ELSE IF Row(x, n) = j THEN e[Idx(Col(x, n), i, n)] ELSE e[x]]
                 /\ s' = -s
RowNeg(i) == e' = [x \in 1..(n * n) |-> IF Row(x, n) = i THEN -e[x] ELSE e[x]] /\ s' = -s
Next == /\ d < Depth(n) /\ d' = d + 1 /\ n' = n
        /\ \/ \E i, j \in 1..n : \E k \in {-2, -1, 1, 2} : i # j /\ RowAdd(i, j, k)
           \/ \E i, j \in 1..n : i < j /\ RowSwap(i, j)
           \/ \E i \in 1..n : RowNeg(i)
Spec == Init /\ [][Next]_vars

----------------------------------------------------------------------------
\* fixed partners: regular non-unimodular, singular (rank 1), a negated cyclic permutation, an upper triangular one
IBReg(k) == [i \in 1..(k * k) |-> LET c == Col(i, k) r == Row(i, k) IN IF c = r THEN c + 1 ELSE IF c > r THEN 1 ELSE IF c + 1 = r THEN -1 ELSE 0]
IBSing(k) == [i \in 1..(k * k) |-> (Col(i, k) + 1) * Row(i, k)]
IBPerm(k) == [i \in 1..(k * k) |-> IF (Col(i, k) % k) + 1 = Row(i, k) THEN -1 ELSE 0]
IBUp(k) == [i \in 1..(k * k) |-> IF Col(i, k) >= Row(i, k) THEN Col(i, k) + Row(i, k) ELSE 0]
IBs(k) == {IBReg(k), IBSing(k), IBPerm(k)}
IV1(k) == [i \in 1..k |-> 2 * i - 3]
ITr(k) == [i \in 1..k |-> 3 - i * i]
BReg(k) == LIToQ(IBReg(k), k)
BSing(k) == LIToQ(IBSing(k), k)
BPerm(k) == LIToQ(IBPerm(k), k)
BUp(k) == LIToQ(IBUp(k), k)
Bs(k) == {BReg(k), BSing(k), BPerm(k)}
V1(k) == LIVToQ(IV1(k))
Tr(k) == LIVToQ(ITr(k))
\* a named law: prints its name when it fails (TLC then reports the invariant as violated)
Law(name, cond) == cond \/ (PrintT(<<"LAW VIOLATED", name>>) /\ FALSE)

\* ---- the laws on the native-integer layer, in EVERY reachable state
\* (the quantifiers over singleton sets bind det / adj / inverse ... to values computed once, see GlmLinAlg)
LawsInt ==
    \A det \in {LIDet(e, n)} : \A adj \in {LIAdj(e, n)} : \A inv \in {LIInverseUni(e, n)} : \A et \in {LITranspose(e, n)} :
    \A id \in {LIIdentity(n)} : \A v \in {IV1(n)} : \A br \in {IBReg(n)} :
    /\ Law("I: det = sign predicted by the walk, +-1", det = s /\ s \in {-1, 1})
    /\ Law("I: det transpose", LIDet(et, n) = det)
    /\ Law("I: det multiplicative", \A B \in IBs(n) : \A db \in {LIDet(B, n)} : /\ LIDet(LIMul(e, B, n), n) = det * db
                                                                              /\ LIDet(LIMul(B, e, n), n) = det * db)
    /\ Law("I: M adj = adj M = det I", LIMul(e, adj, n) = LIScale(id, det) /\ LIMul(adj, e, n) = LIScale(id, det))
    /\ Law("I: inv M = M inv = I", LIMul(inv, e, n) = id /\ LIMul(e, inv, n) = id /\ LIDet(inv, n) = det)
    /\ Law("I: inverseTranspose", LITranspose(inv, n) = LIInverseUni(et, n))
    /\ Law("I: (B M) / M = B", \A B \in IBs(n) : LIMul(LIMul(B, e, n), inv, n) = B)
    /\ Law("I: M / (M v) = v, (v M) / M = v", LIMulVec(inv, LIMulVec(e, v, n), n) = v /\ LIVecMul(LIVecMul(v, e, n), inv, n) = v)
    /\ Law("I: v (A B) = (v A) B", LIVecMul(v, LIMul(e, br, n), n) = LIVecMul(LIVecMul(v, e, n), br, n) /\
                                   LIMulVec(LIMul(e, br, n), v, n) = LIMulVec(e, LIMulVec(br, v, n), n))
    /\ Law("I: affine embedding and affineInverse",
           \A A \in {LIAffineFrom(e, ITr(n), n)} : \A AI \in {LIAffineInverseUni(A, n + 1)} :
           /\ LIIsAffine(A, n + 1) /\ LIIsAffine(AI, n + 1) /\ LILinearPart(A, n + 1) = e /\ LITranslation(A, n + 1) = ITr(n)
           /\ LIMul(AI, A, n + 1) = LIIdentity(n + 1) /\ LIMul(A, AI, n + 1) = LIIdentity(n + 1)
           /\ LIAffineInverseUni(AI, n + 1) = A
           /\ (n <= 3 => LIDet(A, n + 1) = det /\ AI = LIInverseUni(A, n + 1)))

\* ---- the laws on the rational layer (LinQ) and the agreement of both layers, in the states of depth < XDepth
LawsQ ==
    \A M \in {LIToQ(e, n)} : \A IdM \in {LAForce(MIdentity(n))} : \A v \in {V1(n)} : \A br \in {BReg(n)} :
    \A Mt \in {LATranspose(M)} : \A Det \in {MDet(M)} : \A Adj \in {LAAdjugate(M)} : \A Inv \in {LAInverse(M)} : \A InvT \in {LAInverseTranspose(M)} :
    \* ---- both layers agree
    /\ Law("Q = I: det, adj, inverse", /\ QEq(Det, QI(LIDet(e, n))) /\ LAMatEq(Adj, LIToQ(LIAdj(e, n), n)) /\ LAMatEq(Inv, LIToQ(LIInverseUni(e, n), n))
                                       /\ LAMatEq(LAMul(M, br), LIToQ(LIMul(e, IBReg(n), n), n))
                                       /\ LAVecEq(LAMulVec(M, v), LIVToQ(LIMulVec(e, IV1(n), n))) /\ LAVecEq(LAVecMul(v, M), LIVToQ(LIVecMul(IV1(n), e, n)))
                                       /\ LAMatEq(Mt, LIToQ(LITranspose(e, n), n))
                                       /\ LAMatEq(Inv, MInv(M)) /\ LAMatEq(Adj, MAdj(M)))
    \* ---- InvDet
    /\ Law("det = sign predicted by the walk, +-1", QEq(Det, QI(s)) /\ s \in {-1, 1})
    /\ Law("Leibniz = Laplace", QEq(LALeibniz(M), Det))
    /\ Law("det transpose", QEq(MDet(Mt), Det))
    /\ Law("det multiplicative", /\ QEq(LADet(LAMul(M, br)), QMul(Det, MDet(br)))
                                  /\ QEq(LADet(LAMul(br, M)), QMul(Det, MDet(br)))
                                  /\ QIsZero(LADet(LAMul(BSing(n), M)))
                                  /\ QEq(LADet(LAMul(M, BPerm(n))), QMul(Det, LADet(BPerm(n)))))
    \* ---- InvAdj
    /\ Law("M adj = det I", LAMatEq(LAMul(M, Adj), LAScale(IdM, Det)) /\ LAMatEq(LAMul(Adj, M), LAScale(IdM, Det)))
    /\ Law("|det| <= permanent of |M|", QLe(QAbs(Det), LAPerm(LAAbs(M))))
    \* ---- InvInverse
    /\ Law("unimodular, integer inverse", LAIsIntM(M) /\ LAIsIntM(Inv) /\ QEq(MDet(Inv), Det) /\ LAIsUnimodular(M))
    /\ Law("inv M = M inv = I", LAMatEq(LAMul(Inv, M), IdM) /\ LAMatEq(LAMul(M, Inv), IdM))
    /\ Law("inverseTranspose", LAMatEq(InvT, LAInverse(Mt)) /\ LAMatEq(LAMul(LATranspose(InvT), M), IdM))
    /\ Law("cond >= 1", QLe(QOne, LACond(M, Inv)))
    /\ Law("dyadic scaling rule", \A Ms \in {LAMatMul2k(M, -3)} : LASeqExp(Ms.e) = 3 /\ LAMatEq(LAMatUp(Ms, 3), M)
                                                                /\ LAMatEq(LAMatMul2k(LAInverse(Ms), -3), Inv))
    \* ---- InvDiv
    /\ Law("(B M) / M = B", \A B \in Bs(n) : LAMatEq(LADivMM(LAMul(B, M), M), B))
    /\ Law("M / (M v) = v", LAVecEq(LADivMV(M, LAMulVec(M, v)), v))
    /\ Law("(v M) / M = v", LAVecEq(LADivVM(LAVecMul(v, M), M), v))
    /\ Law("scaled product", LAMatEq(LAMMulD(LAMatMul2k(M, -2), LAMatMul2k(br, -5)), LAMatMul2k(LAMul(M, br), -7)))
    \* ---- InvAffine
    /\ (n <= 3 =>
          \A t \in {Tr(n)} : \A A \in {LAAffineFrom(M, t)} : \A AI \in {LAAffineInverse(A)} :
          /\ Law("affine embedding", LAIsAffine(A) /\ LAIsAffine(AI) /\ LAMatEq(LALinearPart(A), M) /\ LAVecEq(LATranslation(A), t)
                                     /\ LAMatEq(A, LIToQ(LIAffineFrom(e, ITr(n), n), n + 1)))
          /\ Law("affineInverse = inverse", /\ LAMatEq(AI, LAAffineInverseWith(Inv, t))
                                            /\ LAMatEq(AI, LIToQ(LIAffineInverseUni(LIAffineFrom(e, ITr(n), n), n + 1), n + 1))
                                            /\ LAMatEq(AI, LAInverse(A)))
          /\ Law("affineInverse involution", LAMatEq(LAAffineInverse(AI), A))
          /\ Law("det affine", QEq(LADet(A), Det)))
    \* ---- InvQuery
    /\ \A eps \in {QF(1, 10)} : \A rel \in {QF(1, 1000)} : \A sp \in {LAIsSignedPerm(M)} :
       /\ Law("isIdentity", (LAIsIdentityM(M, eps, rel) = "T") = (e = PermMat(n, IdPerm(n), 0)) /\ LAIsIdentityM(M, eps, rel) # "U")
       /\ Law("isOrthogonal", (LAIsOrthogonalM(M, eps, rel) = "T") = sp)
       /\ Law("isNormalized", (LAIsNormalizedM(M, eps, rel) = "T") = sp)
       /\ Law("isNull", LAIsNullM(M, eps, rel) = "F")
       /\ Law("init signed permutation", d = 0 => sp)
       /\ Law("flips", /\ LAMatEq(LAFlipLR(LAFlipLR(M)), M) /\ LAMatEq(LAFlipUD(LAFlipUD(M)), M)
                       /\ LAMatEq(LAFlipUD(M), LATranspose(LAFlipLR(Mt))))
XDepth(k) == IF k = 2 THEN X2 ELSE IF k = 3 THEN X3 ELSE X4
Laws == LawsInt /\ (d < XDepth(n) => LawsQ)

\* E2: every visited matrix, for the harness
Emit == IF "OUT" \in DOMAIN IOEnv
        THEN Serialize(ToJson([n |-> n, e |-> e]) \o "\n", IOEnv.OUT,
                       [format |-> "TXT", charset |-> "UTF-8", openOptions |-> <<"WRITE", "CREATE", "APPEND">>]).exitValue = 0
        ELSE TRUE

\* non-vacuity of the definitions themselves (fixed witnesses)
ASSUME QEq(MDet(Mat(2, 2, <<QI(1), QI(3), QI(2), QI(4)>>)), QI(-2))
ASSUME QEq(LALeibniz(Mat(3, 3, <<QI(2), QI(0), QI(1), QI(1), QI(3), QI(0), QI(0), QI(1), QI(4)>>)), QI(25))
ASSUME ~MEq(MAdj(Mat(2, 2, <<QI(1), QI(3), QI(2), QI(4)>>)), MTranspose(MAdj(Mat(2, 2, <<QI(1), QI(3), QI(2), QI(4)>>))))
ASSUME \A k \in 2..4 : /\ \A B \in Bs(k) \cup {BUp(k)} : QEq(LALeibniz(B), MDet(B))
                       /\ LAMatEq(LAAdjugate(BReg(k)), LAScale(LAInverse(BReg(k)), MDet(BReg(k))))
                       /\ QIsZero(MDet(BSing(k))) /\ ~QIsZero(MDet(BReg(k)))
                       /\ LAIsUpperTri(BUp(k)) /\ LAIsUpperTriLR(BUp(k)) /\ ~LAIsUpperTri(MTranspose(BUp(k))) /\ ~LAIsUpperTri(BReg(k))
                       /\ QEq(MDet(LADiagonal(k, k, V1(k))), LAProd(V1(k)))
                       /\ LAIsNullM(MSub(BReg(k), BReg(k)), QF(1, 10), QF(1, 1000)) = "T"
                       /\ ~LAIsAffine(BReg(k)) /\ ~LAIsAffine(MTranspose(LAAffineFrom(BReg(k), V1(k))))
\* the small-integer decoder of bit patterns agrees with the IEEE module (float and double)
ASSUME \A k \in -70..70 : \A f \in {F32, F64} :
          /\ LISmallIntW(Pattern(f, RoundQ(f, QI(k * 29), 0))) = k * 29
          /\ LISmallIntW(Pattern(f, RoundQ(f, QI(k), 0))) = k
          /\ (k % 2 # 0 => LISmallIntW(Pattern(f, RoundQ(f, QF(k, 2), 0))) = LINotInt)
          /\ (k # 0 => LISmallIntW(Pattern(f, RoundQ(f, QI(k * 2048), 0))) = LINotInt)
\* the fast decoder agrees with LinQ!QW / the IEEE module
ASSUME \A f \in {F32, F64} : \A k \in -40..40 : \A dd \in {1, 2, 3, 7, 1024, 65536, 33554432} :
          LET w == Pattern(f, RoundQ(f, QF(k * 37 + 1, dd), 0)) IN QEq(LAQOfW(w), QW(w)) /\ LAFinW(w)
ASSUME \A w \in {<<0, 0>>, <<0, 32768>>, <<1, 0>>, <<65535, 127>>, <<0, 128>>, <<1, 128>>, <<65535, 32639>>, <<12345, 255>>, <<0, 19200>>,
                 <<0, 0, 0, 0>>, <<0, 0, 0, 32768>>, <<1, 0, 0, 0>>, <<65535, 65535, 65535, 15>>, <<0, 0, 0, 16>>, <<1, 0, 0, 16>>,
                 <<65535, 65535, 65535, 32751>>, <<0, 32768, 0, 16368>>, <<0, 0, 4096, 17000>>, <<4660, 22136, 39612, 49083>>} :
          QEq(LAQOfW(w), QW(w)) /\ LAFinW(w)
ASSUME ~LAFinW(<<0, 32640>>) /\ ~LAFinW(<<1, 65408>>) /\ ~LAFinW(<<0, 0, 0, 32752>>) /\ ~LAFinW(<<1, 0, 0, 65520>>)
ASSUME LISmallIntW(<<0, 32768>>) = 0 /\ LISmallIntW(<<0, 32640>>) = LINotInt /\ LISmallIntW(<<1, 0>>) = LINotInt /\ LISmallIntW(<<1, 0, 0, 16368>>) = LINotInt
ASSUME \A k \in 1..4 : /\ {LAPermTable[k][i] : i \in 1..Len(LAPermTable[k])} = LAPerms(k) /\ Len(LAPermTable[k]) = Cardinality(LAPerms(k))
                       /\ \A i \in 1..Len(LAPermTable[k]) : LASignTable[k][i] = LAPermSign(LAPermTable[k][i], k)
ASSUME \A k \in 1..5 : \A j \in 1..k : LASkip[k][j] = SetToSortSeq((1..k) \ {j}, <) /\ LAIota[k] = [i \in 1..k |-> i]
ASSUME Cardinality(LAPerms(4)) = 24 /\ LAPermSign(<<2, 1, 3, 4>>, 4) = -1 /\ LAPermSign(<<2, 3, 1>>, 3) = 1
=============================================================================
