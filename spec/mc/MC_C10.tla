------------------------------ MODULE MC_C10 ------------------------------
(***************************************************************************)
(* Bounded model for the inverse / determinant laws (C10).                 *)
(* A genuine state machine: the state is an n x n integer matrix           *)
(* (n = 2, 3, 4; entries column-major in the tuple e), the depth d of the  *)
(* walk and the determinant s predicted by the walk.                       *)
(*   Init    permutation matrices (all n! of them) and their variants with *)
(*           one row negated (for n = 4: the negated variants of the       *)
(*           identity only)                                                *)
(*   Next    elementary row operations: add k * row j to row i (|k| <= 2), *)
(*           swap two rows, negate a row -- while d < Depth[n] and the     *)
(*           entries stay within MaxEntry                                  *)
(* so every reachable matrix is unimodular, and the walk predicts the sign *)
(* of the determinant (row additions keep it, swaps and negations flip it).*)
(* Invariants = the laws of the property text on the definitions of        *)
(* GlmLinAlg.tla (exact arithmetic):                                       *)
(*   InvDet      det = the sign predicted by the walk (so det = +-1 along  *)
(*               every walk); Leibniz sum = Laplace expansion;             *)
(*               det(M^T) = det(M); det(M B) = det(B M) = det M det B for  *)
(*               a few fixed B (regular, singular, permutation)            *)
(*   InvAdj      M adj(M) = adj(M) M = det(M) I ; permanent scale >= |det| *)
(*   InvInverse  inverse(M) has integer entries; inv M = M inv = I;        *)
(*               inverseTranspose = transpose(inverse) = inverse(transpose)*)
(*               cond(M) >= 1                                              *)
(*   InvDiv      (B M) / M = B, M / (M v) = v, (v M) / M = v               *)
(*   InvAffine   for n <= 3: the affine embedding [M t; 0 1] is affine,    *)
(*               its block-formula affineInverse equals its inverse and is *)
(*               affine again; affineInverse(affineInverse(A)) = A         *)
(*   InvQuery    isIdentity holds exactly in the identity state,           *)
(*               isOrthogonal / isNormalized exactly in the signed         *)
(*               permutation states, isNull never; a unimodular matrix is  *)
(*               its own QR-free "R = Q^T M" witness: flips are involutions*)
(* With OUT set the run also writes every visited matrix (one ndjson line  *)
(* per state) -- the harness evaluates every GLM function on each of them. *)
(***************************************************************************)
EXTENDS GlmLinAlg, TLC, Json, IOUtils
CONSTANTS Depth2, Depth3, Depth4, MaxEntry, X2, X3, X4
VARIABLES n, e, d, s
vars == <<n, e, d, s>>

Depth(k) == IF k = 2 THEN Depth2 ELSE IF k = 3 THEN Depth3 ELSE Depth4
Col(i, k) == ((i - 1) \div k) + 1
Row(i, k) == ((i - 1) % k) + 1
Idx(c, r, k) == (c - 1) * k + r
PermMat(k, p, neg) == [i \in 1..(k * k) |-> IF p[Col(i, k)] = Row(i, k) THEN (IF Row(i, k) = neg THEN -1 ELSE 1) ELSE 0]
IdPerm(k) == [i \in 1..k |-> i]

Init == \E k \in {2, 3, 4} : \E p \in LAPerms(k) : \E neg \in 0..k :
          /\ (k >= 3 /\ neg # 0) => p = IdPerm(k)
          /\ n = k /\ e = PermMat(k, p, neg) /\ d = 0
          /\ s = LAPermSign(p, k) * (IF neg = 0 THEN 1 ELSE -1)

Within(t) == \A i \in 1..Len(t) : t[i] <= MaxEntry /\ -t[i] <= MaxEntry
RowAdd(i, j, k) == LET t == [x \in 1..(n * n) |-> IF Row(x, n) = i THEN e[x] + k * e[Idx(Col(x, n), j, n)] ELSE e[x]]
                   IN Within(t) /\ e' = t /\ s' = s
RowSwap(i, j) == /\ e' = [x \in 1..(n * n) |-> IF Row(x, n) = i THEN e[Idx(Col(x, n), j, n)]
                                             ELSE IF Row(x, n) = j THEN e[Idx(Col(x, n), i, n)] ELSE e[x]]
                 /\ s' = -s
RowNeg(i) == e' = [x \in 1..(n * n) |-> IF Row(x, n) = i THEN -e[x] ELSE e[x]] /\ s' = -s
Next == /\ d < Depth(n) /\ d' = d + 1 /\ n' = n
        /\ \/ \E i, j \in 1..n : \E k \in {-2, -1, 1, 2} : i # j /\ RowAdd(i, j, k)
           \/ \E i, j \in 1..n : i < j /\ RowSwap(i, j)
           \/ \E i \in 1..n : RowNeg(i)
Spec == Init /\ [][Next]_vars

----------------------------------------------------------------------------
\* fixed partners: regular non-unimodular, singular (rank 1), a negated cyclic permutation, an upper triangular one
IBReg(k) == [i \in 1..(k * k) |-> LET c == Col(i, k) r == Row(i, k) IN IF c = r THEN c + 1 ELSE IF c > r THEN 1 ELSE IF c + 1 = r THEN -1 ELSE 0]
IBSing(k) == [i \in 1..(k * k) |-> (Col(i, k) + 1) * Row(i, k)]
IBPerm(k) == [i \in 1..(k * k) |-> IF (Col(i, k) % k) + 1 = Row(i, k) THEN -1 ELSE 0]
IBUp(k) == [i \in 1..(k * k) |-> IF Col(i, k) >= Row(i, k) THEN Col(i, k) + Row(i, k) ELSE 0]
IBs(k) == {IBReg(k), IBSing(k), IBPerm(k)}
IV1(k) == [i \in 1..k |-> 2 * i - 3]
ITr(k) == [i \in 1..k |-> 3 - i * i]
BReg(k) == LIToQ(IBReg(k), k)
BSing(k) == LIToQ(IBSing(k), k)
BPerm(k) == LIToQ(IBPerm(k), k)
BUp(k) == LIToQ(IBUp(k), k)
Bs(k) == {BReg(k), BSing(k), BPerm(k)}
V1(k) == LIVToQ(IV1(k))
Tr(k) == LIVToQ(ITr(k))
IsIntM(m) == \A i \in 1..Len(m.e) : LAQIsInt(m.e[i])
VEq(a, b) == Len(a) = Len(b) /\ \A i \in 1..Len(a) : QEq(a[i], b[i])
\* a named law: prints its name when it fails (TLC then reports the invariant as violated)
Law(name, cond) == cond \/ (PrintT(<<"LAW VIOLATED", name>>) /\ FALSE)

\* ---- the laws on the native-integer layer, in EVERY reachable state
LawsInt ==
    LET det == LIDet(e, n)
        adj == LIAdj(e, n)
        inv == LIInverseUni(e, n)
        id == LIIdentity(n)
        et == LITranspose(e, n)
        v == IV1(n)
    IN
    /\ Law("I: det = sign predicted by the walk, +-1", det = s /\ s \in {-1, 1})
    /\ Law("I: det transpose", LIDet(et, n) = det)
    /\ Law("I: det multiplicative", \A B \in IBs(n) : /\ LIDet(LIMul(e, B, n), n) = det * LIDet(B, n)
                                                     /\ LIDet(LIMul(B, e, n), n) = det * LIDet(B, n))
    /\ Law("I: M adj = adj M = det I", LIMul(e, adj, n) = LIScale(id, det) /\ LIMul(adj, e, n) = LIScale(id, det))
    /\ Law("I: inv M = M inv = I", LIMul(inv, e, n) = id /\ LIMul(e, inv, n) = id /\ LIDet(inv, n) = det)
    /\ Law("I: inverseTranspose", LITranspose(inv, n) = LIInverseUni(et, n))
    /\ Law("I: (B M) / M = B", \A B \in IBs(n) : LIMul(LIMul(B, e, n), inv, n) = B)
    /\ Law("I: M / (M v) = v, (v M) / M = v", LIMulVec(inv, LIMulVec(e, v, n), n) = v /\ LIVecMul(LIVecMul(v, e, n), inv, n) = v)
    /\ Law("I: v (A B) = (v A) B", LIVecMul(v, LIMul(e, IBReg(n), n), n) = LIVecMul(LIVecMul(v, e, n), IBReg(n), n) /\
                                   LIMulVec(LIMul(e, IBReg(n), n), v, n) = LIMulVec(e, LIMulVec(IBReg(n), v, n), n))
    /\ Law("I: affine embedding and affineInverse",
           LET A == LIAffineFrom(e, ITr(n), n) AI == LIAffineInverseUni(A, n + 1) IN
           /\ LIIsAffine(A, n + 1) /\ LIIsAffine(AI, n + 1) /\ LILinearPart(A, n + 1) = e /\ LITranslation(A, n + 1) = ITr(n)
           /\ LIMul(AI, A, n + 1) = LIIdentity(n + 1) /\ LIMul(A, AI, n + 1) = LIIdentity(n + 1)
           /\ LIAffineInverseUni(AI, n + 1) = A
           /\ (n <= 3 => LIDet(A, n + 1) = det /\ AI = LIInverseUni(A, n + 1)))

\* ---- the laws on the rational layer (LinQ) and the agreement of both layers, in the states of depth <= XDepth
\* All laws are evaluated under one LET so that det / adj / inverse of the state are computed once.
LawsQ ==
    LET M == LIToQ(e, n)
        IdM == MIdentity(n)
        Mt == MTranspose(M)
        Det == MDet(M)
        Adj == MAdj(M)
        Inv == MInv(M)
        InvT == LAInverseTranspose(M)
        v == V1(n)
    IN
    \* ---- both layers agree
    /\ Law("Q = I: det, adj, inverse", /\ QEq(Det, QI(LIDet(e, n))) /\ MEq(Adj, LIToQ(LIAdj(e, n), n)) /\ MEq(Inv, LIToQ(LIInverseUni(e, n), n))
                                       /\ MEq(MMul(M, BReg(n)), LIToQ(LIMul(e, IBReg(n), n), n))
                                       /\ VEq(MVec(M, v), LIVToQ(LIMulVec(e, IV1(n), n))) /\ VEq(VMat(v, M), LIVToQ(LIVecMul(IV1(n), e, n)))
                                       /\ MEq(Mt, LIToQ(LITranspose(e, n), n)))
    \* ---- InvDet
    /\ Law("det = sign predicted by the walk, +-1", QEq(Det, QI(s)) /\ s \in {-1, 1})
    /\ Law("Leibniz = Laplace", QEq(LALeibniz(M), Det))
    /\ Law("det transpose", QEq(MDet(Mt), Det))
    /\ Law("det multiplicative", /\ QEq(MDet(MMul(M, BReg(n))), QMul(Det, MDet(BReg(n))))
                                  /\ QEq(MDet(MMul(BReg(n), M)), QMul(Det, MDet(BReg(n))))
                                  /\ QIsZero(MDet(MMul(BSing(n), M)))
                                  /\ QEq(MDet(MMul(M, BPerm(n))), QMul(Det, MDet(BPerm(n)))))
    \* ---- InvAdj
    /\ Law("M adj = det I", MEq(MMul(M, Adj), MScale(IdM, Det)) /\ MEq(MMul(Adj, M), MScale(IdM, Det)))
    /\ Law("|det| <= permanent of |M|", QLe(QAbs(Det), LAPerm(LAAbs(M))))
    \* ---- InvInverse
    /\ Law("unimodular, integer inverse", IsIntM(M) /\ IsIntM(Inv) /\ QEq(MDet(Inv), Det) /\ (n = 2 => LAIsUnimodular(M)))
    /\ Law("inv M = M inv = I", MEq(MMul(Inv, M), IdM) /\ MEq(MMul(M, Inv), IdM) /\ MEq(Inv, MScale(Adj, QInv(Det))))
    /\ Law("inverseTranspose", MEq(InvT, MInv(Mt)) /\ MEq(MMul(MTranspose(InvT), M), IdM))
    /\ Law("cond >= 1", QLe(QOne, LACond(M, Inv)))
    /\ Law("dyadic scaling rule", LET Ms == LAMatMul2k(M, -3) IN LASeqExp(Ms.e) = 3 /\ MEq(LAMatUp(Ms, 3), M)
                                                                /\ (n = 2 => MEq(LAMatMul2k(MInv(Ms), -3), Inv)))
    \* ---- InvDiv
    /\ Law("(B M) / M = B", /\ MEq(LADivMM(MMul(BReg(n), M), M), BReg(n))
                             /\ \A B \in {BSing(n), BPerm(n)} : MEq(MMul(MMul(B, M), Inv), B))
    /\ Law("M / (M v) = v", VEq(MVec(Inv, MVec(M, v)), v) /\ VEq(LADivMV(M, v), MVec(Inv, v)))
    /\ Law("(v M) / M = v", VEq(VMat(VMat(v, M), Inv), v) /\ VEq(LADivVM(v, M), VMat(v, Inv)))
    /\ Law("scaled product", MEq(LAMMulD(LAMatMul2k(M, -2), LAMatMul2k(BReg(n), -5)), LAMatMul2k(MMul(M, BReg(n)), -7)))
    \* ---- InvAffine
    /\ (n <= 3 =>
          LET t == Tr(n) A == LAAffineFrom(M, t) AI == LAAffineInverse(A) IN
          /\ Law("affine embedding", LAIsAffine(A) /\ LAIsAffine(AI) /\ MEq(LALinearPart(A), M) /\ VEq(LATranslation(A), t)
                                     /\ MEq(A, LIToQ(LIAffineFrom(e, ITr(n), n), n + 1)))
          /\ Law("affineInverse = inverse", /\ MEq(AI, LAAffineInverseWith(Inv, t))
                                            /\ MEq(AI, LIToQ(LIAffineInverseUni(LIAffineFrom(e, ITr(n), n), n + 1), n + 1))
                                            /\ MEq(MMul(AI, A), MIdentity(n + 1)) /\ MEq(MMul(A, AI), MIdentity(n + 1))
                                            /\ (n = 2 => MEq(AI, MInv(A))))
          /\ Law("affineInverse involution", MEq(LAAffineInverseWith(M, LATranslation(AI)), A))
          /\ Law("det affine", QEq(MDet(A), Det)))
    \* ---- InvQuery
    /\ LET eps == QF(1, 10) rel == QF(1, 1000) sp == LAIsSignedPerm(M) IN
       /\ Law("isIdentity", (LAIsIdentityM(M, eps, rel) = "T") = (e = PermMat(n, IdPerm(n), 0)) /\ LAIsIdentityM(M, eps, rel) # "U")
       /\ Law("isOrthogonal", (LAIsOrthogonalM(M, eps, rel) = "T") = sp)
       /\ Law("isNormalized", (LAIsNormalizedM(M, eps, rel) = "T") = sp)
       /\ Law("isNull", LAIsNullM(M, eps, rel) = "F")
       /\ Law("init signed permutation", d = 0 => sp)
       /\ Law("flips", /\ MEq(LAFlipLR(LAFlipLR(M)), M) /\ MEq(LAFlipUD(LAFlipUD(M)), M)
                       /\ MEq(LAFlipUD(M), MTranspose(LAFlipLR(Mt))))
XDepth(k) == IF k = 2 THEN X2 ELSE IF k = 3 THEN X3 ELSE X4
Laws == LawsInt /\ (d <= XDepth(n) => LawsQ)

\* E2: every visited matrix, for the harness
Emit == IF "OUT" \in DOMAIN IOEnv
        THEN Serialize(ToJson([n |-> n, e |-> e]) \o "\n", IOEnv.OUT,
                       [format |-> "TXT", charset |-> "UTF-8", openOptions |-> <<"WRITE", "CREATE", "APPEND">>]).exitValue = 0
        ELSE TRUE

\* non-vacuity of the definitions themselves (fixed witnesses)
ASSUME QEq(MDet(Mat(2, 2, <<QI(1), QI(3), QI(2), QI(4)>>)), QI(-2))
ASSUME QEq(LALeibniz(Mat(3, 3, <<QI(2), QI(0), QI(1), QI(1), QI(3), QI(0), QI(0), QI(1), QI(4)>>)), QI(25))
ASSUME ~MEq(MAdj(Mat(2, 2, <<QI(1), QI(3), QI(2), QI(4)>>)), MTranspose(MAdj(Mat(2, 2, <<QI(1), QI(3), QI(2), QI(4)>>))))
ASSUME \A k \in 2..4 : /\ \A B \in Bs(k) \cup {BUp(k)} : QEq(LALeibniz(B), MDet(B))
                       /\ MEq(LAAdjugate(BReg(k)), MScale(MInv(BReg(k)), MDet(BReg(k))))
                       /\ QIsZero(MDet(BSing(k))) /\ ~QIsZero(MDet(BReg(k)))
                       /\ LAIsUpperTri(BUp(k)) /\ LAIsUpperTriLR(BUp(k)) /\ ~LAIsUpperTri(MTranspose(BUp(k))) /\ ~LAIsUpperTri(BReg(k))
                       /\ QEq(MDet(LADiagonal(k, k, V1(k))), LAProd(V1(k)))
                       /\ LAIsNullM(MSub(BReg(k), BReg(k)), QF(1, 10), QF(1, 1000)) = "T"
                       /\ ~LAIsAffine(BReg(k)) /\ ~LAIsAffine(MTranspose(LAAffineFrom(BReg(k), V1(k))))
\* the small-integer decoder of bit patterns agrees with the IEEE module (float and double)
ASSUME \A k \in -70..70 : \A f \in {F32, F64} :
          /\ LISmallIntW(Pattern(f, RoundQ(f, QI(k * 29), 0))) = k * 29
          /\ LISmallIntW(Pattern(f, RoundQ(f, QI(k), 0))) = k
          /\ (k % 2 # 0 => LISmallIntW(Pattern(f, RoundQ(f, QF(k, 2), 0))) = LINotInt)
          /\ (k # 0 => LISmallIntW(Pattern(f, RoundQ(f, QI(k * 2048), 0))) = LINotInt)
ASSUME LISmallIntW(<<0, 32768>>) = 0 /\ LISmallIntW(<<0, 32640>>) = LINotInt /\ LISmallIntW(<<1, 0>>) = LINotInt /\ LISmallIntW(<<1, 0, 0, 16368>>) = LINotInt
ASSUME Cardinality(LAPerms(4)) = 24 /\ LAPermSign(<<2, 1, 3, 4>>, 4) = -1 /\ LAPermSign(<<2, 3, 1>>, 3) = 1
=============================================================================
