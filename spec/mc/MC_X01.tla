------------------------------ MODULE MC_X01 ------------------------------
(***************************************************************************)
(* Bounded model of stage X01.  root -> seed -> member of one of seven     *)
(* families; the symmetries of the area are the actions inside a family:   *)
(*   red   v in {-2..2}^L, L = 1..4     actions: rotate, swap the first two *)
(*         components - the reductions are invariant under permutations,   *)
(*         compMin <= every component <= compMax, the W-bit fold of the    *)
(*         implementation = the mathematical sum / product modulo 2^W      *)
(*         (W = 3 model type), signed domain = every partial result fits   *)
(*   hash  (a, b) in (0..31)^2 on a 5-bit word   action: swap - hash_combine*)
(*         is a bijection in the last hash for a fixed seed, the fold of a *)
(*         vec2, order matters                                             *)
(*   fmod  x = i 2^s, y = j / 4         action: negate x - characterisation *)
(*         of the C remainder, uniqueness, x - y trunc(x / y), odd in x,   *)
(*         even in y, agreement with the integer %                         *)
(*   mix   (a, b, c) small integer vectors   actions: swap a b (alternating)*)
(*         rotate (cyclic) - mixed product = determinant, 2D exterior      *)
(*         product, triangle normal direction                              *)
(*   norm  every value of a 4- and a 6-bit signed / unsigned model type:   *)
(*         compNormalize is onto the normalised range, monotone, and       *)
(*         compScale is its exact inverse; the image sits exactly on an    *)
(*         integer, which is where the truncation of the implementation    *)
(*         breaks (the pinned deviation) and a floor placement does not    *)
(*   tdef  the typedef tables                                              *)
(*   sum   triples of a 14-value lattice of the 8-bit format FMini: every  *)
(*         order of correctly rounded additions / multiplications is       *)
(*         accepted by the acceptance predicates of the float reductions   *)
(***************************************************************************)
EXTENDS GlmX01, TLC
VARIABLE st
vars == <<st>>

MW == 3                                             \* width of the model integer type of the reductions
RedVals == -2..2
HW == 5                                             \* width of the model size_t
HVals == 0..(2^HW - 1)
FmodI == -24..24
FmodJ == (-8..8) \ {0}
FmodS == {-2, 3}
MixV == {<<1, 0, 0>>, <<0, 1, 0>>, <<0, 0, 1>>, <<1, 2, 3>>, <<-2, 1, 0>>, <<3, -1, -2>>, <<1, 1, 1>>, <<0, 0, 0>>}
NormW == {4, 6}
TdefNames == (DOMAIN XaScalarTypedefs) \cup (DOMAIN XaSizeTypedefs)
\* FMini patterns (1 sign, 4 exponent, 3 mantissa bits; bias 7): 0, -0, min subnormal, 1, 1.125, 1.875, 2, -1, -1.375, 3.25, 0.1875.., -5, 8, 9
MiniPatBase == {0, 128, 1, 56, 57, 63, 64, 184, 187, 69, 44, 201, 80, 81}
MiniPat == MiniPatBase
Mini(p) == Fields(FMini, <<p>>)
\* the thorough tier replaces the parameters by these (MC_X01_deep.cfg)
RedValsDeep == -3..3
HWDeep == 6
FmodIDeep == -44..44
NormWDeep == {4, 6, 8}
MiniPatDeep == MiniPatBase \cup {2, 7, 8, 15, 48, 52, 60, 176, 190, 72, 200, 96}

Init == st = [k |-> "root"]
Next ==
    \/ st.k = "root" /\ \/ \E L \in 1..4 : st' = [k |-> "seedRed", L |-> L]
                        \/ \E a \in HVals : st' = [k |-> "seedHash", a |-> a]
                        \/ \E i \in FmodI, s \in FmodS : st' = [k |-> "seedFmod", i |-> i, s |-> s]
                        \/ \E a \in MixV : st' = [k |-> "seedMix", a |-> a]
                        \/ \E W \in NormW, sg \in BOOLEAN : st' = [k |-> "seedNorm", W |-> W, sg |-> sg]
                        \/ st' = [k |-> "seedTdef"]
                        \/ \E a \in MiniPat : st' = [k |-> "seedSum", a |-> a]
    \/ st.k = "seedRed" /\ \E v \in [1..st.L -> RedVals] : st' = [k |-> "red", v |-> v]
    \/ st.k = "seedHash" /\ \E b \in HVals : st' = [k |-> "hash", a |-> st.a, b |-> b]
    \/ st.k = "seedFmod" /\ \E j \in FmodJ : st' = [k |-> "fmod", i |-> st.i, s |-> st.s, j |-> j]
    \/ st.k = "seedMix" /\ \E b \in MixV, c \in MixV : st' = [k |-> "mix", a |-> st.a, b |-> b, c |-> c]
    \/ st.k = "seedNorm" /\ \E v \in (IF st.sg THEN -(2^(st.W - 1))..(2^(st.W - 1) - 1) ELSE 0..(2^st.W - 1)) : st' = [k |-> "norm", W |-> st.W, sg |-> st.sg, v |-> v]
    \/ st.k = "seedTdef" /\ \E n \in TdefNames : st' = [k |-> "tdef", name |-> n]
    \/ st.k = "seedSum" /\ \E b \in MiniPat, c \in MiniPat : st' = [k |-> "sum", a |-> st.a, b |-> b, c |-> c]
    \/ st.k = "red" /\ Len(st.v) >= 2 /\ st' = [st EXCEPT !.v = [i \in 1..Len(st.v) |-> st.v[(i % Len(st.v)) + 1]]]                 \* rotate
    \/ st.k = "red" /\ Len(st.v) >= 2 /\ st' = [st EXCEPT !.v = [i \in 1..Len(st.v) |-> IF i = 1 THEN st.v[2] ELSE IF i = 2 THEN st.v[1] ELSE st.v[i]]]
    \/ st.k = "hash" /\ st' = [st EXCEPT !.a = st.b, !.b = st.a]                                                                    \* swap
    \/ st.k = "fmod" /\ st' = [st EXCEPT !.i = -st.i]                                                                               \* negate x
    \/ st.k = "mix" /\ st' = [st EXCEPT !.a = st.b, !.b = st.a]                                                                     \* swap a b
    \/ st.k = "mix" /\ st' = [st EXCEPT !.a = st.b, !.b = st.c, !.c = st.a]                                                         \* rotate
Spec == Init /\ [][Next]_vars
IsK(k) == st.k = k

----------------------------------------------------------------------------
\* ---- reductions
ZV(v) == [i \in 1..Len(v) |-> ZFromInt(v[i])]
RECURSIVE NSum(_, _)
NSum(v, S) == IF S = {} THEN 0 ELSE LET i == CHOOSE j \in S : TRUE IN v[i] + NSum(v, S \ {i})
RECURSIVE NProd(_, _)
NProd(v, S) == IF S = {} THEN 1 ELSE LET i == CHOOSE j \in S : TRUE IN v[i] * NProd(v, S \ {i})
NMinV(v) == SetMin({v[i] : i \in 1..Len(v)})
NMaxV(v) == SetMax({v[i] : i \in 1..Len(v)})
Fits(n) == n >= -(2^(MW - 1)) /\ n <= 2^(MW - 1) - 1
InvRed ==
    IsK("red") => LET v == st.v L == Len(v) zs == ZV(v) all == 1..L
                      ws == [i \in all |-> WFromInt(MW, v[i])]                                      \* the components as MW-bit words
                      us == [i \in all |-> WToZ(MW, FALSE, ws[i])]                                  \* ... read as unsigned
                  IN
      /\ ZToInt(XaZSum(zs)) = NSum(v, all) /\ ZToInt(XaZProd(zs)) = NProd(v, all)
      /\ XaIsMinZ(ZFromInt(NMinV(v)), zs) /\ XaIsMaxZ(ZFromInt(NMaxV(v)), zs)
      /\ \A i \in all : NMinV(v) <= v[i] /\ v[i] <= NMaxV(v)
      /\ \A m \in RedVals : XaIsMinZ(ZFromInt(m), zs) <=> m = NMinV(v)                               \* the minimum is unique
      /\ \A m \in RedVals : XaIsMaxZ(ZFromInt(m), zs) <=> m = NMaxV(v)
      \* unsigned: the fold of the implementation (wrap at every step) is the mathematical result modulo 2^W, always in the domain
      /\ XaAddDom(MW, FALSE, us) /\ XaMulDom(MW, FALSE, us)
      /\ XaFoldAddW(MW, ws, L) = XaAddWord(MW, us) /\ XaFoldMulW(MW, ws, L) = XaMulWord(MW, us)
      /\ XaAddWord(MW, us) = XaAddWord(MW, zs) /\ XaMulWord(MW, us) = XaMulWord(MW, zs)              \* the word does not depend on the reading
      \* signed: in the domain exactly when every partial result fits, and then the word read as signed is the exact result
      /\ XaAddDom(MW, TRUE, zs) <=> \A S \in XaSubsets(L) : Fits(NSum(v, S))
      /\ XaMulDom(MW, TRUE, zs) <=> \A S \in XaSubsets(L) : Fits(NProd(v, S))
      /\ XaAddDom(MW, TRUE, zs) => ZToInt(WToZ(MW, TRUE, XaFoldAddW(MW, ws, L))) = NSum(v, all)
      /\ XaMulDom(MW, TRUE, zs) => ZToInt(WToZ(MW, TRUE, XaFoldMulW(MW, ws, L))) = NProd(v, all)
\* invariance under permutations (both actions generate the symmetric group)
RedPerm ==
    [][(IsK("red") /\ st'.k = "red") =>
         /\ ZEq(XaZSum(ZV(st'.v)), XaZSum(ZV(st.v))) /\ ZEq(XaZProd(ZV(st'.v)), XaZProd(ZV(st.v)))
         /\ NMinV(st'.v) = NMinV(st.v) /\ NMaxV(st'.v) = NMaxV(st.v)
         /\ XaAddDom(MW, TRUE, ZV(st'.v)) = XaAddDom(MW, TRUE, ZV(st.v))]_vars

\* ---- hash_combine on HW-bit words
HWord(n) == NFromNat(n)
InvHash ==
    /\ IsK("seedHash") => LET s == HWord(st.a) IN
         /\ Cardinality({XaCombine(HW, s, HWord(h)) : h \in HVals}) = 2^HW                          \* injective (bijective) in the last hash
         /\ \A h \in HVals : NBitLen(XaCombine(HW, s, HWord(h))) <= HW
    /\ IsK("hash") => LET a == HWord(st.a) b == HWord(st.b) IN
         /\ XaHashVec(HW, <<a>>) = a                                                                \* vec1: the component hash itself
         /\ XaHashVec(HW, <<a, b>>) = XaCombine(HW, XaCombine(HW, << >>, a), b)
         /\ XaHashSeq(HW, <<a, b, a>>) = XaCombine(HW, XaHashSeq(HW, <<a, b>>), a)
         /\ XaHashQua(HW, <<a, b, b, a>>) = XaHashSeq(HW, <<b, b, a, a>>)                           \* logged w x y z, combined x y z w
         /\ XaHashMat(HW, 2, 2, <<a, b, b, a>>) = XaHashSeq(HW, <<XaHashSeq(HW, <<a, b>>), XaHashSeq(HW, <<b, a>>)>>)
         /\ XaHashDq(HW, <<a, b, b, a, b, a, a, b>>) = XaHashSeq(HW, <<XaHashQua(HW, <<a, b, b, a>>), XaHashQua(HW, <<b, a, a, b>>)>>)
         \* equal component hashes in equal places give equal hashes; a different last component gives a different hash
         /\ \A c \in HVals : (XaHashSeq(HW, <<a, HWord(c)>>) = XaHashSeq(HW, <<a, b>>)) <=> (HWord(c) = b)

\* ---- fmod
FmodX == DMk(st.i < 0, NFromNat(IF st.i < 0 THEN -st.i ELSE st.i), st.s)
FmodY == DMk(st.j < 0, NFromNat(IF st.j < 0 THEN -st.j ELSE st.j), -2)
InvFmod ==
    IsK("fmod") => LET x == FmodX y == FmodY r == XaFmodD(x, y) qx == QFromD(x) qy == QFromD(y) qr == QFromD(r)
                       grid == {DMk(m < 0, NFromNat(IF m < 0 THEN -m ELSE m), -2) : m \in -8..8} IN
      /\ XaIsFmodQ(qx, qy, qr)
      /\ QEq(qr, QSub(qx, QMul(qy, XaQZ(XaTruncQ(QDiv(qx, qy))))))                                  \* x - y trunc(x / y)
      /\ \A g \in grid : XaIsFmodQ(qx, qy, QFromD(g)) => DEq(g, r)                                   \* unique
      /\ DEq(XaFmodD(DNeg(x), y), DNeg(r)) /\ DEq(XaFmodD(x, DNeg(y)), r)                            \* odd in x, even in y
      /\ DLe(DAbs(r), DAbs(x))
      /\ (DIsInt(x) /\ DIsInt(y)) => ZEq(DFloor(r), XaFmodZ(DFloor(x), DFloor(y)))                   \* the integer % is the same function
      /\ XaFmodRange(x, y)
FmodNeg == [][(IsK("fmod") /\ st'.k = "fmod") => (LET x == FmodX y == FmodY IN DEq(XaFmodD(DNeg(x), y), DNeg(XaFmodD(x, y))))]_vars

\* ---- mixed / exterior products
QVi(v) == [i \in 1..Len(v) |-> QI(v[i])]
DVi(v) == [i \in 1..Len(v) |-> DFromInt(v[i])]
MixedOf(s) == GMixed(QVi(s.a), QVi(s.b), QVi(s.c))
InvMix ==
    IsK("mix") => LET a == QVi(st.a) b == QVi(st.b) c == QVi(st.c) m == MixedOf(st)
                      a2 == <<a[1], a[2]>> b2 == <<b[1], b[2]>> n == GTriDir(a, b, c) IN
      /\ QEq(m, XaDet3(a, b, c)) /\ QEq(m, MDet(Mat(3, 3, a \o b \o c)))                             \* = det [a b c]
      /\ QEq(QFromD(JMixed(DVi(st.a), DVi(st.b), DVi(st.c))), m)                                      \* dyadic form
      /\ QEq(GMixed(b, a, c), QNeg(m)) /\ QEq(GMixed(a, c, b), QNeg(m)) /\ QEq(GMixed(c, b, a), QNeg(m))     \* alternating
      /\ QEq(GMixed(b, c, a), m) /\ QEq(GMixed(c, a, b), m)                                           \* cyclic
      /\ QEq(GMixed(a, a, c), QZero) /\ QEq(GMixed(a, b, VAdd(a, b)), QZero)                          \* degenerate
      /\ XaSmallIntV(DVi(st.a))
      \* 2D exterior product x1 y2 - y1 x2: anti-symmetric, the z component of the 3D cross product of the embedded vectors
      /\ QEq(GCross2(a2, b2), QNeg(GCross2(b2, a2))) /\ QEq(GCross2(a2, b2), VCross(<<a[1], a[2], QZero>>, <<b[1], b[2], QZero>>)[3])
      /\ QEq(QFromD(JCross2(<<DFromInt(st.a[1]), DFromInt(st.a[2])>>, <<DFromInt(st.b[1]), DFromInt(st.b[2])>>)), GCross2(a2, b2))
      \* triangle normal direction: cross(p1 - p2, p1 - p3) = (p2 - p1) x (p3 - p1), orthogonal to the edges, flips with the orientation
      /\ GVEq(n, VCross(VSub(b, a), VSub(c, a)))
      /\ QIsZero(VDot(n, VSub(b, a))) /\ QIsZero(VDot(n, VSub(c, a)))
      /\ GVEq(GTriDir(a, c, b), VNeg(n)) /\ GVEq(GTriDir(b, c, a), n)
MixLaws ==
    [][(IsK("mix") /\ st'.k = "mix") =>
         /\ (st'.a = st.b /\ st'.b = st.a /\ st'.c = st.c) => QEq(MixedOf(st'), QNeg(MixedOf(st)))
         /\ (st'.a = st.b /\ st'.b = st.c /\ st'.c = st.a) => QEq(MixedOf(st'), MixedOf(st))]_vars

\* ---- compNormalize / compScale on the model types
Tiny == QFromInts(1, 1048576)
InvNorm ==
    IsK("norm") => LET W == st.W sg == st.sg z == ZFromInt(st.v) n == XaNormQ(W, sg, z)
                       mx == ZToInt(XaTMaxZ(W, sg)) mn == ZToInt(XaTMinZ(W, sg))
                       half == QFromInts(2 * mx + 1, 2) IN
      /\ mx = (IF sg THEN 2^(W - 1) - 1 ELSE 2^W - 1) /\ mn = (IF sg THEN -(2^(W - 1)) ELSE 0)
      /\ QLe(n, QOne) /\ QLe(IF sg THEN QI(-1) ELSE QZero, n)                                         \* into the normalised range
      /\ (st.v = mx) => QEq(n, QOne)
      /\ (st.v = mn) => QEq(n, IF sg THEN QI(-1) ELSE QZero)                                          \* onto: the ends are reached
      /\ (st.v < mx) => QLt(n, XaNormQ(W, sg, ZFromInt(st.v + 1)))                                    \* monotone
      /\ sg => QEq(n, QSub(QMul(QI(2), QDiv(QI(st.v - mn), QI(mx - mn))), QOne))                      \* the documented-by-code affine form
      /\ QEq(XaScaleQ(W, sg, n), XaQZ(z))                                                             \* compScale inverts compNormalize exactly
      \* acceptance predicates on the correctly rounded float image of n
      /\ LET x == Val(F32, RoundQ(F32, n, 0)) IN
           /\ XaNormOk(F32, W, sg, z, x) /\ XaScaleDom(sg, x)
           /\ \A dx \in {DZero, DPow2(-21), DNeg(DPow2(-21)), DPow2(-20), DNeg(DPow2(-20)), DPow2(-19)} :
                XaNormOk(F32, W, sg, z, DAdd(x, dx)) = XaNormOkQ(F32, W, sg, z, DAdd(x, dx))               \* the dyadic form is the rational definition
           /\ ~XaNormOk(F32, W, sg, z, DAdd(x, DPow2(-19))) /\ ~XaNormOk(F32, W, sg, z, DSub(x, DPow2(-19)))
           /\ XaScaleOk(F32, W, sg, x, z) /\ ~XaScaleOk(F32, W, sg, x, ZAdd(z, ZFromInt(2))) /\ ~XaScaleOk(F32, W, sg, x, ZSub(z, ZFromInt(2)))
           /\ XaRTExact(F32, W) /\ XaRTOk(F32, W, z, z) /\ ~XaRTOk(F32, W, z, ZAdd(z, ZFromInt(1)))
      \* why the implementation loses the round trip for signed types: it truncates S(x) toward zero, S(N(v)) = v sits on the
      \* integer, so an error -tiny (v > 0) / +tiny (v < 0) gives v -+ 1: the pinned shape.  Unsigned / v = 0 survive one side.
      /\ (sg /\ st.v > 0) => XaRTOffTowardZero(z, XaTruncQ(QSub(XaScaleQ(W, sg, n), Tiny)))
      /\ (sg /\ st.v < 0) => XaRTOffTowardZero(z, XaTruncQ(QAdd(XaScaleQ(W, sg, n), Tiny)))
      /\ ~XaRTOffTowardZero(z, z)
      \* the proposed placement floor(x (Max + 1/2)) (signed) survives errors of either sign
      /\ sg => \A d \in {QNeg(Tiny), QZero, Tiny} : (QLe(QAbs(QAdd(n, d)), QOne) => ZEq(QFloor(QMul(QAdd(n, d), half)), z))

\* ---- typedef tables
InvTdef ==
    IsK("tdef") => LET nm == st.name IN
      IF nm \in DOMAIN XaScalarTypedefs
      THEN LET rec == XaScalarTypedefs[nm] IN
           /\ rec[1] \in {1, 2, 4, 8} /\ rec[2] \in {"u", "i", "f"}
           /\ (rec[2] = "f") => rec[1] \in {4, 8}
           /\ XaDigits(rec[1], rec[2]) \in {7, 8, 15, 16, 31, 32, 63, 64, 24, 53}
           /\ (rec[2] = "u") => XaDigits(rec[1], rec[2]) = 8 * rec[1]                                \* all bits are value bits
           /\ (rec[2] = "i") => XaDigits(rec[1], rec[2]) = 8 * rec[1] - 1
      ELSE XaSizeTypedefs[nm] \in 1..4
ASSUME /\ XaScalarTypedefs["byte"] = XaScalarTypedefs["u8"] /\ XaScalarTypedefs["word"] = XaScalarTypedefs["u16"]
       /\ XaScalarTypedefs["dword"] = XaScalarTypedefs["u32"] /\ XaScalarTypedefs["qword"] = XaScalarTypedefs["u64"]
       /\ XaScalarTypedefs["f32mat1"] = XaScalarTypedefs["f32"] /\ XaScalarTypedefs["f64mat1x1"] = XaScalarTypedefs["f64"]
       /\ \A p \in {<<"u8", "i8">>, <<"u16", "i16">>, <<"u32", "i32">>, <<"u64", "i64">>} :
             XaScalarTypedefs[p[1]][1] = XaScalarTypedefs[p[2]][1] /\ XaScalarTypedefs[p[1]][2] = "u" /\ XaScalarTypedefs[p[2]][2] = "i"
       /\ \A p \in {<<"u8", "u16">>, <<"u16", "u32">>, <<"u32", "u64">>, <<"f32", "f64">>} : XaScalarTypedefs[p[2]][1] = 2 * XaScalarTypedefs[p[1]][1]
       /\ \A n \in 1..4 : XaSizeTypedefs[<<"size1", "size2", "size3", "size4">>[n]] = n /\ XaSizeTypedefs[<<"size1_t", "size2_t", "size3_t", "size4_t">>[n]] = n

\* ---- floating reductions on FMini: every order of correctly rounded operations is accepted
Perms3 == {<<1, 2, 3>>, <<1, 3, 2>>, <<2, 1, 3>>, <<2, 3, 1>>, <<3, 1, 2>>, <<3, 2, 1>>}
MiniZero == FZero(FMini, 0)
MiniOne == FOne(FMini)
InvSum ==
    IsK("sum") => LET xs == <<Mini(st.a), Mini(st.b), Mini(st.c)>> ds == XaVals(FMini, xs) IN
      /\ XaAllFinite(FMini, xs)
      /\ XaAddRange(FMini, ds) =>
           /\ \A p \in Perms3 : XaFAddOk(FMini, xs, FAdd(FMini, FAdd(FMini, FAdd(FMini, MiniZero, xs[p[1]]), xs[p[2]]), xs[p[3]]))
           /\ XaFAddOk(FMini, <<xs[1], xs[2]>>, FAdd(FMini, FAdd(FMini, MiniZero, xs[1]), xs[2]))
           /\ XaFAddOk(FMini, <<xs[1]>>, FAdd(FMini, MiniZero, xs[1]))
           \* two components: nothing but the correctly rounded sum is accepted
           /\ \A q \in MiniPat : XaFAddOk(FMini, <<xs[1], xs[2]>>, Mini(q)) => DEq(Val(FMini, Mini(q)), Val(FMini, FAdd(FMini, xs[1], xs[2])))
      /\ XaMulRange(FMini, ds) =>
           /\ \A p \in Perms3 : XaFMulFinite(FMini, ds, FMul(FMini, FMul(FMini, FMul(FMini, MiniOne, xs[p[1]]), xs[p[2]]), xs[p[3]]))
           /\ XaFMulFinite(FMini, <<ds[1], ds[2]>>, FMul(FMini, xs[1], xs[2]))
      /\ XaIsMinFI(FMini, xs[1], xs, 1..3) <=> (\A i \in 1..3 : DLe(ds[1], ds[i]))
      /\ XaFCompMinOk(FMini, xs[1], xs) <=> XaIsMinFI(FMini, xs[1], xs, 1..3)

----------------------------------------------------------------------------
(* constant-level checks *)
\* hash_combine on 64-bit words against values computed by hand from the documented formula:
\*   fold(1, 2) = 175247769363 = 0x28CD94BF13,  fold(1, 2, 3, 4) = 0x2825364C81AD382 ..., fold(2^64 - 1, 2^64 - 2)
ASSUME XaHashSeq(64, <<<<1>>, <<2>>>>) = NFromLimbs16(<<48915, 52628, 40, 0>>)
ASSUME XaHashSeq(64, <<<<1>>, <<2>>, <<3>>, <<4>>>>) = NFromLimbs16(<<54146, 51226, 33363, 2>>)
ASSUME XaHashSeq(64, <<AllOnes(64), NSub(AllOnes(64), <<1>>)>>) = NFromLimbs16(<<49053, 52628, 40, 0>>)
ASSUME \E a \in HVals, b \in HVals : XaHashSeq(HW, <<HWord(a), HWord(b)>>) # XaHashSeq(HW, <<HWord(b), HWord(a)>>)      \* order matters
\* fmod across a large exponent gap: fmod(2^100, 3) = 1 (2^100 = 1 mod 3), fmod(-2^101, 3) = -2, fmod(5.5, -2) = 1.5
ASSUME DEq(XaFmodD(DPow2(100), DFromInt(3)), DFromInt(1)) /\ DEq(XaFmodD(DNeg(DPow2(101)), DFromInt(3)), DFromInt(-2))
ASSUME DEq(XaFmodD(DMk(FALSE, <<11>>, -1), DFromInt(-2)), DMk(FALSE, <<3>>, -1))
ASSUME LET one == FOne(F32) IN XaFmodFOk(F32, one, FZero(F32, 0), Fields(F32, <<0, 32704>>)) /\ ~XaFmodFOk(F32, one, FZero(F32, 0), one)
\* the reductions reject a wrong float result (non-vacuity of the tolerance): 1 + 1.125 + 1.875 = 4 exactly in FMini
ASSUME XaFAddOk(FMini, <<Mini(56), Mini(57), Mini(63)>>, Mini(72)) /\ ~XaFAddOk(FMini, <<Mini(56), Mini(57), Mini(63)>>, Mini(74))
ASSUME ~XaFAddOk(FMini, <<Mini(56), Mini(57), Mini(63)>>, Mini(69))
\* compNormalize / compScale end points of the real types
ASSUME QEq(XaNormQ(8, TRUE, ZFromInt(-128)), QI(-1)) /\ QEq(XaNormQ(8, TRUE, ZFromInt(127)), QOne) /\ QEq(XaNormQ(8, TRUE, ZFromInt(0)), QF(1, 255))
ASSUME QEq(XaNormQ(16, FALSE, ZFromInt(65535)), QOne) /\ QEq(XaScaleQ(16, TRUE, QI(-1)), QI(-32768)) /\ QEq(XaScaleQ(8, FALSE, QF(1, 2)), QF(255, 2))
\* the documented examples of GLM's own test: compScale<i8>(0.5) = 63, compScale<u8>(0.5) = 127 are accepted, 65 / 129 are not
ASSUME XaScaleOk(F32, 8, TRUE, DPow2(-1), ZFromInt(63)) /\ ~XaScaleOk(F32, 8, TRUE, DPow2(-1), ZFromInt(65))
ASSUME XaScaleOk(F32, 8, FALSE, DPow2(-1), ZFromInt(127)) /\ ~XaScaleOk(F32, 8, FALSE, DPow2(-1), ZFromInt(129))
\* float(1.0) reaches the overflow zone exactly for the types whose Max is not representable
ASSUME XaScaleTop(F32, 32, FALSE, DUnit) /\ XaScaleTop(F32, 32, TRUE, DUnit) /\ ~XaScaleTop(F32, 32, FALSE, DSub(DUnit, DPow2(-10)))
=============================================================================
