SPECIFICATION Spec
CONSTANT Deep = TRUE
INVARIANTS InvAdj InvAcc InvMajor InvCross InvFlip InvDiag InvQry InvGs InvQrx
PROPERTIES AdjTranspose CrossSwap QryTranspose QrxSign
CHECK_DEADLOCK FALSE
