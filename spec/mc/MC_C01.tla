------------------------------ MODULE MC_C01 ------------------------------
(* Bounded model of the lifting itself.  Values are abstract tokens 0..2; the scalar function is
   an uninterpreted injective pairing, so any wrong index or dropped broadcast changes the result.
   State: vector length L, the overload shape of a binary function (vv, vs, sv), the two operands.
   Invariants: the lift is total (defined for every component), a scalar operand acts as the
   splatted vector, result component i depends on no other component. *)
EXTENDS GlmVector, TLC
VARIABLES L, shape, a, b
vars == <<L, shape, a, b>>
Tok == 0..2
S2(x, y) == 3 * x + y                                    \* injective scalar "function graph"
Vecs(n) == [1..n -> Tok]
Init == /\ L \in 1..4 /\ shape \in {"vv", "vs", "sv"}
        /\ a \in (IF shape = "sv" THEN [1..1 -> Tok] ELSE Vecs(L))
        /\ b \in (IF shape = "vs" THEN [1..1 -> Tok] ELSE Vecs(L))
Next == UNCHANGED vars
Spec == Init /\ [][Next]_vars
LiftM(x, y) == [i \in 1..L |-> S2(Comp(x, i), Comp(y, i))]
Splat(x) == IF Len(x) = 1 THEN [i \in 1..L |-> x[1]] ELSE x
InvTotal == Len(LiftM(a, b)) = L
InvBroadcast == LiftM(a, b) = LiftM(Splat(a), Splat(b))
InvIndependent ==
    \A i \in 1..L : \A j \in (1..L) \ {i} : \A t \in Tok :
        LET a2 == IF Len(a) = 1 THEN a ELSE [a EXCEPT ![j] = t] b2 == IF Len(b) = 1 THEN b ELSE [b EXCEPT ![j] = t]
        IN LiftM(a2, b2)[i] = LiftM(a, b)[i]
InvInjective == \A i \in 1..L : LiftM(a, b)[i] \div 3 = Comp(a, i) /\ LiftM(a, b)[i] % 3 = Comp(b, i)
=============================================================================
