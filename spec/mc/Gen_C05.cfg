SPECIFICATION Spec
