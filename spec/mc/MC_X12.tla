------------------------------ MODULE MC_X12 ------------------------------
(***************************************************************************)
(* Bounded model of stage X12 (geometric extras).  The state machine       *)
(* enumerates families of small integer / rational configurations          *)
(* (root -> seed -> configuration, so that all workers share the work) and *)
(* applies the symmetries of the area as actions:                          *)
(*   plane (o, d, po, n)        action: reverse the plane normal           *)
(*   tri   (o, d, v0, v1, v2)   action: rotate the vertices                *)
(*   sph   (o, d, c, r2)        action: reverse the direction              *)
(*   qry   (a, b)               action: swap the vectors                   *)
(*   hand  (t, b, n)            action: swap tangent and binormal          *)
(*   pol   (lat, lon)           rational points of the unit circle         *)
(*   trig  k                    the angle k/16 for the enclosures          *)
(* Invariants: the laws of the area on the definitions of GlmX12 part 1    *)
(* (exact rationals) and the agreement of the dyadic, division-free,       *)
(* three-valued forms of part 2 (used by Trace_X12) with them, including   *)
(* acceptance of the exact result and rejection of a wrong one.            *)
(***************************************************************************)
EXTENDS GlmX12, TLC
VARIABLE st
vars == <<st>>

Pts == {<<0, 0, 0>>, <<1, 2, 3>>, <<-2, 1, 0>>, <<3, -1, -2>>}
Dirs == {<<1, 0, 0>>, <<0, -1, 0>>, <<0, 0, 1>>, <<1, 1, 0>>, <<1, -2, 2>>, <<0, 2, -1>>}
Nrms == {<<0, 0, 1>>, <<0, 1, 0>>, <<-1, 0, 0>>, <<1, 1, 1>>, <<2, 0, -1>>}
Tris == << <<<<0, 0, 0>>, <<4, 0, 0>>, <<0, 4, 0>>>>, <<<<1, 1, 1>>, <<5, 1, 0>>, <<1, 5, 2>>>>, <<<<0, 0, 0>>, <<0, 4, 0>>, <<4, 0, 0>>>> >>
TriOrig == {<<x, y, z>> : x \in {-1, 1, 5}, y \in {-1, 0, 1, 4}, z \in {-3, 3}}
TriDirs == {<<0, 0, -1>>, <<1, 1, -2>>, <<1, 0, 0>>, <<-1, 0, 3>>}
SphO == {<<0, 0, 0>>, <<1, 0, 0>>, <<-3, 1, 0>>, <<0, 2, 2>>, <<6, 0, 0>>}
SphD == {<<1, 0, 0>>, <<0, 1, 0>>, <<0, 0, -1>>, <<1, 1, 0>>, <<2, -1, 2>>}
SphC == {<<5, 3, 0>>, <<0, 0, 0>>, <<-5, 0, 0>>, <<1, 1, 1>>, <<5, 0, 0>>, <<0, 3, 4>>, <<2, 0, 0>>}
SphR2 == {1, 4, 9, 25}
Q2 == {<<x, y>> : x \in -1..2, y \in -1..2}
Q3 == {<<1, 0, 0>>, <<0, 1, 0>>, <<2, 0, 0>>, <<1, 2, 2>>, <<-2, -4, -4>>, <<2, -2, 1>>, <<0, 0, 0>>, <<1, 1, 0>>, <<3, 4, 0>>, <<-4, 3, 0>>, <<0, 0, -3>>, <<1, 1, 1>>}
Q4 == {<<1, 0, 0, 1>>, <<1, 0, 0, 5>>, <<2, 0, 0, 2>>, <<0, 1, 0, 0>>, <<1, 2, 2, 4>>, <<-1, -2, -2, -4>>, <<1, 1, 1, 1>>, <<1, -1, 1, -1>>, <<0, 0, 0, 0>>, <<0, 0, 0, 2>>}
H3 == {<<1, 0, 0>>, <<0, 1, 0>>, <<0, 0, 1>>, <<-1, 0, 0>>, <<1, 1, 0>>, <<1, -1, 2>>, <<0, 0, 0>>}
\* rational points (cos, sin, den) of the unit circle
Circ == << <<1, 0, 1>>, <<0, 1, 1>>, <<0, -1, 1>>, <<3, 4, 5>>, <<4, -3, 5>>, <<5, 12, 13>>, <<12, -5, 13>>, <<7, 24, 25>>, <<-1, 0, 1>>, <<-3, 4, 5>>, <<-4, -3, 5>>, <<-12, 5, 13>> >>
NLat == 8          \* the first 8 points have cos >= 0: latitudes
EpsSet == {DMk(FALSE, <<1>>, -3), DMk(FALSE, <<1>>, 0), DMk(FALSE, <<3>>, 0), DMk(FALSE, <<5>>, 0), DMk(FALSE, <<1>>, 4), DZero, DFromInt(-1)}

Init == st = [k |-> "root"]
Next ==
    \/ st.k = "root" /\ \/ \E o \in Pts, d \in Dirs : st' = [k |-> "seedPlane", o |-> o, d |-> d]
                        \/ \E i \in 1..Len(Tris), d \in TriDirs : st' = [k |-> "seedTri", i |-> i, d |-> d]
                        \/ \E o \in SphO, d \in SphD : st' = [k |-> "seedSph", o |-> o, d |-> d]
                        \/ \E a \in Q2 \cup Q3 \cup Q4 : st' = [k |-> "seedQry", a |-> a]
                        \/ \E t \in H3 : st' = [k |-> "seedHand", t |-> t]
                        \/ \E i \in 1..NLat : st' = [k |-> "seedPol", i |-> i]
                        \/ \E s \in {0, 1} : st' = [k |-> "seedTrig", s |-> s]
    \/ st.k = "seedPlane" /\ \E po \in Pts, n \in Nrms : st' = [k |-> "plane", o |-> st.o, d |-> st.d, po |-> po, n |-> n]
    \/ st.k = "seedTri" /\ \E o \in TriOrig : st' = [k |-> "tri", o |-> o, d |-> st.d, v |-> Tris[st.i]]
    \/ st.k = "seedSph" /\ \E c \in SphC, r2 \in SphR2 : st' = [k |-> "sph", o |-> st.o, d |-> st.d, c |-> c, r2 |-> r2]
    \/ st.k = "seedQry" /\ \E b \in (IF Len(st.a) = 2 THEN Q2 ELSE IF Len(st.a) = 3 THEN Q3 ELSE Q4) : st' = [k |-> "qry", a |-> st.a, b |-> b]
    \/ st.k = "seedHand" /\ \E b \in H3, n \in H3 : st' = [k |-> "hand", t |-> st.t, b |-> b, n |-> n]
    \/ st.k = "seedPol" /\ \E j \in 1..Len(Circ) : st' = [k |-> "pol", i |-> st.i, j |-> j]
    \/ st.k = "seedTrig" /\ \E m \in 0..52 : st' = [k |-> "trig", m |-> IF st.s = 0 THEN m ELSE -m]
    \/ st.k = "plane" /\ st' = [st EXCEPT !.n = [i \in 1..3 |-> -st.n[i]]]                                  \* reverse the normal
    \/ st.k = "tri" /\ st' = [st EXCEPT !.v = <<st.v[2], st.v[3], st.v[1]>>]                                 \* rotate the vertices
    \/ st.k = "sph" /\ st' = [st EXCEPT !.d = [i \in 1..3 |-> -st.d[i]]]                                     \* reverse the direction
    \/ st.k = "qry" /\ Len(st.a) = 2 /\ st' = [st EXCEPT !.a = st.b, !.b = st.a]                             \* swap (closed family)
    \/ st.k = "hand" /\ st' = [st EXCEPT !.t = st.b, !.b = st.t]                                             \* swap tangent and binormal
Spec == Init /\ [][Next]_vars

----------------------------------------------------------------------------
QVi(v) == [i \in 1..Len(v) |-> QI(v[i])]
DVi(v) == [i \in 1..Len(v) |-> DFromInt(v[i])]
QD(d) == QFromD(d)
Par(a, b) == \A i \in 1..Len(a) : \A j \in 1..Len(a) : QEq(QMul(a[i], b[j]), QMul(a[j], b[i]))
Col3(x, y, z) == Mat(3, 3, <<x[1], x[2], x[3], y[1], y[2], y[3], z[1], z[2], z[3]>>)
IsK(k) == st.k = k
f32 == F32
One == DFromInt(1)
IsPow2Int(q) == \E e \in 0..6 : QEq(QAbs(q), QI(2^e))

\* ---- ray / plane
InvPlane ==
    IsK("plane") => LET o == QVi(st.o) d == QVi(st.d) po == QVi(st.po) n == QVi(st.n)
                        do == DVi(st.o) dd == DVi(st.d) dpo == DVi(st.po) dn == DVi(st.n)
                        den == XPlaneDen(d, n) num == XPlaneNum(o, po, n) IN
      /\ XRayPlaneHit(o, d, po, n) <=> XRayPlaneHit(o, d, po, VNeg(n))                                        \* the orientation of the normal is irrelevant
      /\ QEq(QD(XPlaneD(dd, dn)), den) /\ QEq(QD(XPlaneN(do, dpo, dn)), num)                                  \* dyadic forms
      /\ ~QIsZero(den) =>
           LET t == XRayPlaneT(o, d, po, n) p == XAlong(o, d, t) IN
           /\ QIsZero(VDot(VSub(p, po), n))                                                                   \* the point lies on the plane
           /\ QEq(t, XRayPlaneT(o, d, po, VNeg(n)))
           /\ XRayPlaneHit(o, d, po, n) <=> QSign(t) > 0                                                      \* in front of the origin
           /\ XRayPlaneWant(do, dd, dpo, dn, f32) = (IF QIsZero(num) THEN "U" ELSE IF QSign(t) > 0 THEN "T" ELSE "F")
           /\ (IsPow2Int(den) /\ QSign(t) > 0) =>
                LET td == DMul(XPlaneN(do, dpo, dn), DMk(QSign(den) < 0, <<1>>, -(DTopExp(XPlaneD(dd, dn))))) IN
                /\ QEq(QD(td), t)
                /\ XRayPlanePost(td, do, dd, dpo, dn, f32) /\ ~XRayPlanePost(DAdd(td, One), do, dd, dpo, dn, f32)
                /\ ~XRayPlanePost(DNeg(td), do, dd, dpo, dn, f32)
      /\ QIsZero(den) => (~XRayPlaneHit(o, d, po, n) /\ XRayPlaneWant(do, dd, dpo, dn, f32) = "U")

\* ---- line / ray and triangle
TriSolOf(s) == XTriSol(QVi(s.o), QVi(s.d), QVi(s.v[1]), QVi(s.v[2]), QVi(s.v[3]))
TriDetOf(s) == XTriDet(QVi(s.d), QVi(s.v[1]), QVi(s.v[2]), QVi(s.v[3]))
InvTri ==
    IsK("tri") => LET o == QVi(st.o) d == QVi(st.d) v0 == QVi(st.v[1]) v1 == QVi(st.v[2]) v2 == QVi(st.v[3])
                      det == TriDetOf(st) x == XTri(DVi(st.o), DVi(st.d), DVi(st.v[1]), DVi(st.v[2]), DVi(st.v[3]), f32) IN
      /\ QEq(QD(x.det), det) /\ QEq(QD(x.U), XTriU(o, d, v0, v1, v2)) /\ QEq(QD(x.V), XTriV(o, d, v0, v1, v2)) /\ QEq(QD(x.T), XTriT(o, d, v0, v1, v2))
      /\ QEq(det, MDet(Col3(VSub(v1, v0), d, VSub(v2, v0))))                                                  \* e1 . (d x e2) = det [e1 d e2]
      /\ XTriDegenerate(x) <=> QIsZero(det)
      /\ ~QIsZero(det) =>
           LET s == TriSolOf(st) s2 == XTriSol(o, VNeg(d), v0, v1, v2) IN
           /\ GVEq(XAlong(o, d, s.t), XTriPoint(v0, v1, v2, s.u, s.v))                                        \* the solution is the common point
           /\ QEq(s2.t, QNeg(s.t)) /\ QEq(s2.u, s.u) /\ QEq(s2.v, s.v)                                        \* the line does not depend on the sense of d
           /\ XLineTriHit(o, d, v0, v1, v2) <=> XLineTriHit(o, VNeg(d), v0, v1, v2)
           /\ XRayTriHit(o, d, v0, v1, v2) => XLineTriHit(o, d, v0, v1, v2)
           /\ (XRayTriHit(o, d, v0, v1, v2) /\ XRayTriHit(o, VNeg(d), v0, v1, v2)) => QIsZero(s.t)
           /\ XLineTriHit(o, d, v0, v1, v2) => (XRayTriHit(o, d, v0, v1, v2) \/ XRayTriHit(o, VNeg(d), v0, v1, v2))
           \* the three-valued region: T => strictly inside, F => outside, U => on the border (integer operands: the band is empty)
           /\ LET in3 == XTriInside3(x, f32) border == QIsZero(s.u) \/ QIsZero(s.v) \/ QEq(QAdd(s.u, s.v), QOne) \/ QEq(s.u, QOne) IN
                /\ in3 = "T" => (XInTri(s) /\ ~border)
                /\ in3 = "F" => ~XInTri(s)
                /\ in3 = "U" => border
                /\ XTriAhead3(x) = (IF QIsZero(s.t) THEN "U" ELSE IF QSign(s.t) > 0 THEN "T" ELSE "F")
           /\ IsPow2Int(det) =>
                LET sc == DMk(QSign(det) < 0, <<1>>, -(DTopExp(x.det))) td == DMul(x.T, sc) ud == DMul(x.U, sc) vd == DMul(x.V, sc) IN
                /\ QEq(QD(td), s.t) /\ QEq(QD(ud), s.u) /\ QEq(QD(vd), s.v)
                /\ XTriPost(td, ud, vd, x, f32)
                /\ ~XTriPost(DAdd(td, One), ud, vd, x, f32) /\ ~XTriPost(td, DAdd(ud, DPow2(-4)), vd, x, f32) /\ ~XTriPost(td, ud, DSub(vd, DPow2(-4)), x, f32)
\* rotating the vertices keeps the hit, the distance and permutes the barycentric coordinates: (u, v) -> (v, 1 - u - v)
TriRotate ==
    [][(IsK("tri") /\ ~QIsZero(TriDetOf(st))) =>
         LET s == TriSolOf(st) s1 == TriSolOf(st') IN
         /\ QEq(TriDetOf(st'), TriDetOf(st))
         /\ QEq(s1.t, s.t) /\ QEq(s1.u, s.v) /\ QEq(s1.v, QSub(QSub(QOne, s.u), s.v))
         /\ XInTri(s1) <=> XInTri(s)]_vars

\* ---- spheres
IsSquareInt(n) == n >= 0 /\ \E s \in 0..60 : s * s = n
ISqrt(n) == CHOOSE s \in 0..60 : s * s = n
Dot3(a, b) == a[1] * b[1] + a[2] * b[2] + a[3] * b[3]
Sub3(a, b) == <<a[1] - b[1], a[2] - b[2], a[3] - b[3]>>
InvSph ==
    IsK("sph") => LET o == QVi(st.o) d == QVi(st.d) c == QVi(st.c) r2 == QI(st.r2) disc == XSphDisc(o, d, c, r2)
                      diffI == Sub3(st.c, st.o) t0n == Dot3(diffI, st.d) dd == Dot3(st.d, st.d)
                      discI == t0n * t0n - dd * (Dot3(diffI, diffI) - st.r2) IN
      /\ QEq(disc, QI(discI))
      /\ XLineSphereHit(o, d, c, r2) <=> QLe(XLineDist2(o, d, c), QMul(r2, GLength2(d)))                      \* hit iff the centre is within r of the line
      /\ XLineSphereHit(o, d, c, r2) <=> XLineSphereHit(o, VNeg(d), c, r2)
      /\ (XRaySphereHit(o, d, c, r2) \/ XRaySphereHit(o, VNeg(d), c, r2)) => XLineSphereHit(o, d, c, r2)
      /\ XLineSphereHit(o, d, c, r2) /\ ~QEq(GLength2(VSub(c, o)), r2) =>                                     \* a line that meets the sphere meets it on one side at least
           (XRaySphereHit(o, d, c, r2) \/ XRaySphereHit(o, VNeg(d), c, r2))
      /\ QLt(GLength2(VSub(c, o)), r2) => (XRaySphereHit(o, d, c, r2) /\ XRaySphereHit(o, VNeg(d), c, r2))    \* from inside: both ways
      /\ QEq(QD(XLineSph(DVi(st.o), DVi([i \in 1..3 |-> st.o[i] + st.d[i]]), DVi(st.c), DFromInt(ISqrt(st.r2)), f32).D), disc)
      /\ IsSquareInt(discI) =>
           LET sq == ISqrt(discI) s1 == QF(t0n - sq, dd) s2 == QF(t0n + sq, dd) IN
           /\ XIsRoot(o, d, c, r2, s1) /\ XIsRoot(o, d, c, r2, s2)                                            \* both roots lie on the sphere
           /\ ~XIsRoot(o, d, c, r2, QAdd(s2, QOne))
           /\ QIsZero(VDot(VSub(XAlong(o, d, QF(t0n, dd)), c), d))                                             \* symmetric about the foot of the perpendicular
           /\ XRaySphereHit(o, d, c, r2) <=> QSign(s2) > 0
           /\ QSign(s1) > 0 => (XIsNearestRoot(o, d, c, r2, s1) /\ (sq > 0 => ~XIsNearestRoot(o, d, c, r2, s2)))
           /\ (QSign(s1) <= 0 /\ QSign(s2) > 0) => (XIsNearestRoot(o, d, c, r2, s2) /\ ~XIsNearestRoot(o, d, c, r2, s1))
           \* the dyadic, three-valued forms (unit directions: the axes)
           /\ dd = 1 =>
                LET x == XSph(DVi(st.o), DVi(st.d), DVi(st.c), DFromInt(st.r2), f32) want == XRaySphereWant(x, f32)
                    near == t0n - sq far == t0n + sq IN
                /\ QEq(QD(x.disc), disc) /\ QEq(QD(x.t0), QI(t0n))
                /\ want = (IF sq = 0 THEN (IF far < 0 THEN "F" ELSE "U")                                         \* tangent: the line hit itself is a tie
                           ELSE IF far > 0 THEN (IF near = 0 THEN "U" ELSE "T") ELSE IF far = 0 THEN "U" ELSE "F")  \* a root at 0: origin on the surface
                /\ (near > 0) => (XRaySpherePost(DFromInt(near), x, 3, f32) /\ (sq > 0 => ~XRaySpherePost(DFromInt(far), x, 3, f32)))
                /\ (near < 0 /\ far > 0) => (XRaySpherePost(DFromInt(far), x, 3, f32) /\ ~XRaySpherePost(DFromInt(near), x, 3, f32))
                /\ (far > 0) => ~XRaySpherePost(DFromInt(far + 1), x, 3, f32)
      /\ (~IsSquareInt(discI) /\ dd = 1) =>
           LET x == XSph(DVi(st.o), DVi(st.d), DVi(st.c), DFromInt(st.r2), f32) want == XRaySphereWant(x, f32) IN
           /\ discI < 0 => want = "F"
           /\ want = "T" => XRaySphereHit(o, d, c, r2)
           /\ want = "F" => ~XRaySphereHit(o, d, c, r2)

\* ---- vector queries, normalizeDot, extend
InvQry ==
    IsK("qry") => LET a == QVi(st.a) b == QVi(st.b) da == DVi(st.a) db == DVi(st.b) L == Len(st.a) IN
      /\ QEq(XWedge2(a, b), XMinors2(a, b))                                                                    \* Lagrange identity, every L
      /\ QSign(XWedge2(a, b)) >= 0 /\ (QIsZero(XWedge2(a, b)) <=> Par(a, b))
      /\ L = 3 => QEq(XWedge2(a, b), GLength2(GCross(a, b)))
      /\ QEq(QD(XWedgeD(da, db, XPairSeq(L))), XWedge2(a, b))
      /\ \A e \in EpsSet : LET qe == QD(e) IN
           /\ XAgree(XAreCollinear(a, b, qe), XAreCollinear3(da, db, e, f32))
           /\ XAgree(XAreOrthogonal(a, b, qe), XAreOrthogonal3(da, db, e, f32))
           /\ XAgree(XAreOrthonormal(a, b, qe), XAreOrthonormal3(da, db, e, f32))
           /\ XAgree(XIsNormalized(a, qe), XIsNormalized3(da, e, f32))
           /\ XAgree(XIsNull(a, qe), XIsNull3(da, e, f32))
           /\ XIsCompNullD(da, e) = XIsCompNull(a, qe)
           \* integer operands: the bands are narrower than the gaps, "U" only at exact ties
           /\ XAreCollinear3(da, db, e, f32) = "U" => QEq(XWedge2(a, b), QMul(qe, qe))
           /\ XIsNull3(da, e, f32) = "U" => QEq(GLength2(a), QMul(qe, qe))
           /\ XAreCollinear(a, b, qe) => XAreCollinear(b, a, qe)
           /\ (XAreOrthonormal(a, b, qe) /\ QLt(qe, QF(1, 4))) => (XAreOrthogonal(a, b, qe) /\ ~XAreCollinear(a, b, qe))
           /\ L = 4 => (XAgree(TRUE, XAreCollinear3(da, db, e, f32)) => XAgree(TRUE, XAreCollinearXYZ3(da, db, e, f32)))     \* the xyz test is weaker
      \* normalizeDot: +-1 iff parallel, 0 iff orthogonal, |r| <= 1
      /\ (~VIsZero(a) /\ ~VIsZero(b)) =>
           /\ XIsNormalizeDot(QOne, a, b) <=> (Par(a, b) /\ QSign(VDot(a, b)) > 0)
           /\ XIsNormalizeDot(QNeg(QOne), a, b) <=> (Par(a, b) /\ QSign(VDot(a, b)) < 0)
           /\ XIsNormalizeDot(QZero, a, b) <=> QIsZero(VDot(a, b))
           /\ ~XIsNormalizeDot(QF(5, 4), a, b)
           /\ XNormalizeDotOk(One, da, db, f32) <=> XIsNormalizeDot(QOne, a, b)
           /\ XNormalizeDotOk(DZero, da, db, f32) <=> XIsNormalizeDot(QZero, a, b)
           /\ XNormalizeDotOk(DNeg(One), da, db, f32) <=> XIsNormalizeDot(QNeg(QOne), a, b)
      \* extend
      /\ GVEq(XExtend(a, b, QZero), a) /\ GVEq(XExtend(a, b, QOne), b)
      /\ Par(VSub(XExtend(a, b, QF(5, 2)), a), VSub(b, a))
      /\ GVEq(DvToQ(XExtendD(da, db, DMk(FALSE, <<5>>, -1))), XExtend(a, b, QF(5, 2)))
      /\ XExtendFormulaOk(XExtendD(da, db, DMk(FALSE, <<5>>, -1)), da, db, DMk(FALSE, <<5>>, -1), f32)
      /\ st.a # st.b => ~XExtendFormulaOk(XExtendD(da, db, DFromInt(3)), da, db, DMk(FALSE, <<5>>, -1), f32)
      /\ XExtendAtLengthOk(XExtendD(da, db, One), da, One, f32) <=> QEq(GLength2(VSub(b, a)), QOne)           \* the two readings agree iff |S - O| = 1

\* ---- handedness
HandDetOf(s) == XHandDet(QVi(s.t), QVi(s.b), QVi(s.n))
InvHand ==
    IsK("hand") => LET t == QVi(st.t) b == QVi(st.b) n == QVi(st.n) m == XHandDet(t, b, n) IN
      /\ QEq(m, MDet(Col3(t, b, n)))
      /\ QEq(m, XHandDet(b, n, t)) /\ QEq(m, XHandDet(n, t, b))                                               \* cyclic
      /\ ~(XRightHanded(t, b, n) /\ XLeftHanded(t, b, n))
      /\ (XRightHanded(t, b, n) \/ XLeftHanded(t, b, n)) <=> ~QIsZero(m)
      /\ XRightHanded(t, b, n) <=> XLeftHanded(VNeg(t), b, n)
      /\ QEq(QD(XHand(DVi(st.t), DVi(st.b), DVi(st.n))), m)
      /\ DLt(XHandErr(DVi(st.t), DVi(st.b), DVi(st.n), f32), One)
HandSwap == [][IsK("hand") => QEq(HandDetOf(st'), QNeg(HandDetOf(st)))]_vars

\* ---- polar coordinates on rational points of the unit circle
CircC(i) == QF(Circ[i][1], Circ[i][3])
CircS(i) == QF(Circ[i][2], Circ[i][3])
InvPol ==
    IsK("pol") => LET c1 == CircC(st.i) s1 == CircS(st.i) c2 == CircC(st.j) s2 == CircS(st.j) e == XEuclid(c1, s1, c2, s2) IN
      /\ QEq(GLength2(e), QOne)                                                                                \* euclidean() is a unit vector
      /\ XIsPolarOf(s1, c2, s2, c1, e)                                                                         \* polar(euclidean(p)) = (p, cos lat)
      /\ XIsPolarOf(s1, c2, s2, c1, VScale(e, QI(7)))                                                          \* polar ignores the length
      /\ ~QIsZero(s1) => ~XIsPolarOf(QNeg(s1), c2, s2, c1, e)
      /\ ~QIsZero(c1) => (~XIsPolarOf(s1, QNeg(c2), QNeg(s2), c1, e) /\ ~XIsPolarOf(s1, c2, s2, QNeg(c1), e))
      /\ (~QIsZero(c1) /\ ~QIsZero(s2) /\ ~QIsZero(c2)) => ~XIsPolarOf(s1, s2, c2, c1, e)

\* ---- the fixed-point enclosures: sin^2 + cos^2 = 1, parity, cos(2r) = 1 - 2 sin^2 r, on the grid k/16
TrigR == DMk(st.m < 0, NFromNat(IF st.m < 0 THEN -st.m ELSE st.m), -4)
InvTrig ==
    IsK("trig") => \A f \in {F32, F64} :
      LET r == TrigR c == XCosD(r, f) s == XSinD(r, f) E == XTrigErr(f) IN
      /\ XTrigRange(r)
      /\ DNear(DAdd(DSq(c), DSq(s)), One, DMulInt(E, 5))
      /\ DEq(XCosD(DNeg(r), f), c) /\ DEq(XSinD(DNeg(r), f), DNeg(s))
      /\ (st.m >= -26 /\ st.m <= 26) => DNear(XCosD(DMul2k(r, 1), f), DSub(One, DMul2k(DSq(s), 1)), DMulInt(E, 8))
      /\ (st.m >= -26 /\ st.m <= 26) => DNear(XSinD(DMul2k(r, 1), f), DMul2k(DMul(s, c), 1), DMulInt(E, 8))
      /\ (st.m > 0 /\ st.m <= 50) => DSign(s) > 0                                                                \* 0 < r < pi
      /\ (st.m >= 0 /\ st.m <= 25) => DSign(c) > 0                                                               \* r < pi/2
      /\ (st.m >= 26) => DSign(c) < 0

----------------------------------------------------------------------------
(* constant-level checks *)
\* reference values to 1e-15: cos 0.5 = 0.8775825618903728, sin 0.5 = 0.479425538604203, cos 1 = 0.5403023058681398, sin 1 = 0.8414709848078965,
\* sin 3.140625 = 0.0009676534387822795, cos 3.140625 = -0.9999995318233016
ZP16 == LET p[i \in 0..16] == IF i = 0 THEN ZFromInt(1) ELSE ZMulInt(p[i - 1], 10) IN p[16]
Dec16(hi, lo, neg) == QMk(LET z == ZAdd(ZMulInt(ZFromInt(hi), 100000000), ZFromInt(lo)) IN IF neg THEN ZNeg(z) ELSE z, ZP16.m)
Between(d, hi, lo1, lo2, neg) == LET a == Dec16(hi, lo1, neg) b == Dec16(hi, lo2, neg) IN QLe(QMin(a, b), QD(d)) /\ QLe(QD(d), QMax(a, b))
RHalf == DMk(FALSE, <<1>>, -1)
R314 == DMk(FALSE, NFromNat(201), -6)
ASSUME Between(XCosD(RHalf, F64), 87758256, 18903720, 18903735, FALSE)
ASSUME Between(XSinD(RHalf, F64), 47942553, 86042025, 86042035, FALSE)
ASSUME Between(XCosD(One, F64), 54030230, 58681390, 58681405, FALSE)
ASSUME Between(XSinD(One, F64), 84147098, 48078960, 48078970, FALSE)
ASSUME Between(XCosD(R314, F64), 99999953, 18233010, 18233023, TRUE)
ASSUME Between(XSinD(R314, F64), 96765, 34387815, 34387830, FALSE)
ASSUME DEq(XCosD(DZero, F64), One) /\ DIsZero(XSinD(DZero, F64)) /\ DEq(XCosD(DZero, F32), One)
\* euclidean / polar acceptance on exact instances: euclidean(0, 0) = (0, 0, 1); polar((1,0,0)) = (0, pi/2, 1) with pi/2 = 0x3FC90FDB
PiHalfF == ValW(F32, <<4059, 16329>>)
ASSUME XEuclidOk(<<DZero, DZero, One>>, DZero, DZero, F32) /\ ~XEuclidOk(<<DZero, DZero, DNeg(One)>>, DZero, DZero, F32)
ASSUME XEuclidOk(<<One, DZero, DZero>>, DZero, PiHalfF, F32) /\ ~XEuclidOk(<<DZero, One, DZero>>, DZero, PiHalfF, F32)
ASSUME XEuclidOk(<<DZero, One, DZero>>, PiHalfF, DZero, F32) /\ ~XEuclidOk(<<DZero, DNeg(One), DZero>>, PiHalfF, DZero, F32)
ASSUME XPolarOk(<<DZero, PiHalfF, One>>, <<One, DZero, DZero>>, F32) /\ ~XPolarOk(<<DZero, DZero, One>>, <<One, DZero, DZero>>, F32)
ASSUME ~XPolarOk(<<DZero, DNeg(PiHalfF), One>>, <<One, DZero, DZero>>, F32) /\ ~XPolarOk(<<DZero, PiHalfF, DZero>>, <<One, DZero, DZero>>, F32)
ASSUME XPolarOk(<<PiHalfF, DZero, DZero>>, <<DZero, DFromInt(3), DZero>>, F32) /\ ~XPolarOk(<<DNeg(PiHalfF), DZero, DZero>>, <<DZero, DFromInt(3), DZero>>, F32)
ASSUME XPolarRTOk(<<DZero, DZero, One>>, <<DZero, DZero, DFromInt(5)>>, F32) /\ ~XPolarRTOk(<<DZero, DZero, DNeg(One)>>, <<DZero, DZero, DFromInt(5)>>, F32)
\* the vec4 deviation is expressible: equal xyz parts, different w
ASSUME LET a == DVi(<<1, 0, 0, 1>>) b == DVi(<<1, 0, 0, 5>>) e == DMk(FALSE, <<1>>, -7) IN XAreCollinear3(a, b, e, F32) = "F" /\ XAreCollinearXYZ3(a, b, e, F32) = "T"
\* line / sphere postcondition on the exact instance p0 = (-5,0,0), p1 = (5,0,0), c = 0, r = 1: points (-1,0,0), (1,0,0)
LS0 == XLineSph(DVi(<<-5, 0, 0>>), DVi(<<5, 0, 0>>), DVi(<<0, 0, 0>>), One, F32)
ASSUME XLineSphereWant(LS0) = "T"
ASSUME XLineSpherePost(DVi(<<-1, 0, 0>>), DVi(<<-1, 0, 0>>), DVi(<<1, 0, 0>>), DVi(<<1, 0, 0>>), DVi(<<-5, 0, 0>>), DVi(<<0, 0, 0>>), One, LS0, F32)
ASSUME ~XLineSpherePost(DVi(<<1, 0, 0>>), DVi(<<1, 0, 0>>), DVi(<<1, 0, 0>>), DVi(<<1, 0, 0>>), DVi(<<-5, 0, 0>>), DVi(<<0, 0, 0>>), One, LS0, F32)         \* the same point twice
ASSUME ~XLineSpherePost(DVi(<<-1, 0, 0>>), DVi(<<1, 0, 0>>), DVi(<<1, 0, 0>>), DVi(<<1, 0, 0>>), DVi(<<-5, 0, 0>>), DVi(<<0, 0, 0>>), One, LS0, F32)        \* inward normal
ASSUME ~XLineSpherePost(DVi(<<0, 1, 0>>), DVi(<<0, 1, 0>>), DVi(<<0, -1, 0>>), DVi(<<0, -1, 0>>), DVi(<<-5, 0, 0>>), DVi(<<0, 0, 0>>), One, LS0, F32)       \* on the sphere, off the line
ASSUME XLineSphereWant(XLineSph(DVi(<<-5, 2, 0>>), DVi(<<5, 2, 0>>), DVi(<<0, 0, 0>>), One, F32)) = "F"
\* non-vacuity of the families
ASSUME \E o \in Pts, d \in Dirs, po \in Pts, n \in Nrms : XRayPlaneHit(QVi(o), QVi(d), QVi(po), QVi(n))
ASSUME \E o \in Pts, d \in Dirs, po \in Pts, n \in Nrms : ~QIsZero(XPlaneDen(QVi(d), QVi(n))) /\ ~XRayPlaneHit(QVi(o), QVi(d), QVi(po), QVi(n))
ASSUME \E o \in TriOrig, d \in TriDirs : XRayTriHit(QVi(o), QVi(d), QVi(Tris[1][1]), QVi(Tris[1][2]), QVi(Tris[1][3]))
ASSUME \E o \in TriOrig, d \in TriDirs : XLineTriHit(QVi(o), QVi(d), QVi(Tris[1][1]), QVi(Tris[1][2]), QVi(Tris[1][3])) /\ ~XRayTriHit(QVi(o), QVi(d), QVi(Tris[1][1]), QVi(Tris[1][2]), QVi(Tris[1][3]))
ASSUME \E o \in SphO, d \in SphD, c \in SphC, r2 \in SphR2 : QIsZero(XSphDisc(QVi(o), QVi(d), QVi(c), QI(r2)))                                   \* tangent
ASSUME \E o \in SphO, d \in SphD, c \in SphC, r2 \in SphR2 : XLineSphereHit(QVi(o), QVi(d), QVi(c), QI(r2)) /\ ~XRaySphereHit(QVi(o), QVi(d), QVi(c), QI(r2))
=============================================================================
