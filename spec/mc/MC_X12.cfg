SPECIFICATION Spec
INVARIANTS InvPlane InvTri InvSph InvQry InvHand InvPol InvTrig
PROPERTIES TriRotate HandSwap
CHECK_DEADLOCK FALSE
