------------------------------ MODULE MC_C03 ------------------------------
(***************************************************************************)
(* C03, engine E1: the intrinsic kernels of glm/simd/common.h and          *)
(* geometric.h whose results the property requires to be IDENTICAL to the  *)
(* generic code, transcribed instruction by instruction over a parametric  *)
(* binary format and compared with the generic definitions of              *)
(* GlmCommon.tla on every pattern of the format:                           *)
(*   KRound41   glm_vec4_round, SSE4.1: x + copysign(pred(0.5), x), then   *)
(*              roundps toward zero                                        *)
(*   KRound2    glm_vec4_round, SSE2 fallback: cvttps2dq / cvtdq2ps of the *)
(*              same sum, sign of x or'ed back, |x| >= 2^mb passed through *)
(*   KFloor2 / KCeil2   SSE2 fallbacks built on KRound2                     *)
(*   KSqrtLowp  the mask that makes x * rsqrt(x) zero at zero              *)
(*   KFaceforward / KRefractZero   branch selections by compare masks      *)
(* OldRound (the kernel before the repair: add and subtract copysign(2^mb, *)
(* x)) is kept as a named deviation: the model shows it is not round().    *)
(***************************************************************************)
EXTENDS GlmCommon, TLC
CONSTANTS FMT
VARIABLE p
FmtMini == FMini
FmtHalf == F16
Init == p \in 0..(2^FBits(FMT) - 1)
Next == UNCHANGED p
Spec == Init /\ [][Next]_p
x == Fields(FMT, <<p>>)
d == Val(FMT, x)
One == DFromInt(1)
\* constants of the kernels
BelowHalf(s) == [s |-> s, e |-> FBias(FMT) - 2, m |-> NSub(NShl(<<1>>, FMT.mb), <<1>>)]     \* 0.49999997f
Big == DPow2(FMT.mb)                                                                       \* 8388608.0f
FOneS(s) == [s |-> s, e |-> FBias(FMT), m |-> << >>]
\* instructions
TruncI(a) == RoundD(FMT, DFromZ(TruncZ(Val(FMT, a))), a.s)               \* roundps(_MM_FROUND_TO_ZERO): keeps the sign of a zero result
CvtTrunc(a) == RoundD(FMT, DFromZ(TruncZ(Val(FMT, a))), 0)               \* cvtdq2ps(cvttps2dq(a)), |a| < 2^31: +0 for a zero result
OrSign(a, s) == [a EXCEPT !.s = IF s = 1 THEN 1 ELSE a.s]
\* kernels
Add0(a) == FAdd(FMT, a, BelowHalf(a.s))
KRound41(a) == TruncI(Add0(a))
KRound2(a) == IF ~DLt(DAbs(Val(FMT, a)), Big) THEN a ELSE OrSign(CvtTrunc(Add0(a)), a.s)
KFloor2(a) == LET r == KRound2(a) IN IF DLt(Val(FMT, a), Val(FMT, r)) THEN FSub(FMT, r, FOneS(0)) ELSE FSub(FMT, r, FZero(FMT, 0))
KCeil2(a) == LET r == KRound2(a) IN IF DLt(Val(FMT, r), Val(FMT, a)) THEN FAdd(FMT, r, FOneS(0)) ELSE FAdd(FMT, r, FZero(FMT, 0))
OldRound(a) == LET c == [s |-> a.s, e |-> FBias(FMT) + FMT.mb, m |-> << >>] IN FSub(FMT, FAdd(FMT, a, c), c)
\* generic definitions
SameValue(r, z) == IsFinite(FMT, r) /\ DEq(Val(FMT, r), DFromZ(z))
InvRound == IsFinite(FMT, x) => /\ SameValue(KRound41(x), RoundAwayZ(d)) /\ KRound41(x).s = x.s
                                /\ SameValue(KRound2(x), RoundAwayZ(d)) /\ KRound2(x).s = x.s
InvFloorCeil == IsFinite(FMT, x) => SameValue(KFloor2(x), FloorZ(d)) /\ SameValue(KCeil2(x), CeilZ(d))
\* masks: cmpneq(x, 0) keeps every non-zero lane and clears both zeros; cmplt(dot, 0) selects N exactly when the generic code
\* does (dot < 0 ? N : -N); cmpnge(k, 0) is the complement of the generic k >= 0 (true for NaN as well)
CmpNeqZero(a) == IsNaN(FMT, a) \/ ~IsZero(FMT, a)
CmpLtZero(a) == ~IsNaN(FMT, a) /\ ((IsInf(FMT, a) /\ a.s = 1) \/ (IsFinite(FMT, a) /\ DSign(Val(FMT, a)) < 0))
CmpNgeZero(a) == IsNaN(FMT, a) \/ CmpLtZero(a)
GenericGeZero(a) == ~IsNaN(FMT, a) /\ ~CmpLtZero(a)
InvMasks == /\ (CmpNeqZero(x) <=> ~IsZero(FMT, x))
            /\ (CmpNgeZero(x) <=> ~GenericGeZero(x))
            /\ (IsZero(FMT, x) => ~CmpLtZero(x))                          \* dot = +-0: the generic code returns -N, so must the mask
\* the named deviation is observable in the model: the kernel before the repair differs from round() somewhere
ASSUME \E q \in 0..(2^FBits(FMT) - 1) : LET a == Fields(FMT, <<q>>) IN IsFinite(FMT, a) /\ ~SameValue(OldRound(a), RoundAwayZ(Val(FMT, a)))
=============================================================================
