------------------------------ MODULE MC_C11T ------------------------------
(* The class-table form of the unary common functions (GlmCommonTable.tla) denotes the per-value
   definitions of GlmCommon.tla: checked on every pattern of the mini format (4,3) and of binary16,
   and on the class-boundary patterns of every (sign, exponent field) class of binary32 (mantissas
   0, 1, max, around one half, and for six integer parts: k, k + 1/2 - ulp, k + 1/2, k + 1/2 + ulp,
   k + ulp, k + 1 - ulp).  With Emit = TRUE the model writes the table interpreted by the 2^32 sweep
   (harness/c11sweep.cpp): KOf per exponent field of binary32 and BumpRule per feature vector. *)
EXTENDS GlmCommonTable, TLC, Json, IOUtils
CONSTANTS FMT, Sampled, Emit
VARIABLE p          \* <<sign, magnitude>>
FmtMini == FMini
FmtHalf == F16
FmtSingle == F32

SampleM(e) ==
    LET mb == FMT.mb MM == 2^mb k == KOf(FMT, e)
        common == {0, 1, 2^(mb - 1), 2^(mb - 1) + 1, 2^(mb - 1) - 1, MM - 1, 3 * 2^(mb - 2), MM \div 3, (2 * MM) \div 3}
        ties == IF k >= 1 /\ k <= mb
                THEN UNION {LET ip == (n * 2^k) % MM h == 2^(k - 1) IN
                            {ip, (ip + h) % MM, (ip + h + 1) % MM, (ip + h + MM - 1) % MM, (ip + 1) % MM, (ip + 2^k - 1) % MM} : n \in {0, 1, 2, 3, 6, 7}}
                ELSE {}
    IN common \cup ties
Mags == IF Sampled THEN UNION {{e * 2^FMT.mb + m : m \in SampleM(e)} : e \in 0..FEMax(FMT)}
        ELSE 0..(2^(FBits(FMT) - 1) - 1)
Init == p \in {0, 1} \X Mags
Next == UNCHANGED p
Spec == Init /\ [][Next]_p

x == FromMagNat(FMT, p[1], p[2])
d == Val(FMT, x)
Fin == IsFinite(FMT, x)
InvRoundings ==
    \A op \in RoundOps :
        LET r == RowApply(FMT, op, x) IN
        IF Fin THEN HasValueZ(FMT, r, IntegralOp(op, d)) /\ r.s = x.s ELSE r = x
InvFract == Fin => IsRounded(FMT, RowFract(FMT, x), FractV(d))
InvModf == Fin => /\ HasValueZ(FMT, RowModfI(FMT, x), TruncZ(d))
                  /\ HasValue(FMT, RowModfF(FMT, x), DSub(d, DFromZ(TruncZ(d))))
InvFrexp == Fin => FrexpOK(FMT, x, RowFrexpM(FMT, x), RowFrexpE(FMT, x))
InvNearest == Fin /\ x.s = 0 => RowNearestSet(FMT, x) = NearestZSet(d)
InvAbsSign == /\ (Fin => HasValue(FMT, RowAbs(FMT, x), DAbs(d)) /\ HasValue(FMT, RowSign(FMT, x), DFromInt(DSign(d))))
              /\ (IsNaN(FMT, x) => IsNaN(FMT, RowAbs(FMT, x)))
              /\ (IsInf(FMT, x) => IsInf(FMT, RowAbs(FMT, x)) /\ RowAbs(FMT, x).s = 0)

B2N(b) == IF b THEN 1 ELSE 0
OpSeq == <<"trunc", "floor", "ceil", "round", "roundEven">>
KRows == [e \in 1..256 |-> [t |-> "K", e |-> e - 1, k |-> KOf(F32, e - 1)]]
BIdx == {<<o, s, fz, c, od>> : o \in 1..5, s \in 0..1, fz \in 0..1, c \in 0..2, od \in 0..1}
BRow(i) == [t |-> "B", op |-> OpSeq[i[1]], s |-> i[2], fz |-> i[3], cmp |-> i[4], odd |-> i[5],
            b |-> B2N(BumpRule(OpSeq[i[1]], i[2], i[3] = 1, i[4], i[5] = 1))]
RECURSIVE SetToSeq(_)
SetToSeq(S) == IF S = {} THEN << >> ELSE LET e == CHOOSE e \in S : TRUE IN <<BRow(e)>> \o SetToSeq(S \ {e})
ASSUME Emit => ndJsonSerialize(IOEnv.OUT, KRows \o SetToSeq(BIdx))
=============================================================================
