------------------------------ MODULE MC_C07 ------------------------------
(* All 31745 non-NaN half magnitudes as initial states.  Invariants: the native widening equals
   the generic IEEE value; Mid is the exact dyadic midpoint; acceptance intervals are ordered,
   contiguous (Hi(h) = Lo(h+1)) and contain the widened value strictly inside (so the round trip
   float(half) -> half is the identity and is the only acceptable answer); the step model of
   GLM's toFloat16 lands in the acceptance interval at both ends and at the midpoint of every
   interval.  EmitTable writes the interval table for the 2^32 sweep (engine E5). *)
EXTENDS GlmHalf, TLC, Json, IOUtils
VARIABLE h
Init == h \in 0..HInf
Next == UNCHANGED h
Spec == Init /\ [][Next]_h

F32W(mag) == <<mag % 65536, mag \div 65536>>
ValOfHalf(x) == IF x = HInf THEN DPow2(16) ELSE ValW(F16, <<x>>)       \* the pseudo value 65536 for infinity
InvWidenExact == h < HInf => DEq(ValW(F32, F32W(HalfMagToF32Mag(h))), ValW(F16, <<h>>))
InvMidExact == h < HInf => DEq(DMulInt(ValW(F32, F32W(Mid(h))), 2), DAdd(ValOfHalf(h), ValOfHalf(h + 1)))
InvOrdered == Lo(h) <= Hi(h) /\ (h > 0 => Lo(h) < Hi(h))
InvContiguous == h < HInf => Hi(h) = Lo(h + 1)
InvRoundTrip == /\ AcceptMag(h, HalfMagToF32Mag(h))
                /\ (h < HInf /\ h > 0 => Lo(h) < HalfMagToF32Mag(h) /\ HalfMagToF32Mag(h) < Hi(h))
                /\ (h > 0 => ~AcceptMag(h - 1, HalfMagToF32Mag(h)))
                /\ (h < HInf => ~AcceptMag(h + 1, HalfMagToF32Mag(h)))
InvCover == (h = 0 => Lo(h) = 0) /\ (h = HInf => Hi(h) = F32Inf)
InvModel == \A fm \in {Lo(h), Hi(h), HalfMagToF32Mag(h), Lo(h) + (Hi(h) - Lo(h)) \div 2,
                       IF Lo(h) + 1 <= Hi(h) THEN Lo(h) + 1 ELSE Lo(h), IF Hi(h) - 1 >= Lo(h) THEN Hi(h) - 1 ELSE Hi(h)} :
               \A s \in {0, 1} : AcceptFloatToHalf(ToFloat16Model(s, fm), s, fm)
EmitTable == Serialize(ToString(h) \o " " \o ToString(Lo(h)) \o " " \o ToString(Hi(h)) \o "\n", IOEnv.OUT,
                       [format |-> "TXT", charset |-> "UTF-8", openOptions |-> <<"WRITE", "CREATE", "APPEND">>]).exitValue = 0
=============================================================================
