------------------------------ MODULE MC_C02 ------------------------------
(* Bounded model of the matrix algebra: a state is a shape triple (C1, R1, C2) together with an
   operand choice (a pair of basis-matrix indices, or one of a few dense small-integer matrices);
   the invariants are laws of column-major linear algebra that the definitions of LinQ /
   GlmMatrix must satisfy for every shape. *)
EXTENDS GlmMatrix, TLC
VARIABLES c1, r1, c2, i, j
vars == <<c1, r1, c2, i, j>>
Init == /\ c1 \in 2..4 /\ r1 \in 2..4 /\ c2 \in 2..4
        /\ i \in 0..(c1 * r1) /\ j \in 0..(c2 * c1)          \* 0 = dense operand, k > 0 = basis matrix E_k
Next == UNCHANGED vars
Spec == Init /\ [][Next]_vars
Basis(C, R, k) == Mat(C, R, [n \in 1..(C * R) |-> IF n = k THEN QI(3) ELSE QZero])
Dense(C, R, s) == Mat(C, R, [n \in 1..(C * R) |-> QI(((n * 7 + s * 3) % 11) - 5)])
A == IF i = 0 THEN Dense(c1, r1, 1) ELSE Basis(c1, r1, i)
Bm == IF j = 0 THEN Dense(c2, c1, 2) ELSE Basis(c2, c1, j)
v == [n \in 1..c2 |-> QI(n * 2 - 3)]
InvShapes == MMul(A, Bm).c = c2 /\ MMul(A, Bm).r = r1
InvTranspose == MEq(MTranspose(MMul(A, Bm)), MMul(MTranspose(Bm), MTranspose(A)))
InvAssoc == \A n \in 1..r1 : QEq(MVec(MMul(A, Bm), v)[n], MVec(A, MVec(Bm, v))[n])
InvBasis ==    \* E_(ca,ra) * E_(cb,rb) = 9 * delta(ca = rb) E_(cb, ra)
    (i > 0 /\ j > 0) =>
      LET ca == ((i - 1) \div r1) + 1 ra == ((i - 1) % r1) + 1 cb == ((j - 1) \div c1) + 1 rb == ((j - 1) % c1) + 1
      IN MEq(MMul(A, Bm), MFromFn(c2, r1, LAMBDA c, r : IF ca = rb /\ c = cb /\ r = ra THEN QI(9) ELSE QZero))
InvVecMat == \A n \in 1..c1 : QEq(VMat(MCol(A, 1), A)[n], MVec(MTranspose(A), MCol(A, 1))[n])          \* v * A = A^T v
InvOuter == MEq(MOuter(MCol(A, 1), MRow(A, 1)), MMul(Mat(1, r1, MCol(A, 1)), Mat(c1, 1, MRow(A, 1))))
InvConvert == /\ MEq(Convert(c1, r1, Convert(4, 4, A)), A)                            \* embedding then cutting back
              /\ MEq(Convert(4, 4, MIdentity(2)), MIdentity(4))
              /\ \A c \in 1..c2, r \in 1..r1 : QEq(MAt(Convert(c2, r1, A), c, r), IF c <= c1 THEN MAt(A, c, r) ELSE IF c = r THEN QOne ELSE QZero)
InvAccess == /\ \A r \in 1..r1 : MEq(RowSet(A, r, MRow(A, r)), A)
             /\ \A c \in 1..c1 : MEq(ColSet(A, c, MCol(A, c)), A)
             /\ MEq(RowMajorV([k \in 1..c1 |-> MCol(Convert(c1, c1, A), k)]), MTranspose(Convert(c1, c1, A)))
=============================================================================
