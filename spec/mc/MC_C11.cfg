CONSTANTS FMT <- FmtMini
Stride = 1
SPECIFICATION Spec
INVARIANTS InvFloorCeil InvRound InvFract InvModel
CHECK_DEADLOCK FALSE
