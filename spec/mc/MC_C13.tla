------------------------------ MODULE MC_C13 ------------------------------
(***************************************************************************)
(* Bounded model of the interpolation walk (C13).                          *)
(* State: a walk descriptor w (rational unit quaternion x, rational unit   *)
(* axis, step angle psi with tan(psi/2) = p/q, m steps from x to y), the   *)
(* step counter j in -2m..3m, cur = r^j * x and prev = r^(j-1) * x, both   *)
(* obtained by exact quaternion multiplication (LinQ), one step per        *)
(* transition.  Invariants = the laws of the property on the walk, and the *)
(* agreement of the closed forms of GlmInterp.tla (used by Trace_C13 to    *)
(* judge the implementation) with this definition.                         *)
(* The initial states double as the case file of the harness (E2): one     *)
(* line of 12 integers per walk, appended to the file named IOEnv.OUT.     *)
(* IOEnv.TIER = "thorough" selects the larger family of walks.             *)
(***************************************************************************)
EXTENDS GlmInterp, TLC, IOUtils
VARIABLES w, j, cur, prev
vars == <<w, j, cur, prev>>

Thorough == "TIER" \in DOMAIN IOEnv /\ IOEnv.TIER = "thorough"

\* ---------------------------------------------------------------- the family of walks
XS == << <<1, 2, 2, 4, 5>>, <<1, 1, 1, 1, 2>>, <<2, 4, 5, 6, 9>>, <<1, 0, 0, 0, 1>>, <<-1, 1, -1, 1, 2>>, <<0, 3, 0, -4, 5>>,
         <<2, -3, 6, 0, 7>>, <<-2, 4, -5, 6, 9>>, <<1, 1, 3, 5, 6>>, <<-1, 3, -3, 9, 10>>, <<2, 2, -4, 5, 7>>, <<0, 0, 0, -1, 1>>,
         <<1, 2, 4, 10, 11>>, <<-1, -4, 8, 0, 9>> >>
AXS == << <<2, 3, 6, 7>>, <<1, 2, 2, 3>>, <<0, 0, 1, 1>>, <<-2, -1, 2, 3>>, <<1, 0, 0, 1>>, <<1, 4, 8, 9>>, <<-6, 2, 3, 7>>,
          <<0, 1, 0, 1>>, <<2, 10, 11, 15>>, <<0, -3, 4, 5>>, <<-2, -6, 3, 7>> >>

\* bit budget of the exact points: cur_(3m) has numerators of about 2 * 3m * log2(q) bits
Budget == 264
KsQuick == {1, 2, 3, 4, 6, 9, 11, 12, 13, 15, 20, 26, 27, 30}
Ks == IF Thorough THEN 1..30 ELSE KsQuick
SmallAngle == { <<1, 2^k, m>> : k \in Ks, m \in 1..6 }                                  \* tan(psi/2) = 2^-k: 53 degrees down to 1.9e-9 rad
PythPairs == IF Thorough THEN { <<1, 3>>, <<2, 3>>, <<1, 5>>, <<3, 4>>, <<2, 5>>, <<3, 5>>, <<1, 7>>, <<2, 7>>, <<3, 7>>, <<4, 5>>, <<1, 6>>, <<5, 6>>, <<3, 8>>, <<1, 9>> }
             ELSE { <<1, 3>>, <<2, 3>>, <<2, 5>>, <<1, 7>> }
Pyth == { <<pq[1], pq[2], m>> : pq \in PythPairs, m \in 1..6 }
\* one step beyond a right angle: mix follows the oriented arc up to pi - 1.9e-9 rad, slerp turns round
WideKs == IF Thorough THEN {1, 2, 3, 4, 5, 6, 8, 10, 11, 12, 13, 14, 16, 20, 24, 25, 26, 27, 28, 29} ELSE {1, 4, 8, 12, 13, 20, 26, 27, 29}
Wide == { <<2^k, 1, 1>> : k \in WideKs } \cup { <<3, 1, 1>>, <<7, 1, 1>>, <<3, 2, 1>>, <<5, 3, 1>> }
\* two steps of almost a right angle (theta = pi - 2^(2-k)), one step on either side of a right angle (the sign test of slerp)
NearRightKs == IF Thorough THEN {2, 3, 5, 8, 10, 12, 13, 16, 20, 24, 27, 29} ELSE {3, 12, 13, 20, 27, 29}
NearRight == { <<2^k - 1, 2^k, m>> : k \in NearRightKs, m \in {1, 2} } \cup { <<2^k + 1, 2^k, 1>> : k \in NearRightKs }
Exact == { <<0, 1, 1>>, <<0, 1, 2>>, <<0, 1, 3>>, <<1, 1, 1>> }                          \* x = y (and y = -x for the negated pair); exact quarter turn

BitsOf(n) == CHOOSE b \in 1..31 : n \div 2^(b - 1) = 1            \* n >= 1
WalkBits(s) == 2 * 3 * s[3] * BitsOf(IF s[1] > s[2] THEN s[1] ELSE s[2])
InBudget(s) == WalkBits(s) <= Budget
\* the machine below walks through the members of the family whose exact points stay below ModelBudget bits (190 bits for m = 1) (the small instance);
\* all of them are emitted for the harness and judged with the same closed forms by Trace_C13
ModelBudget == 150
\* a few deeper walks beyond the budget: fractional t inside and next to the linear-fallback zone of double
Deep == { <<1, 2^27, 2>>, <<1, 2^28, 3>>, <<1, 2^30, 2>> }
StepSet == { s \in SmallAngle \cup Pyth \cup Wide \cup NearRight \cup Exact : InBudget(s) } \cup Deep
MkWalk(xi, ai, s) == <<XS[xi][1], XS[xi][2], XS[xi][3], XS[xi][4], XS[xi][5], AXS[ai][1], AXS[ai][2], AXS[ai][3], AXS[ai][4], s[1], s[2], s[3]>>
\* the whole walk must stay on the oriented side: sin(j psi) > 0 for j = 1..m (m psi < pi), or psi = 0
Oriented(ww) == WP(ww) = 0 \/ \A jj \in 1..WM(ww) : ZSign(ArcAng(ww, jj).s) > 0
\* quick: one (x, axis) per step, rotating through the lists; thorough: two (the machine itself only walks through the first)
Mix(s, r) == (s[1] % 97) * 7 + (s[2] % 89) * 5 + s[3] * 3 + r * 11
WalkOf(s, r) == MkWalk((Mix(s, r) % Len(XS)) + 1, ((Mix(s, r) \div 3) % Len(AXS)) + 1, s)
Walks == { ww \in { WalkOf(s, r) : s \in StepSet, r \in (IF Thorough THEN 0..1 ELSE 0..0) } : Oriented(ww) }

\* ---------------------------------------------------------------- the machine
ModelWalks == { ww \in { WalkOf(s, 0) : s \in StepSet } : Oriented(ww) /\ WalkBits(<<WP(ww), WQ(ww), WM(ww)>>) <= (IF WM(ww) = 1 THEN 190 ELSE ModelBudget) }
Init == /\ w \in ModelWalks
        /\ j = 0 - 2 * WM(w)
        /\ cur = WalkCur(w, 0 - 2 * WM(w))
        /\ prev = WalkCur(w, 0 - 2 * WM(w) - 1)
Next == /\ j < 3 * WM(w)
        /\ j' = j + 1
        /\ cur' = QuatMul(WalkR(w), cur)
        /\ prev' = cur
        /\ UNCHANGED w
Spec == Init /\ [][Next]_vars

X == WalkX(w)
N == WalkN(w)
R == WalkR(w)
M == WM(w)

\* ---------------------------------------------------------------- the laws
\* inputs are what they are meant to be: unit x, unit step, unit n orthogonal to x
InvInputs == /\ WalkOK(w)
             /\ QEq(QuatNorm2(X), QOne) /\ QEq(QuatNorm2(R), QOne) /\ QEq(QuatNorm2(N), QOne) /\ QIsZero(QuatDot(X, N))
             /\ QuatEq(N, QuatMul(<<QZero, QFromInts(WAi(w, 1), WAd(w)), QFromInts(WAi(w, 2), WAd(w)), QFromInts(WAi(w, 3), WAd(w))>>, X))
\* the walk stays on the unit sphere and in the plane of x and y (= the plane of x and n)
InvSphere == QEq(QuatNorm2(cur), QOne)
\* (cur is in the plane of x and n = (0,a) x  iff  cur * conj(x) is in the plane of 1 and (0,a)  iff  its vector part is parallel to a)
InvPlane == LET q == QuatMul(cur, QuatConj(X))
                ax == << QFromInts(WAi(w, 1), WAd(w)), QFromInts(WAi(w, 2), WAd(w)), QFromInts(WAi(w, 3), WAd(w)) >>
            IN VIsZero(VCross(<< q[2], q[3], q[4] >>, ax))
\* end points
InvEnds == /\ (j = 0 => QuatEq(cur, X))
           /\ (j = M => QuatEq(cur, QuatMul(WalkCur([w EXCEPT ![1] = 1, ![2] = 0, ![3] = 0, ![4] = 0, ![5] = 1], M), X)))          \* y = r^m * x, r^m built on its own
\* constant step = constant angular speed: cur_j * conj(cur_(j-1)) = r, and the cosine between neighbours is cos psi
\* (the quotient itself on the inner part of the walk, where the numbers are small; the cosine everywhere)
InvStep == /\ (IAbs(j) <= M => QuatEq(QuatMul(cur, QuatConj(prev)), R))
           /\ QEq(QuatDot(cur, prev), R[1])
\* closed form used by the trace specification = the definition
InvClosed == /\ AngOK(ArcAng(w, j))
             /\ QuatEq(cur, PtQ(CurPt(w, j)))
             /\ QEq(QuatDot(cur, X), QMk(ArcAng(w, j).c, ArcAng(w, j).h))
\* the pair (x, -y): the short arc is the same arc when cos theta > 0 (slerp negates y);
\* the complementary arc from x to -y: its rational points are on the sphere, in the plane, start at x, end at -y, their m-th
\* "power" is the j-th power of the whole arc (angle * m = j * (pi - theta)), and between x and -y the first of them lies
\* strictly inside the arc on the -n side
CompAng(jj) == ArcPtAng(w, jj, 0, -1)
\* (c + i s)^n for an angle record, complex conjugate for negative n
AngPow(c, s, n) == LET z == CPow(<< c, s >>, IAbs(n)) IN IF n < 0 THEN << z[1], ZNeg(z[2]) >> ELSE z
InvAntipodal ==
    /\ (j = M /\ ShortSide(w) > 0 => QSign(QuatDot(X, QuatNeg(cur))) < 0 /\ QuatEq(QuatNeg(QuatNeg(cur)), cur))
    /\ (HasArcPt(w, j, 0, -1) =>
          LET a == CompAng(j) P == PtQ(PlanePt(w, a)) th == Theta(w)
              whole == AngPow(ZNeg(th.c), th.s, j)                 \* (cos(pi - theta) + i sin(pi - theta))^j
              mine == AngPow(a.c, ZNeg(a.s), M)                    \* the angle of P measured from x towards -n, times m
          IN /\ AngOK(a)
             /\ QEq(QuatNorm2(P), QOne)
             /\ QuatEq(P, VAdd(VScale(X, QuatDot(P, X)), VScale(N, QuatDot(P, N))))
             /\ (j = 0 => QuatEq(P, X))
             /\ (j = M => QuatEq(P, QuatNeg(WalkCur(w, M))))
             /\ ZEq(mine[1], whole[1]) /\ ZEq(mine[2], whole[2])
             /\ (0 < j /\ j < M /\ WP(w) > 0 => QSign(QuatDot(P, N)) < 0 /\ QLt(QMk(ZNeg(th.c), th.h), QuatDot(P, X))))
\* spin count k: the point at angle t (theta + k pi), t = j/m: its angle times m is j times (theta + k pi)
InvSpin ==
    \A k \in -3..3 :
      HasArcPt(w, j, k, 1) =>
        LET a == ArcPtAng(w, j, k, 1) th == Theta(w)
            whole == IF k % 2 = 0 THEN AngPow(th.c, th.s, j) ELSE AngPow(ZNeg(th.c), ZNeg(th.s), j)           \* theta + k pi
            mine == AngPow(a.c, a.s, M)
        IN AngOK(a) /\ ZEq(mine[1], whole[1]) /\ ZEq(mine[2], whole[2])
           /\ (k = 0 => QuatEq(PtQ(PlanePt(w, a)), cur))
\* the chord - arc gap bounds the distance between the affine blend and the arc point, component by component
InvChord ==
    LET y == WalkCur(w, M) t == QFromInts(j, M)
        blend == VAdd(VScale(X, QSub(QOne, t)), VScale(y, t))
    IN \A i \in 1..4 : QLe(QAbs(QSub(blend[i], cur[i])), ChordGap(w, j))
\* slerp(x, y, t) = slerp(y, x, 1 - t): walking back from y by m - j steps reaches the same point
InvSymmetry == QuatEq(cur, QuatMul(WalkCur([w EXCEPT ![1] = 1, ![2] = 0, ![3] = 0, ![4] = 0, ![5] = 1], j - M), WalkCur(w, M)))

\* ---------------------------------------------------------------- non-vacuity of the family (evaluated once)
ASSUME Cardinality(Walks) >= 60 /\ Cardinality(ModelWalks) >= 30
ASSUME \A ww \in ModelWalks : WalkOK(ww)
ASSUME \A t \in {"f32", "f64"} :
         /\ \E ww \in ModelWalks : WP(ww) > 0 /\ NearOne(t, Theta(ww).c, Theta(ww).h, 1)                        \* inside the linear-fallback zone
         /\ \E ww \in ModelWalks : ~NearOne(t, Theta(ww).c, Theta(ww).h, 1) /\ NearOne(t, Theta(ww).c, Theta(ww).h, 4)   \* just outside
         /\ \E ww \in ModelWalks : NearOne(t, ZNeg(Theta(ww).c), Theta(ww).h, 4)                                \* almost antipodal
ASSUME \E ww \in ModelWalks : ShortSide(ww) > 0
ASSUME \E ww \in ModelWalks : ShortSide(ww) < 0
ASSUME \E ww \in ModelWalks : ShortSide(ww) = 0
ASSUME \A mm \in 1..6 : \E ww \in ModelWalks : WM(ww) = mm /\ ShortSide(ww) > 0
ASSUME \E ww \in ModelWalks : WM(ww) = 4 /\ HasArcPt(ww, 2, 0, -1) /\ ~HasArcPt(ww, 1, 0, -1)
ASSUME \E ww \in ModelWalks : WM(ww) = 2 /\ HasArcPt(ww, 1, 3, 1)

\* ---------------------------------------------------------------- E2: the case file
RECURSIVE Join(_, _)
Join(s, i) == IF i > Len(s) THEN "" ELSE ToString(s[i]) \o (IF i = Len(s) THEN "" ELSE " ") \o Join(s, i + 1)
Line(ww) == Join(ww, 1) \o "\n"
ASSUME "OUT" \in DOMAIN IOEnv =>
         \A ww \in Walks : Serialize(Line(ww), IOEnv.OUT, [format |-> "TXT", charset |-> "UTF-8", openOptions |-> <<"WRITE", "CREATE", "APPEND">>]).exitValue = 0
=============================================================================
