------------------------------- MODULE MC_X04 -------------------------------
(***************************************************************************)
(* Bounded model for stage X04 (rotation-form extras).                     *)
(* The machine walks along geodesics of SO(3): a walk is an axis n (integer*)
(* vector of integer length), a step angle psi = 2 * (half angle h given   *)
(* by a Pythagorean triple), a span (a, m) and a base orientation b (a     *)
(* rational unit quaternion); the state after j steps holds                *)
(*     cur  = R(n, psi)^j R(n, a psi) Mat(b)   (matrix, built step by step)*)
(*     qcur = q(n, h)^j  q(n, a h) b            (quaternion, step by step) *)
(* The invariants are the laws of the area, stated with the definitions of *)
(* GlmX04 (closed forms through powers on the rational circle):            *)
(*   geodesic / interpolate, axis-angle extraction (general, identity and  *)
(*   half-turn cases), rotateNormalizedAxis, pow / sqrt / exp / log,       *)
(*   cross / length2 / extractRealComponent, quatLookAt, and - in the      *)
(*   "rel" states - the four relational functions on every pair of bit     *)
(*   patterns of the 8-bit mini format.  The last invariant proves the     *)
(*   dyadic twins used by Trace_X04 equal to the rational definitions.     *)
(***************************************************************************)
EXTENDS GlmX04, TLC
VARIABLES ph, grp, wk, j, cur, qcur
vars == <<ph, grp, wk, j, cur, qcur>>

AxesT == << <<1, 0, 0, 1>>, <<0, 0, 1, 1>>, <<1, 2, 2, 3>>, <<2, 3, 6, 7>>, <<-1, 4, -8, 9>>, <<0, 4, -3, 5>> >>
\* half angles h (cos, sin, den): psi = 2h is 73.7, 45.2, 180, 106.3 degrees and 2^-10 rad
HalfT == << <<4, 3, 5>>, <<12, 5, 13>>, <<0, 1, 1>>, <<3, 4, 5>>, <<16777215, 8192, 16777217>> >>
SpanT == << <<0, 3>>, <<-1, 2>>, <<0, 2>> >>                            \* start multiple a, number of steps m
BaseT == << <<1, 0, 0, 0, 1>>, <<1, 1, 1, 1, 2>>, <<2, -4, 5, 6, 9>> >>
\* every axis x the four ordinary step angles x two spans x every base; the 2^-10 rad step (24-bit integers) on two axes only
Walks == ((1..Len(AxesT)) \X (1..4) \X (1..2) \X (1..Len(BaseT))) \cup { <<1, 5, 3, 1>>, <<3, 5, 3, 2>>, <<4, 5, 3, 1>> }

AxN(w) == LET u == AxesT[w[1]] IN << QF(u[1], u[4]), QF(u[2], u[4]), QF(u[3], u[4]) >>
HalfP(w) == LET t == HalfT[w[2]] IN << QF(t[1], t[3]), QF(t[2], t[3]) >>
StepP(w) == Dbl(HalfP(w))
SpanA(w) == SpanT[w[3]][1]
SpanM(w) == SpanT[w[3]][2]
BaseQ(w) == LET t == BaseT[w[4]] IN << QF(t[1], t[5]), QF(t[2], t[5]), QF(t[3], t[5]), QF(t[4], t[5]) >>
T1 == << QI(1), QI(-2), QF(1, 2) >>
T2 == << QI(-3), QI(0), QI(5) >>

NG == 16
GrpOf(w) == (w[1] + 3 * w[2] + 5 * w[3] + 7 * w[4]) % NG
Init == ph = "pick" /\ grp \in 0..(NG - 1) /\ wk = <<1, 1, 1, 1>> /\ j = 0 /\ cur = M3Id /\ qcur = QId
PickW == /\ ph = "pick" /\ ph' = "walk" /\ wk' \in {w \in Walks : GrpOf(w) = grp} /\ j' = 0
         /\ cur' = M3Mul(RotAx(CPow(StepP(wk'), SpanA(wk')), AxN(wk')), QuatToMat3(BaseQ(wk')))
         /\ qcur' = QuatMul(AxisQuat(CPow(HalfP(wk'), SpanA(wk')), AxN(wk')), BaseQ(wk'))
         /\ UNCHANGED grp
PickR == ph = "pick" /\ ph' = "rel" /\ UNCHANGED <<grp, wk, j, cur, qcur>>
Step == /\ ph = "walk" /\ j < SpanM(wk) /\ j' = j + 1
        /\ cur' = M3Mul(RotAx(StepP(wk), AxN(wk)), cur)                     \* one more step of psi about n
        /\ qcur' = QuatMul(AxisQuat(HalfP(wk), AxN(wk)), qcur)
        /\ UNCHANGED <<ph, grp, wk>>
Next == PickW \/ PickR \/ Step
Spec == Init /\ [][Next]_vars

InWalk == ph = "walk"
\* the two ends of the walk as 4x4 rigid transforms
B3 == QuatToMat3(BaseQ(wk))
M1 == Affine4(M3Mul(RotAx(CPow(StepP(wk), SpanA(wk)), AxN(wk)), B3), T1)
M2 == Affine4(M3Mul(RotAx(CPow(StepP(wk), SpanA(wk) + SpanM(wk)), AxN(wk)), B3), T2)

\* ---------------------------------------------------------------- geodesic / interpolate
InvGeodesic == InWalk => LET n == AxN(wk) p == StepP(wk) a == SpanA(wk) m == SpanM(wk) I == Interp(M1, M2, n, p, m, j) IN
    /\ MEq(cur, M3Mul(RotAx(CPow(p, a + j), n), B3))                        \* the step-by-step walk is on the closed-form geodesic
    /\ IsRot3(cur) /\ MEq(QuatToMat3(qcur), cur) /\ QEq(QuatNorm2(qcur), QOne)
    /\ DeltaRel(M1, M2, n, p, m)
    /\ MEq(Rot3Of(I), cur)                                                 \* interpolate(M1, M2, j/m) has the walk's rotation
    /\ (j = 0 => MEq(I, M1)) /\ (j = m => MEq(I, M2))                      \* t = 0 -> M1, t = 1 -> M2
    /\ AllEq(VSub(InterpTrans(T1, T2, j + 1, m), Trans3Of(I)), VScale(VSub(T2, T1), QF(1, m)))      \* translation moves at constant speed
    /\ \A c \in 1..3 : QIsZero(MAt(I, c, 4))
    /\ QEq(MAt(I, 4, 4), QOne)
    /\ MEq(InterpRot(Rot3Of(M1), n, p, j + 1), M3Mul(RotAx(p, n), Rot3Of(I)))                        \* constant angular speed

\* ---------------------------------------------------------------- axis-angle of the rotation made so far
\* D = cur * M1rot^T = R(n, j psi).  Its (axis, angle) by the convention of the function: angle in [0, pi]; half turn: largest component positive
Delta == M3Mul(cur, M3T(Rot3Of(M1)))
Canon(D, n, pj) ==
    IF QSign(pj[2]) > 0 THEN << n, pj >>
    ELSE IF QSign(pj[2]) < 0 THEN << VNeg(n), CConj(pj) >>
    ELSE IF QSign(pj[1]) > 0 THEN << n, pj >>
    ELSE IF QSign(n[HalfTurnIndex(D)]) > 0 THEN << n, pj >> ELSE << VNeg(n), pj >>
InvAxisAngle == InWalk => LET n == AxN(wk) pj == CPow(StepP(wk), j) D == Delta cn == Canon(D, n, pj) IN
    /\ MEq(D, RotAx(pj, n)) /\ MEq(RotAx(pj, n), RotAxis3(pj[1], pj[2], n)) /\ AllEq(AxisQuat(pj, n), AngleAxisQ(pj, n))     \* = the definitions of LinQ / GlmQuat
    /\ (j = 1 => /\ MEq(M3Mul(cur, D), MMul(cur, D)) /\ MEq(M3T(D), MTranspose(D)) /\ QEq(M3Det(D), MDet(D)) /\ MEq(Embed4(D), MEmbed4(D))
                 /\ AllEq(M3Vec(D, T1), MVec(D, T1)) /\ MEq(M43Mul(Affine4(cur, T1), D), MMul(Affine4(cur, T1), MEmbed4(D))) /\ IsRot3(D) = IsRotation(D))
    /\ AxisAngleRel(D, cn[1], cn[2]) /\ AxisAngleModel(D, cn[1], cn[2])
    /\ (~MEq(D, M3Id) => ~AxisAngleModel(D, VNeg(cn[1]), cn[2]))                     \* the model is single valued
    /\ (QSign(cn[2][2]) # 0 => ~AxisAngleModel(D, cn[1], CConj(cn[2])))
    /\ QEq(TraceCos(D), pj[1]) /\ AllEq(AntiVec(D), VScale(n, QMul(QI(2), pj[2])))
    /\ (QEq(pj[1], QI(-1)) => \A b \in 1..3 : AllEq(HalfTurnProducts(D, b), VScale(n, n[b])))
    /\ MEq(RotAx(CConj(pj), VNeg(n)), D) /\ MEq(RotAx(CConj(pj), n), M3T(D))
    /\ MEq(Rot3Of(AxisAngleMatrix(cn[1], cn[2])), D)
    /\ MEq(ExtractRotation(Affine4(D, T2)), Embed4(D))

\* ---------------------------------------------------------------- rotateNormalizedAxis
InvRna == InWalk => LET n == AxN(wk) h == HalfP(wk) p == StepP(wk) r == RnaM(Affine4(cur, T1), p, n) IN
    /\ MEq(Rot3Of(r), M3Mul(cur, RotAx(p, n))) /\ AllEq(Trans3Of(r), T1) /\ QEq(MAt(r, 4, 4), QOne)
    /\ \A c \in 1..3 : QIsZero(MAt(r, c, 4))
    /\ MEq(QuatToMat3(RnaQ(qcur, h, n)), M3Mul(cur, RotAx(p, n)))
    /\ QEq(QuatNorm2(RnaQ(qcur, h, n)), QOne)

\* ---------------------------------------------------------------- pow / sqrt / exp / log along the axis, cross / length2 / extractRealComponent
InvPow == InWalk => LET n == AxN(wk) h == HalfP(wk) a == SpanA(wk) q1 == AxisQuat(h, n) qj == AxisQuat(CPow(h, j), n) k == QF(3, 2) IN
    /\ AllEq(QPowInt(q1, j), qj) /\ AllEq(PowAxis(h, n, j), qj)
    /\ AllEq(QuatMul(qj, qj), PowAxis(h, n, 2 * j))                                     \* sqrt: the root of the doubled angle
    /\ AllEq(QPowInt(qj, -1), QuatConj(qj)) /\ AllEq(QPowInt(q1, 0 - j), QuatConj(qj))
    /\ (j = 0 => AllEq(QuatMul(QPowInt(qcur, 3), QPowInt(qcur, -2)), qcur))
    /\ AllEq(QPowInt(VScale(qj, k), 2), VScale(PowAxis(h, n, 2 * j), Sq(k)))
    /\ AllEq(ExpQ(QOne, CPow(h, j), n), qj) /\ AllEq(ExpQ(k, CPow(h, j), n), VScale(qj, k))
    /\ (LogRel(VScale(qj, k), k, CPow(h, j), n) <=> QSign(CPow(h, j)[2]) >= 0)
    /\ (QSign(CPow(h, j)[2]) < 0 => LogRel(qj, QOne, CConj(CPow(h, j)), VNeg(n)))       \* the logarithm's angle is in [0, pi]
    /\ (PrincipalUpTo(h, j) <=> ((\A i \in 1..j : QSign(CPow(h, i)[2]) >= 0) /\ (QIsZero(h[2]) => j <= 1 \/ QSign(h[1]) > 0)))
    \* the pinned wrong value of pow for w < -cos(1/2): the power of (-w, v) = -conj(q)
    /\ \A y \in {2, -1} : AllEq(QPowInt(VNeg(QuatConj(qj)), y), AxisQuat(PowWrongAngle(h, j * y, 2 * y), n))
    /\ LET r == AxisQuat(PowWrongAngle(h, j, 1), n) IN AllEq(QuatMul(r, r), VNeg(QuatConj(PowAxis(h, n, 2 * j))))
    \* Hamilton product: norm multiplicative, cross(q, conj q) = |q|^2, matrix of the product
    /\ LET b == BaseQ(wk) pr == QCross(VScale(qcur, k), b) IN
         /\ QEq(QLength2(pr), QMul(QLength2(VScale(qcur, k)), QLength2(b)))
         /\ AllEq(QCross(qcur, QuatConj(qcur)), QId)
         /\ (j = 1 => MEq(QuatToMat3(QCross(qcur, b)), M3Mul(cur, QuatToMat3(b))))
    /\ RealComponentRel(qcur, IF QSign(qcur[1]) > 0 THEN QNeg(qcur[1]) ELSE qcur[1])
    /\ (~QIsZero(qcur[1]) => ~RealComponentRel(qcur, QAbs(qcur[1])))
    /\ RealComponentRel(VScale(qcur, QI(2)), QZero) = QLe(QOne, QMul(QI(4), VNorm2(QVec(qcur))))

\* ---------------------------------------------------------------- quatLookAt: the orientation itself looks along its own third column
\* (evaluated at the end of every walk)
InvLookAt == (InWalk /\ j = SpanM(wk)) => LET c2 == M3Col(cur, 2) c3 == M3Col(cur, 3) up == VAdd(VScale(c2, QI(2)), c3) up2 == VSub(VScale(c2, QF(1, 3)), VScale(c3, QI(4))) IN
    /\ IsRot3(cur)
    /\ LookAtRel(qcur, VNeg(c3), up, FALSE) /\ LookAtRel(VNeg(qcur), c3, up2, TRUE)
    /\ LookAtMatRel(cur, VNeg(c3), up2, FALSE)
    /\ ~LookAtRel(QuatMul(qcur, << QZero, QZero, QZero, QOne >>), VNeg(c3), up, FALSE)      \* half turn about the view axis: upside down
    /\ ~LookAtRel(qcur, VNeg(c3), up, TRUE)                                                \* wrong handedness
    /\ ~LookAtRel(QuatMul(qcur, << QF(3, 5), QF(4, 5), QZero, QZero >>), VNeg(c3), up, FALSE)

\* ---------------------------------------------------------------- relational functions on the 8-bit mini format (all 65 536 pairs over the 16 groups)
Pat(i) == Fields(FMini, << i >>)
InvRel == ph = "rel" => \A x \in {i \in 0..255 : i % NG = grp} : \A y \in 0..255 : LET a == Pat(x) b == Pat(y) nan == IsNaN(FMini, a) \/ IsNaN(FMini, b) IN
    /\ RelOp("lt", FMini, a, b) = RelOp("gt", FMini, b, a) /\ RelOp("le", FMini, a, b) = RelOp("ge", FMini, b, a)
    /\ (nan => \A op \in {"lt", "le", "gt", "ge"} : ~RelOp(op, FMini, a, b))
    /\ (~nan => /\ RelOp("lt", FMini, a, b) = ~RelOp("ge", FMini, a, b) /\ RelOp("gt", FMini, a, b) = ~RelOp("le", FMini, a, b)
                /\ (RelOp("le", FMini, a, b) /\ RelOp("ge", FMini, a, b)) = (x = y \/ (IsZero(FMini, a) /\ IsZero(FMini, b))))
    /\ ((IsFinite(FMini, a) /\ IsFinite(FMini, b)) => /\ RelOp("lt", FMini, a, b) = DLt(Val(FMini, a), Val(FMini, b))
                                                      /\ RelOp("le", FMini, a, b) = DLe(Val(FMini, a), Val(FMini, b)))
    /\ ((IsInf(FMini, b) /\ b.s = 0 /\ IsFinite(FMini, a)) => RelOp("lt", FMini, a, b))
    /\ ((IsInf(FMini, b) /\ b.s = 1 /\ IsFinite(FMini, a)) => RelOp("gt", FMini, a, b))

\* ---------------------------------------------------------------- the dyadic twins of Trace_X04
SameQ(ds, qs) == AllEq(QOfDs(ds), qs)
InvTwins == InWalk =>
    LET u == AxesT[wk[1]] ad == << DI(u[1]), DI(u[2]), DI(u[3]) >> L == DI(u[4]) n == AxN(wk)
        ht == HalfT[wk[2]] hd == << DI(ht[1]), DI(ht[2]), DI(ht[3]) >> h == HalfP(wk)
        k == j - 2
        pk == DCPows(hd, k) den == QFromD(pk[3])
        bt == BaseT[wk[4]] bd == << DI(bt[1]), DI(bt[2]), DI(bt[3]), DI(bt[4]) >> bq == VScale(BaseQ(wk), QI(bt[5]))
        b3 == DqToMat3(bd)
        m4 == << DI(1), DI(2), DI(-3), DI(0),   DI(0), DI(5), DI(7), DI(0),   DI(-2), DI(1), DI(1), DI(4),   DI(9), DI(-8), DI(6), DI(1) >>
        m4q == Mat(4, 4, QOfDs(m4))
    IN /\ SameQ(<< pk[1], pk[2] >>, VScale(CPow(h, k), den))
       /\ SameQ(DRotAxiss(pk, ad, L), MScale(RotAx(CPow(h, k), n), QFromD(DMul(pk[3], DSq(L)))).e)
       /\ SameQ(DAngleAxiss(pk, ad, L), VScale(AxisQuat(CPow(h, k), n), QFromD(DMul(pk[3], L))))
       /\ SameQ(Dm43Mul(m4, DRotAxiss(pk, ad, L)), LET r == MScale(RnaM(m4q, CPow(h, k), n), QFromD(DMul(pk[3], DSq(L)))) IN [i \in 1..12 |-> r.e[i]])
       /\ SameQ(DAntiVec(b3), AntiVec(QuatToMat3(bq))) /\ QEq(QFromD(DTraceCos2(b3)), QMul(QI(2), TraceCos(QuatToMat3(bq))))
       /\ SameQ(DqPowN(bd, j), QPowN(bq, j))
       /\ SameQ(DFour(b3), FourSqM1(QuatToMat3(bq))) /\ \A b \in 1..4 : SameQ(DCombos(b3, b), QuatCastCombos(QuatToMat3(bq), b))
       /\ \A ty \in {1, 2, -2, 3} : LET w == DPowWrongAngles(hd, k, ty) IN SameQ(<< w[1], w[2] >>, VScale(PowWrongAngle(h, k, ty), QFromD(w[3])))
       /\ QEq(QFromD(DPowInt(L, j)), QI(u[4] ^ j))
       /\ M4Top3(m4) = << m4[1], m4[2], m4[3], m4[5], m4[6], m4[7], m4[9], m4[10], m4[11] >> /\ M4Trans(m4) = << DI(9), DI(-8), DI(6) >>

\* ---------------------------------------------------------------- non-vacuity
ASSUME \A i \in 1..Len(HalfT) : CsOnCircle(<< QF(HalfT[i][1], HalfT[i][3]), QF(HalfT[i][2], HalfT[i][3]) >>)
ASSUME \A i \in 1..Len(AxesT) : AxesT[i][1] ^ 2 + AxesT[i][2] ^ 2 + AxesT[i][3] ^ 2 = AxesT[i][4] ^ 2
ASSUME \A i \in 1..Len(BaseT) : BaseT[i][1] ^ 2 + BaseT[i][2] ^ 2 + BaseT[i][3] ^ 2 + BaseT[i][4] ^ 2 = BaseT[i][5] ^ 2
ASSUME Cardinality(Walks) = 147 /\ \A g \in 0..(NG - 1) : \E w \in Walks : GrpOf(w) = g
\* every branch of the half-turn case is reached: x, y and z dominant axes
ASSUME \A b \in 1..3 : \E i \in 1..Len(AxesT) : LET u == AxesT[i] n == << QF(u[1], u[4]), QF(u[2], u[4]), QF(u[3], u[4]) >> IN HalfTurnIndex(RotAx(<< QI(-1), QZero >>, n)) = b
=============================================================================
