SPECIFICATION Spec
INVARIANTS InvTranslate InvScale InvRotate InvShear InvLookAt InvLookAtCount InvDecompose
CHECK_DEADLOCK FALSE
