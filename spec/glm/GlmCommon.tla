----------------------------- MODULE GlmCommon -----------------------------
(***************************************************************************)
(* Per-value definitions of the GLSL "common" functions (C11), on exact    *)
(* values of IEEE patterns.  A pattern is decoded to fields (IEEE.tla);    *)
(* every definition is stated on the exact dyadic value Val(f, x), results *)
(* that must be integers are exact BigInts, results of the composite       *)
(* formulas are exact rationals to be met within a stated tolerance.       *)
(* The sign of a zero result is not constrained (GLSL does not fix it).    *)
(***************************************************************************)
EXTENDS Words

Half == DMk(FALSE, <<1>>, -1)
\* integer roundings of a dyadic, as signed BigInts
FloorZ(d) == DFloor(d)
CeilZ(d)  == ZNeg(DFloor(DNeg(d)))
TruncZ(d) == IF d.neg THEN CeilZ(d) ELSE FloorZ(d)
RoundAwayZ(d) == IF d.neg THEN ZNeg(DFloor(DAdd(DAbs(d), Half))) ELSE DFloor(DAdd(d, Half))     \* ties away from zero
IsTie(d) == DEq(DSub(d, DFromZ(FloorZ(d))), Half)
RoundEvenZ(d) == LET fl == FloorZ(d) IN
                 IF IsTie(d) THEN (IF NIsEven(fl.m) THEN fl ELSE ZAdd(fl, ZFromInt(1)))
                 ELSE DFloor(DAdd(d, Half))
\* the set of nearest integers (both on a tie)
NearestZSet(d) == IF IsTie(d) THEN {FloorZ(d), ZAdd(FloorZ(d), ZFromInt(1))} ELSE {DFloor(DAdd(d, Half))}

\* r denotes exactly the value v (zero of either sign when v = 0)
HasValue(f, r, v) == IsFinite(f, r) /\ DEq(Val(f, r), v)
HasValueZ(f, r, z) == HasValue(f, r, DFromZ(z))
\* r is the correctly rounded value of the dyadic v (exact when representable), zero sign free
IsRounded(f, r, v) == IF DIsZero(v) THEN IsZero(f, r) ELSE (IsFinite(f, r) /\ DEq(Val(f, r), v)) \/ IsRNED(f, r, v)
SamePattern(f, r, x) == r = x

\* unary functions on a finite x : expected integer-valued result
IntegralOp(op, d) ==
    CASE op = "floor" -> FloorZ(d) [] op = "ceil" -> CeilZ(d) [] op = "trunc" -> TruncZ(d)
      [] op = "round" -> RoundAwayZ(d) [] op = "roundEven" -> RoundEvenZ(d)

FractV(d) == DSub(d, DFromZ(FloorZ(d)))                    \* exact x - floor(x), in [0, 1)
SignI(d) == DSign(d)

\* frexp: x = m * 2^e with 1/2 <= |m| < 1
FrexpOK(f, x, m, e) ==
    IF IsZero(f, x) THEN IsZero(f, m) /\ e = 0
    ELSE /\ IsFinite(f, m) /\ ~IsZero(f, m)
         /\ DEq(Val(f, x), DMul2k(Val(f, m), e))
         /\ DLe(Half, DAbs(Val(f, m))) /\ DLt(DAbs(Val(f, m)), DFromInt(1))

\* mod as the documented float expression x - y * floor(x / y), every operation correctly rounded
ModFormula(f, x, y) ==
    LET q == FDiv(f, x, y)
    IN IF ~IsFinite(f, q) THEN q
       ELSE LET fl == RoundD(f, DFromZ(FloorZ(Val(f, q))), q.s)
                p  == FMul(f, y, fl)
            IN IF ~IsFinite(f, p) THEN p ELSE FSub(f, x, p)
\* mod over the reals: x - y * floor(x / y)
ModExactQ(f, x, y) ==
    LET X == QFromD(Val(f, x)) Y == QFromD(Val(f, y))
    IN QSub(X, QMul(Y, QMk(QFloor(QDiv(X, Y)), <<1>>)))

\* minimum / maximum of a non-empty set of finite-or-infinite (non-NaN) patterns, as the set of acceptable patterns
OrdLe(f, a, b) == ZLe(OrdC(f, a), OrdC(f, b))
MinSet(f, S) == {a \in S : \A b \in S : OrdLe(f, a, b)}
MaxSet(f, S) == {a \in S : \A b \in S : OrdLe(f, b, a)}

\* smoothstep over the rationals
ClampQ(t, lo, hi) == QMin(QMax(t, lo), hi)
SmoothQ(e0, e1, x) == LET t == ClampQ(QDiv(QSub(x, e0), QSub(e1, e0)), QZero, QOne)
                      IN QMul(QMul(t, t), QSub(QFromInt(3), QMulInt(t, 2)))
MixQ(x, y, a) == QAdd(QMul(x, QSub(QOne, a)), QMul(y, a))

\* mirrorRepeat: parity of floor(|x|) chooses rest or 1 - rest
MirrorRepeatV(d) == LET a == DAbs(d) fl == FloorZ(a) rest == DSub(a, DFromZ(fl))
                    IN IF NIsEven(fl.m) THEN rest ELSE DSub(DFromInt(1), rest)
=============================================================================
