---------------------------- MODULE GlmTransform ---------------------------
(***************************************************************************)
(* Definitional semantics of the transform builders (property C09):        *)
(*   glm/ext/matrix_transform   identity translate rotate scale shear      *)
(*                              (+ the *_slow reference forms) lookAt      *)
(*   glm/gtx/transform          translate(v) rotate(a, axis) scale(v)      *)
(*   glm/gtx/transform2         shearX2D .. shearZ3D reflect proj scaleBias*)
(*   glm/gtx/rotate_vector      rotate (vec2/3/4) rotateX/Y/Z orientation  *)
(*   glm/gtx/rotate_normalized_axis, glm/gtx/matrix_transform_2d           *)
(*   glm/gtx/matrix_decompose   decompose recompose                        *)
(*   glm/gtx/matrix_interpolation axisAngle axisAngleMatrix                *)
(*                              extractMatrixRotation interpolate          *)
(* Everything is exact: rationals (LinQ) for the elementary matrices and   *)
(* their products, dyadics for the postconditions that are evaluated on    *)
(* observed matrices (lookAt, orientation, decompose, axisAngle).  There   *)
(* is no floating point, no sin / cos / sqrt in this module: angles enter  *)
(* as rational (cos, sin) pairs, unit axes as rational unit vectors, roots *)
(* only through squared postconditions.                                    *)
(* Matrices are column-major like GLM: MAt(m, col, row) = m[col-1][row-1]. *)
(***************************************************************************)
EXTENDS LinQ

\* ---------------------------------------------------------------- small helpers
\* Strict binding: x is evaluated ONCE and F receives the value.  (TLC passes operator arguments and LET definitions
\* lazily and does not reliably cache them when they are first used under a quantifier or LAMBDA: a chain of matrix
\* products then costs exponential time.)
Bind(x, F(_)) == CHOOSE r \in { F(y) : y \in {x} } : TRUE
MFromCols(cols) == MFromFn(Len(cols), Len(cols[1]), LAMBDA c, r : cols[c][r])
\* linear combination  sum_k coef[k] * column k of M   (k = 1 .. Len(coef))
ColComb(M, coef) == [r \in 1..M.r |-> QSum([k \in 1..Len(coef) |-> QMul(coef[k], MAt(M, k, r))])]
MAbs(M) == Mat(M.c, M.r, [k \in 1..Len(M.e) |-> QAbs(M.e[k])])
QSq(x) == QMul(x, x)
\* Exact.tla keeps rationals unreduced; chains of matrix products need lowest terms to stay small
RECURSIVE NGcd(_, _)
NGcd(a, b) == IF Len(b) = 0 THEN a ELSE NGcd(b, NDivMod(a, b)[2])
QRed(a) == IF QIsZero(a) THEN QZero
           ELSE LET g == NGcd(a.p.m, a.q) IN IF g = <<1>> THEN a ELSE QMk(ZMk(a.p.neg, NDivMod(a.p.m, g)[1]), NDivMod(a.q, g)[1])
MRed(M) == Mat(M.c, M.r, [i \in 1..Len(M.e) |-> QRed(M.e[i])])
MMulR(X, Y) == MRed(MMul(X, Y))
\* the unit vector of an axis whose length is the rational an / ad (checked by the caller with IsNormOf)
IsNormOf(axis, an, ad) == an > 0 /\ ad > 0 /\ QEq(QMul(VNorm2(axis), QI(ad * ad)), QI(an * an))
UnitAxis(axis, an, ad) == VScale(axis, QF(ad, an))
IsCosSin(cn, sn, cd) == cd > 0 /\ cn * cn + sn * sn = cd * cd

\* ---------------------------------------------------------------- elementary 4x4 matrices
Translate4(v) == MFromFn(4, 4, LAMBDA c, r : IF c = r THEN QOne ELSE IF c = 4 /\ r <= 3 THEN v[r] ELSE QZero)
Scale4(v) == MFromFn(4, 4, LAMBDA c, r : IF c # r THEN QZero ELSE IF c <= 3 THEN v[c] ELSE QOne)
\* Rodrigues rotation by the angle with cosine co and sine si about the axis ax, USED AS GIVEN (rotateNormalizedAxis);
\* rotate / rotate_slow / axisAngleMatrix normalise their axis first: Rot4(co, si, UnitAxis(..))
Rot4(co, si, ax) == MEmbed4(RotAxis3(co, si, ax))
\* shear(m, p, l_x, l_y, l_z) (header of ext/matrix_transform):
\*   [ 1    l_xy l_xz  -(l_xy+l_xz) p_x ]
\*   [ l_yx 1    l_yz  -(l_yx+l_yz) p_y ]        l_x = (l_xy, l_xz)  l_y = (l_yx, l_yz)  l_z = (l_zx, l_zy)
\*   [ l_zx l_zy 1     -(l_zx+l_zy) p_z ]
\*   [ 0    0    0      1               ]
Shear4(p, lx, ly, lz) ==
    Mat(4, 4, << QOne, ly[1], lz[1], QZero,
                 lx[1], QOne, lz[2], QZero,
                 lx[2], ly[2], QOne, QZero,
                 QNeg(QMul(QAdd(lx[1], lx[2]), p[1])), QNeg(QMul(QAdd(ly[1], ly[2]), p[2])), QNeg(QMul(QAdd(lz[1], lz[2]), p[3])), QOne >>)

\* the hand-expanded ("fast path") column formulas of ext/matrix_transform.inl; the *_slow forms are MMul(M, E)
TranslateFast(M, v) == MFromCols(<< MCol(M, 1), MCol(M, 2), MCol(M, 3), ColComb(M, << v[1], v[2], v[3], QOne >>) >>)
ScaleFast(M, v) == MFromCols(<< VScale(MCol(M, 1), v[1]), VScale(MCol(M, 2), v[2]), VScale(MCol(M, 3), v[3]), MCol(M, 4) >>)
RotateFast(M, R3) == MFromCols(<< ColComb(M, MCol(R3, 1)), ColComb(M, MCol(R3, 2)), ColComb(M, MCol(R3, 3)), MCol(M, 4) >>)
ShearFast(M, H) == MFromCols([c \in 1..4 |-> ColComb(M, MCol(H, c))])

\* ---------------------------------------------------------------- gtx/transform2
E4Set(entries) == MFromFn(4, 4, LAMBDA c, r : IF <<c, r>> \in DOMAIN entries THEN entries[<<c, r>>] ELSE IF c = r THEN QOne ELSE QZero)
E3Set(entries) == MFromFn(3, 3, LAMBDA c, r : IF <<c, r>> \in DOMAIN entries THEN entries[<<c, r>>] ELSE IF c = r THEN QOne ELSE QZero)
\* an entry list is a function from <<col, row>> (1-based) to the value
One1(c, r, x) == [p \in {<<c, r>>} |-> x]
Two2(c1, r1, x1, c2, r2, x2) == [p \in {<<c1, r1>>, <<c2, r2>>} |-> IF p = <<c1, r1>> THEN x1 ELSE x2]
\* horizontal shear  x' = x + k y  (lines parallel to the x axis slide along themselves) / vertical shear  y' = y + k x
HShear3(k) == E3Set(One1(2, 1, k))
VShear3(k) == E3Set(One1(1, 2, k))
ShearX2D(s) == HShear3(s)                         \* transform2: r[1][0] = s
ShearY2D(s) == VShear3(s)                         \* transform2: r[0][1] = s
\* the 3D forms of transform2 ("shearing on the X axis": the y and z coordinates move in proportion to x)
ShearX3D(s, t) == E4Set(Two2(1, 2, s, 1, 3, t))
ShearY3D(s, t) == E4Set(Two2(2, 1, s, 2, 3, t))
ShearZ3D(s, t) == E4Set(Two2(3, 1, s, 3, 2, t))
\* I - k n n^T on the first d coordinates (k = 2: reflection in the plane with unit normal n, k = 1: projection onto it)
PlaneMap(n, d, dim, k) == MFromFn(dim, dim, LAMBDA c, r : IF c <= d /\ r <= d THEN QSub(IF c = r THEN QOne ELSE QZero, QMul(k, QMul(n[c], n[r])))
                                                      ELSE IF c = r THEN QOne ELSE QZero)
Reflect2D(n) == PlaneMap(n, 2, 3, QI(2))
Reflect3D(n) == PlaneMap(n, 3, 4, QI(2))
Proj2D(n) == PlaneMap(n, 2, 3, QOne)
Proj3D(n) == PlaneMap(n, 3, 4, QOne)
ScaleBias(s, b) == MFromFn(4, 4, LAMBDA c, r : IF c = 4 THEN (IF r = 4 THEN QOne ELSE b) ELSE IF c = r THEN s ELSE QZero)

\* ---------------------------------------------------------------- gtx/matrix_transform_2d (3x3, homogeneous 2D)
Translate3(v) == MFromFn(3, 3, LAMBDA c, r : IF c = r THEN QOne ELSE IF c = 3 THEN v[r] ELSE QZero)
Scale3(v) == MFromFn(3, 3, LAMBDA c, r : IF c # r THEN QZero ELSE IF c <= 2 THEN v[c] ELSE QOne)
Rot3(co, si) == Mat(3, 3, << co, si, QZero, QNeg(si), co, QZero, QZero, QZero, QOne >>)            \* counter-clockwise
\* documented: shearX = horizontal (parallel to the x axis), shearY = vertical (parallel to the y axis)
ShearX2d(k) == HShear3(k)
ShearY2d(k) == VShear3(k)

\* ---------------------------------------------------------------- gtx/rotate_vector
Rotate2(v, co, si) == << QSub(QMul(v[1], co), QMul(v[2], si)), QAdd(QMul(v[1], si), QMul(v[2], co)) >>
AxisVec(i) == [j \in 1..3 |-> IF i = j THEN QOne ELSE QZero]
RotateAxisK(v, co, si, i) ==          \* rotateX / Y / Z: about coordinate axis i, further components unchanged
    LET w == MVec(RotAxis3(co, si, AxisVec(i)), << v[1], v[2], v[3] >>) IN [j \in 1..Len(v) |-> IF j <= 3 THEN w[j] ELSE v[j]]
\* half-angle quaternion of the rotation (ch, sh = cos, sin of HALF the angle) about the axis used as given
AxisQuat(ch, sh, ax) == << ch, QMul(sh, ax[1]), QMul(sh, ax[2]), QMul(sh, ax[3]) >>

\* ---------------------------------------------------------------- lookAt
\* The construction of ext/matrix_transform.inl without the normalisations (each row is a positive multiple of the
\* row GLM builds):   f = center - eye,   RH: s = f x up, u = s x f, rows (s, u, -f)
\*                                        LH: s = up x f, u = f x s, rows (s, u, +f)
LookAtRows(eye, center, up, lh) ==
    LET f == VSub(center, eye)
        s == IF lh THEN VCross(up, f) ELSE VCross(f, up)
        u == IF lh THEN VCross(f, s) ELSE VCross(s, f)
    IN << s, u, IF lh THEN f ELSE VNeg(f) >>
\* 4x4 with these (un-normalised) rows and the translation that sends eye to the origin
LookAtUn(eye, center, up, lh) ==
    LET rw == LookAtRows(eye, center, up, lh)
    IN MFromFn(4, 4, LAMBDA c, r : IF r = 4 THEN (IF c = 4 THEN QOne ELSE QZero)
                                   ELSE IF c = 4 THEN QNeg(VDot(rw[r], eye)) ELSE rw[r][c])
LookAtDomain(eye, center, up) == ~VIsZero(VSub(center, eye)) /\ ~VIsZero(VCross(VSub(center, eye), up))
Row3(M, r) == << MAt(M, 1, r), MAt(M, 2, r), MAt(M, 3, r) >>
Upper3(M) == IF M.c >= 3 THEN MFromFn(3, 3, LAMBDA c, r : MAt(M, c, r)) ELSE M
\* The postconditions of the property on a matrix whose three upper rows may each carry a positive factor
\* (they are invariant under such factors): rigid = rows mutually orthogonal with a positive determinant
\* (=> after normalising the rows: orthonormal, det +1); eye -> origin; view direction -> -z (RH) / +z (LH);
\* image of up has x = 0 and y > 0; last row (0, 0, 0, 1).
LookAtLawUn(M, eye, center, up, lh) ==
    LET d == VSub(center, eye) rw == [r \in 1..3 |-> Row3(M, r)]
        img(v) == [r \in 1..3 |-> VDot(rw[r], v)]
        e1 == MVec(M, << eye[1], eye[2], eye[3], QOne >>)
    IN /\ \A i, j \in 1..3 : i # j => QIsZero(VDot(rw[i], rw[j]))
       /\ QSign(MDet(Upper3(M))) > 0
       /\ QEq(QSq(MDet(Upper3(M))), QMul(VNorm2(rw[1]), QMul(VNorm2(rw[2]), VNorm2(rw[3]))))
       /\ \A i \in 1..3 : QIsZero(e1[i])
       /\ QEq(e1[4], QOne)
       /\ QIsZero(img(d)[1]) /\ QIsZero(img(d)[2]) /\ QSign(img(d)[3]) = (IF lh THEN 1 ELSE -1)
       /\ QIsZero(img(up)[1]) /\ QSign(img(up)[2]) > 0
       /\ QIsZero(MAt(M, 1, 4)) /\ QIsZero(MAt(M, 2, 4)) /\ QIsZero(MAt(M, 3, 4)) /\ QEq(MAt(M, 4, 4), QOne)

\* ---------------------------------------------------------------- decompose / recompose
\* recompose(scale, orientation, translation, skew, perspective) =
\*     P(perspective) * T(translation) * R(orientation) * Kyz(skew.x) * Kxz(skew.y) * Kxy(skew.z) * S(scale)
\* where P is the identity with last ROW = perspective and K.. are unit upper-triangular skews.
PerspMat(p) == MFromFn(4, 4, LAMBDA c, r : IF r = 4 THEN p[c] ELSE IF c = r THEN QOne ELSE QZero)
SkewMat(k) == MMulR(MMulR(E4Set(One1(3, 2, k[1])), E4Set(One1(3, 1, k[2]))), E4Set(One1(2, 1, k[3])))
AffineTRKS(s, q, t, k) == MMulR(MMulR(MMulR(Translate4(t), MRed(MEmbed4(QuatToMat3(q)))), SkewMat(k)), Scale4(s))
RecomposeQ(s, q, t, k, p) == MMulR(PerspMat(p), AffineTRKS(s, q, t, k))
\* a matrix "with a perspective row": the affine part with its last row overwritten by (a, b, c, 1)
\* (TLC caches a lazily passed argument only when it is first used outside a LAMBDA: the guards M.c = .. force it)
WithLastRow(M, row) == IF M.c = 4 /\ Len(row) = 4 THEN MFromFn(4, 4, LAMBDA c, r : IF r = 4 THEN row[c] ELSE MAt(M, c, r)) ELSE M
\* the unique factorisation with all scale factors of the sign of the determinant (what Gram-Schmidt + the
\* "coordinate system flip" of decompose produce):  R K S = (sg R D) (D K D) (sg |S|),  D = diag(sign s_i), sg = det D
SignOf(x) == IF QSign(x) < 0 THEN QNeg(QOne) ELSE QOne
CanonScale(s) == LET sg == QMul(SignOf(s[1]), QMul(SignOf(s[2]), SignOf(s[3]))) IN [i \in 1..3 |-> QMul(sg, QAbs(s[i]))]
CanonSkew(s, k) == << QMul(k[1], QMul(SignOf(s[2]), SignOf(s[3]))), QMul(k[2], QMul(SignOf(s[1]), SignOf(s[3]))), QMul(k[3], QMul(SignOf(s[1]), SignOf(s[2]))) >>
\* quaternion of  sg * D : the identity or the half turn about the coordinate axis whose sign differs from the other two
FlipQuat(s) == LET a == SignOf(s[1]) b == SignOf(s[2]) c == SignOf(s[3]) IN
               IF QEq(a, b) /\ QEq(b, c) THEN << QOne, QZero, QZero, QZero >>
               ELSE IF QEq(b, c) THEN << QZero, QOne, QZero, QZero >>
               ELSE IF QEq(a, c) THEN << QZero, QZero, QOne, QZero >>
               ELSE << QZero, QZero, QZero, QOne >>

\* ---------------------------------------------------------------- dyadic linear algebra (observed matrices)
\* same layout as LinQ's matrices, entries are dyadics (Exact.tla D*): no denominators, cheap for TLC
DW(w) == ValW(FmtOfW(w), w)
DSeq(ws) == [i \in 1..Len(ws) |-> DW(ws[i])]
DOne == DFromInt(1)
DMat(C, R, e) == [c |-> C, r |-> R, e |-> e]
DAt(m, col, row) == m.e[(col - 1) * m.r + row]
DMFromFn(C, R, G(_, _)) == DMat(C, R, [k \in 1..(C * R) |-> G(((k - 1) \div R) + 1, ((k - 1) % R) + 1)])
DMMul(X, Y) == DMFromFn(Y.c, X.r, LAMBDA c, r : DSum([k \in 1..X.c |-> DMul(DAt(X, k, r), DAt(Y, c, k))]))
DMAbs(X) == DMat(X.c, X.r, [k \in 1..Len(X.e) |-> DAbs(X.e[k])])
DVDot(a, b) == DSum([i \in 1..Len(a) |-> DMul(a[i], b[i])])
DVDotAbs(a, b) == DSum([i \in 1..Len(a) |-> DAbs(DMul(a[i], b[i]))])
DVSub(a, b) == [i \in 1..Len(a) |-> DSub(a[i], b[i])]
DVAbs1(a) == DSum([i \in 1..Len(a) |-> DAbs(a[i])])
DVCross(a, b) == << DSub(DMul(a[2], b[3]), DMul(a[3], b[2])), DSub(DMul(a[3], b[1]), DMul(a[1], b[3])), DSub(DMul(a[1], b[2]), DMul(a[2], b[1])) >>
DRow3(m, r) == << DAt(m, 1, r), DAt(m, 2, r), DAt(m, 3, r) >>
DCol3(m, c) == << DAt(m, c, 1), DAt(m, c, 2), DAt(m, c, 3) >>
DDet3Rows(a, b, c) == DVDot(a, DVCross(b, c))
DSq(x) == DMul(x, x)
DIdent4 == DMFromFn(4, 4, LAMBDA c, r : IF c = r THEN DOne ELSE DZero)
DE4Set(c0, r0, x) == DMFromFn(4, 4, LAMBDA c, r : IF c = c0 /\ r = r0 THEN x ELSE IF c = r THEN DOne ELSE DZero)
DTwo == DFromInt(2)
\* mat3_cast of a quaternion <<w, x, y, z>> embedded in a 4x4 (same polynomial as LinQ!QuatToMat3)
DQuatMat4(q) ==
    LET w == q[1] x == q[2] y == q[3] z == q[4]
        xx == DMul(x, x) yy == DMul(y, y) zz == DMul(z, z) xy == DMul(x, y) xz == DMul(x, z) yz == DMul(y, z)
        wx == DMul(w, x) wy == DMul(w, y) wz == DMul(w, z)
        m3 == << DSub(DOne, DMul(DTwo, DAdd(yy, zz))), DMul(DTwo, DAdd(xy, wz)), DMul(DTwo, DSub(xz, wy)),
                 DMul(DTwo, DSub(xy, wz)), DSub(DOne, DMul(DTwo, DAdd(xx, zz))), DMul(DTwo, DAdd(yz, wx)),
                 DMul(DTwo, DAdd(xz, wy)), DMul(DTwo, DSub(yz, wx)), DSub(DOne, DMul(DTwo, DAdd(xx, yy))) >>
    IN DMFromFn(4, 4, LAMBDA c, r : IF c <= 3 /\ r <= 3 THEN m3[(c - 1) * 3 + r] ELSE IF c = r THEN DOne ELSE DZero)
DPerspMat(p) == DMFromFn(4, 4, LAMBDA c, r : IF r = 4 THEN p[c] ELSE IF c = r THEN DOne ELSE DZero)
DTranslate4(t) == DMFromFn(4, 4, LAMBDA c, r : IF c = r THEN DOne ELSE IF c = 4 /\ r <= 3 THEN t[r] ELSE DZero)
DScale4(s) == DMFromFn(4, 4, LAMBDA c, r : IF c # r THEN DZero ELSE IF c <= 3 THEN s[c] ELSE DOne)
DRecomposeFactors(s, q, t, k, p) ==
    << DPerspMat(p), DTranslate4(t), DQuatMat4(q), DE4Set(3, 2, k[1]), DE4Set(3, 1, k[2]), DE4Set(2, 1, k[3]), DScale4(s) >>
RECURSIVE DProdFrom(_, _)
DProdFrom(fs, i) == IF i = Len(fs) THEN fs[i] ELSE DMMul(fs[i], DProdFrom(fs, i + 1))
DRecompose(s, q, t, k, p) == DProdFrom(DRecomposeFactors(s, q, t, k, p), 1)
\* product of the absolute values of the factors: the magnitude of the terms summed in each entry
\* (the rotation factor is computed from the quaternion with cancellation: its entries are sums of terms of magnitude <= 2)
DRotBound == DMFromFn(4, 4, LAMBDA c, r : IF c <= 3 /\ r <= 3 THEN DTwo ELSE IF c = r THEN DOne ELSE DZero)
DRecomposeAbs(s, q, t, k, p) == LET fs == DRecomposeFactors(s, q, t, k, p) IN DProdFrom([i \in 1..Len(fs) |-> IF i = 3 THEN DRotBound ELSE DMAbs(fs[i])], 1)
=============================================================================
