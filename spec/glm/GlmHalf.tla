------------------------------ MODULE GlmHalf ------------------------------
(***************************************************************************)
(* binary16 <-> binary32 conversion (C07), on bit patterns in native TLC   *)
(* integers: a half is 0..65535, a float is a pair (sign, magnitude) with  *)
(* magnitude = the low 31 bits (< 2^31, so it fits a TLC integer).         *)
(*                                                                         *)
(*  HalfMagToF32Mag  the exact widening (every half value is a float)      *)
(*  Mid(h)           the float that is the exact midpoint of the half      *)
(*                   magnitudes h and h+1 (always representable: a half    *)
(*                   has 11 significant bits, the midpoint needs 12)       *)
(*  Lo(h) .. Hi(h)   the acceptance interval of half magnitude h: the      *)
(*                   floats whose nearest half is h (end points are ties   *)
(*                   and belong to both neighbours).  h = 31744 (0x7C00)   *)
(*                   is infinity: everything from 65520 up.                *)
(* MC_C07 proves, for all 31745 magnitudes, that these native definitions  *)
(* agree with the generic IEEE module and tile the float line.             *)
(***************************************************************************)
EXTENDS Words

HInf == 31744                        \* 0x7C00
F32Inf == 2139095040                 \* 0x7F800000
F32MaxMag == 2147483647              \* 0x7FFFFFFF

RECURSIVE BitLen(_)
BitLen(n) == IF n = 0 THEN 0 ELSE 1 + BitLen(n \div 2)

\* float magnitude pattern of the positive number n * 2^sc, for 1 <= n < 2^24 (a normal float)
PatOfScaled(n, sc) == LET k == BitLen(n) IN (k - 1 + sc + 127) * 8388608 + (n - 2^(k - 1)) * 2^(24 - k)

HalfMagToF32Mag(h) ==
    LET e == h \div 1024 m == h % 1024 IN
    IF e = 0 THEN (IF m = 0 THEN 0 ELSE PatOfScaled(m, -24))
    ELSE IF e = 31 THEN F32Inf + m * 8192
    ELSE (e + 112) * 8388608 + m * 8192

\* exact midpoint of half magnitudes h and h+1, 0 <= h <= 31743 (the successor of the largest
\* finite half is read as 65536, IEEE's rule for rounding to infinity)
Mid(h) == IF h < 1024 THEN PatOfScaled(2 * h + 1, -25) ELSE HalfMagToF32Mag(h) + 4096

Lo(h) == IF h = 0 THEN 0 ELSE Mid(h - 1)
Hi(h) == IF h = HInf THEN F32Inf ELSE Mid(h)

\* is the half magnitude hm an acceptable conversion of the non-NaN float magnitude fm ?
AcceptMag(hm, fm) == hm <= HInf /\ Lo(hm) <= fm /\ fm <= Hi(hm)

\* full patterns.  float = [s, mag]; half = 0..65535
HalfSign(h) == h \div 32768
HalfMag(h) == h % 32768
HalfIsNaN(h) == HalfMag(h) > HInf
F32IsNaN(mag) == mag > F32Inf

\* float -> half: nearest (either on a tie), same sign; NaN -> NaN
AcceptFloatToHalf(h, s, mag) ==
    /\ HalfSign(h) = s
    /\ IF F32IsNaN(mag) THEN HalfIsNaN(h) ELSE AcceptMag(HalfMag(h), mag)

\* half -> float: exact, sign preserved, NaN stays NaN
AcceptHalfToFloat(s, mag, h) ==
    /\ s = HalfSign(h)
    /\ IF HalfIsNaN(h) THEN F32IsNaN(mag) ELSE mag = HalfMagToF32Mag(HalfMag(h))

\* pattern split helpers for the trace format (<<lo16, hi16>>)
F32S(w) == w[2] \div 32768
F32M(w) == (w[2] % 32768) * 65536 + w[1]

(* step model of detail::toFloat16 (type_half.inl): exponent split and "round 0.5 up" *)
ToFloat16Model(s, mag) ==
    LET e == (mag \div 8388608) - 112
        m == mag % 8388608
        sh == s * 32768
    IN IF e <= 0 THEN
            (IF e < -10 THEN sh
             ELSE LET m1 == (m + 8388608) \div 2^(1 - e)
                      m2 == IF (m1 \div 4096) % 2 = 1 THEN m1 + 8192 ELSE m1
                  IN sh + m2 \div 8192)
       ELSE IF e = 143 THEN (IF m = 0 THEN sh + HInf ELSE sh + HInf + (m \div 8192) + (IF m \div 8192 = 0 THEN 1 ELSE 0))
       ELSE LET up == (m \div 4096) % 2 = 1
                m1 == IF up THEN m + 8192 ELSE m
                ovf == up /\ m1 >= 8388608
                m2 == IF ovf THEN 0 ELSE m1
                e2 == IF ovf THEN e + 1 ELSE e
            IN IF e2 > 30 THEN sh + HInf ELSE sh + e2 * 1024 + m2 \div 8192
=============================================================================
