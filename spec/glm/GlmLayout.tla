------------------------------ MODULE GlmLayout ------------------------------
(***************************************************************************)
(* Storage layout contract of GLM vectors, matrices and quaternions (C16). *)
(*                                                                         *)
(* Everything is exact natural-number arithmetic on byte offsets, element  *)
(* slots and machine words given as 16-bit limbs (least significant first).*)
(*                                                                         *)
(* A type instantiation is described by                                    *)
(*    k  in {"vec","mat","qua"}   kind                                     *)
(*    C, R                        columns / rows; a vecL has C = 1, R = L, *)
(*                                a quaternion C = 1, R = 4                *)
(*    t                           element type code (ElemTypes)            *)
(*    aligned                     packed or aligned qualifier              *)
(* and its memory by a LAYOUT [C, R, es, stride]: C columns of `stride`    *)
(* element slots of es bytes each, of which the first R hold the           *)
(* components of the column (slots R..stride-1 are padding).               *)
(*   packed types:   stride = R          (the documented contract)         *)
(*   aligned types:  only the documented facts are fixed (float vec2: 2    *)
(*                   slots, float vec3 / vec4: 4 slots, a matrix = C       *)
(*                   consecutive aligned columns); any other aligned       *)
(*                   instantiation may pad its column to any stride >= R.  *)
(***************************************************************************)
EXTENDS Naturals, Sequences, FiniteSets

ElemTypes == {"b", "i8", "u8", "i16", "u16", "i32", "u32", "i64", "u64", "f32", "f64"}
ElemSize(t) == CASE t \in {"b", "i8", "u8"} -> 1
                 [] t \in {"i16", "u16"} -> 2
                 [] t \in {"i32", "u32", "f32"} -> 4
                 [] t \in {"i64", "u64", "f64"} -> 8
                 [] OTHER -> 0
ElemSizes == {1, 2, 4, 8}

Kinds == {"vec", "mat", "qua"}
ShapeOK(k, C, R) == CASE k = "vec" -> C = 1 /\ R \in 1..4
                      [] k = "mat" -> C \in 2..4 /\ R \in 2..4
                      [] k = "qua" -> C = 1 /\ R = 4
                      [] OTHER -> FALSE
Shapes == {s \in [k : Kinds, C : 1..4, R : 1..4] : ShapeOK(s.k, s.C, s.R)}

Count(C, R) == C * R                                   \* number of components
Length(k, C, R) == IF k = "mat" THEN C ELSE R          \* what length() reports: components, columns for a matrix

----------------------------------------------------------------------------
(* layouts *)
Lay(C, R, es, stride) == [C |-> C, R |-> R, es |-> es, stride |-> stride]
PackedLay(C, R, es) == Lay(C, R, es, R)
Idx(lay, c, r) == c * lay.R + r                        \* index order (column-major), 0-based
Slot(lay, c, r) == c * lay.stride + r                  \* element index from value_ptr: value_ptr(o)[Slot] is o[c][r]
Off(lay, c, r) == Slot(lay, c, r) * lay.es             \* byte offset of component (c, r) from the start of the object
ColOff(lay, c) == c * lay.stride * lay.es
ColSize(lay) == lay.stride * lay.es
NSlots(lay) == lay.C * lay.stride
SizeOf(lay) == NSlots(lay) * lay.es
Comps(lay) == (0..lay.C - 1) \X (0..lay.R - 1)
IsPad(lay, s) == (s % lay.stride) >= lay.R             \* slot s (0-based) holds no component
CompOfSlot(lay, s) == <<s \div lay.stride, s % lay.stride>>

MaxStride == 32
\* permitted column strides (in element slots)
Strides(k, t, R, aligned) ==
    IF ~aligned THEN {R}
    ELSE IF t = "f32" /\ k \in {"vec", "mat"} /\ R = 2 THEN {2}
    ELSE IF t = "f32" /\ k \in {"vec", "mat"} /\ R \in {3, 4} THEN {4}
    ELSE R..MaxStride
IsPow2(n) == n \in {1, 2, 4, 8, 16, 32, 64, 128}
\* permitted alignment requirement of the object (colsize = bytes of one column)
AlignOK(k, t, R, aligned, es, colsize, al) ==
    IF ~aligned THEN al = es                            \* packed: no padding can ever be inserted around it
    ELSE /\ IsPow2(al) /\ al >= es /\ colsize % al = 0
         /\ (t = "f32" /\ k \in {"vec", "mat"} /\ R = 2 => al = 8)
         /\ (t = "f32" /\ k \in {"vec", "mat"} /\ R \in {3, 4} => al = 16)

----------------------------------------------------------------------------
(* quaternion member order: the harness names components in the fixed order x, y, z, w (j = 0..3) *)
QuatOrder(wxyz) == IF wxyz THEN <<"w", "x", "y", "z">> ELSE <<"x", "y", "z", "w">>
NameXYZW == <<"x", "y", "z", "w">>
QuatSlot(j, wxyz) == CHOOSE s \in 0..3 : QuatOrder(wxyz)[s + 1] = NameXYZW[j + 1]
\* slot of the j-th named component
NamedSlot(k, j, wxyz) == IF k = "qua" THEN QuatSlot(j, wxyz) ELSE j

----------------------------------------------------------------------------
(* memory model on element slots: mem is a sequence of NSlots values *)
StoreViaIndex(mem, lay, c, r, v) == [mem EXCEPT ![Slot(lay, c, r) + 1] = v]       \* o[c][r] = v
LoadViaIndex(mem, lay, c, r) == mem[Slot(lay, c, r) + 1]
StoreViaValuePtr(mem, s, v) == [mem EXCEPT ![s + 1] = v]                          \* value_ptr(o)[s] = v
LoadViaValuePtr(mem, s) == mem[s + 1]
RawOf(mem) == mem                                                                 \* the raw array value_ptr(o)[0 .. NSlots)
MakeFromPtr(lay, raw) == [s \in 1..NSlots(lay) |-> raw[s]]                        \* memcpy of sizeof(object) bytes
Logical(mem, lay) == [i \in 1..Count(lay.C, lay.R) |-> LoadViaIndex(mem, lay, (i - 1) \div lay.R, (i - 1) % lay.R)]
\* the memory that holds the components `tags` (index order) and `fill` in every padding slot
MemOf(lay, tags, fill) == [s \in 1..NSlots(lay) |->
                            IF IsPad(lay, s - 1) THEN fill
                            ELSE LET cr == CompOfSlot(lay, s - 1) IN tags[Idx(lay, cr[1], cr[2]) + 1]]

----------------------------------------------------------------------------
(* bytes: little-endian words given as 16-bit limbs *)
ByteOf(limbs, j) == (limbs[(j \div 2) + 1] \div (IF j % 2 = 0 THEN 1 ELSE 256)) % 256
NLimbs(es) == IF es = 1 THEN 1 ELSE es \div 2
WordOK(limbs, es) == /\ Len(limbs) = NLimbs(es)
                     /\ \A i \in 1..Len(limbs) : limbs[i] \in 0..65535
                     /\ (es = 1 => limbs[1] < 256)
ZeroWord(es) == [i \in 1..NLimbs(es) |-> 0]
WordBytes(limbs, es) == [j \in 1..es |-> ByteOf(limbs, j - 1)]
\* byte image of an object whose slots hold the words of mem
ImageOf(lay, mem) == [b \in 1..SizeOf(lay) |-> ByteOf(mem[((b - 1) \div lay.es) + 1], (b - 1) % lay.es)]

----------------------------------------------------------------------------
(* build configurations: <<aligned gentypes, simd, xyzw only, swizzle (0 off, 1 operator, 2 function),
   size_t length, quat wxyz, ctor init, default qualifier is aligned, isa level (0 none, 1 SSE2 .. 7 AVX2)>>.
   On gcc / clang GLM detects "language extensions" (needed by aligned types and swizzle operators) only when a
   SIMD instruction set is selected with GLM_FORCE_INTRINSICS; GLM_FORCE_XYZW_ONLY disables the intrinsics. *)
CfgExpect(name) ==
    CASE name = "default"                -> <<0, 0, 0, 0, 0, 0, 0, 0, 0>>
      [] name = "SWIZZLE"                -> <<0, 0, 0, 2, 0, 0, 0, 0, 0>>
      [] name = "SWIZZLE_SIMD"           -> <<1, 1, 0, 1, 0, 0, 0, 0, 1>>
      [] name = "XYZW_ONLY"              -> <<0, 0, 1, 0, 0, 0, 0, 0, 0>>
      [] name = "XYZW_ONLY_SWIZZLE"      -> <<0, 0, 1, 2, 0, 0, 0, 0, 0>>
      [] name = "XYZW_ONLY_INTRINSICS"   -> <<0, 0, 1, 0, 0, 0, 0, 0, 0>>
      [] name = "SIZE_T_LENGTH"          -> <<0, 0, 0, 0, 1, 0, 0, 0, 0>>
      [] name = "SIZE_T_LENGTH_SIMD"     -> <<1, 1, 0, 0, 1, 0, 0, 0, 1>>
      [] name = "QUAT_DATA_WXYZ"         -> <<0, 0, 0, 0, 0, 1, 0, 0, 0>>
      [] name = "QUAT_DATA_XYZW"         -> <<0, 0, 0, 0, 0, 0, 0, 0, 0>>
      [] name = "QUAT_DATA_WXYZ_SIMD"    -> <<1, 1, 0, 0, 0, 1, 0, 0, 1>>
      [] name = "CTOR_INIT"              -> <<0, 0, 0, 0, 0, 0, 1, 0, 0>>
      [] name = "CTOR_INIT_SIMD"         -> <<1, 1, 0, 0, 0, 0, 1, 1, 1>>
      [] name = "ALIGNED_GENTYPES"       -> <<0, 0, 0, 0, 0, 0, 0, 0, 0>>
      [] name = "ALIGNED_GENTYPES_SIMD"  -> <<1, 1, 0, 0, 0, 0, 0, 0, 1>>
      [] name = "DEFAULT_ALIGNED"        -> <<0, 0, 0, 0, 0, 0, 0, 0, 0>>
      [] name = "DEFAULT_ALIGNED_SIMD"   -> <<1, 1, 0, 0, 0, 0, 0, 1, 1>>
      [] name = "DEFAULT_ALIGNED_AVX2"   -> <<1, 1, 0, 0, 0, 0, 0, 1, 7>>
      [] name = "INTRINSICS_SSE2"        -> <<1, 1, 0, 0, 0, 0, 0, 0, 1>>
      [] name = "INTRINSICS_SSE3"        -> <<1, 1, 0, 0, 0, 0, 0, 0, 2>>
      [] name = "INTRINSICS_SSSE3"       -> <<1, 1, 0, 0, 0, 0, 0, 0, 3>>
      [] name = "INTRINSICS_SSE41"       -> <<1, 1, 0, 0, 0, 0, 0, 0, 4>>
      [] name = "INTRINSICS_SSE42"       -> <<1, 1, 0, 0, 0, 0, 0, 0, 5>>
      [] name = "INTRINSICS_AVX"         -> <<1, 1, 0, 0, 0, 0, 0, 0, 6>>
      [] name = "INTRINSICS_AVX2"        -> <<1, 1, 0, 0, 0, 0, 0, 0, 7>>
      [] OTHER -> << >>
CfgRec(cm) == [al |-> cm[1] = 1, simd |-> cm[2] = 1, xyzw |-> cm[3] = 1, swz |-> cm[4], sizet |-> cm[5] = 1,
               wxyz |-> cm[6] = 1, ctor |-> cm[7] = 1, da |-> cm[8] = 1, isa |-> cm[9]]

\* qualifier enumeration: packed_highp, packed_mediump, packed_lowp [, aligned_highp, aligned_mediump, aligned_lowp]
QualNames == <<"packed_highp", "packed_mediump", "packed_lowp", "aligned_highp", "aligned_mediump", "aligned_lowp">>
QualCount(c) == IF c.al THEN 6 ELSE 3
QualAligned(q) == q >= 3
QualPrecision(q) == q % 3                                \* 0 highp, 1 mediump, 2 lowp
DefaultQual(c) == IF c.da THEN 3 ELSE 0

\* glm::length_t: int (GLSL) unless GLM_FORCE_SIZE_T_LENGTH makes it size_t (LP64: 8 bytes, unsigned)
LengthTypeSize(c) == IF c.sizet THEN 8 ELSE 4
LengthTypeSigned(c) == IF c.sizet THEN 0 ELSE 1
=============================================================================
