----------------------------- MODULE GlmVector -----------------------------
(***************************************************************************)
(* Lifting of scalar functions and operators to vectors (C01).             *)
(* Lift(S, args)[i] = S(Comp(a_1, i), ..., Comp(a_n, i)) where Comp of a   *)
(* vector is its i-th component and Comp of a scalar (or vec1) operand is  *)
(* that value (broadcast).  S is the function graph of the scalar overload *)
(* as observed in the same trace (the "s" field of a lift event).          *)
(* Agreement classes, from the property text:                              *)
(*   EXACT      selection, rounding, comparison, integer/bit, single       *)
(*              library call, single IEEE operation: identical bits        *)
(*   COMPOSITE  mix, smoothstep, mod, fma: within the rounding error of    *)
(*              the documented formula (4 ulp of the largest operand /     *)
(*              result magnitude)                                          *)
(*   LOWP_RSQRT inversesqrt on lowp float vectors: relative error < 2^-8   *)
(* In an intrinsic build with the aligned qualifiers (cfg = "simd") the    *)
(* vector side runs GLM's SIMD kernels.  There the lowp float types also   *)
(* approximate the reciprocal (operator/) and sqrt (same 2^-8 class on     *)
(* moderate operands; the functions GLM derives from them - sec, csc, cot, *)
(* asec, acsc, sech, csch, coth, asech, acsch, acoth, smoothstep, mod,     *)
(* mirrorRepeat (through mod) -                                            *)
(* inherit an error amplified by their own conditioning and are not        *)
(* constrained for lowp), min / max / clamp on NaN operands are outside    *)
(* the domain (GLSL leaves them undefined, the SSE instructions return the *)
(* second operand), and the sign of a zero result is not part of the value.*)
(***************************************************************************)
EXTENDS Words

Composite == {"mix", "smoothstep", "mod", "fma"}
LowpSimdDirect == {"div", "sqrt", "inversesqrt"}
LowpSimdDerived == {"sec", "csc", "cot", "asec", "acsc", "acot", "sech", "csch", "coth", "asech", "acsch", "acoth", "smoothstep", "mod", "texMirrorRepeat"}
ClassOfCfg(f, t, q, cfg) ==
    IF cfg = "simd" /\ q = "lowp" /\ t = "f32" /\ f \in LowpSimdDerived THEN "FREE"
    ELSE IF cfg = "simd" /\ q = "lowp" /\ t = "f32" /\ f \in LowpSimdDirect THEN "LOWP_APPROX"
    ELSE IF f \in Composite THEN "COMPOSITE"
    ELSE IF f = "inversesqrt" /\ q = "lowp" /\ t = "f32" THEN "LOWP_RSQRT"
    ELSE "EXACT"
ClassOf(f, t, q) == ClassOfCfg(f, t, q, "pure")

\* component i of an argument: a vector argument has n components, a scalar / vec1 argument has one
Comp(arg, i) == IF Len(arg) = 1 THEN arg[1] ELSE arg[i]

SameBitsOrBothNaN(t, rw, sw) ==
    rw = sw \/ (TypeIsFloat(t) /\ Len(rw) = TypeLimbs(t) /\ IsNaN(TypeFmt(t), Fields(TypeFmt(t), rw)) /\ IsNaN(TypeFmt(t), Fields(TypeFmt(t), sw)))

\* largest magnitude among the finite operands of component i and the two results
RECURSIVE MaxAbsArgs(_, _, _, _)
MaxAbsArgs(f, args, i, k) ==
    IF k > Len(args) THEN DZero
    ELSE LET w == Comp(args[k], i)
             rest == MaxAbsArgs(f, args, i, k + 1)
         IN IF Len(w) = FNLimbs(f) /\ IsFinite(f, Fields(f, w)) THEN DMax(DAbs(Val(f, Fields(f, w))), rest) ELSE rest

CompositeOK(t, args, i, rw, sw) ==
    LET f == TypeFmt(t) r == Fields(f, rw) s == Fields(f, sw) IN
    \/ SameBitsOrBothNaN(t, rw, sw)
    \/ /\ IsFinite(f, r) /\ IsFinite(f, s)
       /\ LET big == DMax(MaxAbsArgs(f, args, i, 1), DMax(DAbs(Val(f, r)), DAbs(Val(f, s))))
          IN DIsZero(big) \/ DLe(DAbs(DSub(Val(f, r), Val(f, s))), DMulInt(UlpOf(f, big), 4))

\* mix(x, y, a) = x (1 - a) + y a: the rounding error of the documented formula is bounded by the ulp of its larger TERM, not of its larger
\* operand (x = 10^8, y = 1, a = 1 has the terms 0 and 1: the result is 1 to within an ulp of 1, not of 10^8)
FinW(f, w) == Len(w) = FNLimbs(f) /\ IsFinite(f, Fields(f, w))
MixOK(t, args, i, rw, sw) ==
    LET f == TypeFmt(t) r == Fields(f, rw) s == Fields(f, sw)
        xw == Comp(args[1], i) yw == Comp(args[2], i) aw == Comp(args[3], i) IN
    IF Len(args) # 3 \/ ~FinW(f, xw) \/ ~FinW(f, yw) \/ ~FinW(f, aw) THEN CompositeOK(t, args, i, rw, sw)
    ELSE \/ SameBitsOrBothNaN(t, rw, sw)
         \/ /\ IsFinite(f, r) /\ IsFinite(f, s)
            /\ LET x == Val(f, Fields(f, xw)) y == Val(f, Fields(f, yw)) a == Val(f, Fields(f, aw))
                   big == DMax(DMax(DAbs(DMul(x, DSub(DFromInt(1), a))), DAbs(DMul(y, a))), DMax(DAbs(Val(f, r)), DAbs(Val(f, s))))
               IN DIsZero(big) \/ DLe(DAbs(DSub(Val(f, r), Val(f, s))), DMulInt(UlpOf(f, big), 4))

LowpRsqrtOK(rw, sw) ==
    LET r == Fields(F32, rw) s == Fields(F32, sw) IN
    \/ SameBitsOrBothNaN("f32", rw, sw)
    \/ /\ IsFinite(F32, r) /\ IsFinite(F32, s)
       /\ DLe(DAbs(DSub(Val(F32, r), Val(F32, s))), DMul2k(DAbs(Val(F32, s)), -8))

\* signalling NaNs (exponent all ones, quiet bit clear, payload non-zero) make libm's fmin/fmax return NaN while GLM's NaN-aware
\* cascades skip them: components that see one are outside the domain of the fmin/fmax/fclamp families
IsSNaNW(t, w) == TypeIsFloat(t) /\ Len(w) = TypeLimbs(t) /\
                 LET f == TypeFmt(t) x == Fields(f, w) IN IsNaN(f, x) /\ NBit(x.m, f.mb - 1) = 0
NaNFamily == {"fmin", "fmax", "fmin3", "fmax3", "fmin4", "fmax4", "fclamp"}
SkipComp(f, t, args, i) == f \in NaNFamily /\ \E k \in 1..Len(args) : IsSNaNW(t, Comp(args[k], i))

\* which of +0 / -0 a minimum or maximum of the two returns is not fixed by IEEE-754 (it depends on operand order)
MinMaxFamily == {"min", "max", "fmin", "fmax", "clamp", "fclamp", "clampraw", "min3", "max3", "fmin3", "fmax3", "min4", "max4", "fmin4", "fmax4", "texClamp"}
BothZero(t, rw, sw) == TypeIsFloat(t) /\ Len(rw) = TypeLimbs(t) /\ Len(sw) = TypeLimbs(t) /\ IsZero(TypeFmt(t), Fields(TypeFmt(t), rw)) /\ IsZero(TypeFmt(t), Fields(TypeFmt(t), sw))

\* the lowp approximations of the intrinsic builds constrain moderate operands only (rcp / rsqrt of zero, subnormal, huge or
\* non-finite operands are outside the domain, as in C03)
ModerateW(w) == Len(w) = 2 /\ LET x == Fields(F32, w) IN x.e > 27 /\ x.e < 227
LowpApproxOK(args, i, rw, sw) ==
    (\A k \in 1..Len(args) : ModerateW(Comp(args[k], i))) /\ ModerateW(sw) => LowpRsqrtOK(rw, sw)
SimdNaNFamily == {"min", "max", "clamp", "clampraw", "min3", "max3", "min4", "max4", "texClamp"}
AnyNaNComp(t, args, i) == TypeIsFloat(t) /\ \E k \in 1..Len(args) : LET w == Comp(args[k], i) IN Len(w) = TypeLimbs(t) /\ IsNaN(TypeFmt(t), Fields(TypeFmt(t), w))

LiftOKCfg(f, t, q, cfg, args, rws, sws) ==
    /\ Len(rws) = Len(sws)
    /\ \A i \in {j \in 1..Len(rws) : ~SkipComp(f, t, args, j) /\ ~(cfg = "simd" /\ f \in SimdNaNFamily /\ AnyNaNComp(t, args, j))} :
         CASE ClassOfCfg(f, t, q, cfg) = "EXACT" -> \/ SameBitsOrBothNaN(t, rws[i], sws[i])
                                                    \/ ((f \in MinMaxFamily \/ cfg = "simd") /\ BothZero(t, rws[i], sws[i]))
           [] ClassOfCfg(f, t, q, cfg) = "COMPOSITE" -> IF ~TypeIsFloat(t) THEN rws[i] = sws[i]
                                                        ELSE IF f = "mix" THEN MixOK(t, args, i, rws[i], sws[i]) ELSE CompositeOK(t, args, i, rws[i], sws[i])
           [] ClassOfCfg(f, t, q, cfg) = "LOWP_APPROX" -> LowpApproxOK(args, i, rws[i], sws[i])
           [] ClassOfCfg(f, t, q, cfg) = "FREE" -> TRUE
           [] OTHER -> LowpRsqrtOK(rws[i], sws[i])
LiftOK(f, t, q, args, rws, sws) == LiftOKCfg(f, t, q, "pure", args, rws, sws)
=============================================================================
