----------------------------- MODULE GlmRound -----------------------------
(***************************************************************************)
(* Power-of-two, multiple, n-th-set-bit, integer log2/sqrt/pow/factorial/  *)
(* mod and the bitfield utilities of gtc/bitfield (mask, fill, rotate,     *)
(* interleave) -- definitional semantics over the integers and over bit    *)
(* sets, parametric in the word width (C18).                               *)
(***************************************************************************)
EXTENDS GlmInteger

----------------------------------------------------------------------------
(* powers of two, on magnitudes m >= 1 *)
IsPow2N(m) == ~NIsZero(m) /\ NLowZero(m, NBitLen(m) - 1)
CeilPow2N(m) == IF IsPow2N(m) THEN m ELSE NShl(<<1>>, NBitLen(m))         \* smallest power of two >= m
FloorPow2N(m) == NShl(<<1>>, NBitLen(m) - 1)                               \* largest power of two <= m
\* nearest power(s) of two: both neighbours on an exact tie
RoundPow2Set(m) ==
    IF IsPow2N(m) THEN {m}
    ELSE LET lo == FloorPow2N(m) hi == NShl(lo, 1) c == NCmp(NSub(hi, m), NSub(m, lo))
         IN IF c < 0 THEN {hi} ELSE IF c > 0 THEN {lo} ELSE {lo, hi}

----------------------------------------------------------------------------
(* multiples, on signed integers, m > 0 *)
FloorMultipleZ(x, m) == ZMul(m, ZFloorDiv(x, m))
CeilMultipleZ(x, m)  == ZNeg(ZMul(m, ZFloorDiv(ZNeg(x), m)))
RoundMultipleSet(x, m) ==
    LET lo == FloorMultipleZ(x, m) hi == ZAdd(lo, m) c == ZCmp(ZSub(x, lo), ZSub(hi, x))
    IN IF ZEq(lo, x) THEN {x} ELSE IF c < 0 THEN {lo} ELSE IF c > 0 THEN {hi} ELSE {lo, hi}
IsMultipleZ(x, m) == ZEq(FloorMultipleZ(x, m), x)

\* the same on exact rationals (floating arguments), m > 0
FloorMultipleQ(x, m) == QMul(m, QMk(QFloor(QDiv(x, m)), <<1>>))
CeilMultipleQ(x, m)  == QNeg(FloorMultipleQ(QNeg(x), m))
RoundMultipleSetQ(x, m) ==
    LET lo == FloorMultipleQ(x, m) hi == QAdd(lo, m) c == QCmp(QSub(x, lo), QSub(hi, x))
    IN IF QEq(lo, x) THEN {x} ELSE IF c < 0 THEN {lo} ELSE IF c > 0 THEN {hi} ELSE {lo, hi}

----------------------------------------------------------------------------
(* n-th set bit, n >= 1 counted from the least significant end *)
FindNSB(W, x, n) ==
    LET S == Bits(W, x)
    IN IF n < 1 \/ Cardinality(S) < n THEN -1
       ELSE CHOOSE i \in S : Cardinality({j \in S : j <= i}) = n

----------------------------------------------------------------------------
(* integer log2 / sqrt / pow / factorial / mod: exact mathematical values *)
FloorLog2N(m) == NBitLen(m) - 1                       \* m >= 1
IsFloorSqrt(r, x) == NCmp(NMul(r, r), x) <= 0 /\ NCmp(NMul(NAdd(r, <<1>>), NAdd(r, <<1>>)), x) > 0
RECURSIVE ZPow(_, _)
ZPow(x, y) == IF y = 0 THEN ZFromInt(1) ELSE ZMul(x, ZPow(x, y - 1))
RECURSIVE ZFact(_)
ZFact(n) == IF n <= 1 THEN ZFromInt(1) ELSE ZMul(ZFromInt(n), ZFact(n - 1))
ZMod(x, y) == ZSub(x, FloorMultipleZ(x, y))           \* y > 0: result in [0, y)
Nlz(W, x) == IF NIsZero(x) THEN W ELSE W - NBitLen(x)

----------------------------------------------------------------------------
(* gtc/bitfield *)
Mask(W, n) == FromBits(W, {i \in 0..W-1 : i < n})
FillOne(W, v, first, count)  == FromBits(W, Bits(W, v) \cup {i \in 0..W-1 : first <= i /\ i < first + count})
FillZero(W, v, first, count) == FromBits(W, Bits(W, v) \ {i \in 0..W-1 : first <= i /\ i < first + count})
RotateLeft(W, v, s)  == FromBits(W, {(i + s) % W : i \in Bits(W, v)})
RotateRight(W, v, s) == FromBits(W, {(i + W - (s % W)) % W : i \in Bits(W, v)})

\* bit i of the k-th of n operands (k = 0..n-1) goes to bit n*i + k; bits beyond the result width are dropped
Interleave(w, ops, outW) ==
    LET n == Len(ops)
    IN FromBits(outW, UNION {{n * i + (k - 1) : i \in {j \in Bits(w, ops[k]) : n * j + (k - 1) < outW}} : k \in 1..n})
\* the k-th of n operands recovered from an interleaved word
Deinterleave(w, x, inW, n, k) == FromBits(w, {i \in 0..w-1 : n * i + (k - 1) < inW /\ NBit(x, n * i + (k - 1)) = 1})

HighestBitValue(W, x) == IF NIsZero(x) THEN x ELSE NShl(<<1>>, NBitLen(x) - 1)
LowestBitValue(W, x)  == IF NIsZero(x) THEN x ELSE NShl(<<1>>, FindLSB(W, x))
=============================================================================
