------------------------------ MODULE GlmX21 -------------------------------
(***************************************************************************)
(* Stage X21: the stream-formatting state machine of gtx/io and the        *)
(* grammar of gtx/string_cast (glm::to_string).                            *)
(*                                                                         *)
(* Part A  decimal numerals of exact values: round-half-even of            *)
(*         value * 10^p as printf does (fixed, scientific, general style), *)
(*         on BigInt magnitudes - every finite float / double is a dyadic  *)
(*         rational num / den, so its decimal expansion to p digits is     *)
(*         computed exactly (no tolerance anywhere in this stage).         *)
(* Part B  one formatted insertion of std::num_put / operator<<(char):     *)
(*         sign, showpos, floatfield, precision, width, fill, adjustfield. *)
(* Part C  the state machine: the std::basic_ios part that GLM saves and   *)
(*         restores (flags, precision, width, fill), the io::format_punct  *)
(*         facet (a mutable object shared by every locale that holds it -  *)
(*         modelled as a heap of facet records and the index of the one in *)
(*         the stream's locale, 0 = none installed yet), the stack of live *)
(*         savers.  IoStep(S, act) = the state after one manipulator /     *)
(*         saver entry / saver exit / output.                              *)
(* Part D  the text written by operator<< for vec1..4, qua, the nine       *)
(*         matrix shapes and pair<mat4, mat4> as a function of (state,     *)
(*         value).                                                         *)
(* Part E  glm::to_string.                                                 *)
(*                                                                         *)
(* Text is a sequence of character codes.  A value is a sequence of number *)
(* records (XNum* below) in the logging order of the harness (vec: 0..L-1, *)
(* mat: column-major, qua: w x y z).                                       *)
(***************************************************************************)
EXTENDS Words

\* ------------------------------------------------------------------------
\* Part A: numerals
\* ------------------------------------------------------------------------
\* text of a TLA+ string (printable ASCII), for witnesses and constants: code = 31 + position in the table
XAscii == " !\"#$%&'()*+,-./0123456789:;<=>?@ABCDEFGHIJKLMNOPQRSTUVWXYZ[\\]^_`abcdefghijklmnopqrstuvwxyz{|}~"
XStr(s) == [i \in 1..Len(s) |-> 31 + (CHOOSE j \in 1..Len(XAscii) : SubSeq(XAscii, j, j) = SubSeq(s, i, i))]
XRep(c, n) == [i \in 1..n |-> c]
XCat3(a, b, c) == a \o b \o c

RECURSIVE XPow10Rec(_)
XPow10Rec(k) == IF k = 0 THEN <<1>> ELSE NMulSmall(XPow10Rec(k - 1), 10)
XPow10Tab == [k \in 1..100 |-> XPow10Rec(k - 1)]                 \* a constant: evaluated once
XPow10(k) == IF k < 100 THEN XPow10Tab[k + 1] ELSE XPow10Rec(k)

\* decimal digits (codes 48..57) of a magnitude, most significant first, "0" for zero.
\* Definition: one digit per division by ten ...
RECURSIVE XDecSlowFrom(_)
XDecSlowFrom(a) == IF NIsZero(a) THEN << >> ELSE LET r == NDivSmall(a, 10) IN Append(XDecSlowFrom(r[1]), 48 + r[2])
XDecSlow(a) == IF NIsZero(a) THEN <<48>> ELSE XDecSlowFrom(a)
\* ... evaluated four digits per division (MC_X21 checks that both agree)
RECURSIVE XSmallDigits(_)
XSmallDigits(n) == IF n = 0 THEN << >> ELSE Append(XSmallDigits(n \div 10), 48 + (n % 10))                     \* native n > 0, no leading zero
XFourDigits(n) == <<48 + (n \div 1000), 48 + ((n \div 100) % 10), 48 + ((n \div 10) % 10), 48 + (n % 10)>>           \* n < 10000
RECURSIVE XDecFrom(_)
XDecFrom(a) == LET r == NDivSmall(a, 10000) IN IF NIsZero(r[1]) THEN XSmallDigits(r[2]) ELSE XDecFrom(r[1]) \o XFourDigits(r[2])
XDec(a) == IF NIsZero(a) THEN <<48>> ELSE XDecFrom(a)
XDecNat(n) == XDec(NFromNat(n))

\* round-half-even(A / B), B > 0
XRoundDiv(A, B) ==
    LET qr == NDivMod(A, B)
        c == NCmp(NMulSmall(qr[2], 2), B)
    IN IF c > 0 \/ (c = 0 /\ ~NIsEven(qr[1])) THEN NAdd(qr[1], <<1>>) ELSE qr[1]
\* the same for B = 2^k by shifting (every float has a power of two as denominator)
XRoundShr(A, k) ==
    IF k = 0 THEN A
    ELSE LET q == NShr(A, k)
             c == NCmp(NLowBits(A, k), NShl(<<1>>, k - 1))
         IN IF c > 0 \/ (c = 0 /\ ~NIsEven(q)) THEN NAdd(q, <<1>>) ELSE q
XIsPow2(d) == NBitLen(d) >= 1 /\ NLowZero(d, NBitLen(d) - 1)
\* round-half-even(num / den * 10^s), any integer s: the definition ...
XScaledDef(num, den, s) == IF s >= 0 THEN XRoundDiv(NMul(num, XPow10(s)), den) ELSE XRoundDiv(num, NMul(den, XPow10(-s)))
\* ... and its evaluation (MC_X21 checks that both agree)
XScaled(num, den, s) == IF s >= 0 /\ XIsPow2(den) THEN XRoundShr(NMul(num, XPow10(s)), NBitLen(den) - 1) ELSE XScaledDef(num, den, s)

\* "%.pf" of num / den >= 0 (no sign)
XFixedDigits(num, den, p) ==
    LET ds == XDec(XScaled(num, den, p))
        full == IF Len(ds) < p + 1 THEN XRep(48, p + 1 - Len(ds)) \o ds ELSE ds
        n == Len(full)
    IN IF p = 0 THEN full ELSE XCat3(SubSeq(full, 1, n - p), <<46>>, SubSeq(full, n - p + 1, n))

\* decimal exponent X of v = num / den > 0: 10^X <= v < 10^(X+1)
XGeP10(num, den, X) == IF X >= 0 THEN NCmp(num, NMul(den, XPow10(X))) >= 0 ELSE NCmp(NMul(num, XPow10(-X)), den) >= 0
RECURSIVE XFixExp10(_, _, _)
XFixExp10(num, den, X) == IF ~XGeP10(num, den, X) THEN XFixExp10(num, den, X - 1)
                          ELSE IF XGeP10(num, den, X + 1) THEN XFixExp10(num, den, X + 1) ELSE X
XExp10(num, den) == XFixExp10(num, den, ((NBitLen(num) - NBitLen(den)) * 30103) \div 100000)

\* scientific style with p digits after the point: the p+1 significant digits as an integer n and the exponent x after rounding
XSciParts(num, den, p) ==
    IF NIsZero(num) THEN [n |-> << >>, x |-> 0]
    ELSE LET X == XExp10(num, den)
             N == XScaled(num, den, p - X)
         IN IF NCmp(N, XPow10(p + 1)) >= 0 THEN [n |-> XPow10(p), x |-> X + 1] ELSE [n |-> N, x |-> X]
XSciMant(n, p) ==
    LET ds0 == XDec(n)
        ds == IF Len(ds0) < p + 1 THEN ds0 \o XRep(48, p + 1 - Len(ds0)) ELSE ds0         \* only zero is shorter
    IN IF p = 0 THEN <<ds[1]>> ELSE XCat3(<<ds[1]>>, <<46>>, SubSeq(ds, 2, p + 1))
XExpText(x) == LET a == IF x < 0 THEN -x ELSE x
                   ds == XDecNat(a)
               IN <<101, IF x < 0 THEN 45 ELSE 43>> \o (IF Len(ds) < 2 THEN <<48>> \o ds ELSE ds)
\* "%.pe"
XSciDigits(num, den, p) == LET sp == XSciParts(num, den, p) IN XSciMant(sp.n, p) \o XExpText(sp.x)

RECURSIVE XStripZeros(_)
XStripZeros(t) == IF Len(t) > 0 /\ t[Len(t)] = 48 THEN XStripZeros(SubSeq(t, 1, Len(t) - 1)) ELSE t
XHasDot(t) == \E i \in 1..Len(t) : t[i] = 46
XStripFrac(t) == IF ~XHasDot(t) THEN t
                 ELSE LET u == XStripZeros(t) IN IF u[Len(u)] = 46 THEN SubSeq(u, 1, Len(u) - 1) ELSE u
\* "%.pg" (C 7.21.6.1: P = p, 1 if p = 0; style e would have exponent X; P > X >= -4 -> style f with precision P - 1 - X,
\* otherwise style e with precision P - 1; trailing zeros of the fraction and a trailing point are removed)
XGenDigits(num, den, p) ==
    LET P == IF p = 0 THEN 1 ELSE p
        sp == XSciParts(num, den, P - 1)
    IN IF sp.x >= -4 /\ sp.x < P THEN XStripFrac(XFixedDigits(num, den, P - 1 - sp.x))
       ELSE XStripFrac(XSciMant(sp.n, P - 1)) \o XExpText(sp.x)

\* ------------------------------------------------------------------------
\* Part B: number records and one formatted insertion
\* ------------------------------------------------------------------------
\* kinds: "fin" (num / den, sign bit neg: -0 keeps its sign), "inf", "nan", "int" (magnitude num, sg = signed type), "bool"
XNumFin(neg, num, den) == [k |-> "fin", neg |-> neg, num |-> num, den |-> den, sg |-> TRUE]
XNumInf(neg) == [k |-> "inf", neg |-> neg, num |-> << >>, den |-> <<1>>, sg |-> TRUE]
XNumNaN(neg) == [k |-> "nan", neg |-> neg, num |-> << >>, den |-> <<1>>, sg |-> TRUE]
XNumInt(z, sg) == [k |-> "int", neg |-> z.neg, num |-> z.m, den |-> <<1>>, sg |-> sg]
XNumBool(b) == [k |-> "bool", neg |-> FALSE, num |-> IF b THEN <<1>> ELSE << >>, den |-> <<1>>, sg |-> FALSE]
XNumOfD(d, signbit) == IF d.e >= 0 THEN XNumFin(signbit, NShl(d.m, d.e), <<1>>) ELSE XNumFin(signbit, d.m, NShl(<<1>>, -d.e))
\* n / 2^k (k may be negative)
XNumOfPair(n, k) == XNumOfD(DMk(n < 0, NFromNat(IF n < 0 THEN -n ELSE n), -k), n < 0)
\* a logged machine word of element type t
XNumOfWord(t, w) ==
    IF TypeIsFloat(t) THEN LET f == TypeFmt(t) x == Fields(f, w) IN
                           IF IsNaN(f, x) THEN XNumNaN(x.s = 1) ELSE IF IsInf(f, x) THEN XNumInf(x.s = 1) ELSE XNumOfD(Val(f, x), x.s = 1)
    ELSE IF t = "b" THEN XNumBool(w # <<0>>)
    ELSE XNumInt(WToZ(TypeW(t), TypeSigned(t), WFromLimbs(w)), TypeSigned(t))
XNumsOfWords(t, ws) == [i \in 1..Len(ws) |-> XNumOfWord(t, ws[i])]

\* the ios_base flags that exist; the projection logged by the harness is the set of names of the flags that are set
XAllFlags == {"boolalpha", "dec", "fixed", "hex", "internal", "left", "oct", "right", "scientific", "showbase", "showpoint", "showpos",
              "skipws", "unitbuf", "uppercase"}
\* flags under which this specification defines the text of a number (decimal base, no showpoint / uppercase, not hexfloat)
XFlagsModelled(fl) == "dec" \in fl /\ fl \cap {"hex", "oct", "showpoint", "uppercase"} = {} /\ ~({"fixed", "scientific"} \subseteq fl)
XFloatField(fl) == IF "fixed" \in fl THEN "fixed" ELSE IF "scientific" \in fl THEN "scientific" ELSE "none"
\* libstdc++ / the standard: left iff adjustfield = left, internal iff = internal, anything else pads on the left
XAdjust(fl) == LET a == fl \cap {"left", "right", "internal"} IN IF a = {"left"} THEN "left" ELSE IF a = {"internal"} THEN "internal" ELSE "right"

XMagLimit == 200          \* bit lengths of num / den beyond this are outside the modelled domain (cost only)
XPrecLimit == 60
XNumModelled(nm, prec) == nm.k # "nan" /\ prec <= XPrecLimit /\ NBitLen(nm.num) <= XMagLimit /\ NBitLen(nm.den) <= XMagLimit

XSign(neg, plus) == IF neg THEN <<45>> ELSE IF plus THEN <<43>> ELSE << >>
XTxtInf == <<105, 110, 102>>
\* the characters num_put produces before padding (classic locale: no grouping, '.')
XNumBody(nm, fl, prec) ==
    LET sp == "showpos" \in fl IN
    CASE nm.k = "int" -> XSign(nm.neg, sp /\ nm.sg) \o XDec(nm.num)
      [] nm.k = "inf" -> XSign(nm.neg, sp) \o XTxtInf
      [] nm.k = "fin" -> XSign(nm.neg, sp) \o (CASE XFloatField(fl) = "fixed" -> XFixedDigits(nm.num, nm.den, prec)
                                                 [] XFloatField(fl) = "scientific" -> XSciDigits(nm.num, nm.den, prec)
                                                 [] OTHER -> XGenDigits(nm.num, nm.den, prec))
      [] OTHER -> << >>
\* padding to the field width (std::__pad / 27.7.3.6.1): internal splits after a leading sign
XPad(t, w, fill, adj) ==
    IF Len(t) >= w THEN t
    ELSE LET f == XRep(fill, w - Len(t)) IN
         IF adj = "left" THEN t \o f
         ELSE IF adj = "internal" /\ Len(t) > 0 /\ t[1] \in {43, 45} THEN XCat3(<<t[1]>>, f, SubSeq(t, 2, Len(t)))
         ELSE f \o t
\* os << number with the given flags / precision / width / fill
XElem(nm, fl, prec, w, fill) == XPad(XNumBody(nm, fl, prec), w, fill, XAdjust(fl))
\* os << character (internal behaves like right)
XChar(c, w, fill, fl) == XPad(<<c>>, w, fill, IF XAdjust(fl) = "left" THEN "left" ELSE "right")

\* ------------------------------------------------------------------------
\* Part C: the state machine
\* ------------------------------------------------------------------------
XColumnMajor == 0
XRowMajor == 1
\* io::format_punct<CTy>::format_punct(size_t): width = 1 + 4 + 1 + precision
XDefaultFmt == [formatted |-> TRUE, precision |-> 3, width |-> 9, separator |-> 44, delim_left |-> 91, delim_right |-> 93,
                space |-> 32, newline |-> 10, order |-> XColumnMajor]
\* a fresh std::basic_ios (27.5.5.2 basic_ios::init)
XDefaultOs == [flags |-> {"dec", "skipws"}, precision |-> 6, width |-> 0, fill |-> 32]
\* heap: the facet objects created so far (they are never copied by a locale, only shared); cur: the one held by the stream's
\* locale (0: none); stack: live savers, innermost last; each remembers what the constructor read: the ios state and the
\* locale (= the facet reference), plus two ghosts: hlen (facets that existed at entry: everything created inside the scope
\* is unreachable after the exit) and snap (the effective format at entry, for the laws of MC_X21)
XInit == [heap |-> << >>, cur |-> 0, stack |-> << >>, os |-> XDefaultOs]
XHas(S) == S.cur # 0
XEffFmt(S) == IF S.cur = 0 THEN XDefaultFmt ELSE S.heap[S.cur]
\* io::get_facet: imbue a default-constructed facet when the locale has none
XEnsure(S) == IF S.cur # 0 THEN S ELSE [S EXCEPT !.heap = Append(@, XDefaultFmt), !.cur = Len(S.heap) + 1]
\* const_cast<format_punct&>(get_facet(os)).field = value
XSetFmt(S, field, value) == LET T == XEnsure(S) IN [T EXCEPT !.heap[T.cur][field] = value]
XSetFlags(S, on, mask) == [S EXCEPT !.os.flags = (@ \ mask) \cup on]

XManipOps == {"formatted", "unformatted", "precision", "width", "delimeter", "order", "poke"}
XOsOps == {"showpos", "noshowpos", "fixed", "scientific", "defaultfloat", "left", "right", "internal", "setw", "setprecision", "setfill", "flag", "base"}
\* "flag": os.setf / os.unsetf of one of the flags without a field; "base": os.setf(dec | hex | oct, basefield)
XPlainFlags == {"boolalpha", "showbase", "showpoint", "showpos", "skipws", "unitbuf", "uppercase"}
XBaseFlags == {"dec", "hex", "oct"}
XSaverOps == {"enterF", "enterS", "exit"}
XVecKinds == {"vec", "qua"}
XCanStep(S, act) == \/ act.op \in (XManipOps \cup XOsOps \cup {"enterF", "enterS", "out"}) \ {"flag", "base"}
                    \/ act.op = "exit" /\ Len(S.stack) > 0
                    \/ act.op = "flag" /\ act.name \in XPlainFlags
                    \/ act.op = "base" /\ act.name \in XBaseFlags

\* what an output leaves behind (the text is Part D): the facet is installed if it was not; a formatted vector / quaternion
\* restores the whole ios state through its own basic_state_saver (so the field width survives, unlike after a standard inserter);
\* every other path ends with an ordinary inserter, which resets width to 0
XAfterOut(S, act) ==
    LET T == XEnsure(S) IN
    IF XEffFmt(T).formatted /\ act.kind \in XVecKinds THEN T ELSE [T EXCEPT !.os.width = 0]

IoStep(S, act) ==
    CASE act.op = "formatted"   -> XSetFmt(S, "formatted", TRUE)
      [] act.op = "unformatted" -> XSetFmt(S, "formatted", FALSE)
      [] act.op = "precision"   -> XSetFmt(S, "precision", act.n)
      [] act.op = "width"       -> XSetFmt(S, "width", act.n)
      [] act.op = "delimeter"   -> XSetFmt(XSetFmt(XSetFmt(S, "delim_left", act.l), "delim_right", act.r), "separator", act.s)
      [] act.op = "order"       -> XSetFmt(S, "order", act.o)
      \* not a GLM manipulator: the harness writes the two fields no manipulator reaches the way the manipulators do
      [] act.op = "poke"        -> XSetFmt(XSetFmt(S, "space", act.space), "newline", act.newline)
      \* basic_format_saver: bss_(a) first, then a copy of the current facet (created if need be) is imbued
      [] act.op = "enterF"      -> LET T == XEnsure(S) IN
                                   [T EXCEPT !.heap = Append(@, T.heap[T.cur]), !.cur = Len(T.heap) + 1,
                                             !.stack = Append(@, [kind |-> "format", os |-> S.os, loc |-> S.cur, hlen |-> Len(S.heap), snap |-> XEffFmt(S)])]
      [] act.op = "enterS"      -> [S EXCEPT !.stack = Append(@, [kind |-> "state", os |-> S.os, loc |-> S.cur, hlen |-> Len(S.heap), snap |-> XEffFmt(S)])]
      \* ~basic_state_saver: imbue(locale_), fill, width, precision, flags
      [] act.op = "exit"        -> LET top == S.stack[Len(S.stack)] IN
                                   [heap |-> SubSeq(S.heap, 1, top.hlen), cur |-> top.loc, stack |-> SubSeq(S.stack, 1, Len(S.stack) - 1), os |-> top.os]
      [] act.op = "showpos"     -> XSetFlags(S, {"showpos"}, {"showpos"})
      [] act.op = "noshowpos"   -> XSetFlags(S, {}, {"showpos"})
      [] act.op = "fixed"       -> XSetFlags(S, {"fixed"}, {"fixed", "scientific"})
      [] act.op = "scientific"  -> XSetFlags(S, {"scientific"}, {"fixed", "scientific"})
      [] act.op = "defaultfloat" -> XSetFlags(S, {}, {"fixed", "scientific"})
      [] act.op = "left"        -> XSetFlags(S, {"left"}, {"left", "right", "internal"})
      [] act.op = "right"       -> XSetFlags(S, {"right"}, {"left", "right", "internal"})
      [] act.op = "internal"    -> XSetFlags(S, {"internal"}, {"left", "right", "internal"})
      [] act.op = "flag"        -> XSetFlags(S, IF act.on THEN {act.name} ELSE {}, {act.name})
      [] act.op = "base"        -> XSetFlags(S, {act.name}, XBaseFlags)
      [] act.op = "setw"        -> [S EXCEPT !.os.width = act.n]
      [] act.op = "setprecision" -> [S EXCEPT !.os.precision = act.n]
      [] act.op = "setfill"     -> [S EXCEPT !.os.fill = act.c]
      [] act.op = "out"         -> XAfterOut(S, act)

\* the fields a manipulator writes (two manipulators commute unless they write a common field)
XWrites(act) ==
    CASE act.op \in {"formatted", "unformatted"} -> {"formatted"}
      [] act.op = "precision" -> {"precision"}
      [] act.op = "width" -> {"width"}
      [] act.op = "delimeter" -> {"delim_left", "delim_right", "separator"}
      [] act.op = "order" -> {"order"}
      [] act.op = "poke" -> {"space", "newline"}
      [] act.op \in {"showpos", "noshowpos"} -> {"os.showpos"}
      [] act.op \in {"fixed", "scientific", "defaultfloat"} -> {"os.floatfield"}
      [] act.op \in {"left", "right", "internal"} -> {"os.adjustfield"}
      [] act.op = "flag" -> {"os." \o act.name}
      [] act.op = "base" -> {"os.basefield"}
      [] act.op = "setw" -> {"os.width"}
      [] act.op = "setprecision" -> {"os.precision"}
      [] act.op = "setfill" -> {"os.fill"}
      [] OTHER -> {}

\* ------------------------------------------------------------------------
\* Part D: the text of an output
\* ------------------------------------------------------------------------
RECURSIVE XJoinFrom(_, _, _)
XJoinFrom(parts, sep, i) == IF i > Len(parts) THEN << >> ELSE (IF i > 1 THEN sep ELSE << >>) \o parts[i] \o XJoinFrom(parts, sep, i + 1)
XJoin(parts, sep) == XJoinFrom(parts, sep, 1)

\* print_vector_on, formatted: os << fixed << right << setprecision(precision) << setfill(space) << delim_left; then
\* setw(width) << a[i], separator between, delim_right.  w0 = the stream's width when the output starts: it pads the delimiter.
XVecFormatted(os, fmt, comps, w0) ==
    LET fl == (os.flags \ {"scientific", "left", "internal"}) \cup {"fixed", "right"} IN
    XCat3(XChar(fmt.delim_left, w0, fmt.space, fl),
          XJoin([i \in 1..Len(comps) |-> XElem(comps[i], fl, fmt.precision, fmt.width, fmt.space)], <<fmt.separator>>),
          <<fmt.delim_right>>)
\* unformatted: os << a[i] with the stream's own settings, fmt.space between; only the first insertion sees w0
XVecPlain(os, fmt, comps, w0) ==
    XJoin([i \in 1..Len(comps) |-> XElem(comps[i], os.flags, os.precision, IF i = 1 THEN w0 ELSE 0, os.fill)], <<fmt.space>>)

XMatAt(nums, R, c, r) == nums[(c - 1) * R + r]
XMatRow(nums, C, R, r) == [c \in 1..C |-> XMatAt(nums, R, c, r)]
XMatCol(nums, C, R, c) == [r \in 1..R |-> XMatAt(nums, R, c, r)]
\* the lines of the formatted layout: column_major shows the rows (the mathematical layout), row_major the columns
XMatLines(nums, C, R, order) == IF order = XColumnMajor THEN [r \in 1..R |-> XMatRow(nums, C, R, r)] ELSE [c \in 1..C |-> XMatCol(nums, C, R, c)]
\* the vectors of the unformatted list: column_major the columns (memory order), row_major the rows
XMatRuns(nums, C, R, order) == IF order = XColumnMajor THEN [c \in 1..C |-> XMatCol(nums, C, R, c)] ELSE [r \in 1..R |-> XMatRow(nums, C, R, r)]
XTranspose(nums, C, R) == [i \in 1..(C * R) |-> LET c == ((i - 1) \div C) + 1 r == ((i - 1) % C) + 1 IN XMatAt(nums, R, r, c)]     \* an R x C matrix (R columns)

XMatFormatted(os, fmt, nums, C, R, w0) ==
    LET lines == XMatLines(nums, C, R, fmt.order) n == Len(lines) IN
    XCat3(XChar(fmt.newline, w0, os.fill, os.flags) \o <<fmt.delim_left>>,
          XJoin([i \in 1..n |-> (IF i > 1 THEN <<fmt.space>> ELSE << >>) \o XVecFormatted(os, fmt, lines[i], 0)], <<fmt.newline>>),
          <<fmt.delim_right>>)
XMatPlain(os, fmt, nums, C, R, w0) ==
    LET runs == XMatRuns(nums, C, R, fmt.order) IN
    XJoin([i \in 1..Len(runs) |-> XVecPlain(os, fmt, runs[i], IF i = 1 THEN w0 ELSE 0)], <<fmt.space>>)
\* pair<mat4, mat4>: the two matrices side by side, line by line
XPairFormatted(os, fmt, ml, mr, C, R, w0) ==
    LET ll == XMatLines(ml, C, R, fmt.order) lr == XMatLines(mr, C, R, fmt.order) n == Len(ll) IN
    XCat3(XChar(fmt.newline, w0, os.fill, os.flags) \o <<fmt.delim_left>>,
          XJoin([i \in 1..n |-> (IF i > 1 THEN <<fmt.space>> ELSE << >>) \o XVecFormatted(os, fmt, ll[i], 0)
                                \o <<IF i < n THEN fmt.space ELSE fmt.delim_right, fmt.space, IF i > 1 THEN fmt.space ELSE fmt.delim_left>>
                                \o XVecFormatted(os, fmt, lr[i], 0)], <<fmt.newline>>),
          <<fmt.delim_right>>)
XPairPlain(os, fmt, ml, mr, C, R, w0) == XCat3(XMatPlain(os, fmt, ml, C, R, w0), <<fmt.space>>, XMatPlain(os, fmt, mr, C, R, 0))

\* the storage order of a quaternion (x y z w without GLM_FORCE_QUAT_DATA_WXYZ) from the logging order w x y z
XQuaStorage(nums) == <<nums[2], nums[3], nums[4], nums[1]>>

\* act.kind in {"vec", "qua", "mat", "pair"}, act.C / act.R the shape (vec: C = L, R = 1); nums as logged (pair: ml then mr)
IoText(S, act, nums) ==
    LET fmt == XEffFmt(S) os == S.os w0 == S.os.width C == act.C R == act.R IN
    CASE act.kind = "vec" -> IF fmt.formatted THEN XVecFormatted(os, fmt, nums, w0) ELSE XVecPlain(os, fmt, nums, w0)
      [] act.kind = "qua" -> IF fmt.formatted THEN XVecFormatted(os, fmt, XQuaStorage(nums), w0) ELSE XVecPlain(os, fmt, XQuaStorage(nums), w0)
      [] act.kind = "mat" -> IF fmt.formatted THEN XMatFormatted(os, fmt, nums, C, R, w0) ELSE XMatPlain(os, fmt, nums, C, R, w0)
      [] act.kind = "pair" -> LET ml == SubSeq(nums, 1, C * R) mr == SubSeq(nums, C * R + 1, 2 * C * R) IN
                              IF fmt.formatted THEN XPairFormatted(os, fmt, ml, mr, C, R, w0) ELSE XPairPlain(os, fmt, ml, mr, C, R, w0)
\* is the text of this output inside the modelled domain?
IoTextModelled(S, act, nums) ==
    LET fmt == XEffFmt(S) prec == IF fmt.formatted THEN fmt.precision ELSE S.os.precision IN
    /\ XFlagsModelled(IF fmt.formatted /\ act.kind \in XVecKinds \cup {"mat", "pair"} THEN (S.os.flags \ {"scientific"}) \cup {"fixed"} ELSE S.os.flags)
    /\ \A i \in 1..Len(nums) : XNumModelled(nums[i], prec) /\ nums[i].k # "bool"
    /\ fmt.width <= 200 /\ S.os.width <= 200

\* ------------------------------------------------------------------------
\* Part E: glm::to_string (gtx/string_cast)
\* ------------------------------------------------------------------------
\* prefix<T>::value(): "" d b u8 i8 u16 i16 u i u64 i64
XPrefix(t) == CASE t = "f32" -> << >> [] t = "f64" -> <<100>> [] t = "b" -> <<98>>
                [] t = "u8" -> <<117, 56>> [] t = "i8" -> <<105, 56>> [] t = "u16" -> <<117, 49, 54>> [] t = "i16" -> <<105, 49, 54>>
                [] t = "u32" -> <<117>> [] t = "i32" -> <<105>> [] t = "u64" -> <<117, 54, 52>> [] t = "i64" -> <<105, 54, 52>>
XTxtVec == <<118, 101, 99>>                               \* vec
XTxtMat == <<109, 97, 116>>                               \* mat
XTxtQuat == <<113, 117, 97, 116>>                         \* quat
XTxtDualquat == <<100, 117, 97, 108>> \o XTxtQuat          \* dualquat
XTxtTrue == <<116, 114, 117, 101>>
XTxtFalse == <<102, 97, 108, 115, 101>>
XCommaSp == <<44, 32>>
\* one element: "%f" (6 digits, of the value converted to double - exact), "%d" style decimal, true / false
XLit(nm) == CASE nm.k = "bool" -> IF NIsZero(nm.num) THEN XTxtFalse ELSE XTxtTrue
              [] nm.k = "int" -> XSign(nm.neg, FALSE) \o XDec(nm.num)
              [] nm.k = "inf" -> XSign(nm.neg, FALSE) \o XTxtInf
              [] OTHER -> XSign(nm.neg, FALSE) \o XFixedDigits(nm.num, nm.den, 6)
XList(nums) == XJoin([i \in 1..Len(nums) |-> XLit(nums[i])], XCommaSp)
XParen(t) == XCat3(<<40>>, t, <<41>>)
XQuatBody(q) == XCat3(XLit(q[1]) \o XCommaSp, <<123>>, XList(<<q[2], q[3], q[4]>>) \o <<125>>)       \* w, {x, y, z}
\* kind "vec" (C = L), "mat" (C columns of R), "qua" (w x y z), "dualquat" (real then dual, each w x y z)
ToStringText(kind, C, R, t, nums) ==
    CASE kind = "vec" -> XCat3(XPrefix(t) \o XTxtVec, XDecNat(C), XParen(XList(nums)))
      [] kind = "mat" -> XCat3(XPrefix(t) \o XTxtMat, XCat3(XDecNat(C), <<120>>, XDecNat(R)),
                               XParen(XJoin([c \in 1..C |-> XParen(XList(XMatCol(nums, C, R, c)))], XCommaSp)))
      [] kind = "qua" -> XCat3(XPrefix(t), XTxtQuat, XParen(XQuatBody(nums)))
      [] kind = "dualquat" -> XCat3(XPrefix(t), XTxtDualquat,
                                    XParen(XCat3(XParen(XQuatBody(SubSeq(nums, 1, 4))), XCommaSp, XParen(XQuatBody(SubSeq(nums, 5, 8))))))
ToStringModelled(nums) == \A i \in 1..Len(nums) : nums[i].k # "nan" /\ NBitLen(nums[i].num) <= XMagLimit /\ NBitLen(nums[i].den) <= XMagLimit
\* what "%d" shows of an integer that does not fit an int: the low 32 bits read as a signed int (the pinned deviations of Trace_X21)
XWrapInt(nm) == IF nm.k # "int" THEN nm ELSE XNumInt(WToZ(32, TRUE, WFromZ(32, ZMk(nm.neg, nm.num))), TRUE)
XFitsInt(nm) == nm.k # "int" \/ ZInRange(32, TRUE, ZMk(nm.neg, nm.num))
=============================================================================
