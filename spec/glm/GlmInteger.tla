---------------------------- MODULE GlmInteger ----------------------------
(***************************************************************************)
(* GLSL integer functions (glm/integer.hpp), definitional semantics        *)
(* transcribed from the GLSL 4.20 text quoted in the header, parametric    *)
(* in the width W and signedness sg, plus step-by-step models of the       *)
(* algorithms GLM uses (mask-and-shift ladders, smear ladder).             *)
(* Words are BigInt magnitudes (module Words).                             *)
(***************************************************************************)
EXTENDS Words

----------------------------------------------------------------------------
(* definitions *)
BitCount(W, x) == Cardinality(Bits(W, x))

FindLSB(W, x) == IF NIsZero(x) THEN -1 ELSE SetMin(Bits(W, x))

\* "For positive integers the bit number of the most significant 1 bit; for negative
\*  integers the bit number of the most significant 0 bit; for zero or minus one, -1."
FindMSB(W, sg, x) ==
    IF WIsNeg(W, sg, x)
    THEN (IF x = AllOnes(W) THEN -1 ELSE SetMax((0..W-1) \ Bits(W, x)))
    ELSE (IF NIsZero(x) THEN -1 ELSE SetMax(Bits(W, x)))

BitfieldReverse(W, x) == FromBits(W, {W - 1 - i : i \in Bits(W, x)})

\* documented domain of the (offset, bits) arguments
FieldOK(W, off, n) == off >= 0 /\ n >= 0 /\ off + n <= W

\* bits [off, off+n-1] in the low bits; sign-extended from bit off+n-1 for signed types
BitfieldExtract(W, sg, v, off, n) ==
    LET raw == {i - off : i \in {j \in Bits(W, v) : off <= j /\ j < off + n}}
    IN IF sg /\ n > 0 /\ NBit(v, off + n - 1) = 1 THEN FromBits(W, raw \cup (n..W-1)) ELSE FromBits(W, raw)

BitfieldInsert(W, base, ins, off, n) ==
    FromBits(W, {i \in Bits(W, base) : i < off \/ i >= off + n} \cup {i + off : i \in {j \in Bits(W, ins) : j < n}})

Two32 == NShl(<<1>>, 32)
UaddCarry(x, y) == LET s == NAdd(x, y) IN [r |-> NLowBits(s, 32), c |-> NBit(s, 32)]
\* "Subtracts y from x, returning the difference if non-negative, or 2^32 plus the
\*  difference otherwise; borrow is 0 if x >= y, 1 otherwise."
UsubBorrow(x, y) == IF NCmp(x, y) >= 0 THEN [r |-> NSub(x, y), b |-> 0]
                    ELSE [r |-> NSub(NAdd(Two32, x), y), b |-> 1]
UmulExtended(x, y) == LET p == NMul(x, y) IN [msb |-> NShr(p, 32), lsb |-> NLowBits(p, 32)]
ImulExtended(x, y) == LET p == WFromZ(64, ZMul(WToZ(32, TRUE, x), WToZ(32, TRUE, y)))
                      IN [msb |-> NShr(p, 32), lsb |-> NLowBits(p, 32)]

----------------------------------------------------------------------------
(* GLM's algorithms, one step per ladder rung *)

\* repeating mask with 2^k ones followed by 2^k zeros (0x55.., 0x33.., 0x0F.., ...)
RepMask(W, k) == FromBits(W, {i \in 0..W-1 : (i \div 2^k) % 2 = 0})

\* compute_bitfieldBitCountStep: (v & Mask) + ((v >> Shift) & Mask), executed iff W >= 2^(k+1)
CountStep(W, x, k) == IF W >= 2^(k + 1) THEN WAdd(W, WAnd(W, x, RepMask(W, k)), WAnd(W, WShr(W, x, 2^k), RepMask(W, k))) ELSE x
\* after k steps every 2^k-bit field holds the popcount of the original field
Field(x, j, width) == NLowBits(NShr(x, j * width), width)
CountLadderInv(W, x0, x, k) ==
    LET width == IF 2^k > W THEN W ELSE 2^k
    IN \A j \in 0..(W \div width) - 1 : Field(x, j, width) = NFromNat(BitCount(width, Field(x0, j, width)))

\* compute_bitfieldReverseStep: (v & Mask) << Shift | (v & ~Mask) >> Shift
ReverseStep(W, x, k) == IF W >= 2^(k + 1)
                        THEN WOr(W, WShl(W, WAnd(W, x, RepMask(W, k)), 2^k), WShr(W, WAnd(W, x, WNot(W, RepMask(W, k))), 2^k))
                        ELSE x
\* after k steps the bits inside every 2^k-bit field are reversed
ReverseLadderInv(W, x0, x, k) ==
    LET width == IF 2^k > W THEN W ELSE 2^k
    IN \A j \in 0..(W \div width) - 1 : Field(x, j, width) = BitfieldReverse(width, Field(x0, j, width))

\* compute_findMSB_vec: smear x |= x >> 2^k, then W - 1 - bitCount(~x)
SmearStep(W, x, k) == IF W >= 2^(k + 1) \/ k < 3 THEN WOr(W, x, WShr(W, x, 2^k)) ELSE x
SmearInv(W, x0, x, k) ==         \* bit i is set iff some bit of x0 in i .. i+2^k-1 is set
    \A i \in 0..W-1 : (NBit(x, i) = 1) = (\E j \in i..(i + 2^k - 1) : j < W /\ NBit(x0, j) = 1)
FindMSBViaSmear(W, smeared) == W - 1 - BitCount(W, WNot(W, smeared))

\* compute_findLSB: bitCount(~v & (v - 1))
FindLSBViaCount(W, x) == IF NIsZero(x) THEN -1 ELSE BitCount(W, WAnd(W, WNot(W, x), WSub(W, x, <<1>>)))
=============================================================================
