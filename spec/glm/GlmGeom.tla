------------------------------ MODULE GlmGeom ------------------------------
(***************************************************************************)
(* Geometric functions (glm/geometric.hpp) and the gtx norm / projection / *)
(* perpendicular / orthonormalize / vector_angle / closest_point / normal /*)
(* exterior_product / mixed_product helpers (property C12).                *)
(*                                                                         *)
(* Part 1: definitional semantics over the rationals (vectors = sequences  *)
(*         of Q, see LinQ).  No floating point, no roots: roots only occur *)
(*         through their defining postcondition (r >= 0 /\ r^2 = s).       *)
(* Part 2: acceptance predicates "the observed floating result r is a      *)
(*         faithful evaluation of the definition", evaluated division-free *)
(*         in exact dyadic arithmetic, each with an explicit forward error *)
(*         bound  k * eps * scale  (eps = 2^-23 / 2^-52 = 2 unit           *)
(*         roundoffs u; scale = sum of the magnitudes of the intermediate  *)
(*         terms).  The bounds are the textbook first-order bounds of the  *)
(*         evaluation (a dot product of length L: L u sum|a_i b_i|) with a *)
(*         factor of about 2 of slack; they hold for any summation order   *)
(*         and with or without fused multiply-add.                         *)
(*         MC_C12 checks that the dyadic forms agree with part 1.          *)
(***************************************************************************)
EXTENDS LinQ

GEps(f) == QFromD(Eps(f))
GTol(k, scale, f) == QMul(QMulInt(GEps(f), k), scale)                   \* k * eps * scale
GAbsV(v) == [i \in 1..Len(v) |-> QAbs(v[i])]
GZeroV(L) == [i \in 1..L |-> QZero]
GVEq(a, b) == Len(a) = Len(b) /\ \A i \in 1..Len(a) : QEq(a[i], b[i])
GNorm1(v) == QSum(GAbsV(v))
RECURSIVE GPowN(_, _)
GPowN(a, n) == IF n = 0 THEN QOne ELSE QMul(a, GPowN(a, n - 1))

----------------------------------------------------------------------------
(* Part 1: definitions *)
GDot(a, b) == VDot(a, b)                                                 \* sum of component products
GLength2(v) == VDot(v, v)
GDistance2(a, b) == GLength2(VSub(a, b))
\* r is the length of v  <=>  r >= 0 /\ r^2 = |v|^2
GIsLength(r, v) == QSign(r) >= 0 /\ QEq(QMul(r, r), GLength2(v))
GCross(a, b) == VCross(a, b)                                             \* determinant formula
GCross2(a, b) == QSub(QMul(a[1], b[2]), QMul(b[1], a[2]))                \* exterior product of two vec2
GMixed(a, b, c) == VDot(VCross(a, b), c)
GReflect(I, N) == VSub(I, VScale(N, QMul(QI(2), VDot(N, I))))            \* I - 2 dot(N,I) N
\* refraction: k = 1 - eta^2 (1 - dot(N,I)^2); k < 0 is total internal reflection (result = 0);
\* otherwise  eta I - (eta dot(N,I) + sqrt(k)) N
GRefractK(I, N, eta) == QSub(QOne, QMul(QMul(eta, eta), QSub(QOne, QMul(VDot(N, I), VDot(N, I)))))
GIsTIR(I, N, eta) == QSign(GRefractK(I, N, eta)) < 0
GRefractWith(I, N, eta, s) == VSub(VScale(I, eta), VScale(N, QAdd(QMul(eta, VDot(N, I)), s)))    \* s stands for sqrt(k)
GRefractTan(I, N, eta) == VScale(VSub(I, VScale(N, VDot(N, I))), eta)    \* component of the refracted ray orthogonal to N (unit N)
GFaceforward(N, I, Nref) == IF QSign(VDot(Nref, I)) < 0 THEN N ELSE VNeg(N)
GProj(x, n) == VScale(n, QDiv(VDot(x, n), VDot(n, n)))                   \* n # 0
GPerp(x, n) == VSub(x, GProj(x, n))
GClosestT(p, a, b) == QDiv(VDot(VSub(p, a), VSub(b, a)), GLength2(VSub(b, a)))      \* a # b
GClosest(p, a, b) == LET t == GClosestT(p, a, b)
                     IN IF QSign(t) <= 0 THEN a ELSE IF QCmp(t, QOne) >= 0 THEN b ELSE VAdd(a, VScale(VSub(b, a), t))
GL1(v) == GNorm1(v)
GLMax(v) == QMaxAbs(v)
GLxPow(v, d) == QSum([i \in 1..Len(v) |-> GPowN(QAbs(v[i]), d)])        \* (lxNorm)^d
\* Gram-Schmidt without normalisation (directions of the orthonormalised columns)
GGS1(m0, m1) == IF VIsZero(m0) THEN m1 ELSE VSub(m1, GProj(m1, m0))
GGS2(m0, m1, m2) == LET w1 == GGS1(m0, m1)
                        t == IF VIsZero(m0) THEN m2 ELSE VSub(m2, GProj(m2, m0))
                    IN IF VIsZero(w1) THEN t ELSE VSub(t, GProj(m2, w1))
GOrtho2Dir(x, y) == VSub(x, VScale(y, VDot(y, x)))                       \* orthonormalize(x, y) = normalize of this (unit y)
GTriDir(p1, p2, p3) == VCross(VSub(p1, p2), VSub(p1, p3))

----------------------------------------------------------------------------
(* Part 2: acceptance predicates on dyadics.  Every logged float is a dyadic number m * 2^e; sums and products of
   dyadics are dyadic, so all predicates below are evaluated division-free in exact dyadic arithmetic (a quotient
   p / q with q > 0 in a definition of part 1 is compared after multiplying the inequality by q).  This keeps the
   numbers short: unreduced rationals with a different power-of-two denominator per component grow exponentially. *)
DvAdd(a, b) == [i \in 1..Len(a) |-> DAdd(a[i], b[i])]
DvSub(a, b) == [i \in 1..Len(a) |-> DSub(a[i], b[i])]
DvScale(a, k) == [i \in 1..Len(a) |-> DMul(a[i], k)]
DvNeg(a) == [i \in 1..Len(a) |-> DNeg(a[i])]
DvAbs(a) == [i \in 1..Len(a) |-> DAbs(a[i])]
DvDot(a, b) == DSum([i \in 1..Len(a) |-> DMul(a[i], b[i])])
DvDotAbs(a, b) == DSum([i \in 1..Len(a) |-> DAbs(DMul(a[i], b[i]))])
DvCross(a, b) == << DSub(DMul(a[2], b[3]), DMul(a[3], b[2])), DSub(DMul(a[3], b[1]), DMul(a[1], b[3])), DSub(DMul(a[1], b[2]), DMul(a[2], b[1])) >>
DvIsZero(a) == \A i \in 1..Len(a) : DIsZero(a[i])
DvNorm1(a) == DSum(DvAbs(a))
DvZero(L) == [i \in 1..L |-> DZero]
DvToQ(a) == [i \in 1..Len(a) |-> QFromD(a[i])]
DUnit == DFromInt(1)
DSq(a) == DMul(a, a)
RECURSIVE DPowN(_, _)
DPowN(a, n) == IF n = 0 THEN DUnit ELSE DMul(a, DPowN(a, n - 1))
DTol(k, scale, f) == DMul2k(DMulInt(scale, k), -f.mb)                   \* k * eps * scale
DNear(a, b, tol) == DLe(DAbs(DSub(a, b)), tol)
DNearRel(obs, exp, k, scale, f) == DNear(obs, exp, DTol(k, scale, f))

\* r ~ sqrt(s):  r >= 0 and |r^2 - s| <= k eps max(s, r^2)
JSqrtPost(r, s, k, f) == DSign(r) >= 0 /\ DLe(DAbs(DSub(DSq(r), s)), DTol(k, DMax(s, DSq(r)), f))

\* dot: L roundings on the way of every product (1 product + L-1 additions): error <= L u sum|a_i b_i| = (L/2) eps sum|..|; k = L
JDotK(L) == L
JDotOk(r, a, b, f) == DNearRel(r, DvDot(a, b), JDotK(Len(a)), DvDotAbs(a, b), f)
\* length = sqrt(dot(v,v)): r^2 = |v|^2 (1 + (L+2) u); k = L + 2
JLengthOk(r, v, f) == JSqrtPost(r, DvDot(v, v), Len(v) + 2, f)
\* distance(a,b) = length(a-b): two more half-ulps from the rounded differences; k = L + 4
JDistanceOk(r, a, b, f) == JSqrtPost(r, DvDot(DvSub(a, b), DvSub(a, b)), Len(a) + 4, f)
JLength2Ok(r, v, f) == DNearRel(r, DvDot(v, v), JDotK(Len(v)), DvDot(v, v), f)
JDistance2Ok(r, a, b, f) == LET s == DvDot(DvSub(a, b), DvSub(a, b)) IN DNearRel(r, s, Len(a) + 2, s, f)

\* cross: every component is a difference of two rounded products: error <= 2u (|p1| + |p2|) = eps (|p1| + |p2|); k = 2
JCrossAbs(a, b) == << DAdd(DAbs(DMul(a[2], b[3])), DAbs(DMul(a[3], b[2]))),
                      DAdd(DAbs(DMul(a[3], b[1])), DAbs(DMul(a[1], b[3]))),
                      DAdd(DAbs(DMul(a[1], b[2])), DAbs(DMul(a[2], b[1]))) >>
JCrossK == 2
JCrossFormulaOk(r, a, b, f) == LET c == DvCross(a, b) s == JCrossAbs(a, b) IN \A i \in 1..3 : DNearRel(r[i], c[i], JCrossK, s[i], f)
\* orthogonal to both arguments up to the rounding of its components
JCrossOrthOk(r, a, b, f) == LET s == JCrossAbs(a, b)
                            IN /\ DLe(DAbs(DvDot(r, a)), DTol(JCrossK, DvDot(s, DvAbs(a)), f))
                               /\ DLe(DAbs(DvDot(r, b)), DTol(JCrossK, DvDot(s, DvAbs(b)), f))
\* anti-commutative exactly (as values: +0 and -0 are the same number)
JAntiOk(r, r2) == \A i \in 1..Len(r) : DEq(r2[i], DNeg(r[i]))
JCross2(a, b) == DSub(DMul(a[1], b[2]), DMul(b[1], a[2]))
JCross2Abs(a, b) == DAdd(DAbs(DMul(a[1], b[2])), DAbs(DMul(b[1], a[2])))
JCross2Ok(r, a, b, f) == DNearRel(r, JCross2(a, b), JCrossK, JCross2Abs(a, b), f)
\* mixed product dot(cross(a,b),c): cross components within eps s_i, then a 3-term dot: <= (1 + 3/2 + ..) eps sum |c_i| s_i; k = 5
JMixed(a, b, c) == DvDot(DvCross(a, b), c)
JMixedAbs(a, b, c) == DvDot(JCrossAbs(a, b), DvAbs(c))
JMixedOk(r, a, b, c, f) == DNearRel(r, JMixed(a, b, c), 5, JMixedAbs(a, b, c), f)

\* r is the unit vector of direction w, where w itself is only known up to the absolute error e (component-wise):
\*   unit length within k eps, parallel to w within the propagated error, and not opposite to w.
\* For r = lambda (w + e')(1 + delta), lambda > 0, one has r_i w_j - r_j w_i = e'_i r_j - e'_j r_i  (+ delta terms).
\* Only the direction of w matters: (w, e) may be scaled by any positive factor.
JDirOf(r, w, e, k, f) ==
    LET L == Len(r) IN
    /\ DNear(DvDot(r, r), DUnit, DTol(k, DUnit, f))
    /\ \A i \in 1..L : \A j \in (i + 1)..L :
          DLe(DAbs(DSub(DMul(r[i], w[j]), DMul(r[j], w[i]))),
              DAdd(DAdd(DMul(e[i], DAbs(r[j])), DMul(e[j], DAbs(r[i]))),
                   DTol(k, DMax(DAbs(DMul(r[i], w[j])), DAbs(DMul(r[j], w[i]))), f)))
    /\ DLe(DNeg(DvDot(DvAbs(r), e)), DvDot(r, w))
\* r = normalised (w + e') is orthogonal to y up to B / |w + e'|, B = |w.y| + sum e_i |y_i| + k eps sum|w_i y_i|;
\* stated without roots and only when |w| >= 2 |e| (then |w + e'| >= |w| / 2):  (r.y)^2 |w|^2 <= 4 B^2
JOrthoAfterNormalize(r, y, w, e, k, f) ==
    LET B == DAdd(DAdd(DAbs(DvDot(w, y)), DvDot(e, DvAbs(y))), DTol(k, DvDotAbs(w, y), f))
        d == DvDot(r, y)
    IN DLe(DMulInt(DvDot(e, e), 4), DvDot(w, w)) => DLe(DMul(DSq(d), DvDot(w, w)), DMulInt(DSq(B), 4))
JSameSigns(r, v) == \A i \in 1..Len(v) : DSign(r[i]) = DSign(v[i])
\* the direction w is resolved by the arithmetic
JResolved(w, e) == ~DvIsZero(w) /\ DLe(DMulInt(DvDot(e, e), 4), DvDot(w, w))

\* normalize(v) = v * (1 / sqrt(dot(v,v))): |r|^2 = 1 + (L+6) u; positive multiple of v; k = L + 4
JNormalizeOk(r, v, f) == JDirOf(r, v, DvZero(Len(v)), Len(v) + 4, f) /\ JSameSigns(r, v)

\* reflect = I - N * dot(N,I) * 2: error_i <= (L+2) u (|I_i| + 2 |N_i| sum|N_j I_j|); k = L + 2
JReflect(I, N) == DvSub(I, DvScale(N, DMulInt(DvDot(N, I), 2)))
JReflectScale(I, N) == LET da == DvDotAbs(N, I) IN [i \in 1..Len(I) |-> DAdd(DAbs(I[i]), DMul(DMulInt(DAbs(N[i]), 2), da))]
JReflectOk(r, I, N, f) == LET e == JReflect(I, N) s == JReflectScale(I, N)
                          IN \A i \in 1..Len(I) : DNearRel(r[i], e[i], Len(I) + 2, s[i], f)
\* N is a unit vector to working precision
JIsUnit(N, k, f) == DNear(DvDot(N, N), DUnit, DTol(k, DUnit, f))
\* for unit N (| |N|^2 - 1 | <= 4 eps): |reflect|^2 = |I|^2 and reflect(reflect(I)) = I.  With M = max_i scale_i:
\*   | |r|^2 - |I|^2 | <= (L^2 + 6L + 2) eps M^2      (4 (N.I)^2 | |N|^2 - 1 | + 2 R.e + |e|^2)
\*   | rr_i - I_i |    <= 16 (L + 1) eps M            (propagated error of the first reflection + rounding of the second
\*                                                    + 4 |N.I| | |N|^2 - 1 | |N_i|)
JReflectIsometryOk(r, I, N, f) == LET M == DMaxAbs(JReflectScale(I, N)) L == Len(I)
                                  IN DNear(DvDot(r, r), DvDot(I, I), DTol(L * L + 6 * L + 2, DSq(M), f))
JReflectInvolutionOk(rr, I, N, f) == LET M == DMaxAbs(JReflectScale(I, N)) L == Len(I)
                                     IN \A i \in 1..L : DNearRel(rr[i], I[i], 16 * (L + 1), M, f)

\* refract.  k = 1 - eta^2 (1 - d^2), d = dot(N,I).  T bounds |k_float - k|:  (L+5) eps (1 + eta^2 (1 + (sum|N_i I_i|)^2))
JRefractK(I, N, eta) == DSub(DUnit, DMul(DSq(eta), DSub(DUnit, DSq(DvDot(N, I)))))
JRefractBand(I, N, eta, f) == LET da == DvDotAbs(N, I) IN DTol(Len(I) + 5, DAdd(DUnit, DMul(DSq(eta), DAdd(DUnit, DSq(da)))), f)
JRefractRegion(I, N, eta, f) == LET k == JRefractK(I, N, eta) T == JRefractBand(I, N, eta, f)
                                IN IF DLt(k, DNeg(T)) THEN "tir" ELSE IF DLt(T, k) THEN "refr" ELSE "band"
JArgMaxAbs(v) == CHOOSE i \in 1..Len(v) : \A j \in 1..Len(v) : DLe(DAbs(v[j]), DAbs(v[i])) /\ (DEq(DAbs(v[j]), DAbs(v[i])) => i <= j)
\* The value s the implementation used for sqrt(k) is recovered from the component i with the largest |N_i| (N # 0):
\*   s = (eta I_i - r_i) / N_i - eta d.        Division-free: S = s |N_i| = sgn(N_i) ((eta I_i - r_i) - eta d N_i).
\* Error of that recovery, not counting the error of sqrt itself: E = eps (2 |eta I_i| / |N_i| + (L+4) |eta| sum|N I| + 3 |s|);
\*   E' = E |N_i|.
\* s must be an admissible value of sqrt(k') (1 + delta), |k' - k| <= T, |delta| <= eps/2, up to E:
\*   sqrt(max(0,k-T)) (1 - u) - E <= s <= sqrt(k+T) (1 + u) + E        (written with squares, multiplied by N_i^2)
\* and every component must agree with eta I_j - (eta d + s) N_j within 2 eps (|eta I_j| + (|eta| sum|N I| + |s|) |N_j|) + 2 |N_j| E.
JRefractFormulaOk(r, I, N, eta, f) ==
    LET L == Len(I)
        i == JArgMaxAbs(N)
        n == DAbs(N[i])
        d == DvDot(N, I) da == DvDotAbs(N, I)
        S0 == DSub(DSub(DMul(eta, I[i]), r[i]), DMul(DMul(eta, d), N[i]))
        S == IF DSign(N[i]) < 0 THEN DNeg(S0) ELSE S0
        E == DTol(1, DAdd(DAdd(DMulInt(DAbs(DMul(eta, I[i])), 2), DMulInt(DMul(DMul(DAbs(eta), da), n), L + 4)), DMulInt(DAbs(S), 3)), f)
        k == JRefractK(I, N, eta)
        T == JRefractBand(I, N, eta, f)
        n2 == DSq(n)
        hi == DMul(DMul(DAdd(k, T), DAdd(DUnit, DMul2k(DUnit, 1 - f.mb))), n2)             \* (k + T) (1 + 2 eps) N_i^2
        lo == DMul(DMul(DMax(DZero, DSub(k, T)), DSub(DUnit, DMul2k(DUnit, -f.mb))), n2)   \* max(0, k - T) (1 - eps) N_i^2
        a == DSub(S, E) b == DAdd(S, E)
        cpn == DAdd(DMul(DMul(DAbs(eta), da), n), DAbs(S))                                 \* (|eta| sum|N I| + |s|) |N_i|
    IN /\ DSign(DAdd(k, T)) >= 0
       /\ (DSign(a) <= 0 \/ DLe(DSq(a), hi))
       /\ DSign(b) >= 0 /\ DLe(lo, DSq(b))
       /\ \A j \in 1..L :
            LET lhs == DAdd(DSub(DMul(r[j], n), DMul(DMul(eta, I[j]), n)), DMul(DAdd(DMul(DMul(eta, d), n), S), N[j]))
            IN DLe(DAbs(lhs), DAdd(DTol(2, DAdd(DMul(DAbs(DMul(eta, I[j])), n), DMul(cpn, DAbs(N[j]))), f), DMulInt(DMul(DAbs(N[j]), E), 2)))

\* faceforward: the sign of dot(Nref, I) is beyond doubt when |dot| > L eps sum|..| (or when the evaluation is exact)
JDotSignCertain(a, b, f) == DLt(DTol(JDotK(Len(a)), DvDotAbs(a, b), f), DAbs(DvDot(a, b)))

\* proj(x,n) = dot(x,n)/dot(n,n)*n: error_i <= (L+1) eps |n_i| sum|x_j n_j| / |n|^2; k = 2L + 2.  Multiplied by |n|^2:
JProjOk(r, x, n, f) == LET nn == DvDot(n, n) xn == DvDot(x, n) da == DvDotAbs(x, n)
                       IN \A i \in 1..Len(x) : DLe(DAbs(DSub(DMul(r[i], nn), DMul(n[i], xn))), DTol(2 * Len(x) + 2, DMul(DAbs(n[i]), da), f))
\* perp = x - proj: error_i <= (L + 3/2) eps (..); k = 2L + 3 on |x_i| + |n_i| sum|x_j n_j| / |n|^2
JPerpOk(r, x, n, f) == LET nn == DvDot(n, n) xn == DvDot(x, n) da == DvDotAbs(x, n)
                       IN \A i \in 1..Len(x) : DLe(DAbs(DAdd(DMul(DSub(r[i], x[i]), nn), DMul(n[i], xn))),
                                                   DTol(2 * Len(x) + 3, DAdd(DMul(DAbs(x[i]), nn), DMul(DAbs(n[i]), da)), f))

\* orthonormalize(x, y) = normalize(x - y * dot(y, x)): the difference carries e_i = 4 eps (|x_i| + |y_i| sum|y_j x_j|)
JOrtho2Dir(x, y) == DvSub(x, DvScale(y, DvDot(y, x)))
JOrtho2Err(x, y, f) == LET da == DvDotAbs(y, x) IN [i \in 1..Len(x) |-> DTol(4, DAdd(DAbs(x[i]), DMul(DAbs(y[i]), da)), f)]
JOrtho2OkWE(r, y, w, e, f) == JDirOf(r, w, e, 7, f) /\ JOrthoAfterNormalize(r, y, w, e, 7, f)
JOrtho2Ok(r, x, y, f) == JOrtho2OkWE(r, y, JOrtho2Dir(x, y), JOrtho2Err(x, y, f), f)
\* orthonormalize(mat3) = Gram-Schmidt.  Directions scaled by positive factors to stay division-free:
\*   W1 = |m0|^2 m1 - (m0.m1) m0 = |m0|^2 w1,      W2 = |m0|^2 |W1|^2 m2 - |W1|^2 (m0.m2) m0 - |m0|^2 (W1.m2) W1 = |m0|^2 |W1|^2 w2
\* Well conditioned (every column keeps at least half of its length after the projections are removed, |w_k|^2 >= |m_k|^2 / 4):
\* directions within e_1 = 16 eps |m_1|_1, e_2 = 128 eps |m_2|_1 (worst-case stacking gives 6.5 and 59),
\* columns mutually orthogonal within 1024 eps.
\* Otherwise only: first column = normalize(m_0), every column a unit vector.
JGS1(m0, m1) == DvSub(DvScale(m1, DvDot(m0, m0)), DvScale(m0, DvDot(m0, m1)))
JGS2W(m0, m2, W1, a, b) == DvSub(DvSub(DvScale(m2, DMul(a, b)), DvScale(m0, DMul(b, DvDot(m0, m2)))), DvScale(W1, DMul(a, DvDot(W1, m2))))
JGS2(m0, m1, m2) == LET W1 == JGS1(m0, m1) IN JGS2W(m0, m2, W1, DvDot(m0, m0), DvDot(W1, W1))
JOrtho3WellCondW(m1, m2, a, b, W2) ==
    /\ DSign(a) > 0 /\ DSign(b) > 0 /\ ~DvIsZero(W2)
    /\ DLe(DMul(DvDot(m1, m1), DSq(a)), DMulInt(b, 4))
    /\ DLe(DMul(DvDot(m2, m2), DSq(DMul(a, b))), DMulInt(DvDot(W2, W2), 4))
JOrtho3WellCond(m0, m1, m2) == LET a == DvDot(m0, m0) W1 == JGS1(m0, m1) b == DvDot(W1, W1) IN JOrtho3WellCondW(m1, m2, a, b, JGS2W(m0, m2, W1, a, b))
JOrtho3Ok(r0, r1, r2, m0, m1, m2, f) ==
    LET unit(v) == DNear(DvDot(v, v), DUnit, DTol(8, DUnit, f))
        a == DvDot(m0, m0) W1 == JGS1(m0, m1) b == DvDot(W1, W1) W2 == JGS2W(m0, m2, W1, a, b)
        cst(k, v, sc) == LET c == DMul(DTol(k, DvNorm1(v), f), sc) IN <<c, c, c>>
    IN /\ JNormalizeOk(r0, m0, f)
       /\ unit(r1) /\ unit(r2)
       /\ JOrtho3WellCondW(m1, m2, a, b, W2) =>
            /\ JDirOf(r1, W1, cst(16, m1, a), 8, f)
            /\ JDirOf(r2, W2, cst(128, m2, DMul(a, b)), 8, f)
            /\ \A p \in {<<r0, r1>>, <<r0, r2>>, <<r1, r2>>} : DLe(DAbs(DvDot(p[1], p[2])), DTol(1024, DUnit, f))

\* triangleNormal = normalize(cross(p1 - p2, p1 - p3)): the cross product carries e_i <= 2 eps s_i; 4 eps s_i allowed
JTriDir(p1, p2, p3) == DvCross(DvSub(p1, p2), DvSub(p1, p3))
JTriErr(p1, p2, p3, f) == LET s == JCrossAbs(DvSub(p1, p2), DvSub(p1, p3)) IN [i \in 1..3 |-> DTol(4, s[i], f)]
JTriOkWE(r, p1, p2, p3, w, e, f) ==
    JDirOf(r, w, e, 7, f) /\ JOrthoAfterNormalize(r, DvSub(p1, p2), w, e, 7, f) /\ JOrthoAfterNormalize(r, DvSub(p1, p3), w, e, 7, f)
JTriOk(r, p1, p2, p3, f) == JTriOkWE(r, p1, p2, p3, JTriDir(p1, p2, p3), JTriErr(p1, p2, p3, f), f)

\* closestPointOnLine: t = (p-a).(b-a)/|b-a|^2 = num/den; a for t <= 0, b for t >= 1, a + t (b-a) between; the decision is
\* within tau = (L+5) eps sum|(p-a)_i (b-a)_i| / den + 4 eps of the exact one;
\* value error <= (2L+10) eps (|a_i| + |b_i-a_i| sum|..| / den).  All multiplied by den.
JClosestNum(p, a, b) == DvDot(DvSub(p, a), DvSub(b, a))
JClosestDen(a, b) == DvDot(DvSub(b, a), DvSub(b, a))
JClosestTauDen(p, a, b, f) == DAdd(DTol(Len(a) + 5, DvDotAbs(DvSub(p, a), DvSub(b, a)), f), DTol(4, JClosestDen(a, b), f))     \* tau * den
JClosestValueOk(r, p, a, b, f) ==
    LET num == JClosestNum(p, a, b) den == JClosestDen(a, b) d == DvSub(b, a) da == DvDotAbs(DvSub(p, a), d)
    IN \A i \in 1..Len(a) : DLe(DAbs(DSub(DMul(DSub(r[i], a[i]), den), DMul(d[i], num))),
                                DTol(2 * Len(a) + 10, DAdd(DMul(DAbs(a[i]), den), DMul(DAbs(d[i]), da)), f))
\* which outcomes are admissible: "a" / "b" / "mid"
JClosestMayA(p, a, b, f) == DLe(JClosestNum(p, a, b), JClosestTauDen(p, a, b, f))
JClosestMayB(p, a, b, f) == DLe(DSub(JClosestDen(a, b), JClosestTauDen(p, a, b, f)), JClosestNum(p, a, b))
JClosestMayMid(p, a, b, f) == LET num == JClosestNum(p, a, b) td == JClosestTauDen(p, a, b, f)
                              IN DLe(DNeg(td), num) /\ DLe(num, DAdd(JClosestDen(a, b), td))

\* cosine: partial sum S_n(r) = sum_{k<=n} (-1)^k r^(2k)/(2k)! evaluated exactly (Horner in x = r^2 with the common
\* denominator (2n)!); for 0 <= r <= 3.25 the terms decrease from k = 1 on, so |cos r - S_n| <= 3.25^(2n+2)/(2n+2)!,
\* which for n = 17 (double) is 10.5625^18 / 36! < 7.3e-24 < 2^-70 and for n = 11 (float) 10.5625^12 / 24! < 3.2e-12 < 2^-38.
JCosTerms(f) == IF f = F64 THEN 17 ELSE 11       \* 3.25^24 / 24! < 3.1e-12 < 2^-38 for the float tolerance (>= 2 eps = 2.4e-7)
RECURSIVE JCosHorner(_, _, _, _)
JCosHorner(x, k, c, acc) ==          \* c = (2n)!/(2k)!, acc = sum_{j>=k} (-1)^j c_j x^(j-k)
    IF k = 0 THEN acc
    ELSE LET c1 == ZMulInt(c, (2 * k) * (2 * k - 1))
         IN JCosHorner(x, k - 1, c1, DAdd(DMul(acc, x), DFromZ(IF (k - 1) % 2 = 0 THEN c1 ELSE ZNeg(c1))))
RECURSIVE JFact(_)
JFact(n) == IF n = 0 THEN ZFromInt(1) ELSE ZMulInt(JFact(n - 1), n)
JCosDen(f) == DFromZ(JFact(2 * JCosTerms(f)))
JCosNum(r, f) == JCosHorner(DSq(r), JCosTerms(f), ZFromInt(1), DFromInt(IF JCosTerms(f) % 2 = 0 THEN 1 ELSE -1))     \* S_n(r) * (2n)!
JCosRem(f) == IF f = F64 THEN DPow2(-70) ELSE DPow2(-38)
\* angle(x,y) = acos(clamp(dot(x,y),-1,1)), judged in cosine space: |cos r - clamp(dot)| <= L eps sum|x_i y_i| + 4 eps
\* (error of the dot product (L/2) eps sum|..|, one ulp of acos: r sin r eps <= 1.82 eps, clamp is 1-Lipschitz) + the Taylor remainder
JClamp11(q) == DMax(DNeg(DUnit), DMin(DUnit, q))
JAngleOk(r, x, y, f) ==
    /\ DSign(r) >= 0 /\ DLe(r, DMk(FALSE, <<13>>, -2))                                          \* r <= 3.25 > pi
    /\ DLe(DAbs(DSub(JCosNum(r, f), DMul(JClamp11(DvDot(x, y)), JCosDen(f)))),
           DMul(DAdd(DAdd(DTol(JDotK(Len(x)), DvDotAbs(x, y), f), DTol(4, DUnit, f)), JCosRem(f)), JCosDen(f)))

\* lxNorm(v, d) = (sum |v_i|^d)^(1/d): r^d = sum (1 + (2d + 16) eps) for components of moderate size (the rounded
\* exponent 1/d contributes u ln(sum)/d)
JLxPow(v, d) == DSum([i \in 1..Len(v) |-> DPowN(DAbs(v[i]), d)])
JLxOk(r, v, d, f) == DSign(r) >= 0 /\ DNearRel(DPowN(r, d), JLxPow(v, d), 2 * d + 16, JLxPow(v, d), f)
=============================================================================
