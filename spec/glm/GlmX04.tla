------------------------------- MODULE GlmX04 -------------------------------
(***************************************************************************)
(* Rotation-form extras (stage X04, attached to property C04).             *)
(* Definitional semantics, over Q, of                                      *)
(*   gtx/matrix_interpolation   axisAngle, axisAngleMatrix,                *)
(*                              extractMatrixRotation, interpolate         *)
(*   gtx/rotate_normalized_axis rotateNormalizedAxis (mat4 and quat)       *)
(*   gtx/quaternion             cross(q, q), extractRealComponent, length2,*)
(*                              quat_identity, toMat3/toMat4/toQuat,       *)
(*                              rotate(q, v)                               *)
(*   ext/quaternion_exponential exp, log, pow, sqrt                        *)
(*   gtc/quaternion             lessThan .. greaterThanEqual, quatLookAt*  *)
(* An angle never appears as a number: it is a point <<cos, sin>> of the   *)
(* rational unit circle; multiples of an angle are powers of that point    *)
(* (CPow), so a geodesic R(n, j psi), j = 0..m, has rational matrices.     *)
(* The second half holds the dyadic twins used by Trace_X04 (MC_X04 checks *)
(* on its state space that they agree with the rational definitions).      *)
(***************************************************************************)
EXTENDS GlmQuat

\* ---------------------------------------------------------------- the rational unit circle: angles and their integer multiples
CMul(p, r) == << QSub(QMul(p[1], r[1]), QMul(p[2], r[2])), QAdd(QMul(p[1], r[2]), QMul(p[2], r[1])) >>     \* angle addition
CConj(p) == << p[1], QNeg(p[2]) >>                                                                          \* negation of the angle
RECURSIVE CPowN(_, _)
CPowN(p, k) == IF k = 0 THEN << OneLike(p[1]), ZeroLike(p[1]) >> ELSE CMul(p, CPowN(p, k - 1))
CPow(p, k) == IF k < 0 THEN CConj(CPowN(p, 0 - k)) ELSE CPowN(p, k)                                         \* the angle k * psi
CI == << QZero, QOne >>                                                                                     \* a quarter turn
\* Rodrigues: rotation about the unit axis n by the angle p.  Value = LinQ's RotAxis3(p[1], p[2], n) (an invariant of MC_X04); written so
\* that all nine entries come out over ONE denominator d L^2 when cos, sin share the denominator d and the axis components share L
\* (Exact's rationals are unreduced: products of matrices whose entries share a denominator stay on the cheap path of QAdd)
QOver(a, k) == QMk(ZMk(a.p.neg, NMul(a.p.m, k)), NMul(a.q, k))                                              \* the same value over the denominator a.q * k
RotAx(p, n) ==
    LET c == p[1] s == p[2] x == n[1] y == n[2] z == n[3] L == x.q L2 == NMul(L, L)
        t == QSub(OneLike(c), c) cu == QOver(c, L2)
        sx == QOver(QMul(s, x), L) sy == QOver(QMul(s, y), L) sz == QOver(QMul(s, z), L)
    IN Mat(3, 3, << QAdd(cu, QMul(t, QMul(x, x))), QAdd(QMul(t, QMul(x, y)), sz), QSub(QMul(t, QMul(x, z)), sy),
                    QSub(QMul(t, QMul(x, y)), sz), QAdd(cu, QMul(t, QMul(y, y))), QAdd(QMul(t, QMul(y, z)), sx),
                    QAdd(QMul(t, QMul(x, z)), sy), QSub(QMul(t, QMul(y, z)), sx), QAdd(cu, QMul(t, QMul(z, z))) >>)
\* the unit quaternion of that rotation from the HALF angle h: GlmQuat's AngleAxisQ(h, n) with w written over the common denominator
AxisQuat(h, n) == << QOver(h[1], n[1].q), QMul(h[2], n[1]), QMul(h[2], n[2]), QMul(h[2], n[3]) >>

\* ---------------------------------------------------------------- strict 3x3 / 4x4 algebra
\* LinQ builds matrices with function constructors, which TLC keeps lazy: nested products are then re-evaluated entry by entry (exponential
\* in the nesting depth).  The operators below build explicit tuples; as values they equal LinQ's MMul / MTranspose / MDet / MEmbed4
\* (an invariant of MC_X04).
M3E(a, b, c, r) == QAdd(QAdd(QMul(a[r], b[3 * c + 1]), QMul(a[3 + r], b[3 * c + 2])), QMul(a[6 + r], b[3 * c + 3]))      \* entry (col c + 1, row r) of a * b
M3Mul(A, B) == LET a == A.e b == B.e IN
    Mat(3, 3, << M3E(a, b, 0, 1), M3E(a, b, 0, 2), M3E(a, b, 0, 3), M3E(a, b, 1, 1), M3E(a, b, 1, 2), M3E(a, b, 1, 3), M3E(a, b, 2, 1), M3E(a, b, 2, 2), M3E(a, b, 2, 3) >>)
M3T(A) == LET a == A.e IN Mat(3, 3, << a[1], a[4], a[7], a[2], a[5], a[8], a[3], a[6], a[9] >>)
M3Vec(A, v) == LET a == A.e IN << QAdd(QAdd(QMul(a[1], v[1]), QMul(a[4], v[2])), QMul(a[7], v[3])),
                                  QAdd(QAdd(QMul(a[2], v[1]), QMul(a[5], v[2])), QMul(a[8], v[3])),
                                  QAdd(QAdd(QMul(a[3], v[1]), QMul(a[6], v[2])), QMul(a[9], v[3])) >>
M3Col(A, c) == LET a == A.e IN << a[3 * c - 2], a[3 * c - 1], a[3 * c] >>
M3Det(A) == LET a == A.e IN QAdd(QSub(QMul(a[1], QSub(QMul(a[5], a[9]), QMul(a[8], a[6]))), QMul(a[4], QSub(QMul(a[2], a[9]), QMul(a[8], a[3])))),
                                 QMul(a[7], QSub(QMul(a[2], a[6]), QMul(a[5], a[3]))))
M3Id == Mat(3, 3, << QOne, QZero, QZero, QZero, QOne, QZero, QZero, QZero, QOne >>)
IsRot3(A) == MEq(M3Mul(A, M3T(A)), M3Id) /\ QEq(M3Det(A), QOne)
\* 4x4: rotation block and translation column
Affine4(R, t) == LET a == R.e IN Mat(4, 4, << a[1], a[2], a[3], QZero, a[4], a[5], a[6], QZero, a[7], a[8], a[9], QZero, t[1], t[2], t[3], QOne >>)
Rot3Of(M) == LET a == M.e IN Mat(3, 3, << a[1], a[2], a[3], a[5], a[6], a[7], a[9], a[10], a[11] >>)
Trans3Of(M) == LET a == M.e IN << a[13], a[14], a[15] >>
Zero3 == << QZero, QZero, QZero >>
Embed4(R) == Affine4(R, Zero3)
\* (4x4 M) * Embed4(3x3 R): column c + 1 = sum_k M[k] R[c][k], the fourth column is M's
M43E(a, b, c, r) == QAdd(QAdd(QMul(a[r], b[3 * c + 1]), QMul(a[4 + r], b[3 * c + 2])), QMul(a[8 + r], b[3 * c + 3]))
M43Mul(M, R) == LET a == M.e b == R.e IN
    Mat(4, 4, << M43E(a, b, 0, 1), M43E(a, b, 0, 2), M43E(a, b, 0, 3), M43E(a, b, 0, 4), M43E(a, b, 1, 1), M43E(a, b, 1, 2), M43E(a, b, 1, 3), M43E(a, b, 1, 4),
                 M43E(a, b, 2, 1), M43E(a, b, 2, 2), M43E(a, b, 2, 3), M43E(a, b, 2, 4), a[13], a[14], a[15], a[16] >>)
\* extractMatrixRotation: the upper-left 3x3 block, everything else from the identity
ExtractRotation(M) == Embed4(Rot3Of(M))
\* axisAngleMatrix(axis, angle): Rodrigues about axis / |axis|  (stated for a unit axis n = axis / |axis|)
AxisAngleMatrix(n, p) == Embed4(RotAx(p, n))

\* ---------------------------------------------------------------- axisAngle(M): the pair (axis, angle) that rebuilds M
\* relation (what the documentation promises): unit axis, angle on the circle, Rodrigues gives M back
AxisAngleRel(M3, n, p) == QEq(VNorm2(n), QOne) /\ CsOnCircle(p) /\ MEq(RotAx(p, n), M3)
\* the quantities the function reads (no roots):  cos = (trace - 1) / 2,  2 sin * n = the antisymmetric part,
\* and for a half turn  n_i^2 = (m_ii + 1) / 2,  n_i n_j = (m_ij + m_ji) / 4
TraceCos(M3) == QMul(QSub(QAdd(QAdd(G(M3, 0, 0), G(M3, 1, 1)), G(M3, 2, 2)), QOne), QF(1, 2))
AntiVec(M3) == << QSub(G(M3, 1, 2), G(M3, 2, 1)), QSub(G(M3, 2, 0), G(M3, 0, 2)), QSub(G(M3, 0, 1), G(M3, 1, 0)) >>
SymSq(M3) == << QMul(QAdd(G(M3, 0, 0), QOne), QF(1, 2)), QMul(QAdd(G(M3, 1, 1), QOne), QF(1, 2)), QMul(QAdd(G(M3, 2, 2), QOne), QF(1, 2)) >>
SymXY(M3) == << QMul(QAdd(G(M3, 1, 0), G(M3, 0, 1)), QF(1, 4)), QMul(QAdd(G(M3, 2, 0), G(M3, 0, 2)), QF(1, 4)), QMul(QAdd(G(M3, 2, 1), G(M3, 1, 2)), QF(1, 4)) >>
IsSymmetric(M3) == VIsZero(AntiVec(M3))
\* half turn: the component with the largest square is taken positive (x first, then y, then z on ties - the strict comparisons of the code)
HalfTurnIndex(M3) == LET s == SymSq(M3) IN IF QLt(s[2], s[1]) /\ QLt(s[3], s[1]) THEN 1 ELSE IF QLt(s[3], s[2]) THEN 2 ELSE 3
HalfTurnProducts(M3, b) == LET s == SymSq(M3) x == SymXY(M3) IN                  \* n_b n_j for j = 1..3
    CASE b = 1 -> << s[1], x[1], x[2] >> [] b = 2 -> << x[1], s[2], x[3] >> [] b = 3 -> << x[2], x[3], s[3] >>
\* the model of the function: exactly one (axis, angle) per rotation matrix (any axis for the identity)
AxisAngleModel(M3, n, p) ==
    IF IsSymmetric(M3)
    THEN IF MEq(M3, M3Id) THEN QEq(p[1], QOne) /\ QIsZero(p[2]) /\ QEq(VNorm2(n), QOne)
         ELSE LET b == HalfTurnIndex(M3) k == HalfTurnProducts(M3, b) IN
              /\ QEq(p[1], QI(-1)) /\ QIsZero(p[2]) /\ QSign(n[b]) > 0
              /\ \A j \in 1..3 : QEq(QMul(n[b], n[j]), k[j])
    ELSE /\ QEq(p[1], TraceCos(M3)) /\ QSign(p[2]) > 0 /\ CsOnCircle(p) /\ QEq(VNorm2(n), QOne)
         /\ AllEq(VScale(n, QMul(QI(2), p[2])), AntiVec(M3))

\* ---------------------------------------------------------------- interpolate(M1, M2, j/m) on a geodesic about the axis n
\* precondition: the rotation that takes M1's block to M2's is the rotation about n by m * psi  (psi = the point p)
DeltaRel(M1, M2, n, p, m) == MEq(M3Mul(Rot3Of(M2), M3T(Rot3Of(M1))), RotAx(CPow(p, m), n))
InterpRot(R1, n, p, j) == M3Mul(RotAx(CPow(p, j), n), R1)                       \* constant angular speed: j steps of psi
InterpTrans(t1, t2, j, m) == VAdd(t1, VScale(VSub(t2, t1), QF(j, m)))          \* linear blend
Interp(M1, M2, n, p, m, j) == Affine4(InterpRot(Rot3Of(M1), n, p, j), InterpTrans(Trans3Of(M1), Trans3Of(M2), j, m))

\* ---------------------------------------------------------------- rotateNormalizedAxis
RnaM(M, p, n) == M43Mul(M, RotAx(p, n))                                 \* m * R(angle, axis), axis unit
RnaQ(q, h, n) == QuatMul(q, AxisQuat(h, n))                                  \* q * (cos a/2, sin a/2 axis);  h = the half angle

\* ---------------------------------------------------------------- quaternion helpers of gtx/quaternion
QCross(p, q) == QuatMul(p, q)                                                  \* cross(q1, q2) is the Hamilton product
QLength2(q) == QuatNorm2(q)
\* extractRealComponent: the real part of the unit quaternion with the given vector part, by the convention w <= 0
\* (the documentation does not say which root; the negative one is what the code has always returned - pinned, see the notes)
RealComponentRel(q, r) == LET t == QSub(QOne, VNorm2(QVec(q))) IN QSign(r) <= 0 /\ QEq(Sq(r), IF QSign(t) < 0 THEN QZero ELSE t)

\* ---------------------------------------------------------------- exp / log / pow / sqrt
\* exp(w + theta n) = e^w (cos theta + n sin theta); with the scale k = e^w given:
ExpQ(k, p, n) == VScale(AxisQuat(p, n), k)
\* log is the inverse relation: q = k (cos theta + n sin theta), sin theta >= 0  <=>  log q = ln k + theta n  (theta in [0, pi])
LogRel(q, k, p, n) == QSign(k) > 0 /\ QSign(p[2]) >= 0 /\ AllEq(q, ExpQ(k, p, n))
\* integer powers: the Hamilton power
RECURSIVE QPowN(_, _)
QPowN(q, k) == IF k = 0 THEN << OneLike(q[1]), ZeroLike(q[1]), ZeroLike(q[1]), ZeroLike(q[1]) >> ELSE QuatMul(q, QPowN(q, k - 1))
QPowInt(q, k) == IF k < 0 THEN QuatInv(QPowN(q, 0 - k)) ELSE QPowN(q, k)
\* q = cos(a psi) + n sin(a psi) raised to b / a: cos(b psi) + n sin(b psi)   (the principal value when |a| psi <= pi)
PowAxis(p, n, b) == AxisQuat(CPow(p, b), n)
RECURSIVE PrincipalRec(_, _)
PrincipalRec(p, a) == a = 0 \/ (QSign(CPow(p, a)[2]) >= 0 /\ PrincipalRec(p, a - 1))        \* sin(k psi) >= 0 for k = 1..a
\* a psi <= pi for 0 <= psi <= pi: a step below pi cannot jump over (pi, 2 pi), so some partial multiple has a negative sine otherwise; psi = pi only once
PrincipalUpTo(p, a) == PrincipalRec(p, a) /\ ((QIsZero(p[2]) /\ QSign(p[1]) < 0) => a <= 1)
\* pinned defect of pow for w / |q| < -cos(1/2): the angle is taken from asin(|v|/|q|), i.e. of the quaternion (-w, v) = -conj(q).
\* For 2y integer the wrong value is rational:  e^(i (y pi - b psi)) = i^(2y) * conj(e^(i b psi))
RECURSIVE CIPow(_)
CIPow(k) == IF k = 0 THEN << QOne, QZero >> ELSE CMul(CI, CIPow(k - 1))
CIPowZ(k) == IF k < 0 THEN CConj(CIPow(0 - k)) ELSE CIPow(k)
PowWrongAngle(p, b, twoy) == CMul(CIPowZ(twoy), CConj(CPow(p, b)))

\* ---------------------------------------------------------------- component-wise relational functions on bit patterns
\* x, y: fields of format f.  IEEE: every comparison with a NaN is false, -0 = +0
FLess(f, x, y) == ~IsNaN(f, x) /\ ~IsNaN(f, y) /\ ZLt(OrdC(f, x), OrdC(f, y))
FLessEq(f, x, y) == ~IsNaN(f, x) /\ ~IsNaN(f, y) /\ ZLe(OrdC(f, x), OrdC(f, y))
RelOp(op, f, x, y) == CASE op = "lt" -> FLess(f, x, y) [] op = "le" -> FLessEq(f, x, y) [] op = "gt" -> FLess(f, y, x) [] op = "ge" -> FLessEq(f, y, x)

\* ---------------------------------------------------------------- quatLookAt
\* the rotation whose third column is -direction (right handed) / +direction (left handed), whose first column (the "right" vector)
\* points along up x third column, and which is a rotation (so the second column is third x first)
LookThird(dir, lh) == IF lh THEN dir ELSE VNeg(dir)
LookAtMatRel(M3, dir, up, lh) ==
    LET c3 == LookThird(dir, lh) w == VCross(up, c3) c1 == M3Col(M3, 1) IN
    /\ AllEq(M3Col(M3, 3), c3) /\ VIsZero(VCross(c1, w)) /\ QSign(VDot(c1, w)) > 0
\* (the matrix of a unit quaternion is a rotation - invariant InvProbe of MC_C04 -, so the second column is third x first)
LookAtRel(r, dir, up, lh) == QEq(QuatNorm2(r), QOne) /\ LookAtMatRel(QuatToMat3(r), dir, up, lh)

\* ================================================================ dyadic twins (Trace_X04)
\* angle triples t = <<cn, sn, d>> (cos = cn/d, sin = sn/d); products of triples multiply the denominators
DCMuls(t, u) == << DSub(DMul(t[1], u[1]), DMul(t[2], u[2])), DAdd(DMul(t[1], u[2]), DMul(t[2], u[1])), DMul(t[3], u[3]) >>
DCConjs(t) == << t[1], DNeg(t[2]), t[3] >>
RECURSIVE DCPowNs(_, _)
DCPowNs(t, k) == IF k = 0 THEN << DOne, DZero, DOne >> ELSE DCMuls(t, DCPowNs(t, k - 1))
DCPows(t, k) == IF k < 0 THEN DCConjs(DCPowNs(t, 0 - k)) ELSE DCPowNs(t, k)
RECURSIVE DCIPow(_)
DCIPow(k) == IF k = 0 THEN << DOne, DZero, DOne >> ELSE DCMuls(<< DZero, DOne, DOne >>, DCIPow(k - 1))
DCIPowZ(k) == IF k < 0 THEN DCConjs(DCIPow(0 - k)) ELSE DCIPow(k)
DPowWrongAngles(t, b, twoy) == DCMuls(DCIPowZ(twoy), DCConjs(DCPows(t, b)))
\* 4x4 matrices are flat column-major sequences of 16; the 3x3 block and the translation column
M4Top3(m) == << m[1], m[2], m[3], m[5], m[6], m[7], m[9], m[10], m[11] >>
M4Trans(m) == << m[13], m[14], m[15] >>
\* (4x4 M) * (embedded 3x3 R): the first three columns of the product, flat with 4 rows per column
Dm43Mul(M, R) == [k \in 1..12 |-> LET c == (k - 1) \div 4 r == ((k - 1) % 4) + 1 IN DSum([j \in 1..3 |-> DMul(M[4 * (j - 1) + r], R[3 * c + j])])]
Dm4RowAbs3(M, r) == DSum([j \in 1..3 |-> DAbs(M[4 * (j - 1) + r])])
DAntiVec(m3) == << DSub(m3[6], m3[8]), DSub(m3[7], m3[3]), DSub(m3[2], m3[4]) >>
DTraceCos2(m3) == DSub(DAdd(DAdd(m3[1], m3[5]), m3[9]), DOne)                      \* 2 cos
\* the quantities quat_cast reads, on flat 3x3 dyadic matrices (twins of GlmQuat's FourSqM1 / QuatCastCombos; both are linear in the matrix)
DG(m, c, r) == m[3 * c + r + 1]                                                    \* GLM's m[c][r]
DFour(m) == << DAdd(DAdd(m[1], m[5]), m[9]), DSub(DSub(m[1], m[5]), m[9]), DSub(DSub(m[5], m[1]), m[9]), DSub(DSub(m[9], m[1]), m[5]) >>
DCombos(m, b) ==
    CASE b = 1 -> << DZero, DSub(DG(m, 1, 2), DG(m, 2, 1)), DSub(DG(m, 2, 0), DG(m, 0, 2)), DSub(DG(m, 0, 1), DG(m, 1, 0)) >>
      [] b = 2 -> << DSub(DG(m, 1, 2), DG(m, 2, 1)), DZero, DAdd(DG(m, 0, 1), DG(m, 1, 0)), DAdd(DG(m, 2, 0), DG(m, 0, 2)) >>
      [] b = 3 -> << DSub(DG(m, 2, 0), DG(m, 0, 2)), DAdd(DG(m, 0, 1), DG(m, 1, 0)), DZero, DAdd(DG(m, 1, 2), DG(m, 2, 1)) >>
      [] b = 4 -> << DSub(DG(m, 0, 1), DG(m, 1, 0)), DAdd(DG(m, 2, 0), DG(m, 0, 2)), DAdd(DG(m, 1, 2), DG(m, 2, 1)), DZero >>
RECURSIVE DqPowN(_, _)
DqPowN(q, k) == IF k = 0 THEN DQId ELSE DqMul(q, DqPowN(q, k - 1))
RECURSIVE DPowInt(_, _)
DPowInt(a, k) == IF k = 0 THEN DOne ELSE DMul(a, DPowInt(a, k - 1))
=============================================================================
