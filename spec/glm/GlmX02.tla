------------------------------ MODULE GlmX02 -------------------------------
(***************************************************************************)
(* Matrix helper libraries (stage X02, host property C02):                 *)
(*   gtc/matrix_access.hpp         row, column (getters and setters)       *)
(*   gtx/matrix_operation.hpp      diagonalCxR, adjugate                   *)
(*   gtx/matrix_query.hpp          isNull isIdentity isNormalized          *)
(*                                 isOrthogonal                            *)
(*   gtx/matrix_major_storage.hpp  rowMajor2/3/4 colMajor2/3/4             *)
(*   gtx/matrix_cross_product.hpp  matrixCross3 matrixCross4               *)
(*   ext/matrix_integer.hpp, gtc/matrix_integer.hpp, ext/matrix_*_sized    *)
(*                                 matrixCompMult outerProduct transpose   *)
(*                                 determinant on integer matrices         *)
(*   gtx/matrix_factorisation.hpp  flipud fliplr qr_decompose rq_decompose *)
(*   ext/matrix_common.hpp         mix abs                                 *)
(*                                                                         *)
(* Part 0: index operators, independent of the element type (they move     *)
(*         elements, whatever these are: bit patterns, integers,           *)
(*         rationals).  A matrix is a LinQ Mat(C, R, e): column-major,     *)
(*         MAt(m, col, row) 1-based = GLM's m[col-1][row-1].               *)
(* Part 1: exact arithmetic on matrices of dyadics (Dm..: every integer    *)
(*         and every finite float is a dyadic; sums and products of        *)
(*         dyadics are dyadic, nothing is rounded) and the rational        *)
(*         Gram-Schmidt / QR definitions.                                  *)
(* Part 2: acceptance predicates for observed results: exact (bit pattern, *)
(*         value, value modulo 2^W) where the result is determined,        *)
(*         k * eps * scale forward error bounds where it is rounded        *)
(*         (eps = 2^-23 / 2^-52 = two unit roundoffs; derivations in       *)
(*         notes/X02-notes.md and next to each predicate), three-valued    *)
(*         decisions "T" / "F" / "U" for the queries (GlmX12 conventions). *)
(* Names of this module start with Mx (stage operators) or Dm (dyadic      *)
(* matrices).                                                              *)
(***************************************************************************)
EXTENDS GlmX12, GlmMatrix

----------------------------------------------------------------------------
(* Part 0: index operators *)
MxK(C, R) == IF C < R THEN C ELSE R
\* v on the main diagonal (Len(v) = min(C, R)), zero elsewhere
MxDiag(C, R, v, zero) == MFromFn(C, R, LAMBDA c, r : IF c = r THEN v[c] ELSE zero)
\* fliplr: the columns in reverse order; flipud: the rows in reverse order
MxFliplr(m) == MFromFn(m.c, m.r, LAMBDA c, r : MAt(m, m.c + 1 - c, r))
MxFlipud(m) == MFromFn(m.c, m.r, LAMBDA c, r : MAt(m, c, m.r + 1 - r))
\* rowMajorN(m): the rows of the argument become the columns; colMajorN(m): a copy
MxRowMajorM(m) == MTranspose(m)
MxColMajorM(m) == m
\* shape conversion mat<C,R>(src) with the elements one / zero of the element type (GlmMatrix.Convert is the rational instance)
MxConvert(C, R, src, one, zero) == MFromFn(C, R, LAMBDA c, r : IF c <= src.c /\ r <= src.r THEN MAt(src, c, r) ELSE IF c = r THEN one ELSE zero)
MxCols(m) == [c \in 1..m.c |-> MCol(m, c)]
MxRows(m) == [r \in 1..m.r |-> MRow(m, r)]
MxLeading(m, k) == MFromFn(k, k, LAMBDA c, r : MAt(m, c, r))                             \* leading principal k x k block
MxFirstCols(m, k) == MFromFn(k, m.r, LAMBDA c, r : MAt(m, c, r))

----------------------------------------------------------------------------
(* Part 1a: matrices of dyadics *)
DmOf(C, R, ds) == Mat(C, R, ds)
DmInts(C, R, ns) == Mat(C, R, [k \in 1..Len(ns) |-> DFromInt(ns[k])])
DmIdentity(n) == MFromFn(n, n, LAMBDA c, r : IF c = r THEN DUnit ELSE DZero)
DmEq(A, B) == A.c = B.c /\ A.r = B.r /\ \A k \in 1..Len(A.e) : DEq(A.e[k], B.e[k])
DmMul(A, B) == MFromFn(B.c, A.r, LAMBDA c, r : DSum([k \in 1..A.c |-> DMul(MAt(A, k, r), MAt(B, c, k))]))
DmMulAbs(A, B) == MFromFn(B.c, A.r, LAMBDA c, r : DSum([k \in 1..A.c |-> DAbs(DMul(MAt(A, k, r), MAt(B, c, k)))]))
DmVec(A, v) == [r \in 1..A.r |-> DSum([k \in 1..A.c |-> DMul(MAt(A, k, r), v[k])])]
DmVecAbs(A, v) == [r \in 1..A.r |-> DSum([k \in 1..A.c |-> DAbs(DMul(MAt(A, k, r), v[k]))])]
DmAdd(A, B) == Mat(A.c, A.r, [k \in 1..Len(A.e) |-> DAdd(A.e[k], B.e[k])])
DmSub(A, B) == Mat(A.c, A.r, [k \in 1..Len(A.e) |-> DSub(A.e[k], B.e[k])])
DmScale(A, s) == Mat(A.c, A.r, [k \in 1..Len(A.e) |-> DMul(A.e[k], s)])
DmNeg(A) == Mat(A.c, A.r, [k \in 1..Len(A.e) |-> DNeg(A.e[k])])
DmAbs(A) == Mat(A.c, A.r, [k \in 1..Len(A.e) |-> DAbs(A.e[k])])
DmCompMult(A, B) == Mat(A.c, A.r, [k \in 1..Len(A.e) |-> DMul(A.e[k], B.e[k])])
DmOuter(cv, rv) == MFromFn(Len(rv), Len(cv), LAMBDA c, r : DMul(cv[r], rv[c]))             \* outerProduct(c, r) = c r^T
DmMaxAbs(A) == DMaxAbs(A.e)
DmToQ(A) == Mat(A.c, A.r, DvToQ(A.e))
DmIsInt(A) == \A k \in 1..Len(A.e) : DIsInt(A.e[k])
\* determinant by cofactor expansion along the first row; DmPerm: the same expansion over absolute values without signs
\* (the sum of the magnitudes of all N! products: the scale of every rounding error of a cofactor scheme)
RECURSIVE DmDet(_)
DmDet(m) == IF m.c = 1 THEN m.e[1]
            ELSE DSum([col \in 1..m.c |-> LET t == DMul(MAt(m, col, 1), DmDet(MMinor(m, col, 1))) IN IF col % 2 = 1 THEN t ELSE DNeg(t)])
RECURSIVE DmPerm(_)
DmPerm(m) == IF m.c = 1 THEN DAbs(m.e[1])
             ELSE DSum([col \in 1..m.c |-> DMul(DAbs(MAt(m, col, 1)), DmPerm(MMinor(m, col, 1)))])
\* adjugate = transpose of the cofactor matrix: adj[c][r] = (-1)^(c+r) det(m without column r and row c)
DmAdj(m) == IF m.c = 1 THEN Mat(1, 1, <<DUnit>>)
            ELSE MFromFn(m.c, m.r, LAMBDA c, r : LET t == DmDet(MMinor(m, r, c)) IN IF (c + r) % 2 = 0 THEN t ELSE DNeg(t))
DmAdjAbs(m) == IF m.c = 1 THEN Mat(1, 1, <<DUnit>>) ELSE MFromFn(m.c, m.r, LAMBDA c, r : DmPerm(MMinor(m, r, c)))
\* the matrix of v |-> cross(x, v) (n = 3; n = 4: embedded in the upper left block, zero elsewhere)
DmCross(n, x) == MFromFn(n, n, LAMBDA c, r :
    CASE c = 1 /\ r = 2 -> x[3] [] c = 2 /\ r = 1 -> DNeg(x[3]) [] c = 1 /\ r = 3 -> DNeg(x[2]) [] c = 3 /\ r = 1 -> x[2]
      [] c = 2 /\ r = 3 -> x[1] [] c = 3 /\ r = 2 -> DNeg(x[1]) [] OTHER -> DZero)
DmGram(A) == DmMul(MTranspose(A), A)                                                       \* (i, j) |-> column i . column j

----------------------------------------------------------------------------
(* Part 1b: Gram-Schmidt and QR over the rationals (LinQ matrices) *)
\* w_i = a_i - sum_{k < i} (w_k . a_i) / (w_k . w_k) w_k : the component of column i orthogonal to the previous columns (all w_k # 0)
RECURSIVE MxGSFrom(_, _, _)
MxGSFrom(A, ws, i) ==
    IF i > Len(ws) + 1 \/ i > A.c THEN ws
    ELSE LET a == MCol(A, i)
             RECURSIVE Red(_, _)
             Red(v, k) == IF k > Len(ws) THEN v ELSE Red(VSub(v, VScale(ws[k], QDiv(VDot(ws[k], a), VDot(ws[k], ws[k])))), k + 1)
         IN MxGSFrom(A, Append(ws, Red(a, 1)), i + 1)
MxGS(A, K) == MxGSFrom(MxFirstCols(A, K), << >>, 1)                                        \* <<w_1, ..., w_K>>
\* upper triangular in GLM's storage: r[col j][row i] = 0 for j < i
MxUpperTri(Rm) == \A c \in 1..Rm.c : \A r \in 1..Rm.r : c < r => QIsZero(MAt(Rm, c, r))
\* the documented postcondition of qr_decompose: columns of q orthonormal, r upper triangular, q r = in
MxIsQR(A, Qm, Rm) == /\ Qm.c = MxK(A.c, A.r) /\ Qm.r = A.r /\ Rm.c = A.c /\ Rm.r = Qm.c
                     /\ MEq(MMul(MTranspose(Qm), Qm), MIdentity(Qm.c)) /\ MxUpperTri(Rm) /\ MEq(MMul(Qm, Rm), A)
\* rq_decompose: rows of q orthonormal, r upper triangular with the diagonal anchored in the lower right corner, r q = in
MxUpperTriLR(Rm) == \A c \in 1..Rm.c : \A r \in 1..Rm.r : (Rm.r - r) < (Rm.c - c) => QIsZero(MAt(Rm, c, r))
MxIsRQ(A, Rm, Qm) == /\ Qm.c = A.c /\ Qm.r = MxK(A.c, A.r) /\ Rm.c = Qm.r /\ Rm.r = A.r
                     /\ MEq(MMul(Qm, MTranspose(Qm)), MIdentity(Qm.r)) /\ MxUpperTriLR(Rm) /\ MEq(MMul(Rm, Qm), A)
\* rq_decompose(in) is qr_decompose of the row-reversed transpose: the three matrices of the transformed problem
MxRQin(A) == MxFliplr(MTranspose(A))
MxRQq(Qm) == MxFliplr(MTranspose(Qm))
MxRQr(Rm) == MxFliplr(MTranspose(MxFliplr(Rm)))

----------------------------------------------------------------------------
(* Part 2a: decoding, exact comparisons, domains *)
MxIsF(t) == TypeIsFloat(t)
MxFmt(t) == TypeFmt(t)
MxFinW(t, w) == ~MxIsF(t) \/ IsFinite(MxFmt(t), Fields(MxFmt(t), w))
MxNaNW(t, w) == MxIsF(t) /\ IsNaN(MxFmt(t), Fields(MxFmt(t), w))
MxAllFin(t, ws) == \A i \in 1..Len(ws) : MxFinW(t, ws[i])
MxElemD(t, w) == IF MxIsF(t) THEN ValW(MxFmt(t), w)
                 ELSE LET z == WToZ(TypeW(t), TypeSigned(t), WFromLimbs(w)) IN DMk(z.neg, z.m, 0)
MxSeqD(t, ws) == [i \in 1..Len(ws) |-> MxElemD(t, ws[i])]
MxMatD(t, C, R, ws) == Mat(C, R, MxSeqD(t, ws))
MxZeroW(t) == [i \in 1..TypeLimbs(t) |-> 0]
\* a moved element: the same bit pattern (a NaN may come back as any NaN)
MxSameW(t, w, x) == w = x \/ (MxNaNW(t, w) /\ MxNaNW(t, x))
MxSameSeq(t, ws, xs) == Len(ws) = Len(xs) /\ \A i \in 1..Len(xs) : MxSameW(t, ws[i], xs[i])
\* the observed word has exactly the value d: floats as values (+0 = -0), integers modulo 2^W
MxExactW(t, w, d) == IF MxIsF(t) THEN MxFinW(t, w) /\ DEq(ValW(MxFmt(t), w), d)
                     ELSE DIsInt(d) /\ WFromLimbs(w) = WFromZ(TypeW(t), DFloor(d))
MxAllExact(t, ws, ds) == Len(ws) = Len(ds) /\ \A i \in 1..Len(ds) : MxExactW(t, ws[i], ds[i])
\* rounded float result within k eps scale_i of the exact value
MxAllNear(t, ws, ds, k, scales) == Len(ws) = Len(ds) /\ \A i \in 1..Len(ds) : MxFinW(t, ws[i]) /\ DNearRel(ValW(MxFmt(t), ws[i]), ds[i], k, scales[i], MxFmt(t))
\* magnitudes of the floats judged with a tolerance: 2^+-20 (float) / 2^+-60 (double) or zero, so that no product of up to four of
\* them overflows or becomes subnormal and the exact arithmetic of the judge stays short
MxMagLim(f) == IF f = F64 THEN 60 ELSE 20
MxMagOkW(t, w) == LET f == MxFmt(t) x == Fields(f, w) IN IsFinite(f, x) /\ (IsZero(f, x) \/ LET e == DTopExp(Val(f, x)) IN e >= -MxMagLim(f) /\ e <= MxMagLim(f))
MxMagOk(t, ws) == \A i \in 1..Len(ws) : MxMagOkW(t, ws[i])
\* integer arithmetic of the element type: 8- and 16-bit operands are promoted to int (results converted back modulo 2^W),
\* signed 32 / 64-bit overflow is undefined, unsigned 32 / 64-bit arithmetic wraps.  bound = an upper bound of the magnitude of
\* every intermediate value of the evaluation
MxIntSafe(t, bound) == CASE TypeW(t) = 8 -> TRUE
                         [] TypeW(t) = 16 -> DLt(bound, DPow2(31))
                         [] TypeSigned(t) -> DLt(bound, DPow2(TypeW(t) - 1))
                         [] OTHER -> TRUE
MxFact(n) == IF n <= 1 THEN 1 ELSE IF n = 2 THEN 2 ELSE IF n = 3 THEN 6 ELSE 24
\* every intermediate of an N x N cofactor scheme is a sum of at most N! products of at most N entries
MxDetBound(m) == LET M == DMax(DUnit, DmMaxAbs(m)) IN DMulInt(DPowN(M, m.c), MxFact(m.c))
\* 16-bit element types: the determinant / adjugate store intermediates in the element type (magnitude < 2^16) and multiply them by
\* entries again: 6 M^3 (3 x 3 expansions in int) and 4 * 2^16 * M (4 x 4 through converted sub-factors) must stay below 2^31
MxDetBound16(m) == LET M == DMax(DUnit, DmMaxAbs(m)) IN DMax(DMulInt(DPowN(M, 3), 6), DMul2k(M, 18))
MxDetSafe(t, m) == MxIntSafe(t, IF TypeW(t) = 16 THEN MxDetBound16(m) ELSE MxDetBound(m))
\* floats: integer-valued entries with N! M^N < 2^(mb+1): every intermediate is an exactly representable integer
MxDetExactF(f, m) == DmIsInt(m) /\ DLt(MxDetBound(m), DPow2(f.mb + 1))

----------------------------------------------------------------------------
(* Part 2b: adjugate, determinant *)
\* rounding of a cofactor: 2 x 2: eps (|p1| + |p2|) (k = 2); 3 x 3: inner differences 2u, product u, two additions 2u: 5u = 2.5 eps
\* (k = 5); 4 x 4 determinant: sub-factors 2u, products u, sum of three 2u, product u, sum of four 2u: 8u = 4 eps (k = 8)
MxDetK(n) == IF n <= 1 THEN 0 ELSE IF n = 2 THEN 2 ELSE IF n = 3 THEN 5 ELSE 8
MxAdjOk(t, m, ws) ==
    IF ~MxIsF(t) THEN MxAllExact(t, ws, DmAdj(m).e)
    ELSE IF m.c = 2 \/ MxDetExactF(MxFmt(t), m) THEN MxAllExact(t, ws, DmAdj(m).e)             \* 2 x 2: copies and negations only
    ELSE MxAllNear(t, ws, DmAdj(m).e, MxDetK(m.c - 1), DmAdjAbs(m).e)
MxDetOk(t, m, w) ==
    IF ~MxIsF(t) \/ MxDetExactF(MxFmt(t), m) THEN MxExactW(t, w, DmDet(m))
    ELSE MxFinW(t, w) /\ DNearRel(ValW(MxFmt(t), w), DmDet(m), MxDetK(m.c), DmPerm(m), MxFmt(t))

----------------------------------------------------------------------------
(* Part 2c: matrix queries, three-valued *)
\* the length of v when sqrt(dot(v, v)) is exact: at most one non-zero component (sqrt(fl(x^2)) = |x| in binary floating point
\* without over- / underflow), or small integers whose squares sum to a perfect square
MxSmallIntV(v) == \A i \in 1..Len(v) : DIsInt(v[i]) /\ DLe(DAbs(v[i]), DFromInt(64))
MxISqrt(n) == CHOOSE s \in 0..128 : s * s <= n /\ (s + 1) * (s + 1) > n                    \* n <= 4 * 64^2
MxLenKnown(v) ==
    LET nz == {i \in 1..Len(v) : ~DIsZero(v[i])} IN
    IF nz = {} THEN [ok |-> TRUE, len |-> DZero]
    ELSE IF Cardinality(nz) = 1 THEN [ok |-> TRUE, len |-> DAbs(v[CHOOSE i \in nz : TRUE])]
    ELSE IF MxSmallIntV(v) THEN LET n == ZToInt(DFloor(DvDot(v, v))) s == MxISqrt(n) IN [ok |-> s * s = n, len |-> DFromInt(s)]
    ELSE [ok |-> FALSE, len |-> DZero]
\* length(v) <= e
MxIsNullV3(v, e, f) == LET k == MxLenKnown(v) IN
    IF DSign(e) < 0 THEN "F" ELSE IF k.ok THEN (IF DLe(k.len, e) THEN "T" ELSE "F") ELSE XIsNull3(v, e, f)
\* | length(v) - 1 | <= 2 e.  Exactly known length: the difference is rounded once and rounding is monotone, so the decision
\* is true for |len - 1| <= 2e and false beyond the next float above 2e
MxIsNormalizedV3(v, e, f) == LET k == MxLenKnown(v) IN
    IF DSign(e) < 0 THEN "F"
    ELSE IF k.ok THEN LET d == DAbs(DSub(k.len, DUnit)) two == DMul2k(e, 1) IN
                      IF DLe(d, two) THEN "T" ELSE IF DLt(DMul(two, XOnePlus(1, f)), d) THEN "F" ELSE "U"
    ELSE XIsNormalized3(v, e, f)
\* | dot(a, b) | <= thr: exact when every product vanishes or the operands are small integers
MxDotKnown(a, b) == (\A i \in 1..Len(a) : DIsZero(a[i]) \/ DIsZero(b[i])) \/ (MxSmallIntV(a) /\ MxSmallIntV(b))
MxDotLe3(a, b, thr, f) ==
    IF DSign(thr) < 0 THEN "F"
    ELSE IF MxDotKnown(a, b) THEN (IF DLe(DAbs(DvDot(a, b)), thr) THEN "T" ELSE "F")
    ELSE XDotLe3(a, b, thr, f)
\* every vector normalized, every pair orthogonal within e
MxOrthoSet3(vs, e, f) == XAnd3({MxIsNormalizedV3(vs[i], e, f) : i \in 1..Len(vs)}
                               \cup {MxDotLe3(vs[p[1]], vs[p[2]], e, f) : p \in {q \in (1..Len(vs)) \X (1..Len(vs)) : q[1] < q[2]}})
\* isNull: every column null.  isNormalized: every column and every row normalized.
MxIsNull3(m, e, f) == XAnd3({MxIsNullV3(MCol(m, c), e, f) : c \in 1..m.c})
MxIsNormalized3(m, e, f) == XAnd3({MxIsNormalizedV3(MCol(m, c), e, f) : c \in 1..m.c} \cup {MxIsNormalizedV3(MRow(m, r), e, f) : r \in 1..m.r})
\* isIdentity: | m[c][r] - delta_cr | <= e.  Off the diagonal nothing is rounded; on it the difference is rounded once.
MxIdEntry3(x, c, r, e, f) == LET d == DAbs(IF c = r THEN DSub(x, DUnit) ELSE x) IN
    IF DLe(d, e) THEN "T" ELSE IF c # r \/ DLt(DMul(e, XOnePlus(1, f)), d) THEN "F" ELSE "U"
MxIsIdentity3(m, e, f) == XAnd3({MxIdEntry3(MAt(m, p[1], p[2]), p[1], p[2], e, f) : p \in (1..m.c) \X (1..m.r)})
\* isOrthogonal: the columns are orthonormal within e; for a square matrix (m^T m = m m^T = 1) the rows as well
MxColsOrtho3(m, e, f) == MxOrthoSet3(MxCols(m), e, f)
MxRowsOrtho3(m, e, f) == MxOrthoSet3(MxRows(m), e, f)
MxIsOrthogonal3(m, e, f) == IF m.c = m.r THEN XAnd3({MxColsOrtho3(m, e, f), MxRowsOrtho3(m, e, f)}) ELSE MxColsOrtho3(m, e, f)
\* what GLM evaluates in its second stage for a non-square matrix: `mat<C,R> tmp = transpose(m)` is a shape conversion of the
\* R x C transpose (overlapping block, rest zero), not the transpose
MxGlmTmp(m) == MxConvert(m.c, m.r, MTranspose(m), DUnit, DZero)
MxGlmSecond3(m, e, f) == MxOrthoSet3(MxCols(MxGlmTmp(m)), e, f)

----------------------------------------------------------------------------
(* Part 2d: qr_decompose / rq_decompose.
   A: C columns of length R (dyadic), K = min(C, R); q: K columns of length R; r: C columns of length K.
   GLM runs modified Gram-Schmidt on the first K columns (v <- a_i; v <- v - (v . q_j) q_j, j < i; q_i = normalize(v)) and sets
   r[j][i] = dot(in[j], q[i]).  With rho_i = |a_i| / |w_i| (w_i = component of a_i orthogonal to the previous columns; rho_i^2 =
   |a_i|^2 g_{i-1} / g_i with g_i the leading principal minors of the Gram matrix) the first-order analysis of the notes gives
     | |q_i|^2 - 1 |  <=  (L/2 + 3) eps                                   (normalize: dot, inversesqrt = 1 / sqrt, product)
     | q_i . q_j |    <=  rho_i ( ((i-1)(L/2+2) + L/2+3) eps + sum_{k<i} E_k ) =: E_i    (j < i)
     | a_j - sum_i r_ji q_i |_2  <=  |a_j|_2 ( (K-1) sum E + ((K^2+K-2)/2 (L/2+2) + K (L+3)) eps )
   all constants doubled below (the usual slack), rho_i replaced by the power of two P_i >= rho_i, |a_j|_2 by |a_j|_1.
   Domain: g_i > 0 and rho_i <= 4 for every i (every column at least 14.5 degrees off the span of the previous ones). *)
\* TLC does not reliably cache LET-bound values inside nested operator applications: values that are used many times are bound
\* through a singleton set (a quantifier / set constructor binds its variable to an evaluated value)
MxLet(x, F(_)) == CHOOSE v \in {F(y) : y \in {x}} : TRUE
MxGramMinors(A, K) == MxLet(DmGram(MxFirstCols(A, K)), LAMBDA G : [i \in 1..K |-> DmDet(MxLeading(G, i))])
MxRhoPg(A, K, g) ==
    [i \in 1..K |-> LET a2 == DvDot(MCol(A, i), MCol(A, i)) gp == IF i = 1 THEN DUnit ELSE g[i - 1] IN
                    IF DSign(g[i]) <= 0 \/ (i > 1 /\ DSign(g[i - 1]) <= 0) THEN 0
                    ELSE MxLet(DMul(a2, gp), LAMBDA lhs : IF DLe(lhs, g[i]) THEN 1 ELSE IF DLe(lhs, DMulInt(g[i], 4)) THEN 2 ELSE IF DLe(lhs, DMulInt(g[i], 16)) THEN 4 ELSE 0)]
MxRhoP(A, K) == MxLet(MxGramMinors(A, K), LAMBDA g : MxRhoPg(A, K, g))          \* P_i in {1, 2, 4}, 0 = outside the domain
MxQRDomainP(P) == \A i \in 1..Len(P) : P[i] > 0
MxQRDomain(A, K) == MxQRDomainP(MxRhoP(A, K))
\* E_i in units of eps (E_1 = 0: no pair has the larger index 1)
MxSeqSum(s) == LET RECURSIVE Sum(_) Sum(k) == IF k = 0 THEN 0 ELSE s[k] + Sum(k - 1) IN Sum(Len(s))
RECURSIVE MxQRE(_, _, _, _)
MxQRE(P, L, i, acc) ==          \* acc = <<E_1, ..., E_{i-1}>>
    IF i > Len(P) THEN acc
    ELSE MxQRE(P, L, i + 1, Append(acc, IF i = 1 THEN 0 ELSE P[i] * ((i - 1) * (L + 4) + L + 6 + MxSeqSum(acc))))
MxQRResK(E, K, L) == K * MxSeqSum(E) + ((K * K + K - 2) * (L + 4)) \div 2 + 2 * K * (L + 3)
MxQRZerosOk(r) == \A c \in 1..r.c : \A i \in 1..r.r : c < i => DIsZero(MAt(r, c, i))
MxQROrthOk(q, E, f) ==
    LET L == q.r IN
    \A i \in 1..q.c : \A j \in 1..i :
        \E d \in {DvDot(MCol(q, i), MCol(q, j))} :
           IF i = j THEN DNear(d, DUnit, DTol(L + 6, DUnit, f)) ELSE DLe(DAbs(d), DTol(E[i], DUnit, f))
MxQRResidualOk(A, q, r, E, f) ==
    \E k \in {MxQRResK(E, q.c, q.r)} : \E P \in {DmMul(q, r)} :
       \A c \in 1..A.c : \E n1 \in {DvNorm1(MCol(A, c))} : \A i \in 1..A.r : DLe(DAbs(DSub(MAt(A, c, i), MAt(P, c, i))), DTol(k, n1, f))
\* P = MxRhoP(A, K) inside the domain
MxQRPostP(A, q, r, P, f) ==
    \E K \in {MxK(A.c, A.r)} : \E E \in {MxQRE(P, A.r, 1, << >>)} :
       /\ q.c = K /\ q.r = A.r /\ r.c = A.c /\ r.r = K
       /\ MxQRZerosOk(r) /\ MxQROrthOk(q, E, f) /\ MxQRResidualOk(A, q, r, E, f)
MxQRPost(A, q, r, f) == \E P \in {MxRhoP(A, MxK(A.c, A.r))} : MxQRPostP(A, q, r, P, f)
\* the same through the transformation rq_decompose is defined by (Part 1b)
MxRQDomain(A) == MxQRDomain(MxRQin(A), MxK(A.c, A.r))
MxRQPost(A, r, q, f) == \E B \in {MxRQin(A)} : \E tq \in {MxRQq(q)} : \E tr \in {MxRQr(r)} : MxQRPost(B, tq, tr, f)
\* the documented statement of rq_decompose read directly (used by MC_X02 to tie the transformation to the documentation)
MxRQZerosOk(r) == \A c \in 1..r.c : \A i \in 1..r.r : (r.r - i) < (r.c - c) => DIsZero(MAt(r, c, i))

----------------------------------------------------------------------------
(* Part 2e: mix, abs, cross-product matrices, integer matrix functions *)
\* mix(x, y, a) = x (1 - a) + y a per element: 1 - a (u), two products (u each), one sum (u): 3u = 1.5 eps on |x (1-a)| + |y a|; k = 3
MxMixD(x, y, a) == DAdd(DMul(x, DSub(DUnit, a)), DMul(y, a))
MxMixAbs(x, y, a) == DAdd(DAbs(DMul(x, DSub(DUnit, a))), DAbs(DMul(y, a)))
MxMixBound(x, y, a) == DMax(MxMixAbs(x, y, a), DAbs(DSub(DUnit, a)))
MxMixOk(t, xs, ys, as, ws) ==     \* as: one weight per element
    IF MxIsF(t) THEN MxAllNear(t, ws, [i \in 1..Len(xs) |-> MxMixD(xs[i], ys[i], as[i])], 3, [i \in 1..Len(xs) |-> MxMixAbs(xs[i], ys[i], as[i])])
    ELSE MxAllExact(t, ws, [i \in 1..Len(xs) |-> MxMixD(xs[i], ys[i], as[i])])
\* M_x v for n = 3: cross(x, v); n = 4: (cross(x, v.xyz), 0).  Two products and (with the vanishing third term) one rounded sum: k = 3
MxCrossMV(n, x, v) == LET c == DvCross(x, <<v[1], v[2], v[3]>>) IN IF n = 3 THEN c ELSE <<c[1], c[2], c[3], DZero>>
MxCrossMVAbs(n, x, v) == LET c == JCrossAbs(x, <<v[1], v[2], v[3]>>) IN IF n = 3 THEN c ELSE <<c[1], c[2], c[3], DZero>>
=============================================================================
