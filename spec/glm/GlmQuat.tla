------------------------------- MODULE GlmQuat ------------------------------
(***************************************************************************)
(* Definitional semantics of the rotation forms of GLM (property C04):     *)
(* quaternions <<w, x, y, z>>, rotation matrices (column-major, LinQ),     *)
(* axis-angle, Euler angles, rotation between two vectors, dual            *)
(* quaternions.  Everything is exact arithmetic over Q (LinQ); angles      *)
(* never appear: a rotation angle is the pair <<cos, sin>> of rationals.   *)
(* The module also holds the comparison predicates shared by MC_C04 and    *)
(* Trace_C04.                                                              *)
(***************************************************************************)
EXTENDS LinQ

\* ---------------------------------------------------------------- logged values on one power-of-two denominator
\* (keeps every sum on the "equal denominators" path of QAdd: no blow-up of the unreduced rationals)
\* Fast decoding of a logged float / double (2 / 4 limbs of 16 bits) with native integer arithmetic; DOfW(w) = ValW(FmtOfW(w), w) for every
\* finite pattern (checked against the IEEE module on a pattern lattice by MC_C04).
FinWF(w) == IF Len(w) = 4 THEN (w[4] % 32768) \div 16 # 2047 ELSE (w[2] % 32768) \div 128 # 255
AllFinF(ws) == \A i \in 1..Len(ws) : FinWF(ws[i])
DOfW(w) ==
    IF Len(w) = 4
    THEN LET e == (w[4] % 32768) \div 16
             hi == (w[4] % 16) + (IF e = 0 THEN 0 ELSE 16)
             t1 == (w[1] \div 32768) + 2 * w[2]
             t2 == (t1 \div 32768) + 4 * w[3]
             t3 == (t2 \div 32768) + 8 * hi
         IN DMk(w[4] >= 32768, NNorm(<< w[1] % 32768, t1 % 32768, t2 % 32768, t3 >>), (IF e = 0 THEN 1 ELSE e) - 1075)
    ELSE LET e == (w[2] % 32768) \div 128
             m == (w[2] % 128) * 65536 + w[1] + (IF e = 0 THEN 0 ELSE 8388608)
         IN DMk(w[2] >= 32768, NFromNat(m), (IF e = 0 THEN 1 ELSE e) - 150)
RECURSIVE MinExpFrom(_, _)
MinExpFrom(ds, i) == IF i > Len(ds) THEN 0 ELSE LET r == MinExpFrom(ds, i + 1) IN IF ds[i].e < r THEN ds[i].e ELSE r
QSeqC(ws) == LET ds == [i \in 1..Len(ws) |-> DOfW(ws[i])]
                 e0 == MinExpFrom(ds, 1)
                 den == NShl(<<1>>, -e0)
             IN [i \in 1..Len(ws) |-> QMk(ZMk(ds[i].neg, NShl(ds[i].m, ds[i].e - e0)), den)]
\* integers logged as 64-bit two's complement words (16-bit limbs)
IntZ(w) == WToZ(64, TRUE, WFromLimbs(w))
QOfIntW(nw, dw) == QMk(IntZ(nw), IntZ(dw).m)                     \* dw > 0
\* <<c, s>> pairs from a flat list of (cn, sn, d) triples
CsPairs(l) == [k \in 1..(Len(l) \div 3) |-> << QOfIntW(l[3 * k - 2], l[3 * k]), QOfIntW(l[3 * k - 1], l[3 * k]) >>]
CsOnCircle(p) == QEq(QAdd(QMul(p[1], p[1]), QMul(p[2], p[2])), QOne)
V3(s) == << s[1], s[2], s[3] >>
QVec(q) == << q[2], q[3], q[4] >>                                \* vector part of a quaternion
QId == << QOne, QZero, QZero, QZero >>
Sq(a) == QMul(a, a)
Sum1(v) == QSum([i \in 1..Len(v) |-> QAbs(v[i])])                \* 1-norm

\* ---------------------------------------------------------------- comparison predicates
\* | a - b | <= tol without forming the difference as an unreduced rational: with a = pa/qa, b = pb/qb, tol = pt/qt
\*   | pa qb - pb qa | qt <= pt qa qb ;  factors that are powers of two (always qa and qt here) are shifts
NIsPow2(n) == Len(n) > 0 /\ n = NShl(<<1>>, NBitLen(n) - 1)
NMulP(a, n) == IF NIsPow2(n) THEN NShl(a, NBitLen(n) - 1) ELSE NMul(a, n)
WithinQ(a, b, tol) ==
    LET d == ZSub(ZMk(a.p.neg, NMulP(a.p.m, b.q)), ZMk(b.p.neg, NMulP(b.p.m, a.q)))
    IN QSign(tol) >= 0 /\ NCmp(NMulP(d.m, tol.q), NMulP(NMulP(tol.p.m, a.q), b.q)) <= 0
MaxDiffLe(obs, exp, tol) == Len(obs) = Len(exp) /\ \A i \in 1..Len(exp) : WithinQ(obs[i], exp[i], tol)
PMDiffLe(obs, exp, tol) == MaxDiffLe(obs, exp, tol) \/ MaxDiffLe(obs, VNeg(exp), tol)
\* every (obs_i - exp_i)^2 * scale <= bound
SqDiffLe(obs, exp, scale, bound) == Len(obs) = Len(exp) /\ \A i \in 1..Len(exp) : QLe(QMul(Sq(QSub(obs[i], exp[i])), scale), bound)
AllEq(obs, exp) == Len(obs) = Len(exp) /\ \A i \in 1..Len(exp) : QEq(obs[i], exp[i])
\* ---------------------------------------------------------------- single-axis rotations and Euler products
\* (0 and 1 are written over the denominator of c: every entry of a product of such matrices then has the same denominator
\*  and the unreduced rationals of Exact stay small -- OneLike(c) = 1, ZeroLike(c) = 0 as values)
OneLike(c) == QMk(ZMk(FALSE, c.q), c.q)
ZeroLike(c) == QMk(ZMk(FALSE, << >>), c.q)
RotX(c, s) == LET o == OneLike(c) z == ZeroLike(c) IN Mat(3, 3, << o, z, z,   z, c, s,   z, QNeg(s), c >>)
RotY(c, s) == LET o == OneLike(c) z == ZeroLike(c) IN Mat(3, 3, << c, z, QNeg(s),   z, o, z,   s, z, c >>)
RotZ(c, s) == LET o == OneLike(c) z == ZeroLike(c) IN Mat(3, 3, << c, s, z,   QNeg(s), c, z,   z, z, o >>)
AxisRot(ax, p) == CASE ax = "X" -> RotX(p[1], p[2]) [] ax = "Y" -> RotY(p[1], p[2]) [] ax = "Z" -> RotZ(p[1], p[2])
\* d/d(angle) of the single-axis rotation, times the angular velocity w  (derivedEulerAngleX/Y/Z)
DRotX(c, s, w) == Mat(3, 3, << QZero, QZero, QZero,   QZero, QMul(QNeg(s), w), QMul(c, w),   QZero, QMul(QNeg(c), w), QMul(QNeg(s), w) >>)
DRotY(c, s, w) == Mat(3, 3, << QMul(QNeg(s), w), QZero, QMul(QNeg(c), w),   QZero, QZero, QZero,   QMul(c, w), QZero, QMul(QNeg(s), w) >>)
DRotZ(c, s, w) == Mat(3, 3, << QMul(QNeg(s), w), QMul(c, w), QZero,   QMul(QNeg(c), w), QMul(QNeg(s), w), QZero,   QZero, QZero, QZero >>)
DAxisRot(ax, p, w) == CASE ax = "X" -> DRotX(p[1], p[2], w) [] ax = "Y" -> DRotY(p[1], p[2], w) [] ax = "Z" -> DRotZ(p[1], p[2], w)
\* the name of eulerAngleABC says which factors are multiplied, in that order: eulerAngleXYZ(a, b, c) = Rx(a) * Ry(b) * Rz(c)
EulerNames1 == {"X", "Y", "Z"}
EulerNames2 == {"XY", "YX", "XZ", "ZX", "YZ", "ZY"}
EulerNames3 == {"XYZ", "YXZ", "XZX", "XYX", "YXY", "YZY", "ZYZ", "ZXZ", "XZY", "YZX", "ZYX", "ZXY"}
EulerAxes(nm) ==
    CASE nm = "X" -> <<"X">> [] nm = "Y" -> <<"Y">> [] nm = "Z" -> <<"Z">>
      [] nm = "XY" -> <<"X", "Y">> [] nm = "YX" -> <<"Y", "X">> [] nm = "XZ" -> <<"X", "Z">>
      [] nm = "ZX" -> <<"Z", "X">> [] nm = "YZ" -> <<"Y", "Z">> [] nm = "ZY" -> <<"Z", "Y">>
      [] nm = "XYZ" -> <<"X", "Y", "Z">> [] nm = "YXZ" -> <<"Y", "X", "Z">> [] nm = "XZX" -> <<"X", "Z", "X">>
      [] nm = "XYX" -> <<"X", "Y", "X">> [] nm = "YXY" -> <<"Y", "X", "Y">> [] nm = "YZY" -> <<"Y", "Z", "Y">>
      [] nm = "ZYZ" -> <<"Z", "Y", "Z">> [] nm = "ZXZ" -> <<"Z", "X", "Z">> [] nm = "XZY" -> <<"X", "Z", "Y">>
      [] nm = "YZX" -> <<"Y", "Z", "X">> [] nm = "ZYX" -> <<"Z", "Y", "X">> [] nm = "ZXY" -> <<"Z", "X", "Y">>
RECURSIVE RotProd(_, _, _)
RotProd(axes, ps, i) == IF i = Len(axes) THEN AxisRot(axes[i], ps[i]) ELSE MMul(AxisRot(axes[i], ps[i]), RotProd(axes, ps, i + 1))
EulerMat(nm, ps) == RotProd(EulerAxes(nm), ps, 1)                \* ps[i] = <<cos, sin>> of the i-th angle argument
\* yawPitchRoll(yaw, pitch, roll) = Ry(yaw) * Rx(pitch) * Rz(roll); orientate3/4(angles) = yawPitchRoll(angles.z, angles.x, angles.y)
YawPitchRollMat(ps) == EulerMat("YXZ", ps)
OrientateMat(ps) == EulerMat("YXZ", << ps[3], ps[1], ps[2] >>)
Rot2(p) == Mat(2, 2, << p[1], p[2], QNeg(p[2]), p[1] >>)

IsRotation(m) == MEq(MMul(m, MTranspose(m)), MIdentity(3)) /\ QEq(MDet(m), QOne)

\* ---------------------------------------------------------------- quaternions
\* axis-angle: half angle <<ch, sh>>, axis a (unit): <<ch, sh a>>
AngleAxisQ(h, a) == << h[1], QMul(h[2], a[1]), QMul(h[2], a[2]), QMul(h[2], a[3]) >>
\* qua(vec3(pitch, yaw, roll)): rotation about x by pitch, then y by yaw, then z by roll:  qz * qy * qx  (half angles hx, hy, hz)
EulerQuat(hx, hy, hz) == LET zx == ZeroLike(hx[1]) zy == ZeroLike(hy[1]) zz == ZeroLike(hz[1])
                         IN QuatMul(<< hz[1], zz, zz, hz[2] >>, QuatMul(<< hy[1], zy, hy[2], zy >>, << hx[1], hx[2], zx, zx >>))
\* q v q* (LinQ's QuatRotate with the 0 of the pure quaternion written over v's denominator)
QuatRotateC(q, v) == LET r == QuatMul(QuatMul(q, << ZeroLike(v[1]), v[1], v[2], v[3] >>), QuatConj(q)) IN << r[2], r[3], r[4] >>
\* full angle from the half angle
Dbl(h) == << QSub(Sq(h[1]), Sq(h[2])), QMul(QI(2), QMul(h[1], h[2])) >>
\* rotation matrix of an arbitrary non-zero quaternion (homogeneous form; equals QuatToMat3 for unit q)
QuatToMat3H(q) ==
    LET w == q[1] x == q[2] y == q[3] z == q[4] two == QI(2) n == QInv(QuatNorm2(q))
        ww == QMul(w, w) xx == QMul(x, x) yy == QMul(y, y) zz == QMul(z, z)
    IN MScale(Mat(3, 3, << QSub(QAdd(ww, xx), QAdd(yy, zz)), QMul(two, QAdd(QMul(x, y), QMul(w, z))), QMul(two, QSub(QMul(x, z), QMul(w, y))),
                           QMul(two, QSub(QMul(x, y), QMul(w, z))), QSub(QAdd(ww, yy), QAdd(xx, zz)), QMul(two, QAdd(QMul(y, z), QMul(w, x))),
                           QMul(two, QAdd(QMul(x, z), QMul(w, y))), QMul(two, QSub(QMul(y, z), QMul(w, x))), QSub(QAdd(ww, zz), QAdd(xx, yy)) >>), n)
\* Euler angles of a quaternion (pitch about x, yaw about y, roll about z, matrix Rz Ry Rx): the quantities whose atan2 / asin they are
PitchY(q) == QMul(QI(2), QAdd(QMul(q[3], q[4]), QMul(q[1], q[2])))
PitchX(q) == QAdd(QSub(QSub(Sq(q[1]), Sq(q[2])), Sq(q[3])), Sq(q[4]))
RollY(q) == QMul(QI(2), QAdd(QMul(q[2], q[3]), QMul(q[1], q[4])))
RollX(q) == QSub(QSub(QAdd(Sq(q[1]), Sq(q[2])), Sq(q[3])), Sq(q[4]))
YawSin(q) == QMul(QI(-2), QSub(QMul(q[2], q[4]), QMul(q[1], q[3])))
CosYaw2(q) == QAdd(Sq(RollX(q)), Sq(RollY(q)))                  \* cos(yaw)^2 |q|^4 : squared distance to gimbal lock

\* quat_cast: the largest of 4w^2-1, 4x^2-1, 4y^2-1, 4z^2-1 (first wins on ties, as the strict comparisons of gtc/quaternion.inl)
\* selects the component computed from the diagonal; no roots: the result r is characterised by
\*   r_b >= 0,  4 r_b^2 = 1 + (+-m00 +-m11 +-m22),  4 r_b r_j = the matching off-diagonal combination
G(m, c, r) == MAt(m, c + 1, r + 1)                               \* GLM's m[c][r]
FourSqM1(m) == << QAdd(QAdd(G(m, 0, 0), G(m, 1, 1)), G(m, 2, 2)), QSub(QSub(G(m, 0, 0), G(m, 1, 1)), G(m, 2, 2)),
                  QSub(QSub(G(m, 1, 1), G(m, 0, 0)), G(m, 2, 2)), QSub(QSub(G(m, 2, 2), G(m, 0, 0)), G(m, 1, 1)) >>
BiggestIndex(m) ==
    LET f == FourSqM1(m)
        b1 == IF QLt(f[1], f[2]) THEN 2 ELSE 1
        b2 == IF QLt(f[b1], f[3]) THEN 3 ELSE b1
    IN IF QLt(f[b2], f[4]) THEN 4 ELSE b2                        \* 1 = w, 2 = x, 3 = y, 4 = z
QuatCastCombos(m, b) ==                                          \* 4 r_b r_j for j = w, x, y, z (entry b unused)
    CASE b = 1 -> << QZero, QSub(G(m, 1, 2), G(m, 2, 1)), QSub(G(m, 2, 0), G(m, 0, 2)), QSub(G(m, 0, 1), G(m, 1, 0)) >>
      [] b = 2 -> << QSub(G(m, 1, 2), G(m, 2, 1)), QZero, QAdd(G(m, 0, 1), G(m, 1, 0)), QAdd(G(m, 2, 0), G(m, 0, 2)) >>
      [] b = 3 -> << QSub(G(m, 2, 0), G(m, 0, 2)), QAdd(G(m, 0, 1), G(m, 1, 0)), QZero, QAdd(G(m, 1, 2), G(m, 2, 1)) >>
      [] b = 4 -> << QSub(G(m, 0, 1), G(m, 1, 0)), QAdd(G(m, 2, 0), G(m, 0, 2)), QAdd(G(m, 1, 2), G(m, 2, 1)), QZero >>
QuatCastRel(m, r) ==
    LET b == BiggestIndex(m) k == QuatCastCombos(m, b)
    IN /\ QSign(r[b]) > 0
       /\ QEq(QMul(QI(4), Sq(r[b])), QAdd(FourSqM1(m)[b], QOne))
       /\ \A j \in (1..4) \ {b} : QEq(QMul(QI(4), QMul(r[b], r[j])), k[j])

\* rotation between two unit vectors uh, vh (shortest arc): r unit, w >= 0, r rotates uh onto vh about an axis orthogonal to both
RotBetweenRel(uh, vh, r) ==
    /\ QEq(QuatNorm2(r), QOne) /\ QSign(r[1]) >= 0
    /\ AllEq(QuatRotateC(r, uh), vh)
    /\ QIsZero(VDot(QVec(r), uh)) /\ QIsZero(VDot(QVec(r), vh))

\* ---------------------------------------------------------------- dual quaternions <<real, dual>>: rotation real, then translation t
DQMake(q, t) == << q, VScale(QuatMul(<< ZeroLike(t[1]), t[1], t[2], t[3] >>, q), QF(1, 2)) >>
DQTrans(re, du) == VScale(QVec(QuatMul(du, QuatConj(re))), QDiv(QI(2), QuatNorm2(re)))
DQApply(re, du, v) == VAdd(MVec(QuatToMat3H(re), v), DQTrans(re, du))
\* mat3x4_cast: three columns of four rows; column k holds row k of [R | t]
DQMat3x4(re, du) == LET R == QuatToMat3H(re) t == DQTrans(re, du)
                    IN Mat(3, 4, << MAt(R, 1, 1), MAt(R, 2, 1), MAt(R, 3, 1), t[1],
                                    MAt(R, 1, 2), MAt(R, 2, 2), MAt(R, 3, 2), t[2],
                                    MAt(R, 1, 3), MAt(R, 2, 3), MAt(R, 3, 3), t[3] >>)


\* ================================================================ dyadic evaluators (used by Trace_C04)
\* Every logged float is a dyadic number and every oracle of the trace specification is a polynomial in the logged values and in
\* the logged integers (rational angles cos = cn/d, sin = sn/d enter as the integers cn, sn, d with the expected value scaled by
\* the product of the d's).  Evaluating these polynomials with Exact's dyadics (one multiplication per product, no denominators)
\* is several times cheaper under TLC than with unreduced rationals.  The operators below are the dyadic twins of the LinQ / GlmQuat
\* definitions above; MC_C04 checks on its whole state space that they agree with those definitions.
\* 3x3 matrices are flat column-major sequences of 9 dyadics (entry (col c, row r) at 3 (c - 1) + r).
DI(n) == DFromInt(n)
DSeqW(ws) == [i \in 1..Len(ws) |-> DOfW(ws[i])]
DIntW(w) == DFromZ(IntZ(w))
DIntSeq(ws) == [i \in 1..Len(ws) |-> DIntW(ws[i])]
QOfDs(ds) == [i \in 1..Len(ds) |-> QFromD(ds[i])]
DSq(a) == DMul(a, a)
DvAdd(a, b) == [i \in 1..Len(a) |-> DAdd(a[i], b[i])]
DvSub(a, b) == [i \in 1..Len(a) |-> DSub(a[i], b[i])]
DvNeg(a) == [i \in 1..Len(a) |-> DNeg(a[i])]
DvScale(a, k) == [i \in 1..Len(a) |-> DMul(a[i], k)]
DvDot(a, b) == DSum([i \in 1..Len(a) |-> DMul(a[i], b[i])])
DvNorm2(a) == DvDot(a, a)
DvCross(a, b) == << DSub(DMul(a[2], b[3]), DMul(a[3], b[2])), DSub(DMul(a[3], b[1]), DMul(a[1], b[3])), DSub(DMul(a[1], b[2]), DMul(a[2], b[1])) >>
DvSum1(a) == DSum([i \in 1..Len(a) |-> DAbs(a[i])])
DvIsZero(a) == \A i \in 1..Len(a) : DIsZero(a[i])
DvEq(a, b) == Len(a) = Len(b) /\ \A i \in 1..Len(a) : DEq(a[i], b[i])
DOne == DI(1)
DV3(s) == << s[1], s[2], s[3] >>
DQVec(q) == << q[2], q[3], q[4] >>
DQId == << DOne, DZero, DZero, DZero >>
Dm3Id == << DOne, DZero, DZero, DZero, DOne, DZero, DZero, DZero, DOne >>
Dm3Mul(A, B) == [k \in 1..9 |-> LET c == (k - 1) \div 3 r == ((k - 1) % 3) + 1 IN DSum([j \in 1..3 |-> DMul(A[3 * (j - 1) + r], B[3 * c + j])])]
Dm3Vec(A, v) == [r \in 1..3 |-> DSum([k \in 1..3 |-> DMul(A[3 * (k - 1) + r], v[k])])]
Dm3T(A) == [k \in 1..9 |-> A[3 * ((k - 1) % 3) + ((k - 1) \div 3) + 1]]
Dm3Scale(A, s) == [k \in 1..9 |-> DMul(A[k], s)]
DqMul(p, q) ==
    << DSub(DSub(DSub(DMul(p[1], q[1]), DMul(p[2], q[2])), DMul(p[3], q[3])), DMul(p[4], q[4])),
       DSub(DAdd(DAdd(DMul(p[1], q[2]), DMul(p[2], q[1])), DMul(p[3], q[4])), DMul(p[4], q[3])),
       DSub(DAdd(DAdd(DMul(p[1], q[3]), DMul(p[3], q[1])), DMul(p[4], q[2])), DMul(p[2], q[4])),
       DSub(DAdd(DAdd(DMul(p[1], q[4]), DMul(p[4], q[1])), DMul(p[2], q[3])), DMul(p[3], q[2])) >>
DqConj(q) == << q[1], DNeg(q[2]), DNeg(q[3]), DNeg(q[4]) >>
DqNorm2(q) == DvNorm2(q)
DqToMat3(q) ==
    LET w == q[1] x == q[2] y == q[3] z == q[4]
        xx == DMul(x, x) yy == DMul(y, y) zz == DMul(z, z) xy == DMul(x, y) xz == DMul(x, z) yz == DMul(y, z)
        wx == DMul(w, x) wy == DMul(w, y) wz == DMul(w, z)
    IN << DSub(DOne, DMul2k(DAdd(yy, zz), 1)), DMul2k(DAdd(xy, wz), 1), DMul2k(DSub(xz, wy), 1),
          DMul2k(DSub(xy, wz), 1), DSub(DOne, DMul2k(DAdd(xx, zz), 1)), DMul2k(DAdd(yz, wx), 1),
          DMul2k(DAdd(xz, wy), 1), DMul2k(DSub(yz, wx), 1), DSub(DOne, DMul2k(DAdd(xx, yy), 1)) >>
\* q v q* for a unit q, through the rotation matrix (equal to LinQ's QuatRotate when |q| = 1; checked by MC_C04)
DqRotate(q, v) == Dm3Vec(DqToMat3(q), v)
\* q (0, v) q* exactly (= |q|^2 times the rotation)
DqSandwich(q, v) == LET r == DqMul(DqMul(q, << DZero, v[1], v[2], v[3] >>), DqConj(q)) IN << r[2], r[3], r[4] >>
DPitchY(q) == DMul2k(DAdd(DMul(q[3], q[4]), DMul(q[1], q[2])), 1)
DPitchX(q) == DAdd(DSub(DSub(DSq(q[1]), DSq(q[2])), DSq(q[3])), DSq(q[4]))
DRollY(q) == DMul2k(DAdd(DMul(q[2], q[3]), DMul(q[1], q[4])), 1)
DRollX(q) == DSub(DSub(DAdd(DSq(q[1]), DSq(q[2])), DSq(q[3])), DSq(q[4]))
DYawSin(q) == DMul2k(DSub(DMul(q[1], q[3]), DMul(q[2], q[4])), 1)
DCosYaw2(q) == DAdd(DSq(DRollX(q)), DSq(DRollY(q)))
\* single-axis rotations from a triple t = <<cn, sn, d>> (cos = cn/d, sin = sn/d), SCALED by d; from a pair <<c, s>> use <<c, s, 1>>
DRotXs(t) == << t[3], DZero, DZero,   DZero, t[1], t[2],   DZero, DNeg(t[2]), t[1] >>
DRotYs(t) == << t[1], DZero, DNeg(t[2]),   DZero, t[3], DZero,   t[2], DZero, t[1] >>
DRotZs(t) == << t[1], t[2], DZero,   DNeg(t[2]), t[1], DZero,   DZero, DZero, t[3] >>
DAxisRots(ax, t) == CASE ax = "X" -> DRotXs(t) [] ax = "Y" -> DRotYs(t) [] ax = "Z" -> DRotZs(t)
RECURSIVE DRotProds(_, _, _)
DRotProds(axes, ts, i) == IF i = Len(axes) THEN DAxisRots(axes[i], ts[i]) ELSE Dm3Mul(DAxisRots(axes[i], ts[i]), DRotProds(axes, ts, i + 1))
DEulerMats(nm, ts) == DRotProds(EulerAxes(nm), ts, 1)                     \* = EulerMat(nm, ps) * DenProd(ts)
RECURSIVE DenProdFrom(_, _)
DenProdFrom(ts, i) == IF i > Len(ts) THEN DOne ELSE DMul(ts[i][3], DenProdFrom(ts, i + 1))
DenProd(ts) == DenProdFrom(ts, 1)
DTriples(l) == [k \in 1..(Len(l) \div 3) |-> << l[3 * k - 2], l[3 * k - 1], l[3 * k] >>]     \* flat list of dyadics -> triples
DTripleOK(t) == DSign(t[3]) > 0 /\ DEq(DAdd(DSq(t[1]), DSq(t[2])), DSq(t[3]))
\* derivative matrices scaled by d
DDRotXs(t, w) == << DZero, DZero, DZero,   DZero, DMul(DNeg(t[2]), w), DMul(t[1], w),   DZero, DMul(DNeg(t[1]), w), DMul(DNeg(t[2]), w) >>
DDRotYs(t, w) == << DMul(DNeg(t[2]), w), DZero, DMul(DNeg(t[1]), w),   DZero, DZero, DZero,   DMul(t[1], w), DZero, DMul(DNeg(t[2]), w) >>
DDRotZs(t, w) == << DMul(DNeg(t[2]), w), DMul(t[1], w), DZero,   DMul(DNeg(t[1]), w), DMul(DNeg(t[2]), w), DZero,   DZero, DZero, DZero >>
DDAxisRots(ax, t, w) == CASE ax = "X" -> DDRotXs(t, w) [] ax = "Y" -> DDRotYs(t, w) [] ax = "Z" -> DDRotZs(t, w)
\* Rodrigues with an integer axis a of integer length L and the triple t: RotAxis3(cn/d, sn/d, a/L) * (d L^2)
DRotAxiss(t, a, L) ==
    LET cl == DMul(t[1], DSq(L)) k == DSub(t[3], t[1]) sl == DMul(t[2], L) x == a[1] y == a[2] z == a[3]
    IN << DAdd(cl, DMul(k, DMul(x, x))), DAdd(DMul(k, DMul(x, y)), DMul(sl, z)), DSub(DMul(k, DMul(x, z)), DMul(sl, y)),
          DSub(DMul(k, DMul(x, y)), DMul(sl, z)), DAdd(cl, DMul(k, DMul(y, y))), DAdd(DMul(k, DMul(y, z)), DMul(sl, x)),
          DAdd(DMul(k, DMul(x, z)), DMul(sl, y)), DSub(DMul(k, DMul(y, z)), DMul(sl, x)), DAdd(cl, DMul(k, DMul(z, z))) >>
\* axis-angle quaternion from the half-angle triple h and the axis a of length L, scaled by d L
DAngleAxiss(h, a, L) == << DMul(h[1], L), DMul(h[2], a[1]), DMul(h[2], a[2]), DMul(h[2], a[3]) >>
\* qua(vec3 euler) from three half-angle triples, scaled by the product of the d's
DEulerQuats(hx, hy, hz) == DqMul(<< hz[1], DZero, DZero, hz[2] >>, DqMul(<< hy[1], DZero, hy[2], DZero >>, << hx[1], hx[2], DZero, DZero >>))
\* dual quaternions with a unit real part: translation 2 vec(du re*), dual part of (re, t) = (0, t) re / 2
DDqTrans(re, du) == DvScale(DQVec(DqMul(du, DqConj(re))), DI(2))
DDqDual(re, t) == DvScale(DqMul(<< DZero, t[1], t[2], t[3] >>, re), DPow2(-1))

\* comparisons: | obs s - exps | <= tol s   (exps = expected value times the positive scale s)
DNearS(obs, exps, tol, s) == DLe(DAbs(DSub(DMul(obs, s), exps)), DMul(tol, s))
DMaxDiffLeS(obs, exps, tol, s) == Len(obs) = Len(exps) /\ \A i \in 1..Len(exps) : DNearS(obs[i], exps[i], tol, s)
DMaxDiffLe(obs, exp, tol) == Len(obs) = Len(exp) /\ \A i \in 1..Len(exp) : DLe(DAbs(DSub(obs[i], exp[i])), tol)
DPMDiffLe(obs, exp, tol) == DMaxDiffLe(obs, exp, tol) \/ DMaxDiffLe(obs, DvNeg(exp), tol)
DSqDiffLe(obs, exp, scale, bound) == Len(obs) = Len(exp) /\ \A i \in 1..Len(exp) : DLe(DMul(DSq(DSub(obs[i], exp[i])), scale), bound)
\* | obs - exp | <= k eps |exp| componentwise (a correctly / faithfully rounded single operation)
DNearOwn(obs, exp, k, f) == Len(obs) = Len(exp) /\ \A i \in 1..Len(exp) : DLe(DAbs(DSub(obs[i], exp[i])), DMul(DMulInt(Eps(f), k), DAbs(exp[i])))
\* r ~ sqrt(s): | r^2 - s | <= 3 rel max(s, r^2), r >= 0
DIsSqrtNear(r, s, rel) == DSign(r) >= 0 /\ DLe(DAbs(DSub(DSq(r), s)), DMul(DMulInt(rel, 3), DMax(s, DSq(r))))
=============================================================================
