------------------------------ MODULE GlmX12 -------------------------------
(***************************************************************************)
(* Geometric extras (stage X12, attached to property C12):                 *)
(*   gtx/intersect.hpp            intersectRayPlane, intersectRayTriangle,  *)
(*                                intersectLineTriangle, intersectRaySphere *)
(*                                (both overloads), intersectLineSphere     *)
(*   gtx/vector_query.hpp         areCollinear areOrthogonal areOrthonormal *)
(*                                isNormalized isNull isCompNull            *)
(*   gtx/normalize_dot.hpp        normalizeDot                              *)
(*   gtx/handed_coordinate_space  rightHanded leftHanded                    *)
(*   gtx/polar_coordinates.hpp    polar euclidean                           *)
(*   gtx/extend.hpp               extend                                    *)
(*                                                                         *)
(* Part 1: definitional semantics over the exact rationals (LinQ vectors). *)
(*         No roots, no trigonometry: square roots only occur through      *)
(*         their defining postcondition, sine and cosine through rational  *)
(*         points of the unit circle or a Taylor enclosure.                *)
(* Part 2: acceptance predicates on exact dyadics (every logged float is a *)
(*         dyadic), division-free and root-free, each with a derived       *)
(*         forward error bound k * eps * scale (eps = 2^-23 / 2^-52 = two  *)
(*         unit roundoffs; the derivations are in notes/X12-notes.md and   *)
(*         in the comment next to each predicate).  Decisions (hit / no    *)
(*         hit, query true / false) are three-valued: demanded when the    *)
(*         deciding exact quantity is outside its rounding band, free      *)
(*         inside.  MC_X12 ties part 2 back to part 1.                     *)
(***************************************************************************)
EXTENDS GlmGeom

----------------------------------------------------------------------------
(* Part 1: definitions over Q *)

\* ---- ray / plane.  Ray o + t d (t > 0), plane {p : (p - po).n = 0}.
XPlaneNum(o, po, n) == VDot(VSub(po, o), n)
XPlaneDen(d, n) == VDot(d, n)
XRayPlaneHit(o, d, po, n) == ~QIsZero(XPlaneDen(d, n)) /\ QSign(XPlaneNum(o, po, n)) * QSign(XPlaneDen(d, n)) > 0
XRayPlaneT(o, d, po, n) == QDiv(XPlaneNum(o, po, n), XPlaneDen(d, n))                     \* den # 0
XAlong(o, d, t) == VAdd(o, VScale(d, t))                                                   \* the point of the ray / line at parameter t

\* ---- line / triangle (Moeller - Trumbore).  o + t d = (1 - u - v) v0 + u v1 + v v2 ; the four triple products:
XTriDet(d, v0, v1, v2) == VDot(VSub(v1, v0), VCross(d, VSub(v2, v0)))
XTriU(o, d, v0, v1, v2) == VDot(VSub(o, v0), VCross(d, VSub(v2, v0)))
XTriV(o, d, v0, v1, v2) == VDot(d, VCross(VSub(o, v0), VSub(v1, v0)))
XTriT(o, d, v0, v1, v2) == VDot(VSub(v2, v0), VCross(VSub(o, v0), VSub(v1, v0)))
XTriSol(o, d, v0, v1, v2) == LET det == XTriDet(d, v0, v1, v2)                             \* det # 0
                             IN [t |-> QDiv(XTriT(o, d, v0, v1, v2), det), u |-> QDiv(XTriU(o, d, v0, v1, v2), det), v |-> QDiv(XTriV(o, d, v0, v1, v2), det)]
XTriPoint(v0, v1, v2, u, v) == VAdd(VAdd(VScale(v0, QSub(QSub(QOne, u), v)), VScale(v1, u)), VScale(v2, v))
XInTri(s) == QSign(s.u) >= 0 /\ QSign(s.v) >= 0 /\ QLe(QAdd(s.u, s.v), QOne)
XLineTriHit(o, d, v0, v1, v2) == ~QIsZero(XTriDet(d, v0, v1, v2)) /\ XInTri(XTriSol(o, d, v0, v1, v2))
\* a ray only reaches points in front of its origin
XRayTriHit(o, d, v0, v1, v2) == XLineTriHit(o, d, v0, v1, v2) /\ QSign(XTriSol(o, d, v0, v1, v2).t) >= 0

\* ---- line / sphere.  |o + s d - c|^2 = r2  <=>  |d|^2 s^2 - 2 (diff.d) s + |diff|^2 - r2 = 0,  diff = c - o
XSphF(o, d, c, r2, s) == QSub(GLength2(VSub(XAlong(o, d, s), c)), r2)                      \* zero on the sphere
XSphDisc(o, d, c, r2) == LET diff == VSub(c, o)                                             \* (quarter of the) discriminant
                         IN QSub(QMul(VDot(diff, d), VDot(diff, d)), QMul(GLength2(d), QSub(GLength2(diff), r2)))
XLineSphereHit(o, d, c, r2) == QSign(XSphDisc(o, d, c, r2)) >= 0                            \* d # 0
\* squared distance of the centre from the line, times |d|^2
XLineDist2(o, d, c) == LET diff == VSub(c, o) IN QSub(QMul(GLength2(d), GLength2(diff)), QMul(VDot(diff, d), VDot(diff, d)))
\* the ray reaches the sphere iff the larger root is positive: origin inside, or centre ahead
XRaySphereHit(o, d, c, r2) == /\ XLineSphereHit(o, d, c, r2)
                              /\ (QLt(GLength2(VSub(c, o)), r2) \/ QSign(VDot(VSub(c, o), d)) > 0)
\* s is the parameter the ray overload must return: a root, positive, and no smaller positive root exists
XIsRoot(o, d, c, r2, s) == QIsZero(XSphF(o, d, c, r2, s))
XIsNearestRoot(o, d, c, r2, s) ==
    LET t0 == QDiv(VDot(VSub(c, o), d), GLength2(d)) other == QSub(QMulInt(t0, 2), s)      \* the roots are symmetric about t0
    IN XIsRoot(o, d, c, r2, s) /\ QSign(s) > 0 /\ (QSign(other) <= 0 \/ QLe(s, other))

\* ---- vector queries: all thresholds compared in squares
XWedge2(a, b) == QSub(QMul(GLength2(a), GLength2(b)), QMul(VDot(a, b), VDot(a, b)))        \* |a ^ b|^2 (Lagrange); L = 3: |cross|^2
XMinors2(a, b) == QSum([k \in 1..(Len(a) * Len(a)) |->                                      \* the same as the sum of the squared 2x2 minors
                     LET i == ((k - 1) \div Len(a)) + 1 j == ((k - 1) % Len(a)) + 1
                     IN IF i < j THEN LET m == QSub(QMul(a[i], b[j]), QMul(a[j], b[i])) IN QMul(m, m) ELSE QZero])
XAreCollinear(a, b, e) == QSign(e) > 0 /\ QLt(XWedge2(a, b), QMul(e, e))                    \* |a ^ b| < e
XMax1(q) == QMax(QOne, q)
XAreOrthogonal(a, b, e) == QSign(e) >= 0 /\ QLe(QMul(VDot(a, b), VDot(a, b)), QMul(QMul(XMax1(GLength2(a)), XMax1(GLength2(b))), QMul(e, e)))
XIsNull(v, e) == QSign(e) >= 0 /\ QLe(GLength2(v), QMul(e, e))                              \* |v| <= e
XIsNormalized(v, e) == LET lo == QSub(QOne, QMulInt(e, 2)) hi == QAdd(QOne, QMulInt(e, 2))  \* | |v| - 1 | <= 2 e
                       IN QSign(e) >= 0 /\ QLe(GLength2(v), QMul(hi, hi)) /\ (QSign(lo) <= 0 \/ QLe(QMul(lo, lo), GLength2(v)))
XIsCompNull(v, e) == [i \in 1..Len(v) |-> QLt(QAbs(v[i]), e)]
XAreOrthonormal(a, b, e) == XIsNormalized(a, e) /\ XIsNormalized(b, e) /\ QLe(QAbs(VDot(a, b)), e)

\* ---- normalizeDot = dot(normalize x, normalize y): r |x| |y| = x.y
XIsNormalizeDot(r, x, y) == /\ QEq(QMul(QMul(r, r), QMul(GLength2(x), GLength2(y))), QMul(VDot(x, y), VDot(x, y)))
                            /\ QSign(r) = QSign(VDot(x, y))

\* ---- handedness of the trihedron (tangent, binormal, normal): sign of det [t b n] = (n x t) . b
XHandDet(t, b, n) == VDot(VCross(n, t), b)
XRightHanded(t, b, n) == QSign(XHandDet(t, b, n)) > 0
XLeftHanded(t, b, n) == QSign(XHandDet(t, b, n)) < 0

\* ---- polar coordinates.  With (c1, s1) = (cos, sin) latitude and (c2, s2) = (cos, sin) longitude:
XEuclid(c1, s1, c2, s2) == << QMul(c1, s2), s1, QMul(c1, c2) >>
\* (s1; c2, s2; xz) are the sine of the latitude, the direction of the longitude and the xz distance of the polar form of e
XIsPolarOf(s1, c2, s2, xz, e) ==
    LET n2 == GLength2(e) h2 == QAdd(QMul(e[1], e[1]), QMul(e[3], e[3])) IN
    /\ QEq(QMul(QMul(s1, s1), n2), QMul(e[2], e[2])) /\ QSign(s1) = QSign(e[2])                         \* sin lat = y / |e|
    /\ QSign(xz) >= 0 /\ QEq(QMul(QMul(xz, xz), n2), h2)                                               \* xz = sqrt(x^2 + z^2) / |e|
    /\ QEq(QMul(s2, e[3]), QMul(c2, e[1])) /\ QSign(QAdd(QMul(s2, e[1]), QMul(c2, e[3]))) >= 0         \* (sin lon, cos lon) || (x, z)

\* ---- extend: Origin + (Source - Origin) * Length
XExtend(O, S, len) == VAdd(O, VScale(VSub(S, O), len))

----------------------------------------------------------------------------
(* Part 2: dyadic acceptance predicates *)
XDom3 == {"T", "F", "U"}                                                                   \* certainly true / certainly false / within rounding
XNot3(x) == IF x = "T" THEN "F" ELSE IF x = "F" THEN "T" ELSE "U"
XAnd3(S) == IF "F" \in S THEN "F" ELSE IF "U" \in S THEN "U" ELSE "T"
XOr3(S) == IF "T" \in S THEN "T" ELSE IF "U" \in S THEN "U" ELSE "F"
\* x > 0 with uncertainty E >= 0
XPos3(x, E) == IF DLt(E, x) THEN "T" ELSE IF DLt(x, DNeg(E)) THEN "F" ELSE "U"
\* the observed boolean agrees with the three-valued expectation
XAgree(b, want) == want = "U" \/ (b = (want = "T"))
XOnePlus(k, f) == DAdd(DUnit, DTol(k, DUnit, f))                                           \* 1 + k eps
XOneMinus(k, f) == DSub(DUnit, DTol(k, DUnit, f))
XNorm1(v) == DvNorm1(v)
XEpsD(f) == Eps(f)

\* ---- ray / plane (dir and normal unit vectors).  d = dir.n, num = (po - o).n
\*   E_d   = L eps sum|dir_i n_i|                 (dot product of length L: k = L as JDotK)
\*   E_num = (L+2) eps sum|(po-o)_i n_i|          (+ the rounded differences)
\*   the ray is "parallel" for GLM when |d_float| <= eps; unit vectors are themselves only unit to a few eps, so the
\*   band around d = 0 is |d| <= 2 eps + E_d.
XPlaneD(dir, n) == DvDot(dir, n)
XPlaneN(o, po, n) == DvDot(DvSub(po, o), n)
XPlaneEd(dir, n, f) == DTol(Len(n), DvDotAbs(dir, n), f)
XPlaneEn(o, po, n, f) == DTol(Len(n) + 2, DvDotAbs(DvSub(po, o), n), f)
XRayPlaneWant(o, dir, po, n, f) ==
    LET d == XPlaneD(dir, n) num == XPlaneN(o, po, n) IN
    IF DLe(DAbs(d), DAdd(DMul2k(XEpsD(f), 1), XPlaneEd(dir, n, f))) THEN "U"
    ELSE IF DLe(DAbs(num), XPlaneEn(o, po, n, f)) THEN "U"
    ELSE IF DSign(num) = DSign(d) THEN "T" ELSE "F"
\* the returned distance t puts the point on the plane: |t d - num| <= |t| E_d + E_num + 2 eps |num|; and t > 0
XRayPlanePost(t, o, dir, po, n, f) ==
    LET d == XPlaneD(dir, n) num == XPlaneN(o, po, n) IN
    /\ DSign(t) > 0
    /\ DLe(DAbs(DSub(DMul(t, d), num)), DAdd(DAdd(DMul(DAbs(t), XPlaneEd(dir, n, f)), XPlaneEn(o, po, n, f)), DTol(2, DAbs(num), f)))

\* ---- triangle.  Edges e1 = v1 - v0, e2 = v2 - v0, tv = o - v0 (rounded by GLM: eps/2 relative per component).
\* Every triple product a.(b x c): cross components eps (|p1| + |p2|), operand roundings eps, 3-term dot 1.5 eps, in
\* total <= 4 eps * sum|a_i| s_i ; k = 8.
XTriK == 8
XTri(o, dir, v0, v1, v2, f) ==
    LET e1 == DvSub(v1, v0) e2 == DvSub(v2, v0) tv == DvSub(o, v0)
        p == DvCross(dir, e2) pa == JCrossAbs(dir, e2)
        q == DvCross(tv, e1) qa == JCrossAbs(tv, e1)
    IN [det |-> DvDot(e1, p), Edet |-> DTol(XTriK, DvDot(DvAbs(e1), pa), f),
        U |-> DvDot(tv, p), EU |-> DTol(XTriK, DvDot(DvAbs(tv), pa), f),
        V |-> DvDot(dir, q), EV |-> DTol(XTriK, DvDot(DvAbs(dir), qa), f),
        T |-> DvDot(e2, q), ET |-> DTol(XTriK, DvDot(DvAbs(e2), qa), f)]
\* inside the triangle?  sign-normalised by sg = sign(det): U' >= 0, V' >= 0, U' + V' <= |det|.
\* extra = additional uncertainty of the comparisons against det (roundings of the quotients / of the sum U + V)
XTriInside3(x, f) ==
    LET sg == DSign(x.det) ad == DAbs(x.det)
        U1 == IF sg < 0 THEN DNeg(x.U) ELSE x.U  V1 == IF sg < 0 THEN DNeg(x.V) ELSE x.V
        M == DAdd(DAdd(DAdd(x.Edet, x.EU), x.EV), DTol(2, DAdd(DAdd(ad, DAbs(x.U)), DAbs(x.V)), f))
    IN XAnd3({XPos3(U1, x.EU), XPos3(V1, x.EV), XPos3(DSub(DSub(ad, U1), V1), M), XPos3(DSub(ad, U1), M)})
XTriAhead3(x) == XPos3(IF DSign(x.det) < 0 THEN DNeg(x.T) ELSE x.T, x.ET)
\* w is the observed quotient W / det:   |w det - W| <= |w| E_det + E_W + 3 eps |W|
XTriQuot(w, W, EW, x, f) == DLe(DAbs(DSub(DMul(w, x.det), W)), DAdd(DAdd(DMul(DAbs(w), x.Edet), EW), DTol(3, DAbs(W), f)))
XTriPost(t, u, v, x, f) == XTriQuot(t, x.T, x.ET, x, f) /\ XTriQuot(u, x.U, x.EU, x, f) /\ XTriQuot(v, x.V, x.EV, x, f)
XTriDegenerate(x) == DLe(DAbs(x.det), x.Edet)
\* intersectLineTriangle refuses |det_float| < eps (absolute): band |det| <= 2 eps + E_det
XTriLineBand(x, f) == DLe(DAbs(x.det), DAdd(DMul2k(XEpsD(f), 1), x.Edet))

\* ---- sphere.  diff = c - o, t0 = diff.dir, q = |diff|^2, f(s) = s^2 - 2 t0 s + q - r2 (unit dir), disc = t0^2 - q + r2
\*   E_t0   = (L+2) eps sum|diff_i dir_i|
\*   E_disc = (2L+14) eps (q + r2)      ((1.5 L + 4.5) eps from the evaluation of dot(diff,diff) - t0*t0 and r2 - dSquared,
\*                                       8 eps (q + r2) because dir is a unit vector only to 8 eps)
\*   tau    = 4 eps: GLM reports a hit only for distances > eps (absolute); roots in (0, 4 eps] are free
XSph(o, dir, c, r2, f) ==
    LET diff == DvSub(c, o) t0 == DvDot(diff, dir) q == DvDot(diff, diff) L == Len(o) IN
    [t0 |-> t0, q |-> q, r2 |-> r2, disc |-> DAdd(DSub(DSq(t0), q), r2),
     Et0 |-> DTol(L + 2, DvDotAbs(diff, dir), f), Edisc |-> DTol(2 * L + 14, DAdd(q, r2), f), tau |-> DMul2k(XEpsD(f), 2)]
XSphF2(x, s) == DAdd(DSub(DSq(s), DMul2k(DMul(x.t0, s), 1)), DSub(x.q, x.r2))
\* error of f(s) for a given exact s: 2 |s| E_t0 + E_disc-like
XSphEf(x, s, f) == DAdd(DMul2k(DMul(DAbs(s), x.Et0), 1), x.Edisc)
\* hit of the ray.  GLM returns t0 - t1 when that exceeds eps, else t0 + t1, and reports a hit when the returned value exceeds eps:
\*   F: no real root, or origin outside and centre behind (both roots negative)
\*   T: both roots > tau (the near one is returned), or 0 strictly between the roots and the far one > tau (the far one is returned)
\*   U: everything else - tangency, origin on the surface (a root within [0, tau]), roots within a few eps of 0
XRaySphereWant(x, f) ==
    LET ftau == XPos3(XSphF2(x, x.tau), XSphEf(x, x.tau, f))                                                             \* f(tau) > 0 ?
        f0 == XPos3(DSub(x.q, x.r2), x.Edisc)                                                                            \* f(0) > 0 ? (origin outside)
        lineHit == XPos3(x.disc, x.Edisc)
        ahead == XPos3(DSub(x.t0, x.tau), x.Et0)                                                                         \* t0 > tau ?
        noneAhead == XAnd3({f0, XPos3(DNeg(x.t0), x.Et0)})
    IN IF lineHit = "F" \/ noneAhead = "T" THEN "F"
       ELSE IF lineHit = "T" /\ ((ftau = "T" /\ ahead = "T") \/ (f0 = "F" /\ ftau = "F")) THEN "T" ELSE "U"
\* which root must be returned: "near" when the smaller root is certainly > tau, "far" when it is certainly < 0
XRaySphereWhich(x, f) ==
    LET outside == XPos3(DSub(x.q, x.r2), x.Edisc)
        ftau == XPos3(XSphF2(x, x.tau), XSphEf(x, x.tau, f))
    IN IF ftau = "T" /\ XPos3(DSub(x.t0, x.tau), x.Et0) = "T" THEN "near" ELSE IF outside = "F" THEN "far" ELSE "any"
\* the returned distance s: positive, on the sphere, on the right side of t0.
\*   |f(s)| <= (3L+18) eps (q + r2 + s^2)      (E_disc, 2 t1 (E_t0 + eps |s|), sqrt: see notes)
XSphTolK(L) == 3 * L + 18
XRaySpherePost(s, x, L, f) ==
    LET which == XRaySphereWhich(x, f) tolT == DAdd(x.Et0, DTol(2, DAdd(DAbs(x.t0), DAbs(s)), f)) IN
    /\ DSign(s) > 0
    /\ DLe(DAbs(XSphF2(x, s)), DTol(XSphTolK(L), DAdd(DAdd(x.q, x.r2), DSq(s)), f))
    /\ (which = "near" => DLe(s, DAdd(x.t0, tolT)))
    /\ (which = "far" => DLe(DSub(x.t0, tolT), s))
\* position / normal overload: pos = o + dir s with s = (pos - o).dir recovered from the observed position
XSphPosS(pos, o, dir) == DvDot(DvSub(pos, o), dir)
XOnRayOk(pos, o, dir, s, f) ==
    LET sc == [i \in 1..Len(o) |-> DAdd(DAbs(o[i]), DAbs(DMul(s, dir[i])))]
        common == DAdd(DTol(8, DAbs(s), f), DTol(2, DvDot(sc, DvAbs(dir)), f))
    IN \A i \in 1..Len(o) : DLe(DAbs(DSub(DSub(pos[i], o[i]), DMul(s, dir[i]))), DAdd(DTol(2, sc[i], f), DMul(DAbs(dir[i]), common)))
\* | |pos - c|^2 - r2 | <= K eps (q + r2 + |pos - o|^2) + 2 eps sum |pos_i - c_i| (|o_i| + |pos_i - o_i|)
XOnSphereOk(pos, o, c, r2, q, K, f) ==
    LET w == DvSub(pos, o) pc == DvSub(pos, c)
    IN DLe(DAbs(DSub(DvDot(pc, pc), r2)),
           DAdd(DTol(K, DAdd(DAdd(q, r2), DvDot(w, w)), f), DTol(2, DvDot(DvAbs(pc), DvAdd(DvAbs(o), DvAbs(w))), f)))
\* normal = (pos - c) / r
XNormalOk(nrm, pos, c, r, f) == \A i \in 1..Len(pos) : DLe(DAbs(DSub(DMul(nrm[i], r), DSub(pos[i], c[i]))), DTol(2, DAbs(DSub(pos[i], c[i])), f))

\* ---- line / sphere through p0, p1 (d = p1 - p0 # 0, GLM normalises it):  D = (diff.d)^2 - |d|^2 (q - r2)
\*   E_D = (3L+20) eps |d|^2 (q + r2)
XLineSph(p0, p1, c, r, f) ==
    LET d == DvSub(p1, p0) diff == DvSub(c, p0) q == DvDot(diff, diff) dd == DvDot(d, d) r2 == DSq(r) L == Len(p0) IN
    [d |-> d, diff |-> diff, q |-> q, dd |-> dd, r2 |-> r2,
     D |-> DSub(DSq(DvDot(diff, d)), DMul(dd, DSub(q, r2))), ED |-> DTol(3 * L + 20, DMul(dd, DAdd(q, r2)), f)]
XLineSphereWant(x) == XPos3(x.D, x.ED)
\* pt on the line: (pt - p0) x d = 0 pairwise
XOnLineOk(pt, p0, d, f) ==
    LET w == DvSub(pt, p0) L == Len(pt) w1 == XNorm1(w) IN
    \A i \in 1..L : \A j \in (i + 1)..L :
       DLe(DAbs(DSub(DMul(w[i], d[j]), DMul(w[j], d[i]))),
           DAdd(DTol(2, DAdd(DMul(DAdd(DAbs(p0[i]), DAbs(w[i])), DAbs(d[j])), DMul(DAdd(DAbs(p0[j]), DAbs(w[j])), DAbs(d[i]))), f),
                DTol(L + 8, DMul(w1, DAdd(DAbs(d[i]), DAbs(d[j]))), f)))
\* the two points are symmetric about the foot of the perpendicular from the centre: (pt1 + pt2 - 2 c) . d = 0
XMidFootOk(pt1, pt2, p0, c, x, f) ==
    LET L == Len(pt1) m == DvSub(DvAdd(pt1, pt2), DvScale(c, DFromInt(2)))
        S == DMul(DAdd(DAdd(DAdd(XNorm1(p0), XNorm1(DvSub(pt1, p0))), XNorm1(DvSub(pt2, p0))), XNorm1(x.diff)), XNorm1(x.d))
    IN DLe(DAbs(DvDot(m, x.d)), DTol(L + 10, S, f))
XLineSpherePost(pt1, n1, pt2, n2, p0, c, r, x, f) ==
    LET K == 3 * Len(p0) + 24 IN
    /\ XOnLineOk(pt1, p0, x.d, f) /\ XOnLineOk(pt2, p0, x.d, f)
    /\ XOnSphereOk(pt1, p0, c, x.r2, x.q, K, f) /\ XOnSphereOk(pt2, p0, c, x.r2, x.q, K, f)
    /\ XNormalOk(n1, pt1, c, r, f) /\ XNormalOk(n2, pt2, c, r, f)
    /\ XMidFootOk(pt1, pt2, p0, c, x, f)

\* ---- vector queries, three-valued.  sq = exact squared quantity
\* isNull: length(v) <= e.  length carries (L/4 + 1) eps relative, in squares (L/2 + 2) eps; k = L + 4
XIsNull3(v, e, f) ==
    LET s == DvDot(v, v) e2 == DSq(e) k == Len(v) + 4 IN
    IF DSign(e) < 0 THEN "F"
    ELSE IF DLe(s, DMul(e2, XOneMinus(k, f))) THEN "T" ELSE IF DLt(DMul(e2, XOnePlus(k, f)), s) THEN "F" ELSE "U"
\* isNormalized: | length(v) - 1 | <= 2 e:  (1 - 2e)^2 <= |v|^2 <= (1 + 2e)^2 with the slack (L+4) eps max(|v|^2, 1)
XIsNormalized3(v, e, f) ==
    LET s == DvDot(v, v) two == DMul2k(e, 1) hi == DSq(DAdd(DUnit, two)) lo1 == DSub(DUnit, two)
        lo == IF DSign(lo1) > 0 THEN DSq(lo1) ELSE DZero
        sl == DTol(Len(v) + 4, DMax(s, DUnit), f)
    IN IF DSign(e) < 0 THEN "F"
       ELSE IF DLe(DAdd(lo, sl), s) /\ DLe(s, DSub(hi, sl)) THEN "T"
       ELSE IF DLt(s, DSub(lo, sl)) \/ DLt(DAdd(hi, sl), s) THEN "F" ELSE "U"
\* |dot(a,b)| <= thr (thr exact, >= 0): the dot product carries E_d = L eps sum|a_i b_i|
XDotLe3(a, b, thr, f) ==
    LET d == DAbs(DvDot(a, b)) E == DTol(Len(a), DvDotAbs(a, b), f) IN
    IF DLe(DAdd(d, E), thr) THEN "T" ELSE IF DLt(thr, DSub(d, E)) THEN "F" ELSE "U"
\* areOrthogonal: |dot| <= max(1,|a|) max(1,|b|) e, in squares; threshold relative uncertainty (L+6) eps (two lengths, two products)
XAreOrthogonal3(a, b, e, f) ==
    LET d == DAbs(DvDot(a, b)) E == DTol(Len(a), DvDotAbs(a, b), f) k == 2 * (Len(a) + 6)
        thr2 == DMul(DMul(DMax(DUnit, DvDot(a, a)), DMax(DUnit, DvDot(b, b))), DSq(e))
    IN IF DSign(e) < 0 THEN "F"
       ELSE IF DLe(DSq(DAdd(d, E)), DMul(thr2, XOneMinus(k, f))) THEN "T"
       ELSE IF DLt(E, d) /\ DLt(DMul(thr2, XOnePlus(k, f)), DSq(DSub(d, E))) THEN "F" ELSE "U"
XAreOrthonormal3(a, b, e, f) == XAnd3({XIsNormalized3(a, e, f), XIsNormalized3(b, e, f), IF DSign(e) < 0 THEN "F" ELSE XDotLe3(a, b, e, f)})
\* areCollinear: |a ^ b| < e.  The 2x2 minors m_ij = a_i b_j - a_j b_i are evaluated with error eps (|p1| + |p2|) each (k = 2),
\* the length with (L+4) eps relative in squares.  W = sum m_ij^2 over the index pairs P, EM1 = sum of the minor errors (>= their 2-norm)
XPairSeq(L) == IF L = 2 THEN << <<1, 2>> >> ELSE IF L = 3 THEN << <<1, 2>>, <<1, 3>>, <<2, 3>> >>
               ELSE << <<1, 2>>, <<1, 3>>, <<2, 3>>, <<1, 4>>, <<2, 4>>, <<3, 4>> >>
XPairs(L) == {XPairSeq(L)[k] : k \in 1..Len(XPairSeq(L))}
XMinor(a, b, p) == DSub(DMul(a[p[1]], b[p[2]]), DMul(a[p[2]], b[p[1]]))
XMinorAbs(a, b, p) == DAdd(DAbs(DMul(a[p[1]], b[p[2]])), DAbs(DMul(a[p[2]], b[p[1]])))
XWedgeD(a, b, P) == DSum([k \in 1..Len(P) |-> DSq(XMinor(a, b, P[k]))])
XWedgeErr(a, b, P, f) == DSum([k \in 1..Len(P) |-> DTol(2, XMinorAbs(a, b, P[k]), f)])
XCollinear3P(a, b, e, P, f) ==
    LET W == XWedgeD(a, b, P) EM == XWedgeErr(a, b, P, f) k == 7
        eT == DSub(DMul(e, XOneMinus(k, f)), EM) eF == DAdd(DMul(e, XOnePlus(k, f)), EM)
    IN IF DSign(e) <= 0 THEN "F"
       ELSE IF DSign(eT) > 0 /\ DLt(W, DSq(eT)) THEN "T" ELSE IF DLe(DSq(eF), W) THEN "F" ELSE "U"
XAreCollinear3(a, b, e, f) == XCollinear3P(a, b, e, XPairSeq(Len(a)), f)
\* what glm computes for vec4: the cross product of the xyz parts only
XAreCollinearXYZ3(a, b, e, f) == XCollinear3P(a, b, e, XPairSeq(3), f)
\* isCompNull: |v_i| < e, no rounding at all
XIsCompNullD(v, e) == [i \in 1..Len(v) |-> DLt(DAbs(v[i]), e)]

\* ---- normalizeDot: r sqrt(P) = d,  P = |x|^2 |y|^2, d = x.y ;  | |r| sqrt(P) - |d| | <= T = (2L+4) eps sum|x_i y_i|
\* (dot: (L/2) eps sum|..|; P: (L + 1/2) eps relative, halved by the root; 1/sqrt: eps; final product eps/2: (L + 1.75) eps in all)
XNormalizeDotOk(r, x, y, f) ==
    LET d == DvDot(x, y) ad == DAbs(d) P == DMul(DvDot(x, x), DvDot(y, y)) T == DTol(2 * Len(x) + 4, DvDotAbs(x, y), f) rp == DMul(DSq(r), P) IN
    /\ DLe(rp, DSq(DAdd(ad, T)))
    /\ (DLe(ad, T) \/ (DLe(DSq(DSub(ad, T)), rp) /\ DSign(r) = DSign(d)))

\* ---- handedness: (n x t) . b with the mixed-product bound of GlmGeom (k = 5)
XHand(t, b, n) == JMixed(n, t, b)
XHandErr(t, b, n, f) == DTol(5, JMixedAbs(n, t, b), f)

\* ---- sine / cosine enclosures for |r| <= 3.25, in 96-bit fixed point (the exact Horner form of GlmGeom.JCosNum costs seconds
\* per double).  With x = r^2, X = floor(x 2^P):  t_0 = 2^P, t_k = floor(floor(t_{k-1} X / 2^P) / ((2k-1) 2k))  (sine: / (2k (2k+1))),
\* cos ~ sum (-1)^k t_k / 2^P, sin ~ r sum (-1)^k u_k / 2^P.   Truncation: with T_k = x^k/(2k)! <= 6 the defect e_k = T_k 2^P - t_k obeys
\* e_k <= (x e_{k-1} + T_{k-1} + 1) / ((2k-1) 2k) + 1, i.e. 4.5, 5.5, 3.2, 1.7, 1.3, ... : the sum of all defects is < 32 units (cos)
\* and, multiplied by |r| <= 3.25, < 128 units (sin).  Taylor remainder (terms decrease from k = 2 on, so it is below the first
\* omitted term): 3.25^36/36!, 3.25^37/37! < 2^-70 (n = 17, double);  3.25^24/24!, 3.25^25/25! < 2^-38 (n = 11, float).
XFixP == 96
XFixOne == NShl(<<1>>, XFixP)
XFixX(r) == DFloor(DMul2k(DSq(r), XFixP)).m
RECURSIVE XFixSeries(_, _, _, _, _, _)
XFixSeries(X, k, n, term, acc, off) ==
    IF k > n \/ NIsZero(term) THEN acc
    ELSE LET t == NDivSmall(NShr(NMul(term, X), XFixP), (2 * k - 1 + off) * (2 * k + off))[1]
         IN XFixSeries(X, k + 1, n, t, IF k % 2 = 1 THEN ZSub(acc, ZMk(FALSE, t)) ELSE ZAdd(acc, ZMk(FALSE, t)), off)
XFixSum(r, f, off) == LET z == XFixSeries(XFixX(r), 1, JCosTerms(f), XFixOne, ZMk(FALSE, XFixOne), off) IN DMk(z.neg, z.m, -XFixP)
XCosD(r, f) == XFixSum(r, f, 0)
XSinD(r, f) == DMul(r, XFixSum(r, f, 1))
XTrigRange(r) == DLe(DAbs(r), DMk(FALSE, <<13>>, -2))                                      \* |r| <= 3.25
XTrigErr(f) == DAdd(JCosRem(f), DPow2(7 - XFixP))                                          \* | XCosD - cos |, | XSinD - sin | <= this
\* euclidean(lat, lon) = (cos lat sin lon, sin lat, cos lat cos lon).  libm sin / cos within 1 ulp (eps |value| <= eps), one product
\* (eps/2): 2.5 eps; k = 4, plus the enclosure errors (a product of two enclosures: 2 E + E^2 <= 3 E)
XEuclidTol(f) == DAdd(DTol(4, DUnit, f), DMulInt(XTrigErr(f), 3))
XEuclidOk(r, lat, lon, f) ==
    LET c1 == XCosD(lat, f) s1 == XSinD(lat, f) c2 == XCosD(lon, f) s2 == XSinD(lon, f) tol == XEuclidTol(f) IN
    /\ DNear(r[1], DMul(c1, s2), tol)
    /\ DNear(r[2], s1, tol)
    /\ DNear(r[3], DMul(c1, c2), tol)
\* polar(e) = (asin(y/|e|), atan(x/|e|, z/|e|), sqrt(tx^2 + tz^2)), judged through sin / cos of the returned angles:
\*   | sin(lat) - y/|e| | <= 8 eps        (quotient 3 eps, asin 1 ulp seen through sin: 1.6 eps), multiplied by |e| <= |e|_1 and squared
\*   | sin(lon) z - cos(lon) x | <= 8 eps (|x| + |z|), same half plane      (atan2 1 ulp <= pi eps, operands 1.5 eps)
\*   xz >= 0, | xz^2 |e|^2 - (x^2 + z^2) | <= 10 eps (x^2 + z^2)
XPiHalfUp == DMk(FALSE, NFromNat(3217), -11)                                               \* 1.57080078 > pi/2
XPolarLatOk(lat, e, f) ==
    LET sn == XSinD(lat, f) n2 == DvDot(e, e) y == DAbs(e[2])
        T == DMul(DAdd(DTol(8, DUnit, f), XTrigErr(f)), XNorm1(e))
        lhs == DMul(DSq(sn), n2) IN
    /\ DLe(DAbs(lat), XPiHalfUp)
    /\ DLe(lhs, DSq(DAdd(y, T)))
    /\ (DLe(y, T) \/ (DLe(DSq(DSub(y, T)), lhs) /\ DSign(sn) = DSign(e[2])))
XPolarLonOk(lon, e, f) ==
    LET h1 == DAdd(DAbs(e[1]), DAbs(e[3])) T == DMul(DAdd(DTol(8, DUnit, f), DMulInt(XTrigErr(f), 2)), h1) IN
    \/ (DIsZero(e[1]) /\ DIsZero(e[3]))
    \/ /\ XTrigRange(lon)
       /\ LET sn == XSinD(lon, f) cn == XCosD(lon, f) IN
          /\ DLe(DAbs(DSub(DMul(sn, e[3]), DMul(cn, e[1]))), T)
          /\ DLe(DNeg(T), DAdd(DMul(sn, e[1]), DMul(cn, e[3])))
XPolarXzOk(xz, e, f) ==
    LET h2 == DAdd(DSq(e[1]), DSq(e[3])) IN DSign(xz) >= 0 /\ DLe(DAbs(DSub(DMul(DSq(xz), DvDot(e, e)), h2)), DTol(10, h2, f))
XPolarOk(r, e, f) == XPolarLatOk(r[1], e, f) /\ XPolarLonOk(r[2], e, f) /\ XPolarXzOk(r[3], e, f)
\* round trip euclidean(polar(e).xy) = e / |e| away from the poles ((x^2 + z^2) >= |e|^2 / 16: tan(lat) < 4):
\*   unit within 32 eps, parallel to e within 32 eps |e|_1 per 2x2 minor, same sense
XPolarRTDom(e) == DLe(DvDot(e, e), DMulInt(DAdd(DSq(e[1]), DSq(e[3])), 16))
XPolarRTOk(rt, e, f) ==
    LET n1 == XNorm1(e) IN
    /\ DNear(DvDot(rt, rt), DUnit, DTol(32, DUnit, f))
    /\ \A p \in XPairs(3) : DLe(DAbs(XMinor(rt, e, p)), DTol(32, n1, f))
    /\ DSign(DvDot(rt, e)) > 0

\* ---- extend: r_i = O_i + (S_i - O_i) len: eps/2 (difference) + eps/2 (product) + eps/2 (sum); k = 3 on |O_i| + |S_i - O_i| |len|
XExtendD(O, S, len) == DvAdd(O, DvScale(DvSub(S, O), len))
XExtendFormulaOk(r, O, S, len, f) ==
    LET d == DvSub(S, O) IN \A i \in 1..Len(O) : DNearRel(r[i], DAdd(O[i], DMul(d[i], len)), 3, DAdd(DAbs(O[i]), DAbs(DMul(d[i], len))), f)
\* "a position at a defined length": | r - O |^2 = len^2 within (L+8) eps max(..) + the propagated formula error
XExtendAtLengthOk(r, O, len, f) ==
    LET w == DvSub(r, O) s == DvDot(w, w) l2 == DSq(len)
    IN DLe(DAbs(DSub(s, l2)), DAdd(DTol(Len(O) + 8, DMax(s, l2), f), DTol(8, DvDot(DvAbs(w), DvAdd(DvAbs(O), DvAbs(w))), f)))
=============================================================================
