-------------------------- MODULE GlmCommonTable --------------------------
(***************************************************************************)
(* Class-table form of the unary common functions (C11, engine E5).        *)
(* The per-value definitions of GlmCommon.tla quantify over exact dyadic   *)
(* values; to decide them on all 2^32 binary32 patterns the sweep needs a  *)
(* form that is a function of the pattern's class only.  A pattern         *)
(* (s, e, m) of a format with mb mantissa bits has                         *)
(*    k = KOf(e)  mantissa-field bits below the binary point               *)
(*        (0: an integer, inf or NaN; 1..mb: integer part and fraction;    *)
(*         mb + 1: |x| < 1, "all fraction"),                               *)
(* and the integer roundings depend only on four features of the pattern:  *)
(* the sign, whether the fraction is zero, how the fraction compares with  *)
(* one half, and the parity of the integer part.  RowApply is that table   *)
(* semantics on patterns; MC_C11T proves, on every pattern of the small    *)
(* formats and on the class-boundary patterns of binary32, that it denotes *)
(* exactly the definitions of GlmCommon.tla, and emits the table (KOf per  *)
(* exponent field, BumpRule per feature vector) that the 2^32 sweep of     *)
(* harness/c11sweep.cpp interprets.  Patterns the sweep rejects are judged *)
(* again by Trace_C11 against the definitions themselves.                  *)
(***************************************************************************)
EXTENDS GlmCommon

KOf(f, e) == IF e >= FBias(f) + f.mb THEN 0 ELSE IF e >= FBias(f) THEN f.mb - (e - FBias(f)) ELSE f.mb + 1

RoundOps == {"trunc", "floor", "ceil", "round", "roundEven"}
\* cmp: 0 = fraction below one half, 1 = exactly one half, 2 = above
BumpRule(op, s, fz, cmp, odd) ==
    CASE op = "trunc" -> FALSE
      [] op = "floor" -> s = 1 /\ ~fz
      [] op = "ceil"  -> s = 0 /\ ~fz
      [] op = "round" -> cmp >= 1
      [] op = "roundEven" -> cmp = 2 \/ (cmp = 1 /\ odd)

\* features of a finite pattern with 1 <= k <= mb + 1 (m as a natural number: mb <= 23 keeps it inside TLC's integers)
FeatFz(f, x, k) == LET m == NToNat(x.m) IN IF k <= f.mb THEN m % 2^k = 0 ELSE x.e = 0 /\ m = 0
FeatCmp(f, x, k) == LET m == NToNat(x.m) IN
                    IF k <= f.mb THEN (LET fr == m % 2^k h == 2^(k - 1) IN IF fr < h THEN 0 ELSE IF fr = h THEN 1 ELSE 2)
                    ELSE IF x.e = FBias(f) - 1 THEN (IF m = 0 THEN 1 ELSE 2) ELSE 0
FeatOdd(f, x, k) == LET m == NToNat(x.m) IN IF k = f.mb THEN TRUE ELSE IF k < f.mb THEN (m \div 2^k) % 2 = 1 ELSE FALSE

MagNat(f, x) == x.e * 2^f.mb + NToNat(x.m)
FromMagNat(f, s, g) == [s |-> s, e |-> g \div 2^f.mb, m |-> NFromNat(g % 2^f.mb)]

\* the pattern a rounding operation returns, by class
RowApply(f, op, x) ==
    LET k == KOf(f, x.e) IN
    IF x.e = FEMax(f) \/ k = 0 THEN x
    ELSE LET bump == BumpRule(op, x.s, FeatFz(f, x, k), FeatCmp(f, x, k), FeatOdd(f, x, k)) IN
         IF k <= f.mb THEN (LET t == MagNat(f, x) - (NToNat(x.m) % 2^k) IN FromMagNat(f, x.s, IF bump THEN t + 2^k ELSE t))
         ELSE IF bump THEN [s |-> x.s, e |-> FBias(f), m |-> << >>] ELSE FZero(f, x.s)

\* fract as the single correctly rounded subtraction x - floor(x)
RowFract(f, x) == FSub(f, x, RowApply(f, "floor", x))
\* modf: integer part by truncation, fraction exactly x - trunc(x) with the sign of x
RowModfI(f, x) == RowApply(f, "trunc", x)
RowModfF(f, x) == FSub(f, x, RowApply(f, "trunc", x))
RowAbs(f, x) == [x EXCEPT !.s = 0]
RowSign(f, x) == IF IsZero(f, x) THEN FZero(f, 0) ELSE [s |-> x.s, e |-> FBias(f), m |-> << >>]
\* frexp: significand in [1/2, 1) with the exponent field FBias - 1, exponent as an integer
RowFrexpM(f, x) ==
    IF IsZero(f, x) THEN x
    ELSE IF x.e > 0 THEN [x EXCEPT !.e = FBias(f) - 1]
    ELSE LET b == NBitLen(x.m) IN [s |-> x.s, e |-> FBias(f) - 1, m |-> NLowBits(NShl(x.m, f.mb + 1 - b), f.mb)]
RowFrexpE(f, x) == IF IsZero(f, x) THEN 0 ELSE IF x.e > 0 THEN x.e - FBias(f) + 1 ELSE FEmin(f) - f.mb + NBitLen(x.m)
\* iround / uround on x >= 0: the set of acceptable integers, as naturals (only used where they fit)
RowNearestSet(f, x) ==
    LET k == KOf(f, x.e) IN
    IF k = 0 THEN {DFloor(Val(f, x))}
    ELSE LET t == DFloor(Val(f, x)) c == FeatCmp(f, x, k) IN
         IF c = 0 THEN {t} ELSE IF c = 2 THEN {ZAdd(t, ZFromInt(1))} ELSE {t, ZAdd(t, ZFromInt(1))}
=============================================================================
