---------------------------- MODULE GlmPacking ----------------------------
(***************************************************************************)
(* Pack / unpack formats of glm/packing.hpp and glm/gtc/packing.hpp (C06). *)
(* A format is a word width and a list of fields [off, w, kind, scale];    *)
(* component i of the vector lives in field i, the first component in the  *)
(* least significant bits.  Decode gives the exact rational a code denotes;*)
(* AcceptCode says which codes are acceptable encodings of a real input.   *)
(*   kinds: "unorm"  code / scale                                          *)
(*          "snorm"  max(signed code / scale, -1)                          *)
(*          "uint" / "sint"  the integer itself (bit-field copy)           *)
(*          "half"   binary16 (GlmHalf)                                    *)
(*          "sf"     unsigned small float, 5 exponent bits, w-5 mantissa   *)
(*                   bits: 0 for code 0, 2^(e-15) (1 + m/2^mb) otherwise   *)
(*                   (GLM's convention also for e = 0), e = 31 is Inf/NaN  *)
(***************************************************************************)
EXTENDS GlmHalf

Fld(off, w, kind, scale) == [off |-> off, w |-> w, kind |-> kind, scale |-> scale]
RECURSIVE Rep(_, _, _, _, _)
Rep(n, i, w, kind, scale) == IF i = n THEN << >> ELSE <<Fld(i * w, w, kind, scale)>> \o Rep(n, i + 1, w, kind, scale)
Uniform(n, w, kind, scale) == Rep(n, 0, w, kind, scale)

Formats ==
  [ Unorm2x16 |-> Uniform(2, 16, "unorm", 65535), Snorm2x16 |-> Uniform(2, 16, "snorm", 32767),
    Unorm4x8  |-> Uniform(4, 8, "unorm", 255),    Snorm4x8  |-> Uniform(4, 8, "snorm", 127),
    Unorm1x8  |-> Uniform(1, 8, "unorm", 255),    Unorm2x8  |-> Uniform(2, 8, "unorm", 255),
    Snorm1x8  |-> Uniform(1, 8, "snorm", 127),    Snorm2x8  |-> Uniform(2, 8, "snorm", 127),
    Unorm1x16 |-> Uniform(1, 16, "unorm", 65535), Unorm4x16 |-> Uniform(4, 16, "unorm", 65535),
    Snorm1x16 |-> Uniform(1, 16, "snorm", 32767), Snorm4x16 |-> Uniform(4, 16, "snorm", 32767),
    I3x10_1x2 |-> <<Fld(0, 10, "sint", 1), Fld(10, 10, "sint", 1), Fld(20, 10, "sint", 1), Fld(30, 2, "sint", 1)>>,
    U3x10_1x2 |-> <<Fld(0, 10, "uint", 1), Fld(10, 10, "uint", 1), Fld(20, 10, "uint", 1), Fld(30, 2, "uint", 1)>>,
    Snorm3x10_1x2 |-> <<Fld(0, 10, "snorm", 511), Fld(10, 10, "snorm", 511), Fld(20, 10, "snorm", 511), Fld(30, 2, "snorm", 1)>>,
    Unorm3x10_1x2 |-> <<Fld(0, 10, "unorm", 1023), Fld(10, 10, "unorm", 1023), Fld(20, 10, "unorm", 1023), Fld(30, 2, "unorm", 3)>>,
    F2x11_1x10 |-> <<Fld(0, 11, "sf", 1), Fld(11, 11, "sf", 1), Fld(22, 10, "sf", 1)>>,
    Unorm2x4 |-> Uniform(2, 4, "unorm", 15), Unorm4x4 |-> Uniform(4, 4, "unorm", 15),
    Unorm1x5_1x6_1x5 |-> <<Fld(0, 5, "unorm", 31), Fld(5, 6, "unorm", 63), Fld(11, 5, "unorm", 31)>>,
    Unorm3x5_1x1 |-> <<Fld(0, 5, "unorm", 31), Fld(5, 5, "unorm", 31), Fld(10, 5, "unorm", 31), Fld(15, 1, "unorm", 1)>>,
    Unorm2x3_1x2 |-> <<Fld(0, 3, "unorm", 7), Fld(3, 3, "unorm", 7), Fld(6, 2, "unorm", 3)>>,
    Int2x8 |-> Uniform(2, 8, "sint", 1), Uint2x8 |-> Uniform(2, 8, "uint", 1), Int4x8 |-> Uniform(4, 8, "sint", 1), Uint4x8 |-> Uniform(4, 8, "uint", 1),
    Int2x16 |-> Uniform(2, 16, "sint", 1), Uint2x16 |-> Uniform(2, 16, "uint", 1), Int4x16 |-> Uniform(4, 16, "sint", 1), Uint4x16 |-> Uniform(4, 16, "uint", 1),
    Int2x32 |-> Uniform(2, 32, "sint", 1), Uint2x32 |-> Uniform(2, 32, "uint", 1), Double2x32 |-> Uniform(2, 32, "uint", 1),
    \* templated packUnorm<uintN> / packSnorm<intN> on vectors: one field per component, each in its own word
    Half1x16 |-> Uniform(1, 16, "half", 1), Half2x16 |-> Uniform(2, 16, "half", 1), Half4x16 |-> Uniform(4, 16, "half", 1),
    TUnorm8 |-> Uniform(1, 8, "unorm", 255), TUnorm16 |-> Uniform(1, 16, "unorm", 65535),
    TSnorm8 |-> Uniform(1, 8, "snorm", 127), TSnorm16 |-> Uniform(1, 16, "snorm", 32767) ]

\* code of a field inside a packed word (a magnitude), as a native integer (fields are at most 32 bits: use BigInt then ToNat for <= 30)
FieldCodeN(word, fld) == NLowBits(NShr(word, fld.off), fld.w)
SignedOf(codeN, w) == WToZ(w, TRUE, codeN)

\* exact value denoted by a code of a normalised field
DecodeNorm(fld, codeN) ==
    IF fld.kind = "unorm" THEN QMk(ZMk(FALSE, codeN), NFromNat(fld.scale))
    ELSE LET z == SignedOf(codeN, fld.w) q == QMk(z, NFromNat(fld.scale)) IN QMax(q, QFromInt(-1))
CanonicalNorm(fld, codeN) == fld.kind = "unorm" \/ ~ZEq(SignedOf(codeN, fld.w), ZMk(TRUE, NShl(<<1>>, fld.w - 1)))

\* is the code an acceptable packing of the real x (a rational) ?  round(clamp(x) * scale), ties either way,
\* widened by the rounding of the float product: slack = scale * 2^-22 (2^-51 for double inputs)
AcceptNorm(fld, codeN, x, slackExp) ==
    LET lo == IF fld.kind = "unorm" THEN QZero ELSE QFromInt(-1)
        t  == QMulInt(QMin(QMax(x, lo), QOne), fld.scale)
        c  == IF fld.kind = "unorm" THEN QMk(ZMk(FALSE, codeN), <<1>>) ELSE QMk(SignedOf(codeN, fld.w), <<1>>)
        tol == QAdd(QFromInts(1, 2), QMulInt(QFromD(DPow2(slackExp)), fld.scale))
    IN QNear(t, c, tol)

\* unsigned small floats (11 and 10 bits)
SfMb(fld) == fld.w - 5
SfE(fld, code) == code \div 2^SfMb(fld)
SfM(fld, code) == code % 2^SfMb(fld)
SfIsInf(fld, code) == SfE(fld, code) = 31 /\ SfM(fld, code) = 0
SfIsNaN(fld, code) == SfE(fld, code) = 31 /\ SfM(fld, code) # 0
SfDecode(fld, code) ==                      \* finite codes; exact dyadic
    IF code = 0 THEN DZero ELSE DMk(FALSE, NFromNat(2^SfMb(fld) + SfM(fld, code)), SfE(fld, code) - 15 - SfMb(fld))
SfMaxCode(fld) == 31 * 2^SfMb(fld) - 1
SfMinPos(fld) == SfDecode(fld, 1)
\* acceptable code for the real (dyadic) input x:  within one mantissa step; out-of-range inputs clamp to the nearest end
AcceptSf(fld, code, x) ==
    IF DSign(x) <= 0 THEN code = 0
    ELSE IF DLt(x, SfMinPos(fld)) THEN code \in {0, 1}
    ELSE IF DLt(SfDecode(fld, SfMaxCode(fld)), x) THEN code = SfMaxCode(fld)
    ELSE /\ ~SfIsInf(fld, code) /\ ~SfIsNaN(fld, code) /\ code # 0
         /\ LET v == SfDecode(fld, code) step == DPow2(SfE(fld, code) - 15 - SfMb(fld))
            IN DLe(DAbs(DSub(x, v)), step)

\* shared-exponent format F3x9_E1x5:  component = m * 2^(E - 15 - 9)
SharedMaxD == DMk(FALSE, NFromNat(511), 7)                  \* 511/512 * 2^16 = 65408
=============================================================================
