----------------------------- MODULE GlmMatrix -----------------------------
(***************************************************************************)
(* Column-major linear algebra of the matrix operators and functions (C02) *)
(* over exact rationals (LinQ), for every element type: floating values    *)
(* are decoded to their exact dyadic value, integer values to exact        *)
(* integers; integer results are compared modulo 2^W.                      *)
(***************************************************************************)
EXTENDS LinQ

\* element value of a logged component as a rational
ElemQ(t, w) == IF TypeIsFloat(t) THEN QW(w) ELSE QMk(WToZ(TypeW(t), TypeSigned(t), WFromLimbs(w)), <<1>>)
ElemSeq(t, ws) == [i \in 1..Len(ws) |-> ElemQ(t, ws[i])]
MatOf(t, C, R, ws) == Mat(C, R, ElemSeq(t, ws))

\* conversion constructor mat<C,R>(mat<C2,R2>): copy the overlapping block, pad with the identity
Convert(C, R, src) == MFromFn(C, R, LAMBDA c, r : IF c <= src.c /\ r <= src.r THEN MAt(src, c, r) ELSE IF c = r THEN QOne ELSE QZero)
\* gtc/matrix_access
RowSet(m, i, x) == MFromFn(m.c, m.r, LAMBDA c, r : IF r = i THEN x[c] ELSE MAt(m, c, r))
ColSet(m, i, x) == MFromFn(m.c, m.r, LAMBDA c, r : IF c = i THEN x[r] ELSE MAt(m, c, r))
\* gtx/matrix_major_storage
RowMajorV(vs) == MFromFn(Len(vs), Len(vs), LAMBDA c, r : vs[r][c])
ColMajorV(vs) == MFromFn(Len(vs), Len(vs), LAMBDA c, r : vs[c][r])
\* gtx/matrix_cross_product: the matrix of  y |-> cross(x, y) ... as GLM defines it (Result[0][1] = x.z ...)
MatrixCross(n, x) == MFromFn(n, n, LAMBDA c, r :
    CASE c = 1 /\ r = 2 -> x[3] [] c = 2 /\ r = 1 -> QNeg(x[3]) [] c = 1 /\ r = 3 -> QNeg(x[2]) [] c = 3 /\ r = 1 -> x[2]
      [] c = 2 /\ r = 3 -> x[1] [] c = 3 /\ r = 2 -> QNeg(x[1]) [] OTHER -> QZero)

\* truncating integer division (C++), b # 0
ZTruncDivQ(a, b) == LET q == ZFloorDiv(ZAbs(a.p), ZAbs(b.p)) IN QMk(IF ZSign(a.p) * ZSign(b.p) < 0 THEN ZNeg(q) ELSE q, <<1>>)
IsIntQ(q) == q.q = <<1>>
=============================================================================
