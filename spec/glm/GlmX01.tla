------------------------------ MODULE GlmX01 -------------------------------
(***************************************************************************)
(* Stage X01 (attached to property C01): component-wise reductions,        *)
(* ranges, hashing and small numeric helpers.                              *)
(*   gtx/component_wise.hpp   compAdd compMul compMin compMax fcompMin     *)
(*                            fcompMax compNormalize compScale             *)
(*   gtx/common.hpp           isdenormal fmod openBounded closeBounded     *)
(*   gtx/hash.hpp             std::hash of vec / mat / qua / dualquat      *)
(*   gtx/scalar_multiplication.hpp  (int | uint | long | double) * / vec,mat*)
(*   gtx/range.hpp            components begin end (range-for)             *)
(*   gtx/number_precision.hpp gtx/raw_data.hpp gtx/std_based_type.hpp      *)
(*                            typedef tables                               *)
(*   gtx/exterior_product.hpp cross(vec2, vec2)                            *)
(*   gtx/mixed_product.hpp    mixedProduct                                 *)
(*   gtx/normal.hpp           triangleNormal                               *)
(*                                                                         *)
(* Integers are exact signed BigInts (ZAdd ..), machine words W-bit magnitudes*)
(* (Words), floats exact dyadics (Exact DAdd ..) decoded from the bit pattern.  *)
(* All operators of this stage carry the prefix Xa.                        *)
(***************************************************************************)
EXTENDS GlmGeom

----------------------------------------------------------------------------
(* 1. integer reductions.  zs = sequence of signed BigInts (the components read in their own signedness) *)
XaIdx(s) == 1..Len(s)
XaSubsets(L) == (SUBSET (1..L)) \ {{}}
RECURSIVE XaZSumOver(_, _)
XaZSumOver(zs, S) == IF S = {} THEN Zero ELSE LET i == CHOOSE j \in S : TRUE IN ZAdd(zs[i], XaZSumOver(zs, S \ {i}))
RECURSIVE XaZProdOver(_, _)
XaZProdOver(zs, S) == IF S = {} THEN ZFromInt(1) ELSE LET i == CHOOSE j \in S : TRUE IN ZMul(zs[i], XaZProdOver(zs, S \ {i}))
XaZSum(zs) == XaZSumOver(zs, XaIdx(zs))
XaZProd(zs) == XaZProdOver(zs, XaIdx(zs))
\* the mathematical sum / product of the components is what "add / multiply all components together" means.  A W-bit unsigned
\* type computes modulo 2^W; for a signed type every partial result - in whatever order the components are combined - must be
\* representable, otherwise the call is outside the domain (signed overflow)
XaAddDom(W, sg, zs) == sg => \A S \in XaSubsets(Len(zs)) : ZInRange(W, TRUE, XaZSumOver(zs, S))
XaMulDom(W, sg, zs) == sg => \A S \in XaSubsets(Len(zs)) : ZInRange(W, TRUE, XaZProdOver(zs, S))
XaAddWord(W, zs) == WFromZ(W, XaZSum(zs))                                  \* the result word (a magnitude below 2^W)
XaMulWord(W, zs) == WFromZ(W, XaZProd(zs))
\* the implementation's fold, for the model: Result = 0; Result += v[i]  on W-bit words
RECURSIVE XaFoldAddW(_, _, _)
XaFoldAddW(W, ws, i) == IF i = 0 THEN << >> ELSE WAdd(W, XaFoldAddW(W, ws, i - 1), ws[i])
RECURSIVE XaFoldMulW(_, _, _)
XaFoldMulW(W, ws, i) == IF i = 0 THEN <<1>> ELSE WMul(W, XaFoldMulW(W, ws, i - 1), ws[i])
XaIsMinZ(r, zs) == (\E i \in XaIdx(zs) : ZEq(r, zs[i])) /\ \A i \in XaIdx(zs) : ZLe(r, zs[i])
XaIsMaxZ(r, zs) == (\E i \in XaIdx(zs) : ZEq(r, zs[i])) /\ \A i \in XaIdx(zs) : ZLe(zs[i], r)

----------------------------------------------------------------------------
(* 2. floating reductions.  xs = sequence of field records of format f, r = field record of the result.
      u = eps / 2 is the unit roundoff.  A sum of L terms costs L - 1 roundings (the first addition 0 + v[0] is exact),
      each at most u times a partial sum, itself at most (1 + u)^k A with A = sum |v_i|: the error is below
      ((1 + u)^(L-1) - 1) A < (L - 1/2) u A, whatever the order of the additions.  L = 1: exact.  L = 2: one rounding, the
      result is THE correctly rounded sum.  Whenever every partial sum over every subset of the components is representable
      no addition rounds in any order and the result is exact.  The same for products with A replaced by |P|. *)
XaVals(f, xs) == [i \in XaIdx(xs) |-> Val(f, xs[i])]
XaAllFinite(f, xs) == \A i \in XaIdx(xs) : IsFinite(f, xs[i])
XaAnyNaN(f, xs) == \E i \in XaIdx(xs) : IsNaN(f, xs[i])
XaHasInf(f, xs, s) == \E i \in XaIdx(xs) : IsInf(f, xs[i]) /\ xs[i].s = s
XaFiniteVals(f, xs) == [i \in XaIdx(xs) |-> IF IsFinite(f, xs[i]) THEN Val(f, xs[i]) ELSE DZero]
XaAbsSum(ds) == DSum([i \in XaIdx(ds) |-> DAbs(ds[i])])
RECURSIVE XaDSumOver(_, _)
XaDSumOver(ds, S) == IF S = {} THEN DZero ELSE LET i == CHOOSE j \in S : TRUE IN DAdd(ds[i], XaDSumOver(ds, S \ {i}))
RECURSIVE XaDProdOver(_, _)
XaDProdOver(ds, S) == IF S = {} THEN DUnit ELSE LET i == CHOOSE j \in S : TRUE IN DMul(ds[i], XaDProdOver(ds, S \ {i}))
XaHalfTol(k2, scale, f) == DMul2k(DMulInt(scale, k2), -f.mb - 2)              \* (k2 / 4) eps scale = (k2 / 2) u scale
\* no overflow in any order: sum |v_i| < 2^emax (half the largest finite value)
XaAddRange(f, ds) == LET A == XaAbsSum(ds) IN DIsZero(A) \/ DTopExp(A) < FBias(f)
XaFAddFinite(f, ds, r) ==
    LET L == Len(ds) S == DSum(ds) A == XaAbsSum(ds) IN
    /\ IsFinite(f, r)
    /\ CASE L = 1 -> DEq(Val(f, r), S)
         [] L = 2 -> IsRNED(f, r, S)
         [] OTHER -> DLe(DAbs(DSub(Val(f, r), S)), XaHalfTol(2 * L - 1, A, f))
    /\ (\A T \in XaSubsets(L) : IsRepresentable(f, XaDSumOver(ds, T))) => DEq(Val(f, r), S)
\* xs all finite or infinite, no NaN
XaFAddOk(f, xs, r) ==
    IF XaAnyNaN(f, xs) \/ (XaHasInf(f, xs, 0) /\ XaHasInf(f, xs, 1)) THEN IsNaN(f, r)
    ELSE IF XaHasInf(f, xs, 0) THEN IsInf(f, r) /\ r.s = 0
    ELSE IF XaHasInf(f, xs, 1) THEN IsInf(f, r) /\ r.s = 1
    ELSE XaFAddFinite(f, XaVals(f, xs), r)
\* products: every non-zero factor within 2^-lim .. 2^lim keeps every partial product normal (4 lim < emax)
XaMulLim(f) == IF f.eb <= 5 THEN 1 ELSE 30                             \* (the 8-bit model format: factors in [1/2, 2))
XaMulRange(f, ds) == \A i \in XaIdx(ds) : DIsZero(ds[i]) \/ (DTopExp(ds[i]) >= -XaMulLim(f) /\ DTopExp(ds[i]) < XaMulLim(f))
XaFMulFinite(f, ds, r) ==
    LET L == Len(ds) P == XaDProdOver(ds, 1..L) IN
    /\ IsFinite(f, r)
    /\ CASE L = 1 -> DEq(Val(f, r), P)
         [] L = 2 -> IsRNED(f, r, P)
         [] OTHER -> DLe(DAbs(DSub(Val(f, r), P)), XaHalfTol(2 * L - 1, DAbs(P), f))
    /\ (\A T \in XaSubsets(L) : IsRepresentable(f, XaDProdOver(ds, T))) => DEq(Val(f, r), P)
\* minimum / maximum: the result is, bit for bit, one of the components and no component is smaller / larger (by value: -0 = +0)
XaSameBits(a, b) == a.s = b.s /\ a.e = b.e /\ a.m = b.m
XaIsMinF(f, r, xs, I) == (\E i \in I : XaSameBits(r, xs[i])) /\ \A i \in I : DLe(Val(f, r), Val(f, xs[i]))
XaIsMaxF(f, r, xs, I) == (\E i \in I : XaSameBits(r, xs[i])) /\ \A i \in I : DLe(Val(f, xs[i]), Val(f, r))
XaInfAsBig(f, x) == IF IsInf(f, x) THEN DMk(x.s = 1, <<1>>, FEMax(f)) ELSE Val(f, x)          \* order-preserving stand-in for +-inf
XaIsMinFI(f, r, xs, I) == (\E i \in I : XaSameBits(r, xs[i])) /\ \A i \in I : DLe(XaInfAsBig(f, r), XaInfAsBig(f, xs[i]))
XaIsMaxFI(f, r, xs, I) == (\E i \in I : XaSameBits(r, xs[i])) /\ \A i \in I : DLe(XaInfAsBig(f, xs[i]), XaInfAsBig(f, r))
\* fcompMin / fcompMax fold fmin / fmax ("if one of the two arguments is NaN, the value of the other argument is returned"):
\* the extreme of the non-NaN components; NaN only when every component is NaN
XaNonNaN(f, xs) == {i \in XaIdx(xs) : ~IsNaN(f, xs[i])}
XaFCompMinOk(f, r, xs) == IF XaNonNaN(f, xs) = {} THEN IsNaN(f, r) ELSE ~IsNaN(f, r) /\ XaIsMinFI(f, r, xs, XaNonNaN(f, xs))
XaFCompMaxOk(f, r, xs) == IF XaNonNaN(f, xs) = {} THEN IsNaN(f, r) ELSE ~IsNaN(f, r) /\ XaIsMaxFI(f, r, xs, XaNonNaN(f, xs))
XaIsSNaN(f, x) == IsNaN(f, x) /\ NBit(x.m, f.mb - 1) = 0

----------------------------------------------------------------------------
(* 3. compNormalize / compScale.  A W-bit integer type has Min = 0 / -2^(W-1), Max = 2^W - 1 / 2^(W-1) - 1.
      compNormalize maps the integer range affinely onto [0, 1] (unsigned) resp. [-1, 1] (signed: Min -> -1, Max -> 1):
          N(v) = v / Max                              unsigned
          N(v) = 2 (v - Min) / (Max - Min) - 1 = (2 v + 1) / (2 Max + 1)      signed
      compScale is the conversion in the other direction, the affine inverse followed by a conversion to the integer type:
          S(x) = x Max                                unsigned
          S(x) = x (Max + 1/2) - 1/2                  signed          S(N(v)) = v exactly. *)
XaTMaxZ(W, sg) == IF sg THEN ZSub(ZMk(FALSE, NShl(<<1>>, W - 1)), ZFromInt(1)) ELSE ZMk(FALSE, AllOnes(W))
XaTMinZ(W, sg) == IF sg THEN ZMk(TRUE, NShl(<<1>>, W - 1)) ELSE Zero
XaQZ(z) == QMk(z, <<1>>)
XaNormQ(W, sg, z) == IF sg THEN QMk(ZAdd(ZMulInt(z, 2), ZFromInt(1)), ZAdd(ZMulInt(XaTMaxZ(W, sg), 2), ZFromInt(1)).m)
                     ELSE QMk(z, XaTMaxZ(W, sg).m)
XaScaleQ(W, sg, x) == IF sg THEN QSub(QMul(x, QMk(ZAdd(ZMulInt(XaTMaxZ(W, sg), 2), ZFromInt(1)), <<2>>)), QFromInts(1, 2))
                      ELSE QMul(x, XaQZ(XaTMaxZ(W, sg)))
XaQEps(f) == QFromD(Eps(f))
\* the observed normalised component n (a dyadic) of the integer z.
\*   unsigned: conversion of v and of Max (u each, exact for W <= mantissa), one division (u): relative 3u on a value <= 1: 2 eps
\*   signed:   v, Min, Max converted (absolute error u 2^(W-1) each), v - Min and Max - Min rounded (u 2^W each), the quotient t in
\*             [0, 1] carries at most 4u absolute + u of the division; 2t - 1: 10u + u: 5.5 eps: 6 eps
\* and the result lies in the normalised range itself (the quotient of two rounded numbers num <= den is <= 1)
XaNormK(sg) == IF sg THEN 6 ELSE 2
XaNormOkQ(f, W, sg, z, n) ==
    LET nq == QFromD(n) IN
    /\ QLe(nq, QOne) /\ QLe(IF sg THEN QFromInt(-1) ELSE QZero, nq)
    /\ QNear(nq, XaNormQ(W, sg, z), QMulInt(XaQEps(f), XaNormK(sg)))
\* the same, division-free in dyadic arithmetic (what the trace specification evaluates; MC_X01 checks the agreement):
\*   | n den - num | <= k eps den      with N(v) = num / den
XaNormNum(sg, z) == IF sg THEN ZAdd(ZMulInt(z, 2), ZFromInt(1)) ELSE z
XaNormDen(W, sg) == IF sg THEN ZAdd(ZMulInt(XaTMaxZ(W, sg), 2), ZFromInt(1)) ELSE XaTMaxZ(W, sg)
XaNormOk(f, W, sg, z, n) ==
    LET den == DFromZ(XaNormDen(W, sg)) IN
    /\ DLe(n, DUnit) /\ DLe(IF sg THEN DFromInt(-1) ELSE DZero, n)
    /\ DLe(DAbs(DSub(DMul(n, den), DFromZ(XaNormNum(sg, z)))), DTol(XaNormK(sg), den, f))
\* domain of compScale: a normalised value
XaScaleDom(sg, x) == DLe(x, DUnit) /\ DLe(IF sg THEN DFromInt(-1) ELSE DZero, x)
\* the integer rz returned for the normalised dyadic x: the documentation does not say how the real number S(x) is made an
\* integer (the code truncates), so any integer within less than one unit of S(x) is accepted, plus the rounding of the
\* floating evaluation: Max converted (u), one product (u), for signed types Max + 0.5 and the subtraction (2u): 2 eps 2^W
\* (this term is below 1/64 when the type has at least 8 bits less than the mantissa)
XaScaleSlack(f, W) == QMul(QMulInt(XaQEps(f), 2), XaQZ(ZMk(FALSE, NShl(<<1>>, W))))
XaScaleOk(f, W, sg, x, rz) == QLt(QAbs(QSub(XaQZ(rz), XaScaleQ(W, sg, QFromD(x)))), QAdd(QOne, XaScaleSlack(f, W)))
\* the float evaluation of S(x) can reach 2^W (unsigned) / 2^(W-1) (signed) when Max is not representable in the floating
\* type: the conversion to the integer type then overflows.  XaScaleTop: x is that close to 1
XaScaleTop(f, W, sg, x) == LET lim == XaQZ(ZMk(FALSE, NShl(<<1>>, IF sg THEN W - 1 ELSE W)))
                           IN QLe(QSub(lim, QAdd(QOne, XaScaleSlack(f, W))), XaScaleQ(W, sg, QFromD(x)))
\* round trip: compScale(compNormalize(v)) = v.  Demanded exactly when the floating type resolves the integer type with
\* 3 bits to spare (W + 3 <= mantissa bits); otherwise within the resolution
XaRTExact(f, W) == W + 3 <= f.mb + 1
XaRTOk(f, W, z, rz) == IF XaRTExact(f, W) THEN ZEq(rz, z)
                       ELSE ZLe(ZAbs(ZSub(rz, z)), ZMk(FALSE, NShl(<<1>>, W + 3 - f.mb)))
\* the pinned deviation of the signed compScale: the truncation sits exactly on the image of compNormalize, so a rounding
\* error in the last place moves the result by one towards zero
XaRTOffTowardZero(z, rz) == ~ZIsZero(z) /\ ZEq(rz, ZSub(z, ZFromInt(ZSign(z))))

----------------------------------------------------------------------------
(* 4. hash_combine:  seed ^= hash + 0x9e3779b9 + (seed << 6) + (seed >> 2)   on W-bit words (size_t: W = 64) *)
XaGolden == NFromLimbs16(<<31161, 40503>>)                                      \* 0x9e3779b9
XaCombine(W, seed, h) == WXor(W, seed, WAdd(W, WAdd(W, WAdd(W, h, NLowBits(XaGolden, W)), WShl(W, seed, 6)), WShr(W, seed, 2)))
RECURSIVE XaHashFold(_, _, _)
XaHashFold(W, hs, i) == IF i = 0 THEN << >> ELSE XaCombine(W, XaHashFold(W, hs, i - 1), hs[i])       \* seed = 0, then hs[1], hs[2], ...
XaHashSeq(W, hs) == XaHashFold(W, hs, Len(hs))
\* vec1: the hash of the component itself; vec2..4: the fold of the component hashes in index order
XaHashVec(W, hs) == IF Len(hs) = 1 THEN hs[1] ELSE XaHashSeq(W, hs)
\* quaternion, logged as <<w, x, y, z>>: combined in the order x, y, z, w
XaHashQua(W, hs) == XaHashSeq(W, <<hs[2], hs[3], hs[4], hs[1]>>)
\* matrix C x R (column major): the fold of the vecR hashes of the columns
XaHashMat(W, C, R, hs) == XaHashSeq(W, [c \in 1..C |-> XaHashVec(W, SubSeq(hs, (c - 1) * R + 1, c * R))])
\* dual quaternion logged as real <<w,x,y,z>> then dual <<w,x,y,z>>
XaHashDq(W, hs) == XaHashSeq(W, <<XaHashQua(W, SubSeq(hs, 1, 4)), XaHashQua(W, SubSeq(hs, 5, 8))>>)

----------------------------------------------------------------------------
(* 5. gtx/common *)
XaIsDenormal(f, x) == x.e = 0 /\ ~NIsZero(x.m)
\* C fmod on finite x, y # 0: the r with the sign of x, |r| < |y| and x - r an integer multiple of y = x - y trunc(x / y).
\* Exact: with both operands on the common quantum 2^e, |r| = (|x| / 2^e mod |y| / 2^e) 2^e
XaFmodD(x, y) == LET e == IF DIsZero(x) THEN y.e ELSE IF x.e < y.e THEN x.e ELSE y.e
                     X == IF DIsZero(x) THEN << >> ELSE NShl(x.m, x.e - e)
                     Y == NShl(y.m, y.e - e)
                 IN DMk(x.neg, NDivMod(X, Y)[2], e)
\* the characterisation, used by the model to validate XaFmodD (q = (x - r) / y)
XaIsFmodQ(x, y, r) == LET q == QDiv(QSub(x, r), y) IN
                      /\ (QIsZero(r) \/ QSign(r) = QSign(x)) /\ QLt(QAbs(r), QAbs(y))
                      /\ QEq(XaQZ(QFloor(q)), q)
XaTruncQ(q) == IF QSign(q) >= 0 THEN QFloor(q) ELSE ZNeg(QFloor(QNeg(q)))
\* exponent gap beyond which the exact quotient is too long to be worth computing
XaFmodGap == 320
XaFmodRange(x, y) == DIsZero(x) \/ (LET g == DTopExp(x) - DTopExp(y) IN g <= XaFmodGap)
XaFmodFOk(f, x, y, r) ==
    IF IsNaN(f, x) \/ IsNaN(f, y) \/ IsInf(f, x) \/ IsZero(f, y) THEN IsNaN(f, r)
    ELSE IsFinite(f, r) /\ DEq(Val(f, r), XaFmodD(Val(f, x), Val(f, y)))
\* integers: a % b truncates; b = 0 and Min % -1 are undefined
XaFmodZDom(W, sg, a, b) == ~ZIsZero(b) /\ ~(sg /\ ZEq(a, XaTMinZ(W, sg)) /\ ZEq(b, ZFromInt(-1)))
XaFmodZ(a, b) == ZMk(a.neg, NDivMod(a.m, b.m)[2])
\* interval membership
XaOpen(v, lo, hi) == DLt(lo, v) /\ DLt(v, hi)
XaClosed(v, lo, hi) == DLe(lo, v) /\ DLe(v, hi)

----------------------------------------------------------------------------
(* 6. scalar_multiplication: the scalar is converted to float (round to nearest even), then the float operation *)
XaToF32(d, zs) == RoundD(F32, d, zs)                                             \* zs: the sign of a zero scalar (-0.0 stays -0)
XaMulBits(v, sf) == FMul(F32, v, sf)
XaDivBits(v, sf) == {FDiv(F32, v, sf), FMul(F32, v, FDiv(F32, FOne(F32), sf))}      \* v / s, or v * (1 / s) as implemented

----------------------------------------------------------------------------
(* 7. typedef tables: name -> [bytes, kind] with kind "u" unsigned integer, "i" signed integer, "f" IEC 559 floating;
      digits = value bits (numeric_limits::digits).  sizeN / sizeN_t are vectors of N std::size_t. *)
XaScalarTypedefs ==
    [u8 |-> <<1, "u">>, u16 |-> <<2, "u">>, u32 |-> <<4, "u">>, u64 |-> <<8, "u">>,
     i8 |-> <<1, "i">>, i16 |-> <<2, "i">>, i32 |-> <<4, "i">>, i64 |-> <<8, "i">>,
     f32 |-> <<4, "f">>, f64 |-> <<8, "f">>,
     f32mat1 |-> <<4, "f">>, f32mat1x1 |-> <<4, "f">>, f64mat1 |-> <<8, "f">>, f64mat1x1 |-> <<8, "f">>,
     byte |-> <<1, "u">>, word |-> <<2, "u">>, dword |-> <<4, "u">>, qword |-> <<8, "u">>]
XaSizeTypedefs == [size1 |-> 1, size2 |-> 2, size3 |-> 3, size4 |-> 4, size1_t |-> 1, size2_t |-> 2, size3_t |-> 3, size4_t |-> 4]
XaDigits(bytes, kind) == IF kind = "u" THEN 8 * bytes ELSE IF kind = "i" THEN 8 * bytes - 1 ELSE IF bytes = 4 THEN 24 ELSE 53

----------------------------------------------------------------------------
(* 8. cross(vec2, vec2), mixedProduct, triangleNormal: the dyadic predicates of GlmGeom (JCross2Ok, JMixedOk, JTriOkWE) plus
      exactness: when all operands are integers of magnitude < 2^7 every intermediate is an integer below 2^24: no rounding *)
XaSmallInt(d) == DIsInt(d) /\ (DIsZero(d) \/ DTopExp(d) < 7)
XaSmallIntV(v) == \A i \in XaIdx(v) : XaSmallInt(v[i])
\* determinant of the columns a, b, c (Sarrus), for the model
XaDet3(a, b, c) == QSub(QAdd(QAdd(QMul(QMul(a[1], b[2]), c[3]), QMul(QMul(b[1], c[2]), a[3])), QMul(QMul(c[1], a[2]), b[3])),
                        QAdd(QAdd(QMul(QMul(c[1], b[2]), a[3]), QMul(QMul(b[1], a[2]), c[3])), QMul(QMul(a[1], c[2]), b[3])))
=============================================================================
