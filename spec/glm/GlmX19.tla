------------------------------ MODULE GlmX19 -------------------------------
(***************************************************************************)
(* Colour encoding, gradient paint and related helpers (stage X19, host    *)
(* property C19):                                                          *)
(*   gtx/color_encoding.hpp     convertLinearSRGBToD65XYZ,                  *)
(*                              convertLinearSRGBToD50XYZ,                  *)
(*                              convertD65XYZToLinearSRGB,                  *)
(*                              convertD65XYZToD50XYZ                       *)
(*   gtx/gradient_paint.hpp     linearGradient, radialGradient              *)
(*   gtx/color_space.hpp        saturation(s), saturation(s, vec3 / vec4):  *)
(*                              the laws between the three overloads        *)
(*   gtx/color_space_YCoCg.hpp  rgb2YCoCg / YCoCg2rgb on integer element    *)
(*                              types                                       *)
(* (the sRGB transfer curves of gtc/color_space.hpp are specified in       *)
(* GlmColor.tla; Trace_X19 reuses those definitions for the overloads that *)
(* C19 does not execute).                                                  *)
(*                                                                         *)
(* Part 1: definitional semantics over the exact rationals / integers.     *)
(* Part 2: acceptance predicates for observed floating results (exact      *)
(*         dyadics), division-free and root-free, each with its derived    *)
(*         forward error bound (eps = 2^-23 / 2^-52 = two unit roundoffs;  *)
(*         derivations in notes/X19-notes.md and next to each predicate).  *)
(* Every name of this module starts with Y.                                *)
(***************************************************************************)
EXTENDS LinQ

----------------------------------------------------------------------------
(* decimal literals *)
RECURSIVE YPow10(_)
YPow10(n) == IF n = 0 THEN <<1>> ELSE NMulSmall(YPow10(n - 1), 10)                     \* 10^n as a magnitude
\* (hi * 10^8 + lo) / 10^nd, negated when neg: a decimal literal with up to 16 significant digits
YDec(neg, hi, lo, nd) == QMk(LET z == ZAdd(ZMulInt(ZFromInt(hi), 100000000), ZFromInt(lo)) IN IF neg THEN ZNeg(z) ELSE z, YPow10(nd))
YD4(n) == QF(n, 10000)
\* the value a C++ literal with the suffix f has (in float and, widened exactly, in double)
YCastF(q) == Val(F32, RoundQ(F32, q, 0))
YQv(v) == [i \in 1..Len(v) |-> QI(v[i])]

----------------------------------------------------------------------------
(* Part 1a: colour encoding.  A 3x3 matrix is a LinQ Mat(3, 3, e), column-major: column j is the image of the j-th unit colour. *)

\* IEC 61966-2-1 (sRGB), four decimals: linear sRGB -> CIE XYZ relative to D65 and back
YStdSrgbToXyz == Mat(3, 3, << YD4(4124), YD4(2126), YD4(193),   YD4(3576), YD4(7152), YD4(1192),   YD4(1805), YD4(722), YD4(9505) >>)
YStdXyzToSrgb == Mat(3, 3, << YD4(32406), YD4(-9689), YD4(557),   YD4(-15372), YD4(18758), YD4(-2040),   YD4(-4986), YD4(415), YD4(10570) >>)
YWhiteD65 == << YD4(9505), QOne, YD4(10890) >>
YWhiteD50 == << YD4(9642), QOne, YD4(8249) >>
YLuma709 == << YD4(2126), YD4(7152), YD4(722) >>
YWhiteRgb == << QOne, QOne, QOne >>

\* the decimal literals of glm/gtx/color_encoding.inl: three vectors M, N, O and a factor k per function
\*   "s65" convertLinearSRGBToD65XYZ   "s50" convertLinearSRGBToD50XYZ   "x2s" convertD65XYZToLinearSRGB   "b50" convertD65XYZToD50XYZ
YEncFns == {"s65", "s50", "x2s", "b50"}
YLit(fn) ==
    CASE fn = "s65" -> [M |-> << YDec(FALSE, 0, 490, 3), YDec(FALSE, 0, 17697, 5), YDec(FALSE, 0, 2, 1) >>,
                        N |-> << YDec(FALSE, 0, 31, 2), YDec(FALSE, 0, 8124, 4), YDec(FALSE, 0, 1063, 5) >>,
                        O |-> << YDec(FALSE, 0, 490, 3), YDec(FALSE, 0, 1, 2), YDec(FALSE, 0, 99, 2) >>,
                        k |-> YDec(FALSE, 56506752, 55693055, 15)]
      [] fn = "s50" -> [M |-> << YDec(FALSE, 4360303, 42570117, 15), YDec(FALSE, 2224384, 66210245, 15), YDec(FALSE, 138974, 40074263, 15) >>,
                        N |-> << YDec(FALSE, 3851018, 60087134, 15), YDec(FALSE, 7169427, 45571917, 15), YDec(FALSE, 970763, 81494207, 15) >>,
                        O |-> << YDec(FALSE, 1430678, 6654203, 15), YDec(FALSE, 606187, 77416563, 15), YDec(FALSE, 7139262, 57896652, 15) >>,
                        k |-> QOne]
      [] fn = "x2s" -> [M |-> << YDec(FALSE, 0, 41847, 5), YDec(TRUE, 0, 91169, 6), YDec(FALSE, 0, 9209, 7) >>,
                        N |-> << YDec(TRUE, 0, 15866, 5), YDec(FALSE, 0, 25243, 5), YDec(FALSE, 0, 15708, 6) >>,
                        O |-> << YDec(FALSE, 0, 9209, 7), YDec(TRUE, 0, 25498, 7), YDec(FALSE, 0, 1786, 4) >>,
                        k |-> QOne]
      [] fn = "b50" -> [M |-> << YDec(FALSE, 10478443, 53856414, 15), YDec(FALSE, 295490, 7606644, 15), YDec(TRUE, 92509, 84365223, 15) >>,
                        N |-> << YDec(FALSE, 228989, 81050086, 15), YDec(FALSE, 9905080, 28941971, 15), YDec(FALSE, 150723, 38237051, 15) >>,
                        O |-> << YDec(TRUE, 502066, 47741605, 15), YDec(TRUE, 170747, 11360960, 15), YDec(FALSE, 7517178, 35079977, 15) >>,
                        k |-> QOne]
\* the matrix the literals spell when M, N, O are read as its columns (the images of red, green and blue), times k
YLitMat(fn) == LET t == YLit(fn) IN MScale(Mat(3, 3, t.M \o t.N \o t.O), t.k)

\* what the documentation of each function names: the standard map between the two colour spaces.  For the two functions between linear
\* sRGB and XYZ(D65) that is the IEC 61966-2-1 matrix; for the two D50 functions (Bradford-adapted) the literal columns of the source agree
\* with the published matrices to the precision of the latter (MC_X19 checks the laws), so they are taken as the documented matrix.
YEncDocMat(fn) == CASE fn = "s65" -> YStdSrgbToXyz [] fn = "x2s" -> YStdXyzToSrgb [] OTHER -> YLitMat(fn)
YEncDoc(fn, c) == MVec(YEncDocMat(fn), c)
\* published matrices carry four significant decimals and differ between sources in the fourth: a result is acceptable when every
\* component is within 1/1000 of the sum of the magnitudes of the input (plus the rounding of the evaluation)
YEncSlack == QF(1, 1000)

\* what glm/gtx/color_encoding.inl evaluates instead: "M * c + N * c + O * c" are component-wise vector products, so the result is
\* k (M_i + N_i + O_i) c_i - a diagonal scaling.  Over Q (exact literals):
YEncDiag(fn) == LET t == YLit(fn) IN [i \in 1..3 |-> QMul(t.k, QSum(<<t.M[i], t.N[i], t.O[i]>>))]
YEncCompwise(fn, c) == LET d == YEncDiag(fn) IN [i \in 1..3 |-> QMul(d[i], c[i])]

----------------------------------------------------------------------------
(* Part 1b: gradients over Q (points are pairs) *)
\* linearGradient: the parameter of the orthogonal projection of Position on the line Point0 Point1 (0 at Point0, 1 at Point1)
YLinear(p0, p1, pos) == LET d == VSub(p1, p0) IN QDiv(VDot(VSub(pos, p0), d), VDot(d, d))                       \* p0 # p1
YPerp2(d) == << QNeg(d[2]), d[1] >>
\* radialGradient(Center, Radius, Focal, Position): g >= 0 with  | Focal + (Position - Focal) / g - Center | = Radius, i.e. Position
\* divides the segment from the focal point to the circle in the ratio g.  With F = Focal - Center, D = Position - Focal:
\*      A g^2 - 2 B g - C = 0,   A = R^2 - |F|^2 > 0 (focal point inside the circle),  B = D.F,  C = |D|^2
YRadA(c, R, fo) == QSub(QMul(R, R), VNorm2(VSub(fo, c)))
YRadB(c, fo, pos) == VDot(VSub(pos, fo), VSub(fo, c))
YRadC(fo, pos) == VNorm2(VSub(pos, fo))
YRadP(c, R, fo, pos, g) == QSub(QSub(QMul(YRadA(c, R, fo), QMul(g, g)), QMul(QMulInt(YRadB(c, fo, pos), 2), g)), YRadC(fo, pos))
YRadDom(c, R, fo) == QSign(R) > 0 /\ QSign(YRadA(c, R, fo)) > 0
YIsRadial(g, c, R, fo, pos) == QSign(g) >= 0 /\ QIsZero(YRadP(c, R, fo, pos, g))
\* discriminant (quarter): B^2 + A C; the source evaluates it as R^2 |D|^2 - (D x F)^2 (Lagrange)
YRadDisc(c, R, fo, pos) == QAdd(QMul(YRadB(c, fo, pos), YRadB(c, fo, pos)), QMul(YRadA(c, R, fo), YRadC(fo, pos)))
YRadDiscSrc(c, R, fo, pos) == LET D == VSub(pos, fo) F == VSub(fo, c) x == QSub(QMul(D[1], F[2]), QMul(D[2], F[1]))
                              IN QSub(QMul(QMul(R, R), VNorm2(D)), QMul(x, x))

----------------------------------------------------------------------------
(* Part 1c: saturation matrix s I + (1 - s) 1 w^T (embedded in a 4x4 with identity padding), weights of the source (Rec. 709) *)
YSatM(s) == MFromFn(4, 4, LAMBDA c, r : IF c = 4 \/ r = 4 THEN (IF c = r THEN QOne ELSE QZero)
                                         ELSE QAdd(QMul(QSub(QOne, s), YLuma709[c]), IF c = r THEN s ELSE QZero))
YSat4(s, v) == MVec(YSatM(s), v)                                   \* saturation(s, vec4)
YSat3(s, v) == SubSeq(MVec(YSatM(s), v \o <<QZero>>), 1, 3)        \* saturation(s, vec3)
YLuma(v) == VDot(YLuma709, SubSeq(v, 1, 3))

----------------------------------------------------------------------------
(* Part 1d: YCoCg on integers.  The transform has the coefficients 1/4 and 1/2: on triples of multiples of four it is exact. *)
\* four times (Y, Co, Cg), signed BigInts
YYcc4(c) == << ZAdd(ZAdd(c[1], ZMulInt(c[2], 2)), c[3]), ZSub(ZMulInt(c[1], 2), ZMulInt(c[3], 2)), ZSub(ZSub(ZMulInt(c[2], 2), c[1]), c[3]) >>
YYccInv(y) == << ZSub(ZAdd(y[1], y[2]), y[3]), ZAdd(y[1], y[3]), ZSub(ZSub(y[1], y[2]), y[3]) >>
YDiv4Ok(z) == NLowZero(z.m, 2)
\* the left-to-right partial sums of the inverse (signed overflow of one of them is undefined behaviour)
YYccInvTerms(y) == {ZAdd(y[1], y[2]), ZSub(y[1], y[2])} \cup {YYccInv(y)[i] : i \in 1..3}
\* unsigned 32 / 64 bit element types: "- r / T(4)" parses as (-r) / 4 = (2^W - r) / 4, so Cg comes out 2^(W-2) too large (r # 0)
YCgUnsignedObs(W, cg) == ZMk(FALSE, WFromZ(W, ZAdd(cg, ZMk(FALSE, NShl(<<1>>, W - 2)))))

----------------------------------------------------------------------------
(* Part 2: dyadic acceptance predicates *)
YUnit == DFromInt(1)
YSq(a) == DMul(a, a)
YTol(k, scale, f) == DMul2k(DMulInt(scale, k), -f.mb)                   \* k * eps * scale
YNear(a, b, tol) == DLe(DAbs(DSub(a, b)), tol)
YvSub(a, b) == [i \in 1..Len(a) |-> DSub(a[i], b[i])]
YvAbs(a) == [i \in 1..Len(a) |-> DAbs(a[i])]
YvDot(a, b) == DSum([i \in 1..Len(a) |-> DMul(a[i], b[i])])
YvDotAbs(a, b) == DSum([i \in 1..Len(a) |-> DAbs(DMul(a[i], b[i]))])
YvNorm1(a) == DSum(YvAbs(a))
YvToQ(a) == [i \in 1..Len(a) |-> QFromD(a[i])]
YvIsZero(a) == \A i \in 1..Len(a) : DIsZero(a[i])

\* ---- colour encoding.  r, c: observed result / argument (dyadics).
\* documented map: | r_i - (Doc c)_i | <= |c|_1 / 1000 + 4 eps sum_j |Doc_ij c_j|
\*   (three products and two sums: (1 + u)^3 - 1 = 1.5 eps relative to the sum of magnitudes; k = 4)
YEncDocOk(fn, r, c, f) ==
    LET m == YEncDocMat(fn) cq == YvToQ(c) n1 == QSum([j \in 1..3 |-> QAbs(cq[j])]) IN
    \A i \in 1..3 :
        LET e == QSum([j \in 1..3 |-> QMul(MAt(m, j, i), cq[j])]) sc == QSum([j \in 1..3 |-> QAbs(QMul(MAt(m, j, i), cq[j]))])
        IN QNear(QFromD(r[i]), e, QAdd(QMul(YEncSlack, n1), QMul(QMulInt(QFromD(Eps(f)), 4), sc)))
\* the component-wise evaluation of the source with its constants as the compiler reads them (float literals):
\*   fl(fl(fl(M_i c_i) + fl(N_i c_i)) + fl(O_i c_i)) * k : (1 + u)^4 - 1 = 2 eps relative to (|M_i| + |N_i| + |O_i|) |k| |c_i|; k = 4
YLitF(fn) == LET t == YLit(fn) IN [M |-> [i \in 1..3 |-> YCastF(t.M[i])], N |-> [i \in 1..3 |-> YCastF(t.N[i])],
                                    O |-> [i \in 1..3 |-> YCastF(t.O[i])], k |-> YCastF(t.k)]
YLitF_s65 == YLitF("s65")
YLitF_s50 == YLitF("s50")
YLitF_x2s == YLitF("x2s")
YLitF_b50 == YLitF("b50")
YLitFOf(fn) == CASE fn = "s65" -> YLitF_s65 [] fn = "s50" -> YLitF_s50 [] fn = "x2s" -> YLitF_x2s [] fn = "b50" -> YLitF_b50
YEncPinOk(fn, r, c, f) ==
    LET t == YLitFOf(fn) IN
    \A i \in 1..3 :
        LET e == DMul(DMul(DSum(<<t.M[i], t.N[i], t.O[i]>>), c[i]), t.k)
            sc == DMul(DMul(DSum(<<DAbs(t.M[i]), DAbs(t.N[i]), DAbs(t.O[i])>>), DAbs(c[i])), DAbs(t.k))
        IN YNear(r[i], e, YTol(4, sc, f))
\* two observed vectors agree as the documentation demands (composed laws): | a_i - b_i | <= scale / 1000 * k
YEncAgree(a, b, scale, k) == \A i \in 1..3 : QNear(QFromD(a[i]), QFromD(b[i]), QMul(QMulInt(YEncSlack, k), QFromD(scale)))

\* ---- linearGradient.  d = p1 - p0, w = pos - p0 (exact), num = d.w, den = d.d:
\*   d_i, w_i are rounded differences (u each), each product u, the sum u: |num^ - num| <= 4u sum|d_i w_i|, |den^ - den| <= 4u den,
\*   the quotient u:   | r den - num | <= 2 eps sum|d_i w_i| + 2.5 eps |r| den;   k = 5 on both
YLinNum(p0, p1, pos) == YvDot(YvSub(p1, p0), YvSub(pos, p0))
YLinDen(p0, p1) == LET d == YvSub(p1, p0) IN YvDot(d, d)
YLinOk(r, p0, p1, pos, f) ==
    LET den == YLinDen(p0, p1) num == YLinNum(p0, p1, pos)
    IN YNear(DMul(r, den), num, YTol(5, DAdd(YvDotAbs(YvSub(p1, p0), YvSub(pos, p0)), DMul(DAbs(r), den)), f))

\* ---- radialGradient.  F = Focal - Center, D = Position - Focal (rounded differences), the source evaluates
\*        g = (B + sqrt(disc)) / A,   B = D.F,   disc = R^2 |D|^2 - (D x F)^2,   A = R^2 - |F|^2
\* With s = g A - B (exact A, B, observed g) the statement "g is the non-negative root" is  s = +sqrt(disc).  Error budget (u = eps / 2):
\*   dB   <= 4u (|Dx Fx| + |Dy Fy|)                       (operands u each, product u, sum u)
\*   dA   <= 5u (R^2 + |F|^2)                             (R^2: u; |F|^2: 4u; difference u)
\*   dDisc<= 10u (R^2 |D|^2 + (|Dx Fy| + |Dy Fx|)^2)      (first term 6u; cross 4u (..), squared 9u (..)^2; difference u)
\*   the computed root S^ obeys S^^2 = disc^ (1 + 2 delta), |delta| <= u;  g A^ = (B^ + S^)(1 + delta'), |delta'| <= 2u, hence
\*   | s - S^ | <= dB + 2u |g| |A| + |g| dA =: e   (in eps: 2 Babs + 3.5 |g| (R^2 + |F|^2)).
\* Accepted (every bound doubled):  s >= -e,  max(|s| - e, 0)^2 (1 - 2 eps) <= disc + Dd,  (|s| + e)^2 (1 + 2 eps) >= disc - Dd
\*   with e = eps (4 Babs + 7 |g| (R^2 + |F|^2)), Dd = 10 eps (R^2 |D|^2 + Xabs^2).
YRad(c, R, fo, pos) ==
    LET F == YvSub(fo, c) D == YvSub(pos, fo) R2 == YSq(R) F2 == YvDot(F, F) D2 == YvDot(D, D)
        x == DSub(DMul(D[1], F[2]), DMul(D[2], F[1])) xa == DAdd(DAbs(DMul(D[1], F[2])), DAbs(DMul(D[2], F[1])))
    IN [A |-> DSub(R2, F2), B |-> YvDot(D, F), Babs |-> YvDotAbs(D, F), S2 |-> DAdd(R2, F2), R2 |-> R2, F2 |-> F2,
        disc |-> DSub(DMul(R2, D2), YSq(x)), Wd |-> DAdd(DMul(R2, D2), YSq(xa))]
\* domain of the check: Radius > 0 and the focal point inside the circle with |F|^2 <= (1 - 1/64) R^2 (nearer to the circle the
\* discriminant is no longer determined by the operands to working precision)
YRadDomD(x, R) == DSign(R) > 0 /\ DLe(DMul2k(x.F2, 6), DMulInt(x.R2, 63))
YRadOk(g, x, f) ==
    LET s == DSub(DMul(g, x.A), x.B) as == DAbs(s)
        e == YTol(1, DAdd(DMulInt(x.Babs, 4), DMulInt(DMul(DAbs(g), x.S2), 7)), f)
        Dd == YTol(10, x.Wd, f)
        lo == IF DLt(as, e) THEN DZero ELSE DSub(as, e)
        hi == DAdd(as, e)
    IN /\ DLe(DNeg(e), s)
       /\ DLe(DMul(YSq(lo), DSub(YUnit, YTol(2, YUnit, f))), DAdd(x.disc, Dd))
       /\ DLe(DSub(x.disc, Dd), DMul(YSq(hi), DAdd(YUnit, YTol(2, YUnit, f))))

\* ---- saturation: the observed matrix m (16 dyadics, column-major: entry (col, row) at 4 (col - 1) + row), s, colours
YMAt(m, col, row) == m[4 * (col - 1) + row]
YSatScale(s) == DAdd(YUnit, DMul2k(DAbs(s), 1))                                       \* 1 + 2 |s|
\* structure that every saturation matrix has, whatever its weights: identity padding (exact), the two off-diagonal entries of a colour
\* column coincide (both are (1 - s) w_c), diagonal - off-diagonal = s, every colour row sums to 1 (greys are fixed)
\*   entries carry <= 2 eps (1 + 2|s|) (the tolerance of Trace_C19 is twice that): diag - off - s within 4 eps (1 + 2|s|); row sums within 12 eps (1 + 2|s|)
YSatStructOk(m, s, f) ==
    /\ \A k \in 1..3 : DIsZero(YMAt(m, 4, k)) /\ DIsZero(YMAt(m, k, 4))
    /\ DEq(YMAt(m, 4, 4), YUnit)
    /\ \A c \in 1..3 : \A r1, r2 \in (1..3) \ {c} : DEq(YMAt(m, c, r1), YMAt(m, c, r2))
    /\ \A c \in 1..3 : LET off == YMAt(m, c, IF c = 1 THEN 2 ELSE 1) IN YNear(DSub(YMAt(m, c, c), off), s, YTol(4, YSatScale(s), f))
    /\ \A r \in 1..3 : YNear(DSum([c \in 1..3 |-> YMAt(m, c, r)]), YUnit, YTol(12, YSatScale(s), f))
\* v = m * c for a colour c of n components (n = 3: the fourth is read as 0): 4 products, 3 sums: (1 + u)^4 - 1 = 2 eps; k = 4
YSatMulOk(v, m, c, n, f) ==
    \A r \in 1..n : LET e == DSum([k \in 1..n |-> DMul(YMAt(m, k, r), c[k])]) sc == DSum([k \in 1..n |-> DAbs(DMul(YMAt(m, k, r), c[k]))])
                    IN YNear(v[r], e, YTol(4, sc, f))
\* consequences demanded directly on the function form (c of 3 or 4 components, v = saturation(s, c)); k = 16 covers matrix entries + product
YSatIdentityOk(v, c, f) == \A r \in 1..3 : YNear(v[r], c[r], YTol(16, YvNorm1(SubSeq(c, 1, 3)), f))                          \* s = 1
YSatGreyOutOk(v, c, f) == \A r \in 2..3 : YNear(v[r], v[1], YTol(16, YvNorm1(SubSeq(c, 1, 3)), f))                           \* s = 0
YSatGreyFixOk(v, c, s, f) == \A r \in 1..3 : YNear(v[r], c[1], YTol(16, DMul(YSatScale(s), DAbs(c[1])), f))                  \* c1 = c2 = c3
=============================================================================
