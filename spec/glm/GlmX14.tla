------------------------------ MODULE GlmX14 -------------------------------
(***************************************************************************)
(* Stage X14.                                                              *)
(*                                                                         *)
(* Part 1 (prefix Rn): glm/gtc/random over an EXPLICIT generator.          *)
(*   The generator state is the not-yet-consumed suffix of a finite        *)
(*   sequence of draws (values of std::rand(), 0 .. RAND_MAX), followed by *)
(*   the constant RnFallback for ever.  Every GLM call consumes a number   *)
(*   of draws and returns a function of exactly those draws:               *)
(*     compute_rand<uint8>    one draw per component, reduced to a byte    *)
(*     compute_rand<uint16/32/64>  two half-width calls, one shifted       *)
(*     linearRand (integer)   Min + (word mod (Max - Min + 1))             *)
(*     linearRand (floating)  Min + word / 2^W * (Max - Min)               *)
(*     diskRand / ballRand    rejection loop over linearRand(-R, R)        *)
(*     circularRand / sphericalRand  angles through cos / sin              *)
(*     gaussRand              Marsaglia polar method                       *)
(*   C++ leaves two things open, both are parameters here (RnOrders):      *)
(*   the order in which the arguments of a vec constructor are evaluated   *)
(*   (which draw lands in which component) and the order of the two        *)
(*   operands of `|` (which half-width call is made first).  g++ evaluates *)
(*   both right to left, clang++ left to right.                            *)
(*   The byte reduction is a parameter too (bm): the reading of the        *)
(*   documentation is d mod 256 (all 256 byte values, so that Max is       *)
(*   "included in the sampling"), the implementation reduces mod 255       *)
(*   (KD-X14-rand-byte-mod255).                                            *)
(*                                                                         *)
(* Part 2 (prefix Pn): glm/gtc/noise - lattice, period, bound and          *)
(*   continuity laws, and a transcription of perlin(vec2) (float) over     *)
(*   IEEE single precision operations.                                     *)
(***************************************************************************)
EXTENDS GlmX12

----------------------------------------------------------------------------
(* Part 1: the generator *)
RnRandMax == 2147483647
RnFallback == 192                                   \* what rand() returns once the planted sequence is exhausted
RnTakeF(rest, n, fb) == [i \in 1..n |-> IF i <= Len(rest) THEN rest[i] ELSE fb]
RnTake(rest, n) == RnTakeF(rest, n, RnFallback)
RnDrop(rest, n) == IF n >= Len(rest) THEN << >> ELSE SubSeq(rest, n + 1, Len(rest))
RnByte(d, bm) == d % bm                             \* bm = 2^bw documented reading, 2^bw - 1 as coded

\* evaluation orders: TRUE = right to left
RnOrders == {[args |-> a, ops |-> o] : a \in BOOLEAN, o \in BOOLEAN}
RnGcc == [args |-> TRUE, ops |-> TRUE]
RnClang == [args |-> FALSE, ops |-> FALSE]

\* compute_rand<L, uintW>: ds = the L * W / bw draws of the call in the order of consumption; bw = bits per byte (8; the bounded
\* model also runs it with 2).  Result: L magnitudes.
RECURSIVE RnRandB(_, _, _, _, _, _)
RnRandB(bw, W, L, ds, o, bm) ==
    IF W = bw THEN [i \in 1..L |-> NFromNat(RnByte(ds[IF o.args THEN L + 1 - i ELSE i], bm))]
    ELSE LET h == Len(ds) \div 2
             A == RnRandB(bw, W \div 2, L, SubSeq(ds, 1, h), o, bm)                   \* the half-width call made first
             Bv == RnRandB(bw, W \div 2, L, SubSeq(ds, h + 1, Len(ds)), o, bm)        \* the one made second
             hi == IF o.ops THEN Bv ELSE A                                            \* (hi << W/2) | lo : right to left = lo first
             lo == IF o.ops THEN A ELSE Bv
         IN [i \in 1..L |-> NAdd(NShl(hi[i], W \div 2), lo[i])]
RnRand(W, L, ds, o, bm) == RnRandB(8, W, L, ds, o, bm)
RnNeed(W, L) == L * (W \div 8)                      \* draws consumed by compute_rand<L, uintW>

\* ---- linearRand, integer types: Min + (u mod (Max - Min + 1)), over the integers (Min <= Max)
RnSpan(Min, Max) == ZAdd(ZSub(Max, Min), ZFromInt(1))
RnLinZ(u, Min, Max) == ZAdd(Min, ZMk(FALSE, NDivMod(u, RnSpan(Min, Max).m)[2]))
\* the same on W-bit words with wrap-around, as the implementation computes it; trap = division by zero
RnLinWord(W, u, MinW, MaxW) ==
    LET span == WSub(W, WAdd(W, MaxW, <<1>>), MinW)
    IN IF NIsZero(span) THEN [trap |-> TRUE, v |-> << >>] ELSE [trap |-> FALSE, v |-> WAdd(W, NDivMod(u, span)[2], MinW)]
RnFullRange(W, MinW, MaxW) == NIsZero(WSub(W, WAdd(W, MaxW, <<1>>), MinW))

\* ---- linearRand, floating types: Min + t (Max - Min), t = u / 2^W  (the implementation divides the converted word by
\* float(2^W - 1) = 2^W; the two readings differ by a relative 2^-W, far below the tolerance)
RnT(u, Wu) == DMk(FALSE, u, -Wu)
RnLinD(u, Wu, Min, Max) == DAdd(Min, DMul(RnT(u, Wu), DSub(Max, Min)))
\* tolerance: conversion of the word eps/2, Max - Min eps/2, product eps/2, sum eps/2 (on the sum):
\*   <= 2.1 eps |t (Max - Min)| + 0.5 eps |Min| ;  k = 4 on |t (Max - Min)| + |Min|
RnLinK == 4
RnLinTol(u, Wu, Min, Max, f) == DTol(RnLinK, DAdd(DAbs(DMul(RnT(u, Wu), DSub(Max, Min))), DAbs(Min)), f)
\* the documented interval [Min, Max] is demanded unless t is within eps of 1 (there the rounded Max - Min may carry the sum one ulp
\* beyond Max; MC_X14 establishes both facts exhaustively on a mini format)
RnTopFree(u, Wu, f) == NCmp(u, NSub(NShl(<<1>>, Wu), NShl(<<1>>, Wu - f.mb))) >= 0
RnLinFltOk(r, u, Wu, Min, Max, f) ==
    /\ DNear(r, RnLinD(u, Wu, Min, Max), RnLinTol(u, Wu, Min, Max, f))
    /\ (RnTopFree(u, Wu, f) \/ (DLe(Min, r) /\ DLe(r, Max)))

\* ---- diskRand / ballRand: candidates linearRand(vecL(-R), vecL(R)), accepted iff length <= R
RnCandOf(us, Wu, R) == [i \in 1..Len(us) |-> RnLinD(us[i], Wu, DNeg(R), R)]
RnCandTol(us, Wu, R, f) == [i \in 1..Len(us) |-> RnLinTol(us[i], Wu, DNeg(R), R, f)]
\* inside?  three-valued.  Each component of the float candidate is within 12 eps R of the exact one (RnLinTol with |t 2R| <= 2R), the
\* length carries (L/2 + 1) eps: <= (12 sqrt(3) + 2.5) eps R = 23.3 eps R on the length, 46.6 eps R^2 on its square; k = 80
RnInK == 80
RnIn3(c, R, f) ==
    LET s == DvDot(c, c) r2 == DSq(R) IN
    IF DLt(DMul(r2, XOnePlus(RnInK, f)), s) THEN "F" ELSE IF DLt(s, DMul(r2, XOneMinus(RnInK, f))) THEN "T" ELSE "U"
\* the documented postcondition: within the disk / ball (the implementation compares the rounded length: (L + 4) eps in squares)
RnWithin(r, R, f) == DLe(DvDot(r, r), DMul(DSq(R), XOnePlus(Len(r) + 4, f)))

\* ---- circularRand / sphericalRand
RnTwoPi(t) == IF t = "f32" THEN ValW(F32, <<4059, 16585>>) ELSE ValW(F64, <<11544, 21572, 8699, 16409>>)       \* T(6.2831853071795864769...)
RnTwoPiF(t) == IF t = "f32" THEN ValW(F32, <<4059, 16585>>) ELSE ValW(F64, <<0, 24576, 8699, 16409>>)          \* T(6.2831853071795864769...f)
\* cos / sin of an angle in [0, 6.5] through the half angle (the enclosures of GlmX12 reach 3.25): errors <= 5 XTrigErr
RnCos(a, f) == LET c == XCosD(DMul2k(a, -1), f) IN DSub(DMul2k(DSq(c), 1), DUnit)
RnSin(a, f) == DMul2k(DMul(XSinD(DMul2k(a, -1), f), XCosD(DMul2k(a, -1), f)), 1)
RnTrigErr(f) == DMulInt(XTrigErr(f), 5)
\* the float angle is t TwoPi (1 + eps) (conversion, one product): 6.3 eps on the angle, libm 1 ulp, the product with R eps/2: 8 eps; k = 16
RnCircK == 16
RnCircTol(R, f) == DAdd(DTol(RnCircK, R, f), DMul(R, RnTrigErr(f)))
RnCircularOk(r, u, Wu, R, t, f) ==
    LET a == DMul(RnT(u, Wu), RnTwoPi(t)) tol == RnCircTol(R, f) IN
    /\ DNear(r[1], DMul(R, RnCos(a, f)), tol) /\ DNear(r[2], DMul(R, RnSin(a, f)), tol)
    /\ DNear(DvDot(r, r), DSq(R), DTol(8, DSq(R), f))                                   \* on the circle
\* sphericalRand: theta = t1 TwoPiF, z = cos(acos(v)), v = 2 t2 - 1;  (x, y) = sin(phi) (cos theta, sin theta)
\*   z: v within 12 eps (RnLinTol), acos 1 ulp of phi (<= pi eps) seen through sin(phi) <= 1, cos 1 ulp, product eps/2: 17 eps; k = 24
\*   (x, y) || (cos theta, sin theta), same sense: as circularRand (k = 16) on rho <= R
\*   on the sphere: sin^2 + cos^2 of the same rounded angles: 8 eps; k = 16
RnSphericalOk(r, u1, u2, Wu, R, t, f) ==
    LET th == DMul(RnT(u1, Wu), RnTwoPiF(t)) v == RnLinD(u2, Wu, DNeg(DUnit), DUnit)
        c == RnCos(th, f) s == RnSin(th, f) tol == DAdd(DTol(RnCircK, R, f), DMul(R, DMul2k(RnTrigErr(f), 1))) IN
    /\ DNear(DvDot(r, r), DSq(R), DTol(16, DSq(R), f))
    /\ DNear(r[3], DMul(R, v), DTol(24, R, f))
    /\ DLe(DAbs(DSub(DMul(r[1], s), DMul(r[2], c))), tol)
    /\ DLe(DNeg(tol), DAdd(DMul(r[1], c), DMul(r[2], s)))

\* ---- the natural logarithm of a positive dyadic, in RnP-bit fixed point (units of 2^-RnP), from
\*   ln w = E ln 2 + 2 atanh((y - 1) / (y + 1)),  w = 2^E y,  y in [3/4, 3/2)  =>  |z| <= 1/5, 23 terms: remainder < 2^-104
\*   ln 2 = 2 atanh(1/3), 33 terms: remainder < 2^-105
\* every floor loses < 1 unit and the powers inherit < 1.05 units: < 3 units per term, < 2^8 units per atanh;
\* |error of RnLnFix| <= (|E| + 1) 2^9 units <= 2^-79 for |E| <= 250
RnP == 96
RECURSIVE RnAtanhSer(_, _, _, _, _)
RnAtanhSer(Z2, pw, k, n, acc) ==
    IF k > n \/ NIsZero(pw) THEN acc
    ELSE RnAtanhSer(Z2, NShr(NMul(pw, Z2), RnP), k + 1, n, NAdd(acc, NDivSmall(pw, 2 * k + 1)[1]))
RnAtanhFix(Z, n) == RnAtanhSer(NShr(NMul(Z, Z), RnP), Z, 0, n, << >>)                 \* Z = floor(|z| 2^RnP)
RnLn2Fix == NMulSmall(RnAtanhFix(NDivSmall(NShl(<<1>>, RnP), 3)[1], 33), 2)
RnLnFix(w) ==                                                                            \* signed, w > 0
    LET nb == NBitLen(w.m)
        big == NCmp(NMulSmall(w.m, 2), NMulSmall(NShl(<<1>>, nb - 1), 3)) >= 0           \* y >= 3/2: halve
        Dn == NShl(<<1>>, IF big THEN nb ELSE nb - 1)
        E == w.e + (IF big THEN nb ELSE nb - 1)
        neg == NCmp(w.m, Dn) < 0
        num == IF neg THEN NSub(Dn, w.m) ELSE NSub(w.m, Dn)
        Zf == NDivMod(NShl(num, RnP), NAdd(w.m, Dn))[1]
        at == NMulSmall(RnAtanhFix(Zf, 23), 2)
    IN ZAdd(ZMulInt(ZMk(FALSE, RnLn2Fix), E), ZMk(neg, at))
RnNeg2Ln(w) == LET z == RnLnFix(w) IN DMk(~z.neg, z.m, 1 - RnP)                           \* -2 ln w as a dyadic
RnLnErr == DPow2(-76)

\* ---- gaussRand (Marsaglia polar method): pairs (x1, x2) = (linearRand(-1, 1), linearRand(-1, 1)), w = x1^2 + x2^2,
\* repeat while w > 1; result x2 * sd * sqrt(-2 ln w / w) + Mean
RnGaussPair(u1, u2, Wu) == LET e1 == RnLinD(u1, Wu, DNeg(DUnit), DUnit) e2 == RnLinD(u2, Wu, DNeg(DUnit), DUnit)
                           IN [e1 |-> e1, e2 |-> e2, w |-> DAdd(DSq(e1), DSq(e2))]
\* accepted?  the float x_i are within 2 eps of the exact ones (2 t' - 1 is exact or eps/2), w carries 2 * 2 * 2 eps + 1.5 eps: k = 16
RnAcc3(w, f) == IF DLt(XOnePlus(16, f), w) THEN "F" ELSE IF DLt(w, XOneMinus(16, f)) THEN "T" ELSE "U"
\* the result, judged in squares (no root, no quotient):  g = r - Mean,  g^2 w = x2^2 (-2 ln w) sd^2.
\*   sd2 = sd^2: Deviation^2 (documented reading: Deviation is the standard deviation) or Deviation^4 (as coded)
\*   |g^2 w - T| <= 64 eps sd2 + w eps |r| (2 |g| + eps |r|) + x2^2 sd2 RnLnErr     (derivation: notes/X14-notes.md)
RnGaussOk(r, Mean, sd2, pr, f) ==
    LET g == DSub(r, Mean) S == DMul(DSq(g), pr.w) T == DMul(DMul(DSq(pr.e2), RnNeg2Ln(pr.w)), sd2)
        er == DMul(DAbs(r), Eps(f))
        tol == DAdd(DAdd(DTol(64, sd2, f), DMul(pr.w, DMul(er, DAdd(DMul2k(DAbs(g), 1), er)))), DMul(DMul(DSq(pr.e2), sd2), RnLnErr))
    IN /\ DNear(S, T, tol)
       /\ (DLe(T, DMulInt(tol, 4)) \/ DSign(g) = DSign(pr.e2))
RnGaussWMin == DPow2(-40)                           \* below: ill-conditioned (the float w has no relative accuracy), not judged

----------------------------------------------------------------------------
(* Part 2: noise *)
PnLim == 20                                          \* |coordinates| <= 2^20
PnMagOk(p) == \A i \in 1..Len(p) : DLe(DAbs(p[i]), DPow2(PnLim))
PnIsLattice(p) == \A i \in 1..Len(p) : DIsInt(p[i])
\* bounds from the final scale factors.  The gradients are scaled by the tangent line of 1/sqrt at 0.7
\* (taylorInvSqrt = 1.79284291400159 - 0.85373472095314 s), which lies below 1/sqrt(s) and is positive for s < 2.1: the scaled
\* gradients have length <= 1.  perlin = S sum_c w_c g_c . d_c with product weights w_c (fade in [0, 1]) and corner offsets d_c:
\*   |sum| <= sum w_c |d_c| <= sqrt(sum w_c |d_c|^2) (Jensen) = sqrt(sum over the axes of (1 - f(t)) t^2 + f(t) (1 - t)^2) <= sqrt(L / 4)
\*   (the axis term is largest, 1/4, at t = 1/2):  2.3 sqrt(2)/2 = 1.6264, 2.2 sqrt(3)/2 = 1.9053, 2.2 * 1 = 2.2
\* simplex: K * (L+1) corners * max_s (R - s)^4 sqrt(s) = K (L+1) (8R/9)^4 sqrt(R/9):  130*3*0.009197 = 3.587, 42*4*0.020890 = 3.510, 49*5*0.020890 = 5.118
PnPerlinBound(L) == IF L = 2 THEN DMk(FALSE, <<209>>, -7) ELSE IF L = 3 THEN DMk(FALSE, <<61>>, -5) ELSE DMk(FALSE, <<9>>, -2)
PnSimplexBound(L) == IF L = 4 THEN DMk(FALSE, <<21>>, -2) ELSE DMk(FALSE, <<29>>, -3)
\* Lipschitz constants with respect to the 1-norm of the displacement.
\*   perlin, per axis: S (1 + max fade' * 2 max|n|) = S (1 + 1.875 * 2 sqrt L): 14.5, 16.5, 18.7
\*   simplex: K (L+1) max_s ((R-s)^4 + 8 (R-s)^3 s) = K (L+1) 1.2595 R^4: 30.7, 27.4, 40.0
PnPerlinLip(L) == IF L = 2 THEN 15 ELSE IF L = 3 THEN 17 ELSE 19
PnSimplexLip(L) == IF L = 2 THEN 31 ELSE IF L = 3 THEN 28 ELSE 41
\* evaluation error: perlin works on fract(p) (exact): 64 eps.  simplex unskews p - floor(...) + dot(i, C): the offsets carry up to
\* 3 eps |p|_1 (1-norm), amplified by the Lipschitz constant
PnEvalTol(simplex, L, p, f) ==
    IF simplex THEN DAdd(DTol(64, DUnit, f), DTol(4 * PnSimplexLip(L), DAdd(DUnit, DvNorm1(p)), f)) ELSE DTol(64, DUnit, f)
\* the kernel of simplex(vec3 / vec4) is max(0.6 - |x|^2, 0)^4 but the simplices have height^2 0.5: crossing a face switches a corner
\* with |x|^2 in [0.5, 0.6) on or off: a jump of at most K 0.1^4 sqrt(0.6) per corner, two corners at most
PnSimplexJump(L) == IF L = 3 THEN DMk(FALSE, <<213>>, -15) ELSE IF L = 4 THEN DMk(FALSE, <<249>>, -15) ELSE DZero       \* 0.0065, 0.0076
\* simplex(dvec3): with the 12-digit constant 0.142857142857 < 1/7 the hash values 49, 98, ... miss mod 49 and produce the gradient
\* (-3/14, -27/14, -6/7), |p|^2 = 4.5, scaled by |taylorInvSqrt(4.5)| = 2.049: length 4.35 instead of <= 1
PnBrokenGrad == DMk(FALSE, <<35>>, -3)               \* 4.375
\* simplex(vec3): x0.x = x0.y = x0.z  <=>  the differences of the coordinates are integers (i = floor(p + s) shifts all three alike)
PnDiagTie(p) == Len(p) = 3 /\ DIsInt(DSub(p[1], p[2])) /\ DIsInt(DSub(p[2], p[3]))

\* ---- perlin(vec2), float, transcribed operation by operation (fields of F32; every operation correctly rounded, as compiled without
\* contraction).  Domain: finite coordinates (|.| <= 2^20 by the caller)
PnF(hi, lo) == Fields(F32, <<lo, hi>>)
Pn289 == PnF(17296, 32768)
Pn34 == PnF(16904, 0)
Pn1 == PnF(16256, 0)
Pn41 == PnF(16932, 0)
Pn2 == PnF(16384, 0)
PnHalf == PnF(16128, 0)
PnA == PnF(16357, 31712)                             \* 1.79284291400159f
PnB == PnF(16218, 36444)                             \* 0.85373472095314f
Pn6 == PnF(16576, 0)
Pn15 == PnF(16752, 0)
Pn10 == PnF(16672, 0)
Pn23 == PnF(16403, 13107)                            \* 2.3f
Pn0 == PnF(0, 0)
PnInv289 == FDiv(F32, Pn1, Pn289)
PnAdd(a, b) == FAdd(F32, a, b)
PnSub(a, b) == FSub(F32, a, b)
PnMul(a, b) == FMul(F32, a, b)
PnDiv(a, b) == FDiv(F32, a, b)
PnFloor(a) == RoundD(F32, DFromZ(DFloor(Val(F32, a))), a.s)
PnAbs(a) == [a EXCEPT !.s = 0]
PnFract(a) == PnSub(a, PnFloor(a))
PnMod(a, b) == PnSub(a, PnMul(b, PnFloor(PnDiv(a, b))))
PnMod289(x) == PnSub(x, PnMul(PnFloor(PnMul(x, PnInv289)), Pn289))
PnPermute(x) == PnMod289(PnMul(PnAdd(PnMul(x, Pn34), Pn1), x))
PnFade(t) == PnMul(PnMul(PnMul(t, t), t), PnAdd(PnMul(t, PnSub(PnMul(t, Pn6), Pn15)), Pn10))
PnMix(x, y, a) == PnAdd(PnMul(x, PnSub(Pn1, a)), PnMul(y, a))
\* one corner: lattice index (ix, iy), offset (fx, fy)
PnCorner(ix, iy, fx, fy) ==
    LET i == PnPermute(PnAdd(PnPermute(ix), iy))
        q == PnDiv(i, Pn41)
        g == PnSub(PnMul(Pn2, PnFract(q)), Pn1)
        gy == PnSub(PnAbs(g), PnHalf)
        gx == PnSub(g, PnFloor(PnAdd(g, PnHalf)))
        nrm == PnSub(PnA, PnMul(PnB, PnAdd(PnMul(gx, gx), PnMul(gy, gy))))
    IN PnAdd(PnMul(PnMul(gx, nrm), fx), PnMul(PnMul(gy, nrm), fy))
\* rep = << >> : perlin(p);  rep = <<rx, ry>> : perlin(p, rep)
PnPerlin2R(x, y, rep) ==
    LET flx == PnFloor(x) fly == PnFloor(y)
        Pi0 == << PnAdd(flx, Pn0), PnAdd(fly, Pn0), PnAdd(flx, Pn1), PnAdd(fly, Pn1) >>
        Pi1 == IF rep = << >> THEN Pi0 ELSE << PnMod(Pi0[1], rep[1]), PnMod(Pi0[2], rep[2]), PnMod(Pi0[3], rep[1]), PnMod(Pi0[4], rep[2]) >>
        Pi == [k \in 1..4 |-> PnMod(Pi1[k], Pn289)]
        fx0 == PnSub(PnFract(x), Pn0) fy0 == PnSub(PnFract(y), Pn0)
        fx1 == PnSub(PnFract(x), Pn1) fy1 == PnSub(PnFract(y), Pn1)
        n00 == PnCorner(Pi[1], Pi[2], fx0, fy0)
        n10 == PnCorner(Pi[3], Pi[2], fx1, fy0)
        n01 == PnCorner(Pi[1], Pi[4], fx0, fy1)
        n11 == PnCorner(Pi[3], Pi[4], fx1, fy1)
        fdx == PnFade(fx0) fdy == PnFade(fy0)
        nx0 == PnMix(n00, n10, fdx) nx1 == PnMix(n01, n11, fdx)
    IN PnMul(Pn23, PnMix(nx0, nx1, fdy))
PnPerlin2(x, y) == PnPerlin2R(x, y, << >>)
=============================================================================
