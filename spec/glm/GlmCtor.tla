------------------------------ MODULE GlmCtor -------------------------------
(***************************************************************************)
(* Constructor placement (C17): which argument component (or which         *)
(* constant) lands in which component of a constructed vector, matrix or   *)
(* quaternion, and what static_cast does to it on the way.                 *)
(*                                                                         *)
(* A constructor is described by its *sources*: a sequence with one entry  *)
(* per result component, either SArg(i, j) = component j of argument i, or *)
(* SConst(n) = the constant n (0 or 1) of the result element type.         *)
(* Matrices are column-major: component (column c, row r), 0-based, of a   *)
(* C x R matrix (C columns, R rows) has position c*R + r + 1.  Quaternions *)
(* are listed w, x, y, z whatever their storage order.                     *)
(*                                                                         *)
(* Cast(ft, tt, limbs) is static_cast<tt>(value of type ft) on raw bit     *)
(* patterns, in exact arithmetic.  Where the C++ standard leaves the       *)
(* result open the specification does too:                                 *)
(*   any  - undefined behaviour (truncated value not representable, NaN or *)
(*          infinity to integer, finite value beyond the target's range)   *)
(*   near - value not representable in the floating target: either of the  *)
(*          two adjacent representable values ([conv.double], [conv.fpint])*)
(*   nan  - a NaN stays a NaN (payload unconstrained)                      *)
(***************************************************************************)
EXTENDS Words

TKind(t) == IF t = "b" THEN "bool" ELSE IF TypeIsFloat(t) THEN "float" ELSE "int"

CAny == [k |-> "any", w |-> << >>, q |-> QZero]
CNaN == [k |-> "nan", w |-> << >>, q |-> QZero]
CVal(w) == [k |-> "val", w |-> w, q |-> QZero]
CNear(q) == [k |-> "near", w |-> << >>, q |-> q]

PatW(f, x) == WFromLimbs(Pattern(f, x))
MaxFiniteD(f) == Val(f, FMaxFinite(f, 0))
\* finite exact value d (zero carries the sign zs) into the floating format f
ToFloat(f, d, zs) ==
    IF DIsZero(d) THEN CVal(PatW(f, FZero(f, zs)))
    ELSE IF DLt(MaxFiniteD(f), DAbs(d)) THEN CAny
    ELSE LET x == RoundD(f, d, zs) IN IF DEq(Val(f, x), d) THEN CVal(PatW(f, x)) ELSE CNear(QFromD(d))

TruncZ(d) == ZMk(d.neg, DFloor(DAbs(d)).m)            \* toward zero

Cast(ft, tt, limbs) ==
    LET w == WFromLimbs(limbs) IN
    IF ft = tt THEN CVal(w)
    ELSE IF TKind(ft) # "float" THEN
        LET z == WToZ(TypeW(ft), TypeSigned(ft), w) IN
        CASE TKind(tt) = "bool" -> CVal(IF ZIsZero(z) THEN << >> ELSE <<1>>)
          [] TKind(tt) = "int"  -> CVal(WFromZ(TypeW(tt), z))                    \* modulo 2^W
          [] OTHER              -> ToFloat(TypeFmt(tt), DFromZ(z), 0)
    ELSE
        LET f == TypeFmt(ft)
            x == Fields(f, limbs)
        IN CASE TKind(tt) = "bool" -> CVal(IF IsZero(f, x) THEN << >> ELSE <<1>>)
             [] TKind(tt) = "int"  -> IF ~IsFinite(f, x) THEN CAny
                                      ELSE LET z == TruncZ(Val(f, x))
                                           IN IF ZInRange(TypeW(tt), TypeSigned(tt), z) THEN CVal(WFromZ(TypeW(tt), z)) ELSE CAny
             [] OTHER -> LET g == TypeFmt(tt)
                         IN IF IsNaN(f, x) THEN CNaN
                            ELSE IF IsInf(f, x) THEN CVal(PatW(g, FInf(g, x.s)))
                            ELSE ToFloat(g, Val(f, x), x.s)

\* does the observed word r (limbs) of type tt agree with the cast result c ?
CastOK(tt, c, r) ==
    CASE c.k = "any"  -> TRUE
      [] c.k = "val"  -> WFromLimbs(r) = c.w
      [] c.k = "nan"  -> IsNaN(TypeFmt(tt), Fields(TypeFmt(tt), r))
      [] c.k = "near" -> LET f == TypeFmt(tt) x == Fields(f, r) IN ~IsNaN(f, x) /\ IsFaithfulQ(f, x, c.q)

\* the constants 0 and 1 of an element type, as words
ConstW(tt, n) == IF TKind(tt) = "float" THEN (IF n = 0 THEN << >> ELSE PatW(TypeFmt(tt), FOne(TypeFmt(tt)))) ELSE NFromNat(n)

----------------------------------------------------------------------------
SArg(i, j) == [k |-> "arg", a |-> i, c |-> j, n |-> 0]
SConst(n)  == [k |-> "const", a |-> 0, c |-> 0, n |-> n]

(* vectors: the argument list is a sequence of part kinds *)
PartKinds == {"s", "v1", "v2", "v3", "v4"}
PartSize(p) == CASE p = "s" -> 1 [] p = "v1" -> 1 [] p = "v2" -> 2 [] p = "v3" -> 3 [] p = "v4" -> 4
RECURSIVE SumSizes(_)
SumSizes(parts) == IF Len(parts) = 0 THEN 0 ELSE PartSize(Head(parts)) + SumSizes(Tail(parts))
\* one argument: a scalar or vec1 is broadcast, a vector at least as long is copied / truncated;
\* several arguments: their sizes sum to the length of the result exactly
VecShapeOK(n, parts) == \/ Len(parts) = 1 /\ (PartSize(parts[1]) = 1 \/ PartSize(parts[1]) >= n)
                        \/ Len(parts) >= 2 /\ SumSizes(parts) = n
VecShapes(n) == {p \in UNION {[1..k -> PartKinds] : k \in 1..n} : VecShapeOK(n, p)}
RECURSIVE FlatFrom(_, _)
FlatFrom(parts, i) == IF i > Len(parts) THEN << >>
                      ELSE [j \in 1..PartSize(parts[i]) |-> SArg(i, j)] \o FlatFrom(parts, i + 1)
VecSources(n, parts) ==
    IF Len(parts) = 1 /\ PartSize(parts[1]) = 1 THEN [i \in 1..n |-> SArg(1, 1)]       \* broadcast
    ELSE IF Len(parts) = 1 THEN [i \in 1..n |-> SArg(1, i)]                            \* copy / truncation
    ELSE FlatFrom(parts, 1)                                                            \* left to right

(* matrices *)
MatIdx(R, c, r) == c * R + r + 1
ColOf(R, i) == (i - 1) \div R
RowOf(R, i) == (i - 1) % R
MatDiagSources(C, R)   == [i \in 1..C*R |-> IF ColOf(R, i) = RowOf(R, i) THEN SArg(1, 1) ELSE SConst(0)]
MatScalarSources(C, R) == [i \in 1..C*R |-> SArg(i, 1)]                                \* C*R scalars, column-major
MatColSources(C, R)    == [i \in 1..C*R |-> SArg(ColOf(R, i) + 1, RowOf(R, i) + 1)]    \* C column vectors of R components
MatFromMatSources(C, R, C2, R2) ==                                                     \* mat<C,R>(mat<C2,R2>)
    [i \in 1..C*R |-> LET c == ColOf(R, i) r == RowOf(R, i)
                      IN IF c < C2 /\ r < R2 THEN SArg(1, MatIdx(R2, c, r)) ELSE SConst(IF c = r THEN 1 ELSE 0)]

(* quaternions, listed w, x, y, z *)
QuaWxyzSources == <<SArg(1, 1), SArg(2, 1), SArg(3, 1), SArg(4, 1)>>       \* qua(w, x, y, z), qua::wxyz(w, x, y, z)
QuaSVecSources == <<SArg(1, 1), SArg(2, 1), SArg(2, 2), SArg(2, 3)>>       \* qua(s, vec3)
QuaConvSources == [i \in 1..4 |-> SArg(1, i)]                              \* qua(qua<U, P>)
QuaXyzwSources == <<SArg(4, 1), SArg(1, 1), SArg(2, 1), SArg(3, 1)>>       \* qua(x, y, z, w) of the GLM_FORCE_QUAT_DATA_XYZW configuration
QuaSources(form) == CASE form \in {"wxyz", "static_wxyz"} -> QuaWxyzSources
                      [] form = "sv"   -> QuaSVecSources
                      [] form = "conv" -> QuaConvSources
                      [] form = "xyzw" -> QuaXyzwSources

\* every result component is the cast of its source / the constant of the result type
CtorOK(tt, srcs, at, a, r) ==
    /\ Len(r) = Len(srcs)
    /\ \A i \in 1..Len(srcs) :
         LET s == srcs[i]
         IN IF s.k = "const" THEN WFromLimbs(r[i]) = ConstW(tt, s.n)
            ELSE s.a <= Len(a) /\ s.c <= Len(a[s.a]) /\ CastOK(tt, Cast(at[s.a], tt, a[s.a][s.c]), r[i])

\* evaluation on abstract components (bounded model): zero / one are passed in
EvalSources(srcs, args, zero, one) ==
    [i \in 1..Len(srcs) |-> IF srcs[i].k = "const" THEN (IF srcs[i].n = 0 THEN zero ELSE one) ELSE args[srcs[i].a][srcs[i].c]]
=============================================================================
