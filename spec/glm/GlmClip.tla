------------------------------ MODULE GlmClip ------------------------------
(***************************************************************************)
(* Definitional semantics of glm/ext/matrix_clip_space and                 *)
(* glm/ext/matrix_projection over the rationals (no floating point).       *)
(*                                                                         *)
(* A clip-control configuration is a pair (lh, zo) of booleans:            *)
(*   lh  left handed (the viewer looks down +z), otherwise right handed    *)
(*       (looks down -z);                                                  *)
(*   zo  depth range [0,1] ("zero to one"), otherwise [-1,1] ("negative    *)
(*       one to one").                                                     *)
(* Matrices are LinQ matrices (column major, MAt(m, col, row) 1-based =    *)
(* GLM's m[col-1][row-1]).  The field of view enters through the rational  *)
(* T = tan(fovy/2).  The laws that make these closed forms the projections *)
(* of the property text are checked by MC_C08.                             *)
(***************************************************************************)
EXTENDS LinQ

QTwo == QI(2)
QHalf == QF(1, 2)
QMinusOne == QI(-1)
Sgn(lh) == IF lh THEN QOne ELSE QMinusOne

\* ---------------------------------------------------------------- clip control (glm/detail/setup.hpp)
CC_ZO_BIT == 1
CC_NO_BIT == 2
CC_LH_BIT == 4
CC_RH_BIT == 8
ClipCfgs == {5, 6, 9, 10}                                  \* LH_ZO LH_NO RH_ZO RH_NO
ClipCfgOf(lhForced, zoForced) == (IF lhForced THEN CC_LH_BIT ELSE CC_RH_BIT) + (IF zoForced THEN CC_ZO_BIT ELSE CC_NO_BIT)
CfgLH(cfg) == cfg \in {5, 6}
CfgZO(cfg) == cfg \in {5, 9}
VariantName(lh, zo) == (IF lh THEN "LH" ELSE "RH") \o "_" \o (IF zo THEN "ZO" ELSE "NO")
\* which fully suffixed variant a dispatcher stands for under configuration cfg
\*   "U" unsuffixed, "ZO"/"NO" depth given + configured handedness, "LH"/"RH" handedness given + configured depth
Dispatch(kind, cfg) ==
    CASE kind = "U"  -> VariantName(CfgLH(cfg), CfgZO(cfg))
      [] kind = "ZO" -> VariantName(CfgLH(cfg), TRUE)
      [] kind = "NO" -> VariantName(CfgLH(cfg), FALSE)
      [] kind = "LH" -> VariantName(TRUE, CfgZO(cfg))
      [] kind = "RH" -> VariantName(FALSE, CfgZO(cfg))

\* ---------------------------------------------------------------- the builders (closed forms)
Z0 == QZero
\* orthographic box [l,r] x [b,t] x depth [n,f]
Ortho(l, r, b, t, n, f, lh, zo) ==
    LET w == QSub(r, l) h == QSub(t, b) d == QSub(f, n) s == Sgn(lh) IN
    Mat(4, 4, << QDiv(QTwo, w), Z0, Z0, Z0,
                 Z0, QDiv(QTwo, h), Z0, Z0,
                 Z0, Z0, QMul(s, QDiv(IF zo THEN QOne ELSE QTwo, d)), Z0,
                 QNeg(QDiv(QAdd(r, l), w)), QNeg(QDiv(QAdd(t, b), h)), QNeg(QDiv(IF zo THEN n ELSE QAdd(f, n), d)), QOne >>)
\* the four-argument ortho: depth range -1..1, right handed, [-1,1] depth (z -> -z)
Ortho2D(l, r, b, t) ==
    LET w == QSub(r, l) h == QSub(t, b) IN
    Mat(4, 4, << QDiv(QTwo, w), Z0, Z0, Z0,
                 Z0, QDiv(QTwo, h), Z0, Z0,
                 Z0, Z0, QMinusOne, Z0,
                 QNeg(QDiv(QAdd(r, l), w)), QNeg(QDiv(QAdd(t, b), h)), Z0, QOne >>)
\* perspective frustum with the window [l,r] x [b,t] on the near plane
Frustum(l, r, b, t, n, f, lh, zo) ==
    LET w == QSub(r, l) h == QSub(t, b) d == QSub(f, n) s == Sgn(lh) IN
    Mat(4, 4, << QDiv(QMul(QTwo, n), w), Z0, Z0, Z0,
                 Z0, QDiv(QMul(QTwo, n), h), Z0, Z0,
                 QNeg(QMul(s, QDiv(QAdd(r, l), w))), QNeg(QMul(s, QDiv(QAdd(t, b), h))),
                     QMul(s, QDiv(IF zo THEN f ELSE QAdd(f, n), d)), s,
                 Z0, Z0, QNeg(QDiv(QMul(IF zo THEN QOne ELSE QTwo, QMul(f, n)), d)), Z0 >>)
\* symmetric frustum from T = tan(fovy/2) and aspect = width/height
Perspective(T, aspect, n, f, lh, zo) ==
    LET d == QSub(f, n) s == Sgn(lh) IN
    Mat(4, 4, << QInv(QMul(aspect, T)), Z0, Z0, Z0,
                 Z0, QInv(T), Z0, Z0,
                 Z0, Z0, QMul(s, QDiv(IF zo THEN f ELSE QAdd(f, n), d)), s,
                 Z0, Z0, QNeg(QDiv(QMul(IF zo THEN QOne ELSE QTwo, QMul(f, n)), d)), Z0 >>)
\* the same from a field of view and the width / height of the window (GLM: h = cot(fov/2), w = h * height / width)
PerspectiveFov(T, width, height, n, f, lh, zo) ==
    LET d == QSub(f, n) s == Sgn(lh) hh == QInv(T) IN
    Mat(4, 4, << QDiv(QMul(hh, height), width), Z0, Z0, Z0,
                 Z0, hh, Z0, Z0,
                 Z0, Z0, QMul(s, QDiv(IF zo THEN f ELSE QAdd(f, n), d)), s,
                 Z0, Z0, QNeg(QDiv(QMul(IF zo THEN QOne ELSE QTwo, QMul(f, n)), d)), Z0 >>)
\* far plane at infinity
InfinitePerspective(T, aspect, n, lh, zo) ==
    LET s == Sgn(lh) IN
    Mat(4, 4, << QInv(QMul(aspect, T)), Z0, Z0, Z0,
                 Z0, QInv(T), Z0, Z0,
                 Z0, Z0, s, s,
                 Z0, Z0, QNeg(QMul(IF zo THEN QOne ELSE QTwo, n)), Z0 >>)
\* Lengyel's tweaked infinite projection (right handed, [-1,1] depth): depth of infinity is 1 - ep
TweakedInfinitePerspective(T, aspect, n, ep) ==
    Mat(4, 4, << QInv(QMul(aspect, T)), Z0, Z0, Z0,
                 Z0, QInv(T), Z0, Z0,
                 Z0, Z0, QSub(ep, QOne), QMinusOne,
                 Z0, Z0, QMul(QSub(ep, QTwo), n), Z0 >>)

\* positions (column-major index 1..16) whose value depends on the parameters; every other entry is a
\* structural constant 0 / 1 / -1
Computed(family) ==
    CASE family = "ortho" -> {1, 6, 11, 13, 14, 15}
      [] family = "ortho2" -> {1, 6, 13, 14}
      [] family = "frustum" -> {1, 6, 9, 10, 11, 15}
      [] family \in {"perspective", "perspectiveFov", "tweaked", "tweakedEp"} -> {1, 6, 11, 15}
      [] family = "infinitePerspective" -> {1, 6, 15}

\* ---------------------------------------------------------------- dyadic-friendly exact linear algebra
\* LinQ's rationals are not normalised; with float inputs (power-of-two denominators) long sums would square
\* the denominators at every addition.  QN2 removes the common power of two; the N-suffixed operators
\* normalise after every addition.
TZSmall(x) == CHOOSE k \in 0..14 : x % (2^(k+1)) # 0 /\ x % (2^k) = 0                \* 1 <= x < 2^15
TZ(m) == LET i == CHOOSE i \in 1..Len(m) : m[i] # 0 /\ \A j \in 1..(i-1) : m[j] = 0 IN 15 * (i - 1) + TZSmall(m[i])   \* m # 0
QN2(a) == IF QIsZero(a) THEN QZero
          ELSE LET k1 == TZ(a.p.m) k2 == TZ(a.q) k == IF k1 < k2 THEN k1 ELSE k2
               IN IF k = 0 THEN a ELSE QMk(ZMk(a.p.neg, NShr(a.p.m, k)), NShr(a.q, k))
\* dyadic-aware sum / product: power-of-two denominators are aligned by shifting instead of multiplying
IsP2N(q) == TZ(q) = NBitLen(q) - 1
Lg2(q) == NBitLen(q) - 1
QAddN(a, b) ==
    IF a.q = b.q THEN QN2(QMk(ZAdd(a.p, b.p), a.q))
    ELSE IF IsP2N(a.q) /\ IsP2N(b.q)
         THEN LET ka == Lg2(a.q) kb == Lg2(b.q)
              IN IF ka > kb THEN QN2(QMk(ZAdd(a.p, ZShl(b.p, ka - kb)), a.q)) ELSE QN2(QMk(ZAdd(ZShl(a.p, kb - ka), b.p), b.q))
         ELSE QN2(QAdd(a, b))
QMulN(a, b) == IF QIsZero(a) \/ QIsZero(b) THEN QZero
               ELSE QN2(QMk(ZMul(a.p, b.p), IF IsP2N(a.q) /\ IsP2N(b.q) THEN NShl(a.q, Lg2(b.q)) ELSE NMul(a.q, b.q)))
QSubN(a, b) == QAddN(a, QNeg(b))
\* TLC keeps [x \in S |-> e] as an unevaluated closure and re-evaluates e at every application; concatenation
\* yields an explicit tuple, so Tup makes a sequence "eager" (evaluated once)
Tup(s) == s \o << >>
MatE(m) == Mat(m.c, m.r, Tup(m.e))
RECURSIVE QSumNFrom(_, _, _)
QSumNFrom(s, i, n) == IF i > n THEN QZero ELSE QAddN(QN2(s[i]), QSumNFrom(s, i + 1, n))
QSumN(s0) == LET s == Tup(s0) IN QSumNFrom(s, 1, Len(s))
MVecN(A, v0) == LET v == Tup(v0) IN Tup([r \in 1..A.r |-> QSumN([k \in 1..A.c |-> QMulN(MAt(A, k, r), v[k])])])
MMulN(A0, B0) == LET A == MatE(A0) B == MatE(B0)
                 IN MatE(MFromFn(B.c, A.r, LAMBDA c, r : QSumN([k \in 1..A.c |-> QMulN(MAt(A, k, r), MAt(B, c, k))])))
MAbs(A) == Mat(A.c, A.r, Tup([k \in 1..Len(A.e) |-> QAbs(A.e[k])]))
VAbs(v) == Tup([i \in 1..Len(v) |-> QAbs(v[i])])
Det3N(m0) ==
    LET m == MatE(m0) a(c, r) == MAt(m, c, r) IN
    QSumN(<< QMulN(a(1,1), QAddN(QMulN(a(2,2), a(3,3)), QNeg(QMulN(a(3,2), a(2,3))))),
             QNeg(QMulN(a(2,1), QAddN(QMulN(a(1,2), a(3,3)), QNeg(QMulN(a(3,2), a(1,3)))))),
             QMulN(a(3,1), QAddN(QMulN(a(1,2), a(2,3)), QNeg(QMulN(a(2,2), a(1,3))))) >>)
\* adjugate and determinant of a 4x4 (m * Adj4N(m) = Det4N(m) * I)
Adj4N(m0) == LET m == MatE(m0) IN
             MatE(MFromFn(4, 4, LAMBDA c, r : LET t == Det3N(MMinor(m, r, c)) IN IF (c + r) % 2 = 0 THEN t ELSE QNeg(t)))
Det4N(m0) == LET m == MatE(m0) IN
             QSumN([col \in 1..4 |-> LET t == QMulN(MAt(m, col, 1), Det3N(MMinor(m, col, 1))) IN IF col % 2 = 1 THEN t ELSE QNeg(t)])

MatN(m) == Mat(m.c, m.r, Tup([k \in 1..Len(m.e) |-> QN2(m.e[k])]))
\* a rational with a power-of-two denominator as a dyadic; an upper / lower bound of |d| with a mantissa of <= 16 bits
DOfQ(a) == DMk(a.p.neg, a.p.m, -Lg2(a.q))                                 \* requires IsP2N(a.q)
IsDyadicQ(a) == IsP2N(a.q)
UpD(d) == LET n == NBitLen(d.m) IN IF n <= 15 THEN DAbs(d) ELSE DMk(FALSE, NAdd(NShr(d.m, n - 15), <<1>>), d.e + n - 15)
LowD(d) == LET n == NBitLen(d.m) IN IF n <= 15 THEN DAbs(d) ELSE DMk(FALSE, NShr(d.m, n - 15), d.e + n - 15)

\* ---------------------------------------------------------------- project / unProject / pickMatrix
Hom(v) == << v[1], v[2], v[3], QOne >>
\* clip coordinates of an object point
ClipOf(obj, model, proj) == MVecN(proj, MVecN(model, Hom(obj)))
\* window coordinates: viewport = <<x, y, width, height>>; depth range [0,1]
ProjectQ(obj, model, proj, vp, zo) ==                                   \* requires w # 0
    LET c == ClipOf(obj, model, proj)
        nd == Tup([i \in 1..3 |-> QDiv(c[i], c[4])])
    IN << QAdd(QMul(QAdd(QMul(nd[1], QHalf), QHalf), vp[3]), vp[1]),
          QAdd(QMul(QAdd(QMul(nd[2], QHalf), QHalf), vp[4]), vp[2]),
          IF zo THEN nd[3] ELSE QAdd(QMul(nd[3], QHalf), QHalf) >>
\* the same without divisions: numerators << Nx, Ny, Nz >> and denominators << Dxy, Dz >> (window = N / D)
ProjectHom(obj, model, proj, vp, zo) ==
    LET c == ClipOf(obj, model, proj) w == c[4] w2 == QMulN(QTwo, w) IN
    << QAddN(QMulN(c[1], vp[3]), QMulN(w, QAddN(vp[3], QMulN(QTwo, vp[1])))),
       QAddN(QMulN(c[2], vp[4]), QMulN(w, QAddN(vp[4], QMulN(QTwo, vp[2])))),
       IF zo THEN c[3] ELSE QAddN(c[3], w),
       w2, IF zo THEN w ELSE w2 >>
\* normalised device coordinates of a window point
NdcOfWin(win, vp, zo) ==
    << QSub(QMul(QDiv(QSub(win[1], vp[1]), vp[3]), QTwo), QOne),
       QSub(QMul(QDiv(QSub(win[2], vp[2]), vp[4]), QTwo), QOne),
       IF zo THEN win[3] ELSE QSub(QMul(win[3], QTwo), QOne), QOne >>
\* the homogeneous pre-image, up to the common factor det(proj * model); adj = Adj4N(proj * model)
UnProjectHomA(adj, win, vp, zo) == MVecN(adj, NdcOfWin(win, vp, zo))
UnProjectHom(win, model, proj, vp, zo) == UnProjectHomA(Adj4N(MMulN(proj, model)), win, vp, zo)
\* the same with the NDC point scaled by width * height (no division): DeHom is unchanged by the common factor
NdcOfWinS(win, vp, zo) ==
    << QMulN(QSubN(QMulN(QTwo, QSubN(win[1], vp[1])), vp[3]), vp[4]),
       QMulN(QSubN(QMulN(QTwo, QSubN(win[2], vp[2])), vp[4]), vp[3]),
       QMulN(IF zo THEN win[3] ELSE QSubN(QMulN(QTwo, win[3]), QOne), QMulN(vp[3], vp[4])),
       QMulN(vp[3], vp[4]) >>
UnProjectHomS(adj, win, vp, zo) == MVecN(adj, NdcOfWinS(win, vp, zo))
DeHom(o) == << QDiv(o[1], o[4]), QDiv(o[2], o[4]), QDiv(o[3], o[4]) >>
UnProjectQ(win, model, proj, vp, zo) == DeHom(UnProjectHom(win, model, proj, vp, zo))   \* requires det # 0 and a finite pre-image
\* gluPickMatrix: restricts the view to the window rectangle of size delta centred at center
PickMatrix(center, delta, vp) ==
    LET sx == QDiv(vp[3], delta[1]) sy == QDiv(vp[4], delta[2])
        tx == QDiv(QSub(vp[3], QMul(QTwo, QSub(center[1], vp[1]))), delta[1])
        ty == QDiv(QSub(vp[4], QMul(QTwo, QSub(center[2], vp[2]))), delta[2])
    IN Mat(4, 4, << sx, Z0, Z0, Z0,  Z0, sy, Z0, Z0,  Z0, Z0, QOne, Z0,  tx, ty, Z0, QOne >>)
=============================================================================
