------------------------------ MODULE GlmLinAlg ------------------------------
(***************************************************************************)
(* Definitional semantics of the GLM linear-algebra functions around the   *)
(* inverse (property C10), in exact arithmetic:                            *)
(*   determinant (Leibniz sum over permutations, and the Laplace MDet of   *)
(*   LinQ -- MC_C10 checks that both agree), inverse (adjugate / det),     *)
(*   inverseTranspose, affineInverse (block formula), operator/ between    *)
(*   matrices, vectors and scalars, adjugate, the diagonal builders,       *)
(*   flipud / fliplr, the gtx/matrix_query predicates (three-valued: the   *)
(*   documented comparison with a guard band around the threshold), and    *)
(*   the QR / RQ factorisations as postconditions.                         *)
(* Two layers with the same definitions:                                   *)
(*   LA*  on LinQ's rational matrices [c, r, e] (column-major,             *)
(*        MAt(m, col, row) 1-based) -- any dyadic input, tolerances are    *)
(*        explicit rationals; observed floats enter through LinQ!QW        *)
(*   LI*  on tuples of TLC's native integers -- the small-integer          *)
(*        (unimodular) inputs of the property, where everything is exact   *)
(* No floating point anywhere.                                             *)
(***************************************************************************)
EXTENDS LinQ, FiniteSets, SequencesExt

\* ---------------------------------------------------------------- strict binding and materialisation
\* TLC binds operator parameters and LET definitions by name (an argument expression is evaluated again at
\* every use inside the body -- measured: MScale(MAdj(m), QInv(MDet(m))) computes the determinant once per
\* entry) and represents [k \in S |-> body] as a closure whose body runs at every application.  Variables
\* bound by a quantifier or a set constructor are bound to VALUES.  LALet1/2/3 are "let v = x in F(v)" written
\* with such a binder, and LAForceSeq / LAForce turn a closure into an explicit tuple (concatenation with
\* the empty sequence enumerates its argument once).  Semantically all of these are identities.
LALet1(x, F(_)) == CHOOSE y \in {F(v) : v \in {x}} : TRUE
LALet2(x1, x2, F(_, _)) == CHOOSE y \in {F(v[1], v[2]) : v \in {<<x1, x2>>}} : TRUE
LALet3(x1, x2, x3, F(_, _, _)) == CHOOSE y \in {F(v[1], v[2], v[3]) : v \in {<<x1, x2, x3>>}} : TRUE
LAForceSeq(t) == t \o << >>
LAForce(m) == [c |-> m.c, r |-> m.r, e |-> m.e \o << >>]

\* ---------------------------------------------------------------- strict versions of the LinQ operations used below
LAMul(a, b) == LALet2(a, b, LAMBDA x, y : LAForce(MMul(x, y)))
LAMulVec(a, v) == LALet2(a, v, LAMBDA x, y : LAForceSeq(MVec(x, y)))
LAVecMul(v, a) == LALet2(v, a, LAMBDA x, y : LAForceSeq(VMat(x, y)))
LATranspose(m) == LALet1(m, LAMBDA x : LAForce(MTranspose(x)))
LASub(a, b) == LALet2(a, b, LAMBDA x, y : LAForce(MSub(x, y)))
LAScale(a, s) == LALet2(a, s, LAMBDA x, y : LAForce(MScale(x, y)))
LAAbs(m) == LALet1(m, LAMBDA x : Mat(x.c, x.r, LAForceSeq([i \in 1..Len(x.e) |-> QAbs(x.e[i])])))
LAMaxAbs(m) == LALet1(m, LAMBDA x : QMaxAbs(x.e))
LANormInf(m) == LALet1(m, LAMBDA x : MNormInf(x))
LAMatEq(a, b) == \A v \in {<<a, b>>} : MEq(v[1], v[2])
LAVecEq(a, b) == \A v \in {<<a, b>>} : Len(v[1]) = Len(v[2]) /\ \A i \in 1..Len(v[1]) : QEq(v[1][i], v[2][i])

\* ---------------------------------------------------------------- dyadic scaling
\* Observed floats are p / 2^j.  Sums of rationals with different denominators multiply the
\* denominators (Exact!QAdd does not reduce), so matrices of floats are first scaled to integer
\* matrices by a common power of two:  M = Mi / 2^k.  Then inverse(M) = 2^k inverse(Mi),
\* det(M) = det(Mi) / 2^(nk), adj(M) = adj(Mi) / 2^((n-1)k), cond(M) = cond(Mi).
LAQExp(q) == NBitLen(q.q) - 1                                   \* q.q = 2^LAQExp(q)  (dyadic q only)
LAIsDyadic(q) == q.q = NShl(<<1>>, LAQExp(q))
LAMaxOf(S) == CHOOSE x \in S : \A y \in S : y <= x
LASeqExp(s) == LALet1(s, LAMBDA t : LAMaxOf({LAQExp(t[i]) : i \in 1..Len(t)} \cup {0}))
LAQUp(q, k) == QMk(ZMk(q.p.neg, NShl(q.p.m, k - LAQExp(q))), <<1>>)          \* q * 2^k, an integer (k >= LAQExp(q))
LAQMul2k(q, k) == IF k >= 0 THEN QMk(ZMk(q.p.neg, NShl(q.p.m, k)), q.q) ELSE QMk(q.p, NShl(q.q, -k))   \* q * 2^k
LASeqUp(s, k) == LALet2(s, k, LAMBDA t, j : LAForceSeq([i \in 1..Len(t) |-> LAQUp(t[i], j)]))
LASeqMul2k(s, k) == LALet2(s, k, LAMBDA t, j : LAForceSeq([i \in 1..Len(t) |-> LAQMul2k(t[i], j)]))
LAMatUp(m, k) == LALet1(m, LAMBDA x : Mat(x.c, x.r, LASeqUp(x.e, k)))
LAMatMul2k(m, k) == LALet1(m, LAMBDA x : Mat(x.c, x.r, LASeqMul2k(x.e, k)))
\* product of two dyadic matrices through the integer images (all entries of the result share one denominator)
LAMMulD(a, b) == LALet2(a, b, LAMBDA x, y : LALet2(LASeqExp(x.e), LASeqExp(y.e), LAMBDA ka, kb :
                     LAMatMul2k(LAMul(LAMatUp(x, ka), LAMatUp(y, kb)), -(ka + kb))))

\* ---------------------------------------------------------------- determinant
\* Leibniz: sum over the permutations p of sign(p) * prod_i m[i][p(i)]
LAPerms(n) == {p \in [1..n -> 1..n] : \A i, j \in 1..n : i # j => p[i] # p[j]}
LAPermSign(p, n) == IF Cardinality({ij \in (1..n) \X (1..n) : ij[1] < ij[2] /\ p[ij[1]] > p[ij[2]]}) % 2 = 0 THEN 1 ELSE -1
RECURSIVE LAProdFrom(_, _)
LAProdFrom(s, i) == IF i > Len(s) THEN QOne ELSE QMul(s[i], LAProdFrom(s, i + 1))
LAProd(s) == LALet1(LAForceSeq(s), LAMBDA t : LAProdFrom(t, 1))
\* constant tables: the permutations of 1..n as a sequence, their signs, and LASkip[n][j] = 1..n without j (ascending)
\* (literal tuples: TLC keeps a constant [n \in S |-> ...] as an unevaluated closure and recomputes it at every application;
\* MC_C10 checks the literals against LAPerms / LAPermSign)
LAPermTable ==
    << <<<<1>>>>,
       <<<<1, 2>>, <<2, 1>>>>,
       <<<<1, 2, 3>>, <<1, 3, 2>>, <<2, 1, 3>>, <<2, 3, 1>>, <<3, 1, 2>>, <<3, 2, 1>>>>,
       <<<<1, 2, 3, 4>>, <<1, 2, 4, 3>>, <<1, 3, 2, 4>>, <<1, 3, 4, 2>>, <<1, 4, 2, 3>>, <<1, 4, 3, 2>>, <<2, 1, 3, 4>>, <<2, 1, 4, 3>>, <<2, 3, 1, 4>>, <<2, 3, 4, 1>>, <<2, 4, 1, 3>>, <<2, 4, 3, 1>>, <<3, 1, 2, 4>>, <<3, 1, 4, 2>>, <<3, 2, 1, 4>>, <<3, 2, 4, 1>>, <<3, 4, 1, 2>>, <<3, 4, 2, 1>>, <<4, 1, 2, 3>>, <<4, 1, 3, 2>>, <<4, 2, 1, 3>>, <<4, 2, 3, 1>>, <<4, 3, 1, 2>>, <<4, 3, 2, 1>>>> >>
LASignTable ==
    << <<1>>,
       <<1, -1>>,
       <<1, -1, -1, 1, 1, -1>>,
       <<1, -1, -1, 1, 1, -1, -1, 1, 1, -1, -1, 1, 1, -1, -1, 1, 1, -1, -1, 1, 1, -1, -1, 1>> >>
LASkip ==
    << <<<<>>>>,
       <<<<2>>, <<1>>>>,
       <<<<2, 3>>, <<1, 3>>, <<1, 2>>>>,
       <<<<2, 3, 4>>, <<1, 3, 4>>, <<1, 2, 4>>, <<1, 2, 3>>>>,
       <<<<2, 3, 4, 5>>, <<1, 3, 4, 5>>, <<1, 2, 4, 5>>, <<1, 2, 3, 5>>, <<1, 2, 3, 4>>>> >>
LAIota == << <<1>>, <<1, 2>>, <<1, 2, 3>>, <<1, 2, 3, 4>>, <<1, 2, 3, 4, 5>> >>
LALeibniz(m) ==
    LALet1(m, LAMBDA x :
      LET n == x.c ps == LAPermTable[n] sg == LASignTable[n]
      IN QSum(LAForceSeq([k \in 1..Len(ps) |-> LET t == LAProd([i \in 1..n |-> MAt(x, i, ps[k][i])])
                                               IN IF sg[k] = 1 THEN t ELSE QNeg(t)])))
LADet(m) == LALet1(m, LAMBDA x : MDet(x))                         \* Laplace along the first row (LinQ); = LALeibniz (MC_C10)
\* permanent: the same sum without the signs; of |m| it is the sum of the absolute values of the Leibniz terms
\* (the "largest intermediate" scale of a determinant)
RECURSIVE LAPermRec(_)
LAPermRec(m) == IF m.c = 1 THEN m.e[1] ELSE QSum([col \in 1..m.c |-> QMul(MAt(m, col, 1), LAPermRec(MMinor(m, col, 1)))])
LAPerm(m) == LALet1(m, LAMBDA x : LAPermRec(x))
LAPermAdj(m) == LALet1(m, LAMBDA x : IF x.c = 1 THEN Mat(1, 1, <<QOne>>)
                                      ELSE LAForce(MFromFn(x.c, x.r, LAMBDA c, r : LAPermRec(MMinor(x, r, c)))))

\* ---------------------------------------------------------------- inverse and its variants
LAAdjugate(m) == LALet1(m, LAMBDA x : LAForce(MAdj(x)))            \* adj[c][r] = (-1)^(c+r) det(m without column r and row c)
LAInverseFrom(adj, det) == LAScale(adj, QInv(det))
LAInverse(m) == LALet1(m, LAMBDA x : LAInverseFrom(LAAdjugate(x), MDet(x)))       \* adj(m) / det(m),  det # 0  (= LinQ!MInv)
LAInverseTranspose(m) == LATranspose(LAInverse(m))
LACond(m, inv) == QMul(LANormInf(m), LANormInf(inv))              \* infinity-norm condition number given the inverse
\* affine matrices: last row (0, ..., 0, 1); [A t; 0 1]^-1 = [A^-1  -A^-1 t; 0 1]
LAIsAffine(m) == \A x \in {m} : x.c = x.r /\ \A c \in 1..x.c : QEq(MAt(x, c, x.r), IF c = x.c THEN QOne ELSE QZero)
LALinearPart(m) == LALet1(m, LAMBDA x : LAForce(MFromFn(x.c - 1, x.r - 1, LAMBDA c, r : MAt(x, c, r))))
LATranslation(m) == LALet1(m, LAMBDA x : LAForceSeq([r \in 1..(x.r - 1) |-> MAt(x, x.c, r)]))
LAAffineFrom(lin, t) == LALet2(lin, t, LAMBDA x, y : LET n == x.c + 1 IN
    LAForce(MFromFn(n, n, LAMBDA c, r : IF r = n THEN (IF c = n THEN QOne ELSE QZero) ELSE IF c = n THEN y[r] ELSE MAt(x, c, r))))
LAAffineInverseWith(linInv, t) == LALet2(linInv, t, LAMBDA x, y : LAAffineFrom(x, LAForceSeq(VNeg(LAMulVec(x, y)))))
LAAffineInverse(m) == LALet1(m, LAMBDA x : LAAffineInverseWith(LAInverse(LALinearPart(x)), LATranslation(x)))
\* operator/ : matrices and vectors multiply by the inverse; scalars divide component-wise
LADivMM(a, b) == LAMul(a, LAInverse(b))                           \* a / b = a * inverse(b)
LADivMV(m, v) == LAMulVec(LAInverse(m), v)                        \* m / v = inverse(m) * v
LADivVM(v, m) == LAVecMul(v, LAInverse(m))                        \* v / m = v * inverse(m)

\* ---------------------------------------------------------------- builders, flips
LADiagonal(C, R, v) == LALet1(v, LAMBDA x : LAForce(MFromFn(C, R, LAMBDA c, r : IF c = r THEN (IF c <= Len(x) THEN x[c] ELSE QOne) ELSE QZero)))
LAFlipLR(m) == LALet1(m, LAMBDA x : LAForce(MFromFn(x.c, x.r, LAMBDA c, r : MAt(x, x.c + 1 - c, r))))          \* columns right <-> left
LAFlipUD(m) == LALet1(m, LAMBDA x : LAForce(MFromFn(x.c, x.r, LAMBDA c, r : MAt(x, c, x.r + 1 - r))))          \* rows up <-> down

\* ---------------------------------------------------------------- integer / unimodular
LAQIsInt(q) == q.q = <<1>>
LAIsIntM(m) == \A x \in {m} : \A i \in 1..Len(x.e) : LAQIsInt(x.e[i])
LAIsUnimodular(m) == \A x \in {m} : x.c = x.r /\ LAIsIntM(x) /\ QEq(QAbs(MDet(x)), QOne)
LAIsSignedPerm(m) == \A x \in {m} :
    /\ \A i \in 1..Len(x.e) : QIsZero(x.e[i]) \/ QEq(QAbs(x.e[i]), QOne)
    /\ \A c \in 1..x.c : Cardinality({r \in 1..x.r : ~QIsZero(MAt(x, c, r))}) = 1
    /\ \A r \in 1..x.r : Cardinality({c \in 1..x.c : ~QIsZero(MAt(x, c, r))}) = 1

\* ---------------------------------------------------------------- the same algebra on small native integers
\* For matrices of small integers (the unimodular inputs of the property, where "all of these are
\* exact") every quantity is a small integer, and the definitions are repeated on TLC's native
\* integers.  An n x n integer matrix is a tuple of n*n integers, column-major.  The determinant is the
\* Leibniz sum over the constant permutation tables, a cofactor the same sum over the permutations of
\* n-1 on the remaining rows / columns; MC_C10 checks on its states that this layer agrees with LinQ
\* (Laplace recursion on rationals).
LIAt(e, n, c, r) == e[(c - 1) * n + r]
RECURSIVE LISumFrom(_, _)
LISumFrom(t, i) == IF i > Len(t) THEN 0 ELSE t[i] + LISumFrom(t, i + 1)
LISum(t) == LALet1(LAForceSeq(t), LAMBDA x : LISumFrom(x, 1))
\* determinant of the m x m submatrix with columns cs and rows rs of the n x n matrix e  (e, cs, rs: explicit tuples)
LIDetSel(e, n, cs, rs, m) ==
    IF m = 0 THEN 1 ELSE
    LET ps == LAPermTable[m] sg == LASignTable[m] IN
    LISum([k \in 1..Len(ps) |->
        LET p == ps[k] IN
        sg[k] * (IF m = 1 THEN e[(cs[1] - 1) * n + rs[p[1]]]
                 ELSE IF m = 2 THEN e[(cs[1] - 1) * n + rs[p[1]]] * e[(cs[2] - 1) * n + rs[p[2]]]
                 ELSE IF m = 3 THEN e[(cs[1] - 1) * n + rs[p[1]]] * e[(cs[2] - 1) * n + rs[p[2]]] * e[(cs[3] - 1) * n + rs[p[3]]]
                 ELSE e[(cs[1] - 1) * n + rs[p[1]]] * e[(cs[2] - 1) * n + rs[p[2]]] * e[(cs[3] - 1) * n + rs[p[3]]] * e[(cs[4] - 1) * n + rs[p[4]]])])
LIDet(e, n) == LALet1(e, LAMBDA x : LIDetSel(x, n, LAIota[n], LAIota[n], n))                 \* n <= 4
\* adjugate: adj[c][r] = (-1)^(c+r) det(e without column r and row c)    (so that e * adj = det * I; same convention as LinQ!MAdj)
LIAdj(e, n) == LALet1(e, LAMBDA x :
                 LAForceSeq([k \in 1..(n * n) |-> LET c == ((k - 1) \div n) + 1 r == ((k - 1) % n) + 1
                                                  IN (IF (c + r) % 2 = 0 THEN 1 ELSE -1) * LIDetSel(x, n, LASkip[n][r], LASkip[n][c], n - 1)]))
LITranspose(e, n) == LALet1(e, LAMBDA x : LAForceSeq([k \in 1..(n * n) |-> LIAt(x, n, ((k - 1) % n) + 1, ((k - 1) \div n) + 1)]))
LIMul(a, b, n) == LALet2(a, b, LAMBDA x, y :                                                   \* a * b
                    LAForceSeq([k \in 1..(n * n) |-> LET c == ((k - 1) \div n) + 1 r == ((k - 1) % n) + 1
                                                     IN LISum([j \in 1..n |-> LIAt(x, n, j, r) * LIAt(y, n, c, j)])]))
LIMulVec(a, v, n) == LALet2(a, v, LAMBDA x, y : LAForceSeq([r \in 1..n |-> LISum([j \in 1..n |-> LIAt(x, n, j, r) * y[j]])]))     \* a * v
LIVecMul(v, a, n) == LALet2(v, a, LAMBDA y, x : LAForceSeq([c \in 1..n |-> LISum([j \in 1..n |-> y[j] * LIAt(x, n, c, j)])]))     \* v * a
LIScale(e, k) == LALet2(e, k, LAMBDA x, s : LAForceSeq([i \in 1..Len(x) |-> s * x[i]]))
LIIdentity(n) == LAForceSeq([k \in 1..(n * n) |-> IF ((k - 1) \div n) = ((k - 1) % n) THEN 1 ELSE 0])
LIInverseUni(e, n) == LALet1(e, LAMBDA x : LIScale(LIAdj(x, n), LIDet(x, n)))    \* inverse of a unimodular matrix: adj / det = det * adj (det = +-1)
LIIsAffine(e, n) == \A x \in {e} : \A c \in 1..n : LIAt(x, n, c, n) = (IF c = n THEN 1 ELSE 0)
LIAffineFrom(lin, t, n) ==      \* n = size of lin; result (n+1) x (n+1)
    LALet2(lin, t, LAMBDA x, y :
      LAForceSeq([k \in 1..((n + 1) * (n + 1)) |-> LET c == ((k - 1) \div (n + 1)) + 1 r == ((k - 1) % (n + 1)) + 1
                                                   IN IF r = n + 1 THEN (IF c = n + 1 THEN 1 ELSE 0) ELSE IF c = n + 1 THEN y[r] ELSE LIAt(x, n, c, r)]))
LILinearPart(e, n) == LALet1(e, LAMBDA x : LAForceSeq([k \in 1..((n - 1) * (n - 1)) |-> LIAt(x, n, ((k - 1) \div (n - 1)) + 1, ((k - 1) % (n - 1)) + 1)]))
LITranslation(e, n) == LALet1(e, LAMBDA x : LAForceSeq([r \in 1..(n - 1) |-> LIAt(x, n, n, r)]))
LIAffineInverseUni(e, n) ==     \* e affine n x n with unimodular linear part
    LALet1(e, LAMBDA x : LALet1(LIInverseUni(LILinearPart(x, n), n - 1), LAMBDA li :
        LIAffineFrom(li, LIScale(LIMulVec(li, LITranslation(x, n), n - 1), -1), n - 1)))
LIToQ(e, n) == LALet1(e, LAMBDA x : Mat(n, n, LAForceSeq([i \in 1..(n * n) |-> QI(x[i])])))
LIVToQ(v) == LALet1(v, LAMBDA x : LAForceSeq([i \in 1..Len(x) |-> QI(x[i])]))

\* decoding of float / double bit patterns that hold an integer of magnitude < 2^11 (limbs least significant first);
\* anything else (fractions, larger values, NaN, infinities, denormals) gives LINotInt
LINotInt == 1000000
LIPow2(k) == 2^k
LISmallIntW(w) ==
    IF Len(w) = 2 THEN
        LET hi == w[2] sg == hi \div 32768 ex == (hi % 32768) \div 128 man == (hi % 128) * 65536 + w[1] IN
        IF ex = 0 /\ man = 0 THEN 0
        ELSE IF ex < 127 \/ ex > 137 THEN LINotInt
        ELSE LET sh == 150 - ex full == 8388608 + man IN
             IF full % LIPow2(sh) # 0 THEN LINotInt ELSE (IF sg = 1 THEN -1 ELSE 1) * (full \div LIPow2(sh))
    ELSE
        LET hi == w[4] sg == hi \div 32768 ex == (hi % 32768) \div 16 man == (hi % 16) * 65536 + w[3] IN
        IF ex = 0 /\ man = 0 /\ w[2] = 0 /\ w[1] = 0 THEN 0
        ELSE IF ex < 1023 \/ ex > 1033 \/ w[2] # 0 \/ w[1] # 0 THEN LINotInt
        ELSE LET sh == 1043 - ex full == 1048576 + man IN
             IF full % LIPow2(sh) # 0 THEN LINotInt ELSE (IF sg = 1 THEN -1 ELSE 1) * (full \div LIPow2(sh))
LISmallInts(ws) == LALet1(ws, LAMBDA x : LAForceSeq([i \in 1..Len(x) |-> LISmallIntW(x[i])]))
LIAllSmall(t, bound) == \A x \in {t} : \A i \in 1..Len(x) : x[i] <= bound /\ -x[i] <= bound

\* ---------------------------------------------------------------- fast decoding of observed floats
\* LinQ!QW goes through the general IEEE module (BigInt field extraction, ~ms per component).  The same value
\* computed with native integer arithmetic on the 16-bit limbs (least significant first), with the trailing zero
\* bits of the significand removed so that small values get small numerators / denominators.  MC_C10 checks
\* LAQOfW = QW on a lattice of patterns (normals, subnormals, zeros, both widths).
RECURSIVE LATz(_)
LATz(x) == IF x % 2 = 1 THEN 0 ELSE 1 + LATz(x \div 2)                     \* trailing zero bits, x > 0
LAFinW(w) == IF Len(w) = 2 THEN (w[2] % 32768) \div 128 # 255 ELSE (w[4] % 32768) \div 16 # 2047
LAAllFin(ws) == \A i \in 1..Len(ws) : LAFinW(ws[i])
LAQOfParts(neg, N, e) ==        \* (-1)^neg * N * 2^e, N a BigInt magnitude already stripped
    IF Len(N) = 0 THEN QZero
    ELSE IF e >= 0 THEN QMk(ZMk(neg, NShl(N, e)), <<1>>) ELSE QMk(ZMk(neg, N), NShl(<<1>>, -e))
LAQOfW(w) ==
    IF Len(w) = 2 THEN
        LET hi == w[2] ex == (hi % 32768) \div 128 man == (hi % 128) * 65536 + w[1]
            full == IF ex = 0 THEN man ELSE man + 8388608
            e == (IF ex = 0 THEN 1 ELSE ex) - 150
        IN IF full = 0 THEN QZero
           ELSE LET tz == LATz(full) sh == IF e >= 0 THEN 0 ELSE IF tz < -e THEN tz ELSE -e
                IN LAQOfParts(hi >= 32768, NFromNat(full \div (2^sh)), e + sh)
    ELSE
        LET l1 == w[1] l2 == w[2] l3 == w[3] hi == w[4] ex == (hi % 32768) \div 16
            top == (hi % 16) + (IF ex = 0 THEN 0 ELSE 16)
            e == (IF ex = 0 THEN 1 ELSE ex) - 1075
        IN IF l1 = 0 /\ l2 = 0 /\ l3 = 0 /\ top = 0 THEN QZero
           ELSE LET tz == IF l1 # 0 THEN LATz(l1) ELSE IF l2 # 0 THEN 16 + LATz(l2) ELSE IF l3 # 0 THEN 32 + LATz(l3) ELSE 48 + LATz(top)
                    sh == IF e >= 0 THEN 0 ELSE IF tz < -e THEN tz ELSE -e
                    \* base-2^15 digits of l1 + l2 2^16 + l3 2^32 + top 2^48
                    N == NNorm(<< l1 % 32768,
                                  (l1 \div 32768) + (l2 % 16384) * 2,
                                  (l2 \div 16384) + (l3 % 8192) * 4,
                                  (l3 \div 8192) + top * 8 >>)
                IN LAQOfParts(hi >= 32768, NShr(N, sh), e + sh)
LAQSeqOfW(ws) == LALet1(ws, LAMBDA x : LAForceSeq([i \in 1..Len(x) |-> LAQOfW(x[i])]))

\* ---------------------------------------------------------------- gtx/matrix_query, three-valued
\* "T" / "F" where the documented comparison is decided with a margin, "U" inside the guard band
\* (there the rounding of length() / dot() may legitimately tip the comparison either way)
LALe3(x, t, slack) == IF QLe(x, QSub(t, slack)) THEN "T" ELSE IF QLt(QAdd(t, slack), x) THEN "F" ELSE "U"
LAAll3(S) == IF "F" \in S THEN "F" ELSE IF "U" \in S THEN "U" ELSE "T"
\* vector predicates of gtx/vector_query: isNull: length(v) <= eps ; isNormalized: |length(v) - 1| <= 2 eps
LAIsNullV(v, eps, rel) == LALet2(VNorm2(v), QMul(eps, eps), LAMBDA n2, e2 : LALe3(n2, e2, QMul(rel, QMax(n2, e2))))
LAIsNormV(v, eps, rel) ==
    LALet2(VNorm2(v), QMulInt(eps, 2), LAMBDA n2, two :
      LET hi == QMul(QAdd(QOne, two), QAdd(QOne, two))
          lo == QMul(QSub(QOne, two), QSub(QOne, two))
          sl == QMul(rel, QMax(n2, hi))
      IN LAAll3({LALe3(n2, hi, sl),
                 IF QLe(QOne, two) \/ QLe(QAdd(lo, sl), n2) THEN "T" ELSE IF QLt(n2, QSub(lo, sl)) THEN "F" ELSE "U"}))
LAAbsLe3(x, eps, rel, scale) == LALe3(QAbs(x), eps, QMul(rel, QMax(scale, eps)))
LAIsNullM(m, eps, rel) == LALet1(m, LAMBDA x : LAAll3({LAIsNullV(MCol(x, c), eps, rel) : c \in 1..x.c}))
LAIsIdentityM(m, eps, rel) == LALet1(m, LAMBDA x :
    LAAll3({LAAbsLe3(QSub(MAt(x, c, r), IF c = r THEN QOne ELSE QZero), eps, rel, QAbs(MAt(x, c, r))) : c \in 1..x.c, r \in 1..x.r}))
LAIsNormalizedM(m, eps, rel) == LALet1(m, LAMBDA x :
    LAAll3({LAIsNormV(MCol(x, c), eps, rel) : c \in 1..x.c} \cup {LAIsNormV(MRow(x, r), eps, rel) : r \in 1..x.r}))
LAOrthoPairs(vs, eps, rel) ==
    LAAll3({LAIsNormV(vs[i], eps, rel) : i \in 1..Len(vs)}
           \cup {LAAbsLe3(VDot(vs[ij[1]], vs[ij[2]]), eps, rel, VDotAbs(vs[ij[1]], vs[ij[2]])) :
                    ij \in {p \in (1..Len(vs)) \X (1..Len(vs)) : p[1] < p[2]}})
LAIsOrthogonalM(m, eps, rel) == LALet1(m, LAMBDA x :
    LAAll3({LAOrthoPairs(LAForceSeq([c \in 1..x.c |-> LAForceSeq(MCol(x, c))]), eps, rel),
            LAOrthoPairs(LAForceSeq([r \in 1..x.r |-> LAForceSeq(MRow(x, r))]), eps, rel)}))

\* ---------------------------------------------------------------- QR / RQ postconditions
LAIsUpperTri(m) == \A x \in {m} : \A c \in 1..x.c, w \in 1..x.r : w > c => QIsZero(MAt(x, c, w))
\* RQ: "the diagonal is seen as starting in the lower-right corner": entry (c, w) is below it when w - r.r > c - r.c
LAIsUpperTriLR(m) == \A x \in {m} : \A c \in 1..x.c, w \in 1..x.r : (w + x.c > c + x.r) => QIsZero(MAt(x, c, w))
LAColOrthoDefect(q) == LALet1(q, LAMBDA x : LAMaxAbs(LASub(LAMMulD(LATranspose(x), x), MIdentity(x.c))))      \* max |q^T q - I|
LARowOrthoDefect(q) == LALet1(q, LAMBDA x : LAMaxAbs(LASub(LAMMulD(x, LATranspose(x)), MIdentity(x.r))))      \* max |q q^T - I|
LAResidual(a, b, m) == LAMaxAbs(LASub(LAMMulD(a, b), m))                                                       \* max |a b - m|
=============================================================================
