------------------------------ MODULE GlmLinAlg ------------------------------
(***************************************************************************)
(* Definitional semantics of the GLM linear-algebra functions around the   *)
(* inverse (property C10), over the exact rationals of LinQ:               *)
(*   determinant (Leibniz sum over permutations, and the Laplace MDet of   *)
(*   LinQ -- MC_C10 checks that both agree), inverse (adjugate / det),     *)
(*   inverseTranspose, affineInverse (block formula), operator/ between    *)
(*   matrices, vectors and scalars, adjugate, the diagonal builders,       *)
(*   flipud / fliplr, the gtx/matrix_query predicates (three-valued: the   *)
(*   documented comparison with a guard band around the threshold), and    *)
(*   the QR / RQ factorisations as postconditions.                         *)
(* No floating point here: observed floats enter as exact dyadic           *)
(* rationals (LinQ!QW) and tolerances are explicit rationals.              *)
(* A matrix is LinQ's [c, r, e] (column-major, MAt(m, col, row) 1-based).  *)
(***************************************************************************)
EXTENDS LinQ, FiniteSets, SequencesExt

\* ---------------------------------------------------------------- dyadic scaling
\* Observed floats are p / 2^j.  Sums of rationals with different denominators multiply the
\* denominators (Exact!QAdd does not reduce), so matrices of floats are first scaled to integer
\* matrices by a common power of two:  M = Mi / 2^k.  Then inverse(M) = 2^k inverse(Mi),
\* det(M) = det(Mi) / 2^(nk), adj(M) = adj(Mi) / 2^((n-1)k), cond(M) = cond(Mi).
LAQExp(q) == NBitLen(q.q) - 1                                   \* q.q = 2^LAQExp(q)  (dyadic q only)
LAIsDyadic(q) == q.q = NShl(<<1>>, LAQExp(q))
LAMaxOf(S) == CHOOSE x \in S : \A y \in S : y <= x
LASeqExp(s) == LAMaxOf({LAQExp(s[i]) : i \in 1..Len(s)} \cup {0})
LAQUp(q, k) == QMk(ZMk(q.p.neg, NShl(q.p.m, k - LAQExp(q))), <<1>>)          \* q * 2^k, an integer (k >= LAQExp(q))
LAQMul2k(q, k) == IF k >= 0 THEN QMk(ZMk(q.p.neg, NShl(q.p.m, k)), q.q) ELSE QMk(q.p, NShl(q.q, -k))   \* q * 2^k
LASeqUp(s, k) == [i \in 1..Len(s) |-> LAQUp(s[i], k)]
LAMatUp(m, k) == Mat(m.c, m.r, LASeqUp(m.e, k))
LAMatMul2k(m, k) == Mat(m.c, m.r, [i \in 1..Len(m.e) |-> LAQMul2k(m.e[i], k)])
\* product of two dyadic matrices through the integer images (all entries of the result share one denominator)
LAMMulD(a, b) == LET ka == LASeqExp(a.e) kb == LASeqExp(b.e) IN LAMatMul2k(MMul(LAMatUp(a, ka), LAMatUp(b, kb)), -(ka + kb))
LAMVecD(a, v) == LET ka == LASeqExp(a.e) kv == LASeqExp(v) p == MVec(LAMatUp(a, ka), LASeqUp(v, kv))
                 IN [i \in 1..Len(p) |-> LAQMul2k(p[i], -(ka + kv))]

\* ---------------------------------------------------------------- determinant
\* Leibniz: sum over the permutations p of sign(p) * prod_i m[i][p(i)]
LAPerms(n) == {p \in [1..n -> 1..n] : \A i, j \in 1..n : i # j => p[i] # p[j]}
LAPermSign(p, n) == IF Cardinality({ij \in (1..n) \X (1..n) : ij[1] < ij[2] /\ p[ij[1]] > p[ij[2]]}) % 2 = 0 THEN 1 ELSE -1
RECURSIVE LAProdFrom(_, _)
LAProdFrom(s, i) == IF i > Len(s) THEN QOne ELSE QMul(s[i], LAProdFrom(s, i + 1))
LAProd(s) == LAProdFrom(s, 1)
\* constant tables (TLC evaluates constant-level definitions once): the permutations of 1..n as a sequence, and their signs
LAPermTable == [n \in 1..4 |-> SetToSeq(LAPerms(n))]
LASignTable == [n \in 1..4 |-> [k \in 1..Len(LAPermTable[n]) |-> LAPermSign(LAPermTable[n][k], n)]]
LALeibniz(m) ==
    LET n == m.c ps == LAPermTable[n] sg == LASignTable[n]
    IN QSum([k \in 1..Len(ps) |-> LET t == LAProd([i \in 1..n |-> MAt(m, i, ps[k][i])])
                                  IN IF sg[k] = 1 THEN t ELSE QNeg(t)])
LADet(m) == MDet(m)                                               \* Laplace along the first row (LinQ); = LALeibniz (MC_C10)
\* permanent of |m|: the sum of the absolute values of the Leibniz terms (the "largest intermediate" scale of a determinant)
LAAbs(m) == Mat(m.c, m.r, [i \in 1..Len(m.e) |-> QAbs(m.e[i])])
RECURSIVE LAPerm(_)
LAPerm(m) == IF m.c = 1 THEN m.e[1] ELSE QSum([col \in 1..m.c |-> QMul(MAt(m, col, 1), LAPerm(MMinor(m, col, 1)))])
LAPermAdj(m) == IF m.c = 1 THEN Mat(1, 1, <<QOne>>) ELSE MFromFn(m.c, m.r, LAMBDA c, r : LAPerm(MMinor(m, r, c)))

\* ---------------------------------------------------------------- inverse and its variants
LAInverse(m) == MInv(m)                                           \* adj(m) / det(m),  det # 0
LAInverseTranspose(m) == MTranspose(MInv(m))
LAAdjugate(m) == MAdj(m)
LACond(m, inv) == QMul(MNormInf(m), MNormInf(inv))                \* infinity-norm condition number given the inverse
\* affine matrices: last row (0, ..., 0, 1); [A t; 0 1]^-1 = [A^-1  -A^-1 t; 0 1]
LAIsAffine(m) == m.c = m.r /\ \A c \in 1..m.c : QEq(MAt(m, c, m.r), IF c = m.c THEN QOne ELSE QZero)
LALinearPart(m) == MFromFn(m.c - 1, m.r - 1, LAMBDA c, r : MAt(m, c, r))
LATranslation(m) == [r \in 1..(m.r - 1) |-> MAt(m, m.c, r)]
LAAffineFrom(lin, t) == LET n == lin.c + 1 IN
    MFromFn(n, n, LAMBDA c, r : IF r = n THEN (IF c = n THEN QOne ELSE QZero) ELSE IF c = n THEN t[r] ELSE MAt(lin, c, r))
LAAffineInverseWith(linInv, t) == LAAffineFrom(linInv, VNeg(MVec(linInv, t)))
LAAffineInverse(m) == LAAffineInverseWith(MInv(LALinearPart(m)), LATranslation(m))
\* operator/ : matrices and vectors multiply by the inverse; scalars divide component-wise
LADivMM(a, b) == MMul(a, MInv(b))                                 \* a / b = a * inverse(b)
LADivMV(m, v) == MVec(MInv(m), v)                                 \* m / v = inverse(m) * v
LADivVM(v, m) == VMat(v, MInv(m))                                 \* v / m = v * inverse(m)

\* ---------------------------------------------------------------- builders, flips
LADiagonal(C, R, v) == MFromFn(C, R, LAMBDA c, r : IF c = r THEN (IF c <= Len(v) THEN v[c] ELSE QOne) ELSE QZero)
LAFlipLR(m) == MFromFn(m.c, m.r, LAMBDA c, r : MAt(m, m.c + 1 - c, r))          \* columns right <-> left
LAFlipUD(m) == MFromFn(m.c, m.r, LAMBDA c, r : MAt(m, c, m.r + 1 - r))          \* rows up <-> down

\* ---------------------------------------------------------------- integer / unimodular
LAQIsInt(q) == q.q = <<1>>
LAIsIntSeq(s, bound) == \A i \in 1..Len(s) : LAQIsInt(s[i]) /\ QLe(QAbs(s[i]), QI(bound))
LAIsUnimodular(m) == m.c = m.r /\ (\A i \in 1..Len(m.e) : LAQIsInt(m.e[i])) /\ QEq(QAbs(MDet(m)), QOne)
LAIsSignedPerm(m) ==
    /\ \A i \in 1..Len(m.e) : QIsZero(m.e[i]) \/ QEq(QAbs(m.e[i]), QOne)
    /\ \A c \in 1..m.c : Cardinality({r \in 1..m.r : ~QIsZero(MAt(m, c, r))}) = 1
    /\ \A r \in 1..m.r : Cardinality({c \in 1..m.c : ~QIsZero(MAt(m, c, r))}) = 1

\* ---------------------------------------------------------------- the same algebra on small native integers
\* For matrices of small integers (the unimodular inputs of the property, where "all of these are
\* exact") every quantity is a small integer, and the definitions are repeated on TLC's native
\* integers (same Laplace / adjugate shape as LinQ's MDet / MAdj; MC_C10 checks on its states that
\* both layers agree).  An n x n integer matrix is a tuple of n*n integers, column-major.
LIAt(e, n, c, r) == e[(c - 1) * n + r]
LIMinor(e, n, c0, r0) ==
    [k \in 1..((n - 1) * (n - 1)) |-> LET c == ((k - 1) \div (n - 1)) + 1 r == ((k - 1) % (n - 1)) + 1
                                      IN LIAt(e, n, IF c >= c0 THEN c + 1 ELSE c, IF r >= r0 THEN r + 1 ELSE r)]
RECURSIVE LISumFrom(_, _)
LISumFrom(t, i) == IF i > Len(t) THEN 0 ELSE t[i] + LISumFrom(t, i + 1)
LISum(t) == LISumFrom(t, 1)
RECURSIVE LIDet(_, _)
LIDet(e, n) == IF n = 1 THEN e[1]
               ELSE LISum([c \in 1..n |-> (IF c % 2 = 1 THEN 1 ELSE -1) * LIAt(e, n, c, 1) * LIDet(LIMinor(e, n, c, 1), n - 1)])
LIAdj(e, n) == IF n = 1 THEN <<1>>
               ELSE [k \in 1..(n * n) |-> LET c == ((k - 1) \div n) + 1 r == ((k - 1) % n) + 1
                                          IN (IF (c + r) % 2 = 0 THEN 1 ELSE -1) * LIDet(LIMinor(e, n, r, c), n - 1)]
LITranspose(e, n) == [k \in 1..(n * n) |-> LIAt(e, n, ((k - 1) % n) + 1, ((k - 1) \div n) + 1)]
LIMul(a, b, n) == [k \in 1..(n * n) |-> LET c == ((k - 1) \div n) + 1 r == ((k - 1) % n) + 1
                                        IN LISum([j \in 1..n |-> LIAt(a, n, j, r) * LIAt(b, n, c, j)])]          \* a * b
LIMulVec(a, v, n) == [r \in 1..n |-> LISum([j \in 1..n |-> LIAt(a, n, j, r) * v[j]])]                        \* a * v
LIVecMul(v, a, n) == [c \in 1..n |-> LISum([j \in 1..n |-> v[j] * LIAt(a, n, c, j)])]                        \* v * a
LIScale(e, k) == [i \in 1..Len(e) |-> k * e[i]]
LIIdentity(n) == [k \in 1..(n * n) |-> IF ((k - 1) \div n) = ((k - 1) % n) THEN 1 ELSE 0]
LIInverseUni(e, n) == LIScale(LIAdj(e, n), LIDet(e, n))           \* inverse of a unimodular matrix: adj / det = det * adj (det = +-1)
LIIsAffine(e, n) == \A c \in 1..n : LIAt(e, n, c, n) = (IF c = n THEN 1 ELSE 0)
LIAffineFrom(lin, t, n) ==      \* n = size of lin; result (n+1) x (n+1)
    [k \in 1..((n + 1) * (n + 1)) |-> LET c == ((k - 1) \div (n + 1)) + 1 r == ((k - 1) % (n + 1)) + 1
                                      IN IF r = n + 1 THEN (IF c = n + 1 THEN 1 ELSE 0) ELSE IF c = n + 1 THEN t[r] ELSE LIAt(lin, n, c, r)]
LILinearPart(e, n) == [k \in 1..((n - 1) * (n - 1)) |-> LIAt(e, n, ((k - 1) \div (n - 1)) + 1, ((k - 1) % (n - 1)) + 1)]
LITranslation(e, n) == [r \in 1..(n - 1) |-> LIAt(e, n, n, r)]
LIAffineInverseUni(e, n) ==     \* e affine n x n with unimodular linear part
    LET li == LIInverseUni(LILinearPart(e, n), n - 1) IN LIAffineFrom(li, LIScale(LIMulVec(li, LITranslation(e, n), n - 1), -1), n - 1)
LIToQ(e, n) == Mat(n, n, [i \in 1..(n * n) |-> QI(e[i])])
LIVToQ(v) == [i \in 1..Len(v) |-> QI(v[i])]

\* decoding of float / double bit patterns that hold an integer of magnitude < 2^11 (limbs least significant first);
\* anything else (fractions, larger values, NaN, infinities, denormals) gives LINotInt
LINotInt == 1000000
LIPow2(k) == 2^k
LISmallIntW(w) ==
    IF Len(w) = 2 THEN
        LET hi == w[2] sg == hi \div 32768 ex == (hi % 32768) \div 128 man == (hi % 128) * 65536 + w[1] IN
        IF ex = 0 /\ man = 0 THEN 0
        ELSE IF ex < 127 \/ ex > 137 THEN LINotInt
        ELSE LET sh == 150 - ex full == 8388608 + man IN
             IF full % LIPow2(sh) # 0 THEN LINotInt ELSE (IF sg = 1 THEN -1 ELSE 1) * (full \div LIPow2(sh))
    ELSE
        LET hi == w[4] sg == hi \div 32768 ex == (hi % 32768) \div 16 man == (hi % 16) * 65536 + w[3] IN
        IF ex = 0 /\ man = 0 /\ w[2] = 0 /\ w[1] = 0 THEN 0
        ELSE IF ex < 1023 \/ ex > 1033 \/ w[2] # 0 \/ w[1] # 0 THEN LINotInt
        ELSE LET sh == 1043 - ex full == 1048576 + man IN
             IF full % LIPow2(sh) # 0 THEN LINotInt ELSE (IF sg = 1 THEN -1 ELSE 1) * (full \div LIPow2(sh))
LISmallInts(ws) == [i \in 1..Len(ws) |-> LISmallIntW(ws[i])]
LIAllSmall(t, bound) == \A i \in 1..Len(t) : t[i] <= bound /\ -t[i] <= bound

\* ---------------------------------------------------------------- gtx/matrix_query, three-valued
\* "T" / "F" where the documented comparison is decided with a margin, "U" inside the guard band
\* (there the rounding of length() / dot() may legitimately tip the comparison either way)
LALe3(x, t, slack) == IF QLe(x, QSub(t, slack)) THEN "T" ELSE IF QLt(QAdd(t, slack), x) THEN "F" ELSE "U"
LAAll3(S) == IF "F" \in S THEN "F" ELSE IF "U" \in S THEN "U" ELSE "T"
LANot3(x) == IF x = "T" THEN "F" ELSE IF x = "F" THEN "T" ELSE "U"
\* vector predicates of gtx/vector_query: isNull: length(v) <= eps ; isNormalized: |length(v) - 1| <= 2 eps
LAIsNullV(v, eps, rel) == LET n2 == VNorm2(v) e2 == QMul(eps, eps) IN LALe3(n2, e2, QMul(rel, QMax(n2, e2)))
LAIsNormV(v, eps, rel) ==
    LET n2 == VNorm2(v) two == QMulInt(eps, 2)
        hi == QMul(QAdd(QOne, two), QAdd(QOne, two))
        lo == QMul(QSub(QOne, two), QSub(QOne, two))
        sl == QMul(rel, QMax(n2, hi))
    IN LAAll3({LALe3(n2, hi, sl),
               IF QLe(QOne, two) \/ QLe(QAdd(lo, sl), n2) THEN "T" ELSE IF QLt(n2, QSub(lo, sl)) THEN "F" ELSE "U"})
LAAbsLe3(x, eps, rel, scale) == LALe3(QAbs(x), eps, QMul(rel, QMax(scale, eps)))
LAIsNullM(m, eps, rel) == LAAll3({LAIsNullV(MCol(m, c), eps, rel) : c \in 1..m.c})
LAIsIdentityM(m, eps, rel) ==
    LAAll3({LAAbsLe3(QSub(MAt(m, c, r), IF c = r THEN QOne ELSE QZero), eps, rel, QAbs(MAt(m, c, r))) : c \in 1..m.c, r \in 1..m.r})
LAIsNormalizedM(m, eps, rel) ==
    LAAll3({LAIsNormV(MCol(m, c), eps, rel) : c \in 1..m.c} \cup {LAIsNormV(MRow(m, r), eps, rel) : r \in 1..m.r})
LAOrthoPairs(vs, eps, rel) ==
    LAAll3({LAIsNormV(vs[i], eps, rel) : i \in 1..Len(vs)}
           \cup {LAAbsLe3(VDot(vs[ij[1]], vs[ij[2]]), eps, rel, VDotAbs(vs[ij[1]], vs[ij[2]])) :
                    ij \in {p \in (1..Len(vs)) \X (1..Len(vs)) : p[1] < p[2]}})
LAIsOrthogonalM(m, eps, rel) ==
    LAAll3({LAOrthoPairs([c \in 1..m.c |-> MCol(m, c)], eps, rel), LAOrthoPairs([r \in 1..m.r |-> MRow(m, r)], eps, rel)})

\* ---------------------------------------------------------------- QR / RQ postconditions
LAIsUpperTri(r) == \A c \in 1..r.c, w \in 1..r.r : w > c => QIsZero(MAt(r, c, w))
\* RQ: "the diagonal is seen as starting in the lower-right corner": entry (c, w) is below it when w - r.r > c - r.c
LAIsUpperTriLR(r) == \A c \in 1..r.c, w \in 1..r.r : (w + r.c > c + r.r) => QIsZero(MAt(r, c, w))
LAColOrthoDefect(q) == MMaxAbs(MSub(LAMMulD(MTranspose(q), q), MIdentity(q.c)))      \* max |q^T q - I|
LARowOrthoDefect(q) == MMaxAbs(MSub(LAMMulD(q, MTranspose(q)), MIdentity(q.r)))      \* max |q q^T - I|
LAResidual(a, b, m) == MMaxAbs(MSub(LAMMulD(a, b), m))                                \* max |a b - m|
=============================================================================
