------------------------------ MODULE GlmX11 ------------------------------
(***************************************************************************)
(* Scalar-function extras (stage X11, attached to C11): definitional       *)
(* semantics of gtx/spline, gtx/easing, gtx/optimum_pow, gtx/log_base,     *)
(* gtx/associated_min_max, gtx/extended_min_max, gtc/reciprocal,           *)
(* gtx/compatibility, gtx/functions, gtx/scalar_multiplication, gtx/range, *)
(* gtx/texture and gtc/integer log2.                                       *)
(*                                                                         *)
(* Polynomial formulas are stated on exact dyadics (every finite float is  *)
(* one, and a polynomial of dyadics is a dyadic); rational coefficients    *)
(* are carried as an integer numerator polynomial and one integer          *)
(* denominator.  Each polynomial definition returns                        *)
(*     [v, den, S, K] :  value = v / den,  S / den = the sum of the        *)
(*     absolute values of the terms of the documented formula,             *)
(*     K = first-order count of the rounding errors of the documented      *)
(*     evaluation (each weighted by its amplification).                    *)
(* An observed r conforms when | r * den - v | <= K * (eps * S + tiny*den) *)
(* (eps = 2^-mb = 2u, so the bound is twice the first-order error bound).  *)
(* Transcendental functions are stated through rational enclosures (Taylor *)
(* series with explicit remainders, the 2^-200 enclosures of pi and ln 2). *)
(* Selection functions are stated as the set of admissible results.        *)
(***************************************************************************)
EXTENDS GlmCommon, GlmConstants

XOne == DFromInt(1)
XTwo == DFromInt(2)
XHalf == DPow2(-1)
RECURSIVE XPow(_, _)
XPow(d, n) == IF n = 0 THEN XOne ELSE DMul(d, XPow(d, n - 1))
XI(d, k) == DMulInt(d, k)
XDot(w, v) == DSum([i \in 1..Len(w) |-> DMul(w[i], v[i])])
XDotAbs(w, v) == DSum([i \in 1..Len(w) |-> DMul(DAbs(w[i]), DAbs(v[i]))])
XER(v, den, S, K) == [v |-> v, den |-> den, S |-> S, K |-> K]

----------------------------------------------------------------------------
(* gtx/spline: weights (times XSplineDen) of the four arguments in the order GLM takes them.
   catmullRom(v1, v2, v3, v4, s), hermite(v1, t1, v2, t2, s), cubic(v1, v2, v3, v4, s) = ((v1 s + v2) s + v3) s + v4 *)
XSplineW(fn, s) ==
    LET s2 == XPow(s, 2) s3 == XPow(s, 3) IN
    CASE fn = "catmullRom" -> << DSum(<<DNeg(s3), XI(s2, 2), DNeg(s)>>), DSum(<<XI(s3, 3), XI(s2, -5), XTwo>>),
                                 DSum(<<XI(s3, -3), XI(s2, 4), s>>), DSub(s3, s2) >>
      [] fn = "hermite"    -> << DSum(<<XI(s3, 2), XI(s2, -3), XOne>>), DSum(<<s3, XI(s2, -2), s>>),
                                 DAdd(XI(s3, -2), XI(s2, 3)), DSub(s3, s2) >>
      [] fn = "cubic"      -> << s3, s2, s, XOne >>
\* the same with every monomial taken in absolute value: the scale of the intermediate terms
XSplineA(fn, s) ==
    LET a == DAbs(s) a2 == XPow(a, 2) a3 == XPow(a, 3) IN
    CASE fn = "catmullRom" -> << DSum(<<a3, XI(a2, 2), a>>), DSum(<<XI(a3, 3), XI(a2, 5), XTwo>>), DSum(<<XI(a3, 3), XI(a2, 4), a>>), DAdd(a3, a2) >>
      [] fn = "hermite"    -> << DSum(<<XI(a3, 2), XI(a2, 3), XOne>>), DSum(<<a3, XI(a2, 2), a>>), DAdd(XI(a3, 2), XI(a2, 3)), DAdd(a3, a2) >>
      [] fn = "cubic"      -> << a3, a2, a, XOne >>
XSplineDen(fn) == IF fn = "catmullRom" THEN 2 ELSE 1
\* s^3 (2 roundings) -> f_i (3 more, amplified inside A_i) -> f_i * v_i (1) -> three additions (3): 9, rounded up; Horner: 6 operations
XSplineK(fn) == IF fn = "cubic" THEN 6 ELSE 10
XSpline(fn, v, s) == XER(XDot(XSplineW(fn, s), v), XSplineDen(fn), XDotAbs(XSplineA(fn, s), v), XSplineK(fn))

----------------------------------------------------------------------------
(* gtx/easing, polynomial members.  a is the parameter in [0, 1]; the overshoot of the back functions is on / od.
   Every function yields the SET of admissible [v, den, S, K] (more than one only next to a piece boundary of bounce). *)
XBackIn(a, on, od, K) ==
    XER(DSub(DMul(DAdd(on, DFromInt(od)), XPow(a, 3)), DMul(on, XPow(a, 2))), od,
        DAdd(DMul(DAdd(DAbs(on), DFromInt(od)), XPow(a, 3)), DMul(DAbs(on), XPow(a, 2))), K)
XBackOut(a, on, od, K) ==
    LET n == DSub(a, XOne) n2 == XPow(n, 2) IN
    XER(DAdd(DMul(n2, DAdd(DMul(DAdd(on, DFromInt(od)), n), on)), DFromInt(od)), od,
        DAdd(DMul(n2, DAdd(DMul(DAdd(DAbs(on), DFromInt(od)), DAbs(n)), DAbs(on))), DFromInt(od)), K)
\* s = o * 1.525 = sn / sd
XBackInOut(a, on, od, K) ==
    LET sn == XI(on, 1525) sd == 1000 * od n == XI(a, 2) IN
    IF DLt(n, XOne)
    THEN XER(DMul(XPow(n, 2), DSub(DMul(DAdd(sn, DFromInt(sd)), n), sn)), 2 * sd,
             DMul(XPow(n, 2), DAdd(DMul(DAdd(DAbs(sn), DFromInt(sd)), n), DAbs(sn))), K)
    ELSE LET m == DSub(n, XTwo) IN
         XER(DAdd(DMul(XPow(m, 2), DAdd(DMul(DAdd(sn, DFromInt(sd)), m), sn)), DFromInt(2 * sd)), 2 * sd,
             DAdd(DMul(XPow(m, 2), DAdd(DMul(DAdd(DAbs(sn), DFromInt(sd)), DAbs(m)), DAbs(sn))), DFromInt(2 * sd)), K + 1)

\* bounceEaseOut: four parabolas (c2 a^2 + c1 a + c0) / den on [lo, hi]
XBouncePieces ==
    << [c2 |-> 121,   c1 |-> 0,      c0 |-> 0,     den |-> 16,   lon |-> 0, lod |-> 1,  hin |-> 4, hid |-> 11, K |-> 3],
       [c2 |-> 363,   c1 |-> -396,   c0 |-> 136,   den |-> 40,   lon |-> 4, lod |-> 11, hin |-> 8, hid |-> 11, K |-> 8],
       [c2 |-> 21780, c1 |-> -35442, c0 |-> 16061, den |-> 1805, lon |-> 8, lod |-> 11, hin |-> 9, hid |-> 10, K |-> 8],
       [c2 |-> 270,   c1 |-> -513,   c0 |-> 268,   den |-> 25,   lon |-> 9, lod |-> 10, hin |-> 1, hid |-> 1,  K |-> 8] >>
XAbsI(k) == IF k < 0 THEN -k ELSE k
XBounceAdmissible(p, b, w) == DLe(DSub(DFromInt(p.lon), w), XI(b, p.lod)) /\ DLe(XI(b, p.hid), DAdd(DFromInt(p.hin), w))
XBounceEval(p, b) == XER(DSum(<<XI(XPow(b, 2), p.c2), XI(b, p.c1), DFromInt(p.c0)>>), p.den,
                         DSum(<<XI(XPow(b, 2), XAbsI(p.c2)), XI(DAbs(b), XAbsI(p.c1)), DFromInt(XAbsI(p.c0))>>), p.K)
\* w widens the piece intervals: the boundary constants 4/11, 8/11, 9/10 reach the code rounded
XBounceOut(b, w) == { XBounceEval(XBouncePieces[i], b) : i \in {j \in 1..4 : XBounceAdmissible(XBouncePieces[j], b, w)} }

XEasePoly == {"linearInterpolation", "quadraticEaseIn", "quadraticEaseOut", "quadraticEaseInOut", "cubicEaseIn", "cubicEaseOut", "cubicEaseInOut",
              "quarticEaseIn", "quarticEaseOut", "quarticEaseInOut", "quinticEaseIn", "quinticEaseOut", "quinticEaseInOut",
              "backEaseIn", "backEaseOut", "backEaseInOut", "backEaseIn2", "backEaseOut2", "backEaseInOut2", "bounceEaseIn", "bounceEaseOut", "bounceEaseInOut"}
XBackDefaultN == DFromInt(170158)
XBackDefaultD == 100000
\* on / od: the overshoot (ignored unless fn is a two-argument back function); w: boundary widening for bounce
XEase(fn, a, on, od, w) ==
    LET f == DSub(a, XOne) g == DSub(XI(a, 2), XTwo) lo == DLt(a, XHalf) IN
    CASE fn = "linearInterpolation" -> {XER(a, 1, DAbs(a), 0)}
      [] fn = "quadraticEaseIn"     -> {XER(XPow(a, 2), 1, XPow(a, 2), 1)}
      [] fn = "quadraticEaseOut"    -> {XER(DSub(XI(a, 2), XPow(a, 2)), 1, DAdd(XI(a, 2), XPow(a, 2)), 2)}
      [] fn = "quadraticEaseInOut"  -> IF lo THEN {XER(XI(XPow(a, 2), 2), 1, XI(XPow(a, 2), 2), 2)}
                                       ELSE {XER(DSum(<<XI(XPow(a, 2), -2), XI(a, 4), DFromInt(-1)>>), 1, DSum(<<XI(XPow(a, 2), 2), XI(a, 4), XOne>>), 4)}
      [] fn = "cubicEaseIn"         -> {XER(XPow(a, 3), 1, XPow(a, 3), 2)}
      [] fn = "cubicEaseOut"        -> {XER(DAdd(XPow(f, 3), XOne), 1, DAdd(XPow(DAbs(f), 3), XOne), 6)}
      [] fn = "cubicEaseInOut"      -> IF lo THEN {XER(XI(XPow(a, 3), 4), 1, XI(XPow(a, 3), 4), 3)}
                                       ELSE {XER(DAdd(XPow(g, 3), XTwo), 2, DAdd(XPow(DAbs(g), 3), XTwo), 4)}
      [] fn = "quarticEaseIn"       -> {XER(XPow(a, 4), 1, XPow(a, 4), 3)}
      [] fn = "quarticEaseOut"      -> {XER(DSub(XOne, XPow(f, 4)), 1, DAdd(XOne, XPow(f, 4)), 8)}
      [] fn = "quarticEaseInOut"    -> IF lo THEN {XER(XI(XPow(a, 4), 8), 1, XI(XPow(a, 4), 8), 4)}
                                       ELSE {XER(DSub(XOne, XI(XPow(f, 4), 8)), 1, DAdd(XOne, XI(XPow(f, 4), 8)), 5)}
      [] fn = "quinticEaseIn"       -> {XER(XPow(a, 5), 1, XPow(a, 5), 4)}
      [] fn = "quinticEaseOut"      -> {XER(DAdd(XPow(f, 5), XOne), 1, DAdd(XPow(DAbs(f), 5), XOne), 10)}
      [] fn = "quinticEaseInOut"    -> IF lo THEN {XER(XI(XPow(a, 5), 16), 1, XI(XPow(a, 5), 16), 5)}
                                       ELSE {XER(DAdd(XPow(g, 5), XTwo), 2, DAdd(XPow(DAbs(g), 5), XTwo), 6)}
      [] fn = "backEaseIn"          -> {XBackIn(a, XBackDefaultN, XBackDefaultD, 7)}
      [] fn = "backEaseOut"         -> {XBackOut(a, XBackDefaultN, XBackDefaultD, 11)}
      [] fn = "backEaseInOut"       -> {XBackInOut(a, XBackDefaultN, XBackDefaultD, 10)}
      [] fn = "backEaseIn2"         -> {XBackIn(a, on, od, 6)}
      [] fn = "backEaseOut2"        -> {XBackOut(a, on, od, 10)}
      [] fn = "backEaseInOut2"      -> {XBackInOut(a, on, od, 9)}
      [] fn = "bounceEaseOut"       -> XBounceOut(a, w)
      [] fn = "bounceEaseIn"        -> { XER(DSub(DFromInt(e.den), e.v), e.den, DAdd(e.S, DFromInt(e.den)), e.K + 8) : e \in XBounceOut(DSub(XOne, a), w) }
      [] fn = "bounceEaseInOut"     ->
            IF lo THEN { XER(DSub(DFromInt(e.den), e.v), 2 * e.den, DAdd(e.S, DFromInt(e.den)), e.K + 8) : e \in XBounceOut(DSub(XOne, XI(a, 2)), w) }
            ELSE { XER(DAdd(e.v, DFromInt(e.den)), 2 * e.den, DAdd(e.S, DFromInt(e.den)), e.K + 2) : e \in XBounceOut(DSub(XI(a, 2), XOne), w) }
\* exact value as a rational (model checking)
XEaseQ(e) == QDiv(QFromD(e.v), QFromInt(e.den))

(* transcendental members: judged at the dyadic points a in {0, 1/4, 1/2, 3/4, 1} where the documented formula has a dyadic value or one
   of +-(1/sqrt 2) 2^-k (enclosure from GlmConstants); [lo, hi, K]: lo - K eps <= r <= hi + K eps *)
XEasePointFns == {"sineEaseIn", "sineEaseOut", "sineEaseInOut", "exponentialEaseIn", "exponentialEaseOut", "exponentialEaseInOut",
                  "elasticEaseIn", "elasticEaseOut", "elasticEaseInOut"}
XIsD(a, n, k) == DEq(a, DMk(FALSE, NFromNat(n), k))     \* a = n * 2^k
XRcpRoot2Lo == DMk(FALSE, ConstLo["one_over_root_two"], -ConstScale)
XRcpRoot2Hi == DMk(FALSE, NAdd(ConstLo["one_over_root_two"], <<1>>), -ConstScale)
XEasePoint(fn, a) ==
    LET z == DIsZero(a) one == DEq(a, XOne) h == DEq(a, XHalf) q1 == XIsD(a, 1, -2) q3 == XIsD(a, 3, -2)
        Pw(k) == DPow2(k) Tg(v, K) == {[lo |-> v, hi |-> v, K |-> K]} Ti(lo, hi, K) == {[lo |-> lo, hi |-> hi, K |-> K]}
        cl == XRcpRoot2Lo ch == XRcpRoot2Hi IN
    CASE fn = "sineEaseIn"  -> IF z THEN Tg(DZero, 4) ELSE IF one THEN Tg(XOne, 4) ELSE IF h THEN Ti(DSub(XOne, ch), DSub(XOne, cl), 4) ELSE {}      \* sin(-pi/4) + 1
      [] fn = "sineEaseOut" -> IF z THEN Tg(DZero, 4) ELSE IF one THEN Tg(XOne, 4) ELSE IF h THEN Ti(cl, ch, 4) ELSE {}                                \* sin(pi/4)
      [] fn = "sineEaseInOut" -> IF z THEN Tg(DZero, 4) ELSE IF one THEN Tg(XOne, 4) ELSE IF h THEN Tg(XHalf, 4) ELSE {}
      [] fn = "exponentialEaseIn" -> IF z THEN Tg(DZero, 0) \cup Tg(Pw(-10), 2) ELSE IF one THEN Tg(XOne, 2) ELSE IF h THEN Tg(Pw(-5), 2) ELSE {}
      [] fn = "exponentialEaseOut" -> IF z THEN Tg(DZero, 2) ELSE IF one THEN Tg(XOne, 0) \cup Tg(DSub(XOne, Pw(-10)), 2) ELSE IF h THEN Tg(DSub(XOne, Pw(-5)), 2) ELSE {}
      [] fn = "exponentialEaseInOut" -> IF z THEN Tg(Pw(-11), 2) ELSE IF one THEN Tg(DSub(XOne, Pw(-11)), 2) ELSE IF h THEN Tg(XHalf, 2)
                                        ELSE IF q1 THEN Tg(Pw(-6), 2) ELSE IF q3 THEN Tg(DSub(XOne, Pw(-6)), 2) ELSE {}
      \* sin(13 pi/4) = -1/sqrt 2,  sin(-39 pi/4) = +1/sqrt 2
      [] fn = "elasticEaseIn"  -> IF z THEN Tg(DZero, 4) ELSE IF one THEN Tg(XOne, 4) ELSE IF h THEN Ti(DNeg(DMul2k(ch, -5)), DNeg(DMul2k(cl, -5)), 6) ELSE {}
      [] fn = "elasticEaseOut" -> IF z THEN Tg(DZero, 4) ELSE IF one THEN Tg(XOne, 4) ELSE IF h THEN Ti(DAdd(XOne, DMul2k(cl, -5)), DAdd(XOne, DMul2k(ch, -5)), 6) ELSE {}
      [] fn = "elasticEaseInOut" -> IF z THEN Tg(DZero, 4) ELSE IF one THEN Tg(XOne, 4) ELSE IF h THEN Tg(XHalf, 4)
                                    ELSE IF q1 THEN Ti(DNeg(DMul2k(ch, -6)), DNeg(DMul2k(cl, -6)), 6) ELSE IF q3 THEN Ti(DAdd(XOne, DMul2k(cl, -6)), DAdd(XOne, DMul2k(ch, -6)), 6) ELSE {}

(* circular members through squares: [w, t, K] with w the quantity that the formula takes the root of, as a function of the result r:
   conforming iff w >= 0 (within K eps) and | w^2 - t | <= K * eps * max(1, t) *)
XCircular(fn, a, r) ==
    CASE fn = "circularEaseIn"    -> [w |-> DSub(XOne, r), t |-> DSub(XOne, XPow(a, 2)), K |-> 6, rel |-> FALSE]
      [] fn = "circularEaseOut"   -> [w |-> r, t |-> DMul(DSub(XTwo, a), a), K |-> 4, rel |-> TRUE]
      [] fn = "circularEaseInOut" -> IF DLt(a, XHalf) THEN [w |-> DSub(XOne, XI(r, 2)), t |-> DSub(XOne, XI(XPow(a, 2), 4)), K |-> 6, rel |-> FALSE]
                                     ELSE [w |-> DSub(XI(r, 2), XOne), t |-> DMul(DSub(DFromInt(3), XI(a, 2)), DSub(XI(a, 2), XOne)), K |-> 6, rel |-> FALSE]

----------------------------------------------------------------------------
(* enclosures.  A bound is a quotient n / d of two dyadics (d > 0), never reduced and never divided: every comparison is made
   by cross-multiplication, so the judge has no rounding error and needs no division.  pi, ln 2, sqrt(2 pi) come from the
   2^-200 enclosures of GlmConstants.tla, which are dyadic. *)
SMk(n, d) == [n |-> n, d |-> d]
SD(x) == SMk(x, XOne)
SI(n, d) == SMk(DFromInt(n), DFromInt(d))
SAdd(a, b) == IF DEq(a.d, b.d) THEN SMk(DAdd(a.n, b.n), a.d) ELSE SMk(DAdd(DMul(a.n, b.d), DMul(b.n, a.d)), DMul(a.d, b.d))
SNeg(a) == SMk(DNeg(a.n), a.d)
SSub(a, b) == SAdd(a, SNeg(b))
SMul(a, b) == SMk(DMul(a.n, b.n), DMul(a.d, b.d))
SMulD(a, x) == SMk(DMul(a.n, x), a.d)
SMulI(a, k) == SMk(XI(a.n, k), a.d)
SDivI(a, k) == SMk(a.n, XI(a.d, k))                  \* k > 0
SInv(a) == SMk(a.d, a.n)                             \* a > 0
SAbs(a) == SMk(DAbs(a.n), a.d)
SLe(a, b) == DLe(DMul(a.n, b.d), DMul(b.n, a.d))
SLt(a, b) == DLt(DMul(a.n, b.d), DMul(b.n, a.d))
SEq(a, b) == DEq(DMul(a.n, b.d), DMul(b.n, a.d))
SSign(a) == DSign(a.n)
SIsZero(a) == DIsZero(a.n)
SOne == SD(XOne)
RECURSIVE SPow(_, _)
SPow(a, k) == IF k = 0 THEN SOne ELSE SMul(a, SPow(a, k - 1))
SToQ(a) == QDiv(QFromD(a.n), QFromD(a.d))

XCLo(name) == SD(DMk(FALSE, ConstLo[name], -ConstScale))
XCHi(name) == SD(DMk(FALSE, NAdd(ConstLo[name], <<1>>), -ConstScale))
XPiLo == XCLo("pi")               XPiHi == XCHi("pi")
XHalfPiLo == XCLo("half_pi")      XHalfPiHi == XCHi("half_pi")
XLn2Lo == XCLo("ln_two")          XLn2Hi == XCHi("ln_two")
XRoot2PiLo == XCLo("root_two_pi") XRoot2PiHi == XCHi("root_two_pi")
\* Taylor enclosures, valid for 0 < x <= 1/8 (remainders bounded by the next term times the stated factor)
XTanLo(x) == SAdd(x, SDivI(SPow(x, 3), 3))
XTanHi(x) == SAdd(XTanLo(x), SDivI(SPow(x, 5), 7))            \* 2/15 x^5 / (1 - 0.41 x^2) < x^5 / 7
XSinLo(x) == SSub(x, SDivI(SPow(x, 3), 6))
XSinHi(x) == SAdd(XSinLo(x), SDivI(SPow(x, 5), 120))
XCosLo(x) == SSub(SOne, SDivI(SPow(x, 2), 2))
XCosHi(x) == SAdd(XCosLo(x), SDivI(SPow(x, 4), 24))
XAtanLo(q) == SSub(q, SDivI(SPow(q, 3), 3))                   \* every q > 0
XAtanHi(q) == q
XAsinLo(y) == SAdd(y, SDivI(SPow(y, 3), 6))
XAsinHi(y) == SAdd(y, SDivI(SPow(y, 3), 5))                   \* 3/40 y^5 + ... < y^3 / 30 for y <= 1/8
XExpNLo(t) == SSub(SOne, t)                                   \* exp(-t), t >= 0
XExpNHi(t) == SAdd(XExpNLo(t), SDivI(SPow(t, 2), 2))
XEpsK(f, K) == XI(Eps(f), K)
\* r (a dyadic, >= 0) within K eps (relative) of a target known to lie in [lo, hi] (0 <= lo <= hi)
XInRel(f, r, lo, hi, K) == SLe(SMulD(lo, DSub(XOne, XEpsK(f, K))), SD(r)) /\ SLe(SD(r), SMulD(hi, DAdd(XOne, XEpsK(f, K))))
\* r (>= 0) within K eps (relative) of a target known to lie in [1/H, 1/L] (0 < L <= H)
XInRelInv(f, r, L, H, K) == XInRel(f, r, SInv(H), SInv(L), K)
\* r within K eps * scale (absolute) of a target in [lo, hi]
XInAbs(f, r, lo, hi, K, scale) == SLe(SSub(lo, SD(DMul(XEpsK(f, K), scale))), SD(r)) /\ SLe(SD(r), SAdd(hi, SD(DMul(XEpsK(f, K), scale))))

\* hyperbolic functions at k ln 2 (k >= 1): cosh = (4^k + 1) / 2^(k+1), sinh = (4^k - 1) / 2^(k+1)
XCoshLn2(k) == SI(4^k + 1, 2^(k + 1))
XSinhLn2(k) == SI(4^k - 1, 2^(k + 1))

----------------------------------------------------------------------------
(* selection *)
\* indices of the pairs whose key is extreme; keys as a sequence of signed BigInts on a common ordered line
XBestJ(ord, isMin) == {j \in 1..Len(ord) : \A i \in 1..Len(ord) : IF isMin THEN ZLe(ord[j], ord[i]) ELSE ZLe(ord[i], ord[j])}
\* the comparison trees of the documentation-free implementation, as index-valued functions (model checking: they refine XBestJ)
XLt(a, b) == ZLt(a, b)
XTree(o, isMin) ==
    LET lt(i, j) == IF isMin THEN XLt(o[i], o[j]) ELSE XLt(o[j], o[i]) IN
    CASE Len(o) = 2 -> IF lt(1, 2) THEN 1 ELSE 2
      [] Len(o) = 3 -> IF lt(1, 2) THEN (IF lt(1, 3) THEN 1 ELSE 3) ELSE (IF lt(2, 3) THEN 2 ELSE 3)
      [] Len(o) = 4 -> LET i1 == IF lt(1, 2) THEN 1 ELSE 2 i2 == IF lt(3, 4) THEN 3 ELSE 4 IN IF lt(i1, i2) THEN i1 ELSE i2

\* integer log2 / mip levels
XLog2Z(z) == NBitLen(z.m) - 1                 \* z > 0: floor(log2 z)
XLevelsZ(z) == NBitLen(z.m)                   \* z > 0: floor(log2 z) + 1
=============================================================================
