----------------------------- MODULE GlmSwizzle -----------------------------
(***************************************************************************)
(* Swizzles (C17): selecting, re-ordering and assigning named components.  *)
(*                                                                         *)
(* A vector is a sequence of components (any values: the definitions never *)
(* look inside a component, so the same operators serve the bounded model  *)
(* - components are small integers - and the trace specification -         *)
(* components are 16-bit limb lists of raw bit patterns).                  *)
(*                                                                         *)
(* A swizzle name is a sequence of one-letter strings taken from exactly   *)
(* one of the three letter sets; letter number i (0-based) of every set    *)
(* names component i:  x=r=s -> 0, y=g=t -> 1, z=b=p -> 2, w=a=q -> 3.     *)
(*   Swz(idx, src)[k]         = src[idx[k]]        (read, any repetition)  *)
(*   Writable(idx)            = the indices are pairwise distinct          *)
(*   SwzWrite(idx, dst, val)  = dst with dst[idx[k]] := val[k], every      *)
(*                              other component unchanged (frame)          *)
(* Indices are 0-based (as the E0..E3 template arguments of GLM), TLA+     *)
(* sequences are 1-based, hence the "+ 1".                                 *)
(***************************************************************************)
EXTENDS Words

SetNames == {"xyzw", "rgba", "stpq"}
Letters(set) == CASE set = "xyzw" -> <<"x", "y", "z", "w">>
                  [] set = "rgba" -> <<"r", "g", "b", "a">>
                  [] set = "stpq" -> <<"s", "t", "p", "q">>

\* 0-based component index of a letter of the given set; -1 for a letter of another set
Index(set, c) == IF \E i \in 1..4 : Letters(set)[i] = c THEN (CHOOSE i \in 1..4 : Letters(set)[i] = c) - 1 ELSE -1
IdxOf(set, nm) == [k \in 1..Len(nm) |-> Index(set, nm[k])]
LettersOf(set, idx) == [k \in 1..Len(idx) |-> Letters(set)[idx[k] + 1]]

RECURSIVE ConcatStr(_)
ConcatStr(s) == IF Len(s) = 0 THEN "" ELSE Head(s) \o ConcatStr(Tail(s))
NameOf(set, idx) == ConcatStr(LettersOf(set, idx))

\* all index patterns with rl letters over a source of sl components
Patterns(sl, rl) == [1..rl -> 0..sl-1]
ValidIdx(sl, idx) == Len(idx) \in 1..4 /\ \A k \in 1..Len(idx) : idx[k] \in 0..sl-1

Swz(idx, src) == [k \in 1..Len(idx) |-> src[idx[k] + 1]]
Writable(idx) == \A i, j \in 1..Len(idx) : i # j => idx[i] # idx[j]
Named(idx, i) == \E k \in 1..Len(idx) : idx[k] + 1 = i              \* is component i (1-based) named by idx ?
SlotOf(idx, i) == CHOOSE k \in 1..Len(idx) : idx[k] + 1 = i
SwzWrite(idx, dst, val) == [i \in 1..Len(dst) |-> IF Named(idx, i) THEN val[SlotOf(idx, i)] ELSE dst[i]]
\* assignment of one scalar through a writable swizzle: every named component receives it
SwzFill(idx, dst, t) == [i \in 1..Len(dst) |-> IF Named(idx, i) THEN t ELSE dst[i]]

(***************************************************************************)
(* Known deviation KD-C17-swizzle-same-accessor-assign (operator form):    *)
(* `dst.NAME = other.NAME` - the same accessor on both sides - selects the *)
(* implicitly generated copy assignment of detail::_swizzle, which copies  *)
(* the one-byte placeholder `char _buffer[1]` at offset 0 of the vector    *)
(* and nothing else.  Observed result, pinned exactly: every component of  *)
(* the destination keeps its value, except that the least significant      *)
(* byte of component 0 (named or not) becomes that of the other vector.    *)
(* Components are lists of 16-bit limbs, least significant first.          *)
(***************************************************************************)
KD_SwizzleSameTypeAssign(t, dst, oth, r) ==
    /\ Len(r) = Len(dst) /\ Len(oth) = Len(dst)
    /\ \A i \in 2..Len(dst) : r[i] = dst[i]
    /\ Len(r[1]) = Len(dst[1])
    /\ r[1][1] = (dst[1][1] - (dst[1][1] % 256)) + (oth[1][1] % 256)
    /\ \A j \in 2..Len(dst[1]) : r[1][j] = dst[1][j]
=============================================================================
