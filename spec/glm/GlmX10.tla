------------------------------ MODULE GlmX10 -------------------------------
(***************************************************************************)
(* Principal component analysis (stage X10, attached to property C10):     *)
(*   gtx/pca.hpp   computeCovarianceMatrix (pointer + count, pointer +     *)
(*                 count + centre, iterator range, iterator range + centre)*)
(*                 findEigenvaluesSymReal (2x2, 3x3, 4x4)                  *)
(*                 sortEigenvalues (2, 3, 4)                               *)
(*                                                                         *)
(* Part 1: definitions in exact arithmetic.                                *)
(*   covariance      C = (1/n) sum_k (p_k - c)(p_k - c)^T  (native         *)
(*                   integers for the sums, LinQ rationals for C)          *)
(*   eigenpairs      A v = lambda v, v # 0; the spectrum of A as the roots *)
(*                   of det(A - x I) (polynomial identity checked at n     *)
(*                   points); symmetric integer matrices with a KNOWN      *)
(*                   spectrum: A = Q^T diag(d) Q with Q Q^T = s I (Q an    *)
(*                   integer matrix: signed permutation, Householder       *)
(*                   |v|^2 I - 2 v v^T, Pythagorean rotation, quaternion   *)
(*                   matrix) has the eigenvalues s d_i and the rows of Q   *)
(*                   as eigenvectors                                       *)
(*   sorting         "the output is a permutation of the input (value,     *)
(*                   vector) pairs that is ordered from the largest value  *)
(*                   to the smallest"                                      *)
(* Part 2: acceptance predicates on exact dyadics (every logged float is a *)
(*   dyadic), division-free and root-free.  No floating point anywhere.    *)
(*   The derivations of the constants are in notes/X10-notes.md.           *)
(***************************************************************************)
EXTENDS GlmLinAlg

----------------------------------------------------------------------------
(* Part 1a: covariance on small native integers.  pts: sequence of D-tuples, c: D-tuple; matrices column-major D*D tuples *)

XIZeroV(D) == [i \in 1..D |-> 0]
\* sum_k (p_k - c)(p_k - c)^T   -- entry (column x, row y); symmetric
XICovSum(pts, c, D) ==
    LALet2(pts, c, LAMBDA P, C :
      LAForceSeq([k \in 1..(D * D) |->
         LET x == ((k - 1) \div D) + 1 y == ((k - 1) % D) + 1
         IN LISum([j \in 1..Len(P) |-> (P[j][x] - C[x]) * (P[j][y] - C[y])])]))
\* the covariance matrix of the documentation (population form: divided by the number of points), n = Len(pts) > 0
XICov(pts, c, D) == LALet1(XICovSum(pts, c, D), LAMBDA S : Mat(D, D, LAForceSeq([k \in 1..(D * D) |-> QF(S[k], Len(pts))])))
XISumPts(pts, D) == LAForceSeq([i \in 1..D |-> LISum([j \in 1..Len(pts) |-> pts[j][i]])])
XIOuter(v, D) == LAForceSeq([k \in 1..(D * D) |-> v[((k - 1) \div D) + 1] * v[((k - 1) % D) + 1]])
XIAddM(a, b) == LAForceSeq([k \in 1..Len(a) |-> a[k] + b[k]])
XIIsSym(S, D) == \A c, r \in 1..D : LIAt(S, D, c, r) = LIAt(S, D, r, c)
XIIsZeroM(S) == \A k \in 1..Len(S) : S[k] = 0
\* rank <= 1: all 2x2 minors vanish
XIMinorsZero(S, D) == \A c1, c2, r1, r2 \in 1..D : (c1 < c2 /\ r1 < r2) => LIAt(S, D, c1, r1) * LIAt(S, D, c2, r2) = LIAt(S, D, c2, r1) * LIAt(S, D, c1, r2)
\* quadratic form w^T S w and the sum of squares it must equal
XIQuad(S, w, D) == LISum([k \in 1..(D * D) |-> w[((k - 1) \div D) + 1] * S[k] * w[((k - 1) % D) + 1]])
XISumSq(pts, c, w, D) == LISum([j \in 1..Len(pts) |-> LET t == LISum([i \in 1..D |-> w[i] * (pts[j][i] - c[i])]) IN t * t])

----------------------------------------------------------------------------
(* Part 1b: symmetric matrices with known spectra (native integers) and the rational characterisation of a spectrum *)

\* Q^T diag(d) Q  for an n x n integer matrix Q (column-major): entry (c, r) = sum_j Q_jr d_j Q_jc
XIQtDQ(Q, d, n) ==
    LALet2(Q, d, LAMBDA q, dd :
      LAForceSeq([k \in 1..(n * n) |-> LET c == ((k - 1) \div n) + 1 r == ((k - 1) % n) + 1
                                       IN LISum([j \in 1..n |-> LIAt(q, n, r, j) * dd[j] * LIAt(q, n, c, j)])]))
XIRowOf(Q, n, i) == LAForceSeq([r \in 1..n |-> LIAt(Q, n, r, i)])               \* row i of Q = column i of Q^T
XIScaledOrtho(Q, n, s) == LIMul(Q, LITranspose(Q, n), n) = LIScale(LIIdentity(n), s)     \* Q Q^T = s I
\* rows permuted by p and multiplied by the signs sg: row i of the result = sg[i] * row p[i] of Q
XISignPerm(Q, n, p, sg) == LAForceSeq([k \in 1..(n * n) |-> LET c == ((k - 1) \div n) + 1 r == ((k - 1) % n) + 1 IN sg[r] * LIAt(Q, n, c, p[r])])
XIIsEigenpair(A, n, lam, v) == (\E i \in 1..n : v[i] # 0) /\ LIMulVec(A, v, n) = LIScale(v, lam)
\* integer Q with Q Q^T = s I  (s a perfect square den^2, so that the unit eigenvectors rows(Q) / den are rational)
XQ0 == << << >>,
          << [q |-> <<1, 0, 0, 1>>, den |-> 1], [q |-> <<3, -4, 4, 3>>, den |-> 5], [q |-> <<5, -12, 12, 5>>, den |-> 13] >>,
          << [q |-> <<1, 0, 0, 0, 1, 0, 0, 0, 1>>, den |-> 1],
             [q |-> <<1, -2, -2, -2, 1, -2, -2, -2, 1>>, den |-> 3],                          \* Householder of (1,1,1)
             [q |-> <<2, 3, 6, 3, -6, 2, 6, 2, -3>>, den |-> 7],
             [q |-> <<7, -4, -4, -4, 1, -8, -4, -8, 1>>, den |-> 9] >>,                       \* Householder of (1,2,2)
          << [q |-> <<1, 0, 0, 0, 0, 1, 0, 0, 0, 0, 1, 0, 0, 0, 0, 1>>, den |-> 1],
             [q |-> <<1, 1, 1, 1, -1, 1, 1, -1, -1, -1, 1, 1, -1, 1, -1, 1>>, den |-> 2],    \* left multiplication by the quaternion (1,1,1,1)
             [q |-> <<1, 2, 2, 4, -2, 1, 4, -2, -2, -4, 1, 2, -4, 2, -2, 1>>, den |-> 5],    \* ... (1,2,2,4)
             [q |-> <<2, -2, -2, -2, -2, 2, -2, -2, -2, -2, 2, -2, -2, -2, -2, 2>>, den |-> 4] >> >>   \* Householder of (1,1,1,1)

\* the spectrum of a rational matrix: mus (a sequence of n rationals, with multiplicity) is the spectrum of A iff
\* det(A - x I) = prod (mu_i - x) as polynomials; both sides have degree n and the leading coefficient (-1)^n, so
\* agreement at n distinct points suffices
XShiftI(A, x) == LALet2(A, x, LAMBDA M, y : LAForce(MFromFn(M.c, M.r, LAMBDA c, r : IF c = r THEN QSub(MAt(M, c, r), y) ELSE MAt(M, c, r))))
XIsSpectrum(A, mus) ==
    \A M \in {A} : \A m \in {mus} :
      \A x \in 0..(M.c - 1) : QEq(MDet(XShiftI(M, QI(x))), LAProd([i \in 1..Len(m) |-> QSub(m[i], QI(x))]))

----------------------------------------------------------------------------
(* Part 1c: sorting (value, vector) pairs from the largest value to the smallest *)

\* s: a sequence of pairs <<key, tag>>.  Ge(a, b): the order of the keys.
XIsDesc(s, Ge(_, _)) == \A i \in 1..(Len(s) - 1) : Ge(s[i][1], s[i + 1][1])
XIsPermOf(out, in) == Len(out) = Len(in) /\ \E k \in 1..Len(LAPermTable[Len(in)]) : \A i \in 1..Len(in) : out[i] = in[LAPermTable[Len(in)][k][i]]
XIsSortOf(out0, in0, Ge(_, _)) == \A v \in {<<out0, in0>>} : XIsPermOf(v[1], v[2]) /\ XIsDesc(v[1], Ge)
\* a reference algorithm (used by MC_X10 only): compare-exchange networks; a pair is exchanged when the first key is strictly smaller
XNet == << << >>, << <<1, 2>> >>, << <<1, 2>>, <<1, 3>>, <<2, 3>> >>, << <<1, 3>>, <<2, 4>>, <<1, 2>>, <<3, 4>>, <<2, 3>> >> >>
XCmpSwap(s, ij, Ge(_, _)) == IF ~Ge(s[ij[1]][1], s[ij[2]][1]) THEN [s EXCEPT ![ij[1]] = s[ij[2]], ![ij[2]] = s[ij[1]]] ELSE s
XRunNet(s, net, Ge(_, _)) ==          \* at most five comparators
    LET step(k, t) == IF k <= Len(net) THEN XCmpSwap(t, net[k], Ge) ELSE t
    IN step(5, step(4, step(3, step(2, step(1, s)))))
XRunNetTo(s, net, upto, Ge(_, _)) ==  \* the first upto comparators only
    LET step(k, t) == IF k <= upto /\ k <= Len(net) THEN XCmpSwap(t, net[k], Ge) ELSE t
    IN step(5, step(4, step(3, step(2, step(1, s)))))

----------------------------------------------------------------------------
(* Part 2: acceptance predicates on exact dyadics *)

\* observed word -> dyadic (through the fast decoder of GlmLinAlg: numerator stripped of trailing zeros)
XDOfW(w) == LALet1(LAQOfW(w), LAMBDA q : DMk(q.p.neg, q.p.m, -LAQExp(q)))
XDSeqOfW(ws) == LALet1(ws, LAMBDA x : LAForceSeq([i \in 1..Len(x) |-> XDOfW(x[i])]))
XDOne == DFromInt(1)
XdDot(a, b) == DSum([i \in 1..Len(a) |-> DMul(a[i], b[i])])
XdCol(V, n, i) == LAForceSeq([r \in 1..n |-> V[(i - 1) * n + r]])
XdMatVec(A, n, v) == LAForceSeq([r \in 1..n |-> DSum([k \in 1..n |-> DMul(A[(k - 1) * n + r], v[k])])])
XdNormInf(A, n) == DMaxAbs([r \in 1..n |-> DSum([c \in 1..n |-> DAbs(A[(c - 1) * n + r])])])          \* max absolute row sum
XdTrace(A, n) == DSum([i \in 1..n |-> A[(i - 1) * n + i]])
RECURSIVE XdProdFrom(_, _)
XdProdFrom(s, i) == IF i > Len(s) THEN XDOne ELSE DMul(s[i], XdProdFrom(s, i + 1))
XdProd(s) == LALet1(LAForceSeq(s), LAMBDA t : XdProdFrom(t, 1))
XdDet(A, n) ==          \* Leibniz sum over the permutation tables of GlmLinAlg
    LALet1(A, LAMBDA x :
      LET ps == LAPermTable[n] sg == LASignTable[n]
      IN DSum(LAForceSeq([k \in 1..Len(ps) |-> LET t == XdProd([i \in 1..n |-> x[(i - 1) * n + ps[k][i]]]) IN IF sg[k] = 1 THEN t ELSE DNeg(t)])))
XdShiftI(A, n, x) == LALet2(A, x, LAMBDA M, y : LAForceSeq([k \in 1..(n * n) |-> IF ((k - 1) \div n) = ((k - 1) % n) THEN DSub(M[k], y) ELSE M[k]]))
XdIsSym(A, n) == \A c, r \in 1..n : c < r => DEq(A[(c - 1) * n + r], A[(r - 1) * n + c])
XdInWindow(s, lo, hi) == \A i \in 1..Len(s) : DIsZero(s[i]) \/ (DTopExp(s[i]) >= lo /\ DTopExp(s[i]) <= hi)
XdAllInt(s) == \A i \in 1..Len(s) : DIsInt(s[i])
XdPowN(a, k) == IF k = 0 THEN XDOne ELSE IF k = 1 THEN a ELSE IF k = 2 THEN DMul(a, a) ELSE DMul(a, DMul(a, a))      \* k <= 3
\* components below 2^-200 are replaced by zero before they enter sums (keeps the integers short); every tolerance that
\* depends on such a component carries the margin XMg >= the effect of the replacement
XdFlush(s) == LALet1(s, LAMBDA t : LAForceSeq([i \in 1..Len(t) |-> IF DIsZero(t[i]) \/ DTopExp(t[i]) >= -200 THEN t[i] ELSE DZero]))
XMg(N) == DMul2k(DAdd(XDOne, N), -150)
XTol(k, scale, f) == DMul2k(DMulInt(scale, k), -f.mb)                     \* k * eps * scale,  eps = 2^-23 / 2^-52
XMax2(a, b) == IF DLe(a, b) THEN b ELSE a

\* ---------------------------------------------------------------- computeCovarianceMatrix
\* pts: sequence of dyadic D-vectors, c: dyadic D-vector (zero for the overloads without a centre), r: observed D*D matrix.
\*   exact:  C_xy = S_xy / n,  S_xy = sum_k d_kx d_ky,  d_k = p_k - c;   scale  B_xy = sum_k |d_kx d_ky|
\*   accepted:  | n r_xy - S_xy | <= k eps B_xy    with
\*     k = 2      when all points and the centre are integers and every B_xy <= 2^(mb+1): differences, products and partial
\*                sums are exact in any order, only the final division (or multiplication by a rounded 1/n) rounds
\*     k = n + 3  otherwise: (p - c) rounded twice per product (2u), the product (u), n - 1 additions ((n-1) u), the
\*                division (u): (n + 3) u = (n + 3) eps / 2, doubled
XCovIntMode(f, pts, c, D, B) ==
    /\ XdAllInt(c) /\ \A j \in 1..Len(pts) : XdAllInt(pts[j])
    /\ \A k \in 1..(D * D) : DLe(B[k], DPow2(f.mb + 1))
    /\ \A j \in 1..Len(pts) : \A i \in 1..D : DLe(DAbs(pts[j][i]), DPow2(f.mb)) /\ DLe(DAbs(c[i]), DPow2(f.mb))
XCovOk(f, D, pts0, c0, r0) ==
    LALet3(pts0, c0, r0, LAMBDA pts, c, r :
    LALet1(LAForceSeq([j \in 1..Len(pts) |-> LAForceSeq([i \in 1..D |-> DSub(pts[j][i], c[i])])]), LAMBDA dv :
    LALet2(LAForceSeq([k \in 1..(D * D) |-> DSum([j \in 1..Len(dv) |-> DMul(dv[j][((k - 1) \div D) + 1], dv[j][((k - 1) % D) + 1])])]),
           LAForceSeq([k \in 1..(D * D) |-> DSum([j \in 1..Len(dv) |-> DAbs(DMul(dv[j][((k - 1) \div D) + 1], dv[j][((k - 1) % D) + 1]))])]), LAMBDA S, B :
      LET n == Len(pts)
          kk == IF XCovIntMode(f, pts, c, D, B) THEN 2 ELSE n + 3
      IN Len(r) = D * D /\ \A k \in 1..(D * D) : DLe(DAbs(DSub(DMulInt(r[k], n), S[k])), XTol(kk, B[k], f)))))

\* ---------------------------------------------------------------- findEigenvaluesSymReal
\* A: observed input (n*n dyadics, column-major, exactly symmetric), lam: the n returned values, V: the returned matrix
\* (column i = eigenvector of lam[i]).  The measures are formed once; they are compared with tolerances below.
XEigMeasures(n, A0, lam0, Vraw, mus0) ==
    LALet3(A0, lam0, mus0, LAMBDA A, lam, mus :
    LALet2(XdFlush(Vraw), XdNormInf(A, n), LAMBDA V, N :
    LALet1(LAForceSeq([i \in 1..n |-> XdCol(V, n, i)]), LAMBDA cols :
    LALet1(LAForceSeq([i \in 1..n |-> LAForceSeq([j \in 1..n |-> IF j < i THEN DZero ELSE XdDot(cols[i], cols[j])])]), LAMBDA G :       \* Gram matrix, upper part
      [ N |-> N,
        \* max_i | A v_i - lam_i v_i |_inf
        res |-> DMaxAbs(LAForceSeq([i \in 1..n |-> LALet1(XdMatVec(A, n, cols[i]), LAMBDA av : DMaxAbs([r \in 1..n |-> DSub(av[r], DMul(lam[i], cols[i][r]))]))])),
        \* max_i | v_i . v_i - 1 |
        unit |-> DMaxAbs([i \in 1..n |-> DSub(G[i][i], XDOne)]),
        \* max_{i<j} | v_i . v_j |   and   max_{i<j} | v_i . v_j | | lam_i - lam_j |
        orth |-> DMaxAbs(LAForceSeq([k \in 1..(n * n) |-> LET i == ((k - 1) \div n) + 1 j == ((k - 1) % n) + 1 IN IF i < j THEN G[i][j] ELSE DZero])),
        orthGap |-> DMaxAbs(LAForceSeq([k \in 1..(n * n) |-> LET i == ((k - 1) \div n) + 1 j == ((k - 1) % n) + 1
                                                             IN IF i < j THEN DMul(G[i][j], DSub(lam[i], lam[j])) ELSE DZero])),
        tr |-> DAbs(DSub(DSum(lam), XdTrace(A, n))),
        det |-> DAbs(DSub(XdProd(lam), XdDet(A, n))),
        Am |-> A,
        maxlam |-> DMaxAbs(lam),
        \* known spectrum (mus # << >>): min over the pairings of max_i | lam_i - mu_p(i) |, as the set of pairings within a bound
        lamv |-> lam, mus |-> mus ]))))
\* max_i | det(A - lam_i I) |  = prod_j | mu_j - lam_i |  ("every returned value is an eigenvalue"; implied by residual + unit,
\* hence only formed where the residual is not demanded)
XEigCp(n, m) == DMaxAbs(LAForceSeq([i \in 1..n |-> XdDet(XdShiftI(m.Am, n, m.lamv[i]), n)]))
\* is there a pairing of the returned values with the known spectrum within delta?
XSpecWithin(m, n, delta) ==
    Len(m.mus) = 0 \/ \E k \in 1..Len(LAPermTable[n]) : \A i \in 1..n : DLe(DAbs(DSub(m.lamv[i], m.mus[LAPermTable[n][k][i]])), delta)

XK(n) == 16 * n            \* residual / orthonormality constant: the LAPACK-style ratio  measure / (n eps |A|) <= 16
\* tau: the residual tolerance (strict: XK(n) eps |A|_inf; the pinned deviations add an absolute term)
\*   res <= tau; unit <= XK eps; orthGap <= 2 tau; tr <= n tau0; eigenvalue error delta = 3 tau (|lam - mu| <= |r|_2 / |v|_2 <= sqrt(n) tau / (1 - XK eps));
\*   | prod lam - det A | <= n delta (N + delta)^(n-1);  (frame parts only)  | det(A - lam_i I) | <= delta (2N + delta)^(n-1)
XEigParts(f, n, m, tau, tau0) ==
    LALet3(DMulInt(tau, 3), XMg(m.N), DAdd(XTol(XK(n), XDOne, f), DPow2(-150)), LAMBDA delta, mg, tolU :
      << <<"residual", DLe(m.res, DAdd(tau, mg))>>,
         <<"unit", DLe(m.unit, tolU)>>,
         <<"orthogonal", DLe(m.orthGap, DAdd(DMulInt(tau, 2), mg))>>,
         <<"trace", DLe(m.tr, DMulInt(tau0, n))>>,
         <<"determinant", DLe(m.det, DMul(DMulInt(delta, n), XdPowN(DAdd(m.N, delta), n - 1)))>>,
         <<"spectrum", XSpecWithin(m, n, delta)>> >>)
\* the parts that survive the false-underflow deviation: an orthonormal frame, the right values, the trace
XEigFrameParts(f, n, m, tau, tau0) ==
    LALet3(DMulInt(tau, 3), XMg(m.N), DAdd(XTol(XK(n), XDOne, f), DPow2(-150)), LAMBDA delta, mg, tolU :
      << <<"unit", DLe(m.unit, tolU)>>,
         <<"orthonormal", DLe(m.orth, tolU)>>,
         <<"trace", DLe(m.tr, DMulInt(tau0, n))>>,
         <<"determinant", DLe(m.det, DMul(DMulInt(delta, n), XdPowN(DAdd(m.N, delta), n - 1)))>>,
         <<"spectrum", XSpecWithin(m, n, delta)>>,
         <<"charpoly", DLe(XEigCp(n, m), DMul(delta, XdPowN(DAdd(DMulInt(m.N, 2), delta), n - 1)))>> >>)
XAllParts(p) == \A i \in 1..Len(p) : p[i][2]
XFirstBad(p) == LET bad == {i \in 1..Len(p) : ~p[i][2]} IN IF bad = {} THEN "" ELSE p[CHOOSE i \in bad : \A j \in bad : i <= j][1]

\* the hard-coded absolute epsilon of the implementation (0.0000001 < 2^-23) can only matter when some quantity of the
\* computation is that small.  An input is "exposed" when a non-zero entry lies below 2^(2 mb - 20) (float 2^26, double 2^84):
\* products of two rounding-level ratios with an entry (eps^2 |a|) can then fall below the constant.  Inputs that are not
\* exposed are judged strictly, without any pinned deviation.
XEigExposed(f, A) == \E k \in 1..Len(A) : ~DIsZero(A[k]) /\ DTopExp(A[k]) < 2 * f.mb - 20
XAbsEps == DPow2(-22)                       \* >= 2 * 0.0000001: two neglected neighbours per row of the tridiagonal form
\* verdict of one call that returned n pairs:  "ok" | "kd-threshold" | "kd-underflow" | "bad:<part>"
XEigJudge(f, n, A, lam, V, mus) ==
    LALet1(XEigMeasures(n, A, lam, V, mus), LAMBDA m :
    LALet1(XTol(XK(n), m.N, f), LAMBDA tau0 :
    LALet1(XEigParts(f, n, m, tau0, tau0), LAMBDA strict :
      IF XAllParts(strict) THEN "ok"
      ELSE IF ~XEigExposed(f, A) THEN "bad:" \o XFirstBad(strict)
      ELSE IF XAllParts(XEigParts(f, n, m, DAdd(tau0, XAbsEps), tau0)) THEN "kd-threshold"
      ELSE IF XAllParts(XEigFrameParts(f, n, m, DAdd(tau0, XAbsEps), tau0)) THEN "kd-underflow"
      ELSE "bad:" \o XFirstBad(strict))))
\* the claim "the spectrum of A is mus" (an input encoding of the harness for the matrices generated by MC_X10), verified exactly
XdIsSpectrum(A0, n, mus0, unitx) ==
    \A A \in {A0} : \A mus \in {mus0} : \A x \in 0..(n - 1) : \A y \in {DMulInt(unitx, x)} : DEq(XdDet(XdShiftI(A, n, y), n), XdProd([i \in 1..n |-> DSub(mus[i], y)]))
=============================================================================
