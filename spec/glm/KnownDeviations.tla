-------------------------- MODULE KnownDeviations --------------------------
(***************************************************************************)
(* Named descriptions of what the pinned g-truc/glm tree does INSTEAD of    *)
(* what a property states, for the genuine defects that are recorded as    *)
(* known findings (known_findings.json) rather than repaired.  Each        *)
(* disjunct pins the observed wrong result exactly: the same operation on  *)
(* another input class, or another wrong result on the same input, matches *)
(* no disjunct and is reported as a VIOLATION.                             *)
(***************************************************************************)
EXTENDS GlmRound

\* C05: usubBorrow returns |x - y| style results: y - x when y >= x, 2^32 + (y - x) otherwise
KD_UsubBorrowSwapped(x, y, r, c) ==
    LET e == UsubBorrow(y, x) IN
    /\ r = WToLimbs(e.r, 32)
    /\ c = WToLimbs(NFromNat(IF NCmp(x, y) >= 0 THEN 0 ELSE 1), 32)

\* C18: gtx pow(int x, uint 0) returns -1 for a negative base (x^0 = 1)
KD_IpowNegativeBaseZeroExponent(x, y, r) == y = 0 /\ ZSign(x) < 0 /\ ZEq(r, ZFromInt(-1))
=============================================================================
