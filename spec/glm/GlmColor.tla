----------------------------- MODULE GlmColor -----------------------------
(***************************************************************************)
(* Colour-space conversions (C19): definitional semantics over the exact   *)
(* rationals / integers.  Nothing here is floating point.                  *)
(*                                                                         *)
(*  - sRGB transfer curves (gtc/color_space): piecewise, a linear toe and  *)
(*    a power segment.  The oracle has no pow(): for a rational gamma      *)
(*    gp/gq the statement  y = x^(gq/gp)  is  y^gp = x^gq , so an observed *)
(*    result r is judged by exact polynomial brackets                      *)
(*        (u - E)^gp <= 1055^gp * x^gq <= (u + E)^gp ,  u = 1000 r + 55    *)
(*    which says  | r - (1.055 x^(1/gamma) - 0.055) | <= E / 1000 .        *)
(*  - HSV <-> RGB (gtx/color_space): six linear sectors over Q.            *)
(*  - YCoCg (linear over Q), YCoCg-R (integer lifting with floor halving,  *)
(*    also read modulo 2^W), gtx/color_space_YCoCg.                        *)
(*  - saturation matrix and luminosity weights.                            *)
(***************************************************************************)
EXTENDS Words

QI(n) == QFromInt(n)
QR(n, d) == QFromInts(n, d)
DOne == DFromInt(1)
QHalf == QR(1, 2)

RECURSIVE DPowN(_, _)
DPowN(a, n) == IF n = 0 THEN DOne ELSE IF n = 1 THEN a
               ELSE LET h == DPowN(a, n \div 2) sq == DMul(h, h) IN IF n % 2 = 0 THEN sq ELSE DMul(sq, a)
RECURSIVE QPowN(_, _)
QPowN(a, n) == IF n = 0 THEN QOne ELSE IF n = 1 THEN a
               ELSE LET h == QPowN(a, n \div 2) sq == QMul(h, h) IN IF n % 2 = 0 THEN sq ELSE QMul(sq, a)

\* the value a C++ floating literal (read as a double) has after static_cast<T>
CastConst(f, q) == LET d64 == Val(F64, RoundQ(F64, q, 0)) IN IF f = F64 THEN d64 ELSE Val(f, RoundD(f, d64, 0))

----------------------------------------------------------------------------
(* sRGB transfer curves, IEC 61966-2-1 constants *)
KneeLinQ  == QR(31308, 10000000)        \* linear -> sRGB: x <  0.0031308 uses the linear toe
KneeSrgbQ == QR(4045, 100000)           \* sRGB -> linear: x <= 0.04045   uses the linear toe
SlopeQ    == QR(1292, 100)              \* 12.92
KneeLin32 == CastConst(F32, KneeLinQ)
KneeLin64 == CastConst(F64, KneeLinQ)
KneeSrgb32 == CastConst(F32, KneeSrgbQ)
KneeSrgb64 == CastConst(F64, KneeSrgbQ)
KneeLinT(f)  == IF f = F64 THEN KneeLin64 ELSE KneeLin32
KneeSrgbT(f) == IF f = F64 THEN KneeSrgb64 ELSE KneeSrgb32

\* which segment applies to x (a dyadic in [0,1]); the comparison constant is the literal in the element type
L2SIsLinear(f, x) == DLt(x, KneeLinT(f))
S2LIsLinear(f, x) == DLe(x, KneeSrgbT(f))

\* 1.055 * x^(gq/gp) - 0.055  in  [r - 2^kdown/1000, r + 2^kup/1000]       (x, r dyadics, x >= 0)
PowFwdWithin(x, r, gp, gq, kdown, kup) ==
    LET u   == DAdd(DMul(DFromInt(1000), r), DFromInt(55))
        lo  == DSub(u, DPow2(kdown))
        hi  == DAdd(u, DPow2(kup))
        mid == DMul(DPowN(DFromInt(1055), gp), DPowN(x, gq))
    IN /\ (DSign(lo) <= 0 \/ DLe(DPowN(lo, gp), mid))
       /\ DSign(hi) >= 0 /\ DLe(mid, DPowN(hi, gp))
\* ((x + 0.055) / 1.055)^(gp/gq)  in  [r - 2^k, r + 2^k]                   (x >= 0)
PowInvWithin(x, r, gp, gq, k) ==
    LET lo  == DSub(r, DPow2(k))
        hi  == DAdd(r, DPow2(k))
        c   == DPowN(DFromInt(1055), gp)
        mid == DPowN(DAdd(DMul(DFromInt(1000), x), DFromInt(55)), gp)
    IN /\ (DSign(lo) <= 0 \/ DLe(DMul(DPowN(lo, gq), c), mid))
       /\ DSign(hi) >= 0 /\ DLe(mid, DMul(DPowN(hi, gq), c))
LinFwdWithin(x, r, k) == QNear(QFromD(r), QMul(SlopeQ, QFromD(x)), QFromD(DPow2(k)))
LinInvWithin(x, r, k) == QNear(QFromD(r), QDiv(QFromD(x), SlopeQ), QFromD(DPow2(k)))

\* the approximation used by the lowp vec3<float> specialisation of convertLinearToSRGB (Ian Taylor):
\*   0.662002687 x^(1/2) + 0.684122060 x^(1/4) - 0.323583601 x^(1/8) - 0.0225411470 x
\* t = floor(2^k x^(1/8)) by bisection on integers, then the polynomial in t / 2^k
RECURSIVE Root8Bits(_, _, _)
Root8Bits(X, t, i) ==
    IF i < 0 THEN t
    ELSE LET c == NAdd(t, NShl(<<1>>, i)) c2 == NMul(c, c) c4 == NMul(c2, c2) c8 == NMul(c4, c4)
         IN Root8Bits(X, IF NCmp(c8, X) <= 0 THEN c ELSE t, i - 1)
Root8(x, k) == Root8Bits(DFloor(DMul2k(x, 8 * k)).m, << >>, k)       \* 0 <= x <= 1
LowpSrgbApprox(x) ==
    LET k  == 30
        s3 == QFromD(DMk(FALSE, Root8(x, k), -k))
        s2 == QMul(s3, s3)
        s1 == QMul(s2, s2)
    IN QSum(<< QMul(QR(662002687, 1000000000), s1), QMul(QR(684122060, 1000000000), s2),
               QNeg(QMul(QR(323583601, 1000000000), s3)), QNeg(QMul(QR(22541147, 1000000000), QFromD(x))) >>)

----------------------------------------------------------------------------
(* HSV <-> RGB over Q.  Colours are triples (sequences of length 3). *)
QMax3(c) == QMax(QMax(c[1], c[2]), c[3])
QMin3(c) == QMin(QMin(c[1], c[2]), c[3])
Q60 == QI(60)
Q360 == QI(360)
\* hue of a non-grey colour, in [0, 360)
HueOfRgb(c) ==
    LET mx == QMax3(c) d == QSub(mx, QMin3(c))
        h == IF QEq(c[1], mx) THEN QDiv(QMul(Q60, QSub(c[2], c[3])), d)
             ELSE IF QEq(c[2], mx) THEN QAdd(QI(120), QDiv(QMul(Q60, QSub(c[3], c[1])), d))
             ELSE QAdd(QI(240), QDiv(QMul(Q60, QSub(c[1], c[2])), d))
    IN IF QSign(h) < 0 THEN QAdd(h, Q360) ELSE h
\* max > 0; the hue of a grey is a convention (0 here)
HsvOfRgb(c) ==
    LET mx == QMax3(c) d == QSub(mx, QMin3(c))
    IN << IF QIsZero(d) THEN QZero ELSE HueOfRgb(c), QDiv(d, mx), mx >>
HueSector(h) == ZToInt(QFloor(QDiv(h, Q60)))                    \* 0..5 for h in [0, 360)
RgbOfSector(i, fr, s, v) ==
    LET o == QMul(v, QSub(QOne, s))
        p == QMul(v, QSub(QOne, QMul(s, fr)))
        q == QMul(v, QSub(QOne, QMul(s, QSub(QOne, fr))))
    IN CASE i = 0 -> <<v, q, o>> [] i = 1 -> <<p, v, o>> [] i = 2 -> <<o, v, q>>
         [] i = 3 -> <<o, p, v>> [] i = 4 -> <<q, o, v>> [] i = 5 -> <<v, o, p>>
RgbOfHsv(c) ==                                                  \* c = <<h, s, v>>, 0 <= h < 360
    LET i == HueSector(c[1]) IN RgbOfSector(i, QSub(QDiv(c[1], Q60), QI(i)), c[2], c[3])
\* distance on the hue circle
HueDist(a, b) == LET d == QAbs(QSub(a, b)) IN QMin(d, QAbs(QSub(Q360, d)))

----------------------------------------------------------------------------
(* YCoCg over Q *)
YCoCgOfRgb(c) == << QSum(<<QDiv(c[1], QI(4)), QDiv(c[2], QI(2)), QDiv(c[3], QI(4))>>),
                    QSub(QDiv(c[1], QI(2)), QDiv(c[3], QI(2))),
                    QSum(<<QNeg(QDiv(c[1], QI(4))), QDiv(c[2], QI(2)), QNeg(QDiv(c[3], QI(4)))>>) >>
RgbOfYCoCg(y) == << QSub(QAdd(y[1], y[2]), y[3]), QAdd(y[1], y[3]), QSub(QSub(y[1], y[2]), y[3]) >>
\* YCoCg-R over Q (the non-integer instantiation: halving is exact)
YCoCgROfRgbQ(c) == << QAdd(QMul(c[2], QHalf), QMul(QAdd(c[1], c[3]), QR(1, 4))),
                      QSub(c[1], c[3]),
                      QSub(c[2], QMul(QAdd(c[1], c[3]), QHalf)) >>
RgbOfYCoCgRQ(y) == LET tmp == QSub(y[1], QMul(y[3], QHalf))
                       g == QAdd(y[3], tmp)
                       b == QSub(tmp, QMul(y[2], QHalf))
                   IN << QAdd(b, y[2]), g, b >>

(* YCoCg-R integer lifting (Malvar & Sullivan): halving rounds towards minus infinity *)
ZHalfFloor(z) == ZFloorDiv(z, ZFromInt(2))
YCoCgROfRgbZ(c) ==
    LET co  == ZSub(c[1], c[3])
        tmp == ZAdd(c[3], ZHalfFloor(co))
        cg  == ZSub(c[2], tmp)
    IN << ZAdd(tmp, ZHalfFloor(cg)), co, cg >>
RgbOfYCoCgRZ(y) ==
    LET tmp == ZSub(y[1], ZHalfFloor(y[3]))
        g   == ZAdd(y[3], tmp)
        b   == ZSub(tmp, ZHalfFloor(y[2]))
    IN << ZAdd(b, y[2]), g, b >>
\* every intermediate value of the forward / inverse lifting (for the "fits the element type" domain test)
YCoCgRFwdTerms(c) == LET co == ZSub(c[1], c[3]) tmp == ZAdd(c[3], ZHalfFloor(co)) cg == ZSub(c[2], tmp)
                     IN {co, tmp, cg, ZAdd(tmp, ZHalfFloor(cg))}
YCoCgRInvTerms(y) == LET tmp == ZSub(y[1], ZHalfFloor(y[3])) g == ZAdd(y[3], tmp) b == ZSub(tmp, ZHalfFloor(y[2]))
                     IN {tmp, g, b, ZAdd(b, y[2])}
\* the same lifting on W-bit words (two's complement / modulo 2^W, >> 1 arithmetic for signed, logical for unsigned)
WrapZ(W, sg, z) == WToZ(W, sg, WFromZ(W, z))
YCoCgROfRgbW(W, sg, c) ==
    LET co  == WrapZ(W, sg, ZSub(c[1], c[3]))
        tmp == WrapZ(W, sg, ZAdd(c[3], ZHalfFloor(co)))
        cg  == WrapZ(W, sg, ZSub(c[2], tmp))
    IN << WrapZ(W, sg, ZAdd(tmp, ZHalfFloor(cg))), co, cg >>
RgbOfYCoCgRW(W, sg, y) ==
    LET tmp == WrapZ(W, sg, ZSub(y[1], ZHalfFloor(y[3])))
        g   == WrapZ(W, sg, ZAdd(y[3], tmp))
        b   == WrapZ(W, sg, ZSub(tmp, ZHalfFloor(y[2])))
    IN << WrapZ(W, sg, ZAdd(b, y[2])), g, b >>

----------------------------------------------------------------------------
(* saturation matrix and luminance *)
LumaRec709N == << 2126, 7152, 722 >>                                    \* / 10000: weights of the saturation matrix (sum = 1)
LumaDocN    == << 33, 59, 11 >>                                          \* / 100: weights documented for luminosity() (sum = 1.03)
LumaRec709 == [x \in 1..3 |-> QR(LumaRec709N[x], 10000)]
LumaDoc    == [x \in 1..3 |-> QR(LumaDocN[x], 100)]
Dot3(a, b) == QSum(<< QMul(a[1], b[1]), QMul(a[2], b[2]), QMul(a[3], b[3]) >>)
\* 4x4, column-major: entry (column c, row r) at index 4 * (c - 1) + r
SatMatrix(s) ==
    [k \in 1..16 |->
        LET c == (k - 1) \div 4 + 1 r == ((k - 1) % 4) + 1
        IN IF c = 4 \/ r = 4 THEN (IF c = r THEN QOne ELSE QZero)
           ELSE QAdd(QMul(QSub(QOne, s), LumaRec709[c]), IF c = r THEN s ELSE QZero)]
MatVec4(m, v) == [r \in 1..4 |-> QSum([c \in 1..4 |-> QMul(m[4 * (c - 1) + r], v[c])])]
SatApply(s, v) == MatVec4(SatMatrix(s), v)             \* v of length 4
\* closed form of the colour rows of SatApply (MC_C19 checks the equality): (1 - s) * luma(c) + s * c_r
SatColour(s, c) == LET lum == QMul(QSub(QOne, s), Dot3(LumaRec709, c)) IN [r \in 1..3 |-> QAdd(lum, QMul(s, c[r]))]
\* the same on dyadics, scaled by 10000 (no division: cheap for the trace specification); MC_C19 checks the equality
DotN(w, c) == DSum(<< DMulInt(c[1], w[1]), DMulInt(c[2], w[2]), DMulInt(c[3], w[3]) >>)
SatColourD(s, c) == LET lum == DMul(DSub(DOne, s), DotN(LumaRec709N, c)) IN [r \in 1..3 |-> DAdd(lum, DMulInt(DMul(s, c[r]), 10000))]
LumaDocD(c) == DotN(LumaDocN, c)                        \* 100 * luminosity
=============================================================================
