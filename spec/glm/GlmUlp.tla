------------------------------- MODULE GlmUlp ------------------------------
(***************************************************************************)
(* ULP stepping and ULP / epsilon comparisons (C14) on the ordered line of *)
(* a binary floating-point format.  OrdC places every finite or infinite   *)
(* pattern on the integer line with +0 and -0 at the same point 0; the     *)
(* successor of a value is the pattern one position up.                    *)
(* State machine: a walk (x0, cur, net) driven by Next / Prev / NextN /    *)
(* PrevN with the invariant OrdC(cur) = OrdC(x0) + net.                    *)
(***************************************************************************)
EXTENDS Words

InfPos(f) == ZMk(FALSE, NShl(NFromNat(FEMax(f)), f.mb))           \* position of +infinity
OnLine(f, x) == ~IsNaN(f, x)
\* the pattern at position p (|p| <= InfPos); position 0 is written +0
AtPos(f, p) == FromMag(f, IF p.neg THEN 1 ELSE 0, p.m)
SamePoint(f, x, y) == OnLine(f, x) /\ OnLine(f, y) /\ ZEq(OrdC(f, x), OrdC(f, y))     \* equal as values (+0 = -0)

StepPos(f, x, k) == ZAdd(OrdC(f, x), ZFromInt(k))                 \* position k steps up (k may be negative)
InRangePos(f, p) == ZLe(ZAbs(p), InfPos(f))
\* is r the value k steps above x ?  (x finite; result may be an infinity)
IsStep(f, x, k, r) == OnLine(f, r) /\ ZEq(OrdC(f, r), StepPos(f, x, k))
NextOf(f, x) == AtPos(f, StepPos(f, x, 1))
PrevOf(f, x) == AtPos(f, StepPos(f, x, -1))

Distance(f, x, y) == ZAbs(ZSub(OrdC(f, x), OrdC(f, y)))           \* number of representable values between (signed BigInt >= 0)
EqualUlps(f, x, y, n) == ZLe(Distance(f, x, y), ZFromInt(n))

\* |x - y| <= eps in exact arithmetic, and with the subtraction rounded as the documented float expression does
AbsDiffExact(f, x, y) == DAbs(DSub(Val(f, x), Val(f, y)))
LeEpsExact(f, x, y, e) == DLe(AbsDiffExact(f, x, y), Val(f, e))
LtEpsExact(f, x, y, e) == DLt(AbsDiffExact(f, x, y), Val(f, e))
AbsDiffRounded(f, x, y) == LET d == FSub(f, x, y) IN [d EXCEPT !.s = 0]
LeEpsRounded(f, x, y, e) == IsInf(f, AbsDiffRounded(f, x, y)) = FALSE /\ DLe(Val(f, AbsDiffRounded(f, x, y)), Val(f, e))
LtEpsRounded(f, x, y, e) == IsInf(f, AbsDiffRounded(f, x, y)) = FALSE /\ DLt(Val(f, AbsDiffRounded(f, x, y)), Val(f, e))

(* E5 class table of nextFloat / prevFloat over bit patterns: rows (lo, hi, delta) meaning
   "patterns lo..hi map to pattern + delta", plus single-point rows; all in unsigned pattern space.
   Derived from the definition above by MC_C14 on the mini and binary16 instances and emitted for
   binary32. *)
SignBit(f) == 2^(f.eb + f.mb)                 \* formats up to 16 bits natively; binary32 rows are built with BigInt below
=============================================================================
