------------------------------ MODULE GlmInterp ------------------------------
(***************************************************************************)
(* Quaternion interpolation (property C13): slerp / mix / lerp, slerp with *)
(* a spin count, gtx shortMix / fastMix / squad / intermediate, dual       *)
(* quaternion lerp / normalize, gtx/compatibility lerp.                    *)
(*                                                                         *)
(* There is no sin / cos / acos in the specification.  "Constant angular   *)
(* speed along the great arc" is stated on a WALK over rational unit       *)
(* quaternions:                                                            *)
(*    x    a rational unit quaternion  (x0,x1,x2,x3)/xn                    *)
(*    a    a rational unit axis        (a1,a2,a3)/ad                       *)
(*    u    = p/q = tan(psi/2); the step rotation is the unit quaternion    *)
(*         r = (cos psi, sin psi * a), cos psi = (q^2-p^2)/(q^2+p^2),      *)
(*         sin psi = 2pq/(q^2+p^2)   (psi is the angle on S^3, i.e. half   *)
(*         the rotation angle phi of r:  tan(phi/4) = p/q)                 *)
(*    cur_j = r^j * x = cos(j psi) x + sin(j psi) n,   n = (0,a) * x       *)
(* n is a unit quaternion orthogonal to x, so cur_j is the point of the    *)
(* great circle through x and n at angle j*psi from x: equal steps = equal *)
(* angles.  With y = cur_m the property reads slerp(x, y, j/m) = cur_j.    *)
(* Quarter turns in the plane (x, n) are rational as well, which gives the *)
(* exact points of the complementary arc x -> -y (angle pi - m psi the     *)
(* other way round) at every t = j/m with 2j/m an integer, and of the      *)
(* spin-count variant (angle t (theta + k pi)) when 2jk/m is an integer.   *)
(*                                                                         *)
(* Two layers: the DEFINITION over LinQ rationals (QuatMul, step by step)  *)
(* used by the model MC_C13, and a closed form over one common             *)
(* denominator ((q + i p)^(2j) by complex powers) used by the trace        *)
(* specification; MC_C13 checks that they agree.                           *)
(***************************************************************************)
EXTENDS LinQ

\* ---------------------------------------------------------------- walk descriptor (sequence of 12 native integers)
\*   << x0, x1, x2, x3, xn,  a1, a2, a3, ad,  p, q,  m >>
WXi(w, i) == w[i]
WXn(w) == w[5]
WAi(w, i) == w[5 + i]
WAd(w) == w[9]
WP(w) == w[10]
WQ(w) == w[11]
WM(w) == w[12]
WalkOK(w) ==
    /\ Len(w) = 12 /\ \A i \in 1..12 : w[i] \in Int
    /\ WXn(w) > 0 /\ WXn(w) <= 1000 /\ WAd(w) > 0 /\ WAd(w) <= 1000
    /\ \A i \in 1..4 : w[i] >= -WXn(w) /\ w[i] <= WXn(w)
    /\ \A i \in 1..3 : WAi(w, i) >= -WAd(w) /\ WAi(w, i) <= WAd(w)
    /\ w[1] * w[1] + w[2] * w[2] + w[3] * w[3] + w[4] * w[4] = WXn(w) * WXn(w)
    /\ w[6] * w[6] + w[7] * w[7] + w[8] * w[8] = WAd(w) * WAd(w)
    /\ WP(w) >= 0 /\ WQ(w) > 0 /\ WM(w) \in 1..6
\* numerators of n = (0, a) * x over the denominator ad * xn
WNv(w) ==
    LET x0 == w[1] x1 == w[2] x2 == w[3] x3 == w[4] a1 == w[6] a2 == w[7] a3 == w[8]
    IN << 0 - (a1 * x1 + a2 * x2 + a3 * x3),
          x0 * a1 + (a2 * x3 - a3 * x2),
          x0 * a2 + (a3 * x1 - a1 * x3),
          x0 * a3 + (a1 * x2 - a2 * x1) >>
IAbs(n) == IF n < 0 THEN 0 - n ELSE n
ZI(n) == ZFromInt(n)

\* ---------------------------------------------------------------- the definition (LinQ rationals)
HypN(w) == NAdd(NMul(NFromNat(WQ(w)), NFromNat(WQ(w))), NMul(NFromNat(WP(w)), NFromNat(WP(w))))      \* q^2 + p^2
Cos1Z(w) == ZSub(ZMul(ZI(WQ(w)), ZI(WQ(w))), ZMul(ZI(WP(w)), ZI(WP(w))))                            \* cos psi * (q^2+p^2)
Sin1Z(w) == ZMulInt(ZMul(ZI(WQ(w)), ZI(WP(w))), 2)                                                  \* sin psi * (q^2+p^2)
WalkX(w) == [i \in 1..4 |-> QFromInts(w[i], WXn(w))]
\* the step rotation r = (cos psi, sin psi * a), all four components over the denominator (q^2+p^2) * ad
WalkR(w) == LET den == NMul(HypN(w), NFromNat(WAd(w)))
            IN << QMk(ZMulInt(Cos1Z(w), WAd(w)), den), QMk(ZMulInt(Sin1Z(w), WAi(w, 1)), den),
                  QMk(ZMulInt(Sin1Z(w), WAi(w, 2)), den), QMk(ZMulInt(Sin1Z(w), WAi(w, 3)), den) >>
WalkN(w) == [i \in 1..4 |-> QFromInts(WNv(w)[i], WAd(w) * WXn(w))]
RECURSIVE WalkCur(_, _)
WalkCur(w, j) == IF j = 0 THEN WalkX(w)
                 ELSE IF j > 0 THEN QuatMul(WalkR(w), WalkCur(w, j - 1))
                 ELSE QuatMul(QuatConj(WalkR(w)), WalkCur(w, j + 1))
QuatEq(a, b) == \A i \in 1..4 : QEq(a[i], b[i])
QuatNeg(a) == [i \in 1..4 |-> QNeg(a[i])]
QuatDot(a, b) == VDot(a, b)

\* ---------------------------------------------------------------- closed form: angles in the plane (x, n)
\* an angle is [c, s, h]: cosine c/h, sine s/h  (c, s signed BigInt, h magnitude, c^2 + s^2 = h^2)
CMul(a, b) == << ZSub(ZMul(a[1], b[1]), ZMul(a[2], b[2])), ZAdd(ZMul(a[1], b[2]), ZMul(a[2], b[1])) >>
RECURSIVE CPow(_, _)
CPow(a, n) == IF n = 0 THEN << ZI(1), Zero >> ELSE IF n = 1 THEN a
              ELSE IF n % 2 = 0 THEN LET hf == CPow(a, n \div 2) IN CMul(hf, hf)
              ELSE CMul(a, CPow(a, n - 1))
RECURSIVE NPow(_, _)
NPow(a, n) == IF n = 0 THEN <<1>> ELSE IF n = 1 THEN a
              ELSE IF n % 2 = 0 THEN LET hf == NPow(a, n \div 2) IN NMul(hf, hf)
              ELSE NMul(a, NPow(a, n - 1))
\* j * psi
ArcAng(w, j) == LET cs == CPow(<< Cos1Z(w), Sin1Z(w) >>, IAbs(j))
                IN [c |-> cs[1], s |-> IF j < 0 THEN ZNeg(cs[2]) ELSE cs[2], h |-> NPow(HypN(w), IAbs(j))]
\* angle + k quarter turns
Turn(a, k) == LET r == ((k % 4) + 4) % 4
              IN CASE r = 0 -> a
                   [] r = 1 -> [c |-> ZNeg(a.s), s |-> a.c, h |-> a.h]
                   [] r = 2 -> [c |-> ZNeg(a.c), s |-> ZNeg(a.s), h |-> a.h]
                   [] r = 3 -> [c |-> a.s, s |-> ZNeg(a.c), h |-> a.h]
NegAng(a) == [c |-> a.c, s |-> ZNeg(a.s), h |-> a.h]
AngOK(a) == ZEq(ZAdd(ZMul(a.c, a.c), ZMul(a.s, a.s)), ZMk(FALSE, NMul(a.h, a.h)))
\* the point cos * x + sin * n as [n |-> four numerators, d |-> common denominator]
PlanePt(w, a) ==
    [n |-> [i \in 1..4 |-> ZAdd(ZMulInt(a.c, w[i] * WAd(w)), ZMulInt(a.s, WNv(w)[i]))],
     d |-> NMul(a.h, NFromNat(WAd(w) * WXn(w)))]
PtNeg(P) == [n |-> [i \in 1..4 |-> ZNeg(P.n[i])], d |-> P.d]
PtQ(P) == [i \in 1..4 |-> QMk(P.n[i], P.d)]
CurPt(w, j) == PlanePt(w, ArcAng(w, j))                                  \* cur_j

\* theta = m * psi: the angle from x to y = cur_m
Theta(w) == ArcAng(w, WM(w))
\* Which way does the SHORT arc from x to +-y go?  +1: towards y (cos theta > 0), -1: towards -y (cos theta < 0), 0: tie
ShortSide(w) == ZSign(Theta(w).c)

\* t = j/m.  The point at angle t * (theta' + k pi) from x along the arc from x to z, where
\*   side = +1:  z = y,  theta' = m psi,        the arc leaves x towards +n
\*   side = -1:  z = -y, theta' = pi - m psi,   the arc leaves x towards -n
\* It is a rational point iff the number of quarter turns is an integer (HasArcPt).
QuarterNum(w, j, k, side) == IF side >= 0 THEN 2 * j * k ELSE 2 * j * (k + 1)
HasArcPt(w, j, k, side) == QuarterNum(w, j, k, side) % WM(w) = 0
\* (aj = the angle j psi, qt = number of quarter turns)
ArcPtAngOf(aj, qt, side) == IF side >= 0 THEN Turn(aj, qt)
                            ELSE NegAng(Turn(NegAng(aj), qt))           \* angle (qt * pi/2 - j psi), measured towards -n
ArcPtAng(w, j, k, side) == ArcPtAngOf(ArcAng(w, j), QuarterNum(w, j, k, side) \div WM(w), side)
\* sum of two angles (complex product; the denominators multiply)
AngAdd(a, b) == LET z == CMul(<< a.c, a.s >>, << b.c, b.s >>) IN [c |-> z[1], s |-> z[2], h |-> NMul(a.h, b.h)]
ArcPt(w, j, k, side) == PlanePt(w, ArcPtAng(w, j, k, side))

\* ---------------------------------------------------------------- observed floats (fast decoding, 16-bit limbs)
ObsFin(w) == IF Len(w) = 4 THEN (w[4] % 32768) \div 16 # 2047 ELSE (w[2] % 32768) \div 128 # 255
ObsAllFin(ws) == \A i \in 1..Len(ws) : ObsFin(ws[i])
ObsD(w) ==
    IF Len(w) = 4
    THEN LET e == (w[4] % 32768) \div 16
             hi == (w[4] % 16) + (IF e = 0 THEN 0 ELSE 16)
             t1 == (w[1] \div 32768) + 2 * w[2]
             t2 == (t1 \div 32768) + 4 * w[3]
             t3 == (t2 \div 32768) + 8 * hi
         IN DMk(w[4] >= 32768, NNorm(<< w[1] % 32768, t1 % 32768, t2 % 32768, t3 >>), (IF e = 0 THEN 1 ELSE e) - 1075)
    ELSE LET e == (w[2] % 32768) \div 128
             mm == (w[2] % 128) * 65536 + w[1] + (IF e = 0 THEN 0 ELSE 8388608)
         IN DMk(w[2] >= 32768, NFromNat(mm), (IF e = 0 THEN 1 ELSE e) - 150)
ObsSeq(ws) == [i \in 1..Len(ws) |-> ObsD(ws[i])]
FmtOfT(t) == IF t = "f32" THEN F32 ELSE F64
EpsT(t) == QFromD(Eps(FmtOfT(t)))
TolEps(t, k) == QMulInt(EpsT(t), k)                                      \* k * epsilon, absolute

\* | o - n/d | <= tol      o dyadic, n signed BigInt, d magnitude, tol rational >= 0; integer arithmetic only
NearZ(o, n, d, tol) ==
    LET sh == IF o.e < 0 THEN 0 - o.e ELSE 0
        om == ZMk(o.neg, NMul(IF o.e > 0 THEN NShl(o.m, o.e) ELSE o.m, d))
        nn == IF sh = 0 THEN n ELSE ZShl(n, sh)
        df == ZSub(om, nn)
    IN NCmp(NMul(df.m, tol.q), NShl(NMul(tol.p.m, d), sh)) <= 0
\* the same with tol = 2^te (one big multiplication per component)
NearZ2(o, n, d, te) ==
    LET a == IF o.e < 0 THEN 0 - o.e ELSE 0
        b == IF te < 0 THEN 0 - te ELSE 0
        sh == IF a > b THEN a ELSE b
        om == ZMk(o.neg, NMul(NShl(o.m, o.e + sh), d))
        df == ZSub(om, ZShl(n, sh))
    IN NCmp(df.m, NShl(d, te + sh)) <= 0
\* 2^Pow2Above(q) > q  (q > 0 rational): bits(p) - bits(q) + 1
Pow2Above(q) == NBitLen(q.p.m) - NBitLen(q.q) + 1
NearPt2(obs, P, te) == \A i \in 1..4 : NearZ2(obs[i], P.n[i], P.d, te)
NearPt(obs, P, tol) == \A i \in 1..4 : NearZ(obs[i], P.n[i], P.d, tol)
NearPtPM(obs, P, tol) == NearPt(obs, P, tol) \/ NearPt(obs, PtNeg(P), tol)

\* ---------------------------------------------------------------- tolerances
\* k eps / sin(a)^2 and k eps / |sin(a)|   (a.s # 0)
TolOverSin2(t, k, a) == QMk(ZMk(FALSE, NMulSmall(NMul(a.h, a.h), k)), NShl(NMul(a.s.m, a.s.m), FmtOfT(t).mb))
TolOverSin(t, k, a) == QMk(ZMk(FALSE, NMulSmall(a.h, k)), NShl(a.s.m, FmtOfT(t).mb))
\* is cos(a) > 1 - k eps  (the neighbourhood of the linear-fallback zone cosTheta > 1 - epsilon)?   c may be negated by the caller
NearOne(t, cz, h, k) == ZSign(cz) > 0 /\ NCmp(NShl(NSub(h, cz.m), FmtOfT(t).mb), NMulSmall(h, k)) < 0
\* chord - arc gap at t = j/m for the chord from x to cur_m (sign sg = +1) or from x to the point at -theta (sg = -1 never needed: the
\* fallback is only reached on the short side).  The affine blend is ((1-t) + t cos theta) x + (t sin theta) n; the arc point is
\* cos(t theta) x + sin(t theta) n; the sum of the two coefficient differences bounds every component of the difference.
ChordGap(w, j) ==
    LET m == WM(w) aj == ArcAng(w, j) am == Theta(w)
        big == IF IAbs(j) > m THEN IAbs(j) ELSE m
        hb == NPow(HypN(w), big)
        up(z, e) == ZMk(z.neg, NMul(z.m, NPow(HypN(w), big - e)))         \* z / H^e  ->  numerator over H^big
        alpha == ZSub(ZAdd(ZMulInt(ZMk(FALSE, hb), m - j), ZMulInt(up(am.c, m), j)), ZMulInt(up(aj.c, IAbs(j)), m))
        beta == ZSub(ZMulInt(up(am.s, m), j), ZMulInt(up(aj.s, IAbs(j)), m))
    IN QMk(ZMk(FALSE, NAdd(alpha.m, beta.m)), NMulSmall(hb, m))

\* ---------------------------------------------------------------- postconditions in the plane (x, n), for points without a rational expectation
\* obs on one exponent: obs[i] = R[i] * 2^e0
ObsMinE(obs) == LET e(i) == IF DIsZero(obs[i]) THEN 0 ELSE obs[i].e
                    mn(a, b) == IF a < b THEN a ELSE b
                IN mn(mn(e(1), e(2)), mn(e(3), e(4)))
ObsInts(obs, e0) == [i \in 1..4 |-> IF DIsZero(obs[i]) THEN Zero ELSE ZMk(obs[i].neg, NShl(obs[i].m, obs[i].e - e0))]
ZSum4(f) == ZAdd(ZAdd(f[1], f[2]), ZAdd(f[3], f[4]))
\* | z * 2^e / d | <= tol
SmallZ(z, e, d, tol) ==
    IF e >= 0 THEN NCmp(NMul(NShl(z.m, e), tol.q), NMul(tol.p.m, d)) <= 0
    ELSE NCmp(NMul(z.m, tol.q), NShl(NMul(tol.p.m, d), 0 - e)) <= 0
\* the part of obs orthogonal to the plane spanned by x and n is below tol in every component
InPlane(w, obs, tol) ==
    LET e0 == ObsMinE(obs) R == ObsInts(obs, e0)
        A == ZSum4([i \in 1..4 |-> ZMulInt(R[i], w[i])])                  \* (r . x) * xn / 2^e0
        B == ZSum4([i \in 1..4 |-> ZMulInt(R[i], WNv(w)[i])])             \* (r . n) * ad * xn / 2^e0
        D == WAd(w) * WAd(w) * WXn(w) * WXn(w)
    IN \A i \in 1..4 : SmallZ(ZSub(ZSub(ZMulInt(R[i], D), ZMulInt(A, w[i] * WAd(w) * WAd(w))), ZMulInt(B, WNv(w)[i])), e0, NFromNat(D), tol)
\* | |obs|^2 - 1 | <= tol
UnitNorm(obs, tol) ==
    LET e0 == ObsMinE(obs) R == ObsInts(obs, e0)
        S == ZSum4([i \in 1..4 |-> ZMul(R[i], R[i])])                     \* |r|^2 / 2^(2 e0)
    IN IF e0 >= 0 THEN SmallZ(ZSub(ZShl(S, 2 * e0), ZI(1)), 0, <<1>>, tol)
       ELSE SmallZ(ZSub(S, ZMk(FALSE, NShl(<<1>>, 0 - 2 * e0))), 2 * e0, <<1>>, tol)
\* the coefficients of obs on x and on n, as rationals
CoefX(w, obs) == LET e0 == ObsMinE(obs) R == ObsInts(obs, e0)
                     A == ZSum4([i \in 1..4 |-> ZMulInt(R[i], w[i])])
                 IN IF e0 >= 0 THEN QMk(ZShl(A, e0), NFromNat(WXn(w))) ELSE QMk(A, NShl(NFromNat(WXn(w)), 0 - e0))
CoefN(w, obs) == LET e0 == ObsMinE(obs) R == ObsInts(obs, e0)
                     B == ZSum4([i \in 1..4 |-> ZMulInt(R[i], WNv(w)[i])])
                     d == NFromNat(WAd(w) * WXn(w))
                 IN IF e0 >= 0 THEN QMk(ZShl(B, e0), d) ELSE QMk(B, NShl(d, 0 - e0))
\* obs lies (within tol) between x and the end point z of the arc on the given side: sine coefficient on the right side and
\* cosine coefficient not below cos theta'
OnArc(w, obs, side, tol) ==
    LET a == Theta(w) cx == CoefX(w, obs) cn == CoefN(w, obs)
        cosz == IF side >= 0 THEN QMk(a.c, a.h) ELSE QMk(ZNeg(a.c), a.h)
    IN /\ QLe(QNeg(tol), IF side >= 0 THEN cn ELSE QNeg(cn))
       /\ QLe(QSub(cosz, tol), cx)

\* ---------------------------------------------------------------- functions of the logged floating inputs (no walk needed)
DOne == DFromInt(1)
\* affine blend x (1 - t) + y (s t) on dyadics, and the sum of the magnitudes of its two terms
BlendD(x, y, t, s) == DAdd(DMul(x, DSub(DOne, t)), DMul(y, IF s < 0 THEN DNeg(t) ELSE t))
BlendMagD(x, y, t) == DAdd(DAbs(DMul(x, DSub(DOne, t))), DAbs(DMul(y, t)))
DNear(a, b, tol) == DLe(DAbs(DSub(a, b)), tol)
DDot(a, b) == DSum([i \in 1..Len(a) |-> DMul(a[i], b[i])])
DSum1(a) == DSum([i \in 1..Len(a) |-> DAbs(a[i])])
\* r is v scaled by a positive factor that makes it a unit vector:  r_i (r.v) = v_i (r.r),  r.v > 0,  |r.r - 1| small
\* (slack: absolute tolerance on r_i (r.v) - v_i (r.r))
IsNormalized(r, v, slack, ntol) ==
    LET s == DDot(r, v) rr == DDot(r, r)
    IN /\ DSign(s) > 0
       /\ DNear(rr, DOne, ntol)
       /\ \A i \in 1..Len(r) : DNear(DMul(r[i], s), DMul(v[i], rr), slack)
=============================================================================
