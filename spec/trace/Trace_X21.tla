----------------------------- MODULE Trace_X21 ----------------------------
(* Trace specification of stage X21: the formatting state machine of gtx/io and glm::to_string of gtx/string_cast.

   Stateful: the variable S is the machine of GlmX21 part C.  A {"e":"Reset"} marker starts a behaviour on a fresh stream
   (S = XInit).  Every other line is one step executed by harness/x21.cpp on a real std::basic_ostringstream:

     manipulator / saver entry / saver exit / output   {"op": ..., parameters, "st": projected state after the step, "text": characters appended}

   The step is accepted when
     (1) the state of the specification after the step, IoStep(S, ev), projects onto the logged state: the stream's locale holds a
         format_punct facet iff S.cur # 0, the nine fields of that facet, and the flags / precision / width / fill of the stream - exact equality;
     (2) the logged text equals the specified text exactly: empty for every step that is not an output, IoText(S, ev, value) for an output.
   Text outside the modelled domain constrains nothing (VSkip) - the state is still compared: NaN components (the sign of a NaN in text
   is not specified by C), flags hex / oct / showpoint / uppercase / hexfloat, precision > 60, values whose numerator or denominator has more
   than 200 bits (cost only; every float is inside).  After a rejected step the machine adopts the logged state, so that one defect is reported once.

   {"op":"to_string"} events are stateless: the logged text must equal ToStringText of the logged value.  Two deviations of GLM are pinned
   exactly: "%d" is used for every integer type, so an unsigned 32-bit component >= 2^31 shows as the negative int with the same bits
   (KD-X21-tostring-uint-as-int) and a 64-bit component outside the int range shows its low 32 bits read as an int (KD-X21-tostring-int64-truncated). *)
EXTENDS GlmX21, TraceBase
VARIABLES l, S
vars == <<l, S>>

ObsFlags(ev) == {ev.st.os.flags[i] : i \in 1..Len(ev.st.os.flags)}
ObsOs(ev) == [flags |-> ObsFlags(ev), precision |-> ev.st.os.precision, width |-> ev.st.os.width, fill |-> ev.st.os.fill]
ObsFmt(ev) == [f \in DOMAIN XDefaultFmt |-> ev.st.fmt[f]]
StateOk(T, ev) == /\ ev.st.has = XHas(T)
                  /\ (XHas(T) => ObsFmt(ev) = XEffFmt(T))
                  /\ ObsOs(ev) = T.os
\* the machine continues from what the implementation did
Adopt(T, ev) == LET T1 == IF ev.st.has THEN XEnsure(T) ELSE [T EXCEPT !.cur = 0]
                    T2 == IF ev.st.has THEN [T1 EXCEPT !.heap[T1.cur] = ObsFmt(ev)] ELSE T1
                IN [T2 EXCEPT !.os = ObsOs(ev)]

RECURSIVE ArgNums(_, _, _)
ArgNums(t, args, i) == IF i > Len(args) THEN << >> ELSE XNumsOfWords(t, args[i]) \o ArgNums(t, args, i + 1)
EvNums(ev) == ArgNums(ev.t, ev.a, 1)

StepOps == XManipOps \cup XOsOps \cup XSaverOps \cup {"out"}
\* <<verdict, reason>>
StepVerdict(ev, T) ==
    IF ~StateOk(T, ev) THEN <<VBad, "/state">>
    ELSE IF ev.op # "out" THEN <<VBool(ev.text = << >>), "/text">>
    ELSE LET nums == EvNums(ev) IN
         IF ~IoTextModelled(S, ev, nums) THEN <<VSkip, "">>
         ELSE <<VBool(ev.text = IoText(S, ev, nums)), "/text">>

VToString(ev) ==
    LET nums == EvNums(ev) wrapped == [i \in 1..Len(nums) |-> XWrapInt(nums[i])]
        allFit == \A i \in 1..Len(nums) : XFitsInt(nums[i]) IN
    IF ~ToStringModelled(nums) THEN VSkip
    ELSE IF ev.text = ToStringText(ev.kind, ev.C, ev.R, ev.t, nums) THEN VOk
    ELSE IF ~allFit /\ ev.t = "u32" /\ ev.text = ToStringText(ev.kind, ev.C, ev.R, ev.t, wrapped) THEN VKnown("KD-X21-tostring-uint-as-int")
    ELSE IF ~allFit /\ ev.t \in {"i64", "u64"} /\ ev.text = ToStringText(ev.kind, ev.C, ev.R, ev.t, wrapped) THEN VKnown("KD-X21-tostring-int64-truncated")
    ELSE VBad

Init == l = 1 /\ S = XInit /\ RegInit
Next == /\ l <= NTrace
        /\ LET ev == TraceLog[l] IN
           IF IsMarker(ev) THEN Bump(3) /\ S' = XInit
           ELSE IF ev.op = "to_string" THEN Record(l, VToString(ev), "to_string") /\ UNCHANGED S
           ELSE IF ev.op \notin StepOps \/ ~XCanStep(S, ev) THEN Record(l, VBad, ev.op \o "/not enabled") /\ S' = Adopt(S, ev)
           ELSE LET T == IoStep(S, ev) vr == StepVerdict(ev, T) IN
                /\ Record(l, vr[1], ev.op \o vr[2])
                /\ S' = IF StateOk(T, ev) THEN T ELSE Adopt(T, ev)
        /\ l' = l + 1
Spec == Init /\ [][Next]_vars
Accepted == Summary
=============================================================================
