----------------------------- MODULE Trace_C06 ----------------------------
(* Trace specification for the pack / unpack pairs (C06).
   rt  : p -> v = unpack(p) -> p2 = pack(v) -> v2 = unpack(p2)
   pk  : x -> p = pack(x) -> u = unpack(p)
   rtT / pkT : the templated vector packers (one word per component)
   rgbm: packRGBM / unpackRGBM *)
EXTENDS GlmPacking, TraceBase
VARIABLE l
vars == <<l>>

FmtOfComp(w) == IF Len(w) = 4 THEN F64 ELSE F32
SlackExp(w) == IF Len(w) = 4 THEN -51 ELSE -22
FV(w) == Fields(FmtOfComp(w), w)
QOf(w) == QFromD(Val(FmtOfComp(w), FV(w)))
UlpQOf(w) == QFromD(UlpOf(FmtOfComp(w), Val(FmtOfComp(w), FV(w))))
IsNaNW(w) == IsNaN(FmtOfComp(w), FV(w))
IsInfW(w) == IsInf(FmtOfComp(w), FV(w))
\* a real input as a rational, infinities read as +-2 (beyond every normalised range; clamping makes the size irrelevant)
QIn(w) == IF IsInfW(w) THEN QFromInt(IF FV(w).s = 1 THEN -2 ELSE 2) ELSE QOf(w)

\* ---------------------------------------------------------------- normalised / integer fields
NormDecodeOK(fld, code, vw) ==
    LET d == DecodeNorm(fld, code) IN ~IsNaNW(vw) /\ ~IsInfW(vw) /\ QNear(QOf(vw), d, IF QIsZero(QOf(vw)) THEN QZero ELSE QMulInt(UlpQOf(vw), 2))   \* code * rounded(1/scale): two roundings
IntDecodeOK(fld, code, vw) ==           \* vw: element word of any width
    LET EW == IF fld.w \in {8, 16, 32} THEN fld.w ELSE 32          \* element width: the field itself, or int for the 10/2-bit fields
    IN IF fld.kind = "uint" THEN WFromLimbs(vw) = code
       ELSE ZEq(WToZ(EW, TRUE, WFromLimbs(vw)), SignedOf(code, fld.w))
SfDecodeOK(fld, codeN, vw) ==
    LET code == NToNat(codeN) IN
    IF SfIsNaN(fld, code) THEN IsNaNW(vw)
    ELSE IF SfIsInf(fld, code) THEN IsInfW(vw) /\ FV(vw).s = 0
    ELSE ~IsNaNW(vw) /\ ~IsInfW(vw) /\ DEq(Val(F32, FV(vw)), SfDecode(fld, code)) /\ (FV(vw).s = 0 \/ IsZero(F32, FV(vw)))

FieldRT(fld, p, p2, vw, v2w) ==
    LET c == FieldCodeN(p, fld) c2 == FieldCodeN(p2, fld) IN
    CASE fld.kind \in {"unorm", "snorm"} ->
            /\ NormDecodeOK(fld, c, vw)
            /\ (IF CanonicalNorm(fld, c) THEN c2 = c ELSE QEq(DecodeNorm(fld, c2), DecodeNorm(fld, c)))
            /\ v2w = vw
      [] fld.kind \in {"uint", "sint"} -> IntDecodeOK(fld, c, vw) /\ c2 = c /\ v2w = vw
      [] fld.kind = "half" ->
            LET h == NToNat(c) h2 == NToNat(c2) IN
            /\ AcceptHalfToFloat(F32S(vw), F32M(vw), h)
            /\ (IF HalfIsNaN(h) THEN HalfIsNaN(h2) /\ IsNaNW(v2w) ELSE h2 = h /\ v2w = vw)
      [] fld.kind = "sf" ->
            /\ SfDecodeOK(fld, c, vw)
            /\ (IF SfIsNaN(fld, NToNat(c)) THEN SfIsNaN(fld, NToNat(c2)) /\ IsNaNW(v2w) ELSE c2 = c /\ v2w = vw)

FieldPK(fld, xw, p, uw) ==          \* "ok" | "skip" | "bad"
    LET c == FieldCodeN(p, fld) IN
    CASE fld.kind \in {"unorm", "snorm"} ->
            IF IsNaNW(xw) THEN "skip"
            ELSE IF AcceptNorm(fld, c, QIn(xw), SlackExp(xw)) /\ NormDecodeOK(fld, c, uw) THEN "ok" ELSE "bad"
      [] fld.kind \in {"uint", "sint"} ->
            IF c = NLowBits(WFromLimbs(xw), fld.w) /\ IntDecodeOK(fld, c, uw) THEN "ok" ELSE "bad"
      [] fld.kind = "half" ->
            LET h == NToNat(c) IN
            IF AcceptFloatToHalf(h, F32S(xw), F32M(xw)) /\ AcceptHalfToFloat(F32S(uw), F32M(uw), h) THEN "ok" ELSE "bad"
      [] fld.kind = "sf" ->
            LET code == NToNat(c) xf == FV(xw) IN
            IF IsNaNW(xw) THEN (IF SfIsNaN(fld, code) /\ IsNaNW(uw) THEN "ok" ELSE "bad")
            ELSE IF IsInfW(xw) THEN (IF (IF xf.s = 0 THEN SfIsInf(fld, code) ELSE code = 0) /\ SfDecodeOK(fld, c, uw) THEN "ok" ELSE "bad")
            ELSE IF AcceptSf(fld, code, Val(F32, xf)) /\ SfDecodeOK(fld, c, uw) THEN "ok" ELSE "bad"

Tri3(S) == IF "bad" \in S THEN VBad ELSE IF S = {"skip"} THEN VSkip ELSE VOk

\* ---------------------------------------------------------------- shared exponent F3x9_E1x5
ShFlds == <<Fld(0, 9, "uint", 1), Fld(9, 9, "uint", 1), Fld(18, 9, "uint", 1)>>
ShE(p) == NToNat(NLowBits(NShr(p, 27), 5))
ShVal(p, i) == DMk(FALSE, FieldCodeN(p, ShFlds[i]), ShE(p) - 24)
SharedRT(ev) ==
    LET p == WFromLimbs(ev.a[1][1]) IN
    VBool(/\ \A i \in 1..3 : ~IsNaNW(ev.v[i]) /\ ~IsInfW(ev.v[i]) /\ DEq(Val(F32, FV(ev.v[i])), ShVal(p, i))
          /\ ev.v2 = ev.v)
SharedPK(ev) ==
    IF \E i \in 1..3 : IsNaNW(ev.a[1][i]) THEN VSkip
    ELSE LET p == WFromLimbs(ev.r[1])
             col == [i \in 1..3 |-> IF IsInfW(ev.a[1][i]) THEN (IF FV(ev.a[1][i]).s = 1 THEN DZero ELSE SharedMaxD)
                                    ELSE DMin(DMax(Val(F32, FV(ev.a[1][i])), DZero), SharedMaxD)]
             maxc == DMax(col[1], DMax(col[2], col[3]))
             e0 == IF DIsZero(maxc) THEN 0 ELSE (IF DTopExp(maxc) < -16 THEN -16 ELSE DTopExp(maxc)) + 16
             E == ShE(p)
             step == DPow2(E - 24)
         IN VBool(/\ E \in {e0, e0 + 1}
                  /\ \A i \in 1..3 : DLe(DAbs(DSub(ShVal(p, i), col[i])), step)
                  /\ \A i \in 1..3 : DEq(Val(F32, FV(ev.u[i])), ShVal(p, i)))

\* ---------------------------------------------------------------- whole events
RT(ev) ==
    IF ev.fmt = "F3x9_E1x5" THEN SharedRT(ev)
    ELSE LET F == Formats[ev.fmt] p == WFromLimbs(ev.a[1][1]) p2 == WFromLimbs(ev.p2[1])
         IN VBool(Len(ev.v) = Len(F) /\ \A i \in 1..Len(F) : FieldRT(F[i], p, p2, ev.v[i], ev.v2[i]))
PK(ev) ==
    IF ev.fmt = "F3x9_E1x5" THEN SharedPK(ev)
    ELSE LET F == Formats[ev.fmt] p == WFromLimbs(ev.r[1])
         IN Tri3({FieldPK(F[i], ev.a[1][i], p, ev.u[i]) : i \in 1..Len(F)})
\* templated packers: component i has its own word ev.r[i] (or ev.a[1][i] for rtT)
RTT(ev) == LET fld == Formats[ev.fmt][1] IN
    VBool(\A i \in 1..Len(ev.v) : FieldRT(fld, WFromLimbs(ev.a[1][i]), WFromLimbs(ev.p2[i]), ev.v[i], ev.v[i]))
PKT(ev) == LET fld == Formats[ev.fmt][1] IN
    Tri3({FieldPK(fld, ev.a[1][i], WFromLimbs(ev.r[i]), ev.u[i]) : i \in 1..Len(ev.r)})

\* RGBM: alpha = ceil(clamp(max(rgb/6, 1e-6), 0, 1) * 255) / 255, colour = rgb / 6 / alpha; unpack inverts it
RGBM(ev) ==
    LET c == [i \in 1..3 |-> QOf(ev.a[1][i])] a == QOf(ev.r[4])
        maxc == QDiv(QMax(c[1], QMax(c[2], c[3])), QFromInt(6))
        k == QMulInt(a, 255)
        eps == QFromInts(1, 100000)
    IN VBool(/\ QLe(QSub(maxc, eps), a) /\ QLe(a, QAdd(QAdd(maxc, QFromInts(1, 255)), eps)) /\ QLe(a, QAdd(QOne, eps))
             /\ QNear(k, QMk(QFloor(QAdd(k, QFromInts(1, 2))), <<1>>), QFromInts(1, 10000))              \* alpha is a multiple of 1/255
             /\ \A i \in 1..3 : QNear(QMul(QOf(ev.r[i]), a), QDiv(c[i], QFromInt(6)), QMul(eps, QAdd(QOne, c[i])))
             /\ \A i \in 1..3 : QNear(QOf(ev.u[i]), c[i], QMul(eps, QAdd(QOne, c[i]))))

Verdict(ev) ==
    CASE ev.op = "rt" -> RT(ev) [] ev.op = "pk" -> PK(ev) [] ev.op = "rtT" -> RTT(ev) [] ev.op = "pkT" -> PKT(ev)
      [] ev.op = "rgbm" -> RGBM(ev) [] OTHER -> VBad

Init == l = 1 /\ RegInit
Next == /\ l <= NTrace
        /\ LET ev == TraceLog[l] IN IF IsMarker(ev) THEN Bump(3) ELSE Record(l, Verdict(ev), IF Has(ev, "fmt") THEN ev.fmt ELSE ev.op)
        /\ l' = l + 1
Spec == Init /\ [][Next]_vars
Accepted == Summary
=============================================================================
