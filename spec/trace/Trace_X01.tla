----------------------------- MODULE Trace_X01 ----------------------------
(* Trace specification of stage X01 (attached to C01): gtx/component_wise, gtx/common, gtx/hash, gtx/scalar_multiplication,
   gtx/range, the typedef tables of gtx/number_precision / raw_data / std_based_type, gtx/exterior_product, gtx/mixed_product,
   gtx/normal.  Stateless: every event is one GLM call (normScale: compNormalize followed by compScale; cross2 / mixed /
   triNormal: the call plus the permuted calls of the algebraic laws) judged on its own against GlmX01.tla.

   Integer results are exact.  Floating results are exact wherever a single rounding (or none) determines them (reductions of
   one or two components, operands whose partial results are all representable, fmod, scalar products, minima / maxima,
   pass-through) and otherwise within the bound derived next to each predicate in GlmX01.tla / GlmGeom.tla.

   Outside the documented domain (constrain nothing, VSkip): signed reductions with an unrepresentable partial sum / product
   (in any order); float sums that can overflow; float products with factors outside 2^+-30 or non-finite; NaN operands of
   compMin / compMax / openBounded / closeBounded (GLSL min / max / comparisons of NaN are undefined); signalling NaNs for
   fcompMin / fcompMax; compScale of a value outside the normalised range; fmod with y infinite, integer % 0 and Min % -1, an
   exponent gap above 320; scalar multiplication with operands outside 2^+-60; geometric helpers outside 2^+-40 (float) /
   2^+-100 (double) and degenerate triangles. *)
EXTENDS GlmX01, TraceBase
VARIABLE l
vars == <<l>>

Fm(ev) == TypeFmt(ev.t)
IsF(ev) == TypeIsFloat(ev.t)
TW(ev) == TypeW(ev.t)
TS(ev) == TypeSigned(ev.t)
ZofT(t, w) == WToZ(TypeW(t), TypeSigned(t), WFromLimbs(w))
Zs(t, ws) == [i \in 1..Len(ws) |-> ZofT(t, ws[i])]
Fs(f, ws) == [i \in 1..Len(ws) |-> Fields(f, ws[i])]
DSeq(f, ws) == [i \in 1..Len(ws) |-> ValW(f, ws[i])]
WEq(a, b) == NCmp(a, b) = 0
Cp(arg, i) == IF Len(arg) = 1 THEN arg[1] ELSE arg[i]                       \* scalar operands are broadcast
\* every component is judged on its own: all(i) over the components in the domain; the event is VSkip when none is
PerComp(n, dom(_), ok(_)) == IF \A i \in 1..n : ~dom(i) THEN VSkip ELSE VBool(\A i \in 1..n : dom(i) => ok(i))
ShapeOk(ev) == Len(ev.a[1]) = ev.n

----------------------------------------------------------------------------
\* compAdd compMul compMin compMax fcompMin fcompMax:  a = <<v>>, r = <<word>>
VReduceInt(ev) ==
    LET W == TW(ev) sg == TS(ev) zs == Zs(ev.t, ev.a[1]) rw == WFromLimbs(ev.r[1]) rz == ZofT(ev.t, ev.r[1]) IN
    CASE ev.op = "compAdd" -> IF ~XaAddDom(W, sg, zs) THEN VSkip ELSE VBool(WEq(rw, XaAddWord(W, zs)))
      [] ev.op = "compMul" -> IF ~XaMulDom(W, sg, zs) THEN VSkip ELSE VBool(WEq(rw, XaMulWord(W, zs)))
      [] ev.op = "compMin" -> VBool(XaIsMinZ(rz, zs))
      [] ev.op = "compMax" -> VBool(XaIsMaxZ(rz, zs))
      [] OTHER -> VBad
VReduceFloat(ev) ==
    LET f == Fm(ev) xs == Fs(f, ev.a[1]) r == Fields(f, ev.r[1]) all == 1..Len(xs) IN
    CASE ev.op = "compAdd" -> IF ~XaAddRange(f, XaFiniteVals(f, xs)) THEN VSkip ELSE VBool(XaFAddOk(f, xs, r))
      [] ev.op = "compMul" -> IF ~XaAllFinite(f, xs) \/ ~XaMulRange(f, XaVals(f, xs)) THEN VSkip ELSE VBool(XaFMulFinite(f, XaVals(f, xs), r))
      [] ev.op = "compMin" -> IF XaAnyNaN(f, xs) THEN VSkip ELSE VBool(~IsNaN(f, r) /\ XaIsMinFI(f, r, xs, all))
      [] ev.op = "compMax" -> IF XaAnyNaN(f, xs) THEN VSkip ELSE VBool(~IsNaN(f, r) /\ XaIsMaxFI(f, r, xs, all))
      [] ev.op = "fcompMin" -> IF \E i \in all : XaIsSNaN(f, xs[i]) THEN VSkip ELSE VBool(XaFCompMinOk(f, r, xs))
      [] ev.op = "fcompMax" -> IF \E i \in all : XaIsSNaN(f, xs[i]) THEN VSkip ELSE VBool(XaFCompMaxOk(f, r, xs))
      [] OTHER -> VBad
VReduce(ev) == IF ~ShapeOk(ev) \/ Len(ev.r) # 1 THEN VBad ELSE IF IsF(ev) THEN VReduceFloat(ev) ELSE VReduceInt(ev)

----------------------------------------------------------------------------
\* compNormalize<ft>(vec<n, t>):  a = <<ints>>, r = floats of type ft
MaxInexact(f, W, sg) == (IF sg THEN W - 1 ELSE W) > f.mb + 1                      \* numeric_limits<T>::max() is not a value of the floating type
NormCompOk(f, ev, zw, nw) == LET n == Fields(f, nw) IN IsFinite(f, n) /\ XaNormOk(f, TW(ev), TS(ev), ZofT(ev.t, zw), Val(f, n))
VNormalizeEv(ev) ==
    LET f == TypeFmt(ev.ft) IN
    IF ~ShapeOk(ev) \/ Len(ev.r) # ev.n THEN VBad
    ELSE VBool(\A i \in 1..ev.n : NormCompOk(f, ev, ev.a[1][i], ev.r[i]))
\* compScale<t>(vec<n, ft>):  a = <<floats>>, r = ints of type t
ScaleKnown(f, ev, x, rz) == /\ MaxInexact(f, TW(ev), TS(ev)) /\ XaScaleTop(f, TW(ev), TS(ev), x)
                            /\ ZEq(rz, XaTMinZ(TW(ev), TS(ev)))                   \* 0 / the most negative value
VScaleEv(ev) ==
    LET f == TypeFmt(ev.ft) W == TW(ev) sg == TS(ev) n == ev.n
        X(i) == Fields(f, ev.a[1][i])
        dom(i) == IsFinite(f, X(i)) /\ XaScaleDom(sg, Val(f, X(i)))
        ok(i) == XaScaleOk(f, W, sg, Val(f, X(i)), ZofT(ev.t, ev.r[i]))
        kn(i) == ScaleKnown(f, ev, Val(f, X(i)), ZofT(ev.t, ev.r[i]))
    IN IF ~ShapeOk(ev) \/ Len(ev.r) # n THEN VBad
       ELSE IF \A i \in 1..n : ~dom(i) THEN VSkip
       ELSE IF \A i \in 1..n : dom(i) => ok(i) THEN VOk
       ELSE IF \A i \in 1..n : dom(i) => (ok(i) \/ kn(i)) THEN VKnown("KD-X01-compscale-endpoint-overflow")
       ELSE VBad
\* compScale<t>(compNormalize<ft>(v)):  a = <<ints>>, nv = the normalised floats, r = ints
VNormScale(ev) ==
    LET f == TypeFmt(ev.ft) W == TW(ev) sg == TS(ev) n == ev.n
        Z(i) == ZofT(ev.t, ev.a[1][i])
        RZ(i) == ZofT(ev.t, ev.r[i])
        ok(i) == XaRTOk(f, W, Z(i), RZ(i))
        kn1(i) == sg /\ XaRTExact(f, W) /\ XaRTOffTowardZero(Z(i), RZ(i))
        kn2(i) == ~XaRTExact(f, W) /\ ScaleKnown(f, ev, ValW(f, ev.nv[i]), RZ(i))
    IN IF ~ShapeOk(ev) \/ Len(ev.r) # n \/ Len(ev.nv) # n THEN VBad
       ELSE IF ~\A i \in 1..n : NormCompOk(f, ev, ev.a[1][i], ev.nv[i]) THEN VBad
       ELSE IF \A i \in 1..n : ok(i) THEN VOk
       ELSE IF \A i \in 1..n : ok(i) \/ kn1(i) THEN VKnown("KD-X01-compscale-signed-roundtrip")
       ELSE IF \A i \in 1..n : ok(i) \/ kn2(i) THEN VKnown("KD-X01-compscale-endpoint-overflow")
       ELSE VBad
\* floating vectors are passed through unchanged by both functions
VPass(ev) == VBool(ShapeOk(ev) /\ ev.r = ev.a[1])

----------------------------------------------------------------------------
\* std::hash:  k in vec / mat / qua / dq, c columns, n rows (vec: c = 1), a = <<value>>, h = std::hash<T> of every component in
\* logging order (64-bit words), r = <<hash>>
VHash(ev) ==
    LET hs == [i \in 1..Len(ev.h) |-> WFromLimbs(ev.h[i])] r == WFromLimbs(ev.r[1]) W == 64 IN
    IF Len(ev.h) # Len(ev.a[1]) THEN VBad
    ELSE CASE ev.k = "vec" -> VBool(Len(hs) = ev.n /\ WEq(r, XaHashVec(W, hs)))
           [] ev.k = "mat" -> VBool(Len(hs) = ev.c * ev.n /\ WEq(r, XaHashMat(W, ev.c, ev.n, hs)))
           [] ev.k = "qua" -> VBool(Len(hs) = 4 /\ WEq(r, XaHashQua(W, hs)))
           [] ev.k = "dq" -> VBool(Len(hs) = 8 /\ WEq(r, XaHashDq(W, hs)))
           [] OTHER -> VBad

----------------------------------------------------------------------------
\* gtx/common
VIsDenormal(ev) ==
    LET f == Fm(ev) IN
    VBool(ShapeOk(ev) /\ Len(ev.r) = ev.n /\ \A i \in 1..ev.n : (ev.r[i] = <<1>>) = XaIsDenormal(f, Fields(f, ev.a[1][i])) /\ ev.r[i] \in {<<0>>, <<1>>})
VFmodF(ev) ==
    LET f == Fm(ev) n == ev.n
        X(i) == Fields(f, Cp(ev.a[1], i)) Y(i) == Fields(f, Cp(ev.a[2], i))
        special(i) == IsNaN(f, X(i)) \/ IsNaN(f, Y(i)) \/ IsInf(f, X(i)) \/ IsZero(f, Y(i))
        dom(i) == special(i) \/ (~IsInf(f, Y(i)) /\ XaFmodRange(Val(f, X(i)), Val(f, Y(i))))
        ok(i) == XaFmodFOk(f, X(i), Y(i), Fields(f, ev.r[i]))
    IN IF Len(ev.r) # n THEN VBad ELSE PerComp(n, dom, ok)
VFmodI(ev) ==
    LET W == TW(ev) sg == TS(ev) n == ev.n
        A(i) == ZofT(ev.t, Cp(ev.a[1], i)) B(i) == ZofT(ev.t, Cp(ev.a[2], i))
        dom(i) == XaFmodZDom(W, sg, A(i), B(i))
        ok(i) == ZEq(ZofT(ev.t, ev.r[i]), XaFmodZ(A(i), B(i)))
    IN IF Len(ev.r) # n THEN VBad ELSE PerComp(n, dom, ok)
\* openBounded / closeBounded(Value, Min, Max)
NumOf(ev, w) == IF IsF(ev) THEN XaInfAsBig(Fm(ev), Fields(Fm(ev), w)) ELSE DFromZ(ZofT(ev.t, w))
VBounded(ev) ==
    LET n == ev.n
        nan(w) == IsF(ev) /\ IsNaN(Fm(ev), Fields(Fm(ev), w))
        dom(i) == ~nan(ev.a[1][i]) /\ ~nan(ev.a[2][i]) /\ ~nan(ev.a[3][i])
        inside(i) == IF ev.op = "openBounded" THEN XaOpen(NumOf(ev, ev.a[1][i]), NumOf(ev, ev.a[2][i]), NumOf(ev, ev.a[3][i]))
                 ELSE XaClosed(NumOf(ev, ev.a[1][i]), NumOf(ev, ev.a[2][i]), NumOf(ev, ev.a[3][i]))
        ok(i) == ev.r[i] = (IF inside(i) THEN <<1>> ELSE <<0>>)
    IN IF Len(ev.r) # n \/ Len(ev.a) # 3 \/ \E k \in 1..3 : Len(ev.a[k]) # n THEN VBad ELSE PerComp(n, dom, ok)

----------------------------------------------------------------------------
\* scalar_multiplication:  k in sv (s * V) / vs (V * s) / div (V / s); st = type of the scalar; a = <<scalar, value>>, r = value
SMag == 60
MagOk(d) == DIsZero(d) \/ (DTopExp(d) >= -SMag /\ DTopExp(d) <= SMag)
ScalarFinite(ev) == ~TypeIsFloat(ev.st) \/ IsFinite(TypeFmt(ev.st), Fields(TypeFmt(ev.st), ev.a[1][1]))
ScalarD(ev) == IF TypeIsFloat(ev.st) THEN ValW(TypeFmt(ev.st), ev.a[1][1]) ELSE DFromZ(ZofT(ev.st, ev.a[1][1]))
VSMul(ev) ==
    LET n == Len(ev.a[2]) IN
    IF Len(ev.r) # n THEN VBad
    ELSE IF ~ScalarFinite(ev) THEN VSkip
    ELSE IF ~MagOk(ScalarD(ev)) \/ (ev.k = "div" /\ DIsZero(ScalarD(ev))) THEN VSkip
    ELSE LET sf == XaToF32(ScalarD(ev), IF TypeIsFloat(ev.st) THEN Fields(TypeFmt(ev.st), ev.a[1][1]).s ELSE 0)
             V(i) == Fields(F32, ev.a[2][i]) R(i) == Fields(F32, ev.r[i])
             dom(i) == IsNaN(F32, V(i)) \/ (IsFinite(F32, V(i)) /\ MagOk(Val(F32, V(i))))
             ok(i) == IF IsNaN(F32, V(i)) THEN IsNaN(F32, R(i))
                      ELSE IF ev.k = "div" THEN \E c \in XaDivBits(V(i), sf) : XaSameBits(R(i), c)
                      ELSE XaSameBits(R(i), XaMulBits(V(i), sf))
         IN PerComp(n, dom, ok)

----------------------------------------------------------------------------
\* range:  cnt = components(v), dist / distm = end(v) - begin(v) on the const / mutable object, off = begin(v) - value_ptr(v), it = the values visited by a
\* range-for over the const object, w = the object after a range-for over the mutable object has stored 1, 2, 3, ...
VRange(ev) ==
    LET N == ev.c * ev.n
        isI(i) == IF IsF(ev) THEN LET x == Fields(Fm(ev), ev.w[i]) IN IsFinite(Fm(ev), x) /\ DEq(Val(Fm(ev), x), DFromInt(i))
                  ELSE ZEq(ZofT(ev.t, ev.w[i]), ZFromInt(i))
    IN VBool(/\ Len(ev.a[1]) = N /\ ev.cnt = N /\ ev.dist = N /\ ev.distm = N /\ ev.off = 0
             /\ ev.it = ev.a[1]
             /\ Len(ev.w) = N /\ \A i \in 1..N : isI(i))

----------------------------------------------------------------------------
\* typedef tables (the harness logs sizeof and numeric_limits of each name)
VTypedef(ev) ==
    IF ev.name \notin DOMAIN XaScalarTypedefs THEN VBad
    ELSE LET rec == XaScalarTypedefs[ev.name] bytes == rec[1] kind == rec[2] IN
         VBool(/\ ev.bytes = bytes
               /\ ev.int = (IF kind = "f" THEN 0 ELSE 1)
               /\ ev.sgn = (IF kind = "u" THEN 0 ELSE 1)
               /\ ev.iec = (IF kind = "f" THEN 1 ELSE 0)
               /\ ev.digits = XaDigits(bytes, kind))
VTypedefV(ev) ==
    IF ev.name \notin DOMAIN XaSizeTypedefs THEN VBad
    ELSE VBool(/\ ev.len = XaSizeTypedefs[ev.name] /\ ev.ebytes = ev.szt /\ ev.bytes = ev.len * ev.szt /\ ev.int = 1 /\ ev.sgn = 0)

----------------------------------------------------------------------------
\* cross(vec2, vec2), mixedProduct, triangleNormal
GMagLim(f) == IF f = F64 THEN 100 ELSE 40
GMagOkW(f, w) == LET x == Fields(f, w) IN IsFinite(f, x) /\ (IsZero(f, x) \/ LET t == DTopExp(Val(f, x)) IN t >= -GMagLim(f) /\ t <= GMagLim(f))
GDom(ev) == \A i \in 1..Len(ev.a) : \A j \in 1..Len(ev.a[i]) : GMagOkW(Fm(ev), ev.a[i][j])
GFin(ev, ws) == \A i \in 1..Len(ws) : IsFinite(Fm(ev), Fields(Fm(ev), ws[i]))
GArg(ev, i) == DSeq(Fm(ev), ev.a[i])
VCross2(ev) ==
    LET f == Fm(ev) x == GArg(ev, 1) y == GArg(ev, 2) IN
    IF ~GDom(ev) THEN VSkip ELSE IF ~(GFin(ev, ev.r) /\ GFin(ev, ev.r2)) THEN VBad
    ELSE LET r == ValW(f, ev.r[1]) r2 == ValW(f, ev.r2[1]) IN
         VBool(/\ JCross2Ok(r, x, y, f) /\ DEq(r2, DNeg(r))                                       \* x1 y2 - y1 x2, anti-commutative
               /\ (XaSmallIntV(x) /\ XaSmallIntV(y)) => DEq(r, JCross2(x, y)))
VMixed(ev) ==
    LET f == Fm(ev) a == GArg(ev, 1) b == GArg(ev, 2) c == GArg(ev, 3) IN
    IF ~GDom(ev) THEN VSkip ELSE IF ~(GFin(ev, ev.r) /\ GFin(ev, ev.r2) /\ GFin(ev, ev.r3)) THEN VBad
    ELSE LET r == ValW(f, ev.r[1]) r2 == ValW(f, ev.r2[1]) r3 == ValW(f, ev.r3[1]) m == JMixed(a, b, c) IN
         VBool(/\ JMixedOk(r, a, b, c, f)
               /\ JMixedOk(r2, b, a, c, f) /\ JMixedOk(DNeg(r2), a, b, c, f)                      \* alternating: (b, a, c) = -(a, b, c)
               /\ JMixedOk(r3, b, c, a, f) /\ JMixedOk(r3, a, b, c, f)                            \* cyclic: (b, c, a) = (a, b, c)
               /\ (XaSmallIntV(a) /\ XaSmallIntV(b) /\ XaSmallIntV(c)) => (DEq(r, m) /\ DEq(r2, DNeg(m)) /\ DEq(r3, m)))
GNormRangeOk(s, f) == DIsZero(s) \/ (LET t == DTopExp(s) lim == IF f = F64 THEN 900 ELSE 100 IN t >= -lim /\ t <= lim)
VTriNormal(ev) ==
    LET f == Fm(ev) p1 == GArg(ev, 1) p2 == GArg(ev, 2) p3 == GArg(ev, 3)
        w == JTriDir(p1, p2, p3) e == JTriErr(p1, p2, p3, f) IN
    IF ~GDom(ev) THEN VSkip ELSE IF ~(JResolved(w, e) /\ GNormRangeOk(DvDot(w, w), f)) THEN VSkip
    ELSE IF ~(GFin(ev, ev.r) /\ GFin(ev, ev.r2)) THEN VBad
    ELSE LET r == DSeq(f, ev.r) r2 == DSeq(f, ev.r2) IN
         VBool(/\ JTriOkWE(r, p1, p2, p3, w, e, f)                                                \* unit, along (p2 - p1) x (p3 - p1)
               /\ JTriOkWE(r2, p1, p3, p2, DvNeg(w), e, f))                                       \* swapping two vertices flips the normal

Verdict(ev) ==
    CASE ev.op \in {"compAdd", "compMul", "compMin", "compMax", "fcompMin", "fcompMax"} -> VReduce(ev)
      [] ev.op = "normalize" -> VNormalizeEv(ev)
      [] ev.op = "scale" -> VScaleEv(ev)
      [] ev.op = "normScale" -> VNormScale(ev)
      [] ev.op \in {"normPass", "scalePass"} -> VPass(ev)
      [] ev.op = "hash" -> VHash(ev)
      [] ev.op = "isdenormal" -> VIsDenormal(ev)
      [] ev.op = "fmod" -> IF IsF(ev) THEN VFmodF(ev) ELSE VFmodI(ev)
      [] ev.op \in {"openBounded", "closeBounded"} -> VBounded(ev)
      [] ev.op = "smul" -> VSMul(ev)
      [] ev.op = "range" -> VRange(ev)
      [] ev.op = "typedef" -> VTypedef(ev)
      [] ev.op = "typedefv" -> VTypedefV(ev)
      [] ev.op = "cross2" -> VCross2(ev)
      [] ev.op = "mixed" -> VMixed(ev)
      [] ev.op = "triNormal" -> VTriNormal(ev)
      [] OTHER -> VBad

Init == l = 1 /\ RegInit
Next == /\ l <= NTrace
        /\ LET ev == TraceLog[l] IN IF IsMarker(ev) THEN Bump(3) ELSE Record(l, Verdict(ev), ev.op)
        /\ l' = l + 1
Spec == Init /\ [][Next]_vars
Accepted == Summary
=============================================================================
