----------------------------- MODULE Trace_C14 ----------------------------
(* Trace specification for ULP stepping, float distance and ULP / epsilon comparisons (C14).
   Stateless events are judged per component; "walkStart"/"walkStep" events form multi-step
   behaviours and are judged against the state variable cur (the walk state machine of GlmUlp):
   after a step of k the observed value must sit exactly k positions from cur. *)
EXTENDS GlmUlp, TraceBase
VARIABLES l, cur
vars == <<l, cur>>

Fmt(ev) == TypeFmt(ev.t)
NC(ev) == IF ev.n = 0 THEN 1 ELSE ev.n
ArgF(ev, ai, i) == Fields(Fmt(ev), ev.a[ai][IF Len(ev.a[ai]) = 1 THEN 1 ELSE i])
ArgI(ev, ai, i) == ZToInt(WToZ(32, TRUE, WFromLimbs(ev.a[ai][IF Len(ev.a[ai]) = 1 THEN 1 ELSE i])))
ResF(ev, i) == Fields(Fmt(ev), ev.r[i])
ResB(ev, i) == ev.r[i] = <<1>>
Tri(dom, good) == IF ~dom THEN "skip" ELSE IF good THEN "ok" ELSE "bad"
Combine(S) == IF "bad" \in S THEN VBad ELSE IF "kd-sign" \in S THEN VKnown("KD-C14-scalar-equal-ulps-different-signs") ELSE IF S = {"skip"} THEN VSkip ELSE VOk
PerComp(ev, F(_, _)) == Combine({F(ev, i) : i \in 1..NC(ev)})

StepComp(ev, i) ==
    LET f == Fmt(ev) x == ArgF(ev, 1, i)
        k == CASE ev.op = "nextFloat" -> 1 [] ev.op = "prevFloat" -> -1
               [] ev.op = "nextFloatN" -> ArgI(ev, 2, i) [] ev.op = "prevFloatN" -> -ArgI(ev, 2, i)
    IN Tri(IsFinite(f, x) /\ (ev.op \in {"nextFloat", "prevFloat"} \/ ArgI(ev, 2, i) >= 0) /\ InRangePos(f, StepPos(f, x, k)),
           IsStep(f, x, k, ResF(ev, i)))

DistComp(ev, i) ==
    LET f == Fmt(ev) x == ArgF(ev, 1, i) y == ArgF(ev, 2, i) W == 16 * Len(ev.r[i]) d == Distance(f, x, y)
    IN Tri(IsFinite(f, x) /\ IsFinite(f, y) /\ ZInRange(W, TRUE, d), ZEq(WToZ(W, TRUE, WFromLimbs(ev.r[i])), d))

\* equal / notEqual with a ULP budget; sc = scalar overload (for the recorded deviation)
UlpVal(ev, f, x, y, n, res, neg, sc) ==
    LET want == IF neg THEN ~EqualUlps(f, x, y, n) ELSE EqualUlps(f, x, y, n)
    IN IF ~(IsFinite(f, x) /\ IsFinite(f, y) /\ n >= 0) THEN "skip"
       ELSE IF res = want THEN "ok"
       ELSE IF sc /\ x.s # y.s /\ EqualUlps(f, x, y, n) /\ res = neg THEN "kd-sign"
       ELSE "bad"
UlpComp(ev, i) == UlpVal(ev, Fmt(ev), ArgF(ev, 1, i), ArgF(ev, 2, i), ArgI(ev, 3, i), ResB(ev, i), ev.op = "notEqualUlps", ev.n = 0)

\* matrices: result component c is the conjunction (equal) / disjunction (notEqual) over column c
MatIdx(ev, c, r) == (c - 1) * ev.R + r
UlpMatComp(ev, c) ==
    LET f == Fmt(ev) n == ArgI(ev, 3, c) neg == ev.op = "notEqualUlpsM"
        eqs == {EqualUlps(f, Fields(f, ev.a[1][MatIdx(ev, c, r)]), Fields(f, ev.a[2][MatIdx(ev, c, r)]), n) : r \in 1..ev.R}
        alleq == eqs = {TRUE}
    IN Tri(n >= 0, ResB(ev, c) = (IF neg THEN ~alleq ELSE alleq))

\* epsilon comparisons.  strict = gtc epsilonEqual/epsilonNotEqual and the quaternion overloads (documented and
\* implemented with <, while the property says <=):
\* at exact equality |x - y| = eps both answers are accepted for those two; when the rounded and the exact
\* difference disagree about the comparison, both readings are accepted (ambiguous at a rounding boundary).
EpsVal(f, x, y, e, res, neg, strict) ==
    IF ~(IsFinite(f, x) /\ IsFinite(f, y) /\ IsFinite(f, e)) \/ e.s = 1 THEN "skip"
    ELSE LET le == LeEpsExact(f, x, y, e) lt == LtEpsExact(f, x, y, e)
             ler == LeEpsRounded(f, x, y, e) ltr == LtEpsRounded(f, x, y, e)
             allowed == IF strict THEN {le, lt, ler, ltr} ELSE {le, ler}
         IN IF (IF neg THEN ~res ELSE res) \in allowed THEN "ok" ELSE "bad"
EpsComp(ev, i) == EpsVal(Fmt(ev), ArgF(ev, 1, i), ArgF(ev, 2, i), ArgF(ev, 3, i), ResB(ev, i),
                         ev.op \in {"notEqualEps", "epsilonNotEqual"}, ev.op \in {"epsilonEqual", "epsilonNotEqual"} \/ Has(ev, "q"))
EpsMatComp(ev, c) ==
    LET f == Fmt(ev) e == ArgF(ev, 3, c) neg == ev.op = "notEqualEpsM"
        vs == {EpsVal(f, Fields(f, ev.a[1][MatIdx(ev, c, r)]), Fields(f, ev.a[2][MatIdx(ev, c, r)]), e, TRUE, FALSE, FALSE) : r \in 1..ev.R}
        vn == {EpsVal(f, Fields(f, ev.a[1][MatIdx(ev, c, r)]), Fields(f, ev.a[2][MatIdx(ev, c, r)]), e, FALSE, FALSE, FALSE) : r \in 1..ev.R}
        \* an element "can be equal" if TRUE is an acceptable answer for it, "can differ" if FALSE is
        canAllEq == vs = {"ok"} \/ "skip" \in vs
        canSomeNe == "ok" \in vn \/ "skip" \in vn
        res == ResB(ev, c)
    IN IF neg THEN Tri(TRUE, IF res THEN canSomeNe ELSE canAllEq) ELSE Tri(TRUE, IF res THEN canAllEq ELSE canSomeNe)

Verdict(ev) ==
    CASE ev.op \in {"nextFloat", "prevFloat", "nextFloatN", "prevFloatN"} -> PerComp(ev, StepComp)
      [] ev.op = "floatDistance" -> PerComp(ev, DistComp)
      [] ev.op \in {"equalUlps", "notEqualUlps"} -> PerComp(ev, UlpComp)
      [] ev.op \in {"equalUlpsM", "notEqualUlpsM"} -> PerComp(ev, UlpMatComp)
      [] ev.op \in {"equalEps", "notEqualEps", "epsilonEqual", "epsilonNotEqual"} -> PerComp(ev, EpsComp)
      [] ev.op \in {"equalEpsM", "notEqualEpsM"} -> PerComp(ev, EpsMatComp)
      [] OTHER -> VBad

Init == l = 1 /\ cur = << >> /\ RegInit
Next == /\ l <= NTrace
        /\ LET ev == TraceLog[l] IN
           IF IsMarker(ev) THEN Bump(3) /\ UNCHANGED cur
           ELSE IF ev.op = "walkStart" THEN Bump(3) /\ cur' = ev.a[1][1]
           ELSE IF ev.op = "walkStep" THEN
                LET f == Fmt(ev) x == Fields(f, cur) IN
                /\ Record(l, IF cur = << >> \/ ~IsFinite(f, x) \/ ~InRangePos(f, StepPos(f, x, ev.k)) THEN VSkip
                             ELSE VBool(IsStep(f, x, ev.k, Fields(f, ev.r[1]))), "walkStep")
                /\ cur' = ev.r[1]                                 \* adopt what the implementation did
           ELSE Record(l, Verdict(ev), ev.op) /\ UNCHANGED cur
        /\ l' = l + 1
Spec == Init /\ [][Next]_vars
Accepted == Summary
=============================================================================
