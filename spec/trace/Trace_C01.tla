----------------------------- MODULE Trace_C01 ----------------------------
(* Trace specification for C01: "lift" events (vector call vs the scalar overload per component)
   and "fold" events (reductions = folds of the scalar operator in index order). *)
EXTENDS GlmVector, TraceBase
VARIABLE l
vars == <<l>>
Verdict(ev) ==
    CASE ev.op = "lift" -> VBool(Len(ev.r) = ev.n /\ LiftOKCfg(ev.f, ev.t, ev.q, IF Has(ev, "cfg") THEN ev.cfg ELSE "pure", ev.a, ev.r, ev.s))
      [] ev.op = "fold" -> VBool(SameBitsOrBothNaN(ev.t, ev.r[1], ev.s[1]) \/ (ev.f \in {"compMin", "compMax"} /\ BothZero(ev.t, ev.r[1], ev.s[1])))
      [] OTHER -> VBad
Init == l = 1 /\ RegInit
Next == /\ l <= NTrace
        /\ LET ev == TraceLog[l] IN IF IsMarker(ev) THEN Bump(3) ELSE Record(l, Verdict(ev), ev.f)
        /\ l' = l + 1
Spec == Init /\ [][Next]_vars
Accepted == Summary
=============================================================================
