----------------------------- MODULE Trace_C11 ----------------------------
(* Trace specification for the scalar common functions (C11): float and double unary functions,
   n-ary selection functions, composite formulas (mod, mix, smoothstep, fma) within stated
   tolerances, bit casts, texture wraps, iround/uround, integer abs/sign/min/max/clamp and the
   named constants. *)
EXTENDS GlmCommon, GlmConstants, KnownDeviations, TraceBase
VARIABLE l
vars == <<l>>

F(ev) == TypeFmt(ev.t)
A(ev, i) == Fields(F(ev), ev.a[i][1])
R(ev) == Fields(F(ev), ev.r[1])
AnyNaN(ev) == \E i \in 1..Len(ev.a) : IsNaN(F(ev), A(ev, i))
AllFinite(ev) == \A i \in 1..Len(ev.a) : IsFinite(F(ev), A(ev, i))
I32Of(w) == ZToInt(WToZ(32, TRUE, WFromLimbs(w)))
BoolOf(w) == w = <<1>>

UnaryFloat(ev) ==
    LET f == F(ev) x == A(ev, 1) r == R(ev) IN
    CASE ev.op \in {"floor", "ceil", "trunc", "round", "roundEven"} ->
            IF IsNaN(f, x) THEN VBool(IsNaN(f, r))
            ELSE IF IsInf(f, x) THEN VBool(IsInf(f, r) /\ r.s = x.s)
            ELSE VBool(HasValueZ(f, r, IntegralOp(ev.op, Val(f, x))))
      [] ev.op \in {"fract", "texRepeat"} -> IF ~IsFinite(f, x) THEN VSkip ELSE VBool(IsRounded(f, r, FractV(Val(f, x))))
      [] ev.op = "texMirrorClamp" -> IF ~IsFinite(f, x) THEN VSkip ELSE VBool(IsRounded(f, r, FractV(DAbs(Val(f, x)))))
      [] ev.op = "texMirrorRepeat" -> IF ~IsFinite(f, x) THEN VSkip ELSE VBool(IsRounded(f, r, MirrorRepeatV(Val(f, x))) /\ DLe(Val(f, r), DFromInt(1)) /\ (r.s = 0 \/ IsZero(f, r)))
      [] ev.op = "texClamp" -> IF IsNaN(f, x) THEN VSkip
                               ELSE VBool(IF IsInf(f, x) THEN HasValue(f, r, DFromInt(1 - x.s))
                                          ELSE HasValue(f, r, DMin(DMax(Val(f, x), DZero), DFromInt(1))))
      [] ev.op = "abs" -> IF IsNaN(f, x) THEN VBool(IsNaN(f, r)) ELSE IF IsZero(f, x) THEN VBool(IsZero(f, r)) ELSE VBool(r = [x EXCEPT !.s = 0])
      [] ev.op = "sign" -> IF IsNaN(f, x) THEN VSkip
                           ELSE VBool(HasValue(f, r, DFromInt(IF IsZero(f, x) THEN 0 ELSE IF x.s = 1 THEN -1 ELSE 1)))
      [] ev.op = "isnan" -> VBool(BoolOf(ev.r[1]) = IsNaN(f, x))
      [] ev.op = "isinf" -> VBool(BoolOf(ev.r[1]) = IsInf(f, x))
      [] ev.op = "frexp" -> IF ~IsFinite(f, x) THEN VSkip ELSE VBool(FrexpOK(f, x, r, I32Of(ev.e[1])))
      [] ev.op = "modf" -> IF ~IsFinite(f, x) THEN VSkip
                           ELSE LET ip == Fields(f, ev.i[1]) tz == TruncZ(Val(f, x)) IN
                                VBool(HasValueZ(f, ip, tz) /\ HasValue(f, r, DSub(Val(f, x), DFromZ(tz))))
      [] ev.op = "ldexp" -> IF ~IsFinite(f, x) THEN VSkip
                            ELSE LET v == DMul2k(Val(f, x), I32Of(ev.a[2][1])) IN VBool(IF DIsZero(v) THEN IsZero(f, r) ELSE IsRNED(f, r, v) /\ (IsZero(f, r) \/ r.s = x.s))
      [] ev.op \in {"iround", "uround"} ->
            IF ~IsFinite(f, x) \/ x.s = 1 THEN VSkip
            ELSE LET S == NearestZSet(Val(f, x)) got == WToZ(32, ev.op = "iround", WFromLimbs(ev.r[1])) IN
                 IF \E z \in S : ~ZInRange(32, ev.op = "iround", z) THEN VSkip ELSE VBool(\E z \in S : ZEq(got, z))

BitCast(ev) ==
    LET n == Len(ev.r) IN VBool(\A i \in 1..n : ev.r[i] = ev.a[1][i])

\* selection functions on non-NaN operands: the result is one of the operands and has the extreme value
Select(ev) ==
    LET f == F(ev) S == {A(ev, i) : i \in 1..Len(ev.a)} r == R(ev) IN
    CASE ev.op \in {"min", "max"} -> IF AnyNaN(ev) THEN VSkip ELSE VBool(r \in (IF ev.op = "min" THEN MinSet(f, S) ELSE MaxSet(f, S)))
      [] ev.op \in {"fmin", "fmax"} ->
            LET N == {a \in S : ~IsNaN(f, a)} IN
            IF N = {} THEN VBool(IsNaN(f, r))
            ELSE VBool(~IsNaN(f, r) /\ \E a \in (IF ev.op = "fmin" THEN MinSet(f, N) ELSE MaxSet(f, N)) : ZEq(OrdC(f, a), OrdC(f, r)))
      [] ev.op = "clamp" -> IF AnyNaN(ev) \/ ~OrdLe(f, A(ev, 2), A(ev, 3)) THEN VSkip
                            ELSE LET x == A(ev, 1) lo == A(ev, 2) hi == A(ev, 3)
                                     e == IF OrdLe(f, x, lo) /\ ~ZEq(OrdC(f, x), OrdC(f, lo)) THEN lo ELSE IF OrdLe(f, hi, x) /\ ~ZEq(OrdC(f, x), OrdC(f, hi)) THEN hi ELSE x
                                 IN VBool(ZEq(OrdC(f, r), OrdC(f, e)))
      [] ev.op = "fclamp" -> LET x == A(ev, 1) lo == A(ev, 2) hi == A(ev, 3) IN
                             IF IsNaN(f, lo) \/ IsNaN(f, hi) \/ ~OrdLe(f, lo, hi) THEN VSkip
                             ELSE IF IsNaN(f, x) THEN VBool(~IsNaN(f, r))
                             ELSE LET e == IF OrdLe(f, x, lo) THEN lo ELSE IF OrdLe(f, hi, x) THEN hi ELSE x IN VBool(ZEq(OrdC(f, r), OrdC(f, e)))
      \* GLSL: "0.0 is returned if x < edge, and 1.0 is returned otherwise": an unordered pair is an "otherwise"
      [] ev.op = "step" -> IF AnyNaN(ev) THEN VBool(HasValue(f, r, DFromInt(1)))
                           ELSE VBool(HasValue(f, r, DFromInt(IF ZLt(OrdC(f, A(ev, 2)), OrdC(f, A(ev, 1))) THEN 0 ELSE 1)))
      [] ev.op = "mixb" -> VBool(r = (IF BoolOf(ev.a[3][1]) THEN A(ev, 2) ELSE A(ev, 1)))

\* composite formulas: exact rational value within a tolerance derived from the documented formula
QV(ev, i) == QFromD(Val(F(ev), A(ev, i)))
UlpQ(f, q) == IF QIsZero(q) THEN QFromD(DPow2(FEmin(f) - f.mb))
              ELSE LET k == NBitLen(q.p.m) - NBitLen(q.q) IN QFromD(DPow2((IF k + 1 < FEmin(f) THEN FEmin(f) ELSE k + 1) - f.mb))   \* >= ulp of the binade of |q|
Composite(ev) ==
    LET f == F(ev) r == R(ev) IN
    \* exact rational judging is kept to magnitudes 2^-130 .. 2^130 (all of binary32; the middle of binary64)
    IF ~AllFinite(ev) \/ \E i \in 1..Len(ev.a) : ~IsZero(f, A(ev, i)) /\ (A(ev, i).e > FBias(f) + 130 \/ A(ev, i).e + 130 < FBias(f)) THEN VSkip ELSE
    CASE ev.op = "mix" ->
            LET x == QV(ev, 1) y == QV(ev, 2) a == QV(ev, 3) e == MixQ(x, y, a)
                big == QMaxAbs(<<QMul(x, QSub(QOne, a)), QMul(y, a), x, e>>)
            IN IF ~IsFinite(f, r) THEN (IF QLt(QFromD(Val(f, FMaxFinite(f, 0))), QMulInt(big, 4)) THEN VSkip ELSE VBad)
               ELSE VBool(QNear(QFromD(Val(f, r)), e, QMulInt(UlpQ(f, big), 4)))
      [] ev.op = "fma" ->
            LET x == QV(ev, 1) y == QV(ev, 2) z == QV(ev, 3) e == QAdd(QMul(x, y), z) big == QMaxAbs(<<QMul(x, y), z>>)
            IN IF ~IsFinite(f, r) THEN (IF QLt(QFromD(Val(f, FMaxFinite(f, 0))), QMulInt(big, 4)) THEN VSkip ELSE VBad)
               ELSE VBool(QNear(QFromD(Val(f, r)), e, QMulInt(UlpQ(f, big), 2)))
      [] ev.op = "smoothstep" ->
            LET e0 == QV(ev, 1) e1 == QV(ev, 2) x == QV(ev, 3) IN
            IF ~QLt(e0, e1) \/ ~IsFinite(f, FSub(f, A(ev, 2), A(ev, 1))) \/ ~IsFinite(f, FSub(f, A(ev, 3), A(ev, 1))) THEN VSkip
            ELSE \* inputs whose rounded differences lose everything (|x - e0| or e1 - e0 far below the operands) only get the range check
                 LET exact == SmoothQ(e0, e1, x)
                     span == QSub(e1, e0)
                     cond == QMaxAbs(<<e0, e1, x>>)                  \* cancellation: differences are accurate to ulp(cond)
                     slack == QDiv(QMulInt(UlpQ(f, cond), 3), span)       \* induced error on t, times the slope bound 3/2 (x2 for safety)
                     tol == QAdd(QMulInt(QFromD(Eps(f)), 8), slack)
                 IN VBool(IsFinite(f, r) /\ QNear(QFromD(Val(f, r)), exact, tol) /\ DLe(DZero, Val(f, r)) /\ DLe(Val(f, r), DFromInt(1)))
      [] ev.op = "mod" ->
            IF IsZero(f, A(ev, 2)) \/ IsZero(f, A(ev, 1)) \/ A(ev, 1).e - A(ev, 2).e > 40 THEN VSkip      \* quotients beyond 2^40 have no fractional part left
            ELSE LET m == ModFormula(f, A(ev, 1), A(ev, 2)) IN
                 IF ~IsFinite(f, m) THEN VSkip
                 ELSE IF IsFinite(f, r) /\ DEq(Val(f, r), Val(f, m)) THEN VOk        \* the documented float expression, operation by operation
                 ELSE IF ~IsFinite(f, r) THEN VBad
                 ELSE LET e == ModExactQ(f, A(ev, 1), A(ev, 2)) big == QMaxAbs(<<QV(ev, 1), QV(ev, 2)>>)
                      IN VBool(QNear(QFromD(Val(f, r)), e, QMulInt(UlpQ(f, big), 4)))         \* or the real-valued definition within rounding

IntCommon(ev) ==
    LET W == TypeW(ev.t) x == WToZ(W, TRUE, WFromLimbs(ev.a[1][1])) r == WToZ(W, TRUE, WFromLimbs(ev.r[1])) IN
    CASE ev.op = "abs" -> IF ~ZInRange(W, TRUE, ZAbs(x)) THEN VSkip ELSE VBool(ZEq(r, ZAbs(x)))
      [] ev.op = "sign" -> VBool(ZEq(r, ZFromInt(ZSign(x))))
      [] ev.op = "min" -> LET y == WToZ(W, TRUE, WFromLimbs(ev.a[2][1])) IN VBool(ZEq(r, IF ZLe(x, y) THEN x ELSE y))
      [] ev.op = "max" -> LET y == WToZ(W, TRUE, WFromLimbs(ev.a[2][1])) IN VBool(ZEq(r, IF ZLe(x, y) THEN y ELSE x))
      [] ev.op = "clamp" -> LET lo == WToZ(W, TRUE, WFromLimbs(ev.a[2][1])) hi == WToZ(W, TRUE, WFromLimbs(ev.a[3][1])) IN
                            IF ~ZLe(lo, hi) THEN VSkip ELSE VBool(ZEq(r, IF ZLt(x, lo) THEN lo ELSE IF ZLt(hi, x) THEN hi ELSE x))

\* a named constant must be the correctly rounded value of the quantity: both ends of the 2^-200 enclosure round to it
Constant(ev) ==
    LET f == F(ev) r == R(ev) IN
    IF ev.name = "epsilon" THEN VBool(HasValue(f, r, Eps(f)))
    ELSE IF ev.name = "zero" THEN VBool(IsZero(f, r))
    ELSE IF ev.name \notin DOMAIN ConstLo THEN VBad
    ELSE LET neg == ev.name \in ConstNeg IN
         VBool(IsFinite(f, r) /\ IsRNEQ(f, r, QMk(ZMk(neg, ConstLo[ev.name]), NShl(<<1>>, ConstScale)))
                              /\ IsRNEQ(f, r, QMk(ZMk(neg, NAdd(ConstLo[ev.name], <<1>>)), NShl(<<1>>, ConstScale))))

Verdict(ev) ==
    IF TypeIsInt(ev.t) THEN IntCommon(ev)
    ELSE CASE ev.op \in {"floor", "ceil", "trunc", "round", "roundEven", "fract", "abs", "sign", "isnan", "isinf", "frexp", "modf", "ldexp",
                         "texClamp", "texRepeat", "texMirrorClamp", "texMirrorRepeat", "iround", "uround"} -> UnaryFloat(ev)
           [] ev.op \in {"floatBitsToInt", "floatBitsToUint", "intBitsToFloat", "uintBitsToFloat"} -> BitCast(ev)
           [] ev.op \in {"min", "max", "fmin", "fmax", "clamp", "fclamp", "step", "mixb"} -> Select(ev)
           [] ev.op \in {"mix", "fma", "smoothstep", "mod"} -> Composite(ev)
           [] ev.op = "const" -> Constant(ev)
           [] OTHER -> VBad

Init == l = 1 /\ RegInit
Next == /\ l <= NTrace
        /\ LET ev == TraceLog[l] IN IF IsMarker(ev) THEN Bump(3) ELSE Record(l, Verdict(ev), ev.op)
        /\ l' = l + 1
Spec == Init /\ [][Next]_vars
Accepted == Summary
=============================================================================
