----------------------------- MODULE Trace_C04 ----------------------------
(* Trace specification for C04: quaternion, matrix, axis-angle and Euler forms of a rotation agree.
   Every event is one GLM call (or the composition named by the property) on floating inputs that
   the harness logged as bit patterns; the expected value is computed here, exactly, over Q, from
   those inputs (and from the rational <<cos, sin>> pairs "cs" / "hcs" for angle arguments), and
   the observed result must lie within k * eps * scale of it (k per operation, justified in
   notes/C04-notes.md).  Exact operations (negation, conjugate, constructors, memory order) are
   compared as values with tolerance 0.  Stateless. *)
EXTENDS GlmQuat, TraceBase
VARIABLE l
vars == <<l>>

Fm(ev) == TypeFmt(ev.t)
EpsQ(ev) == QFromD(Eps(Fm(ev)))
Tol(ev, k) == QMulInt(EpsQ(ev), k)
TolS(ev, k, scale) == QMul(QMulInt(EpsQ(ev), k), scale)
Arg(ev, i) == QSeqC(ev.a[i])
Res(ev) == QSeqC(ev.r)
ExtraKeys == {"m", "cj", "d", "ang", "ax", "eu", "ocs", "raw", "idx"}
FinArgs(ev) == \A i \in 1..Len(ev.a) : AllFinF(ev.a[i])
FinOut(ev) == (Has(ev, "r") => AllFinF(ev.r)) /\ \A k \in ExtraKeys \cap DOMAIN ev : AllFinF(ev[k])
UnitQ(ev, q) == QLe(QAbs(QSub(QuatNorm2(q), QOne)), Tol(ev, 4))
ScaleV(v) == QMax(QOne, Sum1(v))
Cs(ev) == CsPairs(ev.cs)
Hcs(ev) == CsPairs(ev.hcs)
PairsOK(ps) == \A i \in 1..Len(ps) : CsOnCircle(ps[i])
Top3(m4) == Mat(3, 3, << m4[1], m4[2], m4[3], m4[5], m4[6], m4[7], m4[9], m4[10], m4[11] >>)      \* upper-left 3x3 of a logged 4x4
Pad4Exact(m4) == \A k \in {4, 8, 12, 13, 14, 15} : QIsZero(m4[k])                                  \* last row / column 0 0 0 1 exactly
Pad4(m4) == Pad4Exact(m4) /\ QEq(m4[16], QOne)
MatArg(s) == IF Len(s) = 9 THEN Mat(3, 3, s) ELSE Top3(s)
VB(b) == VBool(b)
UnitOr(ev, q, v) == IF UnitQ(ev, q) THEN v ELSE VSkip           \* laws stated for unit quaternions only

\* ---------------------------------------------------------------- quaternion -> matrix, matrix -> quaternion
JMat3(ev) == LET q == Arg(ev, 1) IN UnitOr(ev, q, VB(MaxDiffLe(Res(ev), QuatToMat3(q).e, Tol(ev, 16))))
JMat4(ev) == LET q == Arg(ev, 1) r == Res(ev) IN UnitOr(ev, q, VB(Pad4(r) /\ MaxDiffLe(Top3(r).e, QuatToMat3(q).e, Tol(ev, 16))))
JCastRt(ev) == LET q == Arg(ev, 1) IN UnitOr(ev, q, VB(PMDiffLe(Res(ev), q, Tol(ev, 16))))
\* quat_cast on an arbitrary (near-)rotation matrix: the result must describe that matrix; when the matrix was built from the integer
\* tuple g the result must be +-g/n as well
GQuat(ev) == LET g == ev.g IN [i \in 1..4 |-> QOfIntW(g[i], g[5])]
JQuatCast(ev) == LET a == Arg(ev, 1) m == MatArg(a) r == Res(ev) IN
    VB(/\ MaxDiffLe(QuatToMat3(r).e, m.e, Tol(ev, 32))
       /\ QLe(QAbs(QSub(QuatNorm2(r), QOne)), Tol(ev, 16))
       /\ (Has(ev, "g") => PMDiffLe(r, GQuat(ev), Tol(ev, 16))))

\* ---------------------------------------------------------------- rotation of vectors
RotExp(q, v) == IF Len(v) = 4 THEN QuatRotateC(q, V3(v)) \o << v[4] >> ELSE QuatRotateC(q, v)
JQV(ev, inv) == LET q == Arg(ev, 1) v == Arg(ev, 2) qq == IF inv THEN QuatConj(q) ELSE q
                IN UnitOr(ev, q, VB(MaxDiffLe(Res(ev), RotExp(qq, v), TolS(ev, 16, ScaleV(V3(v))))))

\* ---------------------------------------------------------------- products, inverse, conjugate
JQMul(ev) == LET p == Arg(ev, 1) q == Arg(ev, 2) IN
    IF ~(UnitQ(ev, p) /\ UnitQ(ev, q)) THEN VSkip ELSE VB(MaxDiffLe(Res(ev), QuatMul(p, q), Tol(ev, 8)))
JMatProd(ev) == LET p == Arg(ev, 1) q == Arg(ev, 2) e == MMul(QuatToMat3(p), QuatToMat3(q)).e IN
    IF ~(UnitQ(ev, p) /\ UnitQ(ev, q)) THEN VSkip
    ELSE VB(MaxDiffLe(Res(ev), e, Tol(ev, 32)) /\ MaxDiffLe(QSeqC(ev.m), e, Tol(ev, 32)))
JConjInv(ev) == LET q == Arg(ev, 1) cj == QSeqC(ev.cj) IN
    UnitOr(ev, q, VB(AllEq(cj, QuatConj(q)) /\ MaxDiffLe(Res(ev), cj, Tol(ev, 4))))
JQMulInv(ev) == LET q == Arg(ev, 1) IN IF QIsZero(QuatNorm2(q)) THEN VSkip ELSE VB(MaxDiffLe(Res(ev), QId, Tol(ev, 8)))
JInverse(ev) == LET q == Arg(ev, 1) IN IF QIsZero(QuatNorm2(q)) THEN VSkip ELSE VB(NearAllOwn(Res(ev), QuatInv(q), 4, QZero, Fm(ev)))
JExact(ev, e) == VB(AllEq(Res(ev), e))
JRounded(ev, e, k) == VB(NearAllOwn(Res(ev), e, k, QZero, Fm(ev)))
JDot(ev) == LET p == Arg(ev, 1) q == Arg(ev, 2) IN VB(NearRel(Res(ev)[1], VDot(p, q), 4, VDotAbs(p, q), Fm(ev)))
JLength(ev) == LET q == Arg(ev, 1) IN VB(IsSqrtNear(Res(ev)[1], QuatNorm2(q), Tol(ev, 2)))
JNormalize(ev) == LET q == Arg(ev, 1) r == Res(ev) n == QuatNorm2(q) IN
    IF QIsZero(n) THEN VSkip
    ELSE VB(\A i \in 1..4 : QSign(r[i]) = QSign(q[i]) /\ QLe(QAbs(QSub(QMul(Sq(r[i]), n), Sq(q[i]))), QMul(Tol(ev, 8), Sq(q[i]))))

\* ---------------------------------------------------------------- angle / axis / angleAxis
\* "ocs" = (cos, sin) of half the returned angle, decoded by the harness in long double
JAngle(ev) == LET q == Arg(ev, 1) o == QSeqC(ev.ocs) IN
    UnitOr(ev, q, VB(/\ QLe(QAbs(QSub(o[1], q[1])), Tol(ev, 16))
                     /\ QLe(QAbs(QSub(Sq(o[2]), VNorm2(QVec(q)))), Tol(ev, 16))
                     /\ QLe(QNeg(Tol(ev, 16)), o[2])))
\* axis: parallel to (x, y, z), same direction; its length is 1 within the conditioning of 1 / sqrt(1 - w^2):
\* | |r|^2 - 1 | (1 - w^2) <= 8 eps.  When 1 - w^2 <= eps the rotation is below the resolution of the format: any unit vector.
JAxis(ev) == LET q == Arg(ev, 1) u == QVec(q) r == Res(ev) t == QSub(QOne, Sq(q[1])) dev == QAbs(QSub(VNorm2(r), QOne)) IN
    UnitOr(ev, q,
        IF QLe(t, EpsQ(ev)) THEN VB(QLe(dev, Tol(ev, 16)))
        ELSE VB(/\ MaxDiffLe(VCross(r, u), << QZero, QZero, QZero >>, Tol(ev, 8))
                /\ QSign(VDot(r, u)) >= 0
                /\ QLe(QMul(dev, t), Tol(ev, 8))))
\* angleAxis(angle(q), axis(q)) = +-q within 64 eps; near w = +-1 the cancellation in 1 - w^2 (axis) costs up to half of the digits:
\* accepted while the error e satisfies e <= 8 sqrt(eps) and the conditioning bound e^2 (1 - w^2) <= 16 eps^2 (or, when 1 - w^2 <= eps and
\* axis() fell back to (0,0,1), e^2 <= 8 |xyz|^2 + 128 eps^2)
AaModel(ev, r, q) == LET t == QSub(QOne, Sq(q[1])) e2 == Sq(EpsQ(ev)) IN
    \/ (QSign(t) > 0 /\ SqDiffLe(r, q, t, QMulInt(e2, 16)))
    \/ (QLe(t, EpsQ(ev)) /\ SqDiffLe(r, q, QOne, QAdd(QMulInt(VNorm2(QVec(q)), 8), QMulInt(e2, 128))))
AaOk(ev, r, q) == MaxDiffLe(r, q, Tol(ev, 64)) \/ (SqDiffLe(r, q, QOne, Tol(ev, 64)) /\ AaModel(ev, r, q))
JAaRt(ev) == LET q == Arg(ev, 1) r == Res(ev) IN UnitOr(ev, q, VB(AaOk(ev, r, q) \/ AaOk(ev, r, VNeg(q))))
JAngleAxis(ev) == LET ax == Arg(ev, 2) h == Hcs(ev) IN
    IF ~PairsOK(h) THEN VBad ELSE VB(MaxDiffLe(Res(ev), AngleAxisQ(h[1], ax), Tol(ev, 8)))
\* an integer axis of integer length len (len = 0: the axis argument is a unit vector)
AxisUnit(ev, ax) == IF ev.len = 0 THEN ax ELSE VScale(ax, QF(1, ev.len))
AxisOK(ev, ax) == IF ev.len = 0 THEN QLe(QAbs(QSub(VNorm2(ax), QOne)), Tol(ev, 4)) ELSE QEq(VNorm2(ax), QI(ev.len * ev.len))
JQRotate(ev) == LET q == Arg(ev, 1) ax == Arg(ev, 3) h == Hcs(ev) IN
    IF ~PairsOK(h) \/ ~AxisOK(ev, ax) THEN VBad
    ELSE UnitOr(ev, q, VB(MaxDiffLe(Res(ev), QuatMul(q, AngleAxisQ(h[1], AxisUnit(ev, ax))), Tol(ev, 8))))

\* ---------------------------------------------------------------- Euler angles of a quaternion
\* (c, s) = decoded (cos, sin) of a returned angle; it must point along (X, Y) = (cos, sin) * cos(yaw): |c Y - s X| <= 8 eps, c X + s Y >= -8 eps
AlongOK(ev, c, s, X, Y) == QLe(QAbs(QSub(QMul(c, Y), QMul(s, X))), Tol(ev, 8)) /\ QLe(QNeg(Tol(ev, 8)), QAdd(QMul(c, X), QMul(s, Y)))
PitchOK(ev, q, c, s) == AlongOK(ev, c, s, PitchX(q), PitchY(q))
RollOK(ev, q, c, s) == AlongOK(ev, c, s, RollX(q), RollY(q))
YawOK(ev, q, c, s) == LET y == YawSin(q) yc == IF QLt(QOne, y) THEN QOne ELSE IF QLt(y, QI(-1)) THEN QI(-1) ELSE y
                      IN QLe(QAbs(QSub(s, yc)), Tol(ev, 8)) /\ QLe(QNeg(Tol(ev, 8)), c)
JEulerAngles(ev) == LET q == Arg(ev, 1) o == QSeqC(ev.ocs) IN
    UnitOr(ev, q, VB(PitchOK(ev, q, o[1], o[2]) /\ YawOK(ev, q, o[3], o[4]) /\ RollOK(ev, q, o[5], o[6])))
JPitch(ev) == LET q == Arg(ev, 1) o == QSeqC(ev.ocs) IN UnitOr(ev, q, VB(PitchOK(ev, q, o[1], o[2])))
JYaw(ev) == LET q == Arg(ev, 1) o == QSeqC(ev.ocs) IN UnitOr(ev, q, VB(YawOK(ev, q, o[1], o[2])))
JRoll(ev) == LET q == Arg(ev, 1) o == QSeqC(ev.ocs) IN UnitOr(ev, q, VB(RollOK(ev, q, o[1], o[2])))
\* quat(eulerAngles(q)) describes the rotation of q: matrices agree within 64 eps; near gimbal lock (cos(yaw) -> 0) the three angles are
\* conditioned like eps / cos(yaw): accepted up to 8 sqrt(eps) under the bound e cos(yaw) <= 16 eps; beyond 8 sqrt(eps) but inside that
\* bound is the known loss of GLM's eulerAngles just outside its atan2(0,0) guard
JEulerRt(ev) == LET q == Arg(ev, 1) r == Res(ev) mq == QuatToMat3(q).e mr == QuatToMat3(r).e cy2 == CosYaw2(q)
                    model == SqDiffLe(mr, mq, cy2, QMulInt(Sq(EpsQ(ev)), 256)) IN
    UnitOr(ev, q,
        IF MaxDiffLe(mr, mq, Tol(ev, 64)) THEN VOk
        ELSE IF model /\ SqDiffLe(mr, mq, QOne, Tol(ev, 64)) THEN VOk
        ELSE IF model THEN VKnown("KD-C04-euler-roundtrip-near-gimbal")
        ELSE VBad)
JCtorEuler(ev) == LET h == Hcs(ev) IN IF ~PairsOK(h) THEN VBad ELSE VB(MaxDiffLe(Res(ev), EulerQuat(h[1], h[2], h[3]), Tol(ev, 8)))

\* ---------------------------------------------------------------- gtx/rotate_vector
JRvRotate(ev) == LET v == Arg(ev, 1) ax == Arg(ev, 3) p == Cs(ev) IN
    IF ~PairsOK(p) \/ ~AxisOK(ev, ax) THEN VBad
    ELSE LET e3 == MVec(RotAxis3(p[1][1], p[1][2], AxisUnit(ev, ax)), V3(v)) e == IF Len(v) = 4 THEN e3 \o << v[4] >> ELSE e3
         IN VB(MaxDiffLe(Res(ev), e, TolS(ev, 16, ScaleV(V3(v)))))
JRotateXYZ(ev, ax) == LET v == Arg(ev, 1) p == Cs(ev) IN
    IF ~PairsOK(p) THEN VBad
    ELSE LET e3 == MVec(AxisRot(ax, p[1]), V3(v)) e == IF Len(v) = 4 THEN e3 \o << v[4] >> ELSE e3
         IN VB(MaxDiffLe(Res(ev), e, TolS(ev, 8, ScaleV(V3(v)))))
JRotate2(ev) == LET v == Arg(ev, 1) p == Cs(ev) IN
    IF ~PairsOK(p) THEN VBad ELSE VB(MaxDiffLe(Res(ev), MVec(Rot2(p[1]), v), TolS(ev, 8, ScaleV(v))))
\* orientation(Normal, Up): the rotation about Up x Normal that takes Up to Normal (identity when they coincide)
JOrientation(ev) == LET n == Arg(ev, 1) u == Arg(ev, 2) r == Res(ev) m == Top3(r) ax == VCross(u, n) tol == Tol(ev, 32) IN
    IF ~(QLe(QAbs(QSub(VNorm2(n), QOne)), Tol(ev, 4)) /\ QLe(QAbs(QSub(VNorm2(u), QOne)), Tol(ev, 4))) THEN VSkip
    ELSE VB(/\ Pad4(r) /\ MaxDiffLe(MVec(m, u), n, tol) /\ MaxDiffLe(MVec(m, ax), ax, tol)
            /\ MaxDiffLe(MVec(m, VCross(u, ax)), VCross(n, ax), tol)
            /\ (VIsZero(ax) => MaxDiffLe(m.e, MIdentity(3).e, tol)))

\* ---------------------------------------------------------------- rotation between two vectors
\* Both functions must return the unit quaternion (w >= 0) that rotates u/|u| onto v/|v| about an axis orthogonal to both; when v = -u
\* any axis orthogonal to u.  e = the largest of the residuals below.  Accepted: e <= 64 eps; or e <= 8 sqrt(eps) inside the model of the
\* function's degenerate-case handling.  Inside the model but beyond 8 sqrt(eps): known deviation (see notes).
UvData(ev) == LET u == Arg(ev, 1) v == Arg(ev, 2) IN
    [uh |-> IF ev.lu = 0 THEN u ELSE VScale(u, QF(1, ev.lu)), vh |-> IF ev.lv = 0 THEN v ELSE VScale(v, QF(1, ev.lv))]
UvDomain(ev, d) == IF ev.lu = 0 THEN QLe(QAbs(QSub(VNorm2(d.uh), QOne)), Tol(ev, 4)) /\ QLe(QAbs(QSub(VNorm2(d.vh), QOne)), Tol(ev, 4))
                   ELSE QEq(VNorm2(d.uh), QOne) /\ QEq(VNorm2(d.vh), QOne)
UvResid(d, r, anti) == << QSub(VNorm2(r), QOne) >> \o VSub(QuatRotateC(r, d.uh), d.vh)
                       \o (IF anti THEN << VDot(QVec(r), d.uh) >> ELSE << VDot(QVec(r), d.uh), VDot(QVec(r), d.vh) >>)
Zeros(n) == [i \in 1..n |-> QZero]
JTwoVec(ev, fn) == LET d == UvData(ev) r == Res(ev) c == VDot(d.uh, d.vh) c1 == QAdd(QOne, c)
                       anti == AllEq(d.vh, VNeg(d.uh)) res == UvResid(d, r, anti) z == Zeros(Len(res)) e2 == Sq(EpsQ(ev))
                       fallback == QLe(QAbs(r[1]), Tol(ev, 8)) /\ QLe(QAbs(VDot(QVec(r), d.uh)), Tol(ev, 8)) /\ QLe(QAbs(QSub(VNorm2(r), QOne)), Tol(ev, 16))
                       model == IF fn = "rotation"
                                THEN \/ (QLe(QSub(QOne, c), Tol(ev, 2)) /\ AllEq(r, QId))                         \* cos >= 1 - eps: identity
                                     \/ (QSign(c1) > 0 /\ SqDiffLe(res, z, Sq(c1), QMulInt(e2, 256)))               \* s = sqrt(2 (1 + cos)): e (1 + cos) <= 16 eps
                                     \/ (QLe(c1, Tol(ev, 2)) /\ fallback)                                          \* cos < -1 + eps: a fixed orthogonal axis
                                ELSE QSign(c1) >= 0 /\ QLt(c1, QF(101, 100000000)) /\ QIsZero(r[1]) /\ fallback   \* 1 + cos < 1e-6: treated as opposite
                       kd == IF fn = "rotation" THEN "KD-C04-rotation-near-antiparallel" ELSE "KD-C04-quat-from-vectors-antiparallel-threshold"
    IN IF ~UvDomain(ev, d) THEN VSkip
       ELSE IF QSign(r[1]) < 0 /\ ~QLe(QAbs(r[1]), Tol(ev, 8)) THEN VBad
       ELSE IF MaxDiffLe(res, z, Tol(ev, 64)) THEN VOk
       ELSE IF model /\ SqDiffLe(res, z, QOne, Tol(ev, 64)) THEN VOk
       ELSE IF model THEN VKnown(kd)
       ELSE VBad

\* ---------------------------------------------------------------- gtx/euler_angles
EulerExp(ev) ==
    LET p == Cs(ev) IN
    CASE ev.op = "euler" -> EulerMat(ev.nm, p)
      [] ev.op = "yawPitchRoll" -> YawPitchRollMat(p)
      [] ev.op \in {"orientate3", "orientate4"} -> OrientateMat(p)
      [] ev.op = "orientate3s" -> RotZ(p[1][1], p[1][2])
      [] ev.op = "orientate2" -> Rot2(p[1])
      [] ev.op = "deuler" -> DAxisRot(ev.nm, p[1], Arg(ev, 2)[1])
JEuler(ev) == LET r == Res(ev) IN
    IF ~PairsOK(Cs(ev)) THEN VBad
    ELSE LET e == EulerExp(ev) tol == IF ev.op = "deuler" THEN TolS(ev, 16, QMax(QOne, QAbs(Arg(ev, 2)[1]))) ELSE Tol(ev, 16) IN
         IF Len(r) = 16 THEN VB((IF ev.op = "deuler" THEN Pad4Exact(r) /\ QIsZero(r[16]) ELSE Pad4(r)) /\ MaxDiffLe(Top3(r).e, e.e, tol))
         ELSE VB(MaxDiffLe(r, e.e, tol))
\* extractEulerAngleABC(M): the returned angles (decoded as (cos, sin) pairs "ocs") must rebuild M as the product of the single-axis
\* factors, and GLM's own eulerAngleABC of them (the logged rebuild) must reproduce M as well
JExtract(ev) == LET m == Arg(ev, 1) o == QSeqC(ev.ocs) ps == << <<o[1], o[2]>>, <<o[3], o[4]>>, <<o[5], o[6]>> >> r == Res(ev) IN
    IF ~(Pad4(m) /\ MaxDiffLe(MMul(Top3(m), MTranspose(Top3(m))).e, MIdentity(3).e, Tol(ev, 16))) THEN VSkip      \* M must be a rotation
    ELSE VB(/\ MaxDiffLe(EulerMat(ev.nm, ps).e, Top3(m).e, Tol(ev, 32))
            /\ MaxDiffLe(r, m, Tol(ev, 32)))

\* ---------------------------------------------------------------- storage order, constructors
JMem(ev) == LET q == ev.a[1] want == IF ev.o = "wxyz" THEN q ELSE << q[2], q[3], q[4], q[1] >> IN VB(ev.raw = want /\ ev.idx = want)
JMakeQuat(ev) == LET raw == ev.a[1] want == IF ev.o = "wxyz" THEN raw ELSE << raw[4], raw[1], raw[2], raw[3] >> IN VB(ev.r = want)
JCtor4(ev) == VB(ev.r = << ev.a[1][1], ev.a[2][1], ev.a[3][1], ev.a[4][1] >>)
JCtorSV(ev) == VB(ev.r = << ev.a[1][1], ev.a[2][1], ev.a[2][2], ev.a[2][3] >>)
JCopy(ev) == VB(ev.r = ev.a[1])
JConv(ev) == LET q == QSeq(ev.a[1]) IN VB(\A i \in 1..4 : IsRNEQ(Fm(ev), Fields(Fm(ev), ev.r[i]), q[i]))

\* ---------------------------------------------------------------- dual quaternions
DqScale(v) == QMax(QOne, Sum1(v))
JDqCtor(ev) == LET q == Arg(ev, 1) p == Arg(ev, 2) e == DQMake(q, p) IN
    VB(AllEq(Res(ev), q) /\ MaxDiffLe(QSeqC(ev.d), e[2], TolS(ev, 8, DqScale(p))))
JDqMat3x4(ev) == LET re == Arg(ev, 1) du == Arg(ev, 2) IN
    UnitOr(ev, re, VB(MaxDiffLe(Res(ev), DQMat3x4(re, du).e, TolS(ev, 16, DqScale(du)))))
JDqMat2x4(ev) == LET re == ev.a[1] du == ev.a[2] IN VB(ev.r = << re[2], re[3], re[4], re[1], du[2], du[3], du[4], du[1] >>)
JDqCast2x4(ev) == LET m == ev.a[1] IN VB(ev.r = << m[4], m[1], m[2], m[3] >> /\ ev.d = << m[8], m[5], m[6], m[7] >>)
\* dualquat_cast(mat3x4): the real part describes the 3x3 block (rows of the matrix), the dual part is (0, t) * real / 2
JDqCast3x4(ev) == LET m == Arg(ev, 1) re == Res(ev) du == QSeqC(ev.d) t == << m[4], m[8], m[12] >>
                      rot == << m[1], m[5], m[9], m[2], m[6], m[10], m[3], m[7], m[11] >> IN
    VB(/\ MaxDiffLe(QuatToMat3(re).e, rot, Tol(ev, 32))
       /\ MaxDiffLe(du, DQMake(re, t)[2], TolS(ev, 8, DqScale(t))))
JDqRt(ev) == LET re == Arg(ev, 1) du == Arg(ev, 2) r == Res(ev) d == QSeqC(ev.d) tol == TolS(ev, 16, DqScale(du)) IN
    UnitOr(ev, re, VB((MaxDiffLe(r, re, tol) /\ MaxDiffLe(d, du, tol)) \/ (MaxDiffLe(r, VNeg(re), tol) /\ MaxDiffLe(d, VNeg(du), tol))))
JDqV(ev, inv) == LET re == Arg(ev, 1) du == Arg(ev, 2) v == Arg(ev, 3) t == DQTrans(re, du)
                     e3 == IF inv THEN QuatRotateC(QuatConj(re), VSub(V3(v), t)) ELSE VAdd(QuatRotateC(re, V3(v)), t)
                     e == IF Len(v) = 4 THEN e3 \o << v[4] >> ELSE e3 IN
    UnitOr(ev, re, VB(MaxDiffLe(Res(ev), e, TolS(ev, 16, QAdd(ScaleV(V3(v)), Sum1(t))))))
JDqInverse(ev) == LET re == Arg(ev, 1) du == Arg(ev, 2) IN
    UnitOr(ev, re, VB(AllEq(Res(ev), QuatConj(re)) /\ MaxDiffLe(QSeqC(ev.d), QuatConj(du), TolS(ev, 8, DqScale(du)))))

\* ---------------------------------------------------------------- dispatch
Judge(ev) ==
    LET op == ev.op IN
    CASE op \in {"mat3_cast", "toMat3", "conv_mat3"} -> JMat3(ev)
      [] op \in {"mat4_cast", "toMat4", "conv_mat4"} -> JMat4(ev)
      [] op = "cast_rt" -> JCastRt(ev)
      [] op \in {"quat_cast3", "quat_cast4", "toQuat3", "toQuat4", "ctor_mat3", "ctor_mat4"} -> JQuatCast(ev)
      [] op \in {"qv3", "qv4", "grot3", "grot4", "gcross_qv"} -> JQV(ev, FALSE)
      [] op \in {"vq3", "vq4", "gcross_vq"} -> JQV(ev, TRUE)
      [] op \in {"qmul", "qmul_asg", "qcross"} -> JQMul(ev)
      [] op = "matprod" -> JMatProd(ev)
      [] op = "conj_inv" -> JConjInv(ev)
      [] op = "q_mul_inv" -> JQMulInv(ev)
      [] op = "inverse" -> JInverse(ev)
      [] op = "neg" -> JExact(ev, VNeg(Arg(ev, 1)))
      [] op = "conj" -> JExact(ev, QuatConj(Arg(ev, 1)))
      [] op \in {"pos", "ctor_copy", "assign"} -> JCopy(ev)
      [] op = "qadd" -> JRounded(ev, VAdd(Arg(ev, 1), Arg(ev, 2)), 1)
      [] op = "qsub" -> JRounded(ev, VSub(Arg(ev, 1), Arg(ev, 2)), 1)
      [] op \in {"smul", "smul_l", "smul_asg"} -> JRounded(ev, VScale(Arg(ev, 1), Arg(ev, 2)[1]), 1)
      [] op \in {"sdiv", "sdiv_asg"} -> IF QIsZero(Arg(ev, 2)[1]) THEN VSkip ELSE JRounded(ev, VScale(Arg(ev, 1), QInv(Arg(ev, 2)[1])), 1)
      [] op = "dot" -> JDot(ev)
      [] op = "length" -> JLength(ev)
      [] op = "length2" -> LET q == Arg(ev, 1) IN VB(NearRel(Res(ev)[1], QuatNorm2(q), 4, QuatNorm2(q), Fm(ev)))
      [] op = "normalize" -> JNormalize(ev)
      [] op = "angle" -> JAngle(ev)
      [] op = "axis" -> JAxis(ev)
      [] op = "aa_rt" -> JAaRt(ev)
      [] op = "angleAxis" -> JAngleAxis(ev)
      [] op = "qrotate" -> JQRotate(ev)
      [] op = "eulerAngles" -> JEulerAngles(ev)
      [] op = "pitch" -> JPitch(ev)
      [] op = "yaw" -> JYaw(ev)
      [] op = "roll" -> JRoll(ev)
      [] op = "euler_rt" -> JEulerRt(ev)
      [] op = "ctor_euler" -> JCtorEuler(ev)
      [] op \in {"rv_rotate3", "rv_rotate4"} -> JRvRotate(ev)
      [] op \in {"rotateX3", "rotateX4"} -> JRotateXYZ(ev, "X")
      [] op \in {"rotateY3", "rotateY4"} -> JRotateXYZ(ev, "Y")
      [] op \in {"rotateZ3", "rotateZ4"} -> JRotateXYZ(ev, "Z")
      [] op = "rv_rotate2" -> JRotate2(ev)
      [] op = "orientation" -> JOrientation(ev)
      [] op \in {"ctor_uv", "rotation"} -> JTwoVec(ev, op)
      [] op \in {"euler", "yawPitchRoll", "orientate3", "orientate4", "orientate3s", "orientate2", "deuler"} -> JEuler(ev)
      [] op = "extract" -> JExtract(ev)
      [] op = "mem" -> JMem(ev)
      [] op = "make_quat" -> JMakeQuat(ev)
      [] op \in {"ctor4", "ctor_wxyz"} -> JCtor4(ev)
      [] op = "ctor_sv" -> JCtorSV(ev)
      [] op = "ctor_conv" -> JConv(ev)
      [] op = "dq_ctor" -> JDqCtor(ev)
      [] op = "dq_mat3x4" -> JDqMat3x4(ev)
      [] op = "dq_mat2x4" -> JDqMat2x4(ev)
      [] op = "dq_cast2x4" -> JDqCast2x4(ev)
      [] op = "dq_cast3x4" -> JDqCast3x4(ev)
      [] op = "dq_rt" -> JDqRt(ev)
      [] op \in {"dq_v3", "dq_v4"} -> JDqV(ev, FALSE)
      [] op = "v_dq3" -> JDqV(ev, TRUE)
      [] op = "dq_inverse" -> JDqInverse(ev)
      [] OTHER -> VBad

\* non-finite arguments are outside the domain; a non-finite result for finite arguments is wrong
Verdict(ev) == IF ~FinArgs(ev) THEN VSkip ELSE IF ~FinOut(ev) THEN VBad ELSE Judge(ev)

Init == l = 1 /\ RegInit
Next == /\ l <= NTrace
        /\ LET ev == TraceLog[l] IN IF IsMarker(ev) THEN Bump(3) ELSE Record(l, Verdict(ev), ev.op)
        /\ l' = l + 1
Spec == Init /\ [][Next]_vars
Accepted == Summary
=============================================================================
