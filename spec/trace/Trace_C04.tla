----------------------------- MODULE Trace_C04 ----------------------------
(* Trace specification for C04: quaternion, matrix, axis-angle and Euler forms of a rotation agree.
   Every event is one GLM call (or the composition named by the property) on floating inputs that
   the harness logged as bit patterns.  The expected value is computed here, exactly, from those
   inputs (and from the integers "cs" / "hcs" = (cn, sn, d) with cos = cn/d, sin = sn/d for angle
   arguments), with the dyadic evaluators of GlmQuat (twins of the LinQ definitions, proved equal
   to them on the state space of MC_C04); the observed result must lie within k * eps * scale of
   it (k per operation, justified in notes/C04-notes.md).  Exact operations (negation, conjugate,
   constructors, memory order) are compared with tolerance 0 / as bit patterns.  Stateless. *)
EXTENDS GlmQuat, TraceBase
VARIABLE l
vars == <<l>>

Fm(ev) == TypeFmt(ev.t)
EpsD(ev) == Eps(Fm(ev))
Tol(ev, k) == DMulInt(EpsD(ev), k)
TolS(ev, k, scale) == DMul(DMulInt(EpsD(ev), k), scale)
Arg(ev, i) == DSeqW(ev.a[i])
Res(ev) == DSeqW(ev.r)
ExtraKeys == {"m", "cj", "d", "ang", "ax", "eu", "ocs", "raw", "idx"}
FinArgs(ev) == \A i \in 1..Len(ev.a) : AllFinF(ev.a[i])
FinOut(ev) == (Has(ev, "r") => AllFinF(ev.r)) /\ \A k \in ExtraKeys \cap DOMAIN ev : AllFinF(ev[k])
NearOne(ev, x, k) == DLe(DAbs(DSub(x, DOne)), Tol(ev, k))
UnitQ(ev, q) == NearOne(ev, DqNorm2(q), 4)
ScaleV(v) == DMax(DOne, DvSum1(v))
Cs(ev) == DTriples(DIntSeq(ev.cs))
Hcs(ev) == DTriples(DIntSeq(ev.hcs))
TriplesOK(ts) == \A i \in 1..Len(ts) : DTripleOK(ts[i])
Top3(m4) == << m4[1], m4[2], m4[3], m4[5], m4[6], m4[7], m4[9], m4[10], m4[11] >>      \* upper-left 3x3 of a logged 4x4
Pad4Zero(m4) == \A k \in {4, 8, 12, 13, 14, 15} : DIsZero(m4[k])                         \* last row / column 0 0 0 . exactly
Pad4(m4) == Pad4Zero(m4) /\ DEq(m4[16], DOne)
MatArg(s) == IF Len(s) = 9 THEN s ELSE Top3(s)
VB(b) == VBool(b)
UnitOr(ev, q, v) == IF UnitQ(ev, q) THEN v ELSE VSkip           \* laws stated for unit quaternions only
Zeros(n) == [i \in 1..n |-> DZero]

\* ---------------------------------------------------------------- quaternion -> matrix, matrix -> quaternion
JMat3(ev) == LET q == Arg(ev, 1) IN UnitOr(ev, q, VB(DMaxDiffLe(Res(ev), DqToMat3(q), Tol(ev, 16))))
JMat4(ev) == LET q == Arg(ev, 1) r == Res(ev) IN UnitOr(ev, q, VB(Pad4(r) /\ DMaxDiffLe(Top3(r), DqToMat3(q), Tol(ev, 16))))
JCastRt(ev) == LET q == Arg(ev, 1) IN UnitOr(ev, q, VB(DPMDiffLe(Res(ev), q, Tol(ev, 16))))
\* quat_cast on an arbitrary (near-)rotation matrix: the result must describe that matrix and be a unit quaternion; when the matrix was
\* built from the integer tuple g = (w, x, y, z, n) the result must be +-(w, x, y, z)/n as well
JQuatCast(ev) == LET m == MatArg(Arg(ev, 1)) r == Res(ev) IN
    VB(/\ DMaxDiffLe(DqToMat3(r), m, Tol(ev, 32))
       /\ NearOne(ev, DqNorm2(r), 16)
       /\ (Has(ev, "g") => LET g == DIntSeq(ev.g) gq == << g[1], g[2], g[3], g[4] >> IN
              DMaxDiffLeS(r, gq, Tol(ev, 16), g[5]) \/ DMaxDiffLeS(r, DvNeg(gq), Tol(ev, 16), g[5])))

\* ---------------------------------------------------------------- rotation of vectors
RotExp(q, v) == IF Len(v) = 4 THEN DqRotate(q, DV3(v)) \o << v[4] >> ELSE DqRotate(q, v)
JQV(ev, inv) == LET q == Arg(ev, 1) v == Arg(ev, 2) qq == IF inv THEN DqConj(q) ELSE q
                IN UnitOr(ev, q, VB(DMaxDiffLe(Res(ev), RotExp(qq, v), TolS(ev, 16, ScaleV(DV3(v))))))

\* ---------------------------------------------------------------- products, inverse, conjugate
JQMul(ev) == LET p == Arg(ev, 1) q == Arg(ev, 2) IN
    IF ~(UnitQ(ev, p) /\ UnitQ(ev, q)) THEN VSkip ELSE VB(DMaxDiffLe(Res(ev), DqMul(p, q), Tol(ev, 8)))
\* matrix of p q  =  matrix(p) matrix(q): both logged matrices against the exact one (the identity Mat(p q) = Mat(p) Mat(q) is an
\* invariant of MC_C04, so the cheaper left side is evaluated)
JMatProd(ev) == LET p == Arg(ev, 1) q == Arg(ev, 2) e == DqToMat3(DqMul(p, q)) IN
    IF ~(UnitQ(ev, p) /\ UnitQ(ev, q)) THEN VSkip
    ELSE VB(DMaxDiffLe(Res(ev), e, Tol(ev, 32)) /\ DMaxDiffLe(DSeqW(ev.m), e, Tol(ev, 32)))
JConjInv(ev) == LET q == Arg(ev, 1) cj == DSeqW(ev.cj) IN
    UnitOr(ev, q, VB(DvEq(cj, DqConj(q)) /\ DMaxDiffLe(Res(ev), cj, Tol(ev, 4))))
JQMulInv(ev) == LET q == Arg(ev, 1) IN IF DIsZero(DqNorm2(q)) THEN VSkip ELSE VB(DMaxDiffLe(Res(ev), DQId, Tol(ev, 8)))
\* inverse(q) = conj(q) / |q|^2 :  | r_i |q|^2 - conj_i | <= 4 eps |conj_i|
JInverse(ev) == LET q == Arg(ev, 1) n == DqNorm2(q) cj == DqConj(q) r == Res(ev) IN
    IF DIsZero(n) THEN VSkip ELSE VB(\A i \in 1..4 : DLe(DAbs(DSub(DMul(r[i], n), cj[i])), DMul(Tol(ev, 4), DAbs(cj[i]))))
JExact(ev, e) == VB(DvEq(Res(ev), e))
JRounded(ev, e, k) == VB(DNearOwn(Res(ev), e, k, Fm(ev)))
JSDiv(ev) == LET q == Arg(ev, 1) s == Arg(ev, 2)[1] r == Res(ev) IN
    IF DIsZero(s) THEN VSkip ELSE VB(\A i \in 1..4 : DLe(DAbs(DSub(DMul(r[i], s), q[i])), DMul(Tol(ev, 1), DAbs(q[i]))))
JDot(ev) == LET p == Arg(ev, 1) q == Arg(ev, 2) sc == DSum([i \in 1..4 |-> DAbs(DMul(p[i], q[i]))])
            IN VB(DLe(DAbs(DSub(Res(ev)[1], DvDot(p, q))), TolS(ev, 4, sc)))
JLength(ev) == LET q == Arg(ev, 1) IN VB(DIsSqrtNear(Res(ev)[1], DqNorm2(q), Tol(ev, 2)))
JLength2(ev) == LET n == DqNorm2(Arg(ev, 1)) IN VB(DLe(DAbs(DSub(Res(ev)[1], n)), TolS(ev, 4, n)))
JNormalize(ev) == LET q == Arg(ev, 1) r == Res(ev) n == DqNorm2(q) IN
    IF DIsZero(n) THEN VSkip
    ELSE VB(\A i \in 1..4 : DSign(r[i]) = DSign(q[i]) /\ DLe(DAbs(DSub(DMul(DSq(r[i]), n), DSq(q[i]))), DMul(Tol(ev, 8), DSq(q[i]))))

\* ---------------------------------------------------------------- angle / axis / angleAxis
\* "ocs" = (cos, sin) of half the returned angle, decoded by the harness in long double
JAngle(ev) == LET q == Arg(ev, 1) o == DSeqW(ev.ocs) IN
    UnitOr(ev, q, VB(/\ DLe(DAbs(DSub(o[1], q[1])), Tol(ev, 16))
                     /\ DLe(DAbs(DSub(DSq(o[2]), DvNorm2(DQVec(q)))), Tol(ev, 16))
                     /\ DLe(DNeg(Tol(ev, 16)), o[2])))
\* axis: parallel to (x, y, z), same direction; its length is 1 within the conditioning of 1 / sqrt(1 - w^2):
\* | |r|^2 - 1 | (1 - w^2) <= 8 eps.  When 1 - w^2 <= eps the rotation is below the resolution of the format: any unit vector.
JAxis(ev) == LET q == Arg(ev, 1) u == DQVec(q) r == Res(ev) t == DSub(DOne, DSq(q[1])) dev == DAbs(DSub(DvNorm2(r), DOne)) IN
    UnitOr(ev, q,
        IF DLe(t, EpsD(ev)) THEN VB(DLe(dev, Tol(ev, 16)))
        ELSE VB(/\ DMaxDiffLe(DvCross(r, u), Zeros(3), Tol(ev, 8))
                /\ DSign(DvDot(r, u)) >= 0
                /\ DLe(DMul(dev, t), Tol(ev, 8))))
\* angleAxis(angle(q), axis(q)) = +-q within 64 eps; near w = +-1 the cancellation in 1 - w^2 (axis) costs up to half of the digits:
\* accepted while the error e satisfies e <= 8 sqrt(eps) and the conditioning bound e^2 (1 - w^2) <= 16 eps^2 (or, when 1 - w^2 <= eps and
\* axis() fell back to (0,0,1), e^2 <= 8 |xyz|^2 + 128 eps^2)
AaModel(ev, r, q) == LET t == DSub(DOne, DSq(q[1])) e2 == DSq(EpsD(ev)) IN
    \/ (DSign(t) > 0 /\ DSqDiffLe(r, q, t, DMulInt(e2, 16)))
    \/ (DLe(t, EpsD(ev)) /\ DSqDiffLe(r, q, DOne, DAdd(DMulInt(DvNorm2(DQVec(q)), 8), DMulInt(e2, 128))))
AaOk(ev, r, q) == DMaxDiffLe(r, q, Tol(ev, 64)) \/ (DSqDiffLe(r, q, DOne, Tol(ev, 64)) /\ AaModel(ev, r, q))
JAaRt(ev) == LET q == Arg(ev, 1) r == Res(ev) IN UnitOr(ev, q, VB(AaOk(ev, r, q) \/ AaOk(ev, r, DvNeg(q))))
\* an integer axis of integer length len (len = 0: the axis argument is a unit vector, L = 1)
AxLen(ev) == IF ev.len = 0 THEN DOne ELSE DI(ev.len)
AxisOK(ev, ax) == IF ev.len = 0 THEN NearOne(ev, DvNorm2(ax), 4) ELSE DEq(DvNorm2(ax), DI(ev.len * ev.len))
JAngleAxis(ev) == LET ax == Arg(ev, 2) h == Hcs(ev) IN
    IF ~TriplesOK(h) \/ ~NearOne(ev, DvNorm2(ax), 4) THEN VBad
    ELSE VB(DMaxDiffLeS(Res(ev), DAngleAxiss(h[1], ax, DOne), Tol(ev, 8), h[1][3]))
JQRotate(ev) == LET q == Arg(ev, 1) ax == Arg(ev, 3) h == Hcs(ev) L == AxLen(ev) IN
    IF ~TriplesOK(h) \/ ~AxisOK(ev, ax) THEN VBad
    ELSE UnitOr(ev, q, VB(DMaxDiffLeS(Res(ev), DqMul(q, DAngleAxiss(h[1], ax, L)), Tol(ev, 8), DMul(h[1][3], L))))

\* ---------------------------------------------------------------- Euler angles of a quaternion
\* (c, s) = decoded (cos, sin) of a returned angle; it must point along (X, Y) = (cos, sin) * cos(yaw): |c Y - s X| <= 8 eps, c X + s Y >= -8 eps
AlongOK(ev, c, s, X, Y) == DLe(DAbs(DSub(DMul(c, Y), DMul(s, X))), Tol(ev, 8)) /\ DLe(DNeg(Tol(ev, 8)), DAdd(DMul(c, X), DMul(s, Y)))
PitchOK(ev, q, c, s) == AlongOK(ev, c, s, DPitchX(q), DPitchY(q))
RollOK(ev, q, c, s) == AlongOK(ev, c, s, DRollX(q), DRollY(q))
YawOK(ev, q, c, s) == LET y == DYawSin(q) yc == IF DLt(DOne, y) THEN DOne ELSE IF DLt(y, DI(-1)) THEN DI(-1) ELSE y
                      IN DLe(DAbs(DSub(s, yc)), Tol(ev, 8)) /\ DLe(DNeg(Tol(ev, 8)), c)
JEulerAngles(ev) == LET q == Arg(ev, 1) o == DSeqW(ev.ocs) IN
    UnitOr(ev, q, VB(PitchOK(ev, q, o[1], o[2]) /\ YawOK(ev, q, o[3], o[4]) /\ RollOK(ev, q, o[5], o[6])))
JPitch(ev) == LET q == Arg(ev, 1) o == DSeqW(ev.ocs) IN UnitOr(ev, q, VB(PitchOK(ev, q, o[1], o[2])))
JYaw(ev) == LET q == Arg(ev, 1) o == DSeqW(ev.ocs) IN UnitOr(ev, q, VB(YawOK(ev, q, o[1], o[2])))
JRoll(ev) == LET q == Arg(ev, 1) o == DSeqW(ev.ocs) IN UnitOr(ev, q, VB(RollOK(ev, q, o[1], o[2])))
\* quat(eulerAngles(q)) describes the rotation of q: matrices agree within 64 eps; near gimbal lock (cos(yaw) -> 0) the three angles are
\* conditioned like eps / cos(yaw): accepted up to 8 sqrt(eps) under the bound e cos(yaw) <= 16 eps; beyond 8 sqrt(eps) but inside that
\* bound is the known loss of GLM's eulerAngles just outside its atan2(0,0) guard (surely inside the guard, the documented
\* fallback pitch = 2 atan2(x, w), roll = 0 must itself be within 8 sqrt(eps))
JEulerRt(ev) == LET q == Arg(ev, 1) r == Res(ev) mq == DqToMat3(q) mr == DqToMat3(r) cy2 == DCosYaw2(q)
                    model == DSqDiffLe(mr, mq, cy2, DMulInt(DSq(EpsD(ev)), 256))
                    g4 == DMul2k(EpsD(ev), -2)                                  \* surely inside the guard: the four atan2 arguments are <= eps / 4
                    guard == DLe(DAbs(DRollX(q)), g4) /\ DLe(DAbs(DRollY(q)), g4) /\ DLe(DAbs(DPitchX(q)), g4) /\ DLe(DAbs(DPitchY(q)), g4) IN
    UnitOr(ev, q,
        IF DMaxDiffLe(mr, mq, Tol(ev, 64)) THEN VOk
        ELSE IF model /\ DSqDiffLe(mr, mq, DOne, Tol(ev, 64)) THEN VOk
        ELSE IF model /\ ~guard THEN VKnown("KD-C04-euler-roundtrip-near-gimbal")
        ELSE VBad)
JCtorEuler(ev) == LET h == Hcs(ev) IN
    IF ~TriplesOK(h) THEN VBad ELSE VB(DMaxDiffLeS(Res(ev), DEulerQuats(h[1], h[2], h[3]), Tol(ev, 8), DenProd(h)))

\* ---------------------------------------------------------------- gtx/rotate_vector
JRvRotate(ev) == LET v == Arg(ev, 1) ax == Arg(ev, 3) p == Cs(ev) L == AxLen(ev) IN
    IF ~TriplesOK(p) \/ ~AxisOK(ev, ax) THEN VBad
    ELSE LET e3 == Dm3Vec(DRotAxiss(p[1], ax, L), DV3(v)) s == DMul(p[1][3], DSq(L))
             e == IF Len(v) = 4 THEN e3 \o << DMul(v[4], s) >> ELSE e3
         IN VB(DMaxDiffLeS(Res(ev), e, TolS(ev, 16, ScaleV(DV3(v))), s))
JRotateXYZ(ev, ax) == LET v == Arg(ev, 1) p == Cs(ev) IN
    IF ~TriplesOK(p) THEN VBad
    ELSE LET e3 == Dm3Vec(DAxisRots(ax, p[1]), DV3(v)) s == p[1][3] e == IF Len(v) = 4 THEN e3 \o << DMul(v[4], s) >> ELSE e3
         IN VB(DMaxDiffLeS(Res(ev), e, TolS(ev, 8, ScaleV(DV3(v))), s))
JRotate2(ev) == LET v == Arg(ev, 1) p == Cs(ev) IN
    IF ~TriplesOK(p) THEN VBad
    ELSE LET t == p[1] e == << DSub(DMul(v[1], t[1]), DMul(v[2], t[2])), DAdd(DMul(v[1], t[2]), DMul(v[2], t[1])) >>
         IN VB(DMaxDiffLeS(Res(ev), e, TolS(ev, 8, ScaleV(v)), t[3]))
\* orientation(Normal, Up): the rotation about Up x Normal that takes Up to Normal (identity when they coincide)
JOrientation(ev) == LET n == Arg(ev, 1) u == Arg(ev, 2) r == Res(ev) m == Top3(r) ax == DvCross(u, n) tol == Tol(ev, 32) IN
    IF ~(NearOne(ev, DvNorm2(n), 4) /\ NearOne(ev, DvNorm2(u), 4)) THEN VSkip
    ELSE VB(/\ Pad4(r) /\ DMaxDiffLe(Dm3Vec(m, u), n, tol) /\ DMaxDiffLe(Dm3Vec(m, ax), ax, tol)
            /\ DMaxDiffLe(Dm3Vec(m, DvCross(u, ax)), DvCross(n, ax), tol)
            /\ (DvIsZero(ax) => DMaxDiffLe(m, Dm3Id, tol)))

\* ---------------------------------------------------------------- rotation between two vectors
\* Both functions must return the unit quaternion (w >= 0) that rotates u/|u| onto v/|v| about an axis orthogonal to both; when v = -u
\* any axis orthogonal to u.  Integer vectors come with their integer lengths lu, lv (0 = unit vector); with L = lu lv the residuals
\* are written without division:  |r|^2 - 1,  (R(r) u lv - v lu) / L,  (r.xyz . u) / lu,  (r.xyz . v) / lv  -- each value is kept with
\* its divisor.  e = the largest residual.  Accepted: e <= 64 eps; or e <= 8 sqrt(eps) inside the model of the function's degenerate-case
\* handling.  Inside the model but beyond 8 sqrt(eps): known deviation (see notes).
LenOr1(n) == IF n = 0 THEN DOne ELSE DI(n)
ResLe(vals, divs, tol) == \A i \in 1..Len(vals) : DLe(DAbs(vals[i]), DMul(tol, divs[i]))                       \* |val / div| <= tol
ResSqLe(vals, divs, scale, bound) == \A i \in 1..Len(vals) : DLe(DMul(DSq(vals[i]), scale), DMul(bound, DSq(divs[i])))   \* (val/div)^2 scale <= bound
JTwoVec(ev, fn) ==
    LET u == Arg(ev, 1) v == Arg(ev, 2) r == Res(ev) lu == LenOr1(ev.lu) lv == LenOr1(ev.lv) L == DMul(lu, lv)
        dom == IF ev.lu = 0 THEN NearOne(ev, DvNorm2(u), 4) /\ NearOne(ev, DvNorm2(v), 4)
               ELSE DEq(DvNorm2(u), DSq(lu)) /\ DEq(DvNorm2(v), DSq(lv))
        cL == DvDot(u, v)                                   \* cos * L
        c1L == DAdd(L, cL)                                  \* (1 + cos) * L
        anti == DvEq(DvScale(v, lu), DvNeg(DvScale(u, lv)))
        ru == DqRotate(r, u)
        rvec == DQVec(r)
        vals == << DSub(DqNorm2(r), DOne) >> \o DvSub(DvScale(ru, lv), DvScale(v, lu)) \o << DvDot(rvec, u) >> \o (IF anti THEN << >> ELSE << DvDot(rvec, v) >>)
        divs == << DOne, L, L, L, lu >> \o (IF anti THEN << >> ELSE << lv >>)
        e2 == DSq(EpsD(ev))
        fallback == DLe(DAbs(r[1]), Tol(ev, 8)) /\ DLe(DAbs(DvDot(rvec, u)), DMul(Tol(ev, 8), lu)) /\ NearOne(ev, DqNorm2(r), 16)
        model == IF fn = "rotation"
                 THEN \/ (DLe(DSub(L, cL), DMul(Tol(ev, 2), L)) /\ DvEq(r, DQId))                          \* cos >= 1 - eps: identity
                      \/ (DSign(c1L) > 0 /\ ResSqLe(vals, divs, DSq(c1L), DMul(DMulInt(e2, 256), DSq(L))))   \* s = sqrt(2 (1 + cos)): e (1 + cos) <= 16 eps
                      \/ (DLe(c1L, DMul(Tol(ev, 2), L)) /\ fallback)                                        \* cos < -1 + eps: a fixed orthogonal axis
                 ELSE \/ (DSign(c1L) > 0 /\ ResSqLe(vals, divs, DMul2k(c1L, 1), DMul(DMulInt(e2, 256), L)))          \* w = (1 + cos) / |..|: e sqrt(2 (1 + cos)) <= 16 eps
                      \/ (DLt(DMulInt(c1L, 100000000), DMulInt(L, 101)) /\ DIsZero(r[1]) /\ fallback)   \* 1 + cos < 1e-6: treated as opposite
        kd == IF fn = "rotation" THEN "KD-C04-rotation-near-antiparallel" ELSE "KD-C04-quat-from-vectors-antiparallel-threshold"
    IN IF ~dom THEN VSkip
       ELSE IF DSign(r[1]) < 0 /\ ~DLe(DAbs(r[1]), Tol(ev, 8)) THEN VBad
       ELSE IF ResLe(vals, divs, Tol(ev, 64)) THEN VOk
       ELSE IF model /\ ResSqLe(vals, divs, DOne, Tol(ev, 64)) THEN VOk
       ELSE IF model THEN VKnown(kd)
       ELSE VBad

\* ---------------------------------------------------------------- gtx/euler_angles
\* expected matrix times the product of the denominators of the angle triples
EulerExps(ev, p) ==
    CASE ev.op = "euler" -> DEulerMats(ev.nm, p)
      [] ev.op = "yawPitchRoll" -> DEulerMats("YXZ", p)
      [] ev.op \in {"orientate3", "orientate4"} -> DEulerMats("YXZ", << p[3], p[1], p[2] >>)
      [] ev.op = "orientate3s" -> DRotZs(p[1])
      [] ev.op = "deuler" -> DDAxisRots(ev.nm, p[1], Arg(ev, 2)[1])
JEuler(ev) == LET r == Res(ev) p == Cs(ev) IN
    IF ~TriplesOK(p) THEN VBad
    ELSE IF ev.op = "orientate2" THEN VB(DMaxDiffLeS(r, << p[1][1], p[1][2], DNeg(p[1][2]), p[1][1] >>, Tol(ev, 16), p[1][3]))
    ELSE LET e == EulerExps(ev, p) s == DenProd(p)
             tol == IF ev.op = "deuler" THEN TolS(ev, 16, DMax(DOne, DAbs(Arg(ev, 2)[1]))) ELSE Tol(ev, 16) IN
         IF Len(r) = 16 THEN VB((IF ev.op = "deuler" THEN Pad4Zero(r) /\ DIsZero(r[16]) ELSE Pad4(r)) /\ DMaxDiffLeS(Top3(r), e, tol, s))
         ELSE VB(DMaxDiffLeS(r, e, tol, s))
\* extractEulerAngleABC(M): the returned angles (decoded as (cos, sin) pairs "ocs") must rebuild M as the product of the single-axis
\* factors, and GLM's own eulerAngleABC of them (the logged rebuild) must reproduce M as well
JExtract(ev) == LET m == Arg(ev, 1) m3 == Top3(m) o == DSeqW(ev.ocs) r == Res(ev)
                    ps == << <<o[1], o[2], DOne>>, <<o[3], o[4], DOne>>, <<o[5], o[6], DOne>> >> IN
    IF ~(Pad4(m) /\ DMaxDiffLe(Dm3Mul(m3, Dm3T(m3)), Dm3Id, Tol(ev, 16))) THEN VSkip      \* M must be a rotation
    ELSE VB(/\ DMaxDiffLe(DEulerMats(ev.nm, ps), m3, Tol(ev, 32))
            /\ DMaxDiffLe(r, m, Tol(ev, 32)))

\* ---------------------------------------------------------------- storage order, constructors (bit patterns)
JMem(ev) == LET q == ev.a[1] want == IF ev.o = "wxyz" THEN q ELSE << q[2], q[3], q[4], q[1] >> IN VB(ev.raw = want /\ ev.idx = want)
JMakeQuat(ev) == LET raw == ev.a[1] want == IF ev.o = "wxyz" THEN raw ELSE << raw[4], raw[1], raw[2], raw[3] >> IN VB(ev.r = want)
JCtor4(ev) == VB(ev.r = << ev.a[1][1], ev.a[2][1], ev.a[3][1], ev.a[4][1] >>)
JCtorSV(ev) == VB(ev.r = << ev.a[1][1], ev.a[2][1], ev.a[2][2], ev.a[2][3] >>)
JCopy(ev) == VB(ev.r = ev.a[1])
JConv(ev) == LET q == Arg(ev, 1) IN VB(\A i \in 1..4 : IsRNED(Fm(ev), Fields(Fm(ev), ev.r[i]), q[i]))

\* ---------------------------------------------------------------- dual quaternions (unit real part)
JDqCtor(ev) == LET q == Arg(ev, 1) p == Arg(ev, 2) IN
    VB(ev.r = ev.a[1] /\ DMaxDiffLe(DSeqW(ev.d), DDqDual(q, p), TolS(ev, 8, ScaleV(p))))
\* mat3x4_cast: three columns of four rows; column k holds row k of [R | t]
JDqMat3x4(ev) == LET re == Arg(ev, 1) du == Arg(ev, 2) R == DqToMat3(re) t == DDqTrans(re, du)
                     e == << R[1], R[4], R[7], t[1], R[2], R[5], R[8], t[2], R[3], R[6], R[9], t[3] >> IN
    UnitOr(ev, re, VB(DMaxDiffLe(Res(ev), e, TolS(ev, 16, ScaleV(du)))))
JDqMat2x4(ev) == LET re == ev.a[1] du == ev.a[2] IN VB(ev.r = << re[2], re[3], re[4], re[1], du[2], du[3], du[4], du[1] >>)
JDqCast2x4(ev) == LET m == ev.a[1] IN VB(ev.r = << m[4], m[1], m[2], m[3] >> /\ ev.d = << m[8], m[5], m[6], m[7] >>)
\* dualquat_cast(mat3x4): the real part describes the 3x3 block (rows of the matrix), the dual part is (0, t) * real / 2
JDqCast3x4(ev) == LET m == Arg(ev, 1) re == Res(ev) du == DSeqW(ev.d) t == << m[4], m[8], m[12] >>
                      rot == << m[1], m[5], m[9], m[2], m[6], m[10], m[3], m[7], m[11] >> IN
    VB(/\ DMaxDiffLe(DqToMat3(re), rot, Tol(ev, 32))
       /\ DMaxDiffLe(du, DDqDual(re, t), TolS(ev, 8, ScaleV(t))))
JDqRt(ev) == LET re == Arg(ev, 1) du == Arg(ev, 2) r == Res(ev) d == DSeqW(ev.d) tol == TolS(ev, 16, ScaleV(du)) IN
    UnitOr(ev, re, VB((DMaxDiffLe(r, re, tol) /\ DMaxDiffLe(d, du, tol)) \/ (DMaxDiffLe(r, DvNeg(re), tol) /\ DMaxDiffLe(d, DvNeg(du), tol))))
JDqV(ev, inv) == LET re == Arg(ev, 1) du == Arg(ev, 2) v == Arg(ev, 3) t == DDqTrans(re, du)
                     e3 == IF inv THEN DqRotate(DqConj(re), DvSub(DV3(v), t)) ELSE DvAdd(DqRotate(re, DV3(v)), t)
                     e == IF Len(v) = 4 THEN e3 \o << v[4] >> ELSE e3 IN
    UnitOr(ev, re, VB(DMaxDiffLe(Res(ev), e, TolS(ev, 16, DAdd(ScaleV(DV3(v)), DvSum1(t))))))
JDqInverse(ev) == LET re == Arg(ev, 1) du == Arg(ev, 2) IN
    UnitOr(ev, re, VB(DvEq(Res(ev), DqConj(re)) /\ DMaxDiffLe(DSeqW(ev.d), DqConj(du), TolS(ev, 8, ScaleV(du)))))

\* ---------------------------------------------------------------- dispatch
Judge(ev) ==
    LET op == ev.op IN
    CASE op \in {"mat3_cast", "toMat3", "conv_mat3"} -> JMat3(ev)
      [] op \in {"mat4_cast", "toMat4", "conv_mat4"} -> JMat4(ev)
      [] op = "cast_rt" -> JCastRt(ev)
      [] op \in {"quat_cast3", "quat_cast4", "toQuat3", "toQuat4", "ctor_mat3", "ctor_mat4"} -> JQuatCast(ev)
      [] op \in {"qv3", "qv4", "grot3", "grot4", "gcross_qv"} -> JQV(ev, FALSE)
      [] op \in {"vq3", "vq4", "gcross_vq"} -> JQV(ev, TRUE)
      [] op \in {"qmul", "qmul_asg", "qcross"} -> JQMul(ev)
      [] op = "matprod" -> JMatProd(ev)
      [] op = "conj_inv" -> JConjInv(ev)
      [] op = "q_mul_inv" -> JQMulInv(ev)
      [] op = "inverse" -> JInverse(ev)
      [] op = "neg" -> JExact(ev, DvNeg(Arg(ev, 1)))
      [] op = "conj" -> JExact(ev, DqConj(Arg(ev, 1)))
      [] op \in {"pos", "ctor_copy", "assign"} -> JCopy(ev)
      [] op = "qadd" -> JRounded(ev, DvAdd(Arg(ev, 1), Arg(ev, 2)), 1)
      [] op = "qsub" -> JRounded(ev, DvSub(Arg(ev, 1), Arg(ev, 2)), 1)
      [] op \in {"smul", "smul_l", "smul_asg"} -> JRounded(ev, DvScale(Arg(ev, 1), Arg(ev, 2)[1]), 1)
      [] op \in {"sdiv", "sdiv_asg"} -> JSDiv(ev)
      [] op = "dot" -> JDot(ev)
      [] op = "length" -> JLength(ev)
      [] op = "length2" -> JLength2(ev)
      [] op = "normalize" -> JNormalize(ev)
      [] op = "angle" -> JAngle(ev)
      [] op = "axis" -> JAxis(ev)
      [] op = "aa_rt" -> JAaRt(ev)
      [] op = "angleAxis" -> JAngleAxis(ev)
      [] op = "qrotate" -> JQRotate(ev)
      [] op = "eulerAngles" -> JEulerAngles(ev)
      [] op = "pitch" -> JPitch(ev)
      [] op = "yaw" -> JYaw(ev)
      [] op = "roll" -> JRoll(ev)
      [] op = "euler_rt" -> JEulerRt(ev)
      [] op = "ctor_euler" -> JCtorEuler(ev)
      [] op \in {"rv_rotate3", "rv_rotate4"} -> JRvRotate(ev)
      [] op \in {"rotateX3", "rotateX4"} -> JRotateXYZ(ev, "X")
      [] op \in {"rotateY3", "rotateY4"} -> JRotateXYZ(ev, "Y")
      [] op \in {"rotateZ3", "rotateZ4"} -> JRotateXYZ(ev, "Z")
      [] op = "rv_rotate2" -> JRotate2(ev)
      [] op = "orientation" -> JOrientation(ev)
      [] op \in {"ctor_uv", "rotation"} -> JTwoVec(ev, op)
      [] op \in {"euler", "yawPitchRoll", "orientate3", "orientate4", "orientate3s", "orientate2", "deuler"} -> JEuler(ev)
      [] op = "extract" -> JExtract(ev)
      [] op = "mem" -> JMem(ev)
      [] op = "make_quat" -> JMakeQuat(ev)
      [] op \in {"ctor4", "ctor_wxyz"} -> JCtor4(ev)
      [] op = "ctor_sv" -> JCtorSV(ev)
      [] op = "ctor_conv" -> JConv(ev)
      [] op = "dq_ctor" -> JDqCtor(ev)
      [] op = "dq_mat3x4" -> JDqMat3x4(ev)
      [] op = "dq_mat2x4" -> JDqMat2x4(ev)
      [] op = "dq_cast2x4" -> JDqCast2x4(ev)
      [] op = "dq_cast3x4" -> JDqCast3x4(ev)
      [] op = "dq_rt" -> JDqRt(ev)
      [] op \in {"dq_v3", "dq_v4"} -> JDqV(ev, FALSE)
      [] op = "v_dq3" -> JDqV(ev, TRUE)
      [] op = "dq_inverse" -> JDqInverse(ev)
      [] OTHER -> VBad

\* non-finite arguments are outside the domain; a non-finite result for finite arguments is wrong
Verdict(ev) == IF ~FinArgs(ev) THEN VSkip ELSE IF ~FinOut(ev) THEN VBad ELSE Judge(ev)

Init == l = 1 /\ RegInit
Next == /\ l <= NTrace
        /\ LET ev == TraceLog[l] IN IF IsMarker(ev) THEN Bump(3) ELSE Record(l, Verdict(ev), ev.op)
        /\ l' = l + 1
Spec == Init /\ [][Next]_vars
Accepted == Summary
=============================================================================
