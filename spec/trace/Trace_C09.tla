----------------------------- MODULE Trace_C09 ----------------------------
(***************************************************************************)
(* Trace specification for the transform builders (C09).  Stateless.       *)
(*                                                                         *)
(* products  translate / rotate / scale / shear (+ *_slow), the gtx        *)
(*   single-argument forms, gtx/transform2, gtx/matrix_transform_2d,       *)
(*   rotate_vector, rotate_normalized_axis, axisAngleMatrix: the logged    *)
(*   result is compared entry by entry with  M * E  evaluated over Q,      *)
(*   E the elementary matrix of GlmTransform.tla built from the logged     *)
(*   arguments (angles: from the rational (cos, sin) pair the harness      *)
(*   encoded; axes: normalised exactly through their rational length).     *)
(*   Tolerance = K * eps * (sum of |terms| of the entry); K = 4..8 for     *)
(*   exactly given factors, KRot = 24 + 8 |turns| when cos / sin of a      *)
(*   rounded angle enter (see notes/C09-notes.md).                         *)
(* lookAt / orientation: the postconditions of the property evaluated in   *)
(*   exact dyadic arithmetic on the logged matrix; tolerances carry the    *)
(*   condition number 1 / sin(angle between the two input directions) in   *)
(*   squared form (no roots, no divisions).  lookAt must be bit-identical  *)
(*   to the variant the configuration selects.                             *)
(* decompose / recompose: the input matrix is recomputed from the logged   *)
(*   rational pieces; the returned components must recompose (exactly, in  *)
(*   the specification) to the input, equal the sign-canonical pieces, and *)
(*   GLM's recompose must agree with the exact recomposition.              *)
(* axisAngle / interpolate: against the rational rotation encoded by the   *)
(*   harness.                                                              *)
(***************************************************************************)
EXTENDS GlmTransform, TraceBase
VARIABLE l
vars == <<l>>

Fm(ev) == TypeFmt(ev.t)
Q4(ws) == Mat(4, 4, QSeq(ws))
Q3(ws) == Mat(3, 3, QSeq(ws))
QS(a) == QW(a[1])
AbsI(n) == IF n < 0 THEN -n ELSE n
ArgsFin(ev) == \A i \in 1..Len(ev.a) : AllFin(ev.a[i])

\* entry-wise: | obs - E | <= kk * eps * S   (S = 0: exact)
NearM(f, obs, E, S, kk) == /\ Len(obs) = Len(E.e) /\ AllFin(obs)
                           /\ \A i \in 1..Len(obs) : NearRel(QW(obs[i]), E.e[i], kk, S.e[i], f)
NearV(f, obs, E, S, kk) == /\ Len(obs) = Len(E) /\ AllFin(obs)
                           /\ \A i \in 1..Len(obs) : NearRel(QW(obs[i]), E[i], kk, S[i], f)
ExactM(obs, E) == Len(obs) = Len(E.e) /\ AllFin(obs) /\ \A i \in 1..Len(obs) : QEq(QW(obs[i]), E.e[i])
\* scale of the entries of M * (a matrix whose first n x n block has entries of magnitude <= 1 carrying the rounding
\* errors of cos / sin / the normalised axis, the rest being the exact identity)
BlockScale(M, n) == IF M.c >= n THEN MFromFn(M.c, M.r, LAMBDA c, r : IF c <= n THEN QSum([j \in 1..n |-> QAbs(MAt(M, j, r))]) ELSE QZero) ELSE M
FullScale(M) == IF M.c >= 1 THEN MFromFn(M.c, M.r, LAMBDA c, r : QSum([j \in 1..M.c |-> QAbs(MAt(M, j, r))])) ELSE M
V1Norm(v) == QSum([i \in 1..Len(v) |-> QAbs(v[i])])

\* ---------------------------------------------------------------- angles and axes (input encoding)
Co(ev) == QF(ev.cn, ev.cd)
Si(ev) == QF(ev.sn, ev.cd)
KRot(ev) == 24 + 8 * AbsI(ev.k)
\* the logged angle is atan2(sn, cn) + 2 pi k (half-angle events: twice atan2): |angle| <= mult * pi + 2 pi |k| < 4 mult + 7 |k|
AngleOK(ev, w, mult) == IsCosSin(ev.cn, ev.sn, ev.cd) /\ FinW(w) /\ QLe(QAbs(QW(w)), QI(4 * mult + 7 * AbsI(ev.k)))
AxisOK(ev, axq) == IsNormOf(axq, ev.an, ev.ad)
UAxis(ev, axq) == UnitAxis(axq, ev.an, ev.ad)

\* ---------------------------------------------------------------- ext/matrix_transform, gtx/transform
IdentityVerdict(ev) ==
    IF ev.k = "q" THEN VBool(AllFin(ev.r) /\ Len(ev.r) = 4 /\ QEq(QW(ev.r[1]), QOne) /\ \A i \in 2..4 : QIsZero(QW(ev.r[i])))
    ELSE VBool(ExactM(ev.r, MFromFn(ev.nc, ev.nr, LAMBDA c, r : IF c = r THEN QOne ELSE QZero)))

TranslateVerdict(ev) ==
    LET M == Q4(ev.a[1]) E == Translate4(QSeq(ev.a[2])) IN VBool(NearM(Fm(ev), ev.r, MMul(M, E), MMulAbs(M, E), 4))
ScaleVerdict(ev) ==
    LET M == Q4(ev.a[1]) E == Scale4(QSeq(ev.a[2])) P == MMul(M, E) S == MMulAbs(M, E)
    IN VBool(NearM(Fm(ev), ev.r, P, S, 4) /\ NearM(Fm(ev), ev.slow, P, S, 4))
RotateVerdict(ev) ==
    LET M == Q4(ev.a[1]) ax == QSeq(ev.a[3]) IN
    IF ~(AngleOK(ev, ev.a[2][1], 1) /\ AxisOK(ev, ax)) THEN VBad ELSE
    LET P == MMul(M, Rot4(Co(ev), Si(ev), UAxis(ev, ax))) S == BlockScale(M, 3)
    IN VBool(NearM(Fm(ev), ev.r, P, S, KRot(ev)) /\ NearM(Fm(ev), ev.slow, P, S, KRot(ev)))
\* rotate(angle, axis) of gtx/transform and axisAngleMatrix(axis, angle): the rotation matrix itself
Rotate1Verdict(ev, iang, iax) ==
    LET ax == QSeq(ev.a[iax]) IN
    IF ~(AngleOK(ev, ev.a[iang][1], 1) /\ AxisOK(ev, ax)) THEN VBad
    ELSE VBool(NearM(Fm(ev), ev.r, Rot4(Co(ev), Si(ev), UAxis(ev, ax)), BlockScale(MIdentity(4), 3), KRot(ev)))
ShearVerdict(ev) ==
    LET M == Q4(ev.a[1]) H == Shear4(QSeq(ev.a[2]), QSeq(ev.a[3]), QSeq(ev.a[4]), QSeq(ev.a[5])) P == MMul(M, H) S == MMulAbs(M, H)
    IN VBool(NearM(Fm(ev), ev.r, P, S, 8) /\ NearM(Fm(ev), ev.slow, P, S, 8))

\* ---------------------------------------------------------------- dyadic tolerances
EpsK(f, kk) == DMulInt(Eps(f), kk)
\* x^2 * den <= (kk eps)^2 * num      ( |x| <= kk eps sqrt(num / den) )
SqLe(x, kk, f, num, den) == DLe(DMul(DSq(x), den), DMul(DSq(EpsK(f, kk)), num))
DNearAbs(x, y, tol) == DLe(DAbs(DSub(x, y)), tol)
Delta(i, j) == IF i = j THEN DOne ELSE DZero
StructuralAffine(M) == /\ DIsZero(DAt(M, 1, 4)) /\ DIsZero(DAt(M, 2, 4)) /\ DIsZero(DAt(M, 3, 4)) /\ DEq(DAt(M, 4, 4), DOne)
DMVec3(M, v) == [r \in 1..3 |-> DVDot(DRow3(M, r), v)]

\* ---------------------------------------------------------------- lookAt
KLook == 16
LookAtPost(f, ws, eye, cen, up, lh) ==
    LET M == DMat(4, 4, DSeq(ws))
        d == DVSub(cen, eye) cr == DVCross(d, up)
        dd == DVDot(d, d) uu == DVDot(up, up)
        num == DMul(dd, uu) den == DVDot(cr, cr)
        rw == [i \in 1..3 |-> DRow3(M, i)]
        imd == DMVec3(M, d) imu == DMVec3(M, up)
    IN /\ AllFin(ws)
       \* rigid: orthonormal rows (tolerance K eps / sin(angle(view, up))), positive determinant
       /\ \A i, j \in 1..3 : SqLe(DSub(DVDot(rw[i], rw[j]), Delta(i, j)), KLook, f, num, den)
       /\ DSign(DDet3Rows(rw[1], rw[2], rw[3])) > 0
       \* eye -> origin
       /\ \A i \in 1..3 : DNearAbs(DAdd(DVDot(rw[i], eye), DAt(M, 4, i)), DZero, DMul(EpsK(f, 8), DVDotAbs(rw[i], eye)))
       \* view direction -> -z (RH) / +z (LH):  x = y = 0,  z = -+ |d|
       /\ SqLe(imd[1], KLook, f, DMul(num, dd), den) /\ SqLe(imd[2], KLook, f, DMul(num, dd), den)
       /\ DSign(imd[3]) = (IF lh THEN 1 ELSE -1)
       /\ DNearAbs(DSq(imd[3]), dd, DMul(EpsK(f, 64), dd))
       \* up in the +y half-plane
       /\ SqLe(imu[1], KLook, f, DMul(num, uu), den)
       /\ DSign(imu[2]) > 0
       /\ StructuralAffine(M)
LookAtVerdict(ev) ==
    IF ~ArgsFin(ev) THEN VSkip ELSE
    LET eye == DSeq(ev.a[1]) cen == DSeq(ev.a[2]) up == DSeq(ev.a[3])
        d == DVSub(cen, eye) cr == DVCross(d, up)
        num == DMul(DVDot(d, d), DVDot(up, up)) den == DVDot(cr, cr)
    IN \* eye = center, up parallel to the view direction (or within 2^-13 of it): outside the domain
       IF DIsZero(den) \/ DLt(DMul(den, DPow2(26)), num) THEN VSkip
       ELSE VBool(/\ ev.lh = ev.req /\ ev.lh \in {0, 1}
                  /\ LookAtPost(Fm(ev), ev.RH, eye, cen, up, FALSE)
                  /\ LookAtPost(Fm(ev), ev.LH, eye, cen, up, TRUE)
                  /\ ev.U = (IF ev.lh = 1 THEN ev.LH ELSE ev.RH))
ConfigVerdict(ev) ==
    VBool(/\ ev.lh = ev.req /\ ev.forced = ev.req /\ ev.lh \in {0, 1}
          /\ ev.lh_bit = 4 /\ ev.rh_bit = 8
          /\ ((ev.cc \div ev.lh_bit) % 2 = 1) = (ev.lh = 1) /\ ((ev.cc \div ev.rh_bit) % 2 = 1) = (ev.lh = 0))

\* ---------------------------------------------------------------- gtx/transform2, gtx/matrix_transform_2d
Prod3Verdict(ev, E, kk) == LET M == Q3(ev.a[1]) IN VBool(NearM(Fm(ev), ev.r, MMul(M, E), MMulAbs(M, E), kk))
Prod4Verdict(ev, E, kk) == LET M == Q4(ev.a[1]) IN VBool(NearM(Fm(ev), ev.r, MMul(M, E), MMulAbs(M, E), kk))
\* reflect / proj: the entries 1 - k n_i n_j are computed with two or three roundings: scale = row sums of |M|
Plane3Verdict(ev, E) == LET M == Q3(ev.a[1]) IN VBool(NearM(Fm(ev), ev.r, MMul(M, E), FullScale(M), 8))
Plane4Verdict(ev, E) == LET M == Q4(ev.a[1]) IN VBool(NearM(Fm(ev), ev.r, MMul(M, E), FullScale(M), 8))
\* scaleBias(scale, bias): every entry is a copy of an argument or a structural 0 / 1
ScaleBiasVerdict(ev) ==
    LET E == ScaleBias(QS(ev.a[1]), QS(ev.a[2]))
        Written == {1, 6, 11, 13, 14, 15, 16}                 \* the diagonal and the last column: the entries the code assigns
    IN IF ExactM(ev.r, E) THEN VOk
       \* the other entries are never written (default-constructed matrix): whatever they hold, as long as the written ones are right
       ELSE IF Len(ev.r) = 16 /\ \A i \in Written : FinW(ev.r[i]) /\ QEq(QW(ev.r[i]), E.e[i]) THEN VKnown("KD-C09-scaleBias-uninitialised")
       ELSE VBad
\* scaleBias(m, scale, bias) = m * scaleBias(scale, bias): with the unwritten entries only the last column of the product is determined
ScaleBiasMVerdict(ev) ==
    LET M == Q4(ev.a[1]) E == ScaleBias(QS(ev.a[2]), QS(ev.a[3])) P == MMul(M, E) S == MMulAbs(M, E) IN
    IF NearM(Fm(ev), ev.r, P, S, 4) THEN VOk
    ELSE IF Len(ev.r) = 16 /\ \A i \in 13..16 : FinW(ev.r[i]) /\ NearRel(QW(ev.r[i]), P.e[i], 4, S.e[i], Fm(ev)) THEN VKnown("KD-C09-scaleBias-uninitialised")
    ELSE VBad
\* documented: shearX = horizontal (x' = x + k y), shearY = vertical; observed on the pinned tree: the transposed matrices
Shear2dVerdict(ev, Doc, Swapped) ==
    LET M == Q3(ev.a[1]) IN
    IF NearM(Fm(ev), ev.r, MMul(M, Doc), MMulAbs(M, Doc), 4) THEN VOk
    ELSE IF NearM(Fm(ev), ev.r, MMul(M, Swapped), MMulAbs(M, Swapped), 4) THEN VKnown("KD-C09-mt2d-shearXY-swapped")
    ELSE VBad
Rotate2dVerdict(ev) ==
    IF ~AngleOK(ev, ev.a[2][1], 1) THEN VBad ELSE
    LET M == Q3(ev.a[1]) IN VBool(NearM(Fm(ev), ev.r, MMul(M, Rot3(Co(ev), Si(ev))), BlockScale(M, 2), KRot(ev)))

\* ---------------------------------------------------------------- gtx/rotate_vector, gtx/rotate_normalized_axis
Const(n, x) == [i \in 1..n |-> x]
Rotate2Verdict(ev) ==
    IF ~AngleOK(ev, ev.a[2][1], 1) THEN VBad ELSE
    LET v == QSeq(ev.a[1]) IN VBool(NearV(Fm(ev), ev.r, Rotate2(v, Co(ev), Si(ev)), Const(2, V1Norm(v)), KRot(ev)))
RotateVecVerdict(ev, n) ==
    LET v == QSeq(ev.a[1]) ax == QSeq(ev.a[3]) IN
    IF ~(AngleOK(ev, ev.a[2][1], 1) /\ AxisOK(ev, ax)) THEN VBad ELSE
    LET R3 == RotAxis3(Co(ev), Si(ev), UAxis(ev, ax))
        w == MVec(R3, << v[1], v[2], v[3] >>)
        s3 == V1Norm(<< v[1], v[2], v[3] >>)
    IN IF n = 3 THEN VBool(NearV(Fm(ev), ev.r, w, Const(3, s3), KRot(ev)))
       ELSE VBool(NearV(Fm(ev), ev.r, << w[1], w[2], w[3], v[4] >>, << s3, s3, s3, QZero >>, KRot(ev)))
RotateAxisVerdict(ev) ==
    IF ~AngleOK(ev, ev.a[2][1], 1) THEN VBad ELSE
    LET v == QSeq(ev.a[1]) s3 == V1Norm(<< v[1], v[2], v[3] >>)
    IN VBool(NearV(Fm(ev), ev.r, RotateAxisK(v, Co(ev), Si(ev), ev.ax), [i \in 1..Len(v) |-> IF i = ev.ax \/ i = 4 THEN QZero ELSE s3], KRot(ev)))
\* the axis is used as given (the caller normalised it in floating point): the same polynomial on the logged axis
RnaMVerdict(ev) ==
    IF ~AngleOK(ev, ev.a[2][1], 1) THEN VBad ELSE
    LET M == Q4(ev.a[1]) IN VBool(NearM(Fm(ev), ev.r, MMul(M, Rot4(Co(ev), Si(ev), QSeq(ev.a[3]))), BlockScale(M, 3), KRot(ev)))
\* (cn, sn, cd) = cosine / sine of HALF the logged angle WITHOUT the k whole turns: the half angle of  2 theta_h + 2 pi k  is
\* theta_h + pi k,  so the quaternion (cos, sin * axis) changes sign with every odd turn (q and -q are the same rotation, but
\* the function is specified to return this one)
RnaQVerdict(ev) ==
    IF ~AngleOK(ev, ev.a[2][1], 2) THEN VBad ELSE
    LET q == QSeq(ev.a[1]) sg == IF ev.k % 2 = 0 THEN QOne ELSE QNeg(QOne)
    IN VBool(NearV(Fm(ev), ev.r, QuatMul(q, AxisQuat(QMul(sg, Co(ev)), QMul(sg, Si(ev)), QSeq(ev.a[3]))), Const(4, V1Norm(q)), KRot(ev)))

\* orientation(Normal, Up): the rotation about Up x Normal that takes Up to Normal (unit vectors)
KOri == 32
OrientationVerdict(ev) ==
    IF ~ArgsFin(ev) THEN VSkip ELSE
    LET f == Fm(ev) n == DSeq(ev.a[1]) u == DSeq(ev.a[2])
        nn == DVDot(n, n) uu == DVDot(u, u)
        NearUnit(x) == DNearAbs(x, DOne, EpsK(f, 4))
    IN IF ~(NearUnit(nn) /\ NearUnit(uu)) THEN VSkip
       ELSE IF ev.a[1] = ev.a[2] THEN VBool(ExactM(ev.r, MIdentity(4)))
       ELSE LET cr == DVCross(u, n) den == DVDot(cr, cr) num == DMul(nn, uu) IN
            IF DIsZero(den) \/ DLt(DMul(den, DPow2(20)), num) THEN VSkip          \* (anti-)parallel: outside the domain
            ELSE LET M == DMat(4, 4, DSeq(ev.r))
                     rw == [i \in 1..3 |-> DRow3(M, i)]
                     ru == DMVec3(M, u) rc == DMVec3(M, cr)
                 IN VBool(/\ AllFin(ev.r)
                          /\ \A i, j \in 1..3 : SqLe(DSub(DVDot(rw[i], rw[j]), Delta(i, j)), KOri, f, num, den)
                          /\ DSign(DDet3Rows(rw[1], rw[2], rw[3])) > 0
                          /\ \A i \in 1..3 : SqLe(DSub(ru[i], n[i]), KOri, f, num, den)
                          /\ \A i \in 1..3 : SqLe(DSub(rc[i], cr[i]), KOri, f, DMul(num, den), den)
                          /\ StructuralAffine(M)
                          /\ DIsZero(DAt(M, 4, 1)) /\ DIsZero(DAt(M, 4, 2)) /\ DIsZero(DAt(M, 4, 3)))

\* ---------------------------------------------------------------- decompose / recompose
PieceT(ev) == << QF(ev.t1, ev.td), QF(ev.t2, ev.td), QF(ev.t3, ev.td) >>
PieceQ(ev) == << QF(ev.qw, ev.qd), QF(ev.qx, ev.qd), QF(ev.qy, ev.qd), QF(ev.qz, ev.qd) >>
PieceS(ev) == << QF(ev.s1, ev.sd), QF(ev.s2, ev.sd), QF(ev.s3, ev.sd) >>
PieceK(ev) == << QF(ev.k1, ev.kd), QF(ev.k2, ev.kd), QF(ev.k3, ev.kd) >>
PieceP(ev) == << QF(ev.p1, ev.pd), QF(ev.p2, ev.pd), QF(ev.p3, ev.pd), QF(ev.p4, ev.pd) >>
ComposedQ(ev) ==
    LET Af == AffineTRKS(PieceS(ev), PieceQ(ev), PieceT(ev), PieceK(ev)) p == PieceP(ev)
    IN IF ev.mode = 0 THEN Af
       ELSE IF ev.mode = 1 THEN WithLastRow(Af, << p[1], p[2], p[3], QOne >>)
       ELSE MMulR(PerspMat(p), Af)
\* the harness evaluated the same composition in long double and rounded once: within eps * max(|entry|, 1)
IsRoundingOf(f, ws, E) == NearM(f, ws, E, Mat(E.c, E.r, [i \in 1..Len(E.e) |-> QMax(QAbs(E.e[i]), QOne)]), 1)
KRoundTrip == 512       \* units of eps * max|entry|: Gram-Schmidt of a matrix with |skew| <= 1, scale ratios <= 8, and the 4x4 inverse of the perspective solve
KPiece == 256           \* scale / skew components against the sign-canonical pieces
KRecompose == 64        \* GLM's recompose (six 4x4 float products) against the exact product of its arguments
DMaxAbsM(M) == DMaxAbs(M.e)
DNearMat(X, Y, tol) == \A i \in 1..16 : DNearAbs(X.e[i], Y.e[i], tol)
DecomposeVerdict(ev) ==
    LET f == Fm(ev) Mq == ComposedQ(ev) IN
    IF ~(IsCosSin(0, ev.qd, ev.qd) /\ QEq(QuatNorm2(PieceQ(ev)), QOne) /\ IsRoundingOf(f, ev.a[1], Mq)) THEN VBad     \* harness encoding broken
    ELSE IF \E i \in 1..3 : QIsZero(PieceS(ev)[i]) THEN VSkip                                                         \* zero scale: outside the domain
    ELSE LET m33 == MAt(Mq, 4, 4) IN
    IF QIsZero(m33) THEN VSkip ELSE
    IF ev.ok[1] # <<1>> THEN
        \* decompose compares the determinant of the w-normalised affine part with numeric_limits::epsilon ABSOLUTELY
        LET detN == QDiv(MDet(Upper3(Mq)), QMul(m33, QMul(m33, m33)))
        IN IF QLe(QAbs(detN), QMulInt(QFromD(Eps(f)), 2)) THEN VKnown("KD-C09-decompose-rejects-small-det") ELSE VBad
    ELSE IF ~(AllFin(ev.S) /\ AllFin(ev.O) /\ AllFin(ev.T) /\ AllFin(ev.K) /\ AllFin(ev.P)) THEN VBad
    ELSE
    LET S == DSeq(ev.S) O == DSeq(ev.O) T == DSeq(ev.T) K == DSeq(ev.K) P == DSeq(ev.P)
        Judge(v) ==
            LET Mo == v[1] Rd == v[2] Ab == v[3] RC == v[4]
                tol == DMul(EpsK(f, KRoundTrip), DMaxAbsM(Mo))
                w == DAt(Mo, 4, 4)
                same == DNearMat(Rd, Mo, tol)
                \* recompose gives the w-normalised matrix  M / M[3][3]
                normalised == \A i \in 1..16 : DNearAbs(DMul(Rd.e[i], w), Mo.e[i], tol)
                rcOK == ev.rc = 0 \/ \A i \in 1..16 : DNearAbs(RC.e[i], Rd.e[i], DMul(EpsK(f, KRecompose), Ab.e[i]))
                unitQ == DNearAbs(DVDot(O, O), DOne, EpsK(f, 16))
            IN IF ~(rcOK /\ unitQ) THEN VBad
               ELSE IF ~DEq(w, DOne) THEN (IF same THEN VOk ELSE IF normalised THEN VSkip ELSE VBad)     \* M / M[3][3] is the same projective map: decompose works on the normalised matrix (by design of the algorithm); not constrained
               ELSE LET cs == CanonScale(PieceS(ev)) ck == CanonSkew(PieceS(ev), PieceK(ev))
                        pieces == /\ \A i \in 1..3 : DEq(T[i], DAt(Mo, 4, i))
                                  /\ \A i \in 1..3 : NearRel(QFromD(S[i]), cs[i], KPiece, QAbs(cs[i]), f)
                                  /\ \A i \in 1..3 : NearRel(QFromD(K[i]), ck[i], KPiece, QMax(QAbs(ck[i]), QOne), f)
                                  /\ (ev.mode = 0 => (DIsZero(P[1]) /\ DIsZero(P[2]) /\ DIsZero(P[3]) /\ DEq(P[4], DOne)))
                    IN VBool(same /\ pieces)
    IN IF ev.rc = 1 /\ ~AllFin(ev.RC) THEN VBad
       ELSE Bind(<< DMat(4, 4, DSeq(ev.a[1])), DRecompose(S, O, T, K, P), DRecomposeAbs(S, O, T, K, P),
                    IF ev.rc = 1 THEN DMat(4, 4, DSeq(ev.RC)) ELSE DIdent4 >>, Judge)
MissingVerdict(ev) == IF ev.fn = "recompose<double>" THEN VKnown("KD-C09-recompose-float-only") ELSE VBad

\* ---------------------------------------------------------------- gtx/matrix_interpolation
OnesBlock3 == BlockScale(MIdentity(4), 3)
RotInput(f, ws, R3) ==         \* the upper 3x3 of the logged matrix is the rounding of the exact rotation, the last row is (0, 0, 0, 1)
    /\ Len(ws) = 16 /\ AllFin(ws) /\ R3.c = 3
    /\ \A c, r \in 1..3 : NearRel(QW(ws[(c - 1) * 4 + r]), MAt(R3, c, r), 1, QOne, f)
    /\ QIsZero(QW(ws[4])) /\ QIsZero(QW(ws[8])) /\ QIsZero(QW(ws[12])) /\ QEq(QW(ws[16]), QOne)
AxisAngleVerdict(ev) ==
    LET f == Fm(ev) axq == QSeq(ev.a[2]) IN
    IF ~(IsCosSin(ev.cn, ev.sn, ev.cd) /\ AxisOK(ev, axq)) THEN VBad ELSE
    LET u == UAxis(ev, axq) R3 == RotAxis3(Co(ev), Si(ev), u) IN
    IF ~RotInput(f, ev.a[1], R3) THEN VBad ELSE
    \* acos(c) has the condition number 1 / |s|
    LET ka == 16 + (IF ev.sn = 0 THEN 0 ELSE (8 * ev.cd) \div AbsI(ev.sn) + 1)
        ax == QSeq(ev.axis) ang == QW(ev.angle[1])
        cr == VCross(ax, u)
        tolq == QMulInt(QFromD(Eps(f)), ka)
    IN VBool(/\ AllFin(ev.axis) /\ AllFin(ev.angle)
             /\ NearM(f, ev.back, MEmbed4(R3), OnesBlock3, ka)
             /\ QSign(ang) >= 0 /\ QLe(ang, QF(3142, 1000))
             \* a genuine rotation (not the identity): the returned axis is the rotation axis, oriented so that the angle is in [0, pi]
             /\ (ev.sn # 0 \/ ev.cn < 0) =>
                   /\ QNear(VNorm2(ax), QOne, QMulInt(QFromD(Eps(f)), 8))
                   /\ \A i \in 1..3 : QLe(QAbs(cr[i]), tolq)
                   /\ (ev.sn # 0 => QSign(VDot(ax, u)) = (IF ev.sn > 0 THEN 1 ELSE -1)))
ExtractVerdict(ev) ==
    LET M == Q4(ev.a[1]) IN VBool(ExactM(ev.r, MEmbed4(Upper3(M))))
InterpolateVerdict(ev) ==
    LET f == Fm(ev) axq == QSeq(ev.a[4]) IN
    IF ~(IsCosSin(ev.hcn, ev.hsn, ev.hcd) /\ AxisOK(ev, axq) /\ ev.dd > 0) THEN VBad ELSE
    LET u == UAxis(ev, axq) ch == QF(ev.hcn, ev.hcd) sh == QF(ev.hsn, ev.hcd)
        q1 == << QF(ev.qw, ev.qd), QF(ev.qx, ev.qd), QF(ev.qy, ev.qd), QF(ev.qz, ev.qd) >>
        R1 == MRed(QuatToMat3(q1))
        Rfull == MRed(RotAxis3(QSub(QSq(ch), QSq(sh)), QMul(QI(2), QMul(sh, ch)), u))
        R2 == MMulR(Rfull, R1)
    IN IF ~(QEq(QuatNorm2(q1), QOne) /\ RotInput(f, ev.a[1], R1) /\ RotInput(f, ev.a[2], R2)) THEN VBad ELSE
    LET m1 == QSeq(ev.a[1]) m2 == QSeq(ev.a[2]) delta == QF(ev.dn, ev.dd)
        \* acos of the cosine of the FULL angle: condition number 1 / |sin(full)| = cd^2 / (2 |sn cn|)
        amp == IF ev.hsn = 0 \/ ev.hcn = 0 THEN 1 ELSE (ev.hcd * ev.hcd) \div (2 * AbsI(ev.hsn * ev.hcn)) + 1
        kk == 32 + 16 * amp
        Half(sg) == MMulR(MRed(RotAxis3(ch, IF sg THEN sh ELSE QNeg(sh), u)), R1)
        RotOK(E3) == E3.c = 3 /\ \A c, r \in 1..3 : NearRel(QW(ev.r[(c - 1) * 4 + r]), MAt(E3, c, r), kk, QOne, f)
        transOK == \A i \in 1..3 : LET a == m1[12 + i] b == m2[12 + i]
                                   IN NearRel(QW(ev.r[12 + i]), QAdd(a, QMul(delta, QSub(b, a))), 4, QAdd(QAbs(a), QAbs(b)), f)
        structOK == QIsZero(QW(ev.r[4])) /\ QIsZero(QW(ev.r[8])) /\ QIsZero(QW(ev.r[12])) /\ QEq(QW(ev.r[16]), QOne)
    IN IF ~(QEq(QW(ev.a[3][1]), delta) /\ Len(ev.r) = 16 /\ AllFin(ev.r)) THEN VBad
       ELSE VBool(/\ transOK /\ structOK
                  /\ IF ev.dn = 0 THEN RotOK(R1)
                     ELSE IF ev.dn = ev.dd THEN RotOK(R2)
                     ELSE IF ev.dn * 2 = ev.dd THEN
                          (IF ev.hsn = 0 THEN RotOK(R1)
                           ELSE IF ev.hcn = 0 THEN RotOK(Half(TRUE)) \/ RotOK(Half(FALSE))      \* half turn: either way round
                           ELSE RotOK(Half(TRUE)))
                     ELSE FALSE)

\* ---------------------------------------------------------------- dispatch
Verdict(ev) ==
    IF ev.op \in {"config", "missing", "identity"} THEN
        (CASE ev.op = "config" -> ConfigVerdict(ev) [] ev.op = "missing" -> MissingVerdict(ev) [] OTHER -> IdentityVerdict(ev))
    ELSE IF ev.op \in {"lookAt", "orientation"} THEN (IF ev.op = "lookAt" THEN LookAtVerdict(ev) ELSE OrientationVerdict(ev))
    ELSE IF ~ArgsFin(ev) THEN VSkip ELSE
    CASE ev.op = "translate" -> TranslateVerdict(ev)
      [] ev.op = "scale" -> ScaleVerdict(ev)
      [] ev.op = "translate1" -> VBool(ExactM(ev.r, Translate4(QSeq(ev.a[1]))))
      [] ev.op = "scale1" -> VBool(ExactM(ev.r, Scale4(QSeq(ev.a[1]))))
      [] ev.op = "rotate" -> RotateVerdict(ev)
      [] ev.op = "rotate1" -> Rotate1Verdict(ev, 1, 2)
      [] ev.op = "axisAngleMatrix" -> Rotate1Verdict(ev, 2, 1)
      [] ev.op = "shear" -> ShearVerdict(ev)
      [] ev.op = "shearX2D" -> Prod3Verdict(ev, ShearX2D(QS(ev.a[2])), 4)
      [] ev.op = "shearY2D" -> Prod3Verdict(ev, ShearY2D(QS(ev.a[2])), 4)
      [] ev.op = "shearX3D" -> Prod4Verdict(ev, ShearX3D(QS(ev.a[2]), QS(ev.a[3])), 4)
      [] ev.op = "shearY3D" -> Prod4Verdict(ev, ShearY3D(QS(ev.a[2]), QS(ev.a[3])), 4)
      [] ev.op = "shearZ3D" -> Prod4Verdict(ev, ShearZ3D(QS(ev.a[2]), QS(ev.a[3])), 4)
      [] ev.op = "reflect2D" -> Plane3Verdict(ev, Reflect2D(QSeq(ev.a[2])))
      [] ev.op = "reflect3D" -> Plane4Verdict(ev, Reflect3D(QSeq(ev.a[2])))
      [] ev.op = "proj2D" -> Plane3Verdict(ev, Proj2D(QSeq(ev.a[2])))
      [] ev.op = "proj3D" -> Plane4Verdict(ev, Proj3D(QSeq(ev.a[2])))
      [] ev.op = "scaleBias" -> ScaleBiasVerdict(ev)
      [] ev.op = "scaleBiasM" -> ScaleBiasMVerdict(ev)
      [] ev.op = "translate2d" -> Prod3Verdict(ev, Translate3(QSeq(ev.a[2])), 4)
      [] ev.op = "scale2d" -> Prod3Verdict(ev, Scale3(QSeq(ev.a[2])), 4)
      [] ev.op = "rotate2d" -> Rotate2dVerdict(ev)
      [] ev.op = "shearX2d" -> Shear2dVerdict(ev, ShearX2d(QS(ev.a[2])), ShearY2d(QS(ev.a[2])))
      [] ev.op = "shearY2d" -> Shear2dVerdict(ev, ShearY2d(QS(ev.a[2])), ShearX2d(QS(ev.a[2])))
      [] ev.op = "rotate2" -> Rotate2Verdict(ev)
      [] ev.op = "rotate3" -> RotateVecVerdict(ev, 3)
      [] ev.op = "rotate4" -> RotateVecVerdict(ev, 4)
      [] ev.op \in {"rotateX3", "rotateY3", "rotateZ3", "rotateX4", "rotateY4", "rotateZ4"} -> RotateAxisVerdict(ev)
      [] ev.op = "rnaM" -> RnaMVerdict(ev)
      [] ev.op = "rnaQ" -> RnaQVerdict(ev)
      [] ev.op = "decompose" -> DecomposeVerdict(ev)
      [] ev.op = "axisAngle" -> AxisAngleVerdict(ev)
      [] ev.op = "extractMatrixRotation" -> ExtractVerdict(ev)
      [] ev.op = "interpolate" -> InterpolateVerdict(ev)
      [] OTHER -> VBad

Init == l = 1 /\ RegInit
Next == /\ l <= NTrace
        /\ LET ev == TraceLog[l] IN IF IsMarker(ev) THEN Bump(3) ELSE Record(l, Verdict(ev), ev.op)
        /\ l' = l + 1
Spec == Init /\ [][Next]_vars
Accepted == Summary
=============================================================================
