----------------------------- MODULE Trace_X12 ----------------------------
(* Trace specification of stage X12 (geometric extras attached to C12): gtx/intersect, gtx/vector_query, gtx/normalize_dot,
   gtx/handed_coordinate_space, gtx/polar_coordinates, gtx/extend.  Stateless: every event is one GLM call (the round trip
   event logs polar(e) and euclidean of it) and is judged on its own against GlmX12.tla in exact dyadic arithmetic.

   Decisions (hit / no hit, query true / false) are demanded when the exact deciding quantity lies outside its rounding
   band (derived next to each predicate in GlmX12.tla) and are free inside; whenever a hit is reported - demanded or not -
   the outputs must satisfy the postconditions (point on the plane / triangle / sphere and on the ray at the returned
   distance).  Outputs of a call that reports no hit are not looked at (undocumented).

   Outside the documented domain (constrain nothing): non-finite arguments; components outside 2^+-20 (float) / 2^+-60
   (double) (fourth powers must stay in range); ray direction / plane normal that is not a unit vector to 8 eps where
   the documentation demands unit length; negative squared radius, radius <= 0; p0 = p1 for the line through two points;
   a triangle whose determinant vanishes within its own rounding error; polar(0); angles beyond 3.25 in magnitude for
   euclidean; the round trip nearer to the poles than tan(latitude) = 4; extend with Source = Origin. *)
EXTENDS GlmX12, TraceBase
VARIABLE l
vars == <<l>>

Fm(ev) == TypeFmt(ev.t)
DSeq(f, ws) == [i \in 1..Len(ws) |-> ValW(f, ws[i])]
Arg(ev, i) == DSeq(Fm(ev), ev.a[i])
NArg(ev) == Len(ev.a)
Res(ev) == DSeq(Fm(ev), ev.r)
Key(ev, k) == DSeq(Fm(ev), ev[k])
MagLim(f) == IF f = F64 THEN 60 ELSE 20
MagOkW(f, w) == LET x == Fields(f, w) IN IsFinite(f, x) /\ (IsZero(f, x) \/ LET t == DTopExp(Val(f, x)) IN t >= -MagLim(f) /\ t <= MagLim(f))
Dom(ev) == \A i \in 1..NArg(ev) : \A j \in 1..Len(ev.a[i]) : MagOkW(Fm(ev), ev.a[i][j])
FinSeq(ev, ws) == \A i \in 1..Len(ws) : IsFinite(Fm(ev), Fields(Fm(ev), ws[i]))
FinKeys(ev, ks) == \A k \in ks : FinSeq(ev, ev[k])
Hit(ev) == ev.r[1] = <<1>>
IsUnitV(v, f) == JIsUnit(v, 8, f)
SmallIntD(q) == \E k \in -4..4 : DEq(q, DFromInt(k))
SmallIntV(v) == \A i \in 1..Len(v) : SmallIntD(v[i])

----------------------------------------------------------------------------
\* intersectRayPlane(orig, dir, planeOrig, planeNormal, dist)
VRayPlane(ev) ==
    LET o == Arg(ev, 1) dir == Arg(ev, 2) po == Arg(ev, 3) n == Arg(ev, 4) f == Fm(ev)
        want == XRayPlaneWant(o, dir, po, n, f) IN
    IF ~Dom(ev) \/ ~IsUnitV(dir, f) \/ ~IsUnitV(n, f) THEN VSkip
    ELSE IF ~XAgree(Hit(ev), want) THEN VBad
    ELSE IF Hit(ev) THEN VBool(FinKeys(ev, {"dist"}) /\ XRayPlanePost(Key(ev, "dist")[1], o, dir, po, n, f))
    ELSE VOk

\* intersectRayTriangle(orig, dir, v0, v1, v2, bary, dist)
VRayTri(ev) ==
    LET f == Fm(ev) x == XTri(Arg(ev, 1), Arg(ev, 2), Arg(ev, 3), Arg(ev, 4), Arg(ev, 5), f) IN
    IF ~Dom(ev) THEN VSkip ELSE IF XTriDegenerate(x) THEN VSkip
    ELSE LET inside == XTriInside3(x, f) ahead == XTriAhead3(x)
             post == FinKeys(ev, {"dist", "bary"}) /\ XTriPost(Key(ev, "dist")[1], Key(ev, "bary")[1], Key(ev, "bary")[2], x, f)
         IN CASE inside = "F" -> VBool(~Hit(ev))
              [] inside = "T" /\ ahead = "T" -> VBool(Hit(ev) /\ post)
              [] inside = "T" /\ ahead = "F" -> IF ~Hit(ev) THEN VOk ELSE IF post THEN VKnown("KD-X12-raytriangle-behind") ELSE VBad
              [] OTHER -> VBool(Hit(ev) => post)

\* intersectLineTriangle(orig, dir, v0, v1, v2, position): position = (t, u, v)
VLineTri(ev) ==
    LET f == Fm(ev) x == XTri(Arg(ev, 1), Arg(ev, 2), Arg(ev, 3), Arg(ev, 4), Arg(ev, 5), f) IN
    IF ~Dom(ev) THEN VSkip ELSE IF XTriDegenerate(x) THEN VSkip
    ELSE LET inside == IF XTriLineBand(x, f) THEN "U" ELSE XTriInside3(x, f)
             post == FinKeys(ev, {"pos"}) /\ XTriPost(Key(ev, "pos")[1], Key(ev, "pos")[2], Key(ev, "pos")[3], x, f)
         IN CASE inside = "F" -> VBool(~Hit(ev))
              [] inside = "T" -> VBool(Hit(ev) /\ post)
              [] OTHER -> VBool(Hit(ev) => post)

\* intersectRaySphere(rayStarting, rayNormalizedDirection, sphereCenter, sphereRadiusSquared, dist)
VRaySphereD(ev) ==
    LET o == Arg(ev, 1) dir == Arg(ev, 2) c == Arg(ev, 3) r2 == Arg(ev, 4)[1] f == Fm(ev) IN
    IF ~Dom(ev) \/ ~IsUnitV(dir, f) \/ DSign(r2) < 0 THEN VSkip
    ELSE LET x == XSph(o, dir, c, r2, f) want == XRaySphereWant(x, f) IN
         IF ~XAgree(Hit(ev), want) THEN VBad
         ELSE IF Hit(ev) THEN VBool(FinKeys(ev, {"dist"}) /\ XRaySpherePost(Key(ev, "dist")[1], x, Len(o), f))
         ELSE VOk

\* intersectRaySphere(rayStarting, rayNormalizedDirection, sphereCenter, sphereRadius, position, normal)
VRaySphereP(ev) ==
    LET o == Arg(ev, 1) dir == Arg(ev, 2) c == Arg(ev, 3) r == Arg(ev, 4)[1] f == Fm(ev) L == Len(ev.a[1]) IN
    IF ~Dom(ev) \/ ~IsUnitV(dir, f) \/ DSign(r) <= 0 THEN VSkip
    ELSE LET x == XSph(o, dir, c, DSq(r), f) want == XRaySphereWant(x, f) IN
         IF ~XAgree(Hit(ev), want) THEN VBad
         ELSE IF ~Hit(ev) THEN VOk
         ELSE IF ~FinKeys(ev, {"pos", "nrm"}) THEN VBad
         ELSE LET pos == Key(ev, "pos") nrm == Key(ev, "nrm") s == XSphPosS(pos, o, dir)
                  sc == [i \in 1..L |-> DAdd(DAbs(o[i]), DAbs(DMul(s, dir[i])))]
                  ds == DAdd(DTol(10, DAbs(s), f), DTol(2, DvDot(sc, DvAbs(dir)), f))             \* |s - returned distance|
                  tolT == DAdd(DAdd(x.Et0, DTol(2, DAdd(DAbs(x.t0), DAbs(s)), f)), ds)
                  which == XRaySphereWhich(x, f)
              IN VBool(/\ DLt(DNeg(ds), s)
                       /\ XOnRayOk(pos, o, dir, s, f)
                       /\ XOnSphereOk(pos, o, c, x.r2, x.q, XSphTolK(L) + 2, f)
                       /\ XNormalOk(nrm, pos, c, r, f)
                       /\ (which = "near" => DLe(s, DAdd(x.t0, tolT)))
                       /\ (which = "far" => DLe(DSub(x.t0, tolT), s)))

\* intersectLineSphere(point0, point1, sphereCenter, sphereRadius, pos1, nrm1, pos2, nrm2)
VLineSphere(ev) ==
    LET p0 == Arg(ev, 1) p1 == Arg(ev, 2) c == Arg(ev, 3) r == Arg(ev, 4)[1] f == Fm(ev) IN
    IF ~Dom(ev) \/ DSign(r) <= 0 \/ DvIsZero(DvSub(p1, p0)) THEN VSkip
    ELSE LET x == XLineSph(p0, p1, c, r, f) want == XLineSphereWant(x) IN
         IF ~XAgree(Hit(ev), want) THEN VBad
         ELSE IF ~Hit(ev) THEN VOk
         ELSE VBool(FinKeys(ev, {"p1", "n1", "p2", "n2"})
                    /\ XLineSpherePost(Key(ev, "p1"), Key(ev, "n1"), Key(ev, "p2"), Key(ev, "n2"), p0, c, r, x, f))

----------------------------------------------------------------------------
\* gtx/vector_query: a = <<v0, (v1,) epsilon>>
VQuery(ev) ==
    LET f == Fm(ev) two == NArg(ev) = 3 v0 == Arg(ev, 1) v1 == Arg(ev, 2) e == Arg(ev, NArg(ev))[1] IN
    IF ~Dom(ev) THEN VSkip
    ELSE CASE ev.op = "isNull" -> VBool(XAgree(Hit(ev), XIsNull3(v0, e, f)))
           [] ev.op = "isNormalized" -> VBool(XAgree(Hit(ev), XIsNormalized3(v0, e, f)))
           [] ev.op = "areOrthogonal" -> VBool(XAgree(Hit(ev), XAreOrthogonal3(v0, v1, e, f)))
           [] ev.op = "areOrthonormal" -> VBool(XAgree(Hit(ev), XAreOrthonormal3(v0, v1, e, f)))
           [] ev.op = "areCollinear" ->
                LET want == XAreCollinear3(v0, v1, e, f) IN
                IF XAgree(Hit(ev), want) THEN VOk
                \* pinned deviation: the vec4 overload looks at the xyz parts only
                ELSE IF Len(v0) = 4 /\ Hit(ev) /\ want = "F" /\ XAgree(TRUE, XAreCollinearXYZ3(v0, v1, e, f)) THEN VKnown("KD-X12-collinear-vec4-ignores-w")
                ELSE VBad
           [] ev.op = "isCompNull" -> LET w == XIsCompNullD(v0, e) IN VBool(Len(ev.r) = Len(v0) /\ \A i \in 1..Len(v0) : (ev.r[i] = <<1>>) = w[i])

VNormalizeDot(ev) ==
    LET x == Arg(ev, 1) y == Arg(ev, 2) f == Fm(ev) IN
    IF ~Dom(ev) \/ DvIsZero(x) \/ DvIsZero(y) THEN VSkip
    ELSE VBool(FinSeq(ev, ev.r) /\ XNormalizeDotOk(Res(ev)[1], x, y, f))

\* rightHanded / leftHanded(tangent, binormal, normal)
VHanded(ev) ==
    LET t == Arg(ev, 1) b == Arg(ev, 2) n == Arg(ev, 3) f == Fm(ev) m == XHand(t, b, n)
        exact == SmallIntV(t) /\ SmallIntV(b) /\ SmallIntV(n)
        certain == exact \/ DLt(XHandErr(t, b, n, f), DAbs(m))
        sg == IF ev.op = "rightHanded" THEN DSign(m) ELSE -DSign(m) IN
    IF ~Dom(ev) THEN VSkip ELSE IF ~certain THEN VOk ELSE VBool(Hit(ev) = (sg > 0))

VPolar(ev) == LET e == Arg(ev, 1) IN IF ~Dom(ev) \/ DvIsZero(e) THEN VSkip ELSE VBool(FinSeq(ev, ev.r) /\ XPolarOk(Res(ev), e, Fm(ev)))
VEuclidean(ev) == LET p == Arg(ev, 1) IN
    IF ~Dom(ev) \/ ~XTrigRange(p[1]) \/ ~XTrigRange(p[2]) THEN VSkip ELSE VBool(FinSeq(ev, ev.r) /\ XEuclidOk(Res(ev), p[1], p[2], Fm(ev)))
VPolarRT(ev) == LET e == Arg(ev, 1) IN
    IF ~Dom(ev) \/ DvIsZero(e) \/ ~XPolarRTDom(e) THEN VSkip ELSE VBool(FinSeq(ev, ev.r) /\ XPolarRTOk(Res(ev), e, Fm(ev)))

\* extend(Origin, Source, Length): the documented "position at a defined length" in the (Source - Origin) direction
VExtend(ev) ==
    LET O == Arg(ev, 1) S == Arg(ev, 2) len == Arg(ev, 3)[1] f == Fm(ev) r == Res(ev) IN
    IF ~Dom(ev) \/ DvIsZero(DvSub(S, O)) THEN VSkip
    ELSE IF ~(FinSeq(ev, ev.r) /\ XExtendFormulaOk(r, O, S, len, f)) THEN VBad
    \* the documentation ("Extends of Length the Origin position using the (Source - Origin) direction") can be read as the implemented
    \* extrapolation Origin + (Source - Origin) * Length as well as "at distance Length": the implemented formula is what is demanded
    ELSE VOk

Verdict(ev) ==
    CASE ev.op = "rayPlane" -> VRayPlane(ev)
      [] ev.op = "rayTri" -> VRayTri(ev)
      [] ev.op = "lineTri" -> VLineTri(ev)
      [] ev.op = "raySphereD" -> VRaySphereD(ev)
      [] ev.op = "raySphereP" -> VRaySphereP(ev)
      [] ev.op = "lineSphere" -> VLineSphere(ev)
      [] ev.op \in {"isNull", "isNormalized", "areOrthogonal", "areOrthonormal", "areCollinear", "isCompNull"} -> VQuery(ev)
      [] ev.op = "normalizeDot" -> VNormalizeDot(ev)
      [] ev.op \in {"rightHanded", "leftHanded"} -> VHanded(ev)
      [] ev.op = "polar" -> VPolar(ev)
      [] ev.op = "euclidean" -> VEuclidean(ev)
      [] ev.op = "polarRT" -> VPolarRT(ev)
      [] ev.op = "extend" -> VExtend(ev)
      [] OTHER -> VBad

Init == l = 1 /\ RegInit
Next == /\ l <= NTrace
        /\ LET ev == TraceLog[l] IN IF IsMarker(ev) THEN Bump(3) ELSE Record(l, Verdict(ev), ev.op)
        /\ l' = l + 1
Spec == Init /\ [][Next]_vars
Accepted == Summary
=============================================================================
