----------------------------- MODULE Trace_X19 ----------------------------
(* Trace specification of stage X19 (colour encoding, gradient paint and related helpers; host property C19).  Stateless: every
   event is one GLM call (or a composed pair / triple of calls for the inverse and consistency laws) and is judged on its own
   against GlmX19.tla in exact rational / dyadic arithmetic.

   enc        convertLinearSRGBToD65XYZ "s65", convertLinearSRGBToD50XYZ "s50", convertD65XYZToLinearSRGB "x2s", convertD65XYZToD50XYZ
              "b50": the documented linear map (IEC 61966-2-1 matrices for s65 / x2s, the Bradford-adapted literal columns for s50 /
              b50) within |c|_1 / 1000 (precision of published four-decimal matrices) + 4 eps sum |m_ij c_j|.
              The source evaluates component-wise vector products instead of the matrix product: that behaviour - and only it, to 4 eps,
              with the float-rounded literals of the source - is pinned as a known deviation.
   encRT      XYZ -> sRGB after sRGB -> XYZ (and the reverse order) returns the colour within 8 |c|_1 / 1000
   encD50     sRGB -> XYZ(D65) -> XYZ(D50) agrees with sRGB -> XYZ(D50) within 6 |c|_1 / 1000
   linearGradient   | r |d|^2 - d.w | <= 5 eps (sum |d_i w_i| + |r| |d|^2),  d = Point1 - Point0, w = Position - Point0
   radialGradient   r is the non-negative root of A g^2 - 2 B g - C (GlmX19.YRadOk, error budget of the closed form)
   satLaw     saturation(s) has the structure of a saturation matrix; saturation(s, vec4), saturation(s, vec3) and matrix * vector
              agree with the exact product of the observed matrix within 4 eps; alpha passes; s = 1 identity, s = 0 grey, greys fixed
   rgb2YCoCgI / YCoCg2rgbI / ycocgIRT   integer element types, exact on triples of multiples of four whose results fit the type
   l2s / s2l  the sRGB transfer curves on the overloads C19 does not execute, judged by the verdict operator of Trace_C19
   srgbAlpha  vec4: alpha passes bit for bit and does not influence the colour channels

   Outside the documented domain (constrain nothing): non-finite arguments; components outside the magnitude windows below (no
   overflow / underflow inside the formulas); Point0 = Point1 and quotients outside 2^+-60 / 2^+-300; Radius <= 0, focal point not
   inside the circle or nearer to it than |F|^2 = (1 - 1/64) R^2; integer triples that are not multiples of four, whose negation
   overflows, or whose exact result does not fit the element type (per component). *)
EXTENDS GlmX19, TraceBase
VARIABLE l
vars == <<l>>
C19 == INSTANCE Trace_C19

Fm(ev) == TypeFmt(ev.t)
DSeq(f, ws) == [i \in 1..Len(ws) |-> ValW(f, ws[i])]
Arg(ev, i) == DSeq(Fm(ev), ev.a[i])
Res(ev) == DSeq(Fm(ev), ev.r)
Key(ev, k) == DSeq(Fm(ev), ev[k])
FinSeq(f, ws) == \A i \in 1..Len(ws) : IsFinite(f, Fields(f, ws[i]))
\* finite and zero or 2^lo <= |x| < 2^(hi+1)
MagOkW(f, w, lo, hi) == LET x == Fields(f, w) IN IsFinite(f, x) /\ (IsZero(f, x) \/ LET t == DTopExp(Val(f, x)) IN t >= lo /\ t <= hi)
MagOkSeq(f, ws, lo, hi) == \A i \in 1..Len(ws) : MagOkW(f, ws[i], lo, hi)
Dom(ev, lo, hi) == \A i \in 1..Len(ev.a) : MagOkSeq(Fm(ev), ev.a[i], lo, hi)
IsF64(ev) == ev.t = "f64"

----------------------------------------------------------------------------
(* gtx/color_encoding *)
EncLo(ev) == IF IsF64(ev) THEN -200 ELSE -60
EncHi(ev) == IF IsF64(ev) THEN 200 ELSE 60
KdCompwise == "KD-X19-encoding-componentwise"
KdD65 == "KD-X19-encoding-d65-wrong-matrix"
EncId(fn) == IF fn \in {"s65", "x2s"} THEN KdD65 ELSE KdCompwise
VEnc(ev) ==
    LET f == Fm(ev) IN
    IF ~(ev.fn \in YEncFns) THEN VBad
    ELSE IF ~Dom(ev, EncLo(ev), EncHi(ev)) THEN VSkip
    ELSE IF Len(ev.r) # 3 \/ ~FinSeq(f, ev.r) THEN VBad
    ELSE IF YEncDocOk(ev.fn, Res(ev), Arg(ev, 1), f) THEN VOk
    ELSE IF YEncPinOk(ev.fn, Res(ev), Arg(ev, 1), f) THEN VKnown(EncId(ev.fn))
    ELSE VBad
\* z = second(first(c)) must return c
VEncRT(ev) ==
    LET f == Fm(ev) first == IF ev.fn = "s65x2s" THEN "s65" ELSE "x2s" second == IF ev.fn = "s65x2s" THEN "x2s" ELSE "s65" IN
    IF ~(ev.fn \in {"s65x2s", "x2ss65"}) THEN VBad
    ELSE IF ~Dom(ev, EncLo(ev), EncHi(ev)) THEN VSkip
    ELSE IF ~FinSeq(f, ev.r) \/ ~FinSeq(f, ev.y) THEN VBad
    ELSE LET c == Arg(ev, 1) y == Key(ev, "y") z == Res(ev) IN
         IF YEncAgree(z, c, YvNorm1(c), 8) THEN VOk
         ELSE IF YEncPinOk(first, y, c, f) /\ YEncPinOk(second, z, y, f) THEN VKnown(KdD65)
         ELSE VBad
\* r = b50(s65(c)) against z = s50(c)
VEncD50(ev) ==
    LET f == Fm(ev) IN
    IF ~Dom(ev, EncLo(ev), EncHi(ev)) THEN VSkip
    ELSE IF ~FinSeq(f, ev.r) \/ ~FinSeq(f, ev.y) \/ ~FinSeq(f, ev.z) THEN VBad
    ELSE LET c == Arg(ev, 1) y == Key(ev, "y") z == Key(ev, "z") r == Res(ev) IN
         IF YEncAgree(r, z, YvNorm1(c), 6) THEN VOk
         ELSE IF YEncPinOk("s65", y, c, f) /\ YEncPinOk("b50", r, y, f) /\ YEncPinOk("s50", z, c, f) THEN VKnown(KdD65)
         ELSE VBad

----------------------------------------------------------------------------
(* gtx/gradient_paint *)
LinLo(ev) == IF IsF64(ev) THEN -120 ELSE -24
LinHi(ev) == IF IsF64(ev) THEN 120 ELSE 24
LinQuot(ev) == IF IsF64(ev) THEN 300 ELSE 60
VLinear(ev) ==
    LET f == Fm(ev) IN
    IF ~Dom(ev, LinLo(ev), LinHi(ev)) THEN VSkip
    ELSE LET p0 == Arg(ev, 1) p1 == Arg(ev, 2) pos == Arg(ev, 3) den == YLinDen(p0, p1) num == DAbs(YLinNum(p0, p1, pos)) IN
         IF DIsZero(den) THEN VSkip                                                                      \* Point0 = Point1
         ELSE IF ~DIsZero(num) /\ (DLt(DMul2k(den, LinQuot(ev)), num) \/ DLt(num, DMul2k(den, -LinQuot(ev)))) THEN VSkip      \* quotient out of range
         ELSE VBool(Len(ev.r) = 1 /\ FinSeq(f, ev.r) /\ YLinOk(Res(ev)[1], p0, p1, pos, f))
RadLo(ev) == IF IsF64(ev) THEN -100 ELSE -12
RadHi(ev) == IF IsF64(ev) THEN 100 ELSE 20
VRadial(ev) ==
    LET f == Fm(ev) IN
    IF ~Dom(ev, RadLo(ev), RadHi(ev)) THEN VSkip
    ELSE LET R == Arg(ev, 2)[1] x == YRad(Arg(ev, 1), R, Arg(ev, 3), Arg(ev, 4)) IN
         IF ~YRadDomD(x, R) THEN VSkip
         ELSE VBool(Len(ev.r) = 1 /\ FinSeq(f, ev.r) /\ YRadOk(Res(ev)[1], x, f))

----------------------------------------------------------------------------
(* gtx/color_space: saturation overloads *)
SatLo(ev) == IF IsF64(ev) THEN -200 ELSE -40
SatHi(ev) == IF IsF64(ev) THEN 200 ELSE 40
VSatLaw(ev) ==
    LET f == Fm(ev) IN
    IF ~Dom(ev, SatLo(ev), SatHi(ev)) \/ ~MagOkW(f, ev.a[1][1], -40, 20) THEN VSkip
    ELSE IF Len(ev.m) # 16 \/ Len(ev.f4) # 4 \/ Len(ev.f3) # 3 \/ Len(ev.mv) # 4 THEN VBad
    ELSE IF ~(FinSeq(f, ev.m) /\ FinSeq(f, ev.f4) /\ FinSeq(f, ev.f3) /\ FinSeq(f, ev.mv)) THEN VBad
    ELSE LET s == Arg(ev, 1)[1] c == Arg(ev, 2) m == Key(ev, "m") f4 == Key(ev, "f4") f3 == Key(ev, "f3") mv == Key(ev, "mv")
             grey == DEq(c[1], c[2]) /\ DEq(c[2], c[3]) IN
         VBool(/\ YSatStructOk(m, s, f)
               /\ YSatMulOk(f4, m, c, 4, f) /\ YSatMulOk(mv, m, c, 4, f) /\ YSatMulOk(f3, m, c, 3, f)       \* the function forms are the matrix form
               /\ DEq(f4[4], c[4]) /\ DEq(mv[4], c[4])                                                     \* alpha passes
               /\ (DEq(s, YUnit) => (YSatIdentityOk(f3, c, f) /\ YSatIdentityOk(f4, c, f)))
               /\ (DIsZero(s) => (YSatGreyOutOk(f3, c, f) /\ YSatGreyOutOk(f4, c, f)))
               /\ (grey => (YSatGreyFixOk(f3, c, s, f) /\ YSatGreyFixOk(f4, c, s, f))))

----------------------------------------------------------------------------
(* gtx/color_space_YCoCg, integer element types *)
TW(ev) == TypeW(ev.t)
TS(ev) == TypeSigned(ev.t)
ZSeq(ev, v) == [i \in 1..Len(v) |-> WToZ(TW(ev), TS(ev), WFromLimbs(v[i]))]
Fits(ev, z) == ZInRange(TW(ev), TS(ev), z)
Wrap(ev, z) == WToZ(TW(ev), TS(ev), WFromZ(TW(ev), z))
ZMin(ev) == ZMk(TRUE, NShl(<<1>>, TW(ev) - 1))
YccDom(ev, c) == \A i \in 1..3 : YDiv4Ok(c[i]) /\ (TS(ev) => ~ZEq(c[i], ZMin(ev)))
Quarter(z) == ZFloorDiv(z, ZFromInt(4))                     \* exact on multiples of four
YccExact(c) == LET y4 == YYcc4(c) IN [i \in 1..3 |-> Quarter(y4[i])]
\* 32 / 64 bit unsigned: (-r) / 4 instead of -(r / 4)
CgPinned(ev, c, e, o) == ev.t \in {"u32", "u64"} /\ ~ZIsZero(c[1]) /\ ZEq(o, YCgUnsignedObs(TW(ev), e))
KdYcc == "KD-X19-ycocg-unsigned-negation"
\* per component: "free" (exact value does not fit) | "ok" | "kd" | "bad"
YccComp(ev, c, i, e, o) == IF ~Fits(ev, e) THEN "free" ELSE IF ZEq(o, e) THEN "ok" ELSE IF i = 3 /\ CgPinned(ev, c, e, o) THEN "kd" ELSE "bad"
VYccFwd(ev) ==
    LET c == ZSeq(ev, ev.a[1]) IN
    IF ~TypeIsInt(ev.t) \/ Len(ev.r) # 3 THEN VBad
    ELSE IF ~YccDom(ev, c) THEN VSkip
    ELSE LET e == YccExact(c) o == ZSeq(ev, ev.r) S == {YccComp(ev, c, i, e[i], o[i]) : i \in 1..3} IN
         IF "bad" \in S THEN VBad ELSE IF "kd" \in S THEN VKnown(KdYcc) ELSE IF S = {"free"} THEN VSkip ELSE VOk
VYccInv(ev) ==
    LET y == ZSeq(ev, ev.a[1]) IN
    IF ~TypeIsInt(ev.t) \/ Len(ev.r) # 3 THEN VBad
    ELSE IF ~(\A z \in YYccInvTerms(y) : Fits(ev, z)) THEN VSkip
    ELSE LET e == YYccInv(y) o == ZSeq(ev, ev.r) IN VBool(\A i \in 1..3 : ZEq(o[i], e[i]))
\* back = YCoCg2rgb(rgb2YCoCg(c)) must be c when every intermediate value fits
VYccRT(ev) ==
    LET c == ZSeq(ev, ev.a[1]) IN
    IF ~TypeIsInt(ev.t) \/ Len(ev.r) # 3 \/ Len(ev.y) # 3 THEN VBad
    ELSE IF ~YccDom(ev, c) THEN VSkip
    ELSE LET e == YccExact(c) IN
         IF ~(\A i \in 1..3 : Fits(ev, e[i])) \/ ~(\A z \in YYccInvTerms(e) : Fits(ev, z)) THEN VSkip
         ELSE LET back == ZSeq(ev, ev.r) y == ZSeq(ev, ev.y) IN
              IF \A i \in 1..3 : ZEq(back[i], c[i]) THEN VOk
              ELSE IF ZEq(y[1], e[1]) /\ ZEq(y[2], e[2]) /\ CgPinned(ev, c, e[3], y[3])
                      /\ (\A i \in 1..3 : ZEq(back[i], Wrap(ev, YYccInv(y)[i]))) THEN VKnown(KdYcc)
              ELSE VBad

----------------------------------------------------------------------------
(* gtc/color_space *)
VSrgb(ev) == C19!SrgbVerdict(ev)
VSrgbAlpha(ev) ==
    LET x1 == ev.a[1] x2 == ev.a[2] IN
    VBool(/\ Len(ev.r1) = 4 /\ Len(ev.r2) = 4 /\ SubSeq(x1, 1, 3) = SubSeq(x2, 1, 3)
          /\ SubSeq(ev.r1, 1, 3) = SubSeq(ev.r2, 1, 3)
          /\ ev.r1[4] = x1[4] /\ ev.r2[4] = x2[4])

Verdict(ev) ==
    CASE ev.op = "enc" -> VEnc(ev)
      [] ev.op = "encRT" -> VEncRT(ev)
      [] ev.op = "encD50" -> VEncD50(ev)
      [] ev.op = "linearGradient" -> VLinear(ev)
      [] ev.op = "radialGradient" -> VRadial(ev)
      [] ev.op = "satLaw" -> VSatLaw(ev)
      [] ev.op = "rgb2YCoCgI" -> VYccFwd(ev)
      [] ev.op = "YCoCg2rgbI" -> VYccInv(ev)
      [] ev.op = "ycocgIRT" -> VYccRT(ev)
      [] ev.op \in {"l2s", "s2l"} -> VSrgb(ev)
      [] ev.op = "srgbAlpha" -> VSrgbAlpha(ev)
      [] OTHER -> VBad

Init == l = 1 /\ RegInit
Next == /\ l <= NTrace
        /\ LET ev == TraceLog[l] IN IF IsMarker(ev) THEN Bump(3) ELSE Record(l, Verdict(ev), ev.op)
        /\ l' = l + 1
Spec == Init /\ [][Next]_vars
Accepted == Summary
=============================================================================
