----------------------------- MODULE Trace_X02 ----------------------------
(* Trace specification of stage X02 (matrix helper libraries attached to C02): gtc/matrix_access, gtx/matrix_operation,
   gtx/matrix_query, gtx/matrix_major_storage, gtx/matrix_cross_product, ext/matrix_integer (+ gtc/matrix_integer and the sized
   integer matrix types), gtx/matrix_factorisation, ext/matrix_common.  Stateless: every event is one GLM call (crossmv: the
   product of the cross-product matrix with a vector) and is judged on its own against GlmX02.tla.

   * data movement (row / column get and set, flipud, fliplr, diagonalCxR, rowMajorN, colMajorN, transpose): the result is the
     documented rearrangement of the argument bit patterns (a NaN may come back as any NaN);
   * exact arithmetic (integer element types: everything modulo 2^W; floats on small integers): the exact value;
   * rounded arithmetic (adjugate, determinant, mix on arbitrary floats): within k eps of the sum of the absolute terms;
   * decisions (isNull, isIdentity, isNormalized, isOrthogonal): demanded outside the rounding band of the deciding quantity,
     exact where every operation of the evaluation is exact (ties included), free inside the band;
   * qr_decompose / rq_decompose: the documented postconditions (orthonormal columns / rows, exact zeros of the triangular
     factor, the product reproduces the input) within the bounds derived in GlmX02.tla.

   Outside the documented domain (constrain nothing, VSkip): non-finite floats; floats beyond 2^+-20 (float) / 2^+-60 (double)
   where a tolerance is involved; signed integer overflow and int-promoted 16-bit overflow (undefined behaviour); matrices whose
   leading columns (qr) / trailing rows (rq) are linearly dependent or closer than 14.5 degrees to the span of the previous ones. *)
EXTENDS GlmX02, TraceBase
VARIABLE l
vars == <<l>>

Fm(ev) == MxFmt(ev.t)
RawM(ev, k, C, R) == Mat(C, R, ev.a[k])
DM(ev, k, C, R) == MxMatD(ev.t, C, R, ev.a[k])
DV(ev, k) == MxSeqD(ev.t, ev.a[k])
Hit(ev) == ev.r[1] = <<1>>
FinArgs(ev) == \A k \in 1..Len(ev.a) : MxAllFin(ev.t, ev.a[k])
MagArgs(ev) == ~MxIsF(ev.t) \/ \A k \in 1..Len(ev.a) : MxMagOk(ev.t, ev.a[k])
SmallInts(ds) == \A i \in 1..Len(ds) : DIsInt(ds[i]) /\ DLe(DAbs(ds[i]), DFromInt(1024))

----------------------------------------------------------------------------
\* data movement
VMove(ev) ==
    LET t == ev.t IN
    CASE ev.op = "rowget" -> VBool(MxSameSeq(t, ev.r, MRow(RawM(ev, 1, ev.C, ev.R), ev.i + 1)))
      [] ev.op = "colget" -> VBool(MxSameSeq(t, ev.r, MCol(RawM(ev, 1, ev.C, ev.R), ev.i + 1)))
      [] ev.op = "rowset" -> VBool(MxSameSeq(t, ev.r, RowSet(RawM(ev, 1, ev.C, ev.R), ev.i + 1, ev.a[2]).e))
      [] ev.op = "colset" -> VBool(MxSameSeq(t, ev.r, ColSet(RawM(ev, 1, ev.C, ev.R), ev.i + 1, ev.a[2]).e))
      [] ev.op = "flipud" -> VBool(MxSameSeq(t, ev.r, MxFlipud(RawM(ev, 1, ev.C, ev.R)).e))
      [] ev.op = "fliplr" -> VBool(MxSameSeq(t, ev.r, MxFliplr(RawM(ev, 1, ev.C, ev.R)).e))
      [] ev.op = "diag" -> VBool(Len(ev.a[1]) = MxK(ev.C, ev.R) /\ MxSameSeq(t, ev.r, MxDiag(ev.C, ev.R, ev.a[1], MxZeroW(t)).e))
      [] ev.op = "rowMajorV" -> VBool(MxSameSeq(t, ev.r, RowMajorV([k \in 1..ev.n |-> ev.a[k]]).e))
      [] ev.op = "colMajorV" -> VBool(MxSameSeq(t, ev.r, ColMajorV([k \in 1..ev.n |-> ev.a[k]]).e))
      [] ev.op = "rowMajorM" -> VBool(MxSameSeq(t, ev.r, MxRowMajorM(RawM(ev, 1, ev.n, ev.n)).e))
      [] ev.op = "colMajorM" -> VBool(MxSameSeq(t, ev.r, MxColMajorM(RawM(ev, 1, ev.n, ev.n)).e))
      [] ev.op = "itr" -> VBool(MxSameSeq(t, ev.r, MTranspose(RawM(ev, 1, ev.C, ev.R)).e))

\* matrixCross3 / matrixCross4 and their products with a vector
VCrossM(ev) ==
    LET t == ev.t x == DV(ev, 1) IN
    IF ~FinArgs(ev) THEN VSkip
    ELSE IF ~MxIsF(t) /\ ~MxIntSafe(t, DMaxAbs(x)) THEN VSkip
    ELSE VBool(MxAllExact(t, ev.r, DmCross(ev.n, x).e))
VCrossMV(ev) ==
    LET t == ev.t x == DV(ev, 1) v == DV(ev, 2) want == MxCrossMV(ev.n, x, v) sc == MxCrossMVAbs(ev.n, x, v) IN
    IF ~FinArgs(ev) \/ ~MagArgs(ev) THEN VSkip
    ELSE IF ~MxIsF(t) THEN (IF MxIntSafe(t, DMax(DMaxAbs(sc), DMaxAbs(x))) THEN VBool(MxAllExact(t, ev.r, want)) ELSE VSkip)
    ELSE IF SmallInts(x) /\ SmallInts(v) THEN VBool(MxAllExact(t, ev.r, want))
    ELSE VBool(MxAllNear(t, ev.r, want, 3, sc))

\* adjugate, determinant
VAdjDet(ev) ==
    LET t == ev.t m == DM(ev, 1, ev.n, ev.n) IN
    IF ~FinArgs(ev) \/ ~MagArgs(ev) THEN VSkip
    ELSE IF ~MxIsF(t) /\ ~MxDetSafe(t, m) THEN VSkip
    ELSE IF ev.op = "adj" THEN VBool(MxAdjOk(t, m, ev.r)) ELSE VBool(MxDetOk(t, m, ev.r[1]))

\* matrixCompMult, outerProduct on the integer matrix types
VIntMul(ev) ==
    LET t == ev.t IN
    IF ev.op = "icmul" THEN
        LET a == DM(ev, 1, ev.C, ev.R) b == DM(ev, 2, ev.C, ev.R) p == DmCompMult(a, b) IN
        IF MxIntSafe(t, DmMaxAbs(p)) THEN VBool(MxAllExact(t, ev.r, p.e)) ELSE VSkip
    ELSE LET cv == DV(ev, 1) rv == DV(ev, 2) p == DmOuter(cv, rv) IN
         IF Len(cv) # ev.R \/ Len(rv) # ev.C THEN VBad
         ELSE IF MxIntSafe(t, DmMaxAbs(p)) THEN VBool(MxAllExact(t, ev.r, p.e)) ELSE VSkip

\* mix (scalar or per-element weight), abs
VMixM(ev) ==
    LET t == ev.t xs == DV(ev, 1) ys == DV(ev, 2) n == Len(xs)
        as == IF ev.op = "mixs" THEN [i \in 1..n |-> MxElemD(t, ev.a[3][1])] ELSE DV(ev, 3) IN
    IF ~FinArgs(ev) \/ ~MagArgs(ev) THEN VSkip
    ELSE IF ~MxIsF(t) /\ ~MxIntSafe(t, DMaxAbs([i \in 1..n |-> MxMixBound(xs[i], ys[i], as[i])])) THEN VSkip
    ELSE VBool(MxMixOk(t, xs, ys, as, ev.r))
VAbsM(ev) ==
    LET t == ev.t n == Len(ev.a[1]) IN
    IF Len(ev.r) # n THEN VBad
    ELSE IF MxIsF(t) THEN
        VBool(\A i \in 1..n : LET f == Fm(ev) x == Fields(f, ev.a[1][i]) y == Fields(f, ev.r[i]) IN
                 IF IsNaN(f, x) THEN TRUE ELSE IF IsInf(f, x) THEN IsInf(f, y) /\ y.s = 0 ELSE IsFinite(f, y) /\ DEq(Val(f, y), DAbs(Val(f, x))))
    ELSE LET xs == DV(ev, 1) IN IF MxIntSafe(t, DMaxAbs(xs)) THEN VBool(MxAllExact(t, ev.r, DvAbs(xs))) ELSE VSkip

\* gtx/matrix_query: a = <<m, epsilon>>
VQuery(ev) ==
    LET t == ev.t f == Fm(ev) m == DM(ev, 1, ev.C, ev.R) e == MxElemD(t, ev.a[2][1]) IN
    IF ~FinArgs(ev) \/ ~MagArgs(ev) THEN VSkip
    ELSE CASE ev.op = "isNull" -> VBool(XAgree(Hit(ev), MxIsNull3(m, e, f)))
           [] ev.op = "isNormalized" -> VBool(XAgree(Hit(ev), MxIsNormalized3(m, e, f)))
           [] ev.op = "isIdentity" -> VBool(XAgree(Hit(ev), MxIsIdentity3(m, e, f)))
           [] ev.op = "isOrthogonal" ->
                LET want == MxIsOrthogonal3(m, e, f) IN
                IF XAgree(Hit(ev), want) THEN VOk
                \* pinned deviation: for a non-square matrix the second stage of GLM tests a truncated, zero-padded copy of the transpose
                ELSE IF ev.C # ev.R /\ ~Hit(ev) /\ want = "T" /\ MxGlmSecond3(m, e, f) # "T" THEN VKnown("KD-X02-isorthogonal-nonsquare")
                ELSE VBad

\* qr_decompose(in, q, r) / rq_decompose(in, r, q)
VQRwith(ev, A, K, P) ==          \* A = the input (qr) / the row-reversed transpose of the input (rq), P = MxRhoP(A, K)
    LET t == ev.t f == Fm(ev) C == ev.C R == ev.R IN
    IF ~MxQRDomainP(P) THEN VSkip
    ELSE IF ~(MxAllFin(t, ev.q) /\ MxAllFin(t, ev.r)) THEN VBad
    ELSE IF ev.op = "qr" THEN
        (IF Len(ev.q) # K * R \/ Len(ev.r) # C * K THEN VBad
         ELSE VBool(\E q \in {MxMatD(t, K, R, ev.q)} : \E r \in {MxMatD(t, C, K, ev.r)} : MxQRPostP(A, q, r, P, f)))
    ELSE
        (IF Len(ev.q) # C * K \/ Len(ev.r) # K * R THEN VBad
         ELSE VBool(\E tq \in {MxRQq(MxMatD(t, C, K, ev.q))} : \E tr \in {MxRQr(MxMatD(t, K, R, ev.r))} : MxQRPostP(A, tq, tr, P, f)))
VQR(ev) ==
    IF ~FinArgs(ev) \/ ~MagArgs(ev) THEN VSkip
    ELSE LET K == MxK(ev.C, ev.R) IN
         MxLet(IF ev.op = "qr" THEN DM(ev, 1, ev.C, ev.R) ELSE MxRQin(DM(ev, 1, ev.C, ev.R)),
               LAMBDA A : MxLet(MxRhoP(A, K), LAMBDA P : VQRwith(ev, A, K, P)))

\* compile probes of documented call forms (harness/x02_probe.cpp): ok = 1 when the translation unit compiles
VProbe(ev) ==
    IF ev.ok = 1 THEN VOk
    ELSE IF ev.name = "mix_matrix_weight_nonsquare" THEN VKnown("KD-X02-mix-matrix-weight-nonsquare")
    ELSE VBad

Verdict(ev) ==
    CASE ev.op \in {"rowget", "colget", "rowset", "colset", "flipud", "fliplr", "diag", "rowMajorV", "colMajorV", "rowMajorM", "colMajorM", "itr"} -> VMove(ev)
      [] ev.op = "cross" -> VCrossM(ev)
      [] ev.op = "crossmv" -> VCrossMV(ev)
      [] ev.op \in {"adj", "det"} -> VAdjDet(ev)
      [] ev.op \in {"icmul", "iouter"} -> VIntMul(ev)
      [] ev.op \in {"mixs", "mixm"} -> VMixM(ev)
      [] ev.op = "mabs" -> VAbsM(ev)
      [] ev.op \in {"isNull", "isNormalized", "isIdentity", "isOrthogonal"} -> VQuery(ev)
      [] ev.op \in {"qr", "rq"} -> VQR(ev)
      [] ev.op = "probe" -> VProbe(ev)
      [] OTHER -> VBad

Init == l = 1 /\ RegInit
Next == /\ l <= NTrace
        /\ LET ev == TraceLog[l] IN IF IsMarker(ev) THEN Bump(3) ELSE Record(l, Verdict(ev), ev.op)
        /\ l' = l + 1
Spec == Init /\ [][Next]_vars
Accepted == Summary
=============================================================================
