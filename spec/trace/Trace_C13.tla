----------------------------- MODULE Trace_C13 ----------------------------
(* Trace specification for quaternion interpolation (C13).  Stateless: every event is judged on its own.

   A "walk" event carries the 12 integers of a walk (GlmInterp.tla), the step index j (t = j/m) and what GLM returned for every
   interpolation function on (x, y) and (x, -y) at that t.  The expected points are recomputed exactly from the integers (the
   angle j psi once per event, everything else by quarter turns and small steps from it); nothing the harness computed is
   trusted: the encodings of the walk points are themselves checked against the integers ("points" event).

   Tolerances, absolute per component (components of unit quaternions), as powers of two (eps = 2^-23 / 2^-52):
     64 eps   slerp / mix (acute arc) / shortMix / squad end points / intermediate against the exact point of the arc,
              plus the chord-arc gap (computed exactly, rounded up to a power of two) where the implementation may take its linear
              fallback (cos theta > 1 - 8 eps)
     4 eps    at t = 0 and t = 1
     64 eps (1 + amp / sin(theta)^2), rounded up to a power of two, where the documented acos / sin formula is ill-conditioned:
              amp = 1 for mix along an obtuse oriented arc (acos has condition 1/sin(theta), the weights are divided by sin(theta)),
              amp = 4 |t k| for slerp with spin count k (the phase t (theta + k pi) has relative error eps)
     lerp / dual quaternion lerp / compatibility lerp: 4 eps (|x (1-t)| + |y t|), exact at t = 0 and t = 1 *)
EXTENDS GlmInterp, TraceBase
VARIABLE l
vars == <<l>>

\* ---------------------------------------------------------------- small helpers
Res(v, why) == [v |-> v, why |-> why]
ROk == Res(VOk, "")
RSkip == Res(VSkip, "")
RBad(why) == Res(VBad, why)
RKnown(id) == Res(VKnown(id), id)
AllNaNW(ws) == \A i \in 1..Len(ws) : ~ObsFin(ws[i]) /\ (IF Len(ws[i]) = 4 THEN (ws[i][4] % 16) + ws[i][3] + ws[i][2] + ws[i][1] # 0 ELSE (ws[i][2] % 128) + ws[i][1] # 0)
IMax(a, b) == IF a > b THEN a ELSE b
Mb(t) == FmtOfT(t).mb
TolQ(te) == QFromD(DPow2(te))
Oriented(w) == WP(w) = 0 \/ \A jj \in 1..WM(w) : ZSign(ArcAng(w, jj).s) > 0
\* t = num / m within 2 eps (|num| + 1)
TOk(t, w, tw, num) == ObsFin(tw) /\ NearZ(ObsD(tw), ZI(num), NFromNat(WM(w)), QMulInt(TolEps(t, 2), IAbs(num) + 1))

\* sub-judgements are strings: "ok" "skip" "bad" "unstable-mix" "unstable-spin" "zero"
Best(S) == IF "ok" \in S THEN "ok" ELSE IF \E s \in S : s \notin {"bad", "skip"} THEN CHOOSE s \in S : s \notin {"bad", "skip"}
           ELSE IF "skip" \in S THEN "skip" ELSE "bad"
KnownId(s) == CASE s = "unstable-mix" -> "KD-C13-mix-unstable-near-antipodal"
                [] s = "unstable-spin" -> "KD-C13-slerp-spin-unstable-near-parallel"
                [] s = "zero" -> "KD-C13-intermediate-zero-when-exp-angle-below-epsilon"
\* subs: sequence of << name, string >>; first bad wins, then the first known deviation
MinOf(S) == IF S = {} THEN 0 ELSE CHOOSE i \in S : \A k \in S : i <= k
Combine(subs) ==
    LET b == MinOf({i \in 1..Len(subs) : subs[i][2] = "bad"})
        k == MinOf({i \in 1..Len(subs) : subs[i][2] \notin {"ok", "skip", "bad"}})
    IN IF b # 0 THEN RBad(subs[b][1])
       ELSE IF k # 0 THEN RKnown(KnownId(subs[k][2]))
       ELSE IF \A i \in 1..Len(subs) : subs[i][2] = "skip" THEN RSkip ELSE ROk

\* ---------------------------------------------------------------- the arc judgement
\* obs against the point at angle t (theta' + k pi) of the arc from x on the given side (GlmInterp: ArcPt); aj = j psi, th = m psi.
\* kind: "slerp" | "mix" | "spin".   amp = ampN / m.
\*   algoE: 64 eps (1 + amp / sin(theta')^2) rounded up to a power of two -- what the documented acos / sin formula can deliver
\*   condE: 64 eps (1 + amp / sin(theta'))   likewise                     -- what the conditioning of the problem itself allows
\* Where algoE stays below 2^-6 the result must meet it.  Where it does not (mix within ~1e-2 rad [float] / ~1e-6 rad [double] of the
\* antipodal pair; extra spins for pairs that close to parallel, linear-fallback zone included) the formula has lost its accuracy:
\* a result that still meets condE is accepted; any other finite result (and the all-NaN result of mix: acos of a dot product
\* below -1) is the pinned known deviation; Inf, partial NaN, NaN from slerp are rejected.  (The wrong results are the weighted sum
\* k0 x + k1 y with weights of the order 1/sin(theta): their rounding noise leaves the plane of x and y by an unbounded factor,
\* so the pin cannot be narrowed to "in the plane".)
ArcJudge(w, j, t, aj, th, obsW, side, k, kind) ==
    LET m == WM(w)
        obs == ObsSeq(obsW)
        endA == ArcPtAngOf(th, QuarterNum(w, m, 0, side) \div m, side)      \* theta' = angle from x to the end of the arc
        sinZero == ZSign(endA.s) = 0
        ampN == IF kind = "mix" /\ ZSign(endA.c) < 0 THEN m ELSE IF kind = "spin" THEN 4 * IAbs(j * k) ELSE 0
        fallback == NearOne(t, endA.c, endA.h, 8)
        has == HasArcPt(w, j, k, side)
        endpoint == k = 0 /\ (j = 0 \/ j = m)
        s2 == NMul(endA.s.m, endA.s.m)
        algoE == IF ampN = 0 \/ sinZero THEN 6 - Mb(t)
                 ELSE 6 - Mb(t) + Pow2Above(QMk(ZMk(FALSE, NAdd(NMulSmall(s2, m), NMulSmall(NMul(endA.h, endA.h), ampN))), NMulSmall(s2, m)))
        condE == IF ampN = 0 \/ sinZero THEN 6 - Mb(t)
                 ELSE 6 - Mb(t) + Pow2Above(QMk(ZMk(FALSE, NAdd(NMulSmall(endA.s.m, m), NMulSmall(endA.h, ampN))), NMulSmall(endA.s.m, m)))
        unstable == ampN # 0 /\ ~sinZero /\ algoE >= -6
        baseE == IF endpoint THEN 2 - Mb(t) ELSE IF unstable THEN condE ELSE algoE
        gap == IF fallback /\ k = 0 /\ ~endpoint /\ has
               THEN LET a0 == ArcPtAngOf(aj, QuarterNum(w, j, 0, side) \div m, side)
                        big == IMax(IAbs(j), m)
                        hb == NPow(HypN(w), big)
                        up(z, e) == ZMk(z.neg, NMul(z.m, NPow(HypN(w), big - e)))
                        alpha == ZSub(ZAdd(ZMulInt(ZMk(FALSE, hb), m - j), ZMulInt(up(endA.c, m), j)), ZMulInt(up(a0.c, IAbs(j)), m))
                        beta == ZSub(ZMulInt(up(endA.s, m), j), ZMulInt(up(a0.s, IAbs(j)), m))
                    IN QMk(ZMk(FALSE, NAdd(alpha.m, beta.m)), NMulSmall(hb, m))
               ELSE QZero
        tolE == IF QIsZero(gap) THEN baseE
                ELSE LET ge == Pow2Above(gap) IN IF ge <= baseE - 4 THEN baseE ELSE IMax(ge, baseE) + 1
        planeTol == IF sinZero THEN TolEps(t, 64) ELSE QAdd(TolEps(t, 64), TolOverSin(t, 64, endA))
        normTol == TolQ(tolE + 3)
        good == IF has THEN NearPt2(obs, PlanePt(w, ArcPtAngOf(aj, QuarterNum(w, j, k, side) \div m, side)), tolE)
                ELSE /\ InPlane(w, obs, planeTol) /\ UnitNorm(obs, normTol)
                     /\ (k = 0 /\ 0 <= j /\ j <= m => OnArc(w, obs, side, TolQ(IMax(baseE, 6 - Mb(t)))))
    IN IF ~ObsAllFin(obsW)
       THEN (IF unstable /\ kind = "mix" /\ AllNaNW(obsW) THEN "unstable-mix" ELSE "bad")
       ELSE IF good THEN "ok"
       ELSE IF unstable THEN (IF kind = "mix" THEN "unstable-mix" ELSE "unstable-spin")
       ELSE "bad"

\* ---------------------------------------------------------------- functions judged on the logged floating inputs
EpsD(t) == Eps(FmtOfT(t))
TinyD(t) == DPow2(FEmin(FmtOfT(t)) - FmtOfT(t).mb + 2)
\* r = x (1 - t) + y (s t) component by component, within 4 eps of the magnitudes of the two terms; exact at t = 0, t = 1
BlendOK(t, xs, ys, tv, s, rs) ==
    \A i \in 1..Len(rs) :
        LET x == xs[i] y == ys[i] tt == IF Len(tv) = 1 THEN tv[1] ELSE tv[i] IN
        IF DIsZero(tt) THEN DEq(rs[i], x)
        ELSE IF DEq(tt, DOne) THEN DEq(rs[i], IF s < 0 THEN DNeg(y) ELSE y)
        ELSE DNear(rs[i], BlendD(x, y, tt, s), DAdd(DMul(DMul2k(EpsD(t), 2), BlendMagD(x, y, tt)), TinyD(t)))
InUnit(tv) == DSign(tv) >= 0 /\ DLe(tv, DOne)

LerpJ(t, xW, yW, tW, rW, unit) ==
    IF ~(ObsAllFin(xW) /\ ObsAllFin(yW) /\ ObsAllFin(tW)) \/ (unit /\ ~InUnit(ObsD(tW[1]))) THEN "skip"
    ELSE IF ~ObsAllFin(rW) THEN "bad"
    ELSE IF Len(rW) = Len(xW) /\ BlendOK(t, ObsSeq(xW), ObsSeq(yW), ObsSeq(tW), 1, ObsSeq(rW)) THEN "ok" ELSE "bad"

\* normalize(x (1-t) + y t): parallel to the exact blend of the logged inputs, unit length; nothing is demanded when the blend
\* vanishes (relative to its terms) or when its squares underflow
FastMixJ(t, xW, yW, tW, rW) ==
    IF ~(ObsAllFin(xW) /\ ObsAllFin(yW) /\ ObsAllFin(tW)) THEN "skip"
    ELSE LET xs == ObsSeq(xW) ys == ObsSeq(yW) tv == ObsD(tW[1])
             L == [i \in 1..4 |-> BlendD(xs[i], ys[i], tv, 1)]
             mag == DSum([i \in 1..4 |-> BlendMagD(xs[i], ys[i], tv)])
             slack == DMul(DMul2k(EpsD(t), 6), mag)
         IN IF DLe(DSum1(L), slack) \/ DLe(DSum1(L), DPow2(FEmin(FmtOfT(t)) \div 2 + 8)) THEN "skip"
            ELSE IF ~ObsAllFin(rW) THEN "bad"
            ELSE IF IsNormalized(ObsSeq(rW), L, slack, DMul2k(EpsD(t), 3)) THEN "ok" ELSE "bad"

\* dual quaternion lerp: both parts x (1-t) + y (+-t), the sign following the short rotation (sign of the dot product of the
\* real parts; either sign when the exact dot product is within 8 eps of zero)
DqLerp(ev) ==
    IF ~(\A i \in 1..5 : ObsAllFin(ev.a[i])) \/ ~InUnit(ObsD(ev.a[5][1])) THEN RSkip
    ELSE IF ~(ObsAllFin(ev.r) /\ ObsAllFin(ev.rd)) THEN RBad("nan")
    ELSE LET xr == ObsSeq(ev.a[1]) xd == ObsSeq(ev.a[2]) yr == ObsSeq(ev.a[3]) yd == ObsSeq(ev.a[4]) tv == ObsSeq(ev.a[5])
             dt == DDot(xr, yr)
             near0 == DLe(DAbs(dt), DMul(DMul2k(EpsD(ev.t), 3), DSum([i \in 1..4 |-> DAbs(DMul(xr[i], yr[i]))])))
             ok(s) == BlendOK(ev.t, xr, yr, tv, s, ObsSeq(ev.r)) /\ BlendOK(ev.t, xd, yd, tv, s, ObsSeq(ev.rd))
         IN IF ((DSign(dt) >= 0 \/ near0) /\ ok(1)) \/ ((DSign(dt) < 0 \/ near0) /\ ok(-1)) THEN ROk ELSE RBad("dlb")
\* dual quaternion normalize: both parts divided by the length of the real part
DqNorm(ev) ==
    IF ~(ObsAllFin(ev.a[1]) /\ ObsAllFin(ev.a[2])) THEN RSkip
    ELSE LET re == ObsSeq(ev.a[1]) du == ObsSeq(ev.a[2]) r == ObsSeq(ev.r) rd == ObsSeq(ev.rd)
             s == DDot(r, re)                                              \* ~ |re|
         IN IF DIsZero(DSum1(re)) THEN RSkip
            ELSE IF ~(ObsAllFin(ev.r) /\ ObsAllFin(ev.rd)) THEN RBad("nan")
            ELSE IF /\ IsNormalized(r, re, DMul(DMul2k(EpsD(ev.t), 4), DSum1(re)), DMul2k(EpsD(ev.t), 3))
                    /\ \A i \in 1..4 : DNear(DMul(rd[i], s), du[i], DMul(DMul2k(EpsD(ev.t), 4), DAbs(du[i])))
                 THEN ROk ELSE RBad("dqnorm")
Str2Res(s, why) == IF s = "ok" THEN ROk ELSE IF s = "skip" THEN RSkip ELSE RBad(why)

\* ---------------------------------------------------------------- the walk event
\* a = << x, y, -y, t, 1 - t >>;  slerp, rev, mix, short, fast: results for (x, y), (x, -y);  lerp: the same for 0 <= j <= m (else empty)
\* spin: spin counts ks[i] on (x, y);  spinn: spin counts ksn[i] on (x, -y);  qm, ql: slerp and mix of the mediump / lowp instantiations on (x, y)
\* squad: squad(cur_0, cur_m, cur_(m^2), cur_(m^2+m), t) for 0 <= j <= m (acute walks only);  inter: intermediate(cur_(j-pa), cur_j, cur_(j+pb)) for
\* (pa, pb) = (1,1) (1,5) (5,1) (2,2) at some j
InterArgs == << <<1, 1>>, <<1, 5>>, <<5, 1>>, <<2, 2>> >>
WalkEv(ev) ==
    LET w == ev.w j == ev.j t == ev.t IN
    IF ~(WalkOK(w) /\ Oriented(w) /\ j >= 0 - 2 * WM(w) /\ j <= 3 * WM(w)) THEN RSkip
    ELSE IF ~(ObsAllFin(ev.a[1]) /\ ObsAllFin(ev.a[2]) /\ ObsAllFin(ev.a[3]) /\ TOk(t, w, ev.a[4][1], j) /\ TOk(t, w, ev.a[5][1], WM(w) - j)) THEN RBad("input")
    ELSE
    LET m == WM(w)
        aj == ArcAng(w, j)
        th == ArcAng(w, m)
        tie == NCmp(NShl(th.c.m, Mb(t)), NMulSmall(th.h, 8)) <= 0               \* |cos theta| <= 8 eps: the sign test may go either way
        sides == IF tie THEN {1, -1} ELSE {ZSign(th.c)}
        noArc == ZSign(th.s) = 0                                                  \* x = +-y exactly
        J(obsW, side, k, kind) == ArcJudge(w, j, t, aj, th, obsW, side, k, kind)
        Short(obsW, k, kind) == Best({J(obsW, sd, k, kind) : sd \in sides})
        \* slerp(y', x, (m-j)/m): the same point up to sign
        Rev(obsW) ==
            IF ~ObsAllFin(obsW) THEN "bad"
            ELSE IF tie /\ m # 1 THEN "skip"
            ELSE LET obs == ObsSeq(obsW) IN
                 IF \E sd \in sides :
                       LET endA == ArcPtAngOf(th, QuarterNum(w, m, 0, sd) \div m, sd) IN
                       IF HasArcPt(w, j, 0, sd)
                       THEN LET P == PlanePt(w, ArcPtAngOf(aj, QuarterNum(w, j, 0, sd) \div m, sd))
                                te == IF NearOne(t, endA.c, endA.h, 8) THEN IMax(6 - Mb(t), Pow2Above(QAdd(ChordGap(w, j), TolEps(t, 1)))) + 1 ELSE 6 - Mb(t)
                            IN NearPt2(obs, P, te) \/ NearPt2(obs, PtNeg(P), te)
                       ELSE InPlane(w, obs, IF ZSign(endA.s) = 0 THEN TolEps(t, 64) ELSE QAdd(TolEps(t, 64), TolOverSin(t, 64, endA))) /\ UnitNorm(obs, TolEps(t, 512))
                 THEN "ok" ELSE "bad"
        \* shortMix: x for t <= 0, y for t >= 1 (bit for bit), the short arc in between
        ShortMix(obsW, yW) == IF j <= 0 THEN (IF obsW = ev.a[1] THEN "ok" ELSE "bad")
                              ELSE IF j >= m THEN (IF obsW = yW THEN "ok" ELSE "bad")
                              ELSE Short(obsW, 0, "slerp")
        Spin(obsW, k) == IF k < -3 \/ k > 3 \/ (k # 0 /\ noArc) THEN "skip"
                         ELSE IF k = 0 /\ ~(ObsAllFin(obsW) /\ ObsAllFin(ev.slerp[1]) /\ \A i \in 1..4 : DNear(ObsD(obsW[i]), ObsD(ev.slerp[1][i]), DMul2k(EpsD(t), 6))) THEN "bad"
                         ELSE Short(obsW, k, "spin")
        \* squad(cur_0, cur_m, cur_sa, cur_(sa+m), h) with sa = m^2 is mix(cur_j, cur_(j+sa), 2 h (1 - h)) = cur_(j + 2 j (m - j)): q1 at h = 0,
        \* q2 at h = 1; judged when all the angles involved are acute: m^2 psi < pi/2, guaranteed by 4 m^2 p <= 3 q (tan x >= x)
        Squad(obsW) ==
            IF ~(WP(w) > 0 /\ WP(w) < 1048576 /\ (4 * m * m * WP(w) + 2) \div 3 <= WQ(w) /\ 0 <= j /\ j <= m) THEN "skip"
            ELSE IF ~ObsAllFin(obsW) THEN "bad"
            ELSE LET d == 2 * j * (m - j)
                     E == IF d = 0 THEN aj ELSE AngAdd(aj, ArcAng(w, d))
                 IN IF NearPt2(ObsSeq(obsW), PlanePt(w, E), (IF d = 0 THEN 4 ELSE 7) - Mb(t)) THEN "ok" ELSE "bad"
        \* intermediate(cur_(j-pa), cur_j, cur_(j+pb)) = exp(-(log r^pb + log r^-pa)/4) cur_j = cur_(j - (pb-pa)/4); judged when
        \* 2 max(pa, pb) psi < pi (sufficient integer conditions on tan(psi/2) = p/q)
        a1 == ArcAng(w, 1)
        Inter(obsW, pa, pb) ==
            LET big == IMax(pa, pb)
                dom == WP(w) > 0 /\ (IF big = 1 THEN WP(w) < WQ(w) ELSE IF big = 2 THEN WP(w) <= (2 * (WQ(w) \div 5)) ELSE WP(w) <= WQ(w) \div 7)
                d == 0 - ((pb - pa) \div 4)
                E == IF d = 0 THEN aj ELSE AngAdd(aj, ArcAng(w, d))
            IN IF ~dom THEN "skip"
               ELSE IF ObsAllFin(obsW) /\ NearPt2(ObsSeq(obsW), PlanePt(w, E), 6 - Mb(t)) THEN "ok"
               \* exp() returns the zero quaternion instead of the identity when the angle of its argument is below epsilon:
               \* uniform keys (pa = pb), or a step angle with |pb - pa| sin(psi) / 4 < 2 eps
               ELSE IF /\ \A i \in 1..4 : ObsFin(obsW[i]) /\ DIsZero(ObsD(obsW[i]))
                       /\ (pa = pb \/ NCmp(NShl(NMulSmall(a1.s.m, IAbs(pb - pa)), Mb(t)), NMulSmall(a1.h, 8)) < 0)
                    THEN "zero"
               ELSE "bad"
        subs ==
            << <<"slerp", Short(ev.slerp[1], 0, "slerp")>>, <<"slerp(x,-y)", Short(ev.slerp[2], 0, "slerp")>>,
               <<"slerp(y,x,1-t)", Rev(ev.rev[1])>>, <<"slerp(-y,x,1-t)", Rev(ev.rev[2])>>,
               <<"mix", J(ev.mix[1], 1, 0, "mix")>>, <<"mix(x,-y)", IF noArc THEN "skip" ELSE J(ev.mix[2], -1, 0, "mix")>>,
               <<"shortMix", ShortMix(ev.short[1], ev.a[2])>>, <<"shortMix(x,-y)", ShortMix(ev.short[2], ev.a[3])>> >>
            \o [i \in 1..Len(ev.fast) |-> <<"fastMix", FastMixJ(t, ev.a[1], ev.a[1 + i], ev.a[4], ev.fast[i])>>]
            \o [i \in 1..Len(ev.qm) |-> <<"mediump", IF i = 1 THEN Short(ev.qm[1], 0, "slerp") ELSE J(ev.qm[2], 1, 0, "mix")>>]
            \o [i \in 1..Len(ev.ql) |-> <<"lowp", IF i = 1 THEN Short(ev.ql[1], 0, "slerp") ELSE J(ev.ql[2], 1, 0, "mix")>>]
            \o [i \in 1..Len(ev.lerp) |-> <<"lerp", LerpJ(t, ev.a[1], ev.a[1 + i], ev.a[4], ev.lerp[i], TRUE)>>]
            \o [i \in 1..Len(ev.spin) |-> <<"slerp spin", Spin(ev.spin[i], ev.ks[i])>>]
            \o [i \in 1..Len(ev.spinn) |-> <<"slerp spin(x,-y)", Spin(ev.spinn[i], ev.ksn[i])>>]
            \o [i \in 1..Len(ev.squad) |-> <<"squad", Squad(ev.squad[i])>>]
            \o [i \in 1..Len(ev.inter) |-> <<"intermediate", Inter(ev.inter[i], InterArgs[i][1], InterArgs[i][2])>>]
    IN Combine(subs)

\* "points": a[i] is the encoding of cur_(j + i - 1)
Points(ev) ==
    IF ~(WalkOK(ev.w) /\ Oriented(ev.w)) THEN RSkip
    ELSE IF \A i \in 1..Len(ev.a) : ObsAllFin(ev.a[i]) /\ NearPt2(ObsSeq(ev.a[i]), CurPt(ev.w, ev.j + i - 1), 1 - Mb(ev.t)) THEN ROk ELSE RBad("encoding")

Judge(ev) ==
    CASE ev.op = "walk" -> WalkEv(ev)
      [] ev.op = "points" -> Points(ev)
      [] ev.op = "lerpF" -> Str2Res(LerpJ(ev.t, ev.a[1], ev.a[2], ev.a[3], ev.r, TRUE), "blend")
      [] ev.op = "fastMixF" -> Str2Res(FastMixJ(ev.t, ev.a[1], ev.a[2], ev.a[3], ev.r), "nlerp")
      [] ev.op = "clerp" -> Str2Res(LerpJ(ev.t, ev.a[1], ev.a[2], ev.a[3], ev.r, FALSE), "blend")
      [] ev.op = "dqlerp" -> DqLerp(ev)
      [] ev.op = "dqnorm" -> DqNorm(ev)
      [] OTHER -> RBad("op")

Init == l = 1 /\ RegInit
Next == /\ l <= NTrace
        /\ LET ev == TraceLog[l] IN IF IsMarker(ev) THEN Bump(3) ELSE LET jr == Judge(ev) IN Record(l, jr.v, jr.why)
        /\ l' = l + 1
Spec == Init /\ [][Next]_vars
Accepted == Summary
=============================================================================
