----------------------------- MODULE Trace_C10 ----------------------------
(***************************************************************************)
(* Trace specification for inverse / determinant and their variants (C10). *)
(* Stateless: every event is judged on its own against GlmLinAlg.tla.      *)
(*                                                                         *)
(* "suite" events carry one matrix M (n x n, n = 2..4), a partner matrix   *)
(* B, a vector v and everything GLM computed from them: determinant(M),    *)
(* determinant(transpose(M)), inverse, inverseTranspose, adjugate, B / M,  *)
(* B /= M, M / v, v / M, B * M and determinant(B * M), affineInverse of    *)
(* the affine embedding [M v; 0 1] (n <= 3) and affineInverse(M) (n >= 3). *)
(*                                                                         *)
(* Exact mode -- M, B, v small integers and det(M) = +-1 (the unimodular   *)
(* inputs of the property, "all of these are exact"): every component must *)
(* equal the exact integer result (native-integer layer LI..).             *)
(* Tolerance mode -- any other finite M whose exact infinity-norm          *)
(* condition number kappa is at most 1e4 (float) / 1e8 (double) and whose  *)
(* entries lie in [2^-40, 2^40] (no overflow / underflow in the cofactor   *)
(* products): with eps = 2^-23 / 2^-52                                     *)
(*     |det - exact|            <= CTol kappa eps |exact|                  *)
(*     |inverse_ij - exact_ij|  <= CTol kappa eps max|exact|   (also       *)
(*         inverseTranspose, affineInverse, adjugate, and the quotients    *)
(*         with max |B| |inverse| as the scale)                            *)
(*     |inv M - I|, |M inv - I| <= CTol kappa eps, formed by the spec from *)
(*         the LOGGED inverse                                              *)
(* Everything else (singular, ill-conditioned, non-finite) constrains      *)
(* nothing.  A result that violates the kappa bound but lies inside the    *)
(* forward-error envelope of the cofactor expansion itself (k eps times    *)
(* the permanent-type sum of the absolute values of the terms) is the      *)
(* known deviation KD-C10-cofactor-cancellation -- see notes/C10-notes.md. *)
(***************************************************************************)
EXTENDS GlmLinAlg, TraceBase
VARIABLE l
vars == <<l>>

CTol == 16                 \* the constant of the kappa-proportional bound
CEnv == 16                 \* the constant of the cofactor forward-error envelope
CondMax(t) == IF t = "f32" THEN QI(10000) ELSE QI(100000000)
EpsQ(f) == QFromD(Eps(f))
Sq(ws) == LAQSeqOfW(ws)                         \* observed components as exact rationals (fast decoder of GlmLinAlg)
\* Observed values are unreduced dyadic fractions p / 2^j with a different j per component; sums of such values multiply
\* their denominators (Exact!QAdd does not reduce).  Inputs that enter sums and products are therefore brought to ONE
\* common power-of-two denominator first (same values): all sums below then stay on a common denominator.
Nrm(s) == LALet1(s, LAMBDA t : LALet1(LASeqExp(t), LAMBDA k : LASeqMul2k(LASeqUp(t, k), -k)))
SqN(ws) == Nrm(Sq(ws))
\* magnitude window of the inputs of the tolerance mode: 0 or 2^-40 <= |x| <= 2^40
Pow40 == QFromD(DPow2(40))
PowM40 == QFromD(DPow2(-40))
InWindow(s) == \A i \in 1..Len(s) : QIsZero(s[i]) \/ (QLe(PowM40, QAbs(s[i])) /\ QLe(QAbs(s[i]), Pow40))

\* ---- part verdicts: "ok" | "bad" | "skip" | "kd"
KDIds == {"KD-C10-cofactor-cancellation", "KD-C10-inverseTranspose-mat2-untransposed"}
Fold(parts) ==        \* parts: sequence of <<name, status>>, status = "ok" | "bad" | "skip" | a known-deviation id
    LALet1(parts, LAMBDA p :
      LET bad == {i \in 1..Len(p) : p[i][2] = "bad"}
          kd == {i \in 1..Len(p) : p[i][2] \in KDIds}
      IN IF bad # {} THEN [v |-> "bad", id |-> "", info |-> p[CHOOSE i \in bad : \A j \in bad : i <= j][1]]
         ELSE IF kd # {} THEN LET i == CHOOSE i \in kd : \A j \in kd : i <= j IN [v |-> "known", id |-> p[i][2], info |-> p[i][1]]
         ELSE IF \A i \in 1..Len(p) : p[i][2] = "skip" THEN [v |-> "skip", id |-> "", info |-> ""]
         ELSE [v |-> "ok", id |-> "", info |-> ""])
Skip == [v |-> "skip", id |-> "", info |-> ""]
Bad(info) == [v |-> "bad", id |-> "", info |-> info]

\* ---------------------------------------------------------------- suite, exact mode (native integers)
ExactPart(ev, key, exp) == IF ~Has(ev, key) THEN "skip" ELSE IF LISmallInts(ev[key]) = exp THEN "ok" ELSE "bad"
SuiteExact(ev, n, M, B, v) ==
    \* M, B, v: explicit integer tuples, det(M) = +-1
    LALet2(LIDet(M, n), LIAdj(M, n), LAMBDA det, adj :
    LALet2(LIScale(adj, det), LIMul(B, M, n), LAMBDA inv, P :
    LALet1(LIMul(B, inv, n), LAMBDA bdm :
      Fold(<< <<"det", ExactPart(ev, "det", <<det>>)>>,
              <<"detT", ExactPart(ev, "detT", <<det>>)>>,
              <<"inv", ExactPart(ev, "inv", inv)>>,
              <<"invT", LALet1(ExactPart(ev, "invT", LITranspose(inv, n)), LAMBDA st :
                          \* known deviation: the 2x2 inverseTranspose returns the inverse itself (not transposed)
                          IF st = "bad" /\ n = 2 /\ LISmallInts(ev.invT) = inv THEN "KD-C10-inverseTranspose-mat2-untransposed" ELSE st)>>,
              <<"adj", ExactPart(ev, "adj", adj)>>,
              <<"bdm", ExactPart(ev, "bdm", bdm)>>,
              <<"bdme", ExactPart(ev, "bdme", bdm)>>,
              <<"mdv", ExactPart(ev, "mdv", LIMulVec(inv, v, n))>>,
              <<"vdm", ExactPart(ev, "vdm", LIVecMul(v, inv, n))>>,
              <<"P", ExactPart(ev, "P", P)>>,
              <<"detP", ExactPart(ev, "detP", <<LIDet(B, n) * det>>)>>,
              <<"ainv", IF ~Has(ev, "A") THEN "skip"
                        ELSE LALet1(LISmallInts(ev.A), LAMBDA A :
                               IF ~(LIAllSmall(A, 64) /\ LIIsAffine(A, n + 1) /\ LILinearPart(A, n + 1) = M) THEN "bad"
                               ELSE ExactPart(ev, "ainv", LIAffineInverseUni(A, n + 1)))>>,
              <<"ainvM", IF ~Has(ev, "ainvM") \/ ~LIIsAffine(M, n) THEN "skip" ELSE ExactPart(ev, "ainvM", inv)>> >>))))

\* ---------------------------------------------------------------- suite, tolerance mode (exact, on scaled integers)
\* All quantities are kept as INTEGERS with explicit denominators (rationals with denominator 1 are cheap in Exact.tla;
\* cross-multiplying unreduced fractions with 100-bit denominators in every comparison is not):
\*   M = Mi / 2^k, B = Bi / 2^kB, v = vi / 2^kv  (Mi, Bi, vi integer), D = |det Mi|, sD = sign, adjI = adj(Mi)
\*   inverse(M) = sD adjI 2^k / D,  adj(M) = adjI / 2^((n-1)k),  det(M) = sD D / 2^(nk)
\*   kappa = NM NA / D with NM = |Mi|_inf, NA = |adjI|_inf
\* An observed sequence is o_i / 2^j (o_i integer).  |o_i / 2^j - num_i / den| <= tn / td  <=>  |o_i den - num_i 2^j| td <= tn den 2^j.
Pow2Q(k) == QFromD(DPow2(k))                                       \* k >= 0: an integer
Shl(q, k) == LAQMul2k(q, k)                                        \* q * 2^k by shifting (k >= 0, q integer)
ObsInt(ws) == LALet1(Sq(ws), LAMBDA t : LALet1(LASeqExp(t), LAMBDA j : [j |-> j, o |-> LASeqUp(t, j)]))
SeqInt(s) == LALet1(s, LAMBDA t : LALet1(LASeqExp(t), LAMBDA j : [j |-> j, o |-> LASeqUp(t, j)]))      \* s = o / 2^j
\* exact_i = num_i / (den 2^dk), tolerance_i = tn_i / (tdc den 2^tk)   (all integers, den, tdc > 0; tn a sequence or one value):
\*   |o_i / 2^j - exact_i| <= tolerance_i   <=>   |o_i den 2^dk - num_i 2^j| tdc 2^tk <= tn_i 2^(dk + j)
NearInt1(o, j, num, den, dk, tn, tdc, tk) ==
    QLe(Shl(QMul(QAbs(QSub(Shl(QMul(o, den), dk), Shl(num, j))), tdc), tk), Shl(tn, dk + j))
IntPart(ev, key, num, den, dk, tn, tdc, tk) ==
    IF ~Has(ev, key) THEN "skip" ELSE IF ~LAAllFin(ev[key]) THEN "bad"
    ELSE LALet3(ObsInt(ev[key]), num, <<den, tn, tdc>>, LAMBDA ob, nu, p :
           IF Len(ob.o) = Len(nu) /\ \A i \in 1..Len(nu) : NearInt1(ob.o[i], ob.j, nu[i], p[1], dk, p[2], p[3], tk) THEN "ok" ELSE "bad")
\* a part that may fall back on the cofactor envelope: the same shape with per-component numerators envN[i]
IntPartEnv(ev, key, num, den, dk, tn, tdc, tk, envN) ==
    LALet1(IntPart(ev, key, num, den, dk, tn, tdc, tk), LAMBDA st :
      IF st # "bad" \/ ~LAAllFin(ev[key]) THEN st
      ELSE LALet3(ObsInt(ev[key]), num, <<den, envN, tdc>>, LAMBDA ob, nu, p :
             IF Len(ob.o) = Len(nu) /\ \A i \in 1..Len(nu) : NearInt1(ob.o[i], ob.j, nu[i], p[1], dk, p[2][i], p[3], tk)
             THEN "KD-C10-cofactor-cancellation" ELSE "bad"))
SeqT(s, n) == LAForceSeq([k \in 1..(n * n) |-> s[(((k - 1) % n)) * n + ((k - 1) \div n) + 1]])       \* transpose of a column-major n x n sequence
SeqScale(s, x) == LALet2(s, x, LAMBDA t, y : LAForceSeq([i \in 1..Len(t) |-> QMul(t[i], y)]))
AbsSeq(s) == LALet1(s, LAMBDA t : LAForceSeq([i \in 1..Len(t) |-> QAbs(t[i])]))
C16 == QI(CTol)

SuiteTol(ev, f, n, M, B, v) ==
    LALet3(SeqInt(M.e), SeqInt(B.e), SeqInt(v), LAMBDA sm, sb, sv :
    LALet3(Mat(n, n, sm.o), Mat(n, n, sb.o), sv.o, LAMBDA Mi, Bi, vi :
    LALet2(MDet(Mi), LAAdjugate(Mi), LAMBDA detI, adjI :
    IF QIsZero(detI) THEN Skip ELSE
    LALet3(QAbs(detI), QI(QSign(detI)), <<sm.j, sb.j, sv.j>>, LAMBDA D, sD, ks :
    LALet3(LANormInf(Mi), LANormInf(adjI), LAMaxAbs(adjI), LAMBDA NM, NA, amax :
    \* kappa = NM NA / D <= CondMax
    IF ~QLe(QMul(NM, NA), QMul(CondMax(ev.t), D)) THEN Skip ELSE
    LALet3(ks[1], f.mb, QMul(C16, QMul(NM, NA)), LAMBDA k, mb, CK :                 \* CK = CTol * NM * NA  (CTol kappa = CK / D)
    LALet3(SeqScale(adjI.e, sD), LAMul(Bi, adjI), LAMul(LAAbs(Bi), LAAbs(adjI)), LAMBDA invS, BA, BAabs :
    LALet2(SeqScale(invS, Pow2Q(k)), QI(1), LAMBDA invN, one :                      \* inverse(M) = invN / D
    \* the cofactor envelope, evaluated only when the kappa bound fails: with P = permanent of |Mi| and Pa = permanent-
    \* adjugate of |Mi| the computed cofactor / determinant carry errors <= c eps Pa_ij / c eps P, hence
    \*   |inverse_ij - exact_ij| <= CEnv eps 2^k (Pa_ij D + |adjI_ij| P) / D^2   and   |det - exact| <= CEnv eps P / 2^(nk)
    LET Pm == LAPerm(LAAbs(Mi))
        envInvN == LALet2(LAPermAdj(LAAbs(Mi)), Pm, LAMBDA pa, pm : LAForceSeq([i \in 1..(n * n) |->
                       Shl(QMulInt(QAdd(QMul(pa.e[i], D), QMul(QAbs(adjI.e[i]), pm)), CEnv), k)]))
        envMat == Mat(n, n, envInvN)
        envMax == LAMaxAbs(envMat)
        invTn == Shl(QMul(CK, amax), k)                                             \* inverse family: tolerance invTn / (D D 2^mb)
        \* quotients: an entry error e of the inverse enters B X, X v, v X with the weights |B|, |v|:
        \* tolerance CTol kappa eps max|X| * (|B|_inf resp. |v|_1); the envelope is propagated the same way
        nB == LANormInf(Bi)
        v1 == QSum(AbsSeq(vi))
    IN
    Fold(<< <<"det", IntPartEnv(ev, "det", <<QMul(sD, D)>>, one, n * k, CK, one, mb + n * k, <<QMulInt(Pm, CEnv)>>)>>,
            <<"detT", IntPartEnv(ev, "detT", <<QMul(sD, D)>>, one, n * k, CK, one, mb + n * k, <<QMulInt(Pm, CEnv)>>)>>,
            <<"inv", IntPartEnv(ev, "inv", invN, D, 0, invTn, D, mb, envInvN)>>,
            <<"invT", LALet1(IntPartEnv(ev, "invT", SeqT(invN, n), D, 0, invTn, D, mb, SeqT(envInvN, n)), LAMBDA st :
                        \* known deviation: the 2x2 inverseTranspose returns the inverse itself (not transposed)
                        IF st = "bad" /\ n = 2 /\ IntPart(ev, "invT", invN, D, 0, invTn, D, mb) = "ok"
                        THEN "KD-C10-inverseTranspose-mat2-untransposed" ELSE st)>>,
            \* residuals formed from the LOGGED inverse: |inv M - I|, |M inv - I| <= CTol kappa eps; when that fails, the
            \* consequence of the cofactor envelope of the entries: n max|M| max(envelope)
            <<"res", IF ~Has(ev, "inv") \/ ~LAAllFin(ev.inv) THEN "skip"
                     ELSE LALet3(Mat(n, n, Sq(ev.inv)), QDiv(CK, Shl(D, mb)), <<0>>, LAMBDA X, tol, dummy :
                          LALet2(LAResidual(X, M, MIdentity(n)), LAResidual(M, X, MIdentity(n)), LAMBDA r1, r2 :
                            IF QLe(r1, tol) /\ QLe(r2, tol) THEN "ok"
                            ELSE LALet1(QDiv(QMulInt(QMul(envMax, LAMaxAbs(M)), n), Shl(QMul(D, D), mb)), LAMBDA etol :
                                   IF QLe(r1, etol) /\ QLe(r2, etol) THEN "KD-C10-cofactor-cancellation" ELSE "bad")))>>,
            <<"adj", IntPartEnv(ev, "adj", adjI.e, one, (n - 1) * k, QMul(CK, amax), D, mb + (n - 1) * k,
                                SeqScale(LAPermAdj(LAAbs(Mi)).e, QMulInt(D, CEnv)))>>,
            <<"bdm", IntPartEnv(ev, "bdm", SeqScale(BA.e, Shl(sD, k)), D, ks[2], QMul(invTn, nB), D, mb + ks[2],
                                SeqScale(LAMul(LAAbs(Bi), envMat).e, QI(2)))>>,
            <<"bdme", IntPartEnv(ev, "bdme", SeqScale(BA.e, Shl(sD, k)), D, ks[2], QMul(invTn, nB), D, mb + ks[2],
                                 SeqScale(LAMul(LAAbs(Bi), envMat).e, QI(2)))>>,
            <<"mdv", IntPartEnv(ev, "mdv", SeqScale(LAMulVec(adjI, vi), Shl(sD, k)), D, ks[3], QMul(invTn, v1), D, mb + ks[3],
                                SeqScale(LAMulVec(envMat, AbsSeq(vi)), QI(2)))>>,
            <<"vdm", IntPartEnv(ev, "vdm", SeqScale(LAVecMul(vi, adjI), Shl(sD, k)), D, ks[3], QMul(invTn, v1), D, mb + ks[3],
                                SeqScale(LAVecMul(AbsSeq(vi), envMat), QI(2)))>>,
            <<"P", IntPart(ev, "P", LAMul(Bi, Mi).e, one, ks[2] + k, QMulInt(LAMaxAbs(LAMul(LAAbs(Bi), LAAbs(Mi))), 4), one, mb + ks[2] + k)>>,
            <<"detP", IF ~Has(ev, "detP") THEN "skip"
                      ELSE LALet2(MDet(Bi), LAAdjugate(Bi), LAMBDA detB, adjB :
                             IF QIsZero(detB) THEN "skip"
                             ELSE LALet2(QMul(LANormInf(Bi), LANormInf(adjB)), QAbs(detB), LAMBDA KB, DB :      \* kappa(B) = KB / DB
                                    IF ~QLe(QMul(QMul(NM, NA), KB), QMul(CondMax(ev.t), QMul(D, DB))) THEN "skip"
                                    ELSE \* exact det(B) det(M) = detB sD D / 2^(n (kB + k)); tolerance 2 CTol kappa(M) kappa(B) eps |value|
                                         \* envelope: (CEnv + n) eps permanent(|B| |M|)  (cofactor sum + rounding of the entries of B M)
                                         IntPartEnv(ev, "detP", <<QMul(detB, QMul(sD, D))>>, one, n * (ks[2] + k),
                                                    QMulInt(QMul(CK, KB), 2), one, mb + n * (ks[2] + k),
                                                    <<QMulInt(LAPerm(LAMul(LAAbs(Bi), LAAbs(Mi))), CEnv + n)>>)))>>,
            <<"ainv", IF ~Has(ev, "A") \/ ~Has(ev, "ainv") THEN "skip" ELSE IF ~LAAllFin(ev.A) THEN "skip"
                      ELSE LALet1(Mat(n + 1, n + 1, SqN(ev.A)), LAMBDA A :
                             IF ~(LAIsAffine(A) /\ LAMatEq(LALinearPart(A), M) /\ InWindow(A.e)) THEN "skip"
                             ELSE \* t = ti / 2^kt;  inverse(A) = [X  -X t; 0 1] with X = sD adjI 2^k / D: numerators AXn over D 2^kt
                                  LALet2(SeqInt(LATranslation(A)), SeqInt(A.e), LAMBDA st, sa :
                                  LALet2(Shl(D, st.j), LAMulVec(adjI, st.o), LAMBDA Dn, at :
                                  LALet1(LAForce(MFromFn(n + 1, n + 1, LAMBDA c, r :
                                             IF r = n + 1 THEN (IF c = n + 1 THEN Dn ELSE QZero)
                                             ELSE IF c = n + 1 THEN QNeg(Shl(QMul(at[r], sD), k))
                                             ELSE Shl(QMul(MAt(adjI, c, r), sD), k + st.j))), LAMBDA AXn :
                                  \* kappa(A) = |Ai|_inf |AXn|_inf / (2^kA D 2^kt); tolerance CTol kappa(A) eps max|AXn| / (D 2^kt)
                                  LALet1(QMul(LANormInf(Mat(n + 1, n + 1, sa.o)), LANormInf(AXn)), LAMBDA KAn :
                                    IF ~QLe(KAn, QMul(CondMax(ev.t), Shl(D, sa.j + st.j))) THEN "skip"
                                    ELSE \* envelope: entries of X as for the inverse, translation column |envelope| |t| (twice, for the product)
                                         IntPartEnv(ev, "ainv", AXn.e, D, st.j, QMul(C16, QMul(KAn, LAMaxAbs(AXn))), D, mb + sa.j + 2 * st.j,
                                             LALet1(LAMulVec(envMat, AbsSeq(st.o)), LAMBDA et :
                                               LAForce(MFromFn(n + 1, n + 1, LAMBDA c, r :
                                                   IF r = n + 1 THEN QZero
                                                   ELSE IF c = n + 1 THEN Shl(QMulInt(et[r], 2), sa.j + st.j)
                                                   ELSE Shl(MAt(envMat, c, r), sa.j + 2 * st.j))).e)))))))>>,
            <<"ainvM", IF ~Has(ev, "ainvM") \/ ~LAIsAffine(M) THEN "skip" ELSE IntPartEnv(ev, "ainvM", invN, D, 0, invTn, D, mb, envInvN)>> >>)))))))))

Suite(ev) ==
    LALet3(LISmallInts(ev.a[1]), LISmallInts(ev.a[2]), LISmallInts(ev.a[3]), LAMBDA Mi, Bi, vi :
      IF LIAllSmall(Mi, 64) /\ LIAllSmall(Bi, 64) /\ LIAllSmall(vi, 64) /\ LIDet(Mi, ev.n) \in {-1, 1}
      THEN SuiteExact(ev, ev.n, Mi, Bi, vi)
      ELSE IF ~(LAAllFin(ev.a[1]) /\ LAAllFin(ev.a[2]) /\ LAAllFin(ev.a[3])) THEN Skip
      ELSE LALet3(Mat(ev.n, ev.n, SqN(ev.a[1])), Mat(ev.n, ev.n, SqN(ev.a[2])), SqN(ev.a[3]), LAMBDA M, B, v :
             IF ~(InWindow(M.e) /\ InWindow(B.e) /\ InWindow(v)) THEN Skip
             ELSE SuiteTol(ev, TypeFmt(ev.t), ev.n, M, B, v)))

\* ---------------------------------------------------------------- scalar / matrix, matrix / scalar : component-wise, correctly rounded
SDiv(ev) ==
    LET f == TypeFmt(ev.t) IN
    LALet2(Fields(f, ev.a[1][1]), Sq(ev.a[2]), LAMBDA sf, M :
      IF ~IsFinite(f, sf) \/ ~LAAllFin(ev.a[2]) THEN Skip ELSE
      LALet1(QFromD(Val(f, sf)), LAMBDA s :
        LET comp(i) == LET num == IF ev.op = "s/m" THEN s ELSE M[i] den == IF ev.op = "s/m" THEN M[i] ELSE s
                       IN IF QIsZero(den) THEN "skip"
                          ELSE IF IsNaN(f, Fields(f, ev.r[i])) THEN "bad"
                          ELSE IF IsRNEQ(f, Fields(f, ev.r[i]), QDiv(num, den)) THEN "ok" ELSE "bad"
        IN Fold(LAForceSeq([i \in 1..Len(M) |-> <<ev.op, comp(i)>>]))))

\* ---------------------------------------------------------------- diagonal builders and flips: bit patterns
ZeroW(t) == IF t = "f32" THEN <<0, 0>> ELSE <<0, 0, 0, 0>>
Diag(ev) ==
    LET C == ev.c R == ev.r0 vv == ev.a[1] IN
    IF Len(ev.r) # C * R THEN Bad("diag:shape")
    ELSE IF \A k \in 1..(C * R) : LET c == ((k - 1) \div R) + 1 r == ((k - 1) % R) + 1
                                   IN ev.r[k] = (IF c = r /\ c <= Len(vv) THEN vv[c] ELSE ZeroW(ev.t))
         THEN VOk ELSE Bad("diag")
Flip(ev) ==
    LET C == ev.c R == ev.r0 m == ev.a[1] IN
    IF Len(ev.r) # C * R THEN Bad("flip:shape")
    ELSE IF \A k \in 1..(C * R) : LET c == ((k - 1) \div R) + 1 r == ((k - 1) % R) + 1
                                   IN ev.r[k] = (IF ev.op = "fliplr" THEN m[(C - c) * R + r] ELSE m[(c - 1) * R + (R + 1 - r)])
         THEN VOk ELSE Bad(ev.op)

\* ---------------------------------------------------------------- gtx/matrix_query
\* guard band: 64 eps relative around the threshold (length() / dot() of at most 4 terms carry a few ulp)
Query(ev) ==
    LET f == TypeFmt(ev.t) IN
    IF ~LAAllFin(ev.a[1]) \/ ~LAAllFin(ev.a[2]) THEN Skip ELSE
    LALet3(Mat(ev.c, ev.r0, SqN(ev.a[1])), LAQOfW(ev.a[2][1]), QMulInt(EpsQ(f), 64), LAMBDA M, eps, rel :
      IF QSign(eps) < 0 \/ ~InWindow(M.e) THEN Skip ELSE
      LALet1(CASE ev.op = "isNull" -> LAIsNullM(M, eps, rel)
               \* isIdentity compares single entries: |m_ij| <= eps has no rounding at all, and m_ii - 1 is exact for
               \* 1/2 <= m_ii <= 2 (Sterbenz): then the comparison is decided exactly, ties included (no guard band)
               [] ev.op = "isIdentity" ->
                    LAIsIdentityM(M, eps, IF \A i \in 1..(IF M.c < M.r THEN M.c ELSE M.r) : QLe(QF(1, 2), MAt(M, i, i)) /\ QLe(MAt(M, i, i), QI(2))
                                          THEN QZero ELSE rel)
               [] ev.op = "isNormalized" -> LAIsNormalizedM(M, eps, rel)
               [] ev.op = "isOrthogonal" -> LAIsOrthogonalM(M, eps, rel), LAMBDA want :
        IF want = "U" THEN Skip
        ELSE IF (ev.r[1] = <<1>>) = (want = "T") THEN VOk ELSE Bad(ev.op)))

\* ---------------------------------------------------------------- QR / RQ: postconditions of the documentation
\* qr_decompose(in, q, r): columns of q orthonormal, r upper triangular, q r = in
\* rq_decompose(in, r, q): rows of q orthonormal, r upper triangular (diagonal anchored lower-right), r q = in
\* kappa: cond(in) for square inputs, cond of the Gram matrix of the leading min(C,R) columns (rows for RQ) otherwise
CQR == 32
Factor(ev) ==
    LET f == TypeFmt(ev.t) C == ev.c R == ev.r0 mn == IF C < R THEN C ELSE R isQR == ev.op = "qr" IN
    IF ~LAAllFin(ev.a[1]) THEN Skip ELSE
    LALet1(Mat(C, R, SqN(ev.a[1])), LAMBDA M :
      IF ~InWindow(M.e) THEN Skip ELSE
      LALet1(IF C = R THEN M
             ELSE IF isQR THEN LALet1(LAForce(MFromFn(mn, R, LAMBDA c, r : MAt(M, c, r))), LAMBDA K : LAMMulD(LATranspose(K), K))
             ELSE LALet1(LAForce(MFromFn(C, mn, LAMBDA c, r : MAt(M, c, R - mn + r))), LAMBDA K : LAMMulD(K, LATranspose(K))), LAMBDA G :
      LALet1(LASeqExp(G.e), LAMBDA k :
      LALet1(LAMatUp(G, k), LAMBDA Gi :
      LALet1(MDet(Gi), LAMBDA dG :
      IF QIsZero(dG) THEN Skip ELSE
      LALet1(LACond(Gi, LAInverse(Gi)), LAMBDA kap :
      IF ~QLe(kap, CondMax(ev.t)) THEN Skip
      ELSE IF ~(LAAllFin(ev.qm) /\ LAAllFin(ev.rm)) THEN Bad(ev.op \o ":finite")
      ELSE LALet3(IF isQR THEN Mat(mn, R, Sq(ev.qm)) ELSE Mat(C, mn, Sq(ev.qm)),
                  IF isQR THEN Mat(C, mn, Sq(ev.rm)) ELSE Mat(mn, R, Sq(ev.rm)),
                  QMul(QMulInt(EpsQ(f), CQR), kap), LAMBDA Qm, Rm, tolO :
             IF ~(IF isQR THEN LAIsUpperTri(Rm) ELSE LAIsUpperTriLR(Rm)) THEN Bad(ev.op \o ":triangular")
             ELSE IF ~QLe(IF isQR THEN LAColOrthoDefect(Qm) ELSE LARowOrthoDefect(Qm), tolO) THEN Bad(ev.op \o ":orthonormal")
             ELSE IF ~QLe(IF isQR THEN LAResidual(Qm, Rm, M) ELSE LAResidual(Rm, Qm, M),
                          QMul(QMulInt(EpsQ(f), CQR * 4), LAMaxAbs(M))) THEN Bad(ev.op \o ":product")
             ELSE VOk)))))))

Verdict(ev) ==
    CASE ev.op = "suite" -> Suite(ev)
      [] ev.op \in {"s/m", "m/s", "m/=s"} -> SDiv(ev)
      [] ev.op = "diag" -> Diag(ev)
      [] ev.op \in {"fliplr", "flipud"} -> Flip(ev)
      [] ev.op \in {"isNull", "isIdentity", "isNormalized", "isOrthogonal"} -> Query(ev)
      [] ev.op \in {"qr", "rq"} -> Factor(ev)
      [] OTHER -> Bad("unknown op")

Info(ev, v) == IF Has(v, "info") /\ v.info # "" THEN ev.op \o ":" \o v.info ELSE ev.op
Init == l = 1 /\ RegInit
Next == /\ l <= NTrace
        /\ LET ev == TraceLog[l] IN IF IsMarker(ev) THEN Bump(3) ELSE \A v \in {Verdict(ev)} : Record(l, v, Info(ev, v))
        /\ l' = l + 1
Spec == Init /\ [][Next]_vars
Accepted == Summary
=============================================================================
