----------------------------- MODULE Trace_C10 ----------------------------
(***************************************************************************)
(* Trace specification for inverse / determinant and their variants (C10). *)
(* Stateless: every event is judged on its own against GlmLinAlg.tla.      *)
(*                                                                         *)
(* "suite" events carry one matrix M (n x n, n = 2..4), a partner matrix   *)
(* B, a vector v and everything GLM computed from them: determinant(M),    *)
(* determinant(transpose(M)), inverse, inverseTranspose, adjugate, B / M,  *)
(* B /= M, M / v, v / M, B * M and determinant(B * M), affineInverse of    *)
(* the affine embedding [M v; 0 1] (n <= 3) and affineInverse(M) (n >= 3). *)
(*                                                                         *)
(* Exact mode -- M, B, v small integers and det(M) = +-1 (the unimodular   *)
(* inputs of the property, "all of these are exact"): every component must *)
(* equal the exact integer result (native-integer layer LI..).             *)
(* Tolerance mode -- any other finite M whose exact infinity-norm          *)
(* condition number kappa is at most 1e4 (float) / 1e8 (double) and whose  *)
(* entries lie in [2^-40, 2^40] (no overflow / underflow in the cofactor   *)
(* products): with eps = 2^-23 / 2^-52                                     *)
(*     |det - exact|            <= CTol kappa eps |exact|                  *)
(*     |inverse_ij - exact_ij|  <= CTol kappa eps max|exact|   (also       *)
(*         inverseTranspose, affineInverse, adjugate, and the quotients    *)
(*         with max |B| |inverse| as the scale)                            *)
(*     |inv M - I|, |M inv - I| <= CTol kappa eps, formed by the spec from *)
(*         the LOGGED inverse                                              *)
(* Everything else (singular, ill-conditioned, non-finite) constrains      *)
(* nothing.  A result that violates the kappa bound but lies inside the    *)
(* forward-error envelope of the cofactor expansion itself (k eps times    *)
(* the permanent-type sum of the absolute values of the terms) is the      *)
(* known deviation KD-C10-cofactor-cancellation -- see notes/C10-notes.md. *)
(***************************************************************************)
EXTENDS GlmLinAlg, TraceBase
VARIABLE l
vars == <<l>>

CTol == 16                 \* the constant of the kappa-proportional bound
CEnv == 16                 \* the constant of the cofactor forward-error envelope
CondMax(t) == IF t = "f32" THEN QI(10000) ELSE QI(100000000)
EpsQ(f) == QFromD(Eps(f))
Sq(ws) == LAForceSeq(QSeq(ws))
\* magnitude window of the inputs of the tolerance mode: 0 or 2^-40 <= |x| <= 2^40
Pow40 == QFromD(DPow2(40))
PowM40 == QFromD(DPow2(-40))
InWindow(s) == \A i \in 1..Len(s) : QIsZero(s[i]) \/ (QLe(PowM40, QAbs(s[i])) /\ QLe(QAbs(s[i]), Pow40))

\* ---- part verdicts: "ok" | "bad" | "skip" | "kd"
Fold(parts) ==        \* parts: sequence of <<name, status>>
    LALet1(parts, LAMBDA p :
      LET bad == {i \in 1..Len(p) : p[i][2] = "bad"}
          kd == {i \in 1..Len(p) : p[i][2] = "kd"}
      IN IF bad # {} THEN [v |-> "bad", id |-> "", info |-> p[CHOOSE i \in bad : \A j \in bad : i <= j][1]]
         ELSE IF kd # {} THEN [v |-> "known", id |-> "KD-C10-cofactor-cancellation", info |-> p[CHOOSE i \in kd : TRUE][1]]
         ELSE IF \A i \in 1..Len(p) : p[i][2] = "skip" THEN [v |-> "skip", id |-> "", info |-> ""]
         ELSE [v |-> "ok", id |-> "", info |-> ""])
Skip == [v |-> "skip", id |-> "", info |-> ""]
Bad(info) == [v |-> "bad", id |-> "", info |-> info]

\* ---------------------------------------------------------------- suite, exact mode (native integers)
ExactPart(ev, key, exp) == IF ~Has(ev, key) THEN "skip" ELSE IF LISmallInts(ev[key]) = exp THEN "ok" ELSE "bad"
SuiteExact(ev, n, M, B, v) ==
    \* M, B, v: explicit integer tuples, det(M) = +-1
    LALet2(LIDet(M, n), LIAdj(M, n), LAMBDA det, adj :
    LALet2(LIScale(adj, det), LIMul(B, M, n), LAMBDA inv, P :
    LALet1(LIMul(B, inv, n), LAMBDA bdm :
      Fold(<< <<"det", ExactPart(ev, "det", <<det>>)>>,
              <<"detT", ExactPart(ev, "detT", <<det>>)>>,
              <<"inv", ExactPart(ev, "inv", inv)>>,
              <<"invT", ExactPart(ev, "invT", LITranspose(inv, n))>>,
              <<"adj", ExactPart(ev, "adj", adj)>>,
              <<"bdm", ExactPart(ev, "bdm", bdm)>>,
              <<"bdme", ExactPart(ev, "bdme", bdm)>>,
              <<"mdv", ExactPart(ev, "mdv", LIMulVec(inv, v, n))>>,
              <<"vdm", ExactPart(ev, "vdm", LIVecMul(v, inv, n))>>,
              <<"P", ExactPart(ev, "P", P)>>,
              <<"detP", ExactPart(ev, "detP", <<LIDet(B, n) * det>>)>>,
              <<"ainv", IF ~Has(ev, "A") THEN "skip"
                        ELSE LALet1(LISmallInts(ev.A), LAMBDA A :
                               IF ~(LIAllSmall(A, 64) /\ LIIsAffine(A, n + 1) /\ LILinearPart(A, n + 1) = M) THEN "bad"
                               ELSE ExactPart(ev, "ainv", LIAffineInverseUni(A, n + 1)))>>,
              <<"ainvM", IF ~Has(ev, "ainvM") \/ ~LIIsAffine(M, n) THEN "skip" ELSE ExactPart(ev, "ainvM", inv)>> >>))))

\* ---------------------------------------------------------------- suite, tolerance mode (rationals)
TolPart(ev, key, f, exp, scale) ==
    IF ~Has(ev, key) THEN "skip" ELSE IF ~AllFin(ev[key]) THEN "bad"
    ELSE LALet3(Sq(ev[key]), exp, scale, LAMBDA obs, ex, sc : IF NearAllRel(obs, ex, CTol, sc, f) THEN "ok" ELSE "bad")
\* a part that may fall back on the cofactor envelope: env = sequence of per-component absolute bounds (already times eps)
TolPartEnv(ev, key, f, exp, scale, env) ==
    IF ~Has(ev, key) THEN "skip" ELSE IF ~AllFin(ev[key]) THEN "bad"
    ELSE LALet3(Sq(ev[key]), exp, scale, LAMBDA obs, ex, sc :
           IF NearAllRel(obs, ex, CTol, sc, f) THEN "ok"
           ELSE LALet1(env, LAMBDA en : IF \A i \in 1..Len(ex) : QNear(obs[i], ex[i], en[i]) THEN "kd" ELSE "bad"))
ResidPart(ev, f, M, kap) ==      \* postcondition on the logged inverse
    IF ~Has(ev, "inv") THEN "skip" ELSE IF ~AllFin(ev.inv) THEN "bad"
    ELSE LALet2(Mat(M.c, M.r, Sq(ev.inv)), QMul(QMulInt(EpsQ(f), CTol), kap), LAMBDA X, tol :
           IF QLe(LAResidual(X, M, MIdentity(M.c)), tol) /\ QLe(LAResidual(M, X, MIdentity(M.c)), tol) THEN "ok" ELSE "bad")
SeqT(s, n) == LAForceSeq([k \in 1..(n * n) |-> s[(((k - 1) % n)) * n + ((k - 1) \div n) + 1]])       \* transpose of a column-major n x n sequence

SuiteTol(ev, f, n, M, B, v) ==
    LALet1(LASeqExp(M.e), LAMBDA k :
    LALet1(LAMatUp(M, k), LAMBDA Mi :
    LALet2(MDet(Mi), LAAdjugate(Mi), LAMBDA detI, adjI :
    IF QIsZero(detI) THEN Skip ELSE
    LALet1(LAInverseFrom(adjI, detI), LAMBDA invI :
    LALet1(LACond(Mi, invI), LAMBDA kap :
    IF ~QLe(kap, CondMax(ev.t)) THEN Skip ELSE
    LALet3(LAMatMul2k(invI, k), LAQMul2k(detI, -(n * k)), LAMatMul2k(adjI, -((n - 1) * k)), LAMBDA X, det, adj :
    LALet3(LAMaxAbs(X), EpsQ(f), LAMul(B, X), LAMBDA xmax, eps, bdm :
    \* the cofactor envelope, evaluated lazily (only when the kappa bound fails): with P = permanent of |M| and
    \* Pa = permanent-adjugate of |M| the computed cofactor / determinant carry errors <= c eps Pa_ij / c eps P, hence
    \*   |inverse_ij - exact_ij| <= CEnv eps (Pa_ij |det| + |adj_ij| P) / det^2   and   |det - exact| <= CEnv eps P
    LET envInv == LALet3(LAAbs(Mi), QMulInt(eps, CEnv), QMul(detI, detI), LAMBDA Ma, ce, d2 :
                    LALet2(LAPerm(Ma), LAPermAdj(Ma), LAMBDA Pm, Pa :
                      LAForceSeq([i \in 1..(n * n) |->
                          LAQMul2k(QMul(ce, QDiv(QAdd(QMul(Pa.e[i], QAbs(detI)), QMul(QAbs(adjI.e[i]), Pm)), d2)), k)])))
        envDet == <<LAQMul2k(QMul(QMulInt(eps, CEnv), LAPerm(LAAbs(Mi))), -(n * k))>>
    IN
    Fold(<< <<"det", TolPartEnv(ev, "det", f, <<det>>, QMul(kap, QAbs(det)), envDet)>>,
            <<"detT", TolPartEnv(ev, "detT", f, <<det>>, QMul(kap, QAbs(det)), envDet)>>,
            <<"inv", TolPartEnv(ev, "inv", f, X.e, QMul(kap, xmax), envInv)>>,
            <<"invT", TolPartEnv(ev, "invT", f, SeqT(X.e, n), QMul(kap, xmax), SeqT(envInv, n))>>,
            <<"res", IF Has(ev, "inv") /\ AllFin(ev.inv) /\ ~NearAllRel(Sq(ev.inv), X.e, CTol, QMul(kap, xmax), f) THEN "skip"
                     ELSE ResidPart(ev, f, M, kap)>>,
            <<"adj", TolPart(ev, "adj", f, adj.e, QMul(kap, LAMaxAbs(adj)))>>,
            <<"bdm", TolPart(ev, "bdm", f, bdm.e, QMul(kap, LAMaxAbs(LAMul(LAAbs(B), LAAbs(X)))))>>,
            <<"bdme", TolPart(ev, "bdme", f, bdm.e, QMul(kap, LAMaxAbs(LAMul(LAAbs(B), LAAbs(X)))))>>,
            <<"mdv", TolPart(ev, "mdv", f, LAMulVec(X, v), QMul(kap, QMaxAbs(LAMulVec(LAAbs(X), LAForceSeq([i \in 1..n |-> QAbs(v[i])])))))>>,
            <<"vdm", TolPart(ev, "vdm", f, LAVecMul(v, X), QMul(kap, QMaxAbs(LAVecMul(LAForceSeq([i \in 1..n |-> QAbs(v[i])]), LAAbs(X)))))>>,
            <<"P", IF ~Has(ev, "P") THEN "skip" ELSE IF ~AllFin(ev.P) THEN "bad"
                   ELSE IF NearAllRel(Sq(ev.P), LAMMulD(B, M).e, 4, LAMaxAbs(LAMMulD(LAAbs(B), LAAbs(M))), f) THEN "ok" ELSE "bad">>,
            <<"detP", IF ~Has(ev, "detP") THEN "skip"
                      ELSE LALet1(LADet(B), LAMBDA detB :
                             IF QIsZero(detB) THEN "skip"
                             ELSE LALet1(QMul(kap, LACond(B, LAInverse(B))), LAMBDA kbm :
                                    IF ~QLe(kbm, CondMax(ev.t)) THEN "skip"
                                    ELSE TolPart(ev, "detP", f, <<QMul(detB, det)>>, QMulInt(QMul(kbm, QAbs(QMul(detB, det))), 2))))>>,
            <<"ainv", IF ~Has(ev, "A") \/ ~Has(ev, "ainv") THEN "skip" ELSE IF ~AllFin(ev.A) THEN "skip"
                      ELSE LALet1(Mat(n + 1, n + 1, Sq(ev.A)), LAMBDA A :
                             IF ~(LAIsAffine(A) /\ LAMatEq(LALinearPart(A), M) /\ InWindow(A.e)) THEN "skip"
                             ELSE LALet1(LAAffineInverseWith(X, LATranslation(A)), LAMBDA AX :
                                    LALet1(LACond(A, AX), LAMBDA kA :
                                      IF ~QLe(kA, CondMax(ev.t)) THEN "skip"
                                      ELSE TolPart(ev, "ainv", f, AX.e, QMul(kA, LAMaxAbs(AX))))))>>,
            <<"ainvM", IF ~Has(ev, "ainvM") \/ ~LAIsAffine(M) THEN "skip" ELSE TolPart(ev, "ainvM", f, X.e, QMul(kap, xmax))>> >>))))))))

Suite(ev) ==
    LALet3(LISmallInts(ev.a[1]), LISmallInts(ev.a[2]), LISmallInts(ev.a[3]), LAMBDA Mi, Bi, vi :
      IF LIAllSmall(Mi, 64) /\ LIAllSmall(Bi, 64) /\ LIAllSmall(vi, 64) /\ LIDet(Mi, ev.n) \in {-1, 1}
      THEN SuiteExact(ev, ev.n, Mi, Bi, vi)
      ELSE IF ~(AllFin(ev.a[1]) /\ AllFin(ev.a[2]) /\ AllFin(ev.a[3])) THEN Skip
      ELSE LALet3(Mat(ev.n, ev.n, Sq(ev.a[1])), Mat(ev.n, ev.n, Sq(ev.a[2])), Sq(ev.a[3]), LAMBDA M, B, v :
             IF ~(InWindow(M.e) /\ InWindow(B.e) /\ InWindow(v)) THEN Skip
             ELSE SuiteTol(ev, TypeFmt(ev.t), ev.n, M, B, v)))

\* ---------------------------------------------------------------- scalar / matrix, matrix / scalar : component-wise, correctly rounded
SDiv(ev) ==
    LET f == TypeFmt(ev.t) IN
    LALet2(Fields(f, ev.a[1][1]), Sq(ev.a[2]), LAMBDA sf, M :
      IF ~IsFinite(f, sf) \/ ~AllFin(ev.a[2]) THEN Skip ELSE
      LALet1(QFromD(Val(f, sf)), LAMBDA s :
        LET comp(i) == LET num == IF ev.op = "s/m" THEN s ELSE M[i] den == IF ev.op = "s/m" THEN M[i] ELSE s
                       IN IF QIsZero(den) THEN "skip"
                          ELSE IF IsNaN(f, Fields(f, ev.r[i])) THEN "bad"
                          ELSE IF IsRNEQ(f, Fields(f, ev.r[i]), QDiv(num, den)) THEN "ok" ELSE "bad"
        IN Fold(LAForceSeq([i \in 1..Len(M) |-> <<ev.op, comp(i)>>]))))

\* ---------------------------------------------------------------- diagonal builders and flips: bit patterns
ZeroW(t) == IF t = "f32" THEN <<0, 0>> ELSE <<0, 0, 0, 0>>
Diag(ev) ==
    LET C == ev.c R == ev.r0 vv == ev.a[1] IN
    IF Len(ev.r) # C * R THEN Bad("diag:shape")
    ELSE IF \A k \in 1..(C * R) : LET c == ((k - 1) \div R) + 1 r == ((k - 1) % R) + 1
                                   IN ev.r[k] = (IF c = r /\ c <= Len(vv) THEN vv[c] ELSE ZeroW(ev.t))
         THEN VOk ELSE Bad("diag")
Flip(ev) ==
    LET C == ev.c R == ev.r0 m == ev.a[1] IN
    IF Len(ev.r) # C * R THEN Bad("flip:shape")
    ELSE IF \A k \in 1..(C * R) : LET c == ((k - 1) \div R) + 1 r == ((k - 1) % R) + 1
                                   IN ev.r[k] = (IF ev.op = "fliplr" THEN m[(C - c) * R + r] ELSE m[(c - 1) * R + (R + 1 - r)])
         THEN VOk ELSE Bad(ev.op)

\* ---------------------------------------------------------------- gtx/matrix_query
\* guard band: 64 eps relative around the threshold (length() / dot() of at most 4 terms carry a few ulp)
Query(ev) ==
    LET f == TypeFmt(ev.t) IN
    IF ~AllFin(ev.a[1]) \/ ~AllFin(ev.a[2]) THEN Skip ELSE
    LALet3(Mat(ev.c, ev.r0, Sq(ev.a[1])), QW(ev.a[2][1]), QMulInt(EpsQ(f), 64), LAMBDA M, eps, rel :
      IF QSign(eps) < 0 \/ ~InWindow(M.e) THEN Skip ELSE
      LALet1(CASE ev.op = "isNull" -> LAIsNullM(M, eps, rel)
               [] ev.op = "isIdentity" -> LAIsIdentityM(M, eps, rel)
               [] ev.op = "isNormalized" -> LAIsNormalizedM(M, eps, rel)
               [] ev.op = "isOrthogonal" -> LAIsOrthogonalM(M, eps, rel), LAMBDA want :
        IF want = "U" THEN Skip
        ELSE IF (ev.r[1] = <<1>>) = (want = "T") THEN VOk ELSE Bad(ev.op)))

\* ---------------------------------------------------------------- QR / RQ: postconditions of the documentation
\* qr_decompose(in, q, r): columns of q orthonormal, r upper triangular, q r = in
\* rq_decompose(in, r, q): rows of q orthonormal, r upper triangular (diagonal anchored lower-right), r q = in
\* kappa: cond(in) for square inputs, cond of the Gram matrix of the leading min(C,R) columns (rows for RQ) otherwise
CQR == 32
Factor(ev) ==
    LET f == TypeFmt(ev.t) C == ev.c R == ev.r0 mn == IF C < R THEN C ELSE R isQR == ev.op = "qr" IN
    IF ~AllFin(ev.a[1]) THEN Skip ELSE
    LALet1(Mat(C, R, Sq(ev.a[1])), LAMBDA M :
      IF ~InWindow(M.e) THEN Skip ELSE
      LALet1(IF C = R THEN M
             ELSE IF isQR THEN LALet1(LAForce(MFromFn(mn, R, LAMBDA c, r : MAt(M, c, r))), LAMBDA K : LAMMulD(LATranspose(K), K))
             ELSE LALet1(LAForce(MFromFn(C, mn, LAMBDA c, r : MAt(M, c, R - mn + r))), LAMBDA K : LAMMulD(K, LATranspose(K))), LAMBDA G :
      LALet1(LASeqExp(G.e), LAMBDA k :
      LALet1(LAMatUp(G, k), LAMBDA Gi :
      LALet1(MDet(Gi), LAMBDA dG :
      IF QIsZero(dG) THEN Skip ELSE
      LALet1(LACond(Gi, LAInverse(Gi)), LAMBDA kap :
      IF ~QLe(kap, CondMax(ev.t)) THEN Skip
      ELSE IF ~(AllFin(ev.qm) /\ AllFin(ev.rm)) THEN Bad(ev.op \o ":finite")
      ELSE LALet3(IF isQR THEN Mat(mn, R, Sq(ev.qm)) ELSE Mat(C, mn, Sq(ev.qm)),
                  IF isQR THEN Mat(C, mn, Sq(ev.rm)) ELSE Mat(mn, R, Sq(ev.rm)),
                  QMul(QMulInt(EpsQ(f), CQR), kap), LAMBDA Qm, Rm, tolO :
             IF ~(IF isQR THEN LAIsUpperTri(Rm) ELSE LAIsUpperTriLR(Rm)) THEN Bad(ev.op \o ":triangular")
             ELSE IF ~QLe(IF isQR THEN LAColOrthoDefect(Qm) ELSE LARowOrthoDefect(Qm), tolO) THEN Bad(ev.op \o ":orthonormal")
             ELSE IF ~QLe(IF isQR THEN LAResidual(Qm, Rm, M) ELSE LAResidual(Rm, Qm, M),
                          QMul(QMulInt(EpsQ(f), CQR * 4), LAMaxAbs(M))) THEN Bad(ev.op \o ":product")
             ELSE VOk)))))))

Verdict(ev) ==
    CASE ev.op = "suite" -> Suite(ev)
      [] ev.op \in {"s/m", "m/s", "m/=s"} -> SDiv(ev)
      [] ev.op = "diag" -> Diag(ev)
      [] ev.op \in {"fliplr", "flipud"} -> Flip(ev)
      [] ev.op \in {"isNull", "isIdentity", "isNormalized", "isOrthogonal"} -> Query(ev)
      [] ev.op \in {"qr", "rq"} -> Factor(ev)
      [] OTHER -> Bad("unknown op")

Info(ev, v) == IF Has(v, "info") /\ v.info # "" THEN ev.op \o ":" \o v.info ELSE ev.op
Init == l = 1 /\ RegInit
Next == /\ l <= NTrace
        /\ LET ev == TraceLog[l] IN IF IsMarker(ev) THEN Bump(3) ELSE \A v \in {Verdict(ev)} : Record(l, v, Info(ev, v))
        /\ l' = l + 1
Spec == Init /\ [][Next]_vars
Accepted == Summary
=============================================================================
