----------------------------- MODULE Trace_X14 ----------------------------
(* Trace specification of stage X14: gtc/random over an explicit generator state, laws of gtc/noise.

   Stateful in `rest`, the not-yet-consumed suffix of the planted std::rand() sequence (followed by the constant RnFallback):
     {"e":"Reset"}            rest := << >>
     {"op":"seed","s":[..]}   rest := s
     every gtc/random call    ("hang":1 = abandoned after 20000 draws: rejected) logs the draws "d" it made; they must be the first Len(d) elements of the generator state,
                              their number must be the documented one, the result must be the documented function of exactly
                              them; rest := the remaining suffix
   gtc/noise events are judged on their own.

   Outside the documented domain (VSkip): integer linearRand with Min > Max; floating linearRand / gaussRand with non-finite arguments,
   magnitudes outside 2^+-60, Min > Max, negative Deviation; accepted gaussRand pairs with 0 < w < 2^-40; a vector gaussRand whose
   run boundaries cannot be told (a candidate within rounding of w = 1); noise: non-finite coordinates or |coordinates| > 2^20, periods
   that are not integers >= 1, shifts that are not exact. *)
EXTENDS GlmX14, TraceBase
VARIABLES l, rest
vars == <<l, rest>>

Fm(ev) == TypeFmt(ev.t)
IsFlt(ev) == TypeIsFloat(ev.t)
TFinW(f, w) == IsFinite(f, Fields(f, w))
TFinSeq(f, ws) == \A i \in 1..Len(ws) : TFinW(f, ws[i])
DSeq(f, ws) == [i \in 1..Len(ws) |-> ValW(f, ws[i])]
DArg(ev, i) == DSeq(Fm(ev), ev.a[i])
AllFinArgs(ev) == \A i \in 1..Len(ev.a) : TFinSeq(Fm(ev), ev.a[i])
RnMagOkD(d) == DIsZero(d) \/ (DTopExp(d) >= -60 /\ DTopExp(d) <= 60)
RnMagOkV(v) == \A i \in 1..Len(v) : RnMagOkD(v[i])
Orders1 == {[args |-> FALSE, ops |-> o] : o \in BOOLEAN}            \* a scalar call: only the operand order matters
OrdersFor(L) == IF L = 1 THEN Orders1 ELSE RnOrders
Seg(d, j, per) == SubSeq(d, (j - 1) * per + 1, j * per)
KDmod == VKnown("KD-X14-rand-byte-mod255")
SameSeq(a, b) == Len(a) = Len(b) /\ \A i \in 1..Len(a) : a[i] = b[i]

----------------------------------------------------------------------------
\* linearRand, integer types
VLinInt(ev) ==
    LET W == TypeW(ev.t) sg == TypeSigned(ev.t) L == ev.n
        mn == [i \in 1..L |-> WFromLimbs(ev.a[1][i])] mx == [i \in 1..L |-> WFromLimbs(ev.a[2][i])]
        mnZ == [i \in 1..L |-> WToZ(W, sg, mn[i])] mxZ == [i \in 1..L |-> WToZ(W, sg, mx[i])]
        full == \E i \in 1..L : RnFullRange(W, mn[i], mx[i])
        Match(bm) == \E o \in OrdersFor(L) : LET us == RnRand(W, L, ev.d, o, bm) IN
                        \A i \in 1..L : NCmp(WFromLimbs(ev.r[i]), WFromZ(W, RnLinZ(us[i], mnZ[i], mxZ[i]))) = 0
    IN IF \E i \in 1..L : ~ZLe(mnZ[i], mxZ[i]) THEN VSkip
       ELSE IF Has(ev, "trap") THEN (IF full THEN VKnown("KD-X14-linearrand-fullrange-div0") ELSE VBad)
       ELSE IF Len(ev.d) # RnNeed(W, L) \/ Len(ev.r) # L THEN VBad
       ELSE IF Match(256) THEN VOk ELSE IF Match(255) THEN KDmod ELSE VBad

\* linearRand, floating types
VLinFlt(ev) ==
    LET f == Fm(ev) Wu == TypeW(ev.t) L == ev.n IN
    IF ~AllFinArgs(ev) THEN VSkip
    ELSE LET mn == DArg(ev, 1) mx == DArg(ev, 2)
             Ok(bm) == \E o \in OrdersFor(L) : LET us == RnRand(Wu, L, ev.d, o, bm) IN
                          \A i \in 1..L : RnLinFltOk(ValW(f, ev.r[i]), us[i], Wu, mn[i], mx[i], f)
         IN IF ~RnMagOkV(mn) \/ ~RnMagOkV(mx) \/ (\E i \in 1..L : DLt(mx[i], mn[i])) THEN VSkip
            ELSE IF Len(ev.d) # RnNeed(Wu, L) \/ Len(ev.r) # L \/ ~TFinSeq(f, ev.r) THEN VBad
            ELSE IF Ok(256) THEN VOk ELSE IF Ok(255) THEN KDmod ELSE VBad

\* diskRand / ballRand: K candidates, all but the last rejected, the last accepted and returned
VRegion(ev) ==
    LET f == Fm(ev) Wu == TypeW(ev.t) L == ev.n per == RnNeed(Wu, L) K == Len(ev.d) \div per IN
    IF ~AllFinArgs(ev) THEN VSkip
    ELSE LET R == DArg(ev, 1)[1]
             Cand(j, o, bm) == RnRand(Wu, L, Seg(ev.d, j, per), o, bm)
             Ok(bm) == \E o \in RnOrders :
                          /\ \A j \in 1..(K - 1) : RnIn3(RnCandOf(Cand(j, o, bm), Wu, R), R, f) # "T"
                          /\ LET us == Cand(K, o, bm) c == RnCandOf(us, Wu, R) tol == RnCandTol(us, Wu, R, f) r == DSeq(f, ev.r) IN
                             /\ RnIn3(c, R, f) # "F"
                             /\ \A i \in 1..L : DNear(r[i], c[i], tol[i])
                             /\ RnWithin(r, R, f)
         IN IF DSign(R) <= 0 \/ ~RnMagOkD(R) THEN VSkip
            ELSE IF K < 1 \/ Len(ev.d) # K * per \/ Len(ev.r) # L \/ ~TFinSeq(f, ev.r) THEN VBad
            ELSE IF Ok(256) THEN VOk ELSE IF Ok(255) THEN KDmod ELSE VBad

VCircular(ev) ==
    LET f == Fm(ev) Wu == TypeW(ev.t) IN
    IF ~AllFinArgs(ev) THEN VSkip
    ELSE LET R == DArg(ev, 1)[1]
             Ok(bm) == \E o \in Orders1 : RnCircularOk(DSeq(f, ev.r), RnRand(Wu, 1, ev.d, o, bm)[1], Wu, R, ev.t, f)
         IN IF DSign(R) <= 0 \/ ~RnMagOkD(R) THEN VSkip
            ELSE IF Len(ev.d) # RnNeed(Wu, 1) \/ Len(ev.r) # 2 \/ ~TFinSeq(f, ev.r) THEN VBad
            ELSE IF Ok(256) THEN VOk ELSE IF Ok(255) THEN KDmod ELSE VBad

VSpherical(ev) ==
    LET f == Fm(ev) Wu == TypeW(ev.t) h == RnNeed(Wu, 1) IN
    IF ~AllFinArgs(ev) THEN VSkip
    ELSE LET R == DArg(ev, 1)[1]
             Ok(bm) == \E o \in Orders1 : RnSphericalOk(DSeq(f, ev.r), RnRand(Wu, 1, SubSeq(ev.d, 1, h), o, bm)[1],
                                                         RnRand(Wu, 1, SubSeq(ev.d, h + 1, 2 * h), o, bm)[1], Wu, R, ev.t, f)
         IN IF DSign(R) <= 0 \/ ~RnMagOkD(R) THEN VSkip
            ELSE IF Len(ev.d) # 2 * h \/ Len(ev.r) # 3 \/ ~TFinSeq(f, ev.r) THEN VBad
            ELSE IF Ok(256) THEN VOk ELSE IF Ok(255) THEN KDmod ELSE VBad

\* gaussRand (scalar: one run; vector: L runs, one per component in the order of evaluation of the constructor arguments)
GPair(ev, j, o, bm) ==
    LET Wu == TypeW(ev.t) h == RnNeed(Wu, 1) s == Seg(ev.d, j, 2 * h)
    IN RnGaussPair(RnRand(Wu, 1, SubSeq(s, 1, h), o, bm)[1], RnRand(Wu, 1, SubSeq(s, h + 1, 2 * h), o, bm)[1], Wu)
\* index of the first candidate from j on that is accepted; 0: none; -1: a candidate within rounding of w = 1 comes first
RECURSIVE GRunEnd(_, _, _, _, _)
GRunEnd(ev, j, K, o, bm) ==
    IF j > K THEN 0
    ELSE LET a == RnAcc3(GPair(ev, j, o, bm).w, Fm(ev)) IN IF a = "U" THEN -1 ELSE IF a = "T" THEN j ELSE GRunEnd(ev, j + 1, K, o, bm)
RECURSIVE GRuns(_, _, _, _, _, _)
GRuns(ev, start, left, K, o, bm) ==
    IF left = 0 THEN (IF start = K + 1 THEN << >> ELSE <<0>>)
    ELSE LET e == GRunEnd(ev, start, K, o, bm) IN IF e <= 0 THEN <<e>> ELSE <<e>> \o GRuns(ev, e + 1, left - 1, K, o, bm)
GRank(c) == CASE c = "ok" -> 0 [] c = "skip" -> 1 [] c = "dev2" -> 2 [] c = "nan0" -> 3 [] OTHER -> 4
GWorse(a, b) == IF GRank(a) >= GRank(b) THEN a ELSE b
GCompClass(f, rw, Mean, Dev, pr) ==
    IF DIsZero(pr.w) THEN (IF IsNaN(f, Fields(f, rw)) THEN "nan0" ELSE "bad")              \* the pair (0, 0): the polar method has to reject it
    ELSE IF DLt(pr.w, RnGaussWMin) THEN "skip"
    ELSE IF ~TFinW(f, rw) THEN "bad"
    ELSE IF RnGaussOk(ValW(f, rw), Mean, DSq(Dev), pr, f) THEN "ok"
    ELSE IF RnGaussOk(ValW(f, rw), Mean, DSq(DSq(Dev)), pr, f) THEN "dev2" ELSE "bad"
RECURSIVE GFold(_, _, _, _, _, _, _)
GFold(ev, ends, i, o, bm, Mean, Dev) ==
    IF i > ev.n THEN "ok"
    ELSE GWorse(GCompClass(Fm(ev), ev.r[i], Mean[i], Dev[i], GPair(ev, ends[IF o.args THEN ev.n + 1 - i ELSE i], o, bm)),
                GFold(ev, ends, i + 1, o, bm, Mean, Dev))
GClass(ev, o, bm, Mean, Dev) ==
    LET per == 2 * RnNeed(TypeW(ev.t), 1) K == Len(ev.d) \div per L == ev.n IN
    IF K < L \/ Len(ev.d) # K * per THEN "bad"
    ELSE IF L = 1 THEN         \* one run: all but the last candidate not certainly accepted, the last not certainly rejected
             (IF (\A j \in 1..(K - 1) : RnAcc3(GPair(ev, j, o, bm).w, Fm(ev)) # "T") /\ RnAcc3(GPair(ev, K, o, bm).w, Fm(ev)) # "F"
              THEN GCompClass(Fm(ev), ev.r[1], Mean[1], Dev[1], GPair(ev, K, o, bm)) ELSE "bad")
         ELSE LET ends == GRuns(ev, 1, L, K, o, bm) IN
              IF \E k \in 1..Len(ends) : ends[k] = -1 THEN "skip"
              ELSE IF Len(ends) # L \/ (\E k \in 1..Len(ends) : ends[k] <= 0) THEN "bad"
              ELSE GFold(ev, ends, 1, o, bm, Mean, Dev)
GBest(S) == IF "ok" \in S THEN "ok" ELSE IF "skip" \in S THEN "skip" ELSE IF "dev2" \in S THEN "dev2" ELSE IF "nan0" \in S THEN "nan0" ELSE "bad"
VGauss(ev) ==
    LET f == Fm(ev) L == ev.n IN
    IF ~AllFinArgs(ev) THEN VSkip
    ELSE LET Mean == DArg(ev, 1) Dev == DArg(ev, 2)
             c256 == GBest({GClass(ev, o, 256, Mean, Dev) : o \in OrdersFor(L)})
             c255 == GBest({GClass(ev, o, 255, Mean, Dev) : o \in OrdersFor(L)})
         IN IF ~RnMagOkV(Mean) \/ ~RnMagOkV(Dev) \/ (\E i \in 1..L : DSign(Dev[i]) < 0) THEN VSkip
            ELSE IF Len(ev.r) # L THEN VBad
            ELSE CASE c256 = "ok" -> VOk
                   [] c256 = "skip" -> VSkip
                   [] c256 = "dev2" -> VKnown("KD-X14-gaussrand-deviation-squared")
                   [] c256 = "nan0" -> VKnown("KD-X14-gaussrand-w0-nan")
                   [] c255 = "ok" -> KDmod
                   [] c255 = "skip" -> VSkip
                   [] c255 = "dev2" -> VKnown("KD-X14-gaussrand-deviation-squared")        \* both deviations at once
                   [] c255 = "nan0" -> VKnown("KD-X14-gaussrand-w0-nan")
                   [] OTHER -> VBad

----------------------------------------------------------------------------
\* noise
NoiseDom(ev) == AllFinArgs(ev) /\ \A i \in 1..Len(ev.a) : PnMagOk(DArg(ev, i))
RVal(ev, k) == ValW(Fm(ev), ev[k][1])
RFin(ev, k) == TFinW(Fm(ev), ev[k][1])
VPerlin(ev) ==
    IF ~NoiseDom(ev) THEN VSkip
    ELSE IF ~RFin(ev, "r") THEN VBad
    ELSE LET p == DArg(ev, 1) r == RVal(ev, "r") IN
         IF ~DLe(DAbs(r), PnPerlinBound(ev.n)) THEN VBad
         ELSE IF PnIsLattice(p) /\ ~DIsZero(r) THEN VBad                                      \* zero at every lattice point
         ELSE IF Has(ev, "x") /\ ev.t = "f32" /\ ev.n = 2
              THEN VBool(Pattern(F32, PnPerlin2(Fields(F32, ev.a[1][1]), Fields(F32, ev.a[1][2]))) = ev.r[1])
              ELSE VOk
KDs3 == VKnown("KD-X14-simplex3-double-constant")
VSimplex(ev) ==
    IF ~NoiseDom(ev) THEN VSkip
    ELSE IF ~RFin(ev, "r") THEN VBad
    ELSE LET r == DAbs(RVal(ev, "r")) B == PnSimplexBound(ev.n) IN
         IF DLe(r, B) THEN VOk
         ELSE IF ev.t = "f64" /\ ev.n = 3 /\ DLe(r, DMul(B, PnBrokenGrad)) THEN KDs3 ELSE VBad
\* componentwise: q_i - p_i = k step_i for an integer |k| <= 8
ShiftOk(p, q, step) == \A i \in 1..Len(p) : \E k \in -8..8 : DEq(DSub(q[i], p[i]), DMulInt(step[i], k))
BothOk(ev) == RFin(ev, "r") /\ RFin(ev, "r2") /\ DLe(DAbs(RVal(ev, "r")), PnPerlinBound(ev.n)) /\ DLe(DAbs(RVal(ev, "r2")), PnPerlinBound(ev.n))
\* perlin(p, rep) = perlin(p + k rep, rep), bit for bit: floor(p + k rep) = floor(p) + k rep and fract(p + k rep) = fract(p) exactly,
\* mod(., rep) of integers below 2^24 is exact
VPerlinRep(ev) ==
    IF ~NoiseDom(ev) THEN VSkip
    ELSE LET p == DArg(ev, 1) rep == DArg(ev, 2) q == DArg(ev, 3) IN
         IF (\E i \in 1..Len(rep) : ~DIsInt(rep[i]) \/ DSign(rep[i]) <= 0) \/ ~ShiftOk(p, q, rep) THEN VSkip
         ELSE VBool(BothOk(ev) /\ ev.r[1] = ev.r2[1])
\* the lattice indices enter only modulo 289
VPerlin289(ev) ==
    IF ~NoiseDom(ev) THEN VSkip
    ELSE LET p == DArg(ev, 1) q == DArg(ev, 2) IN
         IF ~ShiftOk(p, q, [i \in 1..Len(p) |-> DFromInt(289)]) THEN VSkip ELSE VBool(BothOk(ev) /\ ev.r[1] = ev.r2[1])
\* perlin(p) against perlin(p, vecL(289)): the same operations for vec2 / vec4 (vec3: the two use different roundings of x / 7: no law)
VPerlinRep289(ev) ==
    IF ~NoiseDom(ev) THEN VSkip ELSE VBool(BothOk(ev) /\ (ev.n = 3 \/ ev.r[1] = ev.r2[1]))
\* perlin(p, rep) is as continuous as perlin(p), also where the lattice index wraps
VPairRep(ev) ==
    IF ~NoiseDom(ev) THEN VSkip
    ELSE LET p == DArg(ev, 1) q == DArg(ev, 2) rep == DArg(ev, 3) f == Fm(ev) L == ev.n IN
         IF \E i \in 1..Len(rep) : ~DIsInt(rep[i]) \/ DSign(rep[i]) <= 0 THEN VSkip
         ELSE VBool(BothOk(ev) /\ DLe(DAbs(DSub(RVal(ev, "r"), RVal(ev, "r2"))),
                                      DAdd(DMulInt(DvNorm1(DvSub(p, q)), PnPerlinLip(L)), DMul2k(PnEvalTol(FALSE, L, p, f), 1))))
VPair(ev, simplex) ==
    IF ~NoiseDom(ev) THEN VSkip
    ELSE IF ~RFin(ev, "r") \/ ~RFin(ev, "r2") THEN VBad
    ELSE LET p == DArg(ev, 1) q == DArg(ev, 2) f == Fm(ev) L == ev.n
             dist == DvNorm1(DvSub(p, q))
             lim == DAdd(DMulInt(dist, IF simplex THEN PnSimplexLip(L) ELSE PnPerlinLip(L)), DAdd(PnEvalTol(simplex, L, p, f), PnEvalTol(simplex, L, q, f)))
             diff == DAbs(DSub(RVal(ev, "r"), RVal(ev, "r2")))
         IN IF DLe(diff, lim) THEN VOk
            ELSE IF ~simplex THEN VBad
            ELSE IF L >= 3 /\ DLe(diff, DAdd(lim, PnSimplexJump(L))) THEN VKnown("KD-X14-simplex-discontinuous")
            \* simplex(vec3) on the diagonal of a skewed cell (all coordinate differences are integers): the three-way tie of the rank
            \* ordering gives i1 = (0,0,0), i2 = (1,1,1) - an isolated wrong value
            ELSE IF L = 3 /\ (PnDiagTie(p) \/ PnDiagTie(q)) /\ DLe(diff, DMul2k(PnSimplexBound(3), 1)) THEN VKnown("KD-X14-simplex3-diagonal-tie")
            ELSE IF ev.t = "f64" /\ L = 3 /\ DLe(diff, DMul(DAdd(lim, PnSimplexJump(L)), PnBrokenGrad)) THEN KDs3
            ELSE VBad

----------------------------------------------------------------------------
IsRand(ev) == Has(ev, "d")
VRand(ev) ==
    CASE ev.op = "linearRand" -> IF IsFlt(ev) THEN VLinFlt(ev) ELSE VLinInt(ev)
      [] ev.op \in {"diskRand", "ballRand"} -> VRegion(ev)
      [] ev.op = "circularRand" -> VCircular(ev)
      [] ev.op = "sphericalRand" -> VSpherical(ev)
      [] ev.op = "gaussRand" -> VGauss(ev)
      [] OTHER -> VBad
Verdict(ev) ==
    CASE ev.op = "seed" -> VOk
      [] IsRand(ev) -> IF Has(ev, "hang") THEN VBad                                          \* the call did not return within 20000 draws
                       ELSE IF ~SameSeq(ev.d, RnTake(rest, Len(ev.d))) THEN VBad ELSE VRand(ev)           \* the draws are the head of the generator state
      [] ev.op = "perlin" -> VPerlin(ev)
      [] ev.op = "simplex" -> VSimplex(ev)
      [] ev.op = "perlinRep" -> VPerlinRep(ev)
      [] ev.op = "perlin289" -> VPerlin289(ev)
      [] ev.op = "perlinRep289" -> VPerlinRep289(ev)
      [] ev.op = "perlinPair" -> VPair(ev, FALSE)
      [] ev.op = "perlinRepPair" -> VPairRep(ev)
      [] ev.op = "simplexPair" -> VPair(ev, TRUE)
      [] OTHER -> VBad

Init == l = 1 /\ rest = << >> /\ RegInit
Next == /\ l <= NTrace
        /\ LET ev == TraceLog[l] IN
           IF IsMarker(ev) THEN Bump(3) /\ rest' = << >>
           ELSE /\ Record(l, Verdict(ev), ev.op)
                /\ rest' = IF ev.op = "seed" THEN ev.s ELSE IF IsRand(ev) THEN RnDrop(rest, Len(ev.d)) ELSE rest
        /\ l' = l + 1
Spec == Init /\ [][Next]_vars
Accepted == Summary
=============================================================================
