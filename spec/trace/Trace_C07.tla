----------------------------- MODULE Trace_C07 ----------------------------
(* Trace specification for the half conversions (C07): packHalf1x16 / unpackHalf1x16 and the
   2x16, 4x16 and vector forms.  A packed multi-component word must hold component i in bits
   16 i .. 16 i + 15 (first component in the least significant bits). *)
EXTENDS GlmHalf, TraceBase
VARIABLE l
vars == <<l>>

PackOK(fw, h) == AcceptFloatToHalf(h, F32S(fw), F32M(fw))
UnpackOK(fw, h) == AcceptHalfToFloat(F32S(fw), F32M(fw), h)

Verdict(ev) ==
    CASE ev.op = "packHalf1x16" -> VBool(PackOK(ev.a[1][1], ev.r[1][1]))
      [] ev.op = "unpackHalf1x16" ->
            LET h == ev.a[1][1][1] IN
            VBool(/\ UnpackOK(ev.r[1], h)
                  /\ ev.p[1][1] = h)          \* "converting that float back returns the same pattern": every pattern, NaN payloads included
      [] ev.op = "packHalfN" ->        \* a = one float vector, r = one packed word: limb i is component i
            VBool(Len(ev.r[1]) = ev.n /\ \A i \in 1..ev.n : PackOK(ev.a[1][i], ev.r[1][i]))
      [] ev.op = "unpackHalfN" ->
            VBool(Len(ev.r) = ev.n /\ \A i \in 1..ev.n : UnpackOK(ev.r[i], ev.a[1][1][i]))
      [] ev.op = "packHalfV" -> VBool(Len(ev.r) = ev.n /\ \A i \in 1..ev.n : PackOK(ev.a[1][i], ev.r[i][1]))
      [] ev.op = "unpackHalfV" -> VBool(Len(ev.r) = ev.n /\ \A i \in 1..ev.n : UnpackOK(ev.r[i], ev.a[1][i][1]))
      [] OTHER -> VBad

Init == l = 1 /\ RegInit
Next == /\ l <= NTrace
        /\ LET ev == TraceLog[l] IN IF IsMarker(ev) THEN Bump(3) ELSE Record(l, Verdict(ev), ev.op)
        /\ l' = l + 1
Spec == Init /\ [][Next]_vars
Accepted == Summary
=============================================================================
