----------------------------- MODULE TraceBase ----------------------------
(***************************************************************************)
(* Shared part of every trace specification (engine E4).                   *)
(* The trace is an ndjson file named by the environment variable TRACE;    *)
(* line l is consumed by one step of the trace machine.  A mismatch does   *)
(* not stop validation: the verdict is recorded (counter registers and a   *)
(* printed MISMATCH / KNOWN line) and the machine adopts what the          *)
(* implementation did, so the rest of the trace is still checked.          *)
(* Acceptance = all lines consumed and zero unexplained mismatches; the    *)
(* driver reads the SUMMARY line printed by the POSTCONDITION.             *)
(*   register 1 = mismatches, 2 = known-deviation hits, 3 = lines consumed,*)
(*   4 = events outside the documented domain (constrain nothing)          *)
(***************************************************************************)
EXTENDS Naturals, Sequences, TLC, Json, IOUtils

TraceLog == ndJsonDeserialize(IOEnv.TRACE)
NTrace == Len(TraceLog)

RegInit == TLCSet(1, 0) /\ TLCSet(2, 0) /\ TLCSet(3, 0) /\ TLCSet(4, 0)
Bump(r) == TLCSet(r, TLCGet(r) + 1)

VOk == [v |-> "ok", id |-> ""]
VSkip == [v |-> "skip", id |-> ""]
VBad == [v |-> "bad", id |-> ""]
VKnown(id) == [v |-> "known", id |-> id]
\* first non-ok of two verdicts
VAnd(a, b) == IF a.v = "bad" THEN a ELSE IF b.v = "bad" THEN b ELSE IF a.v = "known" THEN a ELSE IF b.v = "known" THEN b
              ELSE IF a.v = "skip" THEN a ELSE b
VBool(b) == IF b THEN VOk ELSE VBad

\* record the verdict for line l; info is printed with a mismatch (what the spec expected)
Record(l, verdict, info) ==
    CASE verdict.v = "ok"    -> Bump(3)
      [] verdict.v = "skip"  -> Bump(3) /\ Bump(4)
      [] verdict.v = "known" -> Bump(3) /\ Bump(2) /\ PrintT(<<"KNOWN", verdict.id, l>>)
      [] OTHER               -> Bump(3) /\ Bump(1) /\ PrintT(<<"MISMATCH", l, info>>)

IsMarker(ev) == "e" \in DOMAIN ev
Summary == PrintT(<<"SUMMARY", TLCGet(3), TLCGet(1), TLCGet(2), TLCGet(4)>>)
Has(ev, k) == k \in DOMAIN ev
=============================================================================
