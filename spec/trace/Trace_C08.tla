----------------------------- MODULE Trace_C08 ----------------------------
(***************************************************************************)
(* Trace specification for the projection builders, project / unProject   *)
(* and pickMatrix (C08).  Stateless: every event carries the clip-control  *)
(* configuration of the build that produced it (cfg) and the one the       *)
(* driver asked for (req).                                                 *)
(*                                                                         *)
(* builder events   the four fully suffixed variants are compared entry by *)
(*   entry with the closed forms of GlmClip.tla evaluated in exact         *)
(*   rational arithmetic on the logged arguments: structural 0 / 1 / -1    *)
(*   entries bit-exactly, computed entries within K * eps * |expected|;    *)
(*   the unsuffixed and half-suffixed dispatchers must be BIT-IDENTICAL to *)
(*   the variant that cfg selects.                                         *)
(* project / unProject / pickMatrix   against the exact images, with a     *)
(*   forward error bound built from the absolute values of the operands.   *)
(* Arguments outside the documented domain constrain nothing (VSkip).      *)
(***************************************************************************)
EXTENDS GlmClip, TraceBase
VARIABLE l
vars == <<l>>

Fmt(ev) == TypeFmt(ev.t)
EpsQ(ev) == QFromD(Eps(Fmt(ev)))
Words1(ev) == Tup([i \in 1..Len(ev.a) |-> ev.a[i][1]])             \* scalar arguments: their words
Pow2Q(k) == QFromD(DPow2(k))
\* magnitudes for which neither the harness arithmetic nor the rational oracle leaves its comfortable range
InRange(q) == QIsZero(q) \/ (QLe(Pow2Q(-40), QAbs(q)) /\ QLe(QAbs(q), Pow2Q(40)))
AllInRange(s) == \A i \in 1..Len(s) : InRange(s[i])
Pos(q) == QSign(q) > 0
CfgOK(ev) == ev.cfg = ev.req /\ ev.cfg \in ClipCfgs

\* ---------------------------------------------------------------- entry-wise comparison of a logged 4x4
SignBit(f, w) == Fields(f, w).s
AbsWord(w) == [i \in 1..Len(w) |-> IF i = Len(w) /\ w[i] >= 32768 THEN w[i] - 32768 ELSE w[i]] \o << >>      \* sign bit cleared
\* structural constant: the same value and, for zero, the positive zero the constructor wrote
ExactW(f, w, e) == FinW(w) /\ QEq(QW(w), e) /\ (QIsZero(e) => SignBit(f, w) = 0)
\* computed entry: | observed - p/q | <= (kn/kd) * eps * | p/q |, evaluated without division as
\*   | observed * q - p | * kd <= kn * 2^-mb * |p|      (observed is a dyadic: one multiplication)
NearMag(f, aw, e, kn, kd) ==
    LET obs == ValW(f, aw) IN
    DLe(DMulInt(DAbs(DSub(DMul(obs, DMk(FALSE, e.q, 0)), DMk(FALSE, e.p.m, 0))), kd),
        DMul2k(DMulInt(DMk(FALSE, e.p.m, 0), kn), -f.mb))
SameSign(f, w, e) == QIsZero(e) \/ QIsZero(QW(w)) \/ (SignBit(f, w) = 1) = (QSign(e) < 0)
\* all the checks of the matrices ms (sequence of word lists) against the expected matrices Ms, entry by entry;
\* the magnitude comparisons (the expensive part) are made once per distinct (|observed|, |expected|) pair
MatsOK(f, fam, ms, Ms, kn, kd) ==
    LET n == Len(ms)
        comp == Computed(fam)
        exactIdx == IF fam = "infinitePerspective" THEN {15} ELSE {}        \* -near / -2 near: computed, but exactly
    IN /\ \A j \in 1..n : Len(ms[j]) = 16 /\ AllFin(ms[j])
       /\ \A j \in 1..n : \A i \in 1..16 :
              IF i \in comp \ exactIdx THEN SameSign(f, ms[j][i], Ms[j].e[i]) ELSE ExactW(f, ms[j][i], Ms[j].e[i])
       /\ \A c \in { << AbsWord(ms[j][i]), QN2(QAbs(Ms[j].e[i])) >> : j \in 1..n, i \in comp \ exactIdx } : NearMag(f, c[1], c[2], kn, kd)

\* tolerance factors (units of eps = 2^-mb, i.e. two rounding units), relative to the entry:
\*  ortho / frustum: every computed entry is a quotient of two once-rounded sums / products of the arguments:
\*    at most 3 roundings = 1.5 eps (+ second order); observed maximum 1.0 .. 1.5       -> 2
\*  tan-based builders: the harness passes fovy = RN(2 atan T) (relative error eps/2), the builder halves it
\*    (exact) and takes tan (libm: < 1 ulp = eps): d tan(x)/tan(x) = (2x / sin 2x) dx/x, and with
\*    sin 2x = 2T/(1+T^2), 2x < pi this is < (pi/4) (1+T^2)/T * eps; then at most 4 more roundings
\*    (aspect * tan, 1/., range * near, ...), perspectiveFov: cos, sin (1 ulp each), one division and
\*    h * height / width                                                                              -> 6 + (1+T^2)/T
KBoxN == 2
KBoxD == 1
KTanN(tn, td) == 6 * tn * td + tn * tn + td * td          \* 6 + (1 + T^2) / T  with  T = tn / td,  as a fraction
KTanD(tn, td) == tn * td

\* ---------------------------------------------------------------- builder events
VariantSeq == << <<FALSE, FALSE>>, <<FALSE, TRUE>>, <<TRUE, FALSE>>, <<TRUE, TRUE>> >>
KindsPresent(ev) == { kd \in {"U", "ZO", "NO", "LH", "RH"} : Has(ev, kd) }
DispatchOK(ev, kinds) == \A kd \in kinds : Has(ev, kd) /\ ev[kd] = ev[Dispatch(kd, ev.cfg)]
FourOK(ev, fam, Expected(_, _), kn, kd) ==
    MatsOK(Fmt(ev), fam, [j \in 1..4 |-> ev[VariantName(VariantSeq[j][1], VariantSeq[j][2])]] \o << >>,
           [j \in 1..4 |-> Expected(VariantSeq[j][1], VariantSeq[j][2])] \o << >>, kn, kd)
OneOK(ev, fam, ws, M, kn, kd) == MatsOK(Fmt(ev), fam, << ws >>, << M >>, kn, kd)
AllKinds == {"U", "ZO", "NO", "LH", "RH"}

BoxVerdict(ev) ==
    LET ws == Words1(ev) IN
    IF ~AllFin(ws) THEN VSkip ELSE
    LET q == Tup(QSeq(ws)) IN
    IF ~(AllInRange(q) /\ QLt(q[1], q[2]) /\ QLt(q[3], q[4])) THEN VSkip
    ELSE IF ev.op = "ortho2" THEN VBool(CfgOK(ev) /\ OneOK(ev, "ortho2", ev.r, Ortho2D(q[1], q[2], q[3], q[4]), KBoxN, KBoxD))
    ELSE IF ~(Pos(q[5]) /\ QLt(q[5], q[6])) THEN VSkip
    ELSE LET E(lh, zo) == IF ev.op = "ortho" THEN Ortho(q[1], q[2], q[3], q[4], q[5], q[6], lh, zo)
                          ELSE Frustum(q[1], q[2], q[3], q[4], q[5], q[6], lh, zo)
         IN VBool(CfgOK(ev) /\ DispatchOK(ev, AllKinds) /\ FourOK(ev, ev.op, E, KBoxN, KBoxD))

\* a[1] is the angle the harness computed from T = tn/td (an input encoding; the oracle uses T itself)
FovVerdict(ev) ==
    LET ws == Words1(ev) IN
    IF ~AllFin(ws) \/ ev.tn < 1 \/ ev.td < 1 \/ ev.tn > 1000 \/ ev.td > 1000 THEN VSkip ELSE
    LET q == Tup(QSeq(ws)) T == QF(ev.tn, ev.td) kn == KTanN(ev.tn, ev.td) kd == KTanD(ev.tn, ev.td) IN
    IF ~(AllInRange(q) /\ Pos(q[1])) THEN VSkip
    ELSE CASE ev.op = "perspective" ->
                IF ~(Pos(q[2]) /\ Pos(q[3]) /\ QLt(q[3], q[4])) THEN VSkip
                ELSE LET E(lh, zo) == Perspective(T, q[2], q[3], q[4], lh, zo)
                     IN VBool(CfgOK(ev) /\ DispatchOK(ev, AllKinds) /\ FourOK(ev, ev.op, E, kn, kd))
           [] ev.op = "perspectiveFov" ->
                IF ~(Pos(q[2]) /\ Pos(q[3]) /\ Pos(q[4]) /\ QLt(q[4], q[5])) THEN VSkip
                ELSE LET E(lh, zo) == PerspectiveFov(T, q[2], q[3], q[4], q[5], lh, zo)
                     IN VBool(CfgOK(ev) /\ DispatchOK(ev, AllKinds) /\ FourOK(ev, ev.op, E, kn, kd))
           [] ev.op = "infinitePerspective" ->
                IF ~(Pos(q[2]) /\ Pos(q[3])) THEN VSkip
                ELSE LET E(lh, zo) == InfinitePerspective(T, q[2], q[3], lh, zo)
                     \* infinitePerspectiveLH / RH are judged whenever the build could call them
                     IN VBool(CfgOK(ev) /\ DispatchOK(ev, {"U"} \cup (KindsPresent(ev) \cap {"LH", "RH"}))
                              /\ KindsPresent(ev) \cap {"ZO", "NO"} = {} /\ FourOK(ev, ev.op, E, kn, kd))
           [] ev.op = "tweaked" ->
                IF ~(Pos(q[2]) /\ Pos(q[3])) THEN VSkip
                ELSE VBool(CfgOK(ev) /\ OneOK(ev, ev.op, ev.r, TweakedInfinitePerspective(T, q[2], q[3], EpsQ(ev)), kn, kd))
           [] ev.op = "tweakedEp" ->
                IF ~(Pos(q[2]) /\ Pos(q[3])) THEN VSkip
                ELSE VBool(CfgOK(ev) /\ OneOK(ev, ev.op, ev.r, TweakedInfinitePerspective(T, q[2], q[3], q[4]), kn, kd))

\* ---------------------------------------------------------------- project / unProject / pickMatrix
QFromZZ(z) == QMk(z, <<1>>)
VpQ(ev, i) == IF ev.u = "i32" THEN Tup([j \in 1..4 |-> QFromZZ(WToZ(32, TRUE, WFromLimbs(ev.a[i][j])))]) ELSE Tup(QSeq(ev.a[i]))
VpFin(ev, i) == ev.u = "i32" \/ AllFin(ev.a[i])
MatQ(ws) == Mat(4, 4, Tup(QSeq(ws)))
KProj == 4           \* units of eps; the a-priori bound below is 3.5 (two 4-term products 3u + 3u, one division u)
KUnproj == 8        \* product (3u), cofactor inverse (2x2 / 3x3 / 4x4 expansions, about 10u), matrix * vector (3u), division

\* ---- dyadic helpers: the exact clip / pre-image coordinates are dyadic (all logged inputs are), and the error
\* bounds are evaluated on 16-bit upper approximations (UpD) of the absolute values, without any division
DUp(q) == UpD(DOfQ(q))
DVecUp(v) == Tup([i \in 1..Len(v) |-> DUp(v[i])])
DDotSeq(a, b) == DSum(Tup([k \in 1..Len(a) |-> DMul(a[k], b[k])]))
\* |A| * v for a 4x4 of rationals A (approximated from above) and a vector of non-negative dyadics v
DMatVecUp(A, v) == LET U == Tup([k \in 1..16 |-> DUp(A.e[k])])
                   IN Tup([r \in 1..4 |-> UpD(DSum(<< DMul(U[r], v[1]), DMul(U[4 + r], v[2]), DMul(U[8 + r], v[3]), DMul(U[12 + r], v[4]) >>))])
DEpsK(f, k) == DMk(FALSE, NFromNat(k), -f.mb)                                  \* k * eps
AllDyadic(s) == \A i \in 1..Len(s) : IsDyadicQ(s[i])
\* | obs - num/den | <= tolNum / tolDen   (den # 0, tolDen > 0):   | obs*den - num | * tolDen <= tolNum * |den|
NearHom(obs, num, den, tolNum, tolDen) ==
    DLe(DMul(LowD(DSub(DMul(obs, den), num)), LowD(tolDen)), DMul(tolNum, UpD(den)))

\* |.|-weighted first-order bound for  ndc = (P (M o)) / w :  each of the two matrix-vector products is a sum of 4
\* products (error <= 3u * sum of |terms|), so  err(clip_i) <= 6u A_i  with  A = |P| |M| |o|,  and
\* err(ndc_i) <= 6u (A_i + |ndc_i| A_4) / |w| + u |ndc_i|  <=  KProj eps (A_i |w| + |c_i| A_4) / w^2  =: TN_i / w^2.
\* Then  win = (ndc/2 + 1/2) * size + origin  (3 more roundings of terms bounded by (|ndc|/2 + 1/2) |size| + |origin|):
\*   tol_xy = TN |size| / (2 w^2) + 4 eps ((|c| |w| + w^2) |size| / 2 + |origin| w^2) / w^2,
\*   tol_z  = TN / w^2 (ZO),   TN / (2 w^2) + 2 eps (|c_z| |w| + w^2) / (2 w^2) (NO).
ProjectVerdict(ev) ==
    IF ~(AllFin(ev.a[1]) /\ AllFin(ev.a[2]) /\ AllFin(ev.a[3]) /\ VpFin(ev, 4)) THEN VSkip ELSE
    LET f == Fmt(ev) obj == Tup(QSeq(ev.a[1])) M == MatQ(ev.a[2]) P == MatQ(ev.a[3]) vp == VpQ(ev, 4) IN
    IF ~(AllInRange(obj) /\ AllInRange(M.e) /\ AllInRange(P.e) /\ AllInRange(vp)) THEN VSkip ELSE
    LET c == ClipOf(obj, M, P)
        cu == DVecUp(c) wu == cu[4] w2u == DMul(wu, wu)
        A == DMatVecUp(P, DMatVecUp(M, DVecUp(Hom(obj))))
    IN IF QIsZero(c[4]) \/ DLt(DMul2k(LowD(DOfQ(c[4])), 10), A[4]) THEN VSkip          \* on or next to the plane w = 0
       ELSE LET TN(i) == DMul(DEpsK(f, KProj), DAdd(DMul(A[i], wu), DMul(cu[i], A[4])))
                su(i) == DUp(vp[2 + i]) ou(i) == DUp(vp[i])
                \* tolerances as fractions over 2 w^2
                TolXY(i) == DAdd(DMul(TN(i), su(i)),
                                 DMul(DEpsK(f, 4), DAdd(DMul(DAdd(DMul(cu[i], wu), w2u), su(i)), DMul2k(DMul(ou(i), w2u), 1))))
                TolZ(zo) == IF zo THEN DMul2k(TN(3), 1) ELSE DAdd(TN(3), DMul(DEpsK(f, 2), DAdd(DMul(cu[3], wu), w2u)))
                den2 == DMul2k(w2u, 1)
                Good(r, zo) ==
                    LET h == ProjectHom(obj, M, P, vp, zo) IN
                    /\ AllFin(r)
                    /\ NearHom(ValW(f, r[1]), DOfQ(h[1]), DOfQ(h[4]), TolXY(1), den2)
                    /\ NearHom(ValW(f, r[2]), DOfQ(h[2]), DOfQ(h[4]), TolXY(2), den2)
                    /\ NearHom(ValW(f, r[3]), DOfQ(h[3]), DOfQ(h[5]), TolZ(zo), den2)
            IN VBool(CfgOK(ev) /\ ev.U = (IF CfgZO(ev.cfg) THEN ev.ZO ELSE ev.NO) /\ Good(ev.ZO, TRUE) /\ Good(ev.NO, FALSE))

\* unProject computes  Inv = inverse(fl(P*M)),  tmp = ndc(win),  o = Inv * tmp,  obj = o / o.w .
\* With  A = P*M,  AA = |P| |M|  (so |fl(P*M) - A| <= 3u AA)  and  B = |Inv| AA |Inv|  (>= |Inv|), a perturbation dA
\* of A moves Inv by Inv dA Inv, hence  err(o) <= KUnproj eps B |tmp| + |Inv| err(tmp),  with
\* err(tmp_x) <= eps (2 |win_x - org_x| / |size_x| + |tmp_x| + 1)  (difference, quotient, 2x - 1),  err(tmp_z) <= eps |tmp_z|.
\* Everything is evaluated multiplied by  sigma = size_x size_y  (tmpS = sigma tmp)  and by  det(A)  (adj = det Inv):
\*   o' = adj tmpS,   E''_i = |det| * |sigma det| err(o_i) = eps (KUnproj (|adj| AA |adj| |tmpS|)_i + |det| (|adj| dtS)_i),
\* and  | r_i - o'_i / o'_4 | <= (9/8) (E'_i + |e_i| E'_4) / |o'_4| + eps |e_i|  becomes, multiplied by |o'_4|^2 |det|,
\*   | r_i o'_4 - o'_i | |o'_4| |det|  <=  (9/8) (E''_i |o'_4| + |o'_i| E''_4) + eps |o'_i| |o'_4| |det|.
UnProjectVerdict(ev) ==
    IF ~(AllFin(ev.a[1]) /\ AllFin(ev.a[2]) /\ AllFin(ev.a[3]) /\ VpFin(ev, 4)) THEN VSkip ELSE
    LET f == Fmt(ev) win == Tup(QSeq(ev.a[1])) M == MatQ(ev.a[2]) P == MatQ(ev.a[3]) vp == VpQ(ev, 4) IN
    IF ~(AllInRange(win) /\ AllInRange(M.e) /\ AllInRange(P.e) /\ AllInRange(vp)) \/ QIsZero(vp[3]) \/ QIsZero(vp[4]) THEN VSkip ELSE
    LET A == MMulN(P, M) det == Det4N(A) IN
    IF QIsZero(det) THEN VSkip ELSE
    LET adj == Adj4N(A)
        detU == DUp(det) detL == LowD(DOfQ(det))
        AAu == Tup([r \in 1..4 |-> Tup([cc \in 1..4 |-> UpD(DSum(Tup([k \in 1..4 |-> DMul(DUp(MAt(P, k, r)), DUp(MAt(M, cc, k)))])))])])   \* AAu[row][col]
        AAv(v) == Tup([r \in 1..4 |-> UpD(DDotSeq(AAu[r], v))])
        Judge(r, zo) ==                                   \* "ok" | "skip" | "bad"
            LET tmp == NdcOfWinS(win, vp, zo)
                o == MVecN(adj, tmp)
                od == Tup([i \in 1..4 |-> DOfQ(o[i])]) ou == Tup([i \in 1..4 |-> UpD(od[i])])
                sg == DUp(QMulN(vp[3], vp[4]))
                dtS == << DAdd(DAdd(DMul2k(DMul(DUp(QSubN(win[1], vp[1])), DUp(vp[4])), 1), DUp(tmp[1])), sg),
                          DAdd(DAdd(DMul2k(DMul(DUp(QSubN(win[2], vp[2])), DUp(vp[3])), 1), DUp(tmp[2])), sg),
                          DUp(tmp[3]), DZero >>
                Bt == DMatVecUp(adj, AAv(DMatVecUp(adj, DVecUp(tmp))))
                Dt == DMatVecUp(adj, dtS)
                E == Tup([i \in 1..4 |-> DMul(DEpsK(f, 1), DAdd(DMulInt(Bt[i], KUnproj), DMul(detU, Dt[i])))])       \* E''
            IN IF QIsZero(o[4]) \/ DLt(DMul(LowD(od[4]), detL), DMulInt(E[4], 8)) THEN "skip"        \* pre-image at / next to infinity
               ELSE IF AllFin(r) /\ \A i \in 1..3 :
                          DLe(DMul(DMul(LowD(DSub(DMul(ValW(f, r[i]), od[4]), od[i])), LowD(od[4])), detL),
                              DAdd(DMul2k(DMulInt(DAdd(DMul(E[i], ou[4]), DMul(ou[i], E[4])), 9), -3),
                                   DMul(DEpsK(f, 1), DMul(DMul(ou[i], ou[4]), detU))))
                    THEN "ok" ELSE "bad"
        jz == Judge(ev.ZO, TRUE) jn == Judge(ev.NO, FALSE)
        same == ev.U = (IF CfgZO(ev.cfg) THEN ev.ZO ELSE ev.NO)
    IN IF jz = "bad" \/ jn = "bad" \/ ~CfgOK(ev) THEN VBad
       ELSE IF jz = "skip" /\ jn = "skip" THEN VSkip
       ELSE VBool(same)

\* pickMatrix: scale entries are one division; the translation is (size - 2 (c - org)) / delta: two once-rounded
\* differences (the doubling is exact) and a division, absolute error <= 2u (|size| + 2 |c - org|) / delta
PickVerdict(ev) ==
    IF ~(AllFin(ev.a[1]) /\ AllFin(ev.a[2]) /\ VpFin(ev, 3)) THEN VSkip ELSE
    LET c == Tup(QSeq(ev.a[1])) d == Tup(QSeq(ev.a[2])) vp == VpQ(ev, 3) f == Fmt(ev) eps == EpsQ(ev) IN
    IF ~(AllInRange(c) /\ AllInRange(d) /\ AllInRange(vp) /\ Pos(d[1]) /\ Pos(d[2])) THEN VSkip ELSE
    LET E == PickMatrix(c, d, vp)
        tolT(i) == QMul(QMulInt(eps, 4), QDiv(QAdd(QAbs(vp[2 + i]), QMul(QTwo, QAbs(QSub(c[i], vp[i])))), d[i]))
        r == ev.r
    IN VBool(/\ CfgOK(ev) /\ Len(r) = 16 /\ AllFin(r)
             /\ QNear(QW(r[1]), E.e[1], QMul(QMulInt(eps, 2), QAbs(E.e[1]))) /\ QNear(QW(r[6]), E.e[6], QMul(QMulInt(eps, 2), QAbs(E.e[6])))
             /\ QNear(QW(r[13]), E.e[13], tolT(1)) /\ QNear(QW(r[14]), E.e[14], tolT(2))
             /\ \A i \in (1..16) \ {1, 6, 13, 14} : QEq(QW(r[i]), E.e[i]))

\* ---------------------------------------------------------------- configuration and missing functions
ConfigVerdict(ev) ==
    VBool(/\ CfgOK(ev)
          /\ ev.cfg = ClipCfgOf(ev.lhf = 1, ev.zof = 1)
          /\ ev.zo_bit = CC_ZO_BIT /\ ev.no_bit = CC_NO_BIT /\ ev.lh_bit = CC_LH_BIT /\ ev.rh_bit = CC_RH_BIT
          /\ ev.lh_zo = ClipCfgOf(TRUE, TRUE) /\ ev.lh_no = ClipCfgOf(TRUE, FALSE)
          /\ ev.rh_zo = ClipCfgOf(FALSE, TRUE) /\ ev.rh_no = ClipCfgOf(FALSE, FALSE))
\* a function the header declares (and documents) but the harness could not be linked against
MissingVerdict(ev) ==
    IF ev.fn \in {"infinitePerspectiveLH", "infinitePerspectiveRH"} THEN VKnown("KD-C08-infinitePerspectiveLH-RH-undefined") ELSE VBad

Verdict(ev) ==
    CASE ev.op \in {"ortho2", "ortho", "frustum"} -> BoxVerdict(ev)
      [] ev.op \in {"perspective", "perspectiveFov", "infinitePerspective", "tweaked", "tweakedEp"} -> FovVerdict(ev)
      [] ev.op = "project" -> ProjectVerdict(ev)
      [] ev.op = "unProject" -> UnProjectVerdict(ev)
      [] ev.op = "pickMatrix" -> PickVerdict(ev)
      [] ev.op = "config" -> ConfigVerdict(ev)
      [] ev.op = "missing" -> MissingVerdict(ev)
      [] OTHER -> VBad

Init == l = 1 /\ RegInit
Next == /\ l <= NTrace
        /\ LET ev == TraceLog[l] IN IF IsMarker(ev) THEN Bump(3) ELSE Record(l, Verdict(ev), ev.op)
        /\ l' = l + 1
Spec == Init /\ [][Next]_vars
Accepted == Summary
=============================================================================
