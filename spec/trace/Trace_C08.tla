----------------------------- MODULE Trace_C08 ----------------------------
(***************************************************************************)
(* Trace specification for the projection builders, project / unProject   *)
(* and pickMatrix (C08).  Stateless: every event carries the clip-control  *)
(* configuration of the build that produced it (cfg) and the one the       *)
(* driver asked for (req).                                                 *)
(*                                                                         *)
(* builder events   the four fully suffixed variants are compared entry by *)
(*   entry with the closed forms of GlmClip.tla evaluated in exact         *)
(*   rational arithmetic on the logged arguments: structural 0 / 1 / -1    *)
(*   entries bit-exactly, computed entries within K * eps * |expected|;    *)
(*   the unsuffixed and half-suffixed dispatchers must be BIT-IDENTICAL to *)
(*   the variant that cfg selects.                                         *)
(* project / unProject / pickMatrix   against the exact images, with a     *)
(*   forward error bound built from the absolute values of the operands.   *)
(* Arguments outside the documented domain constrain nothing (VSkip).      *)
(***************************************************************************)
EXTENDS GlmClip, TraceBase
VARIABLE l
vars == <<l>>

Fmt(ev) == TypeFmt(ev.t)
EpsQ(ev) == QFromD(Eps(Fmt(ev)))
Words1(ev) == Tup([i \in 1..Len(ev.a) |-> ev.a[i][1]])             \* scalar arguments: their words
Pow2Q(k) == QFromD(DPow2(k))
\* magnitudes for which neither the harness arithmetic nor the rational oracle leaves its comfortable range
InRange(q) == QIsZero(q) \/ (QLe(Pow2Q(-40), QAbs(q)) /\ QLe(QAbs(q), Pow2Q(40)))
AllInRange(s) == \A i \in 1..Len(s) : InRange(s[i])
Pos(q) == QSign(q) > 0
CfgOK(ev) == ev.cfg = ev.req /\ ev.cfg \in ClipCfgs

\* ---------------------------------------------------------------- entry-wise comparison of a logged 4x4
SignBit(f, w) == Fields(f, w).s
\* structural constant: the same value and, for zero, the positive zero the constructor wrote
ExactW(f, w, e) == FinW(w) /\ QEq(QW(w), e) /\ (QIsZero(e) => SignBit(f, w) = 0)
\* computed entry: | observed - expected | <= kq * eps * | expected |
NearW(f, w, e, kq) == FinW(w) /\ QNear(QW(w), e, QMul(QMul(kq, QFromD(Eps(f))), QAbs(e)))
MatOK(f, fam, ws, M, kq) ==
    /\ Len(ws) = 16
    /\ \A i \in 1..16 : IF i \in Computed(fam)
                        THEN NearW(f, ws[i], M.e[i], IF fam = "infinitePerspective" /\ i = 15 THEN QZero ELSE kq)
                        ELSE ExactW(f, ws[i], M.e[i])

\* tolerance factors (units of eps = 2^-mb, i.e. two rounding units), relative to the entry:
\*  ortho / frustum: every computed entry is a quotient of two once-rounded sums / products of the arguments:
\*    at most 3 roundings = 1.5 eps (+ second order)                                                  -> 4
\*  tan-based builders: the harness passes fovy = RN(2 atan T) (relative error eps/2), the builder halves it
\*    (exact) and takes tan (libm: < 1 ulp = eps): d tan(x)/tan(x) = (2x / sin 2x) dx/x, and with
\*    sin 2x = 2T/(1+T^2), 2x < pi this is < (pi/4) (1+T^2)/T * eps; then at most 4 more roundings
\*    (aspect * tan, 1/., range * near, ...), perspectiveFov: cos, sin (1 ulp each), one division and
\*    h * height / width                                                                              -> 6 + (1+T^2)/T
KBox == QI(4)
KTan(T) == QAdd(QI(6), QDiv(QAdd(QOne, QMul(T, T)), T))

\* ---------------------------------------------------------------- builder events
VariantSet == { <<FALSE, FALSE>>, <<FALSE, TRUE>>, <<TRUE, FALSE>>, <<TRUE, TRUE>> }
KindsPresent(ev) == { kd \in {"U", "ZO", "NO", "LH", "RH"} : Has(ev, kd) }
DispatchOK(ev, kinds) == \A kd \in kinds : Has(ev, kd) /\ ev[kd] = ev[Dispatch(kd, ev.cfg)]
FourOK(ev, fam, Expected(_, _), kq) ==
    \A v \in VariantSet : MatOK(Fmt(ev), fam, ev[VariantName(v[1], v[2])], Expected(v[1], v[2]), kq)

BoxVerdict(ev) ==
    LET ws == Words1(ev) IN
    IF ~AllFin(ws) THEN VSkip ELSE
    LET q == Tup(QSeq(ws)) IN
    IF ~(AllInRange(q) /\ QLt(q[1], q[2]) /\ QLt(q[3], q[4])) THEN VSkip
    ELSE IF ev.op = "ortho2" THEN VBool(CfgOK(ev) /\ MatOK(Fmt(ev), "ortho2", ev.r, Ortho2D(q[1], q[2], q[3], q[4]), KBox))
    ELSE IF ~(Pos(q[5]) /\ QLt(q[5], q[6])) THEN VSkip
    ELSE LET E(lh, zo) == IF ev.op = "ortho" THEN Ortho(q[1], q[2], q[3], q[4], q[5], q[6], lh, zo)
                          ELSE Frustum(q[1], q[2], q[3], q[4], q[5], q[6], lh, zo)
         IN VBool(CfgOK(ev) /\ FourOK(ev, ev.op, E, KBox) /\ DispatchOK(ev, {"U", "ZO", "NO", "LH", "RH"}))

\* a[1] is the angle the harness computed from T = tn/td (an input encoding; the oracle uses T itself)
FovVerdict(ev) ==
    LET ws == Words1(ev) IN
    IF ~AllFin(ws) \/ ev.tn < 1 \/ ev.td < 1 THEN VSkip ELSE
    LET q == Tup(QSeq(ws)) T == QF(ev.tn, ev.td) kq == KTan(T) IN
    IF ~(AllInRange(q) /\ Pos(q[1])) THEN VSkip
    ELSE CASE ev.op = "perspective" ->
                IF ~(Pos(q[2]) /\ Pos(q[3]) /\ QLt(q[3], q[4])) THEN VSkip
                ELSE LET E(lh, zo) == Perspective(T, q[2], q[3], q[4], lh, zo)
                     IN VBool(CfgOK(ev) /\ FourOK(ev, ev.op, E, kq) /\ DispatchOK(ev, {"U", "ZO", "NO", "LH", "RH"}))
           [] ev.op = "perspectiveFov" ->
                IF ~(Pos(q[2]) /\ Pos(q[3]) /\ Pos(q[4]) /\ QLt(q[4], q[5])) THEN VSkip
                ELSE LET E(lh, zo) == PerspectiveFov(T, q[2], q[3], q[4], q[5], lh, zo)
                     IN VBool(CfgOK(ev) /\ FourOK(ev, ev.op, E, kq) /\ DispatchOK(ev, {"U", "ZO", "NO", "LH", "RH"}))
           [] ev.op = "infinitePerspective" ->
                IF ~(Pos(q[2]) /\ Pos(q[3])) THEN VSkip
                ELSE LET E(lh, zo) == InfinitePerspective(T, q[2], q[3], lh, zo)
                     \* infinitePerspectiveLH / RH are judged whenever the build could call them
                     IN VBool(CfgOK(ev) /\ FourOK(ev, ev.op, E, kq) /\ DispatchOK(ev, {"U"} \cup (KindsPresent(ev) \cap {"LH", "RH"}))
                              /\ KindsPresent(ev) \cap {"ZO", "NO"} = {})
           [] ev.op = "tweaked" ->
                IF ~(Pos(q[2]) /\ Pos(q[3])) THEN VSkip
                ELSE VBool(CfgOK(ev) /\ MatOK(Fmt(ev), ev.op, ev.r, TweakedInfinitePerspective(T, q[2], q[3], EpsQ(ev)), kq))
           [] ev.op = "tweakedEp" ->
                IF ~(Pos(q[2]) /\ Pos(q[3])) THEN VSkip
                ELSE VBool(CfgOK(ev) /\ MatOK(Fmt(ev), ev.op, ev.r, TweakedInfinitePerspective(T, q[2], q[3], q[4]), kq))

\* ---------------------------------------------------------------- project / unProject / pickMatrix
QFromZZ(z) == QMk(z, <<1>>)
VpQ(ev, i) == IF ev.u = "i32" THEN Tup([j \in 1..4 |-> QFromZZ(WToZ(32, TRUE, WFromLimbs(ev.a[i][j])))]) ELSE Tup(QSeq(ev.a[i]))
VpFin(ev, i) == ev.u = "i32" \/ AllFin(ev.a[i])
MatQ(ws) == Mat(4, 4, Tup(QSeq(ws)))
KProj == 8           \* units of eps; the a-priori bound below is 3.5 (two 4-term products 3u + 3u, one division u)
KUnproj == 16        \* product (3u), cofactor inverse (2x2 / 3x3 / 4x4 expansions, about 10u), matrix * vector (3u), division

\* |.|-weighted first-order bound for  ndc = (P (M o)) / w :  each of the two matrix-vector products is a sum of 4
\* products (error <= 3u * sum of |terms|), so  err(clip_i) <= 6u A_i  with  A = |P| |M| |o|,  and
\* err(ndc_i) <= 6u (A_i + |ndc_i| A_4) / |w| + u |ndc_i|.   Then  win = (ndc/2 + 1/2) * size + origin.
ProjectVerdict(ev) ==
    IF ~(AllFin(ev.a[1]) /\ AllFin(ev.a[2]) /\ AllFin(ev.a[3]) /\ VpFin(ev, 4)) THEN VSkip ELSE
    LET obj == Tup(QSeq(ev.a[1])) M == MatQ(ev.a[2]) P == MatQ(ev.a[3]) vp == VpQ(ev, 4)
        c == ClipOf(obj, M, P) w == c[4]
        A == MVecN(MAbs(P), MVecN(MAbs(M), VAbs(Hom(obj))))
        eps == EpsQ(ev)
    IN IF ~(AllInRange(obj) /\ AllInRange(M.e) /\ AllInRange(P.e) /\ AllInRange(vp)) THEN VSkip
       ELSE IF QIsZero(w) \/ QLt(QMul(QAbs(w), Pow2Q(10)), A[4]) THEN VSkip          \* on or next to the plane w = 0
       ELSE LET nd == Tup([i \in 1..3 |-> QDiv(c[i], w)])
                tn == Tup([i \in 1..3 |-> QMul(QMulInt(eps, KProj), QDiv(QAdd(A[i], QMul(QAbs(nd[i]), A[4])), QAbs(w)))])
                hx(i) == QAdd(QMul(QAbs(nd[i]), QHalf), QHalf)
                tolXY(i, size, org) == QAdd(QMul(tn[i], QMul(QAbs(size), QHalf)), QMul(QMulInt(eps, 4), QAdd(QMul(hx(i), QAbs(size)), QAbs(org))))
                Good(r, zo) ==
                    LET e == ProjectQ(obj, M, P, vp, zo) IN
                    /\ AllFin(r)
                    /\ QNear(QW(r[1]), e[1], tolXY(1, vp[3], vp[1]))
                    /\ QNear(QW(r[2]), e[2], tolXY(2, vp[4], vp[2]))
                    /\ QNear(QW(r[3]), e[3], IF zo THEN tn[3] ELSE QAdd(QMul(tn[3], QHalf), QMul(QMulInt(eps, 2), hx(3))))
            IN VBool(CfgOK(ev) /\ Good(ev.ZO, TRUE) /\ Good(ev.NO, FALSE) /\ ev.U = (IF CfgZO(ev.cfg) THEN ev.ZO ELSE ev.NO))

\* unProject computes  Inv = inverse(fl(P*M)),  tmp = ndc(win),  o = Inv * tmp,  obj = o / o.w .
\* With  A = P*M,  AA = |P| |M|  (so |fl(P*M) - A| <= 3u AA)  and  B = |Inv| AA |Inv|  (>= |Inv|), a perturbation dA
\* of A moves Inv by Inv dA Inv, hence  err(o) <= K u B |tmp| + |Inv| err(tmp);  everything is kept multiplied by
\* det(A) (adj = det * Inv) so that only one division is needed.
UnProjectVerdict(ev) ==
    IF ~(AllFin(ev.a[1]) /\ AllFin(ev.a[2]) /\ AllFin(ev.a[3]) /\ VpFin(ev, 4)) THEN VSkip ELSE
    LET win == Tup(QSeq(ev.a[1])) M == MatQ(ev.a[2]) P == MatQ(ev.a[3]) vp == VpQ(ev, 4)
        eps == EpsQ(ev)
    IN IF ~(AllInRange(win) /\ AllInRange(M.e) /\ AllInRange(P.e) /\ AllInRange(vp)) \/ QIsZero(vp[3]) \/ QIsZero(vp[4]) THEN VSkip ELSE
       LET A == MMulN(P, M) det == Det4N(A) IN
       IF QIsZero(det) THEN VSkip ELSE
       LET adj == Adj4N(A) aadj == MAbs(adj) AA == MMulN(MAbs(P), MAbs(M))
           Judge(r, zo) ==                                   \* "ok" | "skip" | "bad"
               LET tmp == NdcOfWin(win, vp, zo)
                   o == MVecN(adj, tmp)
                   dtu == << QAdd(QAdd(QMul(QTwo, QDiv(QAbs(QSub(win[1], vp[1])), QAbs(vp[3]))), QAbs(tmp[1])), QOne),
                             QAdd(QAdd(QMul(QTwo, QDiv(QAbs(QSub(win[2], vp[2])), QAbs(vp[4]))), QAbs(tmp[2])), QOne),
                             QAbs(tmp[3]), QZero >>
                   Bt == MVecN(aadj, MVecN(AA, MVecN(aadj, VAbs(tmp))))          \* det^2 * B |tmp|
                   Dt == MVecN(aadj, dtu)                                        \* |det| * |Inv| dtu
                   E == Tup([i \in 1..4 |-> QMul(eps, QAdd(QDiv(QMulInt(Bt[i], KUnproj), QAbs(det)), Dt[i]))])   \* |det| * err(o_i)
               IN IF QIsZero(o[4]) \/ QLt(QAbs(o[4]), QMulInt(E[4], 8)) THEN "skip"                 \* pre-image at / next to infinity
                  ELSE LET e == DeHom(o) IN
                       IF AllFin(r) /\ \A i \in 1..3 :
                              QNear(QW(r[i]), e[i], QAdd(QMul(QF(9, 8), QDiv(QAdd(E[i], QMul(QAbs(e[i]), E[4])), QAbs(o[4]))), QMul(eps, QAbs(e[i]))))
                       THEN "ok" ELSE "bad"
           jz == Judge(ev.ZO, TRUE) jn == Judge(ev.NO, FALSE)
           same == ev.U = (IF CfgZO(ev.cfg) THEN ev.ZO ELSE ev.NO)
       IN IF jz = "bad" \/ jn = "bad" \/ ~CfgOK(ev) THEN VBad
          ELSE IF jz = "skip" /\ jn = "skip" THEN VSkip
          ELSE VBool(same)

\* pickMatrix: scale entries are one division; the translation is (size - 2 (c - org)) / delta: two once-rounded
\* differences (the doubling is exact) and a division, absolute error <= 2u (|size| + 2 |c - org|) / delta
PickVerdict(ev) ==
    IF ~(AllFin(ev.a[1]) /\ AllFin(ev.a[2]) /\ VpFin(ev, 3)) THEN VSkip ELSE
    LET c == Tup(QSeq(ev.a[1])) d == Tup(QSeq(ev.a[2])) vp == VpQ(ev, 3) f == Fmt(ev) eps == EpsQ(ev) IN
    IF ~(AllInRange(c) /\ AllInRange(d) /\ AllInRange(vp) /\ Pos(d[1]) /\ Pos(d[2])) THEN VSkip ELSE
    LET E == PickMatrix(c, d, vp)
        tolT(i) == QMul(QMulInt(eps, 4), QDiv(QAdd(QAbs(vp[2 + i]), QMul(QTwo, QAbs(QSub(c[i], vp[i])))), d[i]))
        r == ev.r
    IN VBool(/\ CfgOK(ev) /\ Len(r) = 16 /\ AllFin(r)
             /\ NearW(f, r[1], E.e[1], QTwo) /\ NearW(f, r[6], E.e[6], QTwo)
             /\ QNear(QW(r[13]), E.e[13], tolT(1)) /\ QNear(QW(r[14]), E.e[14], tolT(2))
             /\ \A i \in (1..16) \ {1, 6, 13, 14} : QEq(QW(r[i]), E.e[i]))

\* ---------------------------------------------------------------- configuration and missing functions
ConfigVerdict(ev) ==
    VBool(/\ CfgOK(ev)
          /\ ev.cfg = ClipCfgOf(ev.lhf = 1, ev.zof = 1)
          /\ ev.zo_bit = CC_ZO_BIT /\ ev.no_bit = CC_NO_BIT /\ ev.lh_bit = CC_LH_BIT /\ ev.rh_bit = CC_RH_BIT
          /\ ev.lh_zo = ClipCfgOf(TRUE, TRUE) /\ ev.lh_no = ClipCfgOf(TRUE, FALSE)
          /\ ev.rh_zo = ClipCfgOf(FALSE, TRUE) /\ ev.rh_no = ClipCfgOf(FALSE, FALSE))
\* a function the header declares (and documents) but the harness could not be linked against
MissingVerdict(ev) ==
    IF ev.fn \in {"infinitePerspectiveLH", "infinitePerspectiveRH"} THEN VKnown("KD-C08-infinitePerspectiveLH-RH-undefined") ELSE VBad

Verdict(ev) ==
    CASE ev.op \in {"ortho2", "ortho", "frustum"} -> BoxVerdict(ev)
      [] ev.op \in {"perspective", "perspectiveFov", "infinitePerspective", "tweaked", "tweakedEp"} -> FovVerdict(ev)
      [] ev.op = "project" -> ProjectVerdict(ev)
      [] ev.op = "unProject" -> UnProjectVerdict(ev)
      [] ev.op = "pickMatrix" -> PickVerdict(ev)
      [] ev.op = "config" -> ConfigVerdict(ev)
      [] ev.op = "missing" -> MissingVerdict(ev)
      [] OTHER -> VBad

Init == l = 1 /\ RegInit
Next == /\ l <= NTrace
        /\ LET ev == TraceLog[l] IN IF IsMarker(ev) THEN Bump(3) ELSE Record(l, Verdict(ev), ev.op)
        /\ l' = l + 1
Spec == Init /\ [][Next]_vars
Accepted == Summary
=============================================================================
